package main

import (
	"encoding"
	"bytes"
	stdjson "encoding/json"
	"fmt"
	"io"
	"strings"

	json "github.com/goccy/go-json"
)

func init() { props["C05"] = runC05 }

// ---- reference recogniser (independent of encoding/json and of go-json), with relaxations ----

type relax struct {
	ctlInString bool // raw control bytes 0x01..0x1f allowed inside strings (finding D02)
}

type refParser struct {
	b        []byte
	i        int
	rx       relax
	maxDepth int
}

func (p *refParser) ws() {
	for p.i < len(p.b) && (p.b[p.i] == ' ' || p.b[p.i] == '\t' || p.b[p.i] == '\n' || p.b[p.i] == '\r') {
		p.i++
	}
}

func isHexB(c byte) bool {
	return (c >= '0' && c <= '9') || (c >= 'a' && c <= 'f') || (c >= 'A' && c <= 'F')
}

func (p *refParser) str() bool {
	if p.i >= len(p.b) || p.b[p.i] != '"' {
		return false
	}
	p.i++
	for p.i < len(p.b) {
		c := p.b[p.i]
		switch {
		case c == '"':
			p.i++
			return true
		case c == '\\':
			p.i++
			if p.i >= len(p.b) {
				return false
			}
			switch p.b[p.i] {
			case '"', '\\', '/', 'b', 'f', 'n', 'r', 't':
				p.i++
			case 'u':
				if p.i+4 >= len(p.b) || !isHexB(p.b[p.i+1]) || !isHexB(p.b[p.i+2]) || !isHexB(p.b[p.i+3]) || !isHexB(p.b[p.i+4]) {
					return false
				}
				p.i += 5
			default:
				return false
			}
		case c == 0:
			return false
		case c < 0x20:
			if !p.rx.ctlInString {
				return false
			}
			p.i++
		default:
			p.i++
		}
	}
	return false
}

func (p *refParser) digits() bool {
	st := p.i
	for p.i < len(p.b) && p.b[p.i] >= '0' && p.b[p.i] <= '9' {
		p.i++
	}
	return p.i > st
}

func (p *refParser) num() bool {
	if p.i < len(p.b) && p.b[p.i] == '-' {
		p.i++
	}
	if p.i >= len(p.b) {
		return false
	}
	if p.b[p.i] == '0' {
		p.i++
	} else if p.b[p.i] >= '1' && p.b[p.i] <= '9' {
		p.digits()
	} else {
		return false
	}
	if p.i < len(p.b) && p.b[p.i] == '.' {
		p.i++
		if !p.digits() {
			return false
		}
	}
	if p.i < len(p.b) && (p.b[p.i] == 'e' || p.b[p.i] == 'E') {
		p.i++
		if p.i < len(p.b) && (p.b[p.i] == '+' || p.b[p.i] == '-') {
			p.i++
		}
		if !p.digits() {
			return false
		}
	}
	return true
}

func (p *refParser) lit(s string) bool {
	if strings.HasPrefix(string(p.b[p.i:]), s) {
		p.i += len(s)
		return true
	}
	return false
}

func (p *refParser) value(depth int) bool {
	if p.i >= len(p.b) {
		return false
	}
	switch c := p.b[p.i]; {
	case c == '{':
		if depth+1 > p.maxDepth {
			return false
		}
		p.i++
		p.ws()
		if p.i < len(p.b) && p.b[p.i] == '}' {
			p.i++
			return true
		}
		for {
			p.ws()
			if !p.str() {
				return false
			}
			p.ws()
			if p.i >= len(p.b) || p.b[p.i] != ':' {
				return false
			}
			p.i++
			p.ws()
			if !p.value(depth + 1) {
				return false
			}
			p.ws()
			if p.i >= len(p.b) {
				return false
			}
			if p.b[p.i] == '}' {
				p.i++
				return true
			}
			if p.b[p.i] != ',' {
				return false
			}
			p.i++
		}
	case c == '[':
		if depth+1 > p.maxDepth {
			return false
		}
		p.i++
		p.ws()
		if p.i < len(p.b) && p.b[p.i] == ']' {
			p.i++
			return true
		}
		for {
			p.ws()
			if !p.value(depth + 1) {
				return false
			}
			p.ws()
			if p.i >= len(p.b) {
				return false
			}
			if p.b[p.i] == ']' {
				p.i++
				return true
			}
			if p.b[p.i] != ',' {
				return false
			}
			p.i++
		}
	case c == '"':
		return p.str()
	case c == '-' || (c >= '0' && c <= '9'):
		return p.num()
	case c == 't':
		return p.lit("true")
	case c == 'f':
		return p.lit("false")
	case c == 'n':
		return p.lit("null")
	}
	return false
}

// refValid: b is ws value ws under the relaxation rx
func refValid(b []byte, rx relax) bool {
	p := &refParser{b: b, rx: rx, maxDepth: 10000}
	p.ws()
	if !p.value(0) {
		return false
	}
	p.ws()
	return p.i == len(b)
}

// ---- go-json's lenient skip language, re-implemented as the class predicate of finding D07 ----
// (a port of skipValue/skipObject/skipArray: brackets are counted, strings are skipped, numbers are
// runs over the float alphabet, literals are checked). Returns the end index or -1.

func floatAlpha(c byte) bool {
	return (c >= '0' && c <= '9') || c == '.' || c == 'e' || c == 'E' || c == '+' || c == '-'
}

func skipLang(b []byte, i int) int {
	for i < len(b) && (b[i] == ' ' || b[i] == '\t' || b[i] == '\n' || b[i] == '\r') {
		i++
	}
	if i >= len(b) {
		return -1
	}
	skipStr := func(i int) int { // i at opening quote
		for {
			i++
			if i >= len(b) || b[i] == 0 {
				return -1
			}
			if b[i] == '\\' {
				i++
				if i >= len(b) || b[i] == 0 {
					return -1
				}
			} else if b[i] == '"' {
				return i + 1
			}
		}
	}
	switch c := b[i]; {
	case c == '{' || c == '[':
		open, close := byte('{'), byte('}')
		if c == '[' {
			open, close = '[', ']'
		}
		count := 1
		i++
		for {
			if i >= len(b) || b[i] == 0 {
				return -1
			}
			switch b[i] {
			case open:
				count++
			case close:
				count--
				if count == 0 {
					return i + 1
				}
			case '"':
				i = skipStr(i)
				if i < 0 {
					return -1
				}
				continue
			}
			i++
		}
	case c == '"':
		return skipStr(i)
	case c == '-' || (c >= '0' && c <= '9'):
		i++
		for i < len(b) && floatAlpha(b[i]) {
			i++
		}
		return i
	case c == 't':
		if strings.HasPrefix(string(b[i:]), "true") {
			return i + 4
		}
	case c == 'f':
		if strings.HasPrefix(string(b[i:]), "false") {
			return i + 5
		}
	case c == 'n':
		if strings.HasPrefix(string(b[i:]), "null") {
			return i + 4
		}
	}
	return -1
}

// ---- destinations ----

type c05Unm struct{ raw []byte }

func (u *c05Unm) UnmarshalJSON(b []byte) error { u.raw = append([]byte{}, b...); return nil }

type c05StdUnm struct{ raw []byte }

func (u *c05StdUnm) UnmarshalJSON(b []byte) error { u.raw = append([]byte{}, b...); return nil }

type c05Struct struct {
	A int `json:"a"`
}
type c05WithUnm struct {
	A int     `json:"a"`
	U *c05Unm `json:"u"`
}
type c05StdWithUnm struct {
	A int        `json:"a"`
	U *c05StdUnm `json:"u"`
}

var c05Alphabet = []byte("[]{},:\"\\u01-+.eEtrfalsn \x00\x01\xff")

func c05Verdicts(c *Ctx, b []byte, modelOps bool) {
	std := stdjson.Valid(b)
	ref := refValid(b, relax{})
	if ref != std {
		// the reference recogniser itself is wrong: make it loud
		c.Oracle("selfcheck/ref-vs-std", fmt.Sprintf("%q", b), fmt.Sprintf("ref=%v", ref), fmt.Sprintf("std=%v", std), false, "")
	}
	// D02 (raw control bytes inside strings) was repaired: no class explains an accepted invalid text
	class := func() string { return "" }
	in := fmt.Sprintf("%q", b)
	// Unmarshal into interface{}
	var v interface{}
	gerr := json.Unmarshal(b, &v)
	var sv interface{}
	serr := stdjson.Unmarshal(b, &sv)
	ok := (gerr == nil) == (serr == nil)
	cl := ""
	if !ok && gerr == nil {
		cl = class()
	}
	c.Oracle("unmarshal-iface", in, fmt.Sprintf("err=%v", gerr), fmt.Sprintf("err=%v", serr), ok, cl)
	if modelOps {
		res := "err"
		if gerr == nil {
			res = "ok"
		}
		c.Op("acc 1 "+hx(b), res, len(b) > 1, "acc")
	}
	if modelOps {
		// the whole document passed over: a root Unmarshaler gets the text skipValue delimits
		var u c05Unm
		res := "err"
		if json.Unmarshal(b, &u) == nil {
			res = "ok"
		}
		c.Op("skp "+hx(b), res, len(b) > 1, "skp")
	}
	// Valid
	gv := json.Valid(b)
	cl = ""
	if gv != std && gv {
		cl = class()
	}
	c.Oracle("valid", in, fmt.Sprintf("%v", gv), fmt.Sprintf("%v", std), gv == std, cl)
	// Decoder: exactly one document
	dec := json.NewDecoder(bytes.NewReader(b))
	var dv interface{}
	e1 := dec.Decode(&dv)
	one := false
	if e1 == nil {
		var dv2 interface{}
		e2 := dec.Decode(&dv2)
		one = e2 == io.EOF
	}
	cl = ""
	if one != (serr == nil) && one {
		cl = class()
		if t := bytes.TrimLeft(b, " \t\r\n"); cl == "" && len(t) > 0 && (t[0] == ',' || t[0] == ':') {
			// Decoder.Decode skips one leading ',' or ':' (PrepareForDecode) whatever the token state
			cl = "C05-stream-leading-separator"
		}
	}
	c.Oracle("decoder-one-doc", in, fmt.Sprintf("%v (err=%v)", one, e1), fmt.Sprintf("%v", serr == nil), one == (serr == nil), cl)
}

func c05Typed(c *Ctx, b []byte) {
	in := fmt.Sprintf("%q", b)
	// D07 (skipped parts only bracket-counted) and D02 (control bytes in strings) were repaired: no
	// class explains an accepted invalid text any more
	// (a NUL byte in the input used to end the stream's window: repaired)
	nulClass := ""
	if t := bytes.TrimLeft(b, " \t\r\n"); len(t) > 0 && (t[0] == ',' || t[0] == ':') {
		// Decoder.Decode skips one leading ',' or ':' (PrepareForDecode) whatever the token state (open finding)
		nulClass = "C05-stream-leading-separator"
	}
	type tc struct {
		name string
		g, s func() interface{}
	}
	for _, t := range []tc{
		{"struct-unknown", func() interface{} { return new(c05Struct) }, func() interface{} { return new(c05Struct) }},
		{"short-array", func() interface{} { return new([1]int) }, func() interface{} { return new([1]int) }},
		{"unmarshaler-member", func() interface{} { return new(c05WithUnm) }, func() interface{} { return new(c05StdWithUnm) }},
		{"empty-struct", func() interface{} { return new(struct{}) }, func() interface{} { return new(struct{}) }},
		{"empty-array", func() interface{} { return new([0]int) }, func() interface{} { return new([0]int) }},
	} {
		gerr, serr := json.Unmarshal(b, t.g()), stdjson.Unmarshal(b, t.s())
		c.Oracle("typed/"+t.name, in, fmt.Sprintf("err=%v", gerr), fmt.Sprintf("err=%v", serr), (gerr == nil) == (serr == nil), "")
		gerr, serr = json.NewDecoder(bytes.NewReader(b)).Decode(t.g()), stdjson.NewDecoder(bytes.NewReader(b)).Decode(t.s())
		c.Oracle("typed/"+t.name+"/stream", in, fmt.Sprintf("err=%v", gerr), fmt.Sprintf("err=%v", serr), (gerr == nil) == (serr == nil), nulClass)
		gerr = json.NewDecoder(&chunkReader{data: b, size: 1}).Decode(t.g())
		c.Oracle("typed/"+t.name+"/stream1", in, fmt.Sprintf("err=%v", gerr), fmt.Sprintf("err=%v", serr), (gerr == nil) == (serr == nil), nulClass)
	}
	{
		// first-win: once every field has been seen the rest of the object is passed over
		var g c05Struct
		var sv stdjson.RawMessage
		gerr, valid := json.UnmarshalWithOption(b, &g, json.DecodeFieldPriorityFirstWin()), stdjson.Valid(b)
		var s c05Struct
		serr := stdjson.Unmarshal(b, &s)
		// a repeated member is passed over, so a type error of encoding/json (last wins) is no guide: success
		// needs a valid text, and a text encoding/json decodes must succeed
		c.Oracle("typed/first-win", in, fmt.Sprintf("err=%v", gerr), fmt.Sprintf("valid=%v err=%v", valid, serr), (gerr != nil || valid) && (serr != nil || gerr == nil), "")
		d := json.NewDecoder(&chunkReader{data: b, size: 1})
		gerr = d.DecodeWithOption(&g, json.DecodeFieldPriorityFirstWin())
		valid = stdjson.NewDecoder(bytes.NewReader(b)).Decode(&sv) == nil
		serr = stdjson.NewDecoder(bytes.NewReader(b)).Decode(&s)
		c.Oracle("typed/first-win/stream1", in, fmt.Sprintf("err=%v", gerr), fmt.Sprintf("valid=%v err=%v", valid, serr), (gerr != nil || valid) && (serr != nil || gerr == nil), nulClass)
	}
}

type c05StrField struct {
	X string `json:"x"`
}

// c05Strings: a string literal (well formed or not) met by each of the string scanners: string value,
// struct field, map key, struct key (matched against the field table or skipped), slice element,
// UnmarshalText payload; buffer mode against encoding/json's Unmarshal, stream mode against its Decoder.
func c05Strings(c *Ctx, lit []byte) {
	l := string(lit)
	type tc struct {
		name, doc string
		g, s      func() interface{}
	}
	tcs := []tc{
		{"string", l, func() interface{} { return new(string) }, func() interface{} { return new(string) }},
		{"field", `{"x":` + l + `}`, func() interface{} { return new(c05StrField) }, func() interface{} { return new(c05StrField) }},
		{"mapkey", `{` + l + `:1}`, func() interface{} { return new(map[string]int) }, func() interface{} { return new(map[string]int) }},
		{"structkey", `{` + l + `:1}`, func() interface{} { return new(c05Struct) }, func() interface{} { return new(c05Struct) }},
		{"ifacekey", `{` + l + `:1}`, func() interface{} { return new(interface{}) }, func() interface{} { return new(interface{}) }},
		{"elem", `[` + l + `]`, func() interface{} { return new([]string) }, func() interface{} { return new([]string) }},
		{"text", l, func() interface{} { return new(c17Text) }, func() interface{} { return new(c17StdText) }},
		{"ifacetext", l, func() interface{} { var u encoding.TextUnmarshaler = new(c17Text); return &u }, func() interface{} { var u encoding.TextUnmarshaler = new(c17StdText); return &u }},
	}
	for _, t := range tcs {
		gerr, serr := json.Unmarshal([]byte(t.doc), t.g()), stdjson.Unmarshal([]byte(t.doc), t.s())
		cl := ""
		if gerr == nil && serr != nil && !stdjson.Valid([]byte(t.doc)) {
			cl = "" // D02 repaired: nothing explains an accepted invalid literal
		}
		c.Oracle("strings/"+t.name+"/buf", t.doc, fmt.Sprintf("err=%v", gerr), fmt.Sprintf("err=%v", serr), (gerr == nil) == (serr == nil), cl)
		gerr, serr = json.NewDecoder(strings.NewReader(t.doc)).Decode(t.g()), stdjson.NewDecoder(strings.NewReader(t.doc)).Decode(t.s())
		c.Oracle("strings/"+t.name+"/stream", t.doc, fmt.Sprintf("err=%v", gerr), fmt.Sprintf("err=%v", serr), (gerr == nil) == (serr == nil), cl)
	}
}

func runC05(c *Ctx) {
	c.Rep.Rule = "exhaustive byte strings over the 26-symbol alphabet []{},:\"\\u01-+.eEtrfalsn SP NUL 0x01 0xff up to a length bound, then grammar texts with every single-byte deletion/insertion/substitution; " +
		"op acc(range,bytes) = Unmarshal into interface{} vs Lean model; oracles: encoding/json (Unmarshal, Valid, Decoder), an independent reference recogniser; " +
		"non-trivial = length >= 2; distinct = distinct byte string"
	maxLen := 4
	if c.Thorough() {
		maxLen = 5
	}
	// exhaustive
	var rec func(prefix []byte)
	n := 0
	rec = func(prefix []byte) {
		c05Verdicts(c, prefix, true)
		if len(prefix) <= 3 {
			c05Typed(c, append(append([]byte(`{"x":`), prefix...), '}'))
			c05Typed(c, append(append([]byte(`[1,`), prefix...), ']'))
			c05Typed(c, append(append([]byte(`{"u":`), prefix...), '}'))
			c05Typed(c, append(append([]byte(`{"a":1,"a":`), prefix...), '}'))
			c05Typed(c, append(append([]byte(`{"a":1`), prefix...), '}'))
		}
		n++
		if len(prefix) == maxLen {
			return
		}
		for _, a := range c05Alphabet {
			rec(append(prefix, a))
		}
	}
	rec([]byte{})
	c.Rep.Exhaustive = append(c.Rep.Exhaustive, fmt.Sprintf("all %d byte strings of length <= %d over the 26-symbol alphabet: Unmarshal->interface{}, Valid, Decoder; length <= 3 also embedded in skipped positions of typed destinations", n, maxLen))
	// string literals: every body over the escape alphabet (one \u escape is longer than the sweep above)
	bl := 6
	if c.Thorough() {
		bl = 7
	}
	nb := strBodies(bl, func(body []byte) {
		lit := quoted(body)
		c05Verdicts(c, lit, true)
		c05Strings(c, lit)
		if len(body) <= 5 {
			c05Typed(c, append(append([]byte(`{"x":`), lit...), '}'))
		}
	})
	c.Rep.Exhaustive = append(c.Rep.Exhaustive, fmt.Sprintf("all %d string literals whose body is a sequence of length <= %d over \\ u 0 a F g \" n, in 7 typed positions x buffer/stream", nb, bl))
	// token sequences: values in key position, missing or doubled separators, unbalanced brackets
	tl := 5
	if c.Thorough() {
		tl = 6
	}
	nt := tokenSeqs(tl, func(doc []byte) {
		d := append([]byte(nil), doc...)
		c05Verdicts(c, d, true)
		if len(d) <= 12 {
			c05Typed(c, append(append([]byte(`{"x":`), d...), '}'))
		}
	})
	c.Rep.Exhaustive = append(c.Rep.Exhaustive, fmt.Sprintf("all %d sequences of up to %d tokens over { } [ ] , : 1 \"a\" null true SP", nt, tl))
	// every byte value as the escape letter, as each of the four hex digits, and raw
	for x := 0; x < 256; x++ {
		for _, f := range []string{"\"\\%c\"", "\"\\u000%c\"", "\"\\u00%c0\"", "\"\\u0%c00\"", "\"\\u%c000\"", "\"%c\"", "\"a\\%cb\"",
			// the second escape of a surrogate pair, and what follows a lone half
			"\"\\ud800\\udc0%c\"", "\"\\ud800\\udc%c0\"", "\"\\ud800\\ud%c00\"", "\"\\ud800\\u%c000\"", "\"\\uD83D\\uDE0%c\"", "\"\\ud800\\%c\"", "\"\\udc00\\u004%c\""} {
			lit := []byte(strings.Replace(f, "%c", string([]byte{byte(x)}), 1))
			c05Verdicts(c, lit, true)
			c05Strings(c, lit)
			c05Typed(c, append(append([]byte(`{"x":`), lit...), '}'))
		}
	}
	// grammar-generated texts and their single-byte mutations
	ndocs := 300
	if c.Thorough() {
		ndocs = 4000
	}
	for i := 0; i < ndocs; i++ {
		doc := []byte(genDoc(c, 3))
		c05Verdicts(c, doc, true)
		c05Typed(c, doc)
		for pos := 0; pos <= len(doc); pos++ {
			if pos < len(doc) {
				del := append(append([]byte{}, doc[:pos]...), doc[pos+1:]...)
				c05Verdicts(c, del, true)
				sub := append([]byte{}, doc...)
				sub[pos] = c05Alphabet[c.Rng.Intn(len(c05Alphabet))]
				c05Verdicts(c, sub, true)
				c05Typed(c, sub)
			}
			ins := append(append(append([]byte{}, doc[:pos]...), c05Alphabet[c.Rng.Intn(len(c05Alphabet))]), doc[pos:]...)
			c05Verdicts(c, ins, true)
			// every structural byte inserted at every position (trailing commas, stray brackets, …)
			if i%4 == 0 || c.Thorough() {
				for _, sb := range []byte(",:]}[{\"0") {
					ins := append(append(append([]byte{}, doc[:pos]...), sb), doc[pos:]...)
					c05Verdicts(c, ins, true)
				}
			}
		}
	}
	// what follows the value when the value (and the white space behind it) ends at or near the end of a
	// buffered window of the stream (Valid and the Decoder read 512-byte windows that double)
	for _, win := range []int{512, 1024, 2048} {
		for delta := -3; delta <= 2; delta++ {
			n := win + delta
			for _, tail := range []string{"", "x", "]", "{}", ",", " 1", "\"", "\n\t"} {
				for _, mk := range []func(int) string{
					func(n int) string { return `"` + strings.Repeat("a", n-2) + `"` },
					func(n int) string { return "{}" + strings.Repeat(" ", n-2) },
					func(n int) string { return "[1,2]" + strings.Repeat("\n", n-5) },
					func(n int) string { return `{"k":[` + strings.Repeat("1,", (n-8)/2) + `1]}` + strings.Repeat(" ", (n-8)%2+1) },
					func(n int) string { return strings.Repeat(" ", n-4) + "true" },
				} {
					c05Verdicts(c, []byte(mk(n)+tail), false)
				}
			}
		}
	}
	// depth limit neighbourhood
	for _, d := range []int{9999, 10000, 10001} {
		doc := []byte(strings.Repeat("[", d) + strings.Repeat("]", d))
		c05Verdicts(c, doc, false)
		doc = []byte(strings.Repeat(`{"a":`, d) + "1" + strings.Repeat("}", d))
		c05Verdicts(c, doc, false)
	}
	// float range neighbourhood (interface{} destination: ParseFloat range error)
	for _, s := range []string{"1e308", "1.7976931348623157e308", "1.7976931348623158e308", "1.7976931348623159e308", "1.797693134862315807e308", "1.797693134862315808e308", "17976931348623158e292", "2e308", "1e309", "-1e309", "1e-400", "0e999", "0.0e999", "179769313486231580793728971405303415079934132710037826936173778980444968292764750946649017977587207096330286416692887910946555547851940402630657488671505820681908902000708383676273854845817711531764475730270069855571366959622842914819860834936475292719074168444365510704342711559699508093042880177904174497791.9999999999999999999999999999999999999999999999999999999999999999999999"} {
		c05Verdicts(c, []byte(s), true)
		c05Verdicts(c, []byte("["+s+"]"), true)
	}
}

// genDoc: a random JSON text from the grammar (white space, escapes, number forms, nesting)
func genDoc(c *Ctx, depth int) string {
	ws := func() string {
		switch c.Rng.Intn(6) {
		case 0:
			return " "
		case 1:
			return "\n\t"
		}
		return ""
	}
	var val func(d int) string
	str := func() string {
		items := []string{"a", "key", "", "é", `\n`, `\"`, `\\`, `A`, `😀`, `\/`, "x y", "0", "<&>"}
		n := c.Rng.Intn(3)
		s := ""
		for i := 0; i < n; i++ {
			s += items[c.Rng.Intn(len(items))]
		}
		return `"` + s + `"`
	}
	num := func() string {
		forms := []string{"0", "-0", "1", "-12", "3.25", "0.5", "1e5", "1E-2", "-2.5e+10", "123456789012345678901234567890", "1e308", "9007199254740993"}
		return forms[c.Rng.Intn(len(forms))]
	}
	val = func(d int) string {
		k := c.Rng.Intn(8)
		if d <= 0 && k < 3 {
			k += 3
		}
		switch k {
		case 0, 1:
			n := c.Rng.Intn(4)
			parts := []string{}
			for i := 0; i < n; i++ {
				parts = append(parts, ws()+val(d-1)+ws())
			}
			if n == 0 {
				return "[" + ws() + "]"
			}
			return "[" + strings.Join(parts, ",") + "]"
		case 2:
			n := c.Rng.Intn(4)
			parts := []string{}
			for i := 0; i < n; i++ {
				key := str()
				if c.Rng.Intn(3) == 0 {
					key = []string{`"a"`, `"u"`, `"x"`}[c.Rng.Intn(3)]
				}
				parts = append(parts, ws()+key+ws()+":"+ws()+val(d-1)+ws())
			}
			if n == 0 {
				return "{" + ws() + "}"
			}
			return "{" + strings.Join(parts, ",") + "}"
		case 3:
			return str()
		case 4:
			return num()
		case 5:
			return "true"
		case 6:
			return "false"
		}
		return "null"
	}
	return ws() + val(depth) + ws()
}
