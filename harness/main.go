// harness: runs the real go-json (built from /repo's working tree with -tags verif) on generated
// inputs, writes the op stream for the Lean model driver, the implementation's answers, and a
// report with oracle verdicts (the property judged directly on the implementation).
//
// usage: harness <property> -tier quick|thorough -seed N -out DIR
package main

import (
	"bufio"
	"encoding/json"
	"flag"
	"fmt"
	"hash/fnv"
	"math/rand"
	"os"
	"path/filepath"
	"sort"
	"time"
)

type OracleFail struct {
	Check  string `json:"check"`
	Input  string `json:"input"`
	Impl   string `json:"impl"`
	Oracle string `json:"oracle"`
	Class  string `json:"class,omitempty"` // known-finding class id, when the input is in one
}

type Report struct {
	Property    string         `json:"property"`
	Tier        string         `json:"tier"`
	Seed        int64          `json:"seed"`
	Evaluations int            `json:"evaluations"`
	Distinct    int            `json:"distinct_nontrivial"`
	Rule        string         `json:"rule"`
	Samples     []string       `json:"samples"`
	Hist        map[string]int `json:"histogram"`
	OracleEvals int            `json:"oracle_evaluations"`
	Fails       []OracleFail   `json:"oracle_failures"`
	Known       map[string]int `json:"known_finding_hits"`
	Exhaustive  []string       `json:"exhaustive_spaces,omitempty"`
	WallS       float64        `json:"wall_s"`
}

type Ctx struct {
	Tier     string
	Seed     int64
	Rng      *rand.Rand
	ops      *bufio.Writer
	impl     *bufio.Writer
	Rep      *Report
	seen     map[uint64]struct{}
	maxFails int
}

func (c *Ctx) Thorough() bool { return c.Tier == "thorough" }

// Op records one model-correspondence operation: the line sent to the Lean driver and what the
// implementation answered. nontrivial says whether it counts towards distinct_nontrivial.
func (c *Ctx) Op(line, implOut string, nontrivial bool, bucket string) {
	c.ops.WriteString(line)
	c.ops.WriteByte('\n')
	c.impl.WriteString(implOut)
	c.impl.WriteByte('\n')
	c.Rep.Evaluations++
	if bucket != "" {
		c.Rep.Hist[bucket]++
	}
	if nontrivial {
		h := fnv.New64a()
		h.Write([]byte(line))
		k := h.Sum64()
		if _, ok := c.seen[k]; !ok {
			c.seen[k] = struct{}{}
			c.Rep.Distinct++
		}
	}
	if len(c.Rep.Samples) < 12 && (c.Rep.Evaluations%9973 == 1 || len(c.Rep.Samples) < 3) {
		c.Rep.Samples = append(c.Rep.Samples, line+" => "+implOut)
	}
}

// Oracle records a direct judgement of the property on the implementation.
func (c *Ctx) Oracle(check, input, impl, oracle string, ok bool, class string) {
	c.Rep.OracleEvals++
	c.Rep.Hist["oracle:"+check]++
	if ok {
		return
	}
	if class != "" {
		c.Rep.Known[class]++
		return
	}
	if len(c.Rep.Fails) < c.maxFails {
		c.Rep.Fails = append(c.Rep.Fails, OracleFail{check, input, impl, oracle, class})
	}
}

type propFunc func(c *Ctx)

var props = map[string]propFunc{}

func main() {
	if len(os.Args) < 2 {
		fmt.Fprintln(os.Stderr, "usage: harness <property> -tier T -seed N -out DIR")
		os.Exit(2)
	}
	prop := os.Args[1]
	fs := flag.NewFlagSet("harness", flag.ExitOnError)
	tier := fs.String("tier", "quick", "")
	seed := fs.Int64("seed", 1, "")
	out := fs.String("out", "", "")
	replay := fs.String("replay", "", "replay file (json) — run only that input")
	fs.Parse(os.Args[2:])
	f, ok := props[prop]
	if !ok {
		fmt.Fprintln(os.Stderr, "unknown property", prop)
		var ks []string
		for k := range props {
			ks = append(ks, k)
		}
		sort.Strings(ks)
		fmt.Fprintln(os.Stderr, "known:", ks)
		os.Exit(2)
	}
	_ = replay
	if *out == "" {
		fmt.Fprintln(os.Stderr, "-out required")
		os.Exit(2)
	}
	os.MkdirAll(*out, 0o755)
	of, _ := os.Create(filepath.Join(*out, "ops.txt"))
	imf, _ := os.Create(filepath.Join(*out, "impl.txt"))
	c := &Ctx{Tier: *tier, Seed: *seed, Rng: rand.New(rand.NewSource(*seed)),
		ops: bufio.NewWriterSize(of, 1<<20), impl: bufio.NewWriterSize(imf, 1<<20),
		Rep:  &Report{Property: prop, Tier: *tier, Seed: *seed, Hist: map[string]int{}, Known: map[string]int{}, Fails: []OracleFail{}, Samples: []string{}},
		seen: map[uint64]struct{}{}, maxFails: 20}
	t0 := time.Now()
	f(c)
	c.ops.Flush()
	c.impl.Flush()
	of.Close()
	imf.Close()
	c.Rep.WallS = time.Since(t0).Seconds()
	js, _ := json.MarshalIndent(c.Rep, "", " ")
	os.WriteFile(filepath.Join(*out, "report.json"), js, 0o644)
}
