// harness: runs the real go-json (built from /repo's working tree with -tags verif) on generated
// inputs, writes the op stream for the Lean model driver, the implementation's answers, and a
// report with oracle verdicts (the property judged directly on the implementation).
//
// usage: harness <property> -tier quick|thorough -seed N -out DIR
package main

import (
	"bufio"
	"bytes"
	"context"
	"encoding/json"
	"flag"
	"fmt"
	"hash/fnv"
	"math/rand"
	"os"
	"os/exec"
	"path/filepath"
	"sort"
	"strings"
	"sync"
	"syscall"
	"time"
)

type OracleFail struct {
	Check  string `json:"check"`
	Input  string `json:"input"`
	Impl   string `json:"impl"`
	Oracle string `json:"oracle"`
	Class  string `json:"class,omitempty"` // known-finding class id, when the input is in one
}

type Report struct {
	Property    string         `json:"property"`
	Tier        string         `json:"tier"`
	Seed        int64          `json:"seed"`
	Evaluations int            `json:"evaluations"`
	Distinct    int            `json:"distinct_nontrivial"`
	Rule        string         `json:"rule"`
	Samples     []string       `json:"samples"`
	Hist        map[string]int `json:"histogram"`
	OracleEvals int            `json:"oracle_evaluations"`
	Fails       []OracleFail   `json:"oracle_failures"`
	Known       map[string]int `json:"known_finding_hits"`
	Exhaustive  []string       `json:"exhaustive_spaces,omitempty"`
	WallS       float64        `json:"wall_s"`
}

type Ctx struct {
	Tier     string
	Seed     int64
	Rng      *rand.Rand
	ops      *bufio.Writer
	impl     *bufio.Writer
	Rep      *Report
	seen     map[uint64]struct{}
	maxFails int
	worker   string
	outDir   string
	deadline time.Time // parent process: no new worker is started after this
	late     map[string]bool
	// settings of the next RunCases call (reset by it): cases per worker process, the executable the
	// workers run (default: this one), extra environment, seconds allowed per case
	Chunk      int
	WorkerExe  string
	WorkerEnv  []string
	CaseBudget int
}

func (c *Ctx) Thorough() bool { return c.Tier == "thorough" }

// Op records one model-correspondence operation: the line sent to the Lean driver and what the
// implementation answered. nontrivial says whether it counts towards distinct_nontrivial.
func (c *Ctx) Op(line, implOut string, nontrivial bool, bucket string) {
	c.ops.WriteString(line)
	c.ops.WriteByte('\n')
	c.impl.WriteString(implOut)
	c.impl.WriteByte('\n')
	c.Rep.Evaluations++
	if bucket != "" {
		c.Rep.Hist[bucket]++
	}
	if nontrivial {
		h := fnv.New64a()
		h.Write([]byte(line))
		k := h.Sum64()
		if _, ok := c.seen[k]; !ok {
			c.seen[k] = struct{}{}
			c.Rep.Distinct++
		}
	}
	if len(c.Rep.Samples) < 12 && (c.Rep.Evaluations%9973 == 1 || len(c.Rep.Samples) < 3) {
		c.Rep.Samples = append(c.Rep.Samples, line+" => "+implOut)
	}
}

// Oracle records a direct judgement of the property on the implementation.
func (c *Ctx) Oracle(check, input, impl, oracle string, ok bool, class string) {
	c.Rep.OracleEvals++
	c.Rep.Hist["oracle:"+check]++
	if ok {
		return
	}
	if class != "" {
		c.Rep.Known[class]++
		return
	}
	c.Rep.Hist["FAILED:"+check]++
	if len(c.Rep.Fails) < c.maxFails {
		c.Rep.Fails = append(c.Rep.Fails, OracleFail{check, input, impl, oracle, class})
	}
}

// IsWorker: this process runs one range of cases of one group on behalf of a parent harness
func (c *Ctx) IsWorker() bool { return c.worker != "" }

func caseRng(seed int64, group string, k int) *rand.Rand {
	h := fnv.New64a()
	h.Write([]byte(group))
	return rand.New(rand.NewSource(seed*1000003 + int64(h.Sum64()%1000003)*7919 + int64(k)))
}

// RunCases runs cases 0..n-1 of a named group; case k is a deterministic function of (seed, group, k).
// The parent process runs them in worker subprocesses (several at a time), so that a fatal runtime
// error of the implementation — which cannot be recovered in-process — is attributed to the case that
// caused it instead of ending the whole check: a chunk whose worker dies is re-run case by case.
// desc describes case k without touching the implementation; classOf gives its known-finding class.
func (c *Ctx) RunCases(group string, n int, run func(c *Ctx, k int, rng *rand.Rand), desc func(k int, rng *rand.Rand) string, classOf func(k int, rng *rand.Rand) string) {
	if c.worker != "" {
		var g string
		var from, to int
		parts := strings.Split(c.worker, ":")
		if len(parts) != 3 {
			return
		}
		g = parts[0]
		fmt.Sscanf(parts[1], "%d", &from)
		fmt.Sscanf(parts[2], "%d", &to)
		if g != group {
			return
		}
		for k := from; k < to && k < n; k++ {
			run(c, k, caseRng(c.Seed, group, k))
		}
		return
	}
	if os.Getenv("VERIF_INPROCESS") != "" {
		for k := 0; k < n; k++ {
			run(c, k, caseRng(c.Seed, group, k))
		}
		return
	}
	chunk := 250
	if c.Chunk > 0 {
		chunk = c.Chunk
	}
	workerExe := os.Args[0]
	if c.WorkerExe != "" {
		workerExe = c.WorkerExe
	}
	workerEnv := c.WorkerEnv
	perCase := time.Second
	if c.CaseBudget > 0 {
		perCase = time.Duration(c.CaseBudget) * time.Second
	}
	c.Chunk, c.WorkerExe, c.WorkerEnv, c.CaseBudget = 0, "", nil, 0
	type job struct {
		from, to int
		dir      string
		err      error
		stderr   string
	}
	var jobs []*job
	for from := 0; from < n; from += chunk {
		to := from + chunk
		if to > n {
			to = n
		}
		jobs = append(jobs, &job{from: from, to: to, dir: filepath.Join(c.outDir, "w", fmt.Sprintf("%s-%d", group, from))})
	}
	spawn := func(j *job) {
		if time.Now().After(c.deadline) {
			j.err = fmt.Errorf("not started: time budget of the run used up")
			j.stderr = j.err.Error()
			return
		}
		os.MkdirAll(j.dir, 0o755)
		limit := 20*time.Second + time.Duration(j.to-j.from)*perCase
		cctx, cancel := context.WithTimeout(context.Background(), limit)
		defer cancel()
		cmd := exec.CommandContext(cctx, workerExe, c.Rep.Property, "-tier", c.Tier, "-seed", fmt.Sprint(c.Seed), "-out", j.dir)
		cmd.Env = append(append(os.Environ(), fmt.Sprintf("VERIF_WORKER=%s:%d:%d", group, j.from, j.to), "GOMEMLIMIT=3GiB"), workerEnv...)
		var eb bytes.Buffer
		cmd.Stderr = &eb
		j.err = cmd.Run()
		j.stderr = eb.String()
		if cctx.Err() != nil {
			j.stderr = fmt.Sprintf("no result within %v (killed)\n\n", limit) + j.stderr
		}
	}
	sem := make(chan struct{}, 8)
	var wg sync.WaitGroup
	for _, j := range jobs {
		wg.Add(1)
		sem <- struct{}{}
		go func(j *job) {
			defer wg.Done()
			defer func() { <-sem }()
			spawn(j)
		}(j)
	}
	wg.Wait()
	merge := func(dir string) {
		var r Report
		b, err := os.ReadFile(filepath.Join(dir, "report.json"))
		if err != nil || json.Unmarshal(b, &r) != nil {
			return
		}
		c.Rep.Evaluations += r.Evaluations
		c.Rep.Distinct += r.Distinct
		c.Rep.OracleEvals += r.OracleEvals
		for k, v := range r.Hist {
			c.Rep.Hist[k] += v
		}
		for k, v := range r.Known {
			c.Rep.Known[k] += v
		}
		for _, f := range r.Fails {
			if len(c.Rep.Fails) < c.maxFails {
				c.Rep.Fails = append(c.Rep.Fails, f)
			}
		}
		for _, s := range r.Samples {
			if len(c.Rep.Samples) < 12 {
				c.Rep.Samples = append(c.Rep.Samples, s)
			}
		}
		if ob, err := os.ReadFile(filepath.Join(dir, "ops.txt")); err == nil {
			c.ops.Write(ob)
		}
		if ib, err := os.ReadFile(filepath.Join(dir, "impl.txt")); err == nil {
			c.impl.Write(ib)
		}
	}
	dead := 0
	for _, j := range jobs {
		if j.err == nil {
			merge(j.dir)
			continue
		}
		if time.Now().After(c.deadline) {
			if !c.late[group] {
				c.late[group] = true
				c.Oracle(group+"/time-budget", fmt.Sprintf("cases %d.. of group %s", j.from, group), "the time budget of the run was used up before these cases finished (workers dying or timing out)", "the run finishes in time", false, "")
			}
			continue
		}
		if dead >= 8 {
			// enough witnesses: the rest of the group is not re-run case by case
			c.Oracle(group+"/fatal", fmt.Sprintf("cases %d..%d of group %s", j.from, j.to-1, group), "the worker died; not re-run case by case after 8 fatal cases", "returns", false, "")
			continue
		}
		// the worker died: find the case(s), several at a time
		ones := make([]*job, 0, j.to-j.from)
		for k := j.from; k < j.to; k++ {
			ones = append(ones, &job{from: k, to: k + 1, dir: filepath.Join(c.outDir, "w", fmt.Sprintf("%s-one-%d", group, k))})
		}
		for lo := 0; lo < len(ones) && dead < 8 && !time.Now().After(c.deadline); lo += 8 {
			hi := lo + 8
			if hi > len(ones) {
				hi = len(ones)
			}
			var wg1 sync.WaitGroup
			for _, one := range ones[lo:hi] {
				wg1.Add(1)
				go func(one *job) { defer wg1.Done(); spawn(one) }(one)
			}
			wg1.Wait()
			for _, one := range ones[lo:hi] {
				k := one.from
				if one.err == nil {
					merge(one.dir)
					continue
				}
				dead++
				first := one.stderr
				if i := strings.Index(first, "\n\n"); i > 0 {
					first = first[:i]
				}
				if len(first) > 300 {
					first = first[:300]
				}
				cls := ""
				if classOf != nil {
					cls = classOf(k, caseRng(c.Seed, group, k))
				}
				if cls != "" {
					dead-- // a known finding is not a reason to stop looking
				}
				c.Oracle(group+"/fatal", desc(k, caseRng(c.Seed, group, k)), "the process died: "+first, "returns", false, cls)
			}
		}
	}
	os.RemoveAll(filepath.Join(c.outDir, "w"))
}

type propFunc func(c *Ctx)

var props = map[string]propFunc{}

func main() {
	if len(os.Args) < 2 {
		fmt.Fprintln(os.Stderr, "usage: harness <property> -tier T -seed N -out DIR")
		os.Exit(2)
	}
	prop := os.Args[1]
	fs := flag.NewFlagSet("harness", flag.ExitOnError)
	tier := fs.String("tier", "quick", "")
	seed := fs.Int64("seed", 1, "")
	out := fs.String("out", "", "")
	replay := fs.String("replay", "", "replay file (json) — run only that input")
	fs.Parse(os.Args[2:])
	f, ok := props[prop]
	if !ok {
		fmt.Fprintln(os.Stderr, "unknown property", prop)
		var ks []string
		for k := range props {
			ks = append(ks, k)
		}
		sort.Strings(ks)
		fmt.Fprintln(os.Stderr, "known:", ks)
		os.Exit(2)
	}
	_ = replay
	if *out == "" {
		fmt.Fprintln(os.Stderr, "-out required")
		os.Exit(2)
	}
	os.MkdirAll(*out, 0o755)
	of, _ := os.Create(filepath.Join(*out, "ops.txt"))
	imf, _ := os.Create(filepath.Join(*out, "impl.txt"))
	c := &Ctx{Tier: *tier, Seed: *seed, Rng: rand.New(rand.NewSource(*seed)),
		ops: bufio.NewWriterSize(of, 1<<20), impl: bufio.NewWriterSize(imf, 1<<20),
		Rep:  &Report{Property: prop, Tier: *tier, Seed: *seed, Hist: map[string]int{}, Known: map[string]int{}, Fails: []OracleFail{}, Samples: []string{}},
		seen: map[uint64]struct{}{}, maxFails: envInt("VERIF_MAXFAILS", 20), worker: os.Getenv("VERIF_WORKER"), outDir: *out}
	if c.worker != "" {
		c.maxFails = 100000
		// a runaway allocation of the implementation must end this worker, not the machine
		if os.Getenv("VERIF_NO_RLIMIT") == "" { // (the race detector maps terabytes of shadow memory)
			var lim syscall.Rlimit
			lim.Cur, lim.Max = 6<<30, 6<<30
			syscall.Setrlimit(syscall.RLIMIT_AS, &lim)
		}
	}
	t0 := time.Now()
	budget := 1500
	if c.Thorough() {
		budget = 6 * 3600
	}
	c.deadline = t0.Add(time.Duration(envInt("VERIF_BUDGET_S", budget)) * time.Second)
	c.late = map[string]bool{}
	f(c)
	c.ops.Flush()
	c.impl.Flush()
	of.Close()
	imf.Close()
	c.Rep.WallS = time.Since(t0).Seconds()
	js, _ := json.MarshalIndent(c.Rep, "", " ")
	os.WriteFile(filepath.Join(*out, "report.json"), js, 0o644)
}

func envInt(name string, def int) int {
	if v := os.Getenv(name); v != "" {
		var n int
		if _, err := fmt.Sscanf(v, "%d", &n); err == nil {
			return n
		}
	}
	return def
}
