package main

import (
	"bytes"
	"errors"
	"fmt"
	"io"
	"math/rand"
	"reflect"
	"strings"

	json "github.com/goccy/go-json"
)

func init() { props["C06"] = runC06 }

type c06Struct struct {
	A int                    `json:"a"`
	B string                 `json:"b"`
	C []float64              `json:"c"`
	D map[string]interface{} `json:"d"`
	E *c06Struct             `json:"e"`
	F [2]bool                `json:"f"`
	G json.RawMessage        `json:"g"`
	H json.Number            `json:"h,string"`
}

// destinations whose keys go through the 16-bit key bitmap (9..16 fields) and through no bitmap at all
type c06Struct12 struct {
	Alpha, Beta, Gamma, Delta, Epsilon, Zeta, Eta, Theta, Iota, Kappa int
	Name                                                              string `json:"name"`
	LongestFieldNameOfAll                                             []int
}
type c06Struct20 struct {
	F00, F01, F02, F03, F04, F05, F06, F07, F08, F09 int
	F10, F11, F12, F13, F14, F15, F16, F17, F18      string
	Last                                             map[string]int `json:"last"`
}

// documents that press on the key matchers: keys that extend, fold, escape and truncate field names
func c06KeyDocs(t reflect.Type) []string {
	var out []string
	for i := 0; i < t.NumField(); i++ {
		name := strings.Split(t.Field(i).Tag.Get("json"), ",")[0]
		if name == "" {
			name = t.Field(i).Name
		}
		for _, k := range []string{name, name + "s", name + "_", strings.ToUpper(name) + "X", name[:len(name)-1] + `\u00` + fmt.Sprintf("%02x", name[len(name)-1]) + "z", name + name, strings.Repeat(name, 5)} {
			out = append(out, `{"`+k+`":1}`, `{"`+k+`":"x","`+k+`":[1]}`, `{"`+k)
		}
	}
	return out
}

var c06Paths []*json.Path

func init() {
	for _, p := range []string{"$", "$.a", "$.a.b", "$[0]", "$[*]", "$..a", "$..a[0]", "$.d[*].a", "$['a']"} {
		if pp, err := json.CreatePath(p); err == nil {
			c06Paths = append(c06Paths, pp)
		}
	}
}

// failing reader: delivers pieces of the given sizes, then the error
type c06Reader struct {
	data []byte
	size int
	err  error
	at   int
	pos  int
}

func (r *c06Reader) Read(p []byte) (int, error) {
	if r.err != nil && r.pos >= r.at {
		return 0, r.err
	}
	if r.pos >= len(r.data) {
		return 0, io.EOF
	}
	n := r.size
	if n > len(p) {
		n = len(p)
	}
	if r.pos+n > len(r.data) {
		n = len(r.data) - r.pos
	}
	if r.err != nil && r.pos+n > r.at {
		n = r.at - r.pos
	}
	copy(p, r.data[r.pos:r.pos+n])
	r.pos += n
	return n, nil
}

// c06All runs every decoding / utility entry point on text; the only verdict is that each returns
func c06All(c *Ctx, text []byte, t reflect.Type, label string, light bool) {
	run := func(name string, f func()) {
		_, pan := safeDo(func() error { f(); return nil })
		in := fmt.Sprintf("%q", trunc(text))
		if pan != "" && len(text) <= 16384 {
			in = fmt.Sprintf("%q", text) // a failing input is recorded whole: the replay needs every byte
		}
		c.Oracle("returns/"+name+"/"+label, in, "panic "+pan, "returns", pan == "", "")
	}
	cp := func() []byte { return append([]byte(nil), text...) }
	run("Unmarshal-iface", func() { var v interface{}; _ = json.Unmarshal(cp(), &v) })
	run("Unmarshal-struct", func() { var v c06Struct; _ = json.Unmarshal(cp(), &v) })
	run("Unmarshal-struct12", func() { var v c06Struct12; _ = json.Unmarshal(cp(), &v) })
	run("Unmarshal-struct20", func() { var v c06Struct20; _ = json.Unmarshal(cp(), &v) })
	run("Valid", func() { _ = json.Valid(cp()) })
	run("Compact", func() { var b bytes.Buffer; _ = json.Compact(&b, cp()) })
	run("Indent", func() { var b bytes.Buffer; _ = json.Indent(&b, cp(), ">", "\t") })
	if light {
		return
	}
	if t != nil {
		run("Unmarshal-typed", func() { _ = json.Unmarshal(cp(), reflect.New(t).Interface()) })
		run("UnmarshalNoEscape", func() { _ = json.UnmarshalNoEscape(cp(), reflect.New(t).Interface()) })
		run("Decoder-typed-1", func() {
			_ = json.NewDecoder(&chunkReader{data: cp(), size: 1}).Decode(reflect.New(t).Interface())
		})
	}
	run("HTMLEscape", func() { var b bytes.Buffer; json.HTMLEscape(&b, cp()) })
	run("Decoder-iface-7", func() {
		d := json.NewDecoder(&chunkReader{data: cp(), size: 7})
		for i := 0; i < 4; i++ {
			var v interface{}
			if d.Decode(&v) != nil {
				break
			}
			_ = d.More()
			_ = d.InputOffset()
			_, _ = io.ReadAll(d.Buffered())
		}
	})
	run("Decoder-struct12-3", func() {
		var v c06Struct12
		_ = json.NewDecoder(&chunkReader{data: cp(), size: 3}).Decode(&v)
	})
	run("Decoder-struct20-3", func() {
		var v c06Struct20
		_ = json.NewDecoder(&chunkReader{data: cp(), size: 3}).Decode(&v)
	})
	run("Decoder-usenumber-disallow", func() {
		d := json.NewDecoder(bytes.NewReader(cp()))
		d.UseNumber()
		d.DisallowUnknownFields()
		var v c06Struct
		_ = d.Decode(&v)
	})
	run("Token", func() {
		d := json.NewDecoder(&chunkReader{data: cp(), size: 3})
		for i := 0; i < 10000; i++ {
			if _, err := d.Token(); err != nil {
				break
			}
			_ = d.More()
		}
	})
	run("Reader-fails", func() {
		at := 0
		if len(text) > 0 {
			at = int(text[0]) % (len(text) + 1)
		}
		d := json.NewDecoder(&c06Reader{data: cp(), size: 5, err: errors.New("boom"), at: at})
		var v interface{}
		_ = d.Decode(&v)
		_ = d.More()
	})
	for i, p := range c06Paths {
		pp := p
		run(fmt.Sprintf("Path.Extract-%d", i), func() { _, _ = pp.Extract(cp()) })
	}
	run("Path.Unmarshal", func() { var v interface{}; _ = c06Paths[1].Unmarshal(cp(), &v) })
}

func c06Deep(open, close string, n int) []byte {
	return []byte(strings.Repeat(open, n) + "1" + strings.Repeat(close, n))
}

func runC06(c *Ctx) {
	c.Rep.Rule = "generated valid documents (from destination types and generic): every prefix (all for texts up to 80 bytes, sampled beyond), single-byte mutations at sampled positions with structural bytes, NUL, 0xff, quotes and backslashes, random garbage; nesting depth 1..4*10^6 (10^7 in the thorough tier) of arrays, objects and mixed, closed and unclosed; every entry point: Unmarshal (interface{}, struct, generated type), UnmarshalNoEscape, Decoder.Decode/More/InputOffset/Buffered with 1-, 3- and 7-byte reads, UseNumber+DisallowUnknownFields, Token, a reader that fails at an arbitrary point, Valid, Compact, Indent, HTMLEscape, Path.Extract with 9 paths, Path.Unmarshal, Path.Get; each call runs in a worker process with a time and address-space limit; verdict: it returns; non-trivial = every case"
	ndocs := 400
	if c.Thorough() {
		ndocs = 6000
	}
	c.RunCases("mutations", ndocs, func(c *Ctx, k int, rng *rand.Rand) {
		g := &Gen{R: rng}
		t := g.Type(1 + rng.Intn(3))
		d := &docGen{r: rng, noise: []int{0, 10, 40}[rng.Intn(3)]}
		doc := []byte(d.forType(t, 3))
		if k%3 == 0 {
			doc = []byte(d.forType([]reflect.Type{reflect.TypeOf(c06Struct{}), reflect.TypeOf(c06Struct12{}), reflect.TypeOf(c06Struct20{})}[(k/3)%3], 3))
		}
		c06All(c, doc, t, "valid", false)
		if k < 2 {
			// keys that extend, fold, escape and truncate the names of the struct destinations
			for _, st := range []reflect.Type{reflect.TypeOf(c06Struct{}), reflect.TypeOf(c06Struct12{}), reflect.TypeOf(c06Struct20{})} {
				for _, kd := range c06KeyDocs(st) {
					c06All(c, []byte(kd), st, "keys", k == 1)
				}
			}
		}
		// prefixes
		step := 1
		if len(doc) > 80 {
			step = len(doc) / 40
		}
		for i := 0; i < len(doc); i += step {
			c06All(c, doc[:i], t, "prefix", i%5 != 0)
		}
		// single-byte mutations
		repl := []byte{0, '"', '\\', '{', '[', ']', '}', ',', ':', 0xff, 'e', '-', '0', 'u', 'n', ' '}
		for m := 0; m < 30 && len(doc) > 0; m++ {
			mut := append([]byte(nil), doc...)
			pos := rng.Intn(len(mut))
			switch rng.Intn(4) {
			case 0:
				mut = append(mut[:pos], mut[pos+1:]...) // delete
			case 1:
				mut = append(mut[:pos], append([]byte{repl[rng.Intn(len(repl))]}, mut[pos:]...)...) // insert
			default:
				mut[pos] = repl[rng.Intn(len(repl))]
			}
			c06All(c, mut, t, "mutation", m%4 != 0)
		}
		// garbage
		gb := make([]byte, rng.Intn(40))
		for i := range gb {
			gb[i] = "{}[]\",:\\ntfu0123456789.eE+- \x00\xff"[rng.Intn(30)]
		}
		c06All(c, gb, t, "garbage", false)
	}, func(k int, rng *rand.Rand) string { return fmt.Sprintf("case %d of the mutation group (seeded)", k) }, nil)

	// (a frame of the recursive walkers is a few hundred bytes: a missing depth check overflows the 1 GB
	// stack limit between three and four million levels)
	depths := []int{1, 100, 9999, 10000, 10001, 100000, 1000000, 4000000}
	if c.Thorough() {
		depths = append(depths, 10000000)
	}
	shapes := [][2]string{{"[", "]"}, {`{"a":`, "}"}, {`[{"a":`, "}]"}, {"[", ""}, {`{"a":`, ""}, {`{"a":[`, ""}}
	c.RunCases("deep", len(depths)*len(shapes), func(c *Ctx, k int, rng *rand.Rand) {
		dpt := depths[k/len(shapes)]
		sh := shapes[k%len(shapes)]
		c06All(c, c06Deep(sh[0], sh[1], dpt), reflect.TypeOf([]interface{}{}), fmt.Sprintf("deep-%d", dpt), false)
		if dpt > 10000 && dpt <= 100000 {
			// beyond the nesting limit every walker that visits the whole document reports an error
			doc := c06Deep(sh[0], sh[1], dpt)
			var v interface{}
			err := json.Unmarshal(doc, &v)
			c.Oracle("depth-limit-is-an-error/Unmarshal", fmt.Sprintf("%q x %d", sh[0], dpt), fmt.Sprintf("err=%v", err), "an error", err != nil, "")
			for _, ps := range []string{"$..a", "$..zz", "$..a[0]"} {
				pp, _ := json.CreatePath(ps)
				_, err := pp.Extract(doc)
				c.Oracle("depth-limit-is-an-error/Extract "+ps, fmt.Sprintf("%q x %d", sh[0], dpt), fmt.Sprintf("err=%v", err), "an error", err != nil, "")
			}
		}
	}, func(k int, rng *rand.Rand) string {
		return fmt.Sprintf("nesting depth %d of %q", depths[k/len(shapes)], shapes[k%len(shapes)][0])
	}, nil)

	if c.IsWorker() {
		return
	}
	// Path.Unmarshal into typed destinations: the selected parts (nulls among them) go through a cast layer
	{
		type named int
		type rec struct {
			A int
			B *string
			c int
		}
		docs := []string{`[null]`, `{"a":null}`, `{"a":[null,1,"x",{"a":null}],"b":{"a":2}}`, `[1,2,3]`, `{"a":{"A":1,"B":null,"c":3}}`, `{"a":"s"}`, `{"a":[[null]]}`, `null`, `[[],{}]`, `{"a":1.5e300}`}
		dsts := []func() interface{}{
			func() interface{} { return new(int) }, func() interface{} { return new(*int) }, func() interface{} { return new([]int) },
			func() interface{} { return new([]string) }, func() interface{} { return new(map[string]int) }, func() interface{} { return new(rec) },
			func() interface{} { return new(named) }, func() interface{} { return new([]named) }, func() interface{} { return new([2]int) },
			func() interface{} { return new(**string) }, func() interface{} { return new(interface{}) }, func() interface{} { return new([]*rec) },
			func() interface{} { return new(map[named]*int) }, func() interface{} { return new(bool) }, func() interface{} { return new(float32) },
			func() interface{} { return new(uint8) }, func() interface{} { return new(string) },
		}
		for _, ps := range []string{"$", "$.a", "$[0]", "$[*]", "$..a", "$.a[*]", "$.a[0]", "$.a.B"} {
			pp, err := json.CreatePath(ps)
			if err != nil {
				continue
			}
			for _, d := range docs {
				for _, mk := range dsts {
					dst := mk()
					_, pan := safeDo(func() error { return pp.Unmarshal([]byte(d), dst) })
					c.Oracle("returns/Path.Unmarshal-typed", fmt.Sprintf("%s on %s into %T", ps, d, dst), "panic "+pan, "returns", pan == "", "")
				}
			}
		}
		// Path.Get with indexes outside the value
		for _, ps := range []string{"$[-1]", "$[5]", "$.a[-1]", "$[0][-2]", "$..a[-1]", "$[99999999]"} {
			pp, err := json.CreatePath(ps)
			if err != nil {
				continue
			}
			for _, v := range []interface{}{[]interface{}{1, 2}, []int{1}, [2]string{"a", "b"}, map[string]interface{}{"a": []interface{}{1}}, []interface{}{[]interface{}{1}}, &[]int{}, nil, "s"} {
				vv := v
				_, pan := safeDo(func() error { var dst interface{}; return pp.Get(vv, &dst) })
				c.Oracle("returns/Path.Get-index", fmt.Sprintf("%s on %T", ps, vv), "panic "+pan, "returns", pan == "", "")
				_, pan = safeDo(func() error { var dst int; return pp.Get(vv, &dst) })
				c.Oracle("returns/Path.Get-index", fmt.Sprintf("%s on %T into int", ps, vv), "panic "+pan, "returns", pan == "", "")
			}
		}
	}
	// many ill-formed bytes in one window of the stream (each is replaced by three bytes in place)
	for _, n := range []int{100, 400, 509, 510, 511, 700, 1023, 1400, 3000} {
		for _, fill := range []string{"\xff", "a\xff", "\xc3", "\xe2\x82"} {
			doc := []byte("\"" + strings.Repeat(fill, n/len(fill)+1) + "\"")
			for _, mk := range []func() interface{}{func() interface{} { return new(string) }, func() interface{} { return new(interface{}) }, func() interface{} { return new([]string) }, func() interface{} { return new(map[string]int) }} {
				dst := mk()
				in := doc
				switch dst.(type) {
				case *[]string:
					in = append(append([]byte("["), doc...), ']')
				case *map[string]int:
					in = append(append([]byte("{"), doc...), []byte(":1}")...)
				}
				_, pan := safeDo(func() error { return json.NewDecoder(bytes.NewReader(in)).Decode(dst) })
				c.Oracle("returns/Decoder-many-replacements", fmt.Sprintf("%d x %q into %T", n, fill, dst), "panic "+pan, "returns", pan == "", "")
				_, pan = safeDo(func() error { return json.NewDecoder(&chunkReader{data: in, size: 7}).Decode(mk()) })
				c.Oracle("returns/Decoder-many-replacements", fmt.Sprintf("%d x %q into %T (7-byte reads)", n, fill, dst), "panic "+pan, "returns", pan == "", "")
			}
		}
	}
	// Path.Get on Go values (reflection walk)
	vals := []interface{}{map[string]interface{}{"a": map[string]interface{}{"b": 1.0}}, []interface{}{1.0, "x"}, struct{ A int }{1}, &struct{ A []int }{[]int{1}}, 5, "s", nil, map[string]int{"a": 1}}
	for _, p := range c06Paths {
		for _, v := range vals {
			pp, vv := p, v
			_, pan := safeDo(func() error { var dst interface{}; return pp.Get(vv, &dst) })
			c.Oracle("returns/Path.Get", fmt.Sprintf("%s on %T", pp.PathString(), vv), "panic "+pan, "returns", pan == "", "")
		}
	}
}
