package main

import (
	"bytes"
	stdjson "encoding/json"
	"fmt"
	"reflect"
	"strings"

	json "github.com/goccy/go-json"
)

func init() { props["C15"] = runC15 }

// declared shapes with embedding (reflect.StructOf cannot express promoted fields of named types)
type c15E1 struct{ X, Y int }
type c15E2 struct {
	X int
	Z int `json:"z"`
}
type c15E3 struct{ c15E1 }
type c15D1 struct { // X conflicts at depth 1 (untagged both): dropped
	c15E1
	c15E2
	W int
}
type c15D2 struct { // shallower wins
	c15E3
	X int
}
type c15D3 struct { // depth: E1.X at depth 1, E3.E1.X at depth 2 -> E1.X wins
	c15E1
	c15E3b
}
type c15E3b struct{ C c15E1b }
type c15E1b struct{ X int }
type c15T1 struct {
	X int `json:"X"`
}
type c15D4 struct { // tagged wins over untagged at same depth
	c15E1
	c15T1
}
type c15D5 struct { // pointer embedded
	*c15E1
	Q int
}
type c15D6 struct { // the D15 witness: A{X} and B{C{X}}
	c15A
	c15B
}
type c15A struct{ X int }
type c15B struct{ c15C }
type c15C struct{ X int }
type c15D7 struct { // renamed embedded struct is a plain field
	c15E1 `json:"e"`
	X     int
}
type c15D8 struct { // unexported and '-' ignored
	x int
	Y int `json:"-"`
	Z int `json:"-,"`
	W int `json:",omitempty"`
}

// names that differ only in letter case at different depths are different names for encoding/json:
// no field hides the other, an exact match wins when decoding, both are emitted when encoding
type c15CI struct {
	NAME string
	Kind string
}
type c15D9 struct {
	Name string
	c15CI
}
type c15CJ struct {
	ID int `json:"ID"`
	Y  int
}
type c15D10 struct {
	Id int `json:"id"`
	*c15CJ
}
type c15D11 struct { // deeper: Name here, NAME two levels down
	Name string
	c15CK
}
type c15CK struct{ c15CI }

var c15Declared = []func() interface{}{
	func() interface{} { return new(c15D9) }, func() interface{} { return new(c15D10) }, func() interface{} { return new(c15D11) },
	func() interface{} { return new(c15D1) }, func() interface{} { return new(c15D2) },
	func() interface{} { return new(c15D3) }, func() interface{} { return new(c15D4) },
	func() interface{} { return new(c15D5) }, func() interface{} { return new(c15D6) },
	func() interface{} { return new(c15D7) }, func() interface{} { return new(c15D8) },
}

func c15Spellings(key string, c *Ctx) []string {
	// raw, fully \u-escaped, partly escaped
	raw, _ := stdjson.Marshal(key)
	out := []string{string(raw)}
	var full, part strings.Builder
	full.WriteByte('"')
	part.WriteByte('"')
	i := 0
	for _, r := range key {
		esc := fmt.Sprintf(`\u%04x`, r)
		if r > 0xffff {
			r -= 0x10000
			esc = fmt.Sprintf(`\u%04x\u%04x`, 0xd800+(r>>10), 0xdc00+(r&0x3ff))
		}
		full.WriteString(esc)
		if i%2 == 0 {
			part.WriteString(esc)
		} else {
			b, _ := stdjson.Marshal(string(r))
			part.Write(b[1 : len(b)-1])
		}
		i++
	}
	full.WriteByte('"')
	part.WriteByte('"')
	out = append(out, full.String(), part.String())
	if strings.Contains(key, "/") {
		out = append(out, `"`+strings.ReplaceAll(key, "/", `\/`)+`"`)
	}
	return out
}

func c15DecodeCompare(c *Ctx, t reflect.Type, mk func() interface{}, doc string, label string) {
	for _, mode := range []string{"buf", "stream", "stream1"} {
		var g, s interface{}
		if mk != nil {
			g, s = mk(), mk()
		} else {
			g, s = reflect.New(t).Interface(), reflect.New(t).Interface()
		}
		var gerr error
		switch mode {
		case "buf":
			gerr = json.Unmarshal([]byte(doc), g)
		case "stream":
			gerr = json.NewDecoder(strings.NewReader(doc)).Decode(g)
		default:
			gerr = json.NewDecoder(&chunkReader{data: []byte(doc), size: 1}).Decode(g)
		}
		serr := stdjson.Unmarshal([]byte(doc), s)
		ok := (gerr == nil) == (serr == nil) && (gerr != nil || reflect.DeepEqual(g, s))
		class := ""
		if !ok && c15HasDepthConflict(reflect.TypeOf(g).Elem(), true) {
			class = "C15-embedded-depth"
		}
		if !ok && class == "" && c15FoldsToASCII(doc) {
			class = "C15-unicode-fold-to-ascii"
		}
		c.Oracle("decode/"+label+"/"+mode, fmt.Sprintf("%s <- %s", reflect.TypeOf(g).Elem(), doc),
			fmt.Sprintf("%+v err=%v", reflect.ValueOf(g).Elem().Interface(), gerr),
			fmt.Sprintf("%+v err=%v", reflect.ValueOf(s).Elem().Interface(), serr), ok, class)
	}
}

// c15FoldsToASCII: the document contains one of the two non-ASCII runes whose simple case folding
// is an ASCII letter (U+017F long s, U+212A Kelvin sign), literally or as a \u escape
func c15FoldsToASCII(doc string) bool {
	l := strings.ToLower(doc)
	return strings.Contains(doc, "\u017f") || strings.Contains(doc, "\u212a") || strings.Contains(l, `\u017f`) || strings.Contains(l, `\u212a`)
}

// c15HasDepthConflict: some JSON name (spelled the same) is reachable through embedded structs at two
// different depths, or twice at the same depth — the situations in which encoding/json's
// dominant-field rule decides (finding D15: go-json's duplicate filtering ignores the depth).
func c15HasDepthConflict(t reflect.Type, decode bool) bool {
	seen := map[string][]int{}
	var walk func(t reflect.Type, depth int)
	walk = func(t reflect.Type, depth int) {
		if t.Kind() == reflect.Ptr {
			t = t.Elem()
		}
		if t.Kind() != reflect.Struct || depth > 4 {
			return
		}
		for i := 0; i < t.NumField(); i++ {
			f := t.Field(i)
			tag := f.Tag.Get("json")
			name := strings.Split(tag, ",")[0]
			if tag == "-" {
				continue
			}
			ft := f.Type
			if ft.Kind() == reflect.Ptr {
				ft = ft.Elem()
			}
			if f.Anonymous && name == "" && ft.Kind() == reflect.Struct {
				walk(ft, depth+1)
				continue
			}
			if name == "" {
				name = f.Name
			}
			seen[name] = append(seen[name], depth)
		}
	}
	walk(t, 0)
	for _, ds := range seen {
		if len(ds) > 1 {
			// a field of the struct itself (depth 0) hides every deeper one of its name in go-json as in
			// encoding/json; the finding is about names that occur at embedded levels only
			top := false
			for _, d := range ds {
				if d == 0 {
					top = true
				}
			}
			// (the decoder's case-insensitive fallback still picks a deeper field: {"x":7} for
			// struct{ E3; X int }, so for decoding the class keeps those shapes)
			if !top || decode {
				return true
			}
		}
	}
	return false
}

func c15EncodeCompare(c *Ctx, v interface{}, label string) {
	g, gerr := json.Marshal(v)
	s, serr := stdjson.Marshal(v)
	ok := (gerr == nil) == (serr == nil) && bytes.Equal(g, s)
	class := ""
	tt := reflect.TypeOf(v)
	if tt.Kind() == reflect.Ptr {
		tt = tt.Elem()
	}
	if !ok && c15HasDepthConflict(tt, false) {
		class = "C15-embedded-depth"
	}
	c.Oracle("encode/"+label, fmt.Sprintf("%T", v), fmt.Sprintf("%s err=%v", g, gerr), fmt.Sprintf("%s err=%v", s, serr), ok, class)
}

func runC15(c *Ctx) {
	c.Rep.Rule = "struct shapes built with reflect.StructOf (1..17 int fields, JSON names by tag over an alphabet with upper/lower pairs, digit, underscore, multi-byte letter, HTML-special, slash; shared prefixes, case-colliding names, names longer than 64 bytes) and declared shapes with embedding conflicts; " +
		"keys: every name, its case variants, prefixes, extensions and all strings up to length 2 over the alphabet, each in raw, fully and partly \\u-escaped spelling; oracle: which field encoding/json sets / which members it emits; ops: bitmap matcher model vs implementation; non-trivial = every case"
	alpha := []string{"a", "A", "b", "B", "1", "_", "é", "<", "/"}
	var names []string
	names = append(names, alpha...)
	for _, x := range alpha {
		for _, y := range alpha {
			names = append(names, x+y)
		}
	}
	names = append(names, "abc", "ABC", "Abc", "abcd", "ab_", "hello", "Hello", "HELLO", "hellO", strings.Repeat("k", 64), strings.Repeat("k", 65), strings.Repeat("K", 65), "ﬁ", "K", "k", "S", "s", "ſ")
	var keys []string
	keys = append(keys, names...)
	keys = append(keys, "", "x", "aa ", " a", "a\n", "\"", "a\"b", "😀", "a😀", strings.Repeat("k", 63), strings.Repeat("k", 66))
	nshapes := 120
	if c.Thorough() {
		nshapes = 3000
	}
	intT := reflect.TypeOf(0)
	for si := 0; si < nshapes; si++ {
		var nf int
		switch si % 6 {
		case 0:
			nf = 1 + c.Rng.Intn(2)
		case 1, 2:
			nf = 2 + c.Rng.Intn(6)
		case 3:
			nf = 9 + c.Rng.Intn(8)
		case 4:
			nf = 17
		default:
			nf = 1 + c.Rng.Intn(17)
		}
		used := map[string]bool{}
		var fields []reflect.StructField
		var own []string
		for i := 0; i < nf; i++ {
			n := names[c.Rng.Intn(len(names))]
			for si%2 == 0 && !c15IsASCII(n) {
				// every other shape is ASCII only, so that the bitmap matcher is the one in use
				n = names[c.Rng.Intn(len(names))]
			}
			if c.Rng.Intn(3) == 0 && len(own) > 0 {
				// related to an existing name: case variant, prefix, extension
				base := own[c.Rng.Intn(len(own))]
				switch c.Rng.Intn(4) {
				case 0:
					n = strings.ToUpper(base)
				case 1:
					n = strings.ToLower(base)
				case 2:
					n = base + alpha[c.Rng.Intn(len(alpha))]
				default:
					if len(base) > 1 {
						n = base[:len(base)-1]
					}
				}
			}
			if used[n] || n == "" || !isValidTagName(n) {
				continue
			}
			used[n] = true
			own = append(own, n)
			tag := fmt.Sprintf(`json:"%s"`, n)
			fields = append(fields, reflect.StructField{Name: fmt.Sprintf("F%d", i), Type: intT, Tag: reflect.StructTag(tag)})
		}
		if len(fields) == 0 {
			continue
		}
		t := reflect.StructOf(fields)
		// encode
		v := reflect.New(t).Elem()
		for i := 0; i < v.NumField(); i++ {
			v.Field(i).SetInt(int64(i + 1))
		}
		c15EncodeCompare(c, v.Interface(), "flat")
		// decode: own names with variants + sampled keys
		var ks []string
		for _, n := range own {
			ks = append(ks, n, strings.ToUpper(n), strings.ToLower(n), n+"x", n+"A")
			if len(n) > 1 {
				ks = append(ks, n[:len(n)-1])
			}
		}
		for i := 0; i < 12; i++ {
			ks = append(ks, keys[c.Rng.Intn(len(keys))])
		}
		for _, k := range ks {
			for _, sp := range c15Spellings(k, c) {
				c15DecodeCompare(c, t, nil, "{"+sp+":7}", "flat")
				c15MatcherOps(c, t, own, sp+":7}")
			}
		}
		for _, raw := range c15RawKeys {
			c15MatcherOps(c, t, own, raw)
			if len(own) > 0 {
				c15MatcherOps(c, t, own, `"`+own[c.Rng.Intn(len(own))]+raw[1:])
			}
		}
		// two keys: last duplicate wins, case-insensitive after exact
		if len(own) >= 1 {
			n := own[0]
			a, _ := stdjson.Marshal(n)
			b, _ := stdjson.Marshal(strings.ToUpper(n))
			c15DecodeCompare(c, t, nil, "{"+string(a)+":1,"+string(b)+":2}", "dup")
			c15DecodeCompare(c, t, nil, "{"+string(b)+":1,"+string(a)+":2,"+string(a)+":3}", "dup")
		}
	}
	// the fold table itself, and every ASCII byte as a one-character key against names that cover the
	// alphabet (seeded change C15-a: 'Z' not folded)
	tbl := json.VerifFoldTable()
	for b := 0; b < 256; b++ {
		c.Op(fmt.Sprintf("lower %d", b), fmt.Sprintf("%d", tbl[b]), true, "foldtable")
	}
	for _, letters := range []string{"abcdefghijklmnop", "qrstuvwxyz", "ABCDEFGHIJKLMNOP", "QRSTUVWXYZ_019"} {
		var fields []reflect.StructField
		var own []string
		for i, r := range letters {
			own = append(own, string(r))
			fields = append(fields, reflect.StructField{Name: fmt.Sprintf("F%d", i), Type: intT, Tag: reflect.StructTag(fmt.Sprintf(`json:"%s"`, string(r)))})
		}
		t := reflect.StructOf(fields)
		for b := 0x20; b < 0x80; b++ {
			for _, sp := range c15Spellings(string(rune(b)), c) {
				c15DecodeCompare(c, t, nil, "{"+sp+":7}", "alphabet")
				c15MatcherOps(c, t, own, sp+":7}")
			}
		}
	}
	// declared shapes with embedding
	for di, mk := range c15Declared {
		v := mk()
		c15EncodeCompare(c, v, fmt.Sprintf("declared%d", di))
		switch x := v.(type) {
		case *c15D9:
			*x = c15D9{Name: "outer", c15CI: c15CI{NAME: "inner", Kind: "k"}}
			c15EncodeCompare(c, v, fmt.Sprintf("declared%d-filled", di))
		case *c15D10:
			*x = c15D10{Id: 1, c15CJ: &c15CJ{ID: 2, Y: 3}}
			c15EncodeCompare(c, v, fmt.Sprintf("declared%d-filled", di))
		case *c15D11:
			*x = c15D11{Name: "outer", c15CK: c15CK{c15CI{NAME: "inner", Kind: "k"}}}
			c15EncodeCompare(c, v, fmt.Sprintf("declared%d-filled", di))
		}
		for _, k := range []string{"X", "x", "Y", "Z", "z", "W", "w", "Q", "C", "e", "E", "c15E1", "-", "y", "Name", "NAME", "name", "nAmE", "Kind", "id", "ID", "Id", "iD"} {
			for _, sp := range c15Spellings(k, c) {
				c15DecodeCompare(c, nil, mk, "{"+sp+":7}", fmt.Sprintf("declared%d", di))
			}
		}
		c15DecodeCompare(c, nil, mk, `{"e":{"X":1,"Y":2},"X":3}`, fmt.Sprintf("declared%d", di))
		c15DecodeCompare(c, nil, mk, `{"C":{"X":5}}`, fmt.Sprintf("declared%d", di))
	}
}

// key texts (from the opening quote) that are malformed or decode to something other than they look
var c15RawKeys = []string{
	`"a\x":7}`, `"\x":7}`, `"\u00zz":7}`, `"\u006":7}`, `"\ud800":7}`, `"\ud800a":7}`, `"\ud800\u0061":7}`,
	`"\ud83d\ude00":7}`, `"\ud83d\ude0":7}`, `"\ud83d\uzz00":7}`, `"\udc00\ud800":7}`, `"a`, `"a\`, `"a\u`, `"a\u00`, `"\u0061":7}`,
	`"\u0041\u0042":7}`, `"a\u0000":7}`, `"\"":7}`, `"a\"b":7}`, `"\/":7}`, `"\b\f\n\r\t":7}`, `"":7}`, `"a\\":7}`, `"\u005c":7}`,
	`"\u0022":7}`, "\"a\x01\":7}", `"\ud800\ud800\udc00":7}`,
}

func c15IsASCII(s string) bool {
	for i := 0; i < len(s); i++ {
		if s[i] >= 0x80 {
			return false
		}
	}
	return true
}

// c15MatcherOps: the key matcher in isolation (hook VerifKeyMatch) against the Lean model, in buffer
// mode and with the text delivered 1 and 3 bytes per read. text starts at the opening quote.
func c15MatcherOps(c *Ctx, t reflect.Type, own []string, text string) {
	var hn []string
	ascii := true
	for _, n := range own {
		hn = append(hn, hx([]byte(n)))
		ascii = ascii && c15IsASCII(n)
	}
	conv := func(out string) string {
		// "path off=N" -> "path f<declared index>"
		if i := strings.Index(out, "off="); i >= 0 {
			var off int
			fmt.Sscanf(out[i:], "off=%d", &off)
			for j := 0; j < t.NumField(); j++ {
				if int(t.Field(j).Offset) == off {
					return out[:i] + fmt.Sprintf("f%d", j)
				}
			}
			return out + " (no such field)"
		}
		return out
	}
	names := strings.Join(hn, ",")
	if !ascii || !c15IsASCII(text) || strings.Contains(text, `\u`) && !c15DecodesToASCII(text) {
		// the model's folding is ASCII only: compare the choice of matcher
		out := json.VerifKeyMatch(t, []byte(text), 0)
		c.Op("keypath "+names, strings.Fields(out)[0], true, "keypath")
		return
	}
	line := "key " + names + " " + hx([]byte(text[1:]))
	for _, chunk := range []int{0, 1, 3} {
		out := conv(json.VerifKeyMatch(t, []byte(text), chunk))
		bucket := strings.Fields(out)[0] + fmt.Sprintf("/chunk%d", chunk)
		c.Op(line, out, true, bucket)
	}
}

// the text's \u escapes all denote ASCII characters (the map path's folding of other characters is
// not modelled)
func c15DecodesToASCII(text string) bool {
	for i := 0; i+5 < len(text); i++ {
		if text[i] == '\\' && text[i+1] == 'u' {
			if !(text[i+2] == '0' && text[i+3] == '0' && text[i+4] >= '0' && text[i+4] <= '7') {
				return false
			}
		}
		if text[i] == '\\' && text[i+1] == '\\' {
			i++
		}
	}
	return true
}

// encoding/json's isValidTag
func isValidTagName(s string) bool {
	for _, c := range s {
		switch {
		case strings.ContainsRune("!#$%&()*+-./:;<=>?@[]^_{|}~ ", c):
		case c >= '0' && c <= '9', c >= 'a' && c <= 'z', c >= 'A' && c <= 'Z', c > 127:
		default:
			return false
		}
	}
	return true
}
