package main

import (
	"bytes"
	"context"
	stdjson "encoding/json"
	"fmt"
	"math/rand"
	"reflect"
	"strings"

	json "github.com/goccy/go-json"
)

func init() { props["C12"] = runC12 }

// unmarshalers that keep the bytes they are handed (against the advice of the interfaces' documentation:
// the property speaks about exactly these bytes)
type C12KeepJ struct{ B []byte }

func (k *C12KeepJ) UnmarshalJSON(b []byte) error { k.B = b; return nil }
func (k C12KeepJ) MarshalJSON() ([]byte, error) {
	return stdjson.Marshal(string(k.B))
}

type C12KeepT struct{ B []byte }

func (k *C12KeepT) UnmarshalText(b []byte) error { k.B = b; return nil }
func (k C12KeepT) MarshalJSON() ([]byte, error) {
	return stdjson.Marshal(string(k.B))
}

type C12KeepC struct{ B []byte }

func (k *C12KeepC) UnmarshalJSON(_ context.Context, b []byte) error { k.B = b; return nil }
func (k C12KeepC) MarshalJSON() ([]byte, error) {
	return stdjson.Marshal(string(k.B))
}

type C12Doc struct {
	S  string             `json:"s"`
	B  []byte             `json:"b"`
	R  json.RawMessage    `json:"r"`
	SR stdjson.RawMessage `json:"sr"`
	N  json.Number        `json:"n"`
	KJ C12KeepJ           `json:"kj"`
	KT C12KeepT           `json:"kt"`
	KC C12KeepC           `json:"kc"`
	PJ *C12KeepJ          `json:"pj"`
	I  interface{}        `json:"i"`
	M  map[string]string  `json:"m"`
	MK map[C12Key]string  `json:"mk"`
	L  []string           `json:"l"`
	LR []json.RawMessage  `json:"lr"`
	Q  string             `json:"q,string"`
	A  [2]string          `json:"a"`
	X  *C12Doc            `json:"x"`
}

type C12Key string

// c12Snap: a deep, alias-free picture of a decoded value (bytes as text)
func c12Snap(v interface{}) string {
	b, err := stdjson.Marshal(v)
	if err != nil {
		return "unprintable: " + err.Error()
	}
	return string(b)
}

func c12Str(rng *rand.Rand) string {
	parts := []string{"plain", "é", "日本", `\n`, `\"`, `\\`, `\/`, `é`, `😀`, `A`, "<&>", " ", "x", `\t`, strings.Repeat("long", 1+rng.Intn(300))}
	var sb strings.Builder
	for i, n := 0, rng.Intn(6); i < n; i++ {
		sb.WriteString(parts[rng.Intn(len(parts))])
	}
	return `"` + sb.String() + `"`
}

func c12DocText(rng *rand.Rand, depth int) string {
	var m []string
	add := func(k, v string) {
		if rng.Intn(4) != 0 {
			m = append(m, fmt.Sprintf("%q:%s", k, v))
		}
	}
	raw := func() string {
		return []string{`{"a" : [1, 2, "x\n"]}`, `"rawA"`, `[ ]`, `123.5e1`, `null`, `{"k":"` + strings.Repeat("v", rng.Intn(200)) + `"}`}[rng.Intn(6)]
	}
	add("s", c12Str(rng))
	add("b", `"`+[]string{"", "YWJj", "AAECAwQF", "/+8="}[rng.Intn(4)]+`"`)
	add("r", raw())
	add("sr", raw())
	add("n", []string{"0", "-12.5e3", "123456789012345678901234567890"}[rng.Intn(3)])
	add("kj", raw())
	add("kt", c12Str(rng))
	add("kc", raw())
	add("pj", raw())
	add("i", []string{c12Str(rng), `[` + c12Str(rng) + `,{"k":` + c12Str(rng) + `}]`, `{"a":` + c12Str(rng) + `}`, `1`}[rng.Intn(4)])
	add("m", `{`+c12Str(rng)+`:`+c12Str(rng)+`,"k2":`+c12Str(rng)+`}`)
	add("mk", `{`+c12Str(rng)+`:`+c12Str(rng)+`}`)
	add("l", `[`+c12Str(rng)+`,`+c12Str(rng)+`, `+c12Str(rng)+`]`)
	add("lr", `[`+raw()+`,`+raw()+`]`)
	add("q", `"\"quoted\\n`+strings.Repeat("q", rng.Intn(40))+`\""`)
	add("a", `[`+c12Str(rng)+`,`+c12Str(rng)+`]`)
	if depth > 0 {
		add("x", c12DocText(rng, depth-1))
	}
	rng.Shuffle(len(m), func(i, j int) { m[i], m[j] = m[j], m[i] })
	sep := []string{",", " , ", ",\n\t"}[rng.Intn(3)]
	return "{" + strings.Join(m, sep) + "}"
}

// c12Churn: further calls of varying sizes that recycle the library's pools
func c12Churn(rng *rand.Rand) {
	for i := 0; i < 6; i++ {
		n := 1 << uint(rng.Intn(16))
		big := map[string]interface{}{"pad": strings.Repeat("Z", n), "l": make([]int, n/8)}
		b, _ := json.Marshal(big)
		var back interface{}
		_ = json.Unmarshal(b, &back)
		_, _ = json.MarshalIndent(back, "", " ")
		var d C12Doc
		_ = json.Unmarshal([]byte(c12DocText(rng, 1)), &d)
		_ = json.NewDecoder(strings.NewReader(string(b) + " " + string(b))).Decode(&back)
		// every decoding entry point, with inputs shorter and longer than what was decoded before (a
		// pooled buffer that is re-used shows as the earlier result's strings changing)
		small := []byte(`{"pad":"` + strings.Repeat("Y", rng.Intn(40)) + `","l":[1]}`)
		for _, in := range [][]byte{small, b} {
			var x1, x2, x3 interface{}
			_ = json.UnmarshalNoEscape(in, &x1)
			_ = json.UnmarshalContext(context.Background(), in, &x2)
			_ = json.UnmarshalWithOption(in, &x3, json.DecodeFieldPriorityFirstWin())
			var d2 C12Doc
			_ = json.UnmarshalNoEscape([]byte(c12DocText(rng, 1)), &d2)
		}
	}
}

func c12Clobber(b []byte, rng *rand.Rand) {
	for i := range b {
		b[i] = byte('#' + rng.Intn(3))
	}
}

func runC12(c *Ctx) {
	c.Rep.Rule = "documents generated for a destination with string, []byte, RawMessage (go-json's and encoding/json's), Number, interface{}, maps with string and named keys, slices, arrays, `,string` fields, nested pointers, and Unmarshaler / TextUnmarshaler / context Unmarshaler members that keep the bytes they are handed; strings with every escape class, lengths 0..1200; entry points Unmarshal, UnmarshalNoEscape, UnmarshalContext, UnmarshalWithOption, Decoder (chunk sizes 1..4096, several documents per stream), Path.Extract / Path.Unmarshal; probes: the caller's input is unchanged by the call; after the call every byte of the input is overwritten and, after further calls of varying sizes (1 B .. 64 KiB) that recycle the pools, the decoded value is unchanged; values decoded earlier from a Decoder are unchanged after every later Decode on the same stream; every slice returned by Marshal / MarshalIndent / MarshalNoEscape / MarshalContext / MarshalWithOption is unchanged by later calls, and overwriting it does not change later results; non-trivial = every case"
	ncases := 400
	if c.Thorough() {
		ncases = 12000
	}
	c.RunCases("alias", ncases, func(c *Ctx, k int, rng *rand.Rand) {
		doc := c12DocText(rng, 2)
		want := func() string { // what the document decodes to, from an input nobody touches afterwards
			var d C12Doc
			if err := json.Unmarshal([]byte(doc), &d); err != nil {
				return "error: " + err.Error()
			}
			return c12Snap(&d)
		}()
		in := fmt.Sprintf("case %d: %s", k, trunc([]byte(doc)))
		type entry struct {
			name string
			f    func(data []byte, v interface{}) error
		}
		entries := []entry{
			{"Unmarshal", func(data []byte, v interface{}) error { return json.Unmarshal(data, v) }},
			{"UnmarshalNoEscape", func(data []byte, v interface{}) error { return json.UnmarshalNoEscape(data, v) }},
			{"UnmarshalContext", func(data []byte, v interface{}) error { return json.UnmarshalContext(context.Background(), data, v) }},
			{"UnmarshalWithOption(FirstWin)", func(data []byte, v interface{}) error {
				return json.UnmarshalWithOption(data, v, json.DecodeFieldPriorityFirstWin())
			}},
		}
		for _, e := range entries {
			data := []byte(doc)
			before := append([]byte(nil), data...)
			var d C12Doc
			err, pan := safeDo(func() error { return e.f(data, &d) })
			c.Oracle("input-unchanged/"+e.name, in, fmt.Sprintf("changed=%v panic=%s", !bytes.Equal(data, before), pan), "unchanged", bytes.Equal(data, before) && pan == "", "")
			if err != nil || pan != "" {
				continue
			}
			s0 := c12Snap(&d)
			c12Clobber(data, rng)
			c12Churn(rng)
			s1 := c12Snap(&d)
			c.Oracle("decoded-value-owns-its-bytes/"+e.name, in, trunc([]byte(s1)), trunc([]byte(s0)), s0 == s1, "")
			if e.name != "UnmarshalWithOption(FirstWin)" {
				c.Oracle("decoded-value/"+e.name, in, trunc([]byte(s0)), trunc([]byte(want)), s0 == want, "")
			}
		}
		// a destination that is decoded into again: what it held before (and what the caller still
		// holds of it) is not written to
		{
			type bdst struct {
				B  []byte   `json:"b"`
				L  [][]byte `json:"l"`
				S  string   `json:"s"`
				RM json.RawMessage
			}
			own := bytes.Repeat([]byte{0x5A}, 64)
			var d bdst
			d.B = own[:0]
			d.L = [][]byte{own[16:16], own[32:40]}
			docs3 := []string{`{"b":"AAECAwQFBgc=","l":["CQoLDA==","DQ4P"],"s":"first","RM":[1]}`, `{"b":"EBESEw==","l":["FBUW"],"s":"2nd","RM":{"k":2}}`, `{"b":"","l":[],"s":"","RM":null}`}
			var kept [][]byte
			var keptS []string
			for _, entry := range []string{"Unmarshal", "Decoder"} {
				for _, d3 := range docs3 {
					var err error
					var pan string
					if entry == "Unmarshal" {
						err, pan = safeDo(func() error { return json.Unmarshal([]byte(d3), &d) })
					} else {
						err, pan = safeDo(func() error { return json.NewDecoder(strings.NewReader(d3)).Decode(&d) })
					}
					if err != nil || pan != "" {
						continue
					}
					kept = append(kept, d.B)
					keptS = append(keptS, string(d.B))
					for _, e := range d.L {
						kept = append(kept, e)
						keptS = append(keptS, string(e))
					}
				}
			}
			untouched := true
			for _, x := range own {
				if x != 0x5A {
					untouched = false
				}
			}
			c.Oracle("destination-slice-not-overwritten", in, fmt.Sprintf("%x", own[:24]), "the caller's array as it was", untouched, "")
			same := true
			for i := range kept {
				if string(kept[i]) != keptS[i] {
					same = false
				}
			}
			c.Oracle("earlier-byte-slices-stable", in, "", "", same, "")
		}
		// interface{} destination
		{
			data := []byte(doc)
			var v interface{}
			err, pan := safeDo(func() error { return json.Unmarshal(data, &v) })
			if err == nil && pan == "" {
				s0 := c12Snap(v)
				c12Clobber(data, rng)
				c12Churn(rng)
				c.Oracle("decoded-value-owns-its-bytes/interface{}", in, trunc([]byte(c12Snap(v))), trunc([]byte(s0)), c12Snap(v) == s0, "")
			}
		}
		// a stream of documents: earlier values stay as they were
		{
			n := 2 + rng.Intn(5)
			docs := make([]string, n)
			for i := range docs {
				docs[i] = c12DocText(rng, 1)
			}
			chunk := []int{1, 2, 3, 7, 64, 511, 512, 513, 4096}[rng.Intn(9)]
			src := []byte(strings.Join(docs, []string{"", " ", "\n"}[rng.Intn(3)]))
			dec := json.NewDecoder(&chunkReader{data: src, size: chunk})
			vals := make([]*C12Doc, 0, n)
			snaps := make([]string, 0, n)
			for i := 0; i < n; i++ {
				d := &C12Doc{}
				err, pan := safeDo(func() error { return dec.Decode(d) })
				if err != nil || pan != "" {
					c.Oracle("decoder-decodes", fmt.Sprintf("%s (document %d, chunk %d)", in, i, chunk), fmt.Sprintf("err=%v panic=%s", err, pan), "decodes", false, "")
					break
				}
				vals = append(vals, d)
				snaps = append(snaps, c12Snap(d))
				for j := range vals {
					c.Oracle("earlier-stream-values-stable", fmt.Sprintf("%s (value %d after Decode %d, chunk %d)", in, j, i, chunk), trunc([]byte(c12Snap(vals[j]))), trunc([]byte(snaps[j])), c12Snap(vals[j]) == snaps[j], "")
				}
			}
			c12Clobber(src, rng)
			c12Churn(rng)
			for j := range vals {
				c.Oracle("stream-values-own-their-bytes", fmt.Sprintf("%s (value %d, chunk %d)", in, j, chunk), trunc([]byte(c12Snap(vals[j]))), trunc([]byte(snaps[j])), c12Snap(vals[j]) == snaps[j], "")
			}
			// the same documents through Unmarshal give the same values
			for j := range vals {
				var d C12Doc
				if json.Unmarshal([]byte(docs[j]), &d) == nil {
					c.Oracle("stream-value=buffer-value", fmt.Sprintf("%s (value %d, chunk %d)", in, j, chunk), trunc([]byte(snaps[j])), trunc([]byte(c12Snap(&d))), snaps[j] == c12Snap(&d), "")
				}
			}
		}
		// paths
		for _, pt := range []string{"$", "$.s", "$.x", "$..s", "$.l[1]", "$.m"} {
			p, err := json.CreatePath(pt)
			if err != nil {
				continue
			}
			data := []byte(doc)
			before := append([]byte(nil), data...)
			var out [][]byte
			err, pan := safeDo(func() error { var e error; out, e = p.Extract(data); return e })
			c.Oracle("input-unchanged/Path.Extract", in+" "+pt, fmt.Sprintf("changed=%v panic=%s", !bytes.Equal(data, before), pan), "unchanged", bytes.Equal(data, before) && pan == "", "")
			if err != nil || pan != "" {
				continue
			}
			s0 := fmt.Sprintf("%q", out)
			c12Clobber(data, rng)
			c12Churn(rng)
			c.Oracle("extracted-values-own-their-bytes", in+" "+pt, trunc([]byte(fmt.Sprintf("%q", out))), trunc([]byte(s0)), fmt.Sprintf("%q", out) == s0, "")
			// overwriting what was extracted does not reach the Path or later calls
			for _, o := range out {
				c12Clobber(o, rng)
			}
			out2, err2 := p.Extract([]byte(doc))
			c.Oracle("extract-repeatable", in+" "+pt, trunc([]byte(fmt.Sprintf("%q %v", out2, err2))), trunc([]byte(s0)), err2 == nil && fmt.Sprintf("%q", out2) == s0, "")
		}
		// encode side: returned slices belong to the caller
		g := &Gen{R: rng}
		t := g.Type(1 + rng.Intn(3))
		gv := g.Value(t, 3, GenOpt{Finite: true, ValidUTF8: true, ValidNum: true})
		var iv interface{} = gv.Interface()
		if strings.HasPrefix(c01ClassOf(iv, nil, nil, nil, nil), "C08-") {
			var d C12Doc
			_ = json.Unmarshal([]byte(doc), &d)
			iv, t = &d, reflect.TypeOf(&d)
		}
		encs := []struct {
			name string
			f    func() ([]byte, error)
		}{
			{"Marshal", func() ([]byte, error) { return json.Marshal(iv) }},
			{"MarshalIndent", func() ([]byte, error) { return json.MarshalIndent(iv, ">", " ") }},
			{"MarshalNoEscape", func() ([]byte, error) { return json.MarshalNoEscape(iv) }},
			{"MarshalContext", func() ([]byte, error) { return json.MarshalContext(context.Background(), iv) }},
			{"MarshalWithOption(Colorize)", func() ([]byte, error) { return json.MarshalWithOption(iv, json.Colorize(c13Scheme)) }},
			{"MarshalIndentWithOption(UnorderedMap)", func() ([]byte, error) { return json.MarshalIndentWithOption(iv, "", "\t", json.UnorderedMap()) }},
		}
		ein := fmt.Sprintf("case %d: %s", k, genTypeString(t))
		// every size class of result: small ones, and around the sizes at which buffers are pooled or kept
		sizes := []int{0, 1, 100, 4096, 65530, 65536, 65540, 70000, 300000, 2 << 20}
		if k < 2*len(sizes) {
			n := sizes[k%len(sizes)]
			big := struct {
				S string
				N []int
				M map[string]string
			}{S: strings.Repeat("s", n), N: make([]int, n/64), M: map[string]string{"k": strings.Repeat("v", n/3)}}
			iv, ein = big, fmt.Sprintf("case %d: a struct that encodes to about %d bytes", k, 2*n)
		}
		for _, e := range encs {
			b1, err, pan := safeMarshal(e.f)
			if err != nil || pan != "" {
				continue
			}
			keep := string(b1)
			// later calls, the same one included, do not reach the returned slice
			b2, _, _ := safeMarshal(e.f)
			c12Churn(rng)
			c.Oracle("returned-slice-stable/"+e.name, ein, trunc(b1), trunc([]byte(keep)), string(b1) == keep, "")
			// nor does the caller's use of the slice (all of its capacity) reach later results
			full := b1[:cap(b1)]
			c12Clobber(full, rng)
			b3, _, _ := safeMarshal(e.f)
			if !strings.Contains(e.name, "UnorderedMap") {
				c.Oracle("later-result-independent/"+e.name, ein, trunc(b3), trunc([]byte(keep)), string(b3) == keep && string(b2) == keep, "")
			} else {
				c.Oracle("later-result-independent/"+e.name, ein, fmt.Sprint(len(b3)), fmt.Sprint(len(keep)), len(b3) == len(keep) && stdjson.Valid(b3), "")
			}
			c.Oracle("returned-slices-distinct/"+e.name, ein, "", "", len(b2) == 0 || len(b3) == 0 || &b2[0] != &b3[0], "")
		}
	}, func(k int, rng *rand.Rand) string { return fmt.Sprint("alias case ", k) }, nil)
}
