package main

import (
	"context"
	stdjson "encoding/json"
	"fmt"
	"math/rand"
	"reflect"
	"sort"
	"strings"
	"unsafe"

	json "github.com/goccy/go-json"
)

func init() { props["C14"] = runC14 }

type c14Iface struct {
	typ unsafe.Pointer
	ptr unsafe.Pointer
}

func typeAddrOf(v interface{}) uintptr {
	return uintptr((*c14Iface)(unsafe.Pointer(&v)).typ)
}

// c14DynTypes: run-time struct types (their descriptors live on the heap, outside the analysed range)
func c14DynTypes() []reflect.Type {
	var dyn []reflect.Type
	for i := 0; i < 60; i++ {
		dyn = append(dyn, reflect.StructOf([]reflect.StructField{{Name: fmt.Sprintf("D%03d", i), Type: reflect.TypeOf(0), Tag: reflect.StructTag(fmt.Sprintf(`json:"D%03d"`, i))}}))
	}
	return dyn
}

func runC14(c *Ctx) {
	if !c.IsWorker() {
		c14Static(c)
	}
	// 4. end to end, each history in a process of its own (cold caches; a crash is a failing case)
	c.Chunk = 1
	c.RunCases("e2e", 3, func(c *Ctx, k int, rng *rand.Rand) { c14E2E(c, rng) }, func(k int, rng *rand.Rand) string {
		return fmt.Sprintf("history %d: every generated struct type, its pointer, container families and 60 run-time types, marshalled and unmarshalled twice in a random order in a fresh process", k)
	}, nil)
}

func c14Static(c *Ctx) {
	c.Rep.Rule = "ops: analyze(typelinks of this binary), cidx(base,max,range,shift,addr) for every type address of 900 generated struct types, their pointer/slice/map/array types, run-time (reflect) types and boundary addresses, against the Lean model; " +
		"oracle: the layout hypothesis measured on the real addresses, and end-to-end identity (each type's own field name in Marshal output / Unmarshal target) in random order, cold and warm; non-trivial = every op"
	base, max, rng, shift := json.VerifTypeAddr()
	// 1. the analysis itself
	links, ok := json.VerifTypeLinks()
	if ok {
		var sb strings.Builder
		sb.WriteString("analyze")
		for _, l := range links {
			fmt.Fprintf(&sb, " %x:%x", l[0], l[1])
		}
		impl := "none"
		if rng != 0 {
			impl = fmt.Sprintf("some %x %x %x %d", base, max, rng, shift)
		}
		c.Op(sb.String(), impl, true, "analyze")
	}
	c.Rep.Hist["typelinks"] = len(links)
	// 2. collect type addresses
	var addrs []uintptr
	seen := map[uintptr]string{}
	add := func(v interface{}) {
		a := typeAddrOf(v)
		if _, dup := seen[a]; !dup {
			seen[a] = reflect.TypeOf(v).String()
			addrs = append(addrs, a)
		}
	}
	for _, v := range c14Vals {
		add(v)
		add(reflect.New(reflect.TypeOf(v)).Interface())
	}
	for _, v := range c14Slices {
		add(v)
	}
	for _, l := range links {
		if _, dup := seen[l[0]]; !dup {
			seen[l[0]] = "typelink"
			addrs = append(addrs, l[0])
		}
	}
	// run-time types live on the heap
	dyn := c14DynTypes()
	for _, t := range dyn {
		add(reflect.New(t).Elem().Interface())
		add(reflect.New(t).Interface())
		add(reflect.MakeSlice(reflect.SliceOf(t), 0, 0).Interface())
	}
	// layout hypothesis on the addresses inside the analysed range
	var inRange []uintptr
	for _, a := range addrs {
		if a >= base && a <= max {
			inRange = append(inRange, a)
		}
	}
	sort.Slice(inRange, func(i, j int) bool { return inRange[i] < inRange[j] })
	misaligned, close := 0, 0
	for i, a := range inRange {
		if a%32 != 0 {
			misaligned++
		}
		if i > 0 && a-inRange[i-1] < 64 {
			close++
		}
	}
	c.Oracle("layout/32-aligned", fmt.Sprintf("%d type addresses in [base,max]", len(inRange)), fmt.Sprintf("%d misaligned", misaligned), "0 misaligned", misaligned == 0, "")
	c.Oracle("layout/64-apart", fmt.Sprintf("%d type addresses in [base,max]", len(inRange)), fmt.Sprintf("%d pairs closer than 64", close), "0", close == 0, "")
	c.Rep.Hist["addresses"] = len(addrs)
	c.Rep.Hist["addresses-in-range"] = len(inRange)
	// 3. index expression vs model, real and boundary addresses
	probe := append([]uintptr{}, addrs...)
	for _, d := range []uintptr{0, 1, 31, 32, 63, 64} {
		probe = append(probe, base+d, base-d, max+d, max-d)
	}
	probe = append(probe, 0, 1, ^uintptr(0), ^uintptr(0)-64)
	for i := 0; i < 2000; i++ {
		probe = append(probe, base+uintptr(c.Rng.Int63n(int64(rng)+4096))-2048)
	}
	usedIdx := map[int]uintptr{}
	for _, a := range probe {
		ei, ef, esz := json.VerifEncCacheIndex(a)
		di, df, dsz := json.VerifDecCacheIndex(a)
		fmtRes := func(i int, f bool, sz int) string {
			if !f {
				return "slow"
			}
			if i >= sz {
				return fmt.Sprintf("fast %d OUT-OF-RANGE(size %d)", i, sz)
			}
			return fmt.Sprintf("fast %d", i)
		}
		line := fmt.Sprintf("cidx %x %x %x %d %x", base, max, rng, shift, a)
		c.Op(line, fmtRes(ei, ef, esz), true, "cidx-enc")
		c.Op(line, fmtRes(di, df, dsz), true, "cidx-dec")
		if _, real := seen[a]; real && ef {
			if other, dup := usedIdx[ei]; dup && other != a {
				c.Oracle("index-collision", fmt.Sprintf("%s@%x vs %s@%x", seen[a], a, seen[other], other), fmt.Sprintf("both index %d", ei), "distinct indexes", false, "")
			}
			usedIdx[ei] = a
		}
	}
}

// c14Marshal: Marshal with a fault turned into a reportable error
func c14Marshal(v interface{}) ([]byte, error) {
	out, err, pan := safeMarshal(func() ([]byte, error) { return json.Marshal(v) })
	if pan != "" {
		return out, fmt.Errorf("PANIC %s", pan)
	}
	return out, err
}

func c14Unmarshal(b []byte, p interface{}) error {
	_, err, pan := safeMarshal(func() ([]byte, error) { return nil, json.Unmarshal(b, p) })
	if pan != "" {
		return fmt.Errorf("PANIC %s", pan)
	}
	return err
}

// c14E2E: each value is encoded/decoded by the program of its own type, whatever was processed before
func c14E2E(c *Ctx, rng *rand.Rand) {
	dyn := c14DynTypes()
	// the first encoding of a type is under a field query: what the cache keeps for the type is the
	// type's program, not the filtered one
	{
		for n, i := range rng.Perm(len(c14Vals))[:6] {
			v := c14Vals[i]
			var q *json.FieldQuery
			if n%2 == 0 {
				q, _ = json.BuildFieldQuery("nothing-of-this-name")
			} else {
				q, _ = json.BuildFieldQuery(json.FieldQueryString(fmt.Sprintf("F%04d", i)))
			}
			_, _, _ = safeMarshal(func() ([]byte, error) {
				return json.MarshalContext(json.SetFieldQueryToContext(context.Background(), q), v)
			})
			want := fmt.Sprintf(`{"F%04d":%d}`, i, i)
			got, err, pan := safeMarshal(func() ([]byte, error) { return json.Marshal(v) })
			c.Oracle("e2e/plain-after-first-query", fmt.Sprintf("%T: first encoded under a query, then plainly", v), fmt.Sprintf("%s err=%v panic=%s", got, err, pan), want, pan == "" && err == nil && string(got) == want, "")
			got, err, pan = safeMarshal(func() ([]byte, error) { return json.Marshal([]interface{}{v}) })
			c.Oracle("e2e/plain-after-first-query", fmt.Sprintf("%T inside an interface", v), fmt.Sprintf("%s err=%v panic=%s", got, err, pan), "["+want+"]", pan == "" && err == nil && string(got) == "["+want+"]", "")
		}
	}
	order := rng.Perm(len(c14Vals))
	for round := 0; round < 2; round++ {
		for _, i := range order {
			v := c14Vals[i]
			want := fmt.Sprintf(`{"F%04d":%d}`, i, i)
			got, err := c14Marshal(v)
			c.Oracle("e2e/marshal", fmt.Sprintf("%T", v), fmt.Sprintf("%s err=%v", got, err), want, err == nil && string(got) == want, "")
			p := c14News[i]()
			err = c14Unmarshal([]byte(fmt.Sprintf(`{"F%04d":7}`, i)), p)
			f := reflect.ValueOf(p).Elem().Field(0).Int()
			c.Oracle("e2e/unmarshal", fmt.Sprintf("%T", p), fmt.Sprintf("%d err=%v", f, err), "7", err == nil && f == 7, "")
			pg, err := c14Marshal(p)
			c.Oracle("e2e/marshal-ptr", fmt.Sprintf("%T", p), fmt.Sprintf("%s err=%v", pg, err), `{"F…":7}`, err == nil && string(pg) == fmt.Sprintf(`{"F%04d":7}`, i), "")
		}
		for _, v := range c14Slices {
			g, e1 := c14Marshal(v)
			s, e2 := stdjson.Marshal(v)
			c.Oracle("e2e/containers", fmt.Sprintf("%T", v), fmt.Sprintf("%s err=%v", g, e1), string(s), e1 == nil && e2 == nil && string(g) == string(s), "")
		}
		// families of related types (T, *T, **T, ***T, []T, [2]T, map[string]T, []*T) in random order:
		// each must be handled by its own program even though they share descriptors' neighbourhoods
		// and, for run-time types, the fallback map
		famBase := append([]reflect.Type{}, dyn...)
		for _, i := range []int{0, 1, 2, 3, 450, 898, 899} {
			famBase = append(famBase, reflect.TypeOf(c14Vals[i]))
		}
		type famCase struct {
			t   reflect.Type
			doc string
		}
		var fam []famCase
		for _, t := range famBase {
			name := t.Field(0).Tag.Get("json")
			obj := fmt.Sprintf(`{"%s":5}`, name)
			p1 := reflect.PtrTo(t)
			p2 := reflect.PtrTo(p1)
			fam = append(fam,
				famCase{t, obj}, famCase{p1, obj}, famCase{p2, obj}, famCase{reflect.PtrTo(p2), obj},
				famCase{reflect.SliceOf(t), "[" + obj + "," + obj + "]"},
				famCase{reflect.ArrayOf(2, t), "[" + obj + "," + obj + "]"},
				famCase{reflect.MapOf(reflect.TypeOf(""), t), `{"k":` + obj + `}`},
				famCase{reflect.SliceOf(p1), "[" + obj + ",null]"},
				famCase{p1, "null"}, famCase{p2, "null"})
		}
		for _, j := range rng.Perm(len(fam)) {
			fc := fam[j]
			g := reflect.New(fc.t)
			s := reflect.New(fc.t)
			gerr := c14Unmarshal([]byte(fc.doc), g.Interface())
			serr := stdjson.Unmarshal([]byte(fc.doc), s.Interface())
			ok := (gerr == nil) == (serr == nil) && reflect.DeepEqual(g.Interface(), s.Interface())
			c.Oracle("e2e/family-dec", fmt.Sprintf("%s <- %s", fc.t, fc.doc), fmt.Sprintf("%v err=%v", g.Elem().Interface(), gerr), fmt.Sprintf("%v err=%v", s.Elem().Interface(), serr), ok, "")
			if serr == nil {
				gb, e1 := c14Marshal(s.Elem().Interface())
				sb, e2 := stdjson.Marshal(s.Elem().Interface())
				c.Oracle("e2e/family-enc", fc.t.String(), fmt.Sprintf("%s err=%v", gb, e1), string(sb), e1 == nil && e2 == nil && string(gb) == string(sb), "")
			}
		}
		// one field query shared by several types: each type's filtered program is its own
		{
			q, _ := json.BuildFieldQuery("F0000", "F0001", "F0002", "F0003", "D000", "D001", "D002", "D003")
			ctx := json.SetFieldQueryToContext(context.Background(), q)
			for _, i := range rng.Perm(4) {
				v := c14Vals[i]
				want := fmt.Sprintf(`{"F%04d":%d}`, i, i)
				got, err, pan := safeMarshal(func() ([]byte, error) { return json.MarshalContext(ctx, v) })
				c.Oracle("e2e/query-compiled", fmt.Sprintf("%T under a query naming four types' fields", v), fmt.Sprintf("%s err=%v panic=%s", got, err, pan), want, pan == "" && err == nil && string(got) == want, "")
			}
			for _, i := range rng.Perm(4) {
				v := reflect.New(dyn[i])
				v.Elem().Field(0).SetInt(int64(i))
				want := fmt.Sprintf(`{"D%03d":%d}`, i, i)
				got, err, pan := safeMarshal(func() ([]byte, error) { return json.MarshalContext(ctx, v.Interface()) })
				c.Oracle("e2e/query-dynamic", fmt.Sprintf("%s under a query naming four types' fields", dyn[i]), fmt.Sprintf("%s err=%v panic=%s", got, err, pan), want, pan == "" && err == nil && string(got) == want, "")
			}
		}
		for i, t := range dyn {
			v := reflect.New(t)
			v.Elem().Field(0).SetInt(int64(i))
			want := fmt.Sprintf(`{"D%03d":%d}`, i, i)
			g, err := c14Marshal(v.Interface())
			c.Oracle("e2e/dynamic", t.String(), fmt.Sprintf("%s err=%v", g, err), want, err == nil && string(g) == want, "")
			d := reflect.New(t)
			err = c14Unmarshal([]byte(fmt.Sprintf(`{"D%03d":9}`, i)), d.Interface())
			c.Oracle("e2e/dynamic-dec", t.String(), fmt.Sprintf("%d err=%v", d.Elem().Field(0).Int(), err), "9", err == nil && d.Elem().Field(0).Int() == 9, "")
		}
	}
}
