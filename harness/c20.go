package main

import (
	"bytes"
	stdjson "encoding/json"
	"fmt"
	"reflect"
	"strings"
	"sync"

	json "github.com/goccy/go-json"
)

func init() { props["C20"] = runC20 }

func c20Runes(s string) string {
	var parts []string
	for _, r := range []rune(s) {
		parts = append(parts, fmt.Sprint(int(r)))
	}
	return strings.Join(parts, ".")
}

// c20Tokens renders a JSON text in the driver's tree notation (reference tokenizer: encoding/json's
// Decoder with UseNumber; member order and duplicate keys are kept). ok=false for an invalid text.
func c20Tokens(text []byte) (string, bool) {
	dec := stdjson.NewDecoder(bytes.NewReader(text))
	dec.UseNumber()
	var out []string
	var rec func() bool
	rec = func() bool {
		tok, err := dec.Token()
		if err != nil {
			return false
		}
		switch v := tok.(type) {
		case stdjson.Delim:
			switch v {
			case '[':
				idx := len(out)
				out = append(out, "")
				n := 0
				for dec.More() {
					if !rec() {
						return false
					}
					n++
				}
				if _, err := dec.Token(); err != nil {
					return false
				}
				out[idx] = fmt.Sprintf("a%d", n)
			case '{':
				idx := len(out)
				out = append(out, "")
				n := 0
				for dec.More() {
					kt, err := dec.Token()
					if err != nil {
						return false
					}
					k, ok := kt.(string)
					if !ok {
						return false
					}
					out = append(out, "k"+c20Runes(k))
					if !rec() {
						return false
					}
					n++
				}
				if _, err := dec.Token(); err != nil {
					return false
				}
				out[idx] = fmt.Sprintf("o%d", n)
			default:
				return false
			}
		case string:
			out = append(out, "s"+hx([]byte("\""+v)))
		case stdjson.Number:
			out = append(out, "s"+hx([]byte(v.String())))
		case bool:
			if v {
				out = append(out, "s"+hx([]byte("true")))
			} else {
				out = append(out, "s"+hx([]byte("false")))
			}
		case nil:
			out = append(out, "s"+hx([]byte("null")))
		default:
			return false
		}
		return true
	}
	if !rec() {
		return "", false
	}
	if _, err := dec.Token(); err == nil {
		return "", false // trailing data
	}
	return strings.Join(out, " "), true
}

// c20Extract runs Extract and renders the results in the same notation.
func c20Extract(p *json.Path, doc []byte) (res string) {
	defer func() {
		if r := recover(); r != nil {
			res = fmt.Sprintf("panic %v", r)
		}
	}()
	parts, err := p.Extract(doc)
	if err != nil {
		return "err"
	}
	if len(parts) == 0 {
		return "-"
	}
	var out []string
	for _, b := range parts {
		t, ok := c20Tokens(b)
		if !ok {
			return fmt.Sprintf("bad-subdocument %q", b)
		}
		out = append(out, t)
	}
	return strings.Join(out, " | ")
}

func c20GenDoc(c *Ctx, depth int) string {
	ws := func() string {
		switch c.Rng.Intn(8) {
		case 0:
			return " "
		case 1:
			return "\n\t"
		}
		return ""
	}
	keys := []string{`"a"`, `"b"`, `"a.b"`, `"é"`, `""`, `"a"`, `"x"`, `"0"`, `"a b"`, `"*"`}
	scalars := []string{"1", "-0.5e3", `"s"`, `"a"`, `""`, "true", "false", "null", "0", `"\né"`, "12345678901234567890"}
	if depth <= 0 || c.Rng.Intn(4) == 0 {
		return scalars[c.Rng.Intn(len(scalars))]
	}
	var sb strings.Builder
	n := c.Rng.Intn(4)
	if c.Rng.Intn(2) == 0 {
		sb.WriteString("[" + ws())
		for i := 0; i < n; i++ {
			if i > 0 {
				sb.WriteString("," + ws())
			}
			sb.WriteString(c20GenDoc(c, depth-1) + ws())
		}
		sb.WriteString("]")
	} else {
		sb.WriteString("{" + ws())
		for i := 0; i < n; i++ {
			if i > 0 {
				sb.WriteString("," + ws())
			}
			sb.WriteString(keys[c.Rng.Intn(len(keys))] + ws() + ":" + ws() + c20GenDoc(c, depth-1) + ws())
		}
		sb.WriteString("}")
	}
	return sb.String()
}

func c20GenPath(c *Ctx) string {
	names := []string{"a", "b", "x", "é", "0", "a b"}
	special := []string{"a.b", "*", "a[0]", "$"}
	var sb strings.Builder
	sb.WriteString("$")
	n := 1 + c.Rng.Intn(4)
	for i := 0; i < n; i++ {
		switch c.Rng.Intn(10) {
		case 0, 1, 2:
			nm := names[c.Rng.Intn(len(names))]
			switch c.Rng.Intn(4) {
			case 0:
				sb.WriteString("['" + nm + "']")
			case 1:
				sb.WriteString(`."` + nm + `"`)
			default:
				sb.WriteString("." + nm)
			}
		case 3:
			nm := special[c.Rng.Intn(len(special))]
			if c.Rng.Intn(2) == 0 {
				sb.WriteString("['" + nm + "']")
			} else {
				sb.WriteString(`."` + nm + `"`)
			}
		case 4, 5:
			sb.WriteString(fmt.Sprintf("[%d]", []int{0, 1, 2, 3, -1, 7}[c.Rng.Intn(6)]))
		case 6, 7:
			sb.WriteString("[*]")
		default:
			sb.WriteString(".." + names[c.Rng.Intn(4)])
		}
	}
	return sb.String()
}

// c20PathInto builds a path that follows the structure of the document (so that it selects something)
func c20PathInto(c *Ctx, doc string) string {
	var v interface{}
	if err := stdjson.Unmarshal([]byte(doc), &v); err != nil {
		return "$"
	}
	var sb strings.Builder
	sb.WriteString("$")
	simple := func(k string) bool {
		if k == "" {
			return false
		}
		return !strings.ContainsAny(k, ".[]$*'\" ")
	}
	for steps := 0; steps < 5; steps++ {
		switch t := v.(type) {
		case map[string]interface{}:
			if len(t) == 0 {
				return sb.String()
			}
			var ks []string
			for k := range t {
				ks = append(ks, k)
			}
			sortStrings(ks)
			k := ks[c.Rng.Intn(len(ks))]
			switch {
			case simple(k) && c.Rng.Intn(4) == 0:
				sb.WriteString(".." + k)
			case simple(k) && c.Rng.Intn(2) == 0:
				sb.WriteString("." + k)
			case k != "" && !strings.ContainsAny(k, "'\"") && c.Rng.Intn(2) == 0:
				sb.WriteString("['" + k + "']")
			case k != "" && !strings.ContainsAny(k, "'\"[]$.*"):
				sb.WriteString(`."` + k + `"`)
			default:
				return sb.String()
			}
			v = t[k]
		case []interface{}:
			if len(t) == 0 {
				return sb.String()
			}
			i := c.Rng.Intn(len(t))
			if c.Rng.Intn(3) == 0 {
				sb.WriteString("[*]")
			} else {
				sb.WriteString(fmt.Sprintf("[%d]", i))
			}
			v = t[i]
		default:
			return sb.String()
		}
		if c.Rng.Intn(4) == 0 {
			break
		}
	}
	return sb.String()
}

func sortStrings(a []string) {
	for i := 1; i < len(a); i++ {
		for j := i; j > 0 && a[j] < a[j-1]; j-- {
			a[j], a[j-1] = a[j-1], a[j]
		}
	}
}

func runC20(c *Ctx) {
	c.Rep.Rule = "builder: every text `$`+w for all words w up to a length bound over {$ . [ ] * ' \" 0 1 a b - é}, all words up to length 3 not starting with $, random longer texts (accept/reject and node list vs model); " +
		"extraction: generated documents (depth <= 4, duplicate/escaped/special keys, white space) x generated paths (child in all three spellings, index, wildcard, recursive descent) vs the model walk (= reference semantics by theorem); Path.Unmarshal vs Extract; " +
		"histories of Extract calls on one Path with failing calls interleaved vs fresh Paths; concurrent calls on one Path; non-trivial = every case"
	alpha := []string{"$", ".", "[", "]", "*", "'", "\"", "0", "1", "a", "b", "-", "é"}
	maxLen := 4
	if c.Thorough() {
		maxLen = 5
	}
	buildOp := func(text string) {
		arg := c20Runes(text)
		if arg == "" {
			arg = "-"
		}
		out := json.VerifBuildPath(text)
		b := "build-err"
		if strings.HasPrefix(out, "ok") {
			b = "build-ok"
		}
		c.Op("pbuild "+arg, out, true, b)
	}
	var words func(prefix string, n int, f func(string))
	words = func(prefix string, n int, f func(string)) {
		f(prefix)
		if n == 0 {
			return
		}
		for _, a := range alpha {
			words(prefix+a, n-1, f)
		}
	}
	words("$", maxLen, buildOp)
	words("", 3, func(s string) {
		if !strings.HasPrefix(s, "$") {
			buildOp(s)
		}
	})
	c.Rep.Exhaustive = append(c.Rep.Exhaustive, fmt.Sprintf("path texts $w, |w| <= %d over 13 symbols; all texts of length <= 3", maxLen))
	nrand := 20000
	if c.Thorough() {
		nrand = 400000
	}
	for i := 0; i < nrand; i++ {
		n := 5 + c.Rng.Intn(14)
		var sb strings.Builder
		sb.WriteString("$")
		for j := 0; j < n; j++ {
			if c.Rng.Intn(3) == 0 {
				sb.WriteString([]string{".a", "[0]", "[*]", "..b", "['a']", `."b"`, "[12]", ".a.b", "[-1]", "[+1]", "[9223372036854775807]", "[9223372036854775808]", "[-9223372036854775808]", "[1_0]", "[0x1]", "[ 1]"}[c.Rng.Intn(16)])
				j += 2
			} else {
				sb.WriteString(alpha[c.Rng.Intn(len(alpha))])
			}
		}
		buildOp(sb.String())
	}

	// extraction
	ndocs := 400
	npaths := 40
	if c.Thorough() {
		ndocs = 4000
		npaths = 120
	}
	var paths []string
	for i := 0; i < npaths*3; i++ {
		paths = append(paths, c20GenPath(c))
	}
	paths = append(paths, "$", "$.a", "$.a.b", "$[0]", "$[*]", "$..a", "$..a.b", "$..a[0]", "$[*].a", "$[*][*]", "$..a..b", "$.a[*].b", "$['a.b']", `$."a.b".a`, "$..b[*]", "$..x..x")
	type built struct {
		text string
		p    *json.Path
		sels string
	}
	var bs []built
	for _, pt := range paths {
		out := json.VerifBuildPath(pt)
		buildOp(pt)
		if !strings.HasPrefix(out, "ok") {
			continue
		}
		p, err := json.CreatePath(pt)
		if err != nil {
			continue
		}
		sels := strings.TrimPrefix(out, "ok ")
		if sels == "" || sels == "ok" {
			sels = "-"
		}
		bs = append(bs, built{pt, p, sels})
	}
	var docs []string
	for i := 0; i < ndocs; i++ {
		docs = append(docs, c20GenDoc(c, 1+c.Rng.Intn(4)))
	}
	docs = append(docs, `{"a":{"a":5}}`, `{"x":{"a":1},"a":5}`, `{"a":1,"a":2}`, `{"a":"str"}`, `[[1,2],[3],[]]`, ` {"a" : [ 1 , {"b":2} ] } `, `{"a":{"b":1,"a":{"b":2}}}`, `5`, `"s"`, `null`, `[]`, `{}`)
	mk := func(pt string) (built, bool) {
		out := json.VerifBuildPath(pt)
		buildOp(pt)
		if !strings.HasPrefix(out, "ok") {
			return built{}, false
		}
		p, err := json.CreatePath(pt)
		if err != nil {
			return built{}, false
		}
		sels := strings.TrimSpace(strings.TrimPrefix(out, "ok"))
		if sels == "" {
			sels = "-"
		}
		return built{pt, p, sels}, true
	}
	for di, d := range docs {
		toks, ok := c20Tokens([]byte(d))
		if !ok {
			continue
		}
		for k := 0; k < npaths; k++ {
			b := bs[(di*7+k*13+c.Rng.Intn(len(bs)))%len(bs)]
			if k%2 == 1 {
				if nb, ok := mk(c20PathInto(c, d)); ok {
					b = nb
				}
			}
			res := c20Extract(b.p, []byte(d))
			if b.sels == "-" {
				// the root-only path returns the text as given; the model returns the document
				c.Op("pextract - "+toks, res, true, "extract-root")
			} else {
				bucket := "extract-empty"
				if res != "-" {
					bucket = "extract-some"
				}
				if strings.Contains(b.sels, "d=") {
					bucket += "-desc"
				}
				c.Op("pextract "+b.sels+" "+toks, res, true, bucket)
				// and from the text of the path: parser and walk together against the model
				c.Op("ptext "+c20Runes(b.text)+" "+toks, res, true, "extract-from-text")
			}
			// Path.Unmarshal decodes the same parts
			parts, err := b.p.Extract([]byte(d))
			var got interface{}
			uerr := b.p.Unmarshal([]byte(d), &got)
			want := []interface{}{}
			for _, part := range parts {
				var v interface{}
				if e := stdjson.Unmarshal(part, &v); e != nil {
					err = e
				}
				want = append(want, v)
			}
			ok := (err == nil) == (uerr == nil) && (err != nil || reflect.DeepEqual(got, want))
			c.Oracle("unmarshal=extract", b.text+" <- "+d, fmt.Sprintf("%#v err=%v", got, uerr), fmt.Sprintf("%#v err=%v", want, err), ok, "")
		}
	}

	// directed: recursive descent followed by further selectors over members nested below matching
	// members, with escapes in keys and values (each value is reached by more than one walk)
	for _, d := range []string{
		`{"a":{"b":1,"a":{"b":2}}}`, `{"a":{"c":{"a":{"b":3}}}}`, `{"a":[{"a":[7]}]}`, `{"a":{"a":{"a":{"b":"x\ny","a":{"b":"\u00e9"}}}}}`,
		`{"a":{"b":{"a":{"b":"t\tu"}},"a":[{"b":1},{"a":{"b":[2,{"a":{"b":3}}]}}]}}`, `{"x":{"a":{"b\u0062":1,"b":"q\"r"}},"a":{"x":{"a":{"b":"\\"}}}}`,
	} {
		toks, ok := c20Tokens([]byte(d))
		if !ok {
			continue
		}
		for _, pt := range []string{"$..a.b", "$..a[0]", "$..a[*]", "$..a..b", "$..a.a.b", "$..a..a", "$.a..a.b", "$..b", "$..a..a..b"} {
			b, ok := mk(pt)
			if !ok {
				continue
			}
			c.Op("pextract "+b.sels+" "+toks, c20Extract(b.p, []byte(d)), true, "extract-directed-desc")
			c.Op("ptext "+c20Runes(b.text)+" "+toks, c20Extract(b.p, []byte(d)), true, "extract-from-text")
			parts, err := b.p.Extract([]byte(d))
			okp := err == nil
			for _, part := range parts {
				if !stdjson.Valid(part) {
					okp = false
				}
			}
			c.Oracle("extracted-parts-are-documents", pt+" <- "+d, fmt.Sprintf("%q err=%v", parts, err), "valid sub-documents", okp, "")
		}
	}

	// histories: one Path, failing calls interleaved; every result equals a fresh Path's
	bad := []string{`{"a":`, `{"a":1,}`, `[1,2`, `{"a":{"b":tru}}`, `{"a":[1,{"b":}]}`, ``, `{"a":1}x`, `[{"a":1},{"a":nul}]`}
	nh := 300
	if c.Thorough() {
		nh = 5000
	}
	for h := 0; h < nh; h++ {
		b := bs[c.Rng.Intn(len(bs))]
		shared, _ := json.CreatePath(b.text)
		for step := 0; step < 8; step++ {
			var d string
			if c.Rng.Intn(3) == 0 {
				d = bad[c.Rng.Intn(len(bad))]
			} else {
				d = docs[c.Rng.Intn(len(docs))]
			}
			fresh, _ := json.CreatePath(b.text)
			got := c20ExtractRaw(shared, []byte(d))
			want := c20ExtractRaw(fresh, []byte(d))
			c.Oracle("history", fmt.Sprintf("%s step %d <- %s", b.text, step, d), got, want, got == want, "")
		}
	}

	// concurrent calls on one Path
	ng := 8
	for h := 0; h < nh/10+5; h++ {
		b := bs[c.Rng.Intn(len(bs))]
		shared, _ := json.CreatePath(b.text)
		var ds []string
		for i := 0; i < 6; i++ {
			if i%3 == 2 {
				ds = append(ds, bad[c.Rng.Intn(len(bad))])
			} else {
				ds = append(ds, docs[c.Rng.Intn(len(docs))])
			}
		}
		want := make([]string, len(ds))
		for i, d := range ds {
			fresh, _ := json.CreatePath(b.text)
			want[i] = c20ExtractRaw(fresh, []byte(d))
		}
		var wg sync.WaitGroup
		var mu sync.Mutex
		mismatch := ""
		for g := 0; g < ng; g++ {
			wg.Add(1)
			go func(g int) {
				defer wg.Done()
				for rep := 0; rep < 30; rep++ {
					i := (g + rep) % len(ds)
					got := c20ExtractRaw(shared, []byte(ds[i]))
					if got != want[i] {
						mu.Lock()
						if mismatch == "" {
							mismatch = fmt.Sprintf("%s <- %s: %s", b.text, ds[i], got)
						}
						mu.Unlock()
					}
				}
			}(g)
		}
		wg.Wait()
		c.Oracle("concurrent", b.text, mismatch, "", mismatch == "", "")
	}
}

func c20ExtractRaw(p *json.Path, doc []byte) (res string) {
	defer func() {
		if r := recover(); r != nil {
			res = fmt.Sprintf("panic %v", r)
		}
	}()
	parts, err := p.Extract(doc)
	if err != nil {
		return "err"
	}
	return fmt.Sprintf("%q", parts)
}
