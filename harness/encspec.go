package main

// Conversion of Go values into the value trees of the Lean encoder specification (GoJson.Model.Enc):
// the type-directed part of encoding/json's rules is resolved here (which fields exist, their
// names, omitempty / string options, map keys as sorted strings, marshalers called), the Lean side
// prints the tree.

import (
	"encoding"
	"encoding/base64"
	stdjson "encoding/json"
	"fmt"
	"reflect"
	"sort"
	"strings"
	"unicode"
)

var encMarshalerT = reflect.TypeOf((*stdjson.Marshaler)(nil)).Elem()
var encTextT = reflect.TypeOf((*encoding.TextMarshaler)(nil)).Elem()
var encNumberT = reflect.TypeOf(stdjson.Number(""))

func encValidTag(s string) bool {
	if s == "" {
		return false
	}
	for _, c := range s {
		switch {
		case strings.ContainsRune("!#$%&()*+-./:;<=>?@[]^_{|}~ ", c):
		case !unicode.IsLetter(c) && !unicode.IsDigit(c):
			return false
		}
	}
	return true
}

// encFloatToken: the number text for a float. Formatting is strconv's and is not modelled; the token is
// taken from the implementation (its exponent spelling e-08 differs from encoding/json's e-8, which
// C01 tolerates), and the specification only checks that it is a JSON number.
var encFloatToken = func(f interface{}) ([]byte, error) { return stdjson.Marshal(f) }

// toGV appends the tokens of v to out; ok=false when the shape is outside what the converter covers
// (pointer-receiver marshalers, embedded fields, unsupported kinds).
func toGV(v reflect.Value, out *[]string, depth int) bool {
	if depth > 40 {
		return false
	}
	if !v.IsValid() {
		*out = append(*out, "z")
		return true
	}
	t := v.Type()
	if t.Kind() != reflect.Ptr && t.Kind() != reflect.Interface && reflect.PtrTo(t).Implements(encMarshalerT) && !t.Implements(encMarshalerT) {
		return false
	}
	if t.Kind() != reflect.Ptr && t.Kind() != reflect.Interface && reflect.PtrTo(t).Implements(encTextT) && !t.Implements(encTextT) {
		return false
	}
	if t.Implements(encMarshalerT) {
		if t.Kind() == reflect.Ptr && v.IsNil() {
			*out = append(*out, "z")
			return true
		}
		if t.Kind() == reflect.Interface && v.IsNil() {
			*out = append(*out, "z")
			return true
		}
		b, err := v.Interface().(stdjson.Marshaler).MarshalJSON()
		if err != nil {
			return false
		}
		*out = append(*out, "r"+hx(b))
		return true
	}
	if t.Implements(encTextT) {
		if (t.Kind() == reflect.Ptr || t.Kind() == reflect.Interface) && v.IsNil() {
			*out = append(*out, "z")
			return true
		}
		b, err := v.Interface().(encoding.TextMarshaler).MarshalText()
		if err != nil {
			return false
		}
		*out = append(*out, "s"+hx(b))
		return true
	}
	switch t.Kind() {
	case reflect.Bool:
		if v.Bool() {
			*out = append(*out, "t")
		} else {
			*out = append(*out, "f")
		}
	case reflect.Int, reflect.Int8, reflect.Int16, reflect.Int32, reflect.Int64:
		*out = append(*out, fmt.Sprintf("i%d", v.Int()))
	case reflect.Uint, reflect.Uint8, reflect.Uint16, reflect.Uint32, reflect.Uint64, reflect.Uintptr:
		*out = append(*out, fmt.Sprintf("i%d", v.Uint()))
	case reflect.Float32, reflect.Float64:
		// the token is strconv's (trusted); for non-finite values encoding/json fails, and so does
		// the specification because the text is not a number
		b, err := encFloatToken(v.Interface())
		tok := string(b)
		if err != nil {
			tok = fmt.Sprint(v.Float())
		}
		if v.Float() == 0 {
			*out = append(*out, "N"+hx([]byte(tok)))
		} else {
			*out = append(*out, "n"+hx([]byte(tok)))
		}
	case reflect.String:
		if t == encNumberT {
			s := v.String()
			tag := "n"
			if s == "" {
				tag = "N"
				s = "0"
			}
			*out = append(*out, tag+hx([]byte(s)))
			return true
		}
		*out = append(*out, "s"+hx([]byte(v.String())))
	case reflect.Slice:
		if v.IsNil() {
			*out = append(*out, "z")
			return true
		}
		if t.Elem().Kind() == reflect.Uint8 && !reflect.PtrTo(t.Elem()).Implements(encMarshalerT) && !reflect.PtrTo(t.Elem()).Implements(encTextT) {
			*out = append(*out, "s"+hx([]byte(base64.StdEncoding.EncodeToString(v.Bytes()))))
			return true
		}
		fallthrough
	case reflect.Array:
		*out = append(*out, fmt.Sprintf("a%d", v.Len()))
		for i := 0; i < v.Len(); i++ {
			if !toGV(v.Index(i), out, depth+1) {
				return false
			}
		}
	case reflect.Map:
		if v.IsNil() {
			*out = append(*out, "z")
			return true
		}
		type kv struct {
			k string
			v reflect.Value
		}
		var kvs []kv
		for _, k := range v.MapKeys() {
			ks, err := c01KeyString(k)
			if err != nil {
				return false
			}
			kvs = append(kvs, kv{ks, v.MapIndex(k)})
		}
		sort.Slice(kvs, func(i, j int) bool { return kvs[i].k < kvs[j].k })
		for i := 1; i < len(kvs); i++ {
			if kvs[i].k == kvs[i-1].k {
				return false // two keys with the same text: the order is not determined
			}
		}
		*out = append(*out, fmt.Sprintf("m%d", len(kvs)))
		for _, e := range kvs {
			*out = append(*out, "k0"+hx([]byte(e.k)))
			if !toGV(e.v, out, depth+1) {
				return false
			}
		}
	case reflect.Ptr, reflect.Interface:
		if v.IsNil() {
			*out = append(*out, "z")
			return true
		}
		*out = append(*out, "p")
		return toGV(v.Elem(), out, depth+1)
	case reflect.Struct:
		idx := len(*out)
		*out = append(*out, "")
		n := 0
		names := map[string]bool{}
		for i := 0; i < t.NumField(); i++ {
			f := t.Field(i)
			if f.Anonymous {
				return false
			}
			if f.PkgPath != "" {
				continue
			}
			tag := f.Tag.Get("json")
			if tag == "-" {
				continue
			}
			parts := strings.Split(tag, ",")
			name := f.Name
			if encValidTag(parts[0]) {
				name = parts[0]
			}
			if names[name] {
				return false // duplicate names: dominance rules are not the converter's business
			}
			names[name] = true
			flags := 0
			for _, o := range parts[1:] {
				switch o {
				case "omitempty":
					flags |= 1
				case "string":
					ft := f.Type
					if ft.Name() == "" && ft.Kind() == reflect.Ptr {
						ft = ft.Elem()
					}
					switch ft.Kind() {
					case reflect.Bool, reflect.Int, reflect.Int8, reflect.Int16, reflect.Int32, reflect.Int64,
						reflect.Uint, reflect.Uint8, reflect.Uint16, reflect.Uint32, reflect.Uint64, reflect.Uintptr,
						reflect.Float32, reflect.Float64, reflect.String:
						flags |= 2
					}
				}
			}
			*out = append(*out, fmt.Sprintf("k%d%s", flags, hx([]byte(name))))
			at := len(*out)
			if !toGV(v.Field(i), out, depth+1) {
				return false
			}
			if flags&1 != 0 {
				// emptiness is a property of the Go value; the tree must agree with it
				first := (*out)[at]
				treeEmpty := first == "z" || first == "f" || first == "i0" || strings.HasPrefix(first, "N") || first == "s-" || first == "r-" || first == "a0" || first == "m0"
				if treeEmpty != encGoEmpty(v.Field(i)) {
					return false
				}
			}
			n++
		}
		(*out)[idx] = fmt.Sprintf("o%d", n)
	default:
		return false
	}
	return true
}

// encoding/json's isEmptyValue
func encGoEmpty(v reflect.Value) bool {
	switch v.Kind() {
	case reflect.Array, reflect.Map, reflect.Slice, reflect.String:
		return v.Len() == 0
	case reflect.Bool:
		return !v.Bool()
	case reflect.Int, reflect.Int8, reflect.Int16, reflect.Int32, reflect.Int64:
		return v.Int() == 0
	case reflect.Uint, reflect.Uint8, reflect.Uint16, reflect.Uint32, reflect.Uint64, reflect.Uintptr:
		return v.Uint() == 0
	case reflect.Float32, reflect.Float64:
		return v.Float() == 0
	case reflect.Interface, reflect.Ptr:
		return v.IsNil()
	}
	return false
}
