package main

import (
	"bytes"
	"context"
	stdjson "encoding/json"
	"errors"
	"fmt"
	"io"
	"math"
	"math/rand"
	"os"
	"os/exec"
	"path/filepath"
	"regexp"
	"runtime"
	"sort"
	"strings"

	json "github.com/goccy/go-json"
)

func init() { props["C11"] = runC11 }

// ---- values that make a call fail half-way ----

type C11ErrM struct{ N int }

func (m C11ErrM) MarshalJSON() ([]byte, error) {
	if m.N%2 == 0 {
		return nil, errors.New("c11: marshaler refuses")
	}
	return []byte(fmt.Sprintf(`{"ok":%d}`, m.N)), nil
}

type C11PanicM struct{ N int }

func (m C11PanicM) MarshalJSON() ([]byte, error) {
	if m.N%2 == 0 {
		panic("c11: marshaler panics")
	}
	return []byte(fmt.Sprintf(`[%d]`, m.N)), nil
}

type C11BadM struct{ N int }

func (m C11BadM) MarshalJSON() ([]byte, error) {
	if m.N%2 == 0 {
		return []byte(`{"broken":`), nil
	}
	return []byte(`true`), nil
}

type C11TextErr struct{ N int }

func (m C11TextErr) MarshalText() ([]byte, error) {
	if m.N%2 == 0 {
		return nil, errors.New("c11: text marshaler refuses")
	}
	return []byte("text"), nil
}

type c11CtxKey struct{}

// a context-aware marshaler / unmarshaler: what it sees of the context is part of the result
type C11CtxM struct{ N int }

func (m C11CtxM) MarshalJSON(ctx context.Context) ([]byte, error) {
	v, _ := ctx.Value(c11CtxKey{}).(string)
	q := "noquery"
	if fq := json.FieldQueryFromContext(ctx); fq != nil {
		if s, err := fq.QueryString(); err == nil {
			q = string(s)
		}
	}
	return stdjson.Marshal(fmt.Sprintf("ctx=%s q=%s n=%d", v, q, m.N))
}

type C11CtxU struct{ Seen string }

func (u *C11CtxU) UnmarshalJSON(ctx context.Context, b []byte) error {
	v, _ := ctx.Value(c11CtxKey{}).(string)
	u.Seen = "ctx=" + v + " " + string(b)
	return nil
}

type C11QI struct {
	A int
	B string
	I interface{}
	M *C11CtxM
}

type C11EmbIn struct {
	X, Y int
	Q    string
}
type C11Emb struct {
	C11EmbIn
	A  int
	N  int
	In C11EmbIn
}

type C11Plain struct {
	A int    `json:"a"`
	B string `json:"b"`
	C []int  `json:"c,omitempty"`
}

type C11Dup struct {
	A int `json:"a"`
	B int `json:"b"`
}

type C11Str struct {
	N int     `json:"n,string"`
	F float64 `json:"f,string"`
	S string  `json:"s,string"`
	B bool    `json:"b,string"`
}

type C11Holder struct {
	X  int
	M  map[string]interface{}
	L  []interface{}
	E  C11ErrM
	P  *C11PanicM
	T  map[C11TextErr]int
	I  interface{}
	Q  C11CtxM
	Z  float64
	Ch interface{}
}

type C11Node struct {
	V    int
	Next *C11Node
}

var c11Scheme = &json.ColorScheme{
	Int:       json.ColorFormat{Header: "<i>", Footer: "</i>"},
	Uint:      json.ColorFormat{Header: "<u>", Footer: "</u>"},
	Float:     json.ColorFormat{Header: "<f>", Footer: "</f>"},
	Bool:      json.ColorFormat{Header: "<b>", Footer: "</b>"},
	String:    json.ColorFormat{Header: "<s>", Footer: "</s>"},
	Binary:    json.ColorFormat{Header: "<y>", Footer: "</y>"},
	ObjectKey: json.ColorFormat{Header: "<k>", Footer: "</k>"},
	Null:      json.ColorFormat{Header: "<n>", Footer: "</n>"},
}

// ---- handles shared by the calls of a history ----

type c11Handles struct {
	paths   []*json.Path
	queries []*json.FieldQuery
	enc     *json.Encoder
	encBuf  *bytes.Buffer
	dbg     *bytes.Buffer
	dec     *json.Decoder
	decDocs []string
	decAt   int
}

var c11PathTexts = []string{"$.a", "$.a.b", "$..b", "$.c[1]", "$.c[*]", "$", "$.a.b.c", "$.x.y"}

func c11NewHandles(decDocs []string, decFrom int) *c11Handles {
	h := &c11Handles{encBuf: &bytes.Buffer{}, dbg: &bytes.Buffer{}, decDocs: decDocs, decAt: decFrom}
	for _, p := range c11PathTexts {
		bp, err := json.CreatePath(p)
		if err != nil {
			panic(err)
		}
		h.paths = append(h.paths, bp)
	}
	q1, _ := json.BuildFieldQuery("a", "b")
	q2, _ := json.BuildFieldQuery("X", json.BuildSubFieldQuery("M").Fields("k"), "Q")
	q3, _ := json.BuildFieldQuery("N")
	q4, _ := json.BuildFieldQuery("X")
	q5, _ := json.BuildFieldQuery("Y", "A")
	q6, _ := json.BuildFieldQuery("X", "Y", "A")
	q7, _ := json.BuildFieldQuery("N", json.BuildSubFieldQuery("In").Fields("Q"))
	q8, _ := json.BuildFieldQuery("A", "In")
	q9, _ := json.BuildFieldQuery(json.BuildSubFieldQuery("In").Fields("X", "Y"))
	q10, _ := json.BuildFieldQuery("A", json.BuildSubFieldQuery("I").Fields("P"), json.BuildSubFieldQuery("M").Fields("ZA", "ZB"))
	// the same names in the same order, nested differently
	q11, _ := json.BuildFieldQuery("A", json.BuildSubFieldQuery("In").Fields("X"))
	q12, _ := json.BuildFieldQuery("A", "In", "X")
	h.queries = []*json.FieldQuery{q1, q2, q3, q4, q5, q6, q7, q8, q9, q10, q11, q12}
	h.enc = json.NewEncoder(h.encBuf)
	h.dec = json.NewDecoder(&chunkReader{data: []byte(strings.Join(decDocs[decFrom:], " ")), size: 7})
	return h
}

// ---- calls ----

type c11Call struct {
	name string
	run  func(h *c11Handles) string
	// decoder calls consume the shared stream: they are issued in order, once each
	decIdx int
}

func c11Err(err error) string {
	if err == nil {
		return "<nil>"
	}
	s := err.Error()
	if len(s) > 200 {
		s = s[:200]
	}
	// which of several failing map entries is met first follows Go's map iteration order: the literal
	// an error message quotes and the non-finite float it names are not functions of the arguments
	s = c11Quoted.ReplaceAllString(s, `"…"`)
	s = c11NonFinite.ReplaceAllString(s, "non-finite")
	return fmt.Sprintf("%T:%s", err, s)
}

var c11Quoted = regexp.MustCompile(`"[^"]*"`)
var c11NonFinite = regexp.MustCompile(`NaN|[+-]Inf`)

func c11Out(b []byte, err error, pan string) string {
	s := string(b)
	if len(s) > 3000 {
		s = fmt.Sprintf("%s…(%d bytes, sum %d)", s[:1500], len(s), c11Sum(b))
	}
	return fmt.Sprintf("%s err=%s panic=%s", s, c11Err(err), pan)
}

func c11Sum(b []byte) uint32 {
	var h uint32 = 2166136261
	for _, c := range b {
		h = (h ^ uint32(c)) * 16777619
	}
	return h
}

// member order is free under UnorderedMap: compare the multiset of bytes
func c11Unordered(b []byte, err error, pan string) string {
	s := append([]byte(nil), b...)
	sort.Slice(s, func(i, j int) bool { return s[i] < s[j] })
	return fmt.Sprintf("len=%d sum=%d err=%s panic=%s", len(b), c11Sum(s), c11Err(err), pan)
}

func c11View(v interface{}) string {
	b, err := stdjson.Marshal(v)
	if err != nil {
		return "unprintable:" + err.Error()
	}
	if len(b) > 3000 {
		return fmt.Sprintf("%s…(%d bytes, sum %d)", b[:1500], len(b), c11Sum(b))
	}
	return string(b)
}

func c11Ctx(tag string) context.Context {
	return context.WithValue(context.Background(), c11CtxKey{}, tag)
}

// c11Pool: the calls of case k, a deterministic function of the generator state
func c11Pool(rng *rand.Rand) (calls []c11Call, decDocs []string) {
	g := &Gen{R: rng}
	add := func(name string, run func(h *c11Handles) string) {
		calls = append(calls, c11Call{name: name, run: run, decIdx: -1})
	}
	// values: generated, with every kind of failure in the mix
	type val struct {
		desc string
		v    interface{}
	}
	var vals []val
	for i := 0; i < 10; i++ {
		t := g.Type(1 + rng.Intn(3))
		v := g.Value(t, 3, GenOpt{Finite: i%3 != 0, ValidUTF8: i%4 != 0, ValidNum: i%5 != 0})
		if strings.HasPrefix(c01ClassOf(v.Interface(), nil, nil, nil, nil), "C08-") {
			continue
		}
		vals = append(vals, val{genTypeString(t), v.Interface()})
	}
	big := strings.Repeat("x<é>\n", 2000+rng.Intn(60000))
	deep := &C11Node{}
	for i := 0; i < 40+rng.Intn(1100); i++ {
		deep = &C11Node{V: i, Next: deep}
	}
	cyc := &C11Node{V: 1}
	cyc.Next = &C11Node{V: 2, Next: cyc}
	holder := func(n int) *C11Holder {
		return &C11Holder{X: n, M: map[string]interface{}{"k": n, "j": []interface{}{n, "s", map[string]interface{}{"q": C11ErrM{n + 1}}}, "z": C11ErrM{n}},
			L: []interface{}{1, map[string]interface{}{"a": C11PanicM{n + 1}}, deep}, E: C11ErrM{1}, P: &C11PanicM{n | 1}, T: map[C11TextErr]int{{1}: 1},
			I: map[string]interface{}{"deep": deep, "e": C11ErrM{n + 3}}, Q: C11CtxM{n}}
	}
	vals = append(vals,
		val{"plain", C11Plain{1, "b<>", []int{1, 2}}},
		val{"big string", map[string]interface{}{"s": big, "n": 1}},
		val{"big slice", make([]int, 3000+rng.Intn(30000))},
		val{"deep list", deep},
		val{"holder ok", holder(1)},
		val{"holder: marshaler error inside a sorted map inside an interface", holder(2)},
		val{"holder: marshaler panic", func() *C11Holder { h := holder(1); h.P = &C11PanicM{2}; return h }()},
		val{"holder: text key error", func() *C11Holder { h := holder(1); h.T = map[C11TextErr]int{{1}: 1, {2}: 2}; return h }()},
		val{"holder: NaN", func() *C11Holder { h := holder(1); h.Z = math.NaN(); return h }()},
		val{"holder: channel", func() *C11Holder { h := holder(1); h.Ch = make(chan int); return h }()},
		val{"holder: cycle", func() *C11Holder { h := holder(1); h.I = cyc; return h }()},
		val{"invalid marshaler output", []interface{}{1, C11BadM{2}}},
		val{"valid marshaler output", []interface{}{1, C11BadM{1}, C11ErrM{3}}},
		val{"bad number", []interface{}{stdjson.Number("1-2")}},
		val{"string tags", C11Str{N: -5, F: 1.5, S: "q\"", B: true}},
		val{"ctx marshaler", []C11CtxM{{1}, {2}}},
		val{"nil", nil},
	)
	pis := [][2]string{{"", "  "}, {">", "\t"}, {"é", " "}, {"", ""}}
	for i := range vals {
		v := vals[i]
		add("Marshal "+v.desc, func(h *c11Handles) string {
			return c11Out(safeMarshal(func() ([]byte, error) { return json.Marshal(v.v) }))
		})
		pi := pis[rng.Intn(len(pis))]
		add(fmt.Sprintf("MarshalIndent(%q,%q) %s", pi[0], pi[1], v.desc), func(h *c11Handles) string {
			return c11Out(safeMarshal(func() ([]byte, error) { return json.MarshalIndent(v.v, pi[0], pi[1]) }))
		})
		switch rng.Intn(8) {
		case 0:
			add("Colorize "+v.desc, func(h *c11Handles) string {
				return c11Out(safeMarshal(func() ([]byte, error) { return json.MarshalWithOption(v.v, json.Colorize(c11Scheme)) }))
			})
		case 1:
			add("Colorize+Indent "+v.desc, func(h *c11Handles) string {
				return c11Out(safeMarshal(func() ([]byte, error) {
					return json.MarshalIndentWithOption(v.v, pi[0], pi[1], json.Colorize(c11Scheme))
				}))
			})
		case 2:
			add("UnorderedMap "+v.desc, func(h *c11Handles) string {
				return c11Unordered(safeMarshal(func() ([]byte, error) { return json.MarshalWithOption(v.v, json.UnorderedMap()) }))
			})
		case 3:
			add("DisableHTMLEscape+DisableNormalizeUTF8 "+v.desc, func(h *c11Handles) string {
				return c11Out(safeMarshal(func() ([]byte, error) {
					return json.MarshalWithOption(v.v, json.DisableHTMLEscape(), json.DisableNormalizeUTF8())
				}))
			})
		case 4:
			tag := fmt.Sprint("t", i)
			add("MarshalContext "+v.desc, func(h *c11Handles) string {
				return c11Out(safeMarshal(func() ([]byte, error) { return json.MarshalContext(c11Ctx(tag), v.v) }))
			})
		case 5:
			add("MarshalNoEscape "+v.desc, func(h *c11Handles) string {
				return c11Out(safeMarshal(func() ([]byte, error) { return json.MarshalNoEscape(v.v) }))
			})
		case 6:
			// debugging: where the dump of a panicking call goes is part of the outcome
			add("Debug "+v.desc, func(h *c11Handles) string {
				before := c11StdoutLen()
				r := c11Out(safeMarshal(func() ([]byte, error) { return json.MarshalWithOption(v.v, json.Debug()) }))
				return fmt.Sprintf("%s stdout-written=%v", r, c11StdoutLen() > before)
			})
			add("DebugWith "+v.desc, func(h *c11Handles) string {
				n := h.dbg.Len()
				r := c11Out(safeMarshal(func() ([]byte, error) { return json.MarshalWithOption(v.v, json.Debug(), json.DebugWith(h.dbg)) }))
				return fmt.Sprintf("%s debug-written=%v", r, h.dbg.Len() > n)
			})
		case 7:
			qi := rng.Intn(3)
			add(fmt.Sprintf("MarshalContext+FieldQuery#%d %s", qi, v.desc), func(h *c11Handles) string {
				return c11Out(safeMarshal(func() ([]byte, error) {
					return json.MarshalContext(json.SetFieldQueryToContext(c11Ctx("fq"), h.queries[qi]), v.v)
				}))
			})
		}
		if i%3 == 0 {
			html := rng.Intn(2) == 0
			ind := rng.Intn(2) == 0
			add(fmt.Sprintf("Encoder(html=%v,indent=%v).Encode %s", html, ind, v.desc), func(h *c11Handles) string {
				h.enc.SetEscapeHTML(html)
				if ind {
					h.enc.SetIndent(pi[0], pi[1]+" ")
				} else {
					h.enc.SetIndent("", "")
				}
				n := h.encBuf.Len()
				_, err, pan := safeMarshal(func() ([]byte, error) { return nil, h.enc.Encode(v.v) })
				return c11Out(append([]byte(nil), h.encBuf.Bytes()[n:]...), err, pan)
			})
		}
	}
	// documents and destinations
	type dst struct {
		desc string
		mk   func() interface{}
	}
	// a destination that already holds something (filled by encoding/json: what it holds is part of
	// the arguments of the call)
	pre := func(mk func() interface{}, doc string) func() interface{} {
		return func() interface{} {
			v := mk()
			_ = stdjson.Unmarshal([]byte(doc), v)
			return v
		}
	}
	dsts := []dst{
		{"*C11Plain", func() interface{} { return &C11Plain{} }},
		{"*interface{}", func() interface{} { return new(interface{}) }},
		{"*map[string]interface{}", func() interface{} { return &map[string]interface{}{} }},
		{"*C11Dup", func() interface{} { return &C11Dup{} }},
		{"*C11Str", func() interface{} { return &C11Str{} }},
		{"*[]C11Plain", func() interface{} { return &[]C11Plain{} }},
		{"*C11CtxU", func() interface{} { return &C11CtxU{} }},
		{"*[]string", func() interface{} { return &[]string{} }},
		{"*map[string]C11Str", func() interface{} { return &map[string]C11Str{} }},
		{"*[]C11Plain(filled)", pre(func() interface{} { return &[]C11Plain{} }, `[{"a":7,"b":"old","c":[9]},{"a":8,"b":"old2"},{"a":9}]`)},
		{"*[]*C11Plain(filled)", pre(func() interface{} { return &[]*C11Plain{} }, `[{"a":7,"b":"old","c":[9]},{"a":8,"b":"old2"}]`)},
		{"*[]string(filled)", pre(func() interface{} { return &[]string{} }, `["old1","old2","old3","old4"]`)},
		{"*C11Plain(filled)", pre(func() interface{} { return &C11Plain{} }, `{"a":7,"b":"old","c":[9,9,9]}`)},
		{"*map[string]C11Str(filled)", pre(func() interface{} { return &map[string]C11Str{} }, `{"k":{"n":"7","s":"\"old\""},"old":{"n":"8"}}`)},
		{"*interface{}(filled)", pre(func() interface{} { return new(interface{}) }, `{"old":[1,{"a":2}]}`)},
		{"*[][]int(filled)", pre(func() interface{} { return &[][]int{} }, `[[1,2,3],[4,5],[6]]`)},
		{"*[2][]string(filled)", pre(func() interface{} { return &[2][]string{} }, `[["a","b"],["c"]]`)},
	}
	docs := []string{
		`{"a":1,"b":"x","c":[1,2,3]}`, `{"a":1,"b":2,"a":3,"b":4}`, `{"a":{"b":{"c":7}},"c":[10,20,30]}`,
		`{"n":"-5","f":"1.5","s":"\"q\"","b":"true"}`, `{"n":"5x"}`, `{"n":5}`, `[{"a":1},{"a":2,"b":"z"}]`,
		`["a","bé\n","` + strings.Repeat("long", 500+rng.Intn(5000)) + `"]`, `{"a":`, `{"a":1}}`, `[1,2`, `{"a":"str"}`, `nul`, `"x`,
		`{"k":{"n":"1","s":"\"a\""},"j":{"n":"x"}}`, ` [ ] `, `{"a":1e999}`, `{"c":[1,"x"]}`, `12`, `"s"`, `null`,
		`{"a":[{"b":1},{"b":[2,{"b":3}]}],"b":"top"}`,
		`[{"a":1} x]`, `[{"a":1},`, `[{"a":2}]`, `[{"b":"new"},{"a":3}]`, `["n1" x]`, `["n1","n2"`, `["n1"]`, `[null,"n2"]`, `{"c":[1,2 x`, `{"c":[5]}`,
		`[[7] x]`, `[[7,8],[9]]`, `[[null],[]]`, `{"k":{"n":"1"} x`, `{"k":{"s":"\"new\""}}`, `[{"c":[1 x`,
	}
	dd := &docGen{r: rng, noise: 15}
	for i := 0; i < 6; i++ {
		docs = append(docs, dd.any(3))
	}
	for i := 0; i < 60; i++ {
		d := dsts[rng.Intn(len(dsts))]
		doc := docs[rng.Intn(len(docs))]
		short := doc
		if len(short) > 60 {
			short = short[:60] + "…"
		}
		switch rng.Intn(5) {
		case 0, 1:
			add("Unmarshal "+d.desc+" <- "+short, func(h *c11Handles) string {
				v := d.mk()
				err, pan := safeDo(func() error { return json.Unmarshal([]byte(doc), v) })
				return fmt.Sprintf("%s err=%s panic=%s", c11View(v), c11Err(err), pan)
			})
		case 2:
			add("Unmarshal+FirstWin "+d.desc+" <- "+short, func(h *c11Handles) string {
				v := d.mk()
				err, pan := safeDo(func() error {
					return json.UnmarshalWithOption([]byte(doc), v, json.DecodeFieldPriorityFirstWin())
				})
				return fmt.Sprintf("%s err=%s panic=%s", c11View(v), c11Err(err), pan)
			})
		case 3:
			tag := fmt.Sprint("u", i)
			add("UnmarshalContext "+d.desc+" <- "+short, func(h *c11Handles) string {
				v := d.mk()
				err, pan := safeDo(func() error { return json.UnmarshalContext(c11Ctx(tag), []byte(doc), v) })
				return fmt.Sprintf("%s err=%s panic=%s", c11View(v), c11Err(err), pan)
			})
		case 4:
			add("UnmarshalNoEscape "+d.desc+" <- "+short, func(h *c11Handles) string {
				v := d.mk()
				err, pan := safeDo(func() error { return json.UnmarshalNoEscape([]byte(doc), v) })
				return fmt.Sprintf("%s err=%s panic=%s", c11View(v), c11Err(err), pan)
			})
		}
	}
	// directed: different field queries, one after the other, on one type with an embedded struct (what
	// one query selects must not shape the program another query gets)
	for qi := 3; qi < 12; qi++ {
		qi := qi
		for vi, v := range []interface{}{
			// an interface-typed member and a context-aware marshaler under sub-queries (what they get must
			// be the same the second time the query is used)
			C11QI{A: 1, B: "b", I: struct {
				P int
				Q string
				R bool
			}{2, "q", true}, M: &C11CtxM{N: 3}},
			C11Emb{C11EmbIn: C11EmbIn{X: 1, Y: 2, Q: "q"}, A: 3, N: 4, In: C11EmbIn{X: 5, Y: 6, Q: "r"}},
			&C11Emb{C11EmbIn: C11EmbIn{X: 7}, A: 8},
			[]C11Emb{{A: 1}, {C11EmbIn: C11EmbIn{Y: 9}, N: 2}},
		} {
			v := v
			add(fmt.Sprintf("MarshalContext+FieldQuery#%d embedded value %d", qi, vi), func(h *c11Handles) string {
				return c11Out(safeMarshal(func() ([]byte, error) {
					return json.MarshalContext(json.SetFieldQueryToContext(c11Ctx("fq"), h.queries[qi]), v)
				}))
			})
		}
	}
	// directed: for every container destination a decode that fails after an element into a filled
	// destination, and decodes of short documents into empty and filled ones (what the failing call
	// leaves in the decoder's pools must not show in the next)
	byName := func(n string) dst {
		for _, d := range dsts {
			if d.desc == n {
				return d
			}
		}
		panic(n)
	}
	for _, dd := range []struct {
		empty, filled string
		fail, ok      []string
	}{
		{"*[]C11Plain", "*[]C11Plain(filled)", []string{`[{"a":1} x]`, `[{"a":1},{"a":2},`, `[{"c":[1 x`}, []string{`[{"a":2}]`, `[{"b":"n"},{"a":3}]`, `[null,{"a":4}]`}},
		{"*[]string", "*[]string(filled)", []string{`["n1" x]`, `["n1","n2"`}, []string{`["m"]`, `[null,"m2"]`, `[null,null,null]`}},
		{"*map[string]C11Str", "*map[string]C11Str(filled)", []string{`{"k":{"n":"1"} x`, `{"q":{"n":"x"}}`}, []string{`{"k":{"s":"\"new\""}}`, `{"z":{}}`}},
		{"*C11Plain", "*C11Plain(filled)", []string{`{"c":[1,2 x`, `{"a":1,"c":[5,`}, []string{`{"c":[5]}`, `{"c":[null,7]}`, `{"b":"only"}`}},
	} {
		for _, which := range []string{dd.filled, dd.empty} {
			d := byName(which)
			for _, doc := range append(append([]string{}, dd.fail...), dd.ok...) {
				doc := doc
				add("Unmarshal "+d.desc+" <- "+doc, func(h *c11Handles) string {
					v := d.mk()
					err, pan := safeDo(func() error { return json.Unmarshal([]byte(doc), v) })
					return fmt.Sprintf("%s err=%s panic=%s", c11View(v), c11Err(err), pan)
				})
			}
		}
	}
	for _, extra := range []struct{ d, doc string }{
		{"*[]*C11Plain(filled)", `[{"a":1} x]`}, {"*[]*C11Plain(filled)", `[{"a":2}]`}, {"*[][]int(filled)", `[[7] x]`}, {"*[][]int(filled)", `[[null],[]]`},
		{"*[2][]string(filled)", `[["z" x`}, {"*[2][]string(filled)", `[[null]]`},
	} {
		d := byName(extra.d)
		doc := extra.doc
		add("Unmarshal "+d.desc+" <- "+doc, func(h *c11Handles) string {
			v := d.mk()
			err, pan := safeDo(func() error { return json.Unmarshal([]byte(doc), v) })
			return fmt.Sprintf("%s err=%s panic=%s", c11View(v), c11Err(err), pan)
		})
		add("Decoder(fresh).Decode "+d.desc+" <- "+doc, func(h *c11Handles) string {
			v := d.mk()
			err, pan := safeDo(func() error { return json.NewDecoder(strings.NewReader(doc)).Decode(v) })
			return fmt.Sprintf("%s err=%s panic=%s", c11View(v), c11Err(err), pan)
		})
	}
	for i := 0; i < 6; i++ {
		doc := docs[rng.Intn(len(docs))]
		short := doc
		if len(short) > 60 {
			short = short[:60] + "…"
		}
		add("Valid/Compact/Indent/HTMLEscape "+short, func(h *c11Handles) string {
			var a, b, e bytes.Buffer
			e1 := json.Compact(&a, []byte(doc))
			e2 := json.Indent(&b, []byte(doc), ">", " ")
			json.HTMLEscape(&e, []byte(doc))
			return fmt.Sprintf("%v|%s|%s|%s|%s|%d", json.Valid([]byte(doc)), trunc(a.Bytes()), c11Err(e1), trunc(b.Bytes()), c11Err(e2), c11Sum(e.Bytes()))
		})
	}
	// shared compiled paths, succeeding and failing
	for i := 0; i < 14; i++ {
		pi := rng.Intn(len(c11PathTexts))
		doc := docs[rng.Intn(len(docs))]
		short := doc
		if len(short) > 60 {
			short = short[:60] + "…"
		}
		switch rng.Intn(3) {
		case 0:
			add(fmt.Sprintf("Path(%s).Extract <- %s", c11PathTexts[pi], short), func(h *c11Handles) string {
				var out [][]byte
				err, pan := safeDo(func() error { var e error; out, e = h.paths[pi].Extract([]byte(doc)); return e })
				return fmt.Sprintf("%q err=%s panic=%s", out, c11Err(err), pan)
			})
		case 1:
			add(fmt.Sprintf("Path(%s).Unmarshal <- %s", c11PathTexts[pi], short), func(h *c11Handles) string {
				var v interface{}
				err, pan := safeDo(func() error { return h.paths[pi].Unmarshal([]byte(doc), &v) })
				return fmt.Sprintf("%s err=%s panic=%s", c11View(v), c11Err(err), pan)
			})
		case 2:
			add(fmt.Sprintf("Path(%s).Get <- %s", c11PathTexts[pi], short), func(h *c11Handles) string {
				var src, v interface{}
				if stdjson.Unmarshal([]byte(doc), &src) != nil {
					src = map[string]interface{}{"a": map[string]interface{}{"b": 1}}
				}
				err, pan := safeDo(func() error { return h.paths[pi].Get(src, &v) })
				if l, ok := v.([]interface{}); ok {
					// a walk over Go maps: the order of the results is the map's iteration order
					sort.Slice(l, func(i, j int) bool { return c11View(l[i]) < c11View(l[j]) })
				}
				return fmt.Sprintf("%s err=%s panic=%s", c11View(v), c11Err(err), pan)
			})
		}
	}
	// one Decoder over a sequence of documents: each Decode with its own options
	type dstep struct {
		doc  string
		mode int
		d    dst
	}
	var steps []dstep
	for i := 0; i < 7; i++ {
		var s dstep
		switch rng.Intn(4) {
		case 0:
			s = dstep{`{"a":1,"b":2,"a":3,"b":4}`, rng.Intn(4), dsts[3]}
		case 1:
			s = dstep{`"payload` + fmt.Sprint(i) + `"`, rng.Intn(4), dsts[6]}
		case 2:
			s = dstep{`{"a":` + fmt.Sprint(i) + `,"b":"s","c":[1]}`, rng.Intn(4), dsts[0]}
		default:
			s = dstep{`{"a":1,"a":2}`, rng.Intn(4), dsts[1]}
		}
		steps = append(steps, s)
		decDocs = append(decDocs, s.doc)
	}
	for i := range steps {
		s := steps[i]
		idx := i
		mode := []string{"Decode", "DecodeContext", "DecodeWithOption(FirstWin)", "Decode"}[s.mode]
		calls = append(calls, c11Call{name: fmt.Sprintf("Decoder#%d.%s %s <- %s", idx, mode, s.d.desc, s.doc), decIdx: idx, run: func(h *c11Handles) string {
			v := s.d.mk()
			var err error
			var pan string
			switch s.mode {
			case 1:
				err, pan = safeDo(func() error { return h.dec.DecodeContext(c11Ctx(fmt.Sprint("d", idx)), v) })
			case 2:
				err, pan = safeDo(func() error { return h.dec.DecodeWithOption(v, json.DecodeFieldPriorityFirstWin()) })
			default:
				err, pan = safeDo(func() error { return h.dec.Decode(v) })
			}
			return fmt.Sprintf("%s err=%s panic=%s", c11View(v), c11Err(err), pan)
		}})
	}
	return calls, decDocs
}

func c11Tail(s string) string {
	if len(s) > 300 {
		return s[len(s)-300:]
	}
	return s
}

// c11Diff shows a around the first position where it differs from b
func c11Diff(a, b string) string {
	i := 0
	for i < len(a) && i < len(b) && a[i] == b[i] {
		i++
	}
	lo := i - 80
	if lo < 0 {
		lo = 0
	}
	hi := i + 200
	if hi > len(a) {
		hi = len(a)
	}
	return fmt.Sprintf("(%d bytes; from byte %d) …%s…", len(a), lo, a[lo:hi])
}

var c11Stdout *os.File

func c11StdoutLen() int64 {
	if c11Stdout == nil {
		return 0
	}
	st, err := c11Stdout.Stat()
	if err != nil {
		return 0
	}
	return st.Size()
}

// c11CaptureStdout points os.Stdout at a file for the rest of the process
func c11CaptureStdout(dir string) {
	f, err := os.CreateTemp(dir, "stdout")
	if err != nil {
		return
	}
	c11Stdout = f
	os.Stdout = f
}

// c11Cold answers VERIF_COLD=<k>:<idx>: run call idx of case k first in this process
func c11Cold(c *Ctx, spec string) {
	var k, idx int
	fmt.Sscanf(spec, "%d:%d", &k, &idx)
	real := os.Stdout
	c11CaptureStdout(os.TempDir())
	calls, decDocs := c11Pool(caseRng(c.Seed, "histories", k))
	res := "no-such-call"
	if os.Getenv("VERIF_C11_NAMES") != "" {
		var sb strings.Builder
		for _, cl := range calls {
			sb.WriteString(cl.name + "\n")
		}
		io.WriteString(real, sb.String())
		return
	}
	if idx < len(calls) {
		from := 0
		if calls[idx].decIdx >= 0 {
			from = calls[idx].decIdx
		}
		h := c11NewHandles(decDocs, from)
		// the pool is not referenced any more while the call runs: its argument is the caller's only
		// reference to the value, as in `json.Marshal(makeValue())`
		run := calls[idx].run
		calls = nil
		res = run(h)
	}
	if c11Stdout != nil {
		os.Remove(c11Stdout.Name())
	}
	io.WriteString(real, res)
}

func runC11(c *Ctx) {
	if spec := os.Getenv("VERIF_COLD"); spec != "" {
		c11Cold(c, spec)
		os.Exit(0)
	}
	c.Rep.Rule = "histories of 60..400 calls (quick) over a per-case pool of about 100 calls drawn from the whole public API: Marshal / MarshalIndent / MarshalWithOption (Colorize, UnorderedMap, DisableHTMLEscape, DisableNormalizeUTF8, Debug, DebugWith) / MarshalContext (context values, field queries) / MarshalNoEscape / one shared Encoder with changing settings; values from the generator grammar plus values that fail half-way (marshaler error inside a sorted map inside an interface, marshaler panic recovered by the caller, TextMarshaler key error, NaN, channel, cycle, invalid marshaler output, ill-formed Number), outputs from a few bytes to megabytes; Unmarshal / UnmarshalWithOption(FirstWin) / UnmarshalContext / UnmarshalNoEscape on valid documents, syntax errors, type errors, `,string` fields; Valid / Compact / Indent / HTMLEscape; shared compiled Paths (Extract, Unmarshal, Get, failing and succeeding); shared FieldQuery objects; one Decoder whose successive Decode calls use Decode / DecodeContext / DecodeWithOption(FirstWin). Oracle: every call of the history against the same call issued first in a fresh process with fresh handles (cold oracle); a Decoder call against a fresh Decoder on the remaining input. non-trivial = every call"
	ncases := 48
	if c.Thorough() {
		ncases = 600
	}
	c.RunCases("histories", ncases, func(c *Ctx, k int, rng *rand.Rand) {
		calls, decDocs := c11Pool(rng)
		dir, _ := os.MkdirTemp("", "c11")
		defer os.RemoveAll(dir)
		c11CaptureStdout(dir)
		// the history: every call at least once, repeated and interleaved; decoder calls in order
		hr := rand.New(rand.NewSource(rng.Int63()))
		var order []int
		n := 60 + hr.Intn(340)
		if c.Thorough() {
			n = 100 + hr.Intn(900)
		}
		var free []int
		for i, cl := range calls {
			if cl.decIdx < 0 {
				free = append(free, i)
			}
		}
		for i := 0; i < n; i++ {
			order = append(order, free[hr.Intn(len(free))])
		}
		for _, i := range free {
			order = append(order, i)
		}
		hr.Shuffle(len(order), func(i, j int) { order[i], order[j] = order[j], order[i] })
		// splice the decoder calls in, in their order
		var dec []int
		for i, cl := range calls {
			if cl.decIdx >= 0 {
				dec = append(dec, i)
			}
		}
		pos := make([]int, len(dec))
		for i := range pos {
			pos[i] = hr.Intn(len(order) + 1)
		}
		sort.Ints(pos)
		var hist []int
		di := 0
		for i := 0; i <= len(order); i++ {
			for di < len(dec) && pos[di] == i {
				hist = append(hist, dec[di])
				di++
			}
			if i < len(order) {
				hist = append(hist, order[i])
			}
		}
		// cold results, each from its own process
		cold := make([]string, len(calls))
		coldErr := make([]string, len(calls))
		exe := os.Args[0]
		sem := make(chan struct{}, 2)
		done := make(chan int, len(calls))
		for i := range calls {
			go func(i int) {
				sem <- struct{}{}
				defer func() { <-sem; done <- i }()
				cmd := exec.Command(exe, "C11", "-tier", c.Tier, "-seed", fmt.Sprint(c.Seed), "-out", filepath.Join(dir, fmt.Sprint("cold", i)))
				cmd.Env = append(os.Environ(), fmt.Sprintf("VERIF_COLD=%d:%d", k, i), "VERIF_WORKER=")
				var eb bytes.Buffer
				cmd.Stderr = &eb
				out, err := cmd.Output()
				cold[i] = string(out)
				if err != nil {
					coldErr[i] = err.Error() + ": " + trunc(eb.Bytes())
				}
			}(i)
		}
		for range calls {
			<-done
		}
		// every other case: whatever goes back to a pool goes back filled with junk
		json.VerifPoisonPools(k%2 == 1)
		defer json.VerifPoisonPools(false)
		if k%2 == 1 {
			c.Rep.Hist["histories-with-poisoned-pools"]++
		}
		h := c11NewHandles(decDocs, 0)
		decBroken := false
		for step, ci := range hist {
			cl := calls[ci]
			if coldErr[ci] != "" {
				c.Oracle("cold-oracle-runs", cl.name, coldErr[ci], "the call returns when issued first in a fresh process", false, "")
				continue
			}
			if cl.decIdx >= 0 && decBroken {
				continue
			}
			got := cl.run(h)
			if cl.decIdx >= 0 && !strings.Contains(got, "err=<nil>") {
				decBroken = true // a failed Decode leaves the stream position unspecified
			}
			kind := strings.SplitN(cl.name, " ", 2)[0]
			if i := strings.IndexAny(kind, "(#"); i > 0 {
				kind = kind[:i]
			}
			c.Rep.Hist["call:"+kind]++
			if strings.Contains(got, "err=<nil> panic=") && strings.HasSuffix(strings.SplitN(got, " stdout-written", 2)[0], "panic=") {
				c.Rep.Hist["outcome:ok"]++
			} else {
				c.Rep.Hist["outcome:error-or-panic"]++
			}
			if got != cold[ci] && os.Getenv("VERIF_TRACE") != "" {
				fmt.Fprintf(os.Stderr, "MISMATCH %s\n warm tail: %q\n cold tail: %q\n", cl.name, c11Tail(got), c11Tail(cold[ci]))
			}
			c.Oracle("history-vs-cold", fmt.Sprintf("case %d, step %d of %d: %s", k, step, len(hist), cl.name), c11Diff(got, cold[ci]), c11Diff(cold[ci], got), got == cold[ci], "")
		}
		// directed pairs: call A, then at once call B, for ordered pairs of free calls — a failing A before
		// every B of the same kind, and a sample of all the others (one P, so that what A puts into a
		// pool is what B takes out)
		prev := runtime.GOMAXPROCS(1)
		defer runtime.GOMAXPROCS(prev)
		failing := func(i int) bool {
			return !strings.Contains(cold[i], "err=<nil> panic= ") && !strings.HasSuffix(cold[i], "err=<nil> panic=")
		}
		family := func(i int) string {
			n := calls[i].name
			if j := strings.Index(n, " <- "); j > 0 {
				n = n[:j]
			}
			f := strings.Fields(n)
			return strings.TrimSuffix(strings.TrimPrefix(f[len(f)-1], "*"), "(filled)")
		}
		npairs := 0
		for _, a := range free {
			for _, b := range free {
				sameFam := family(a) == family(b) && strings.Contains(calls[a].name, " <- ") && strings.Contains(calls[b].name, " <- ")
				if !(sameFam || (failing(a) && hr.Intn(8) == 0) || hr.Intn(200) == 0) {
					continue
				}
				if coldErr[a] != "" || coldErr[b] != "" {
					continue
				}
				npairs++
				calls[a].run(h)
				got := calls[b].run(h)
				c.Rep.Hist["pairs"]++
				c.Oracle("pair-vs-cold", fmt.Sprintf("case %d: after [%s] the call [%s]", k, calls[a].name, calls[b].name), c11Diff(got, cold[b]), c11Diff(cold[b], got), got == cold[b], "")
			}
		}
	}, func(k int, rng *rand.Rand) string { return fmt.Sprint("history case ", k) }, nil)
}
