package main

import (
	"bytes"
	stdjson "encoding/json"
	"fmt"
	"math/rand"
	"os"
	"reflect"
	"regexp"
	"runtime/debug"
	"strings"

	json "github.com/goccy/go-json"
)

func init() { props["C01"] = runC01 }

var c01Exp = regexp.MustCompile(`e([+-])0+(\d)`)

// c01Norm removes the tolerated single-token spelling differences
func c01Norm(b []byte) string {
	s := string(b)
	s = strings.ReplaceAll(s, `\u0008`, `\b`)
	s = strings.ReplaceAll(s, `\u000c`, `\f`)
	s = c01Exp.ReplaceAllString(s, "e$1$2")
	return s
}

func safeMarshal(f func() ([]byte, error)) (out []byte, err error, pan string) {
	old := debug.SetPanicOnFault(true)
	defer debug.SetPanicOnFault(old)
	defer func() {
		if r := recover(); r != nil {
			pan = fmt.Sprint(r)
			if len(pan) > 200 {
				pan = pan[:200]
			}
		}
	}()
	out, err = f()
	return
}

// c01Class assigns a failing case to a known-finding class (by properties of the input only)
func c01Class(t reflect.Type, v reflect.Value) string {
	return ""
}

func c01Compare(c *Ctx, label string, iv interface{}, t reflect.Type) {
	if os.Getenv("VERIF_TRACE") != "" {
		fmt.Fprintf(os.Stderr, "CASE %s %s = %s\n", label, t.String(), c01Show(iv))
	}
	g, gerr, gp := safeMarshal(func() ([]byte, error) { return json.Marshal(iv) })
	s, serr, _ := safeMarshal(func() ([]byte, error) { return stdjson.Marshal(iv) })
	ok := gp == "" && (gerr == nil) == (serr == nil) && (gerr != nil || c01Norm(g) == c01Norm(s))
	in := fmt.Sprintf("%s = %s", genTypeString(t), c01Show(iv))
	c.Oracle("marshal/"+label, in, fmt.Sprintf("%s err=%s panic=%s", trunc(g), errT(gerr), gp), fmt.Sprintf("%s err=%v", trunc(s), serr), ok, c01ClassOf(iv, gerr, serr, g, s))
	if gp != "" || gerr != nil || serr != nil {
		return
	}
	// MarshalIndent and Encoder under the same settings
	for _, pi := range [][2]string{{"", "  "}, {">", "\t"}} {
		gi, gierr, gip := safeMarshal(func() ([]byte, error) { return json.MarshalIndent(iv, pi[0], pi[1]) })
		si, sierr := stdjson.MarshalIndent(iv, pi[0], pi[1])
		ok := gip == "" && (gierr == nil) == (sierr == nil) && (gierr != nil || c01Norm(gi) == c01Norm(si))
		c.Oracle("marshalindent/"+label, in, fmt.Sprintf("%s err=%s panic=%s", trunc(gi), errT(gierr), gip), fmt.Sprintf("%s err=%v", trunc(si), sierr), ok, c01ClassOf(iv, gierr, sierr, gi, si))
	}
	var gb, sb bytes.Buffer
	ge := json.NewEncoder(&gb)
	se := stdjson.NewEncoder(&sb)
	ge.SetEscapeHTML(false)
	se.SetEscapeHTML(false)
	_, gerr2, gp2 := safeMarshal(func() ([]byte, error) { return nil, ge.Encode(iv) })
	serr2 := se.Encode(iv)
	ok = gp2 == "" && (gerr2 == nil) == (serr2 == nil) && (gerr2 != nil || c01Norm(gb.Bytes()) == c01Norm(sb.Bytes()))
	c.Oracle("encoder-noescape/"+label, in, fmt.Sprintf("%s err=%s panic=%s", trunc(gb.Bytes()), errT(gerr2), gp2), fmt.Sprintf("%s err=%v", trunc(sb.Bytes()), serr2), ok, c01ClassOf(iv, gerr2, serr2, gb.Bytes(), sb.Bytes()))
}

func trunc(b []byte) string {
	if len(b) > 400 {
		return string(b[:400]) + "…"
	}
	return string(b)
}

func c01Show(iv interface{}) string {
	s := fmt.Sprintf("%#v", iv)
	if len(s) > 400 {
		s = s[:400] + "…"
	}
	return s
}

func runC01(c *Ctx) {
	c.Rep.Rule = "types from the grammar of harness/gen.go (all scalar kinds, []byte, Number, RawMessage, time.Time, pointers, slices, arrays, maps with string/int/named/TextMarshaler keys, interface{}, reflect.StructOf structs with tag combinations and embedded structs, declared recursive / marshaler types), depth <= 4, several values per type incl. nil/empty/extremes, non-finite floats, invalid UTF-8, ill-formed Number/RawMessage; " +
		"each at top level, behind a pointer and inside interface{}; Marshal, MarshalIndent (2 settings), Encoder with SetEscapeHTML(false); oracle encoding/json modulo \\b/\\f and exponent padding; ops: the Lean encoder specification (encoding/json's rules on value trees) against go-json and, as a check of the specification, against encoding/json itself; non-trivial = every case"
	ntypes := 1500
	if c.Thorough() {
		ntypes = 30000
	}
	// the systematic part: every field kind x position x tag x characteristic value
	if !c.IsWorker() {
		FieldMatrix(func(t reflect.Type, v reflect.Value) {
			iv := v.Interface()
			if strings.HasPrefix(c01ClassOf(iv, nil, nil, nil, nil), "C08-") {
				c.Rep.Known[c01ClassOf(iv, nil, nil, nil, nil)]++
				return
			}
			c01Compare(c, "matrix", iv, t)
			c01Compare(c, "matrix-iface", []interface{}{iv}, reflect.TypeOf([]interface{}{}))
			encOps(c, iv, true)
			p := reflect.New(t)
			p.Elem().Set(v)
			if !strings.HasPrefix(c01ClassOf(p.Interface(), nil, nil, nil, nil), "C08-") {
				c01Compare(c, "matrix-ptr", p.Interface(), p.Type())
			}
		})
	}
	gen := func(rng *rand.Rand) (reflect.Type, []reflect.Value) {
		g := &Gen{R: rng}
		t := g.Type(1 + rng.Intn(4))
		var vs []reflect.Value
		for vi := 0; vi < 3; vi++ {
			vs = append(vs, g.Value(t, 3, GenOpt{}))
		}
		return t, vs
	}
	c.RunCases("types", ntypes, func(c *Ctx, k int, rng *rand.Rand) {
		t, vs := gen(rng)
		for vi, v := range vs {
			label := t.Kind().String()
			c01Compare(c, label, v.Interface(), t)
			if cl := c01ClassOf(v.Interface(), nil, nil, nil, nil); !strings.HasPrefix(cl, "C08-") {
				encOps(c, v.Interface(), true)
			}
			if vi == 0 {
				p := reflect.New(t)
				p.Elem().Set(v)
				c01Compare(c, "ptr-"+label, p.Interface(), p.Type())
				var i interface{} = v.Interface()
				c01Compare(c, "iface-"+label, &i, reflect.TypeOf(&i))
			}
		}
	}, func(k int, rng *rand.Rand) string {
		t, vs := gen(rng)
		return fmt.Sprintf("case %d: %s = one of %s", k, genTypeString(t), c01Show(vs[0].Interface()))
	}, func(k int, rng *rand.Rand) string {
		_, vs := gen(rng)
		for _, v := range vs {
			if cl := c01ClassOf(v.Interface(), nil, nil, nil, nil); cl != "" {
				return cl
			}
			p := reflect.New(v.Type())
			p.Elem().Set(v)
			if cl := c01ClassOf(p.Interface(), nil, nil, nil, nil); cl != "" {
				return cl
			}
		}
		return ""
	})
}

// ---- known-finding classes: predicates on the input value only ---------------------------------

// ptrShaped: the Go compiler stores a value of this type directly in an interface word
func ptrShaped(t reflect.Type) bool {
	switch t.Kind() {
	case reflect.Ptr, reflect.Map, reflect.Chan, reflect.Func, reflect.UnsafePointer:
		return true
	case reflect.Array:
		return t.Len() == 1 && ptrShaped(t.Elem())
	case reflect.Struct:
		return t.NumField() == 1 && ptrShaped(t.Field(0).Type)
	}
	return false
}

// hasDirectArray: t is pointer-shaped and reaches its pointer through an array of length one
func hasDirectArray(t reflect.Type) bool {
	switch t.Kind() {
	case reflect.Array:
		return t.Len() == 1 && ptrShaped(t.Elem())
	case reflect.Struct:
		return t.NumField() == 1 && hasDirectArray(t.Field(0).Type)
	}
	return false
}

var c01MarshalerT = reflect.TypeOf((*stdjson.Marshaler)(nil)).Elem()
var c01TextT = reflect.TypeOf((*interface{ MarshalText() ([]byte, error) })(nil)).Elem()

func ptrRecvMarshaler(t reflect.Type) bool {
	if t.Kind() == reflect.Ptr || t.Kind() == reflect.Interface {
		return false
	}
	pt := reflect.PtrTo(t)
	return (pt.Implements(c01MarshalerT) && !t.Implements(c01MarshalerT)) || (pt.Implements(c01TextT) && !t.Implements(c01TextT))
}

// firstFieldPtrDepth: pointer depth of the first member-producing field of struct type t (0 = not a pointer)
func firstFieldPtrDepth(t reflect.Type) int {
	for i := 0; i < t.NumField(); i++ {
		f := t.Field(i)
		if f.PkgPath != "" && !f.Anonymous {
			continue
		}
		tag := f.Tag.Get("json")
		if tag == "-" {
			continue
		}
		if strings.Contains(tag, ",omitempty") && f.Type.Kind() == reflect.Array && f.Type.Len() == 0 {
			continue
		}
		d := 0
		ft := f.Type
		for ft.Kind() == reflect.Ptr {
			d++
			ft = ft.Elem()
		}
		if d == 0 && ptrRecvMarshaler(ft) {
			return -1
		}
		return d
	}
	return 0
}

// emitsNothing: encoding/json produces no member for any field of struct type t
func emitsNothing(t reflect.Type) bool {
	for i := 0; i < t.NumField(); i++ {
		f := t.Field(i)
		if f.PkgPath != "" && !f.Anonymous {
			continue
		}
		if f.Tag.Get("json") == "-" {
			continue
		}
		return false
	}
	return true
}

type c01Facts struct {
	ptrNumClash     bool // pointer(s) to a struct whose first field is a pointer of a different depth (one PtrNum for both)
	ptrZeroSize     bool // non-nil pointer to a zero-size value
	ptrShapedMute   bool // a pointer-shaped struct (one pointer/map field) none of whose fields produces a member
	stringMultiPtr  bool // `,string` on a field with two or more pointer levels
	omitPtrShaped   bool // omitempty on a field whose type is a pointer-shaped struct
	ptrShapeDepth   bool // a pointer-shaped struct whose only field points to a struct, two or more pointer levels, or a pointer to an interface
	unaddrMarshaler bool // a value whose pointer type is a (Text)Marshaler, reached where encoding/json cannot take its address
	ptrPtrMarshaler bool // two or more pointer levels above a type with a pointer-receiver marshaler
	omitPtrToNil    bool // omitempty field: non-nil pointer to a nil pointer / map / slice / interface
	directArray     bool // a [1]T with pointer-shaped T held directly in an interface word (top level or in interface{})
	keyOrder        bool // a map whose keys sort differently as escaped JSON text than as strings
	depthConf       bool // embedded-field conflict (C15-embedded-depth)
}

func c01Walk(v reflect.Value, atIface bool, f *c01Facts, depth int) {
	c01WalkA(v, atIface, false, f, depth)
}

// addr: encoding/json could take the address of v (reached through a pointer or a slice)
func c01WalkA(v reflect.Value, atIface bool, addr bool, f *c01Facts, depth int) {
	c01WalkB(v, atIface, addr, false, f, depth)
}

func c01WalkB(v reflect.Value, atIface bool, addr bool, inChain bool, f *c01Facts, depth int) {
	if depth > 12 || !v.IsValid() {
		return
	}
	t := v.Type()
	if atIface && hasDirectArray(t) {
		f.directArray = true
	}
	if !addr && ptrRecvMarshaler(t) {
		f.unaddrMarshaler = true
	}
	if t.Kind() == reflect.Ptr && t.Elem().Kind() == reflect.Ptr {
		e := t
		for e.Kind() == reflect.Ptr {
			e = e.Elem()
		}
		if ptrRecvMarshaler(e) {
			f.ptrPtrMarshaler = true
		}
	}
	if t.Kind() == reflect.Ptr && !inChain {
		d := 0
		e := t
		for e.Kind() == reflect.Ptr {
			d++
			e = e.Elem()
		}
		if e.Kind() == reflect.Struct {
			dh := d
			if atIface {
				dh-- // the pointer held by the interface word is not counted
			}
			df := firstFieldPtrDepth(e)
			if dh >= 1 && ((df >= 1 && df != dh) || df == -1) {
				f.ptrNumClash = true
			}
			if df == -1 && e.NumField() == 1 {
				// *struct{ F T } with a pointer-receiver marshaler T is compiled as struct{ F *T }:
				// a nil outer pointer is then taken for the field
				f.ptrNumClash = true
			}
		}
	}
	if t.Kind() == reflect.Ptr && !v.IsNil() && t.Elem().Size() == 0 {
		f.ptrZeroSize = true
	}
	if t.Kind() == reflect.Struct && ptrShaped(t) && emitsNothing(t) {
		f.ptrShapedMute = true
	}
	if t.Kind() == reflect.Struct && ptrShaped(t) {
		// a struct held directly in an interface word whose only field is a pointer to a struct
		inner := t.Field(0).Type
		for inner.Kind() == reflect.Struct && inner.NumField() == 1 {
			inner = inner.Field(0).Type
		}
		if inner.Kind() == reflect.Ptr && inner.Elem().Kind() == reflect.Struct {
			f.ptrShapeDepth = true
		}
	}
	if t.Kind() == reflect.Ptr && (t.Elem().Kind() == reflect.Ptr || t.Elem().Kind() == reflect.Interface) {
		f.ptrShapeDepth = true
	}
	switch t.Kind() {
	case reflect.Interface:
		if !v.IsNil() {
			c01WalkA(v.Elem(), true, false, f, depth+1)
		}
	case reflect.Ptr:
		if !v.IsNil() {
			c01WalkB(v.Elem(), false, true, true, f, depth+1)
		}
	case reflect.Slice, reflect.Array:
		if t.Kind() == reflect.Array && hasDirectArray(t) {
			// arrays of one pointer-shaped element are mishandled wherever they occur
			f.directArray = true
		}
		for i := 0; i < v.Len(); i++ {
			c01WalkA(v.Index(i), false, addr || t.Kind() == reflect.Slice, f, depth+1)
		}
	case reflect.Map:
		var raw []string
		for _, k := range v.MapKeys() {
			c01WalkA(v.MapIndex(k), false, false, f, depth+1)
			ks, e := c01KeyString(k)
			if e == nil {
				raw = append(raw, ks)
			}
		}
		if len(raw) > 1 {
			enc := make([]string, len(raw))
			enc2 := make([]string, len(raw))
			for i, k := range raw {
				b, _ := json.Marshal(k)
				enc[i] = string(b)
				b2, _ := json.MarshalWithOption(k, json.DisableHTMLEscape())
				enc2[i] = string(b2)
			}
			for i := range raw {
				for j := range raw {
					if (raw[i] < raw[j]) != (enc[i] < enc[j]) || (raw[i] < raw[j]) != (enc2[i] < enc2[j]) {
						f.keyOrder = true
					}
				}
			}
		}
	case reflect.Struct:
		if c15HasDepthConflict(t, false) {
			f.depthConf = true
		}
		for i := 0; i < v.NumField(); i++ {
			if t.Field(i).PkgPath != "" && !t.Field(i).Anonymous {
				continue
			}
			fv := v.Field(i)
			if strings.Contains(t.Field(i).Tag.Get("json"), ",omitempty") && fv.Kind() == reflect.Struct && ptrShaped(fv.Type()) {
				f.omitPtrShaped = true
			}
			if strings.Contains(t.Field(i).Tag.Get("json"), ",string") && fv.Kind() == reflect.Ptr && fv.Type().Elem().Kind() == reflect.Ptr {
				f.stringMultiPtr = true
			}
			if strings.Contains(t.Field(i).Tag.Get("json"), ",omitempty") && fv.Kind() == reflect.Ptr && !fv.IsNil() {
				e := fv.Elem()
				for e.Kind() == reflect.Ptr && !e.IsNil() {
					e = e.Elem()
				}
				switch e.Kind() {
				case reflect.Ptr, reflect.Map, reflect.Slice, reflect.Interface:
					if e.IsNil() {
						f.omitPtrToNil = true
					}
				}
			}
			c01WalkA(fv, false, addr, f, depth+1)
		}
	}
}

// c01KeyString resolves a map key the way encoding/json does
func c01KeyString(k reflect.Value) (string, error) {
	if k.Kind() == reflect.String {
		return k.String(), nil
	}
	if tm, ok := k.Interface().(interface{ MarshalText() ([]byte, error) }); ok {
		b, err := tm.MarshalText()
		return string(b), err
	}
	switch k.Kind() {
	case reflect.Int, reflect.Int8, reflect.Int16, reflect.Int32, reflect.Int64:
		return fmt.Sprint(k.Int()), nil
	case reflect.Uint, reflect.Uint8, reflect.Uint16, reflect.Uint32, reflect.Uint64, reflect.Uintptr:
		return fmt.Sprint(k.Uint()), nil
	}
	return "", fmt.Errorf("unsupported key")
}

func c01ClassOf(iv interface{}, gerr, serr error, g, s []byte) string {
	var f c01Facts
	c01Walk(reflect.ValueOf(iv), true, &f, 0)
	switch {
	case f.directArray:
		return "C08-direct-iface-array"
	case f.ptrNumClash:
		return "C08-ptr-struct-first-field-ptr"
	case f.ptrShapeDepth:
		// before the classes of wrong output: a value of this family can make the encoder read memory
		// that is not the value's (the properties that only need the call to return do not run it)
		return "C08-pointer-shape-or-depth"
	case f.ptrZeroSize:
		return "C01-ptr-to-zero-size"
	case f.ptrShapedMute:
		return "C01-ptr-shaped-struct-without-members"
	case f.stringMultiPtr:
		return "C01-string-tag-multi-ptr"
	case f.omitPtrShaped:
		return "C01-omitempty-ptr-shaped-struct"
	case f.unaddrMarshaler:
		return "C01-ptr-receiver-marshaler-unaddressable"
	case f.ptrPtrMarshaler:
		return "C01-ptrptr-marshaler"
	case f.omitPtrToNil:
		return "C01-omitempty-ptr-to-nil"
	case f.keyOrder && gerr == nil && serr == nil:
		return "C01-map-key-order-escaped"
	case f.depthConf:
		return "C15-embedded-depth"
	}
	return ""
}

// errT renders an error of the implementation by its type only: its message may embed strings read
// through mis-counted pointers, and formatting those can take the process down
func errT(err error) string {
	if err == nil {
		return "<nil>"
	}
	return fmt.Sprintf("%T", err)
}
