package main

import (
	"bytes"
	stdjson "encoding/json"
	"errors"
	"fmt"
	"io"
	"reflect"
	"strings"
	"unicode/utf8"

	json "github.com/goccy/go-json"
)

func init() { props["C09"] = runC09 }

// cutReader delivers data in the given pieces, then returns failErr (or io.EOF when nil).
type cutReader struct {
	pieces  [][]byte
	failErr error
}

func (r *cutReader) Read(p []byte) (int, error) {
	for len(r.pieces) > 0 && len(r.pieces[0]) == 0 {
		r.pieces = r.pieces[1:]
	}
	if len(r.pieces) == 0 {
		if r.failErr != nil {
			return 0, r.failErr
		}
		return 0, io.EOF
	}
	n := copy(p, r.pieces[0])
	r.pieces[0] = r.pieces[0][n:]
	return n, nil
}

func cutAt(b []byte, cuts ...int) [][]byte {
	var out [][]byte
	prev := 0
	for _, c := range cuts {
		if c < prev {
			c = prev
		}
		if c > len(b) {
			c = len(b)
		}
		out = append(out, append([]byte{}, b[prev:c]...))
		prev = c
	}
	out = append(out, append([]byte{}, b[prev:]...))
	return out
}

func cutEvery(b []byte, k int) [][]byte {
	var out [][]byte
	for i := 0; i < len(b); i += k {
		j := i + k
		if j > len(b) {
			j = len(b)
		}
		out = append(out, append([]byte{}, b[i:j]...))
	}
	return out
}

type c09Dest struct {
	name string
	mk   func() interface{}
}

type c09S struct {
	A int
	B string
	C []float64
}
type c09Skip struct {
	A int `json:"a"`
}

var c09Dests = []c09Dest{
	{"iface", func() interface{} { return new(interface{}) }},
	{"int", func() interface{} { return new(int) }},
	{"uint8", func() interface{} { return new(uint8) }},
	{"float64", func() interface{} { return new(float64) }},
	{"string", func() interface{} { return new(string) }},
	{"bool", func() interface{} { return new(bool) }},
	{"[]int", func() interface{} { return new([]int) }},
	{"[2]int", func() interface{} { return new([2]int) }},
	{"map", func() interface{} { return new(map[string]interface{}) }},
	{"struct", func() interface{} { return new(c09S) }},
	{"skip", func() interface{} { return new(c09Skip) }},
	{"*int", func() interface{} { return new(*int) }},
	{"[]byte", func() interface{} { return new([]byte) }},
	{"number", func() interface{} { return new(json.Number) }},
	{"[]string", func() interface{} { return new([]string) }},
	{"raw", func() interface{} { return new(c09Raw) }},
}

type c09Raw struct {
	X json.RawMessage
	A int
}

func c09Class(b []byte) string {
	if t := bytes.TrimLeft(b, " \t\r\n"); len(t) > 0 && (t[0] == ',' || t[0] == ':') {
		return "C05-stream-leading-separator"
	}
	if !utf8.Valid(b) {
		return "C09-invalid-utf8"
	}
	return ""
}

// one chunking of one document into one destination: stream verdict/value vs Unmarshal
func c09One(c *Ctx, b []byte, pieces [][]byte, how string, d c09Dest) {
	want := d.mk()
	werr := json.Unmarshal(b, want)
	got := d.mk()
	dec := json.NewDecoder(&cutReader{pieces: pieces})
	gerr := dec.Decode(got)
	one := gerr == nil
	if one {
		// the document must be the only one: a second Decode reports io.EOF
		var rest interface{}
		e2 := dec.Decode(&rest)
		one = e2 == io.EOF
	}
	ok := one == (werr == nil)
	if ok && one {
		ok = reflect.DeepEqual(got, want)
	}
	class := ""
	if !ok {
		class = c09Class(b)
	}
	c.Oracle("stream=buffer/"+d.name+"/"+how, fmt.Sprintf("%q", b),
		fmt.Sprintf("one=%v %v err=%v", one, reflect.ValueOf(got).Elem().Interface(), gerr),
		fmt.Sprintf("ok=%v %v err=%v", werr == nil, reflect.ValueOf(want).Elem().Interface(), werr), ok, class)
}

func c09AllChunkings(c *Ctx, b []byte, d c09Dest, dense bool) {
	c09One(c, b, [][]byte{b}, "whole", d)
	c09One(c, b, cutEvery(b, 1), "1", d)
	if dense {
		for cut := 1; cut < len(b); cut++ {
			c09One(c, b, cutAt(b, cut), "cut1", d)
		}
		if len(b) <= 12 {
			for c1 := 1; c1 < len(b); c1++ {
				for c2 := c1 + 1; c2 < len(b); c2++ {
					c09One(c, b, cutAt(b, c1, c2), "cut2", d)
				}
			}
		}
		for k := 2; k <= 17; k++ {
			if k < len(b) {
				c09One(c, b, cutEvery(b, k), "every", d)
			}
		}
	} else {
		c09One(c, b, cutEvery(b, 2+len(b)%7), "every", d)
		c09One(c, b, cutAt(b, len(b)/2), "cut1", d)
	}
}

var errBoom = errors.New("boom")

func runC09(c *Ctx) {
	c.Rep.Rule = "for each document (grammar texts, their mutations, boundary-padded texts) x destination type x chunking (whole, every single cut, pairs of cuts for short texts, piece sizes 1..17, cuts around 511/512/1023/1024): " +
		"Decoder.Decode verdict and value vs Unmarshal; concatenated documents vs one-by-one with More/InputOffset; Token stream vs encoding/json; reader failure at every position must surface as an error; " +
		"model ops: stream read/refill/reset traces vs the Lean Stream model; non-trivial = chunking with at least one cut"
	ndocs := 40
	if c.Thorough() {
		ndocs = 600
	}
	// documents fitted to destinations
	fitted := map[string][]string{
		"int":      {"0", "-12", "123456789", " 42 ", "9223372036854775807", "1.5", "1e3", "null", "\"x\"", "12x"},
		"uint8":    {"0", "255", "256", "-1", "07", "null"},
		"float64":  {"0", "-0.5", "1e308", "1e309", "3.14159", "1E-7", "12", "null", "1.", "-"},
		"string":   {`""`, `"abc"`, `"a\nb"`, `"é😀"`, `"é€😀"`, `"\ud800"`, "null", `"unterminated`, "12", `"\x"`},
		"bool":     {"true", "false", "null", "tru", "truex", "falsE", " true "},
		"[]int":    {"[]", "[1]", "[1,2,3]", " [ 1 , 2 ] ", "[1,]", "[1 2]", "null", "[1,[2]]", "[", "[1"},
		"[2]int":   {"[]", "[1]", "[1,2]", "[1,2,3]", "[1,2,  333,  4444 ]", "[1,2,  \"s\" ,  [  5 ] ]", "[1,2,3,{\"a\":[1,2]}]", "null"},
		"map":      {"{}", `{"a":1}`, `{"a":1,"b":[true,null]}`, `{ "a" : { "b" : "c" } }`, `{"a":1,}`, `{"a"}`, "null", `{"a":1`},
		"struct":   {"{}", `{"A":1}`, `{"A":1,"B":"x","C":[1.5,2]}`, `{"a":2,"b":"y"}`, `{"A":1,"Z":{"deep":[1,2,{"x":"}"}]}}`, `{"A":"x"}`, "null", `{"B":"a\"b"}`},
		"skip":     {`{"x":  12,"a":1}`, `{"x": -1.5e3 ,"a":1}`, `{"x":[1,  2 ,3],"a":1}`, `{"x":  "s" ,"a":1}`, `{"x":  true,"a":1}`, `{"x":   null ,  "a" : 1 }`, `{"a":1,"x":   123456}`, `{"x":1,"a":2}`, `{"x":[1,2,{"y":"]"}],"a":3}`, `{"x":"str\"ing","a":4}`, `{"x":{"a":9},"a":5}`, `{"a":1,"x":tru}`, `{"x":nul,"a":1}`},
		"*int":     {"1", "null", "-5"},
		"[]byte":   {`""`, `"aGVsbG8="`, `"aGVsbG8"`, "null", `"!!"`},
		"number":   {"1", "-2.5e10", "1e999", `"12"`, "null", "01"},
		"raw":      {`{"X":  12,"A":1}`, `{"X":[1,  2],"A":1}`, `{"A":1,"X":   {"k":  "v"} }`, `{"X":  "a\\nb","A":2}`, `{"X":  -0.5e1 }`, `{"X":null,"A":3}`},
		"[]string": {`[]`, `["a","b"]`, `["a\tb","A"]`, `["a",1]`, `["a"`},
	}
	for _, d := range c09Dests {
		for _, doc := range fitted[d.name] {
			c09AllChunkings(c, []byte(doc), d, true)
		}
	}
	// grammar documents into interface{} (dense) and other destinations (sparse)
	for i := 0; i < ndocs; i++ {
		doc := []byte(genDoc(c, 3))
		c09AllChunkings(c, doc, c09Dests[0], len(doc) <= 40 || c.Thorough())
		for _, d := range c09Dests[1:] {
			if (i+len(d.name))%5 == 0 {
				c09AllChunkings(c, doc, d, false)
			}
		}
		// single-byte mutations, two chunkings each
		for pos := 0; pos < len(doc); pos += 1 + len(doc)/24 {
			sub := append([]byte{}, doc...)
			sub[pos] = c05Alphabet[c.Rng.Intn(len(c05Alphabet))]
			c09AllChunkings(c, sub, c09Dests[0], false)
			del := append(append([]byte{}, doc[:pos]...), doc[pos+1:]...)
			c09AllChunkings(c, del, c09Dests[0], false)
		}
	}
	// tokens placed on the refill boundaries of the 512-byte window (and after doubling)
	tokens := []string{`12345`, `-1.5e10`, `true`, `false`, `null`, `"abcdef"`, `"a\nbé"`, `"é€😀"`, `"😀"`, `{"k":"v"}`, `[1,2]`, `"\\\\"`}
	for _, tok := range tokens {
		for _, edge := range []int{511, 512, 513, 1023, 1024, 1025, 2047, 2048} {
			for off := 0; off <= len(tok); off++ {
				pad := edge - off - 1
				if pad < 0 {
					continue
				}
				doc := []byte("[" + strings.Repeat(" ", pad) + tok + ",7]")
				c09One(c, doc, [][]byte{doc}, "boundary", c09Dests[0])
				if off%3 == 0 {
					doc2 := []byte(`{"a":` + strings.Repeat(" ", pad-4) + tok + `}`)
					if pad >= 4 {
						c09One(c, doc2, [][]byte{doc2}, "boundary", c09Dests[8])
					}
				}
			}
		}
	}
	// object members (known, unknown, folded, escaped and long keys; scalar and nested values) slid
	// across the refill boundaries, into struct destinations: every byte of the member in turn is the
	// one that needs the next read or the bigger window
	members := []string{`"B":"xy"`, `"b":"v"`, `"unknownkey":-1.5e3`, `"zz":{"q":[1,2,"]"]}`, `"\u0042":"v"`, `"Aunknown":true`,
		`"` + strings.Repeat("k", 40) + `":null`, `"C":[1.5,2e1]`, `"X":{"k":"v"}`, `"a\"b":1`,
		// escapes inside values and keys the destination passes over
		`"zz":"\u00e9\n\"x\\"`, `"zz":{"\u006b\n":["\ud83d\ude00","\\",true]}`, `"unknown\u006bey":"\u0041\/"`, `"X":"\u0041\t\u00e9"`}
	byName := map[string]c09Dest{}
	for _, d := range c09Dests {
		byName[d.name] = d
	}
	for mi, m := range members {
		for _, edge := range []int{511, 512, 1023, 1024, 2047} {
			for off := 0; off <= len(m)+1; off++ {
				pad := edge - off - 1
				if pad < 0 || (c.Tier != "thorough" && edge > 600 && off%2 == 1) {
					continue
				}
				doc := []byte("{" + strings.Repeat(" ", pad) + m + `,"A":5}`)
				for _, dn := range []string{"struct", "skip", "raw"} {
					c09One(c, doc, [][]byte{doc}, "member-boundary", byName[dn])
				}
				if off%4 == mi%4 {
					c09One(c, doc, cutEvery(doc, 7), "member-boundary", byName["struct"])
					c09One(c, doc, cutEvery(doc, 100), "member-boundary", byName["skip"])
					c09One(c, doc, [][]byte{doc}, "member-boundary", byName["map"])
				}
			}
		}
	}
	c09Concat(c, ndocs)
	c09Tokens(c, ndocs)
	c09ReaderErrors(c, ndocs)
	c09StreamOps(c, ndocs)
}

// concatenated documents: same sequence of values as one by one; More and InputOffset consistent
func c09Concat(c *Ctx, ndocs int) {
	seps := []string{" ", "\n", "", "\t\r\n "}
	for i := 0; i < ndocs; i++ {
		var docs []string
		n := 2 + c.Rng.Intn(4)
		var all strings.Builder
		var ends []int
		for j := 0; j < n; j++ {
			d := strings.TrimSpace(genDoc(c, 2))
			sep := seps[c.Rng.Intn(len(seps))]
			if sep == "" && j > 0 {
				// adjacent scalars need a delimiter
				prev := docs[j-1]
				last := prev[len(prev)-1]
				if !(last == '}' || last == ']' || last == '"') || !(d[0] == '{' || d[0] == '[' || d[0] == '"') {
					sep = " "
				}
			}
			if j > 0 {
				all.WriteString(sep)
			}
			all.WriteString(d)
			ends = append(ends, all.Len())
			docs = append(docs, d)
		}
		whole := []byte(all.String())
		for _, how := range []string{"whole", "1", "7"} {
			var pieces [][]byte
			switch how {
			case "whole":
				pieces = [][]byte{whole}
			case "1":
				pieces = cutEvery(whole, 1)
			default:
				pieces = cutEvery(whole, 7)
			}
			dec := json.NewDecoder(&cutReader{pieces: pieces})
			ok := true
			detail := ""
			for j := 0; j < n && ok; j++ {
				if !dec.More() {
					ok, detail = false, fmt.Sprintf("More()=false before document %d", j)
					break
				}
				var got, want interface{}
				if err := dec.Decode(&got); err != nil {
					ok, detail = false, fmt.Sprintf("document %d: %v", j, err)
					break
				}
				if err := json.Unmarshal([]byte(docs[j]), &want); err != nil || !reflect.DeepEqual(got, want) {
					ok, detail = false, fmt.Sprintf("document %d: got %v want %v", j, got, want)
					break
				}
				if off := dec.InputOffset(); off != int64(ends[j]) {
					ok, detail = false, fmt.Sprintf("InputOffset after document %d = %d, want %d", j, off, ends[j])
					cls := ""
					if strings.Contains(all.String()[:ends[j]], `\`) {
						cls = ""
					}
					c.Oracle("concat/inputoffset/"+how, fmt.Sprintf("%q", whole), detail, "offset of the end of the value", false, cls)
					ok, detail = true, ""
				}
			}
			if ok && dec.More() {
				ok, detail = false, "More()=true after the last document"
			}
			c.Oracle("concat/"+how, fmt.Sprintf("%q", whole), detail, "same values as one by one", ok, "")
		}
	}
}

// Token(): same token sequence as encoding/json for valid texts
func c09Tokens(c *Ctx, ndocs int) {
	for i := 0; i < ndocs; i++ {
		doc := []byte(genDoc(c, 3))
		var want []string
		sd := stdjson.NewDecoder(bytes.NewReader(doc))
		for {
			t, err := sd.Token()
			if err != nil {
				want = append(want, "ERR:"+fmt.Sprint(err == io.EOF))
				break
			}
			want = append(want, fmt.Sprintf("%T:%v", t, t))
		}
		for _, k := range []int{len(doc) + 1, 1, 5} {
			gd := json.NewDecoder(&cutReader{pieces: cutEvery(doc, k)})
			var got []string
			for {
				t, err := gd.Token()
				if err != nil {
					got = append(got, "ERR:"+fmt.Sprint(err == io.EOF))
					break
				}
				got = append(got, fmt.Sprintf("%T:%v", t, t))
				if len(got) > len(want)+5 {
					break
				}
			}
			g := strings.ReplaceAll(strings.Join(got, " "), "json.Delim", "Delim")
			w := strings.ReplaceAll(strings.Join(want, " "), "json.Delim", "Delim")
			c.Oracle(fmt.Sprintf("tokens/piece=%d", k), fmt.Sprintf("%q", doc), g, w, g == w, "")
		}
	}
}

// a reader failure before the value is complete must surface as an error
func c09ReaderErrors(c *Ctx, ndocs int) {
	docs := []string{`12`, `-1.5`, `"abc"`, `true`, `null`, `[1,2]`, `{"a":1}`, `[1,{"b":"c"}]`, ` {"k":[true,null,"s"]} `}
	for i := 0; i < ndocs/4; i++ {
		docs = append(docs, strings.TrimSpace(genDoc(c, 2)))
	}
	for _, doc := range docs {
		b := []byte(doc)
		for k := 0; k <= len(b); k++ {
			for _, d := range []c09Dest{c09Dests[0], c09Dests[8], c09Dests[9]} {
				got := d.mk()
				dec := json.NewDecoder(&cutReader{pieces: [][]byte{b[:k]}, failErr: errBoom})
				err := dec.Decode(got)
				// the delivered prefix may already be a complete value (trailing white space missing):
				// containers, strings and literals end by themselves, numbers do not
				t := bytes.TrimSpace(b[:k])
				complete := k == len(b) || (stdjson.Valid(t) && len(t) > 0 && !(t[len(t)-1] >= '0' && t[len(t)-1] <= '9'))
				if complete {
					// the value may legitimately be complete; only containers/strings/literals are
					// known complete without a delimiter, numbers are not: skip k == len
					continue
				}
				class := ""
				ok := err != nil
				if !ok {
					class = ""
				}
				c.Oracle("reader-error/"+d.name, fmt.Sprintf("%q fails after %d bytes", doc, k), fmt.Sprintf("err=%v value=%v", err, reflect.ValueOf(got).Elem().Interface()), "an error", ok, class)
				if ok && !errors.Is(err, errBoom) {
					c.Rep.Hist["reader-error-masked-by-syntax-error"]++
				}
			}
		}
	}
}

// raw stream machine traces against the Lean model
func c09StreamOps(c *Ctx, ndocs int) {
	n := 300
	if c.Thorough() {
		n = 6000
	}
	for i := 0; i < n; i++ {
		// pieces: total size around the 512 / 1024 / 2048 boundaries or small
		var pieces [][]byte
		total := []int{0, 1, 5, 300, 510, 511, 512, 513, 1022, 1023, 1024, 1025, 1500, 2047, 2048, 2100, 5000}[c.Rng.Intn(17)]
		remaining := total
		for remaining > 0 {
			k := 1 + c.Rng.Intn(700)
			if c.Rng.Intn(4) == 0 {
				k = 1 + c.Rng.Intn(4)
			}
			if c.Rng.Intn(5) == 0 {
				k = remaining
			}
			if k > remaining {
				k = remaining
			}
			p := make([]byte, k)
			nuls := c.Rng.Intn(3) == 0 // NUL bytes in the input are input like any other
			for j := range p {
				p[j] = byte('a' + c.Rng.Intn(26))
				if nuls && c.Rng.Intn(40) == 0 {
					p[j] = 0
				}
			}
			pieces = append(pieces, p)
			remaining -= k
		}
		if c.Rng.Intn(6) == 0 {
			pieces = append(pieces, []byte{})
		}
		fail := c.Rng.Intn(5) == 0
		var ops []byte
		nops := 3 + c.Rng.Intn(25)
		for j := 0; j < nops; j++ {
			switch c.Rng.Intn(6) {
			case 0, 1, 2:
				ops = append(ops, 'r')
			case 3:
				ops = append(ops, 'a', byte(c.Rng.Intn(256)))
			case 4:
				ops = append(ops, 's')
			default:
				ops = append(ops, 'S')
			}
		}
		var ph []string
		for _, p := range pieces {
			ph = append(ph, hx(p))
		}
		if len(ph) == 0 {
			ph = []string{"-"}
		}
		f := "0"
		if fail {
			f = "1"
		}
		impl := strings.Join(json.VerifStreamTrace(pieces, fail, ops), ";")
		c.Op(fmt.Sprintf("strace %s %s %s", f, strings.Join(ph, ","), hx(ops)), impl, true, "strace")
	}
}
