package main

// Directed sweeps shared by the properties whose scanners must accept exactly the JSON language:
// the exhaustive byte-string sweeps stop at length 3..5, which is shorter than one \u escape, so the
// escape scanners get their own alphabet.

// strBodySyms: backslash, the escape letters u and n, hex digits of each case, a letter that is no hex
// digit, and the quote.
var strBodySyms = []byte{'\\', 'u', '0', 'a', 'F', 'g', '"', 'n'}

// strBodies calls fn with every sequence of strBodySyms up to maxLen (the body of a string literal,
// without the surrounding quotes; most are ill-formed) and returns how many there were.
func strBodies(maxLen int, fn func(body []byte)) int {
	n := 0
	var rec func(p []byte)
	rec = func(p []byte) {
		fn(p)
		n++
		if len(p) == maxLen {
			return
		}
		for _, s := range strBodySyms {
			rec(append(p, s))
		}
	}
	rec(make([]byte, 0, maxLen+1))
	return n
}

// quoted returns "body" as a fresh slice
func quoted(body []byte) []byte {
	b := make([]byte, 0, len(body)+2)
	b = append(b, '"')
	b = append(b, body...)
	return append(b, '"')
}

// tokenSyms: the tokens of the grammar, one of each kind, and a space
var tokenSyms = []string{"{", "}", "[", "]", ",", ":", "1", `"a"`, "null", "true", " "}

// tokenSeqs calls fn with every sequence of up to maxLen tokens (most are ill-formed documents: values
// in key position, missing or doubled separators, unbalanced brackets) and returns how many there were.
func tokenSeqs(maxLen int, fn func(doc []byte)) int {
	n := 0
	var rec func(p []byte, l int)
	rec = func(p []byte, l int) {
		fn(p)
		n++
		if l == maxLen {
			return
		}
		for _, t := range tokenSyms {
			rec(append(p[:len(p):len(p)], t...), l+1)
		}
	}
	rec([]byte{}, 0)
	return n
}
