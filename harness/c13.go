package main

import (
	"bytes"
	"context"
	stdjson "encoding/json"
	"fmt"
	"io"
	"regexp"
	"math/rand"
	"os"
	"reflect"
	"strings"

	json "github.com/goccy/go-json"
)

func init() {
	props["C13"] = runC13
	encFloatToken = func(f interface{}) ([]byte, error) { return json.Marshal(f) }
}

func encOps(c *Ctx, iv interface{}, selfcheck bool) {
	var toks []string
	if !toGV(reflect.ValueOf(iv), &toks, 0) {
		c.Rep.Hist["enc-skipped-shape"]++
		return
	}
	if c01ClassOf(iv, nil, nil, nil, nil) != "" {
		c.Rep.Hist["enc-skipped-known-class"]++
		return
	}
	tree := strings.Join(toks, " ")
	show := func(b []byte, err error, pan string) string {
		if pan != "" {
			return "panic"
		}
		if err != nil {
			return "err"
		}
		return hx(b)
	}
	g, gerr, gp := safeMarshal(func() ([]byte, error) { return json.Marshal(iv) })
	if gp != "" {
		c.Rep.Hist["panic:"+fmt.Sprintf("%T", iv)+":"+gp]++
	}
	c.Op("enc 1 - "+tree, show(g, gerr, gp), true, "marshal")
	g2, gerr2, gp2 := safeMarshal(func() ([]byte, error) { return json.MarshalWithOption(iv, json.DisableHTMLEscape()) })
	c.Op("enc 0 - "+tree, show(g2, gerr2, gp2), true, "marshal-nohtml")
	for _, pi := range [][2]string{{"", "  "}, {">", "\t"}, {"", ""}, {"é", "  \t"}} {
		gi, gierr, gip := safeMarshal(func() ([]byte, error) { return json.MarshalIndent(iv, pi[0], pi[1]) })
		c.Op(fmt.Sprintf("enc 1 %s:%s %s", hx([]byte(pi[0])), hx([]byte(pi[1])), tree), show(gi, gierr, gip), true, "marshalindent")
	}
	if selfcheck || os.Getenv("VERIF_SPEC_SELFCHECK") != "" {
		// the specification against encoding/json itself (development aid; token spellings differ)
		var stoks []string
		encFloatToken = func(f interface{}) ([]byte, error) { return stdjson.Marshal(f) }
		toGV(reflect.ValueOf(iv), &stoks, 0)
		encFloatToken = func(f interface{}) ([]byte, error) { return json.Marshal(f) }
		stree := strings.Join(stoks, " ")
		fix := func(b []byte) []byte {
			return []byte(strings.ReplaceAll(strings.ReplaceAll(string(b), `\b`, `\u0008`), `\f`, `\u000c`))
		}
		s, serr := stdjson.Marshal(iv)
		c.Op("enc 1 - "+stree, show(fix(s), serr, ""), true, "selfcheck-std")
		si, sierr := stdjson.MarshalIndent(iv, ">", "\t")
		c.Op(fmt.Sprintf("enc 1 %s:%s %s", hx([]byte(">")), hx([]byte("\t")), stree), show(fix(si), sierr, ""), true, "selfcheck-std-indent")
	}
}

// marker scheme: control bytes that cannot occur in JSON output, so that stripping them is exact
var c13Scheme = &json.ColorScheme{
	Int: json.ColorFormat{Header: "\x01i", Footer: "\x02"}, Uint: json.ColorFormat{Header: "\x01u", Footer: "\x02"},
	Float: json.ColorFormat{Header: "\x01f", Footer: "\x02"}, Bool: json.ColorFormat{Header: "\x01b", Footer: "\x02"},
	String: json.ColorFormat{Header: "\x01s", Footer: "\x02"}, Binary: json.ColorFormat{Header: "\x01y", Footer: "\x02"},
	ObjectKey: json.ColorFormat{Header: "\x01k", Footer: "\x02"}, Null: json.ColorFormat{Header: "\x01n", Footer: "\x02"},
}

var c13Strip = regexp.MustCompile("\x01[iufbsykn]|\x02")

func c13Variants(c *Ctx, iv interface{}, t reflect.Type) {
	in := fmt.Sprintf("%s = %s", genTypeString(t), c01Show(iv))
	cls := c01ClassOf(iv, nil, nil, nil, nil)
	if strings.HasPrefix(cls, "C08-") {
		// known to read through mis-counted pointers: running it can take the process down
		c.Rep.Known[cls]++
		return
	}
	base, berr, bp := safeMarshal(func() ([]byte, error) { return json.Marshal(iv) })
	if bp != "" {
		return // C01 / C08 judge panics
	}
	colorCls := cls
	if colorCls == "" && c13HasQuotedString(reflect.ValueOf(iv), 0) {
		colorCls = "C13-colorize-string-tag"
	}
	sameC := func(name string, f func() ([]byte, error), tr func([]byte) []byte) {
		g, gerr, gp := safeMarshal(f)
		if tr != nil && gerr == nil {
			g = tr(g)
		}
		ok := gp == "" && (gerr == nil) == (berr == nil) && (gerr != nil || bytes.Equal(g, base))
		c.Oracle("variant/"+name, in, fmt.Sprintf("%s err=%s panic=%s", trunc(g), errT(gerr), gp), fmt.Sprintf("%s err=%s", trunc(base), errT(berr)), ok, colorCls)
	}
	same := func(name string, f func() ([]byte, error), tr func([]byte) []byte) {
		g, gerr, gp := safeMarshal(f)
		if tr != nil && gerr == nil {
			g = tr(g)
		}
		ok := gp == "" && (gerr == nil) == (berr == nil) && (gerr != nil || bytes.Equal(g, base))
		c.Oracle("variant/"+name, in, fmt.Sprintf("%s err=%s panic=%s", trunc(g), errT(gerr), gp), fmt.Sprintf("%s err=%s", trunc(base), errT(berr)), ok, cls)
	}
	same("MarshalNoEscape", func() ([]byte, error) { return json.MarshalNoEscape(iv) }, nil)
	same("MarshalContext", func() ([]byte, error) { return json.MarshalContext(context.Background(), iv) }, nil)
	same("MarshalWithOption()", func() ([]byte, error) { return json.MarshalWithOption(iv) }, nil)
	same("DebugWith(discard)", func() ([]byte, error) { return json.MarshalWithOption(iv, json.DebugWith(io.Discard)) }, nil)
	same("Encoder.Encode", func() ([]byte, error) {
		var b bytes.Buffer
		err := json.NewEncoder(&b).Encode(iv)
		return b.Bytes(), err
	}, func(b []byte) []byte { return bytes.TrimSuffix(b, []byte("\n")) })
	sameC("Colorize(empty)", func() ([]byte, error) { return json.MarshalWithOption(iv, json.Colorize(&json.ColorScheme{})) }, nil)
	sameC("Colorize(markers)", func() ([]byte, error) { return json.MarshalWithOption(iv, json.Colorize(c13Scheme)) },
		func(b []byte) []byte { return c13Strip.ReplaceAll(b, nil) })
	// MarshalIndent = Indent(Marshal) with go-json's own Indent
	if berr == nil {
		for _, pi := range [][2]string{{"", "  "}, {">", "\t"}, {"", ""}, {"é", " "}} {
			gi, gierr, gip := safeMarshal(func() ([]byte, error) { return json.MarshalIndent(iv, pi[0], pi[1]) })
			var want bytes.Buffer
			ierr := json.Indent(&want, base, pi[0], pi[1])
			ok := gip == "" && gierr == nil && ierr == nil && bytes.Equal(gi, want.Bytes())
			c.Oracle("marshalindent=indent(marshal)", in+fmt.Sprintf(" prefix=%q indent=%q", pi[0], pi[1]), fmt.Sprintf("%s err=%s panic=%s", trunc(gi), errT(gierr), gip), fmt.Sprintf("%s err=%v", trunc(want.Bytes()), ierr), ok, cls)
			// coloured + indented
			ci, cierr, cip := safeMarshal(func() ([]byte, error) {
				return json.MarshalIndentWithOption(iv, pi[0], pi[1], json.Colorize(c13Scheme))
			})
			ok = cip == "" && cierr == nil && bytes.Equal(c13Strip.ReplaceAll(ci, nil), gi)
			c.Oracle("colorize-indent", in, fmt.Sprintf("%s err=%s panic=%s", trunc(ci), errT(cierr), cip), trunc(gi)+" err=<nil>", ok, colorCls)
			// the Debug option with indentation (the previous call left another prefix / indent behind)
			di, dierr, dip := safeMarshal(func() ([]byte, error) {
				return json.MarshalIndentWithOption(iv, pi[0], pi[1], json.Debug(), json.DebugWith(io.Discard))
			})
			ok = dip == "" && dierr == nil && bytes.Equal(di, gi)
			c.Oracle("debug-indent", in+fmt.Sprintf(" prefix=%q indent=%q", pi[0], pi[1]), fmt.Sprintf("%s err=%s panic=%s", trunc(di), errT(dierr), dip), trunc(gi)+" err=<nil>", ok, cls)
			ei, eierr, eip := safeMarshal(func() ([]byte, error) {
				var b bytes.Buffer
				e := json.NewEncoder(&b)
				e.SetIndent(pi[0], pi[1])
				err := e.EncodeWithOption(iv, json.Debug(), json.DebugWith(io.Discard))
				return bytes.TrimSuffix(b.Bytes(), []byte("\n")), err
			})
			wantE := gi
			if pi[0] == "" && pi[1] == "" {
				wantE = base // SetIndent("", "") switches indentation off, as in encoding/json
			}
			ok = eip == "" && eierr == nil && bytes.Equal(ei, wantE)
			c.Oracle("debug-indent-encoder", in+fmt.Sprintf(" prefix=%q indent=%q", pi[0], pi[1]), fmt.Sprintf("%s err=%s panic=%s", trunc(ei), errT(eierr), eip), trunc(gi)+" err=<nil>", ok, cls)
		}
		// UnorderedMap: the same document up to member order
		u, uerr, up := safeMarshal(func() ([]byte, error) { return json.MarshalWithOption(iv, json.UnorderedMap()) })
		var a, b interface{}
		e1 := stdjson.Unmarshal(base, &a)
		e2 := stdjson.Unmarshal(u, &b)
		ok := up == "" && uerr == nil && e1 == nil && e2 == nil && reflect.DeepEqual(a, b) && len(u) == len(base)
		c.Oracle("unorderedmap", in, fmt.Sprintf("%s err=%s panic=%s", trunc(u), errT(uerr), up), trunc(base), ok, cls)
		// UnorderedMap with indentation: the same layout up to member order
		gi0, _, _ := safeMarshal(func() ([]byte, error) { return json.MarshalIndent(iv, "", "  ") })
		ui, uierr, uip := safeMarshal(func() ([]byte, error) { return json.MarshalIndentWithOption(iv, "", "  ", json.UnorderedMap()) })
		ok = uip == "" && uierr == nil && len(ui) == len(gi0) && c13SortedLines(ui) == c13SortedLines(gi0)
		c.Oracle("unorderedmap-indent", in, fmt.Sprintf("%s err=%s panic=%s", trunc(ui), errT(uierr), uip), trunc(gi0)+" err=<nil>", ok, cls)
		// DisableHTMLEscape: only the spelling of < > & changes
		h, herr, hp := safeMarshal(func() ([]byte, error) { return json.MarshalWithOption(iv, json.DisableHTMLEscape()) })
		var hv interface{}
		e3 := stdjson.Unmarshal(h, &hv)
		// (a `,string` string holds JSON text, whose own escapes are spelled differently: compare
		// those by decoding the inner text once more is not worth it — they are left out)
		ok = hp == "" && herr == nil && e3 == nil && (reflect.DeepEqual(a, hv) || c13HasQuotedString(reflect.ValueOf(iv), 0))
		c.Oracle("disablehtmlescape", in, fmt.Sprintf("%s err=%s panic=%s", trunc(h), errT(herr), hp), trunc(base), ok, cls)
	}
	// top level / behind a pointer / inside interface{}
	p := reflect.New(t)
	p.Elem().Set(reflect.ValueOf(iv))
	if c01ClassOf(p.Interface(), nil, nil, nil, nil) == "" {
		same("behind-pointer", func() ([]byte, error) { return json.Marshal(p.Interface()) }, nil)
	}
	var boxed interface{} = iv
	same("inside-interface", func() ([]byte, error) { return json.Marshal(&boxed) }, nil)
}

func runC13(c *Ctx) {
	c.Rep.Rule = "types and values from the grammar of harness/gen.go (as C01); ops: the Lean encoder specification on the value tree vs Marshal, Marshal+DisableHTMLEscape and MarshalIndent with prefix/indent in {\"\"/2 spaces, >/tab, empty/empty, é/space+tab}; oracle (implementation against itself): MarshalIndent = Indent(Marshal), Colorize with an empty scheme and with marker schemes (stripped), coloured+indented, UnorderedMap (same document, same length), DisableHTMLEscape (same document), Encoder.Encode, MarshalNoEscape, MarshalContext, MarshalWithOption, DebugWith, top level = behind pointer = inside interface{}; non-trivial = every case"
	ntypes := 1500
	if c.Thorough() {
		ntypes = 30000
	}
	if !c.IsWorker() {
		FieldMatrix(func(t reflect.Type, v reflect.Value) {
			iv := v.Interface()
			if strings.HasPrefix(c01ClassOf(iv, nil, nil, nil, nil), "C08-") {
				return
			}
			encOps(c, iv, false)
			c13Variants(c, iv, t)
		})
	}
	c.RunCases("spec", ntypes, func(c *Ctx, k int, rng *rand.Rand) {
		g := &Gen{R: rng}
		t := g.Type(1 + rng.Intn(4))
		for vi := 0; vi < 3; vi++ {
			v := g.Value(t, 3, GenOpt{})
			encOps(c, v.Interface(), false)
			if v.IsValid() && v.CanInterface() && v.Interface() != nil {
				c13Variants(c, v.Interface(), t)
			}
		}
	}, func(k int, rng *rand.Rand) string {
		g := &Gen{R: rng}
		t := g.Type(1 + rng.Intn(4))
		return fmt.Sprintf("case %d: a value of %s", k, genTypeString(t))
	}, nil)
}

// c13HasQuotedString: a struct field of string kind with the `,string` option is reached
func c13HasQuotedString(v reflect.Value, depth int) bool {
	if depth > 12 || !v.IsValid() {
		return false
	}
	switch v.Kind() {
	case reflect.Ptr, reflect.Interface:
		if v.IsNil() {
			return false
		}
		return c13HasQuotedString(v.Elem(), depth+1)
	case reflect.Slice, reflect.Array:
		for i := 0; i < v.Len(); i++ {
			if c13HasQuotedString(v.Index(i), depth+1) {
				return true
			}
		}
	case reflect.Map:
		for _, k := range v.MapKeys() {
			if c13HasQuotedString(v.MapIndex(k), depth+1) {
				return true
			}
		}
	case reflect.Struct:
		t := v.Type()
		for i := 0; i < t.NumField(); i++ {
			f := t.Field(i)
			if f.PkgPath != "" && !f.Anonymous {
				continue
			}
			if strings.Contains(f.Tag.Get("json"), ",string") {
				ft := f.Type
				if ft.Kind() == reflect.Ptr {
					ft = ft.Elem()
				}
				if ft.Kind() == reflect.String {
					return true
				}
			}
			if c13HasQuotedString(v.Field(i), depth+1) {
				return true
			}
		}
	}
	return false
}

// c13SortedLines: the lines of an indented document as a multiset (commas dropped): two layouts of the
// same document that differ only in the order of map members agree on it
func c13SortedLines(b []byte) string {
	lines := strings.Split(string(b), "\n")
	for i := range lines {
		lines[i] = strings.TrimSuffix(lines[i], ",")
	}
	sortStrings(lines)
	return strings.Join(lines, "\n")
}
