package main

import (
	"bytes"
	"encoding/hex"
	stdjson "encoding/json"
	"fmt"
	"math/big"
	"reflect"
	"regexp"
	"strconv"
	"strings"

	json "github.com/goccy/go-json"
)

func init() { props["C16"] = runC16 }

func hx(b []byte) string {
	if len(b) == 0 {
		return "-"
	}
	return hex.EncodeToString(b)
}

// boundary values: 2^k and 10^k neighbourhoods, clipped to 64 bits
func boundaryWords(radius int64, maxBits int) []uint64 {
	seen := map[uint64]struct{}{}
	var out []uint64
	add := func(v *big.Int) {
		m := new(big.Int).And(v, new(big.Int).SetUint64(^uint64(0)))
		u := m.Uint64()
		if _, ok := seen[u]; !ok {
			seen[u] = struct{}{}
			out = append(out, u)
		}
	}
	for k := 0; k <= maxBits; k++ {
		base := new(big.Int).Lsh(big.NewInt(1), uint(k))
		for d := -radius; d <= radius; d++ {
			add(new(big.Int).Add(base, big.NewInt(d)))
			add(new(big.Int).Neg(new(big.Int).Add(base, big.NewInt(d))))
		}
	}
	p := big.NewInt(1)
	for k := 0; k <= 20; k++ {
		for d := -radius; d <= radius; d++ {
			add(new(big.Int).Add(p, big.NewInt(d)))
			add(new(big.Int).Neg(new(big.Int).Add(p, big.NewInt(d))))
		}
		p = new(big.Int).Mul(p, big.NewInt(10))
	}
	return out
}

func runC16(c *Ctx) {
	c.Rep.Rule = "ops: appendInt/appendUint(bits, word) and decInt/decUint(bits, buffer) through the verif hooks, " +
		"compared with the Lean model; non-trivial = value with >= 3 decimal digits or a literal that is not a plain in-range integer; " +
		"distinct = distinct op line. oracle: public Marshal/Unmarshal/Decoder against encoding/json and math/big in plain, pointer, map-key, ,string and slice positions."
	radius := int64(64)
	nrand := 20000
	if c.Thorough() {
		radius = 4096
		nrand = 400000
	}
	// --- A: printing through the hook vs model
	for _, bits := range []uint8{8, 16} {
		n := 1 << bits
		for v := 0; v < n; v++ {
			w := uint64(v)
			c.Op(fmt.Sprintf("appendInt %d %x", bits, w), hx(json.VerifAppendInt(bits, w)), v >= 100, "appendInt")
			c.Op(fmt.Sprintf("appendUint %d %x", bits, w), hx(json.VerifAppendUint(bits, w)), v >= 100, "appendUint")
		}
	}
	c.Rep.Exhaustive = append(c.Rep.Exhaustive, "appendInt/appendUint for all 2^8 and 2^16 words of the 8- and 16-bit types")
	words := boundaryWords(radius, 64)
	for i := 0; i < nrand; i++ {
		w := c.Rng.Uint64()
		if i%3 == 0 {
			w >>= uint(c.Rng.Intn(64))
		}
		words = append(words, w)
	}
	for _, w := range words {
		for _, bits := range []uint8{32, 64} {
			ww := w
			if bits == 32 {
				ww = w & 0xffffffff
			}
			c.Op(fmt.Sprintf("appendInt %d %x", bits, ww), hx(json.VerifAppendInt(bits, ww)), true, "appendInt")
			c.Op(fmt.Sprintf("appendUint %d %x", bits, ww), hx(json.VerifAppendUint(bits, ww)), true, "appendUint")
		}
	}
	// --- B: decoding through the hook vs model
	lits := c16Literals(c)
	terms := []string{"", ",", "]", "}", " ", "\n", ".", ".5", "e", "E1", "e+2", "x", "-", "+", "0", "9", "\"", "\x01", "\xff", ":"}
	prefixes := []string{"", " ", "\n\t", "  \r"}
	for _, l := range lits {
		for ti, t := range terms {
			if !c.Thorough() && ti >= 4 && (len(l)+ti)%5 != 0 {
				continue
			}
			for pi, p := range prefixes {
				if pi > 0 && (len(l)+ti+pi)%4 != 0 {
					continue
				}
				buf := []byte(p + l + t + "\x00")
				for _, bits := range []int{8, 16, 32, 64} {
					c.Op(fmt.Sprintf("decInt %d %s", bits, hx(buf)), json.VerifDecodeInt(bits, true, buf), len(l) > 2 || t != "", "decInt")
					c.Op(fmt.Sprintf("decUint %d %s", bits, hx(buf)), json.VerifDecodeInt(bits, false, buf), len(l) > 2 || t != "", "decUint")
				}
			}
		}
	}
	// random byte soup over the interesting alphabet
	alpha := []byte("0123456789-+.eEnul \x00,]x")
	nsoup := 20000
	if c.Thorough() {
		nsoup = 300000
	}
	for i := 0; i < nsoup; i++ {
		n := 1 + c.Rng.Intn(8)
		b := make([]byte, n+1)
		for j := 0; j < n; j++ {
			b[j] = alpha[c.Rng.Intn(len(alpha))]
		}
		b[n] = 0
		bits := []int{8, 16, 32, 64}[c.Rng.Intn(4)]
		c.Op(fmt.Sprintf("decInt %d %s", bits, hx(b)), json.VerifDecodeInt(bits, true, b), true, "decInt-soup")
		c.Op(fmt.Sprintf("decUint %d %s", bits, hx(b)), json.VerifDecodeInt(bits, false, b), true, "decUint-soup")
	}
	// --- C: the property judged on the public API
	c16Oracle[int8](c, lits, words, 8, true)
	c16Oracle[int16](c, lits, words, 16, true)
	c16Oracle[int32](c, lits, words, 32, true)
	c16Oracle[int64](c, lits, words, 64, true)
	c16Oracle[int](c, lits, words, 64, true)
	c16Oracle[uint8](c, lits, words, 8, false)
	c16Oracle[uint16](c, lits, words, 16, false)
	c16Oracle[uint32](c, lits, words, 32, false)
	c16Oracle[uint64](c, lits, words, 64, false)
	c16Oracle[uint](c, lits, words, 64, false)
	c16Oracle[uintptr](c, lits, words, 64, false)
}

func c16Literals(c *Ctx) []string {
	seen := map[string]struct{}{}
	var out []string
	add := func(s string) {
		if _, ok := seen[s]; !ok {
			seen[s] = struct{}{}
			out = append(out, s)
		}
	}
	// around every bound of every width
	for _, k := range []uint{7, 8, 15, 16, 31, 32, 63, 64} {
		b := new(big.Int).Lsh(big.NewInt(1), k)
		for d := int64(-3); d <= 3; d++ {
			v := new(big.Int).Add(b, big.NewInt(d))
			add(v.String())
			add("-" + v.String())
		}
	}
	// wrap points: multiples of 2^63 / 2^64 / 2^32 / 2^16 / 2^8 (a wrapped accumulator lands near 0 there)
	// and every leading digit at the longest accepted lengths (19 and 20 digits)
	for _, k := range []uint{8, 16, 32, 63, 64} {
		for m := int64(2); m <= 6; m++ {
			b := new(big.Int).Mul(new(big.Int).Lsh(big.NewInt(1), k), big.NewInt(m))
			for d := int64(-1); d <= 1; d++ {
				v := new(big.Int).Add(b, big.NewInt(d))
				add(v.String())
				add("-" + v.String())
			}
		}
	}
	for lead := 1; lead <= 9; lead++ {
		for _, n := range []int{18, 19, 20, 21} {
			for rep := 0; rep < 3; rep++ {
				var sb strings.Builder
				sb.WriteByte(byte('0' + lead))
				for j := 1; j < n; j++ {
					switch rep {
					case 0:
						sb.WriteByte('0')
					case 1:
						sb.WriteByte('9')
					default:
						sb.WriteByte(byte('0' + c.Rng.Intn(10)))
					}
				}
				add(sb.String())
				add("-" + sb.String())
			}
		}
	}
	p := big.NewInt(1)
	for k := 0; k <= 25; k++ {
		for d := int64(-1); d <= 1; d++ {
			v := new(big.Int).Add(p, big.NewInt(d))
			if v.Sign() >= 0 {
				add(v.String())
				add("-" + v.String())
			}
		}
		p = new(big.Int).Mul(p, big.NewInt(10))
	}
	for _, s := range []string{"", "-", "--1", "+1", "0", "-0", "00", "01", "-01", "-00", "007", "0x10", "1.0", "1e2", "1E2", "0.5", "-0.0", "0e0", "1.", ".5", "n", "nu", "nul", "null", "nulL", "nullx", "true", "1 2", "12abc", "\"1\""} {
		add(s)
	}
	n := 300
	if c.Thorough() {
		n = 5000
	}
	for i := 0; i < n; i++ {
		l := 1 + c.Rng.Intn(25)
		var sb strings.Builder
		if c.Rng.Intn(3) == 0 {
			sb.WriteByte('-')
		}
		for j := 0; j < l; j++ {
			if j == 0 && c.Rng.Intn(8) != 0 {
				sb.WriteByte(byte('1' + c.Rng.Intn(9)))
			} else {
				sb.WriteByte(byte('0' + c.Rng.Intn(10)))
			}
		}
		add(sb.String())
	}
	// all 1..3-symbol strings over a tiny alphabet (exhaustive)
	small := []byte("019-.e")
	for _, a := range small {
		add(string([]byte{a}))
		for _, b := range small {
			add(string([]byte{a, b}))
			for _, d := range small {
				add(string([]byte{a, b, d}))
			}
		}
	}
	return out
}

type c16F3[T any] struct {
	X T `json:"x,string"`
	Y T `json:"y"`
	Z T `json:"z,string"`
}
type c16P3[T any] struct {
	P *T `json:"p,string"`
	Q T  `json:"q,string,omitempty"`
	R *T `json:"r,omitempty"`
}
type c16L2[T any] struct {
	A int `json:"a"`
	B T   `json:"b,string"`
}
type c16L2o[T any] struct {
	A int `json:"a"`
	B T   `json:"b,omitempty"`
}
type c16L2p[T any] struct {
	A int `json:"a"`
	B *T  `json:"b,string"`
}

type c16Str[T any] struct {
	A T `json:",string"`
}

func c16Oracle[T int8 | int16 | int32 | int64 | int | uint8 | uint16 | uint32 | uint64 | uint | uintptr](c *Ctx, lits []string, words []uint64, bits int, signed bool) {
	tn := reflect.TypeOf(T(0)).String()
	// printing: every position agrees with strconv / encoding/json
	step := 1
	if !c.Thorough() {
		step = 7
	}
	for i := 0; i < len(words); i += step {
		v := T(words[i])
		var want string
		if signed {
			want = strconv.FormatInt(reflect.ValueOf(v).Int(), 10)
		} else {
			want = strconv.FormatUint(reflect.ValueOf(v).Uint(), 10)
		}
		check := func(pos string, x interface{}, wantDoc string) {
			got, err := json.Marshal(x)
			ok := err == nil && string(got) == wantDoc
			c.Oracle("print/"+pos, fmt.Sprintf("%s(%s)", tn, want), fmt.Sprintf("%s err=%v", got, err), wantDoc, ok, "")
		}
		check("plain", v, want)
		check("ptr", &v, want)
		check("mapkey", map[T]int{v: 1}, `{"`+want+`":1}`)
		check("string", c16Str[T]{v}, `{"A":"`+want+`"}`)
		if bits != 8 || signed {
			check("slice", []T{v, v}, "["+want+","+want+"]")
		} else {
			sb, _ := stdjson.Marshal([]T{v, v}) // []uint8 is base64 text
			check("slice", []T{v, v}, string(sb))
		}
		check("array", [2]T{v, v}, "["+want+","+want+"]")
		check("iface", []interface{}{v}, "["+want+"]")
		// omitempty on the masked width
		type oe struct {
			A T `json:"a,omitempty"`
		}
		stdb, _ := stdjson.Marshal(oe{v})
		check("omitempty", oe{v}, string(stdb))
		// struct positions (first, middle, last member; string tag, pointer, omitempty) through the four
		// interpreters: each position and option has its own opcode in each of them
		vv := v
		if c.Thorough() && i%4 != 0 {
			continue // (the thorough tier visits every word for the positions above and every fourth for the struct shapes)
		}
		for si, sv := range []interface{}{
			c16F3[T]{X: v, Y: v, Z: v}, &c16F3[T]{X: v, Y: v, Z: v},
			c16P3[T]{P: &vv, Q: v, R: &vv}, c16P3[T]{Q: v}, []c16F3[T]{{X: v, Y: v, Z: v}},
			c16L2[T]{A: 1, B: v}, c16L2o[T]{A: 1, B: v}, c16L2p[T]{A: 1, B: &vv},
		} {
			want1, _ := stdjson.Marshal(sv)
			want2, _ := stdjson.MarshalIndent(sv, "", " ")
			for ei, f := range []func() ([]byte, error){
				func() ([]byte, error) { return json.Marshal(sv) },
				func() ([]byte, error) { return json.MarshalIndent(sv, "", " ") },
				func() ([]byte, error) {
					b, err := json.MarshalWithOption(sv, json.Colorize(c13Scheme))
					return c13Strip.ReplaceAll(b, nil), err
				},
				func() ([]byte, error) {
					b, err := json.MarshalIndentWithOption(sv, "", " ", json.Colorize(c13Scheme))
					return c13Strip.ReplaceAll(b, nil), err
				},
			} {
				got, err, pan := safeMarshal(f)
				w := want1
				if ei%2 == 1 {
					w = want2
				}
				c.Oracle(fmt.Sprintf("print/struct%d/vm%d", si, ei), fmt.Sprintf("%s(%s)", tn, want), fmt.Sprintf("%s err=%v panic=%s", got, err, pan), string(w), pan == "" && err == nil && bytes.Equal(got, w), "")
			}
		}
	}
	// parsing
	for _, l := range lits {
		docs := []struct{ pos, doc string }{
			{"plain", l}, {"ptr", l}, {"mapkey", `{"` + l + `":1}`}, {"string", `{"A":"` + l + `"}`}, {"slice", "[" + l + "]"}, {"field", `{"A":` + l + `}`},
		}
		for _, d := range docs {
			if strings.ContainsAny(l, "\"\\") && d.pos != "plain" {
				continue
			}
			for _, stream := range []bool{false, true} {
				c16ParseOne[T](c, tn, d.pos, l, d.doc, stream)
			}
		}
	}
}

func c16ParseOne[T int8 | int16 | int32 | int64 | int | uint8 | uint16 | uint32 | uint64 | uint | uintptr](c *Ctx, tn, pos, lit, doc string, stream bool) {
	type fld struct{ A T }
	mk := func() (interface{}, interface{}) {
		switch pos {
		case "plain":
			a, b := T(7), T(7)
			return &a, &b
		case "ptr":
			a, b := new(T), new(T)
			*a, *b = 7, 7
			return &a, &b
		case "mapkey":
			return &map[T]int{}, &map[T]int{}
		case "string":
			return &c16Str[T]{7}, &c16Str[T]{7}
		case "slice":
			return &[]T{}, &[]T{}
		default:
			return &fld{7}, &fld{7}
		}
	}
	g, s := mk()
	var gerr, serr error
	if stream {
		gerr = json.NewDecoder(bytes.NewReader([]byte(doc))).Decode(g)
		sd := stdjson.NewDecoder(bytes.NewReader([]byte(doc)))
		serr = sd.Decode(s)
	} else {
		gerr = json.Unmarshal([]byte(doc), g)
		serr = stdjson.Unmarshal([]byte(doc), s)
	}
	mode := "buf"
	if stream {
		mode = "stream"
	}
	if stream && (pos == "plain" || pos == "ptr") && !stdjson.Valid([]byte(doc)) {
		// a top-level stream is a concatenation of documents ("01" is 0 then 1 for encoding/json's
		// Decoder); malformed top-level literals are judged in buffer mode only (and by C09/C05)
		return
	}
	ok := (gerr == nil) == (serr == nil)
	if ok && gerr == nil {
		ok = reflect.DeepEqual(g, s)
	}
	tolerated := false
	if !ok && (pos == "mapkey" || pos == "string") && serr == nil && gerr != nil {
		// quoted integers: encoding/json parses the payload with strconv (accepts "+1", "01");
		// the property demands an error for non-JSON-integer spellings. Rejecting is accepted,
		// storing a different number is not.
		ok, tolerated = true, true
	}
	if ok && gerr != nil && !tolerated && c16NumberLike(lit) && !(stream && c16LeadingZero(lit)) {
		// a rejected number literal must not be stored: the 7 stays
		// (go-json's pointer decoder resets the pointer to nil on error; that stores no number;
		// in stream mode "01" is the document 0 followed by 1, so the 0 may be stored)
		switch pos {
		case "plain", "string", "field":
			ok = reflect.DeepEqual(g, s)
		case "ptr":
			pp := reflect.ValueOf(g).Elem()
			ok = pp.IsNil() || reflect.DeepEqual(pp.Elem().Interface(), T(7))
		}
	}
	if ok && tolerated {
		// still: nothing but the 7 may be in the destination
		if pos == "string" {
			ok = reflect.DeepEqual(g, &c16Str[T]{7})
		}
	}
	c.Oracle("parse/"+pos+"/"+mode, fmt.Sprintf("%s <- %q", tn, doc),
		fmt.Sprintf("%v err=%v", reflect.ValueOf(g).Elem().Interface(), gerr),
		fmt.Sprintf("%v err=%v", reflect.ValueOf(s).Elem().Interface(), serr), ok, c16Class(pos, lit))
}

// c16Class names the known-finding class an input belongs to ("" = none). Classes are defined by
// the input alone (not by the outcome) and listed in /verif/known_findings.json.
func c16Class(pos, lit string) string {
	// (the one class there was, the map key "null", was repaired)
	return ""
}

var c16TokenRe = regexp.MustCompile(`^-?[0-9]*(\.[0-9]*)?([eE][+-]?[0-9]*)?$`)

// c16NumberLike: a single (possibly incomplete or non-integer) number token — the class of
// literals the property speaks about; "0-" or "1 2" are a token followed by garbage and not in it.
func c16NumberLike(l string) bool {
	return l != "" && c16TokenRe.MatchString(l)
}

func c16LeadingZero(l string) bool {
	l = strings.TrimPrefix(l, "-")
	return len(l) >= 2 && l[0] == '0' && l[1] >= '0' && l[1] <= '9'
}
