package main

// Shared type x value generator for the encoder / decoder properties (C01, C02, C03, C04, C13, ...).
// Types are built with reflect (StructOf, SliceOf, MapOf, PtrTo, ArrayOf) from a grammar over the
// supported kinds, plus a pool of declared types for what reflect cannot build: recursive structs,
// Marshaler / TextMarshaler implementers with value and pointer receivers, embedded structs.

import (
	stdjson "encoding/json"
	"fmt"
	"math"
	"math/rand"
	"reflect"
	"strings"
	"time"
)

// ---- declared types -------------------------------------------------------------------------

type GRec struct {
	V    int              `json:"v"`
	Next *GRec            `json:"next,omitempty"`
	Kids []GRec           `json:"kids"`
	M    map[string]*GRec `json:"m,omitempty"`
	I    interface{}      `json:"i"`
}

type GA struct {
	N int
	B *GB `json:"b"`
}
type GB struct {
	S  string
	As []GA `json:"as,omitempty"`
}

// value-receiver Marshaler
type GMV struct{ X int }

func (m GMV) MarshalJSON() ([]byte, error) { return []byte(fmt.Sprintf(`{"mv":%d}`, m.X)), nil }

// pointer-receiver Marshaler
type GMP struct{ X int }

func (m *GMP) MarshalJSON() ([]byte, error) {
	if m == nil {
		return []byte(`"nilmp"`), nil
	}
	return []byte(fmt.Sprintf(`[ %d , "p" ]`, m.X)), nil
}

// value-receiver TextMarshaler (also usable as a map key)
type GTV struct{ S string }

func (t GTV) MarshalText() ([]byte, error) { return []byte("tv:" + t.S), nil }

// pointer-receiver TextMarshaler
type GTP struct{ S string }

func (t *GTP) MarshalText() ([]byte, error) {
	if t == nil {
		return []byte("niltp"), nil
	}
	return []byte("tp<" + t.S + ">"), nil
}

// a marshaler whose output is whatever it holds (valid or not)
type GRawM struct{ B string }

func (m GRawM) MarshalJSON() ([]byte, error) { return []byte(m.B), nil }

// a text marshaler whose output is whatever it holds (valid UTF-8 or not)
type GRawT struct{ B string }

func (m GRawT) MarshalText() ([]byte, error) { return []byte(m.B), nil }

type GKey string

func (k GKey) MarshalText() ([]byte, error) { return []byte("K" + strings.ToUpper(string(k))), nil }

type GNamedString string
type GNamedInt int16
type GNamedBytes []byte
type GNamedSlice []int
type GNamedMap map[string]int

type GEmb1 struct {
	P int    `json:"p"`
	Q string `json:"q,omitempty"`
}
type GEmb2 struct {
	R    float64
	GEmb1
}
type GOuter struct {
	GEmb1
	*GEmb2
	Z bool `json:"z"`
}
type GTagged struct {
	A int     `json:"a,string"`
	B bool    `json:"b,string,omitempty"`
	C string  `json:"c,string"`
	D float64 `json:"d,string"`
	E *int    `json:"e,string"`
	F uint8   `json:",string"`
	G int     `json:"-"`
	H int     `json:"-,"`
	i int
}

var genDeclared = []reflect.Type{
	reflect.TypeOf(GRec{}), reflect.TypeOf(GA{}), reflect.TypeOf(GB{}), reflect.TypeOf(GMV{}), reflect.TypeOf(GMP{}),
	reflect.TypeOf(GTV{}), reflect.TypeOf(GTP{}), reflect.TypeOf(GNamedString("")), reflect.TypeOf(GNamedInt(0)),
	reflect.TypeOf(GNamedBytes(nil)), reflect.TypeOf(GNamedSlice(nil)), reflect.TypeOf(GNamedMap(nil)),
	reflect.TypeOf(GEmb1{}), reflect.TypeOf(GEmb2{}), reflect.TypeOf(GOuter{}), reflect.TypeOf(GTagged{}),
	reflect.TypeOf(time.Time{}), reflect.TypeOf(stdjson.Number("")), reflect.TypeOf(stdjson.RawMessage(nil)),
	reflect.TypeOf(GRawM{}), reflect.TypeOf(GRawT{}),
}

var genScalars = []reflect.Type{
	reflect.TypeOf(false), reflect.TypeOf(int(0)), reflect.TypeOf(int8(0)), reflect.TypeOf(int16(0)), reflect.TypeOf(int32(0)),
	reflect.TypeOf(int64(0)), reflect.TypeOf(uint(0)), reflect.TypeOf(uint8(0)), reflect.TypeOf(uint16(0)), reflect.TypeOf(uint32(0)),
	reflect.TypeOf(uint64(0)), reflect.TypeOf(uintptr(0)), reflect.TypeOf(float32(0)), reflect.TypeOf(float64(0)), reflect.TypeOf(""),
	reflect.TypeOf([]byte(nil)),
}

// the first genPlainKeys entries are the key types that round-trip (strings and every integer kind)
var genKeyTypes = []reflect.Type{
	reflect.TypeOf(""), reflect.TypeOf(int(0)), reflect.TypeOf(int8(0)), reflect.TypeOf(int16(0)), reflect.TypeOf(int32(0)),
	reflect.TypeOf(int64(0)), reflect.TypeOf(uint(0)), reflect.TypeOf(uint8(0)), reflect.TypeOf(uint16(0)), reflect.TypeOf(uint32(0)),
	reflect.TypeOf(uint64(0)), reflect.TypeOf(uintptr(0)), reflect.TypeOf(GNamedString("")), reflect.TypeOf(GNamedInt(0)),
	reflect.TypeOf(GKey("")), reflect.TypeOf(GTV{}),
}

const genPlainKeys = 14

var genIface = reflect.TypeOf((*interface{})(nil)).Elem()

type Gen struct {
	R *rand.Rand
	// NoLossy restricts to round-trippable types (C04): no marshalers, no interface{}, no '-' fields,
	// no omitempty/string games that lose information
	NoLossy bool
	nstruct int
}

func (g *Gen) Type(depth int) reflect.Type {
	r := g.R
	if depth <= 0 {
		if r.Intn(5) == 0 && !g.NoLossy {
			return genDeclared[r.Intn(len(genDeclared))]
		}
		return genScalars[r.Intn(len(genScalars))]
	}
	switch r.Intn(12) {
	case 0, 1:
		return genScalars[r.Intn(len(genScalars))]
	case 2:
		if g.NoLossy {
			return genScalars[r.Intn(len(genScalars))]
		}
		return genDeclared[r.Intn(len(genDeclared))]
	case 3:
		return reflect.PtrTo(g.Type(depth - 1))
	case 4:
		return reflect.SliceOf(g.Type(depth - 1))
	case 5:
		return reflect.ArrayOf(r.Intn(4), g.Type(depth-1))
	case 6:
		k := genKeyTypes[r.Intn(len(genKeyTypes))]
		if g.NoLossy {
			k = genKeyTypes[r.Intn(genPlainKeys)]
		}
		return reflect.MapOf(k, g.Type(depth-1))
	case 7:
		if g.NoLossy {
			return reflect.SliceOf(g.Type(depth - 1))
		}
		return genIface
	default:
		return g.Struct(depth)
	}
}

var genFieldNames = []string{"A", "B", "C", "Dd", "E_e", "F1", "G", "H", "Ab", "AB"}
var genTagNames = []string{"", "", "", "x", "a", "A", "ab", "é", "a-b", "<k>", "y z"}

func (g *Gen) Struct(depth int) reflect.Type {
	r := g.R
	n := r.Intn(6)
	var fields []reflect.StructField
	used := map[string]bool{}
	for i := 0; i < n; i++ {
		name := genFieldNames[r.Intn(len(genFieldNames))]
		if used[name] {
			continue
		}
		used[name] = true
		ft := g.Type(depth - 1)
		var opts []string
		tn := genTagNames[r.Intn(len(genTagNames))]
		if !g.NoLossy {
			if r.Intn(3) == 0 {
				opts = append(opts, "omitempty")
			}
			if r.Intn(6) == 0 {
				opts = append(opts, "string")
			}
			if r.Intn(15) == 0 {
				tn = "-"
			}
		}
		tag := ""
		if tn != "" || len(opts) > 0 {
			tag = `json:"` + tn
			for _, o := range opts {
				tag += "," + o
			}
			tag += `"`
		}
		f := reflect.StructField{Name: name, Type: ft, Tag: reflect.StructTag(tag)}
		if !g.NoLossy && r.Intn(10) == 0 {
			// embedded declared struct (reflect.StructOf supports embedding types without methods)
			et := []reflect.Type{reflect.TypeOf(GEmb1{}), reflect.TypeOf(GEmb2{})}[r.Intn(2)]
			if !used[et.Name()] {
				used[et.Name()] = true
				f = reflect.StructField{Name: et.Name(), Type: et, Anonymous: true}
				if r.Intn(3) == 0 {
					f.Type = reflect.PtrTo(et)
				}
			}
		}
		fields = append(fields, f)
	}
	if r.Intn(8) == 0 {
		// a wide struct: 9..16 names select the 16-bit key matcher of the decoder, more than 16 its map
		// fallback; the encoder's program for it outgrows the small-struct paths
		w := 9 + r.Intn(12) - len(fields)
		simple := []reflect.Type{reflect.TypeOf(0), reflect.TypeOf(""), reflect.TypeOf(false), reflect.TypeOf(int8(0)), reflect.TypeOf([]int(nil))}
		for i := 0; i < w; i++ {
			name := genWideNames[i%len(genWideNames)]
			if used[name] {
				continue
			}
			used[name] = true
			fields = append(fields, reflect.StructField{Name: name, Type: simple[r.Intn(len(simple))]})
		}
	}
	return reflect.StructOf(fields)
}

var genWideNames = []string{"Alpha", "Bravo", "Charlie", "Delta", "Echo", "Foxtrot", "Golf", "Hotel", "India", "Juliett", "Kilo", "Lima", "Mike", "November", "Oscar", "Papa", "Quebec", "Romeo", "Sierra", "Tango"}

var genStrings = []string{"", "a", "hello world", "\"q\"", "back\\slash", "tab\there", "nl\n", "<html>&amp;", "é", "日本語", "  ", "\x00\x01\x1f", "\x7f", "😀", "a/b", "\b\f", "1", "true", "null", " ", strings.Repeat("x", 70)}
var genBadStrings = []string{"\xff", "a\xc3", "\xed\xa0\x80", "\xf4\x90\x80\x80", "ok\x80ok",
	// ill-formed bytes at every offset around the encoder's 8-byte scanning window
	"abcdefgh\xff", "abcdefg\xff", "abcdefghij\xe2\x80", "0123456789abcdef\x80", "0123456789abcde\xc3", "abcdefghijklmnopq\xf0\x9f",
	"\xffabcdefgh", "abcdefghi\xed\xa0\x80jk", "abcdefgh\xe2\x80\xa8", "abcdefgh\u2028"}

func (g *Gen) Int(bits int) int64 {
	r := g.R
	lim := int64(1)<<(uint(bits)-1) - 1
	switch r.Intn(8) {
	case 0:
		return 0
	case 1:
		return lim
	case 2:
		return -lim - 1
	case 3:
		return int64(r.Intn(21)) - 10
	case 4:
		return lim - int64(r.Intn(3))
	default:
		v := r.Int63()
		if bits < 64 {
			v = v % (lim + 1)
		}
		if r.Intn(2) == 0 {
			v = -v
		}
		return v
	}
}

func (g *Gen) Uint(bits int) uint64 {
	r := g.R
	lim := ^uint64(0)
	if bits < 64 {
		lim = uint64(1)<<uint(bits) - 1
	}
	switch r.Intn(6) {
	case 0:
		return 0
	case 1:
		return lim
	case 2:
		return uint64(r.Intn(11))
	default:
		return r.Uint64() & lim
	}
}

var genFloats = []float64{0, math.Copysign(0, -1), 1, -1, 0.1, 1e21, 1e20, 1e-6, 1e-7, 123456789.125, 5e-324, math.MaxFloat64, -math.MaxFloat64, 1.7976931348623157e308, 2.2250738585072014e-308, 100, 1e6, 3.4028234663852886e38, 1.401298464324817e-45, 0.000001, 0.0000001, 1234567.0, 12345678.0, 1e22, 123456789012345678}

func (g *Gen) Float(bits int, finite bool) float64 {
	r := g.R
	if !finite && r.Intn(12) == 0 {
		return []float64{math.NaN(), math.Inf(1), math.Inf(-1)}[r.Intn(3)]
	}
	var f float64
	switch r.Intn(4) {
	case 0:
		f = genFloats[r.Intn(len(genFloats))]
	case 1:
		f = float64(r.Intn(2000)-1000) / 8
	case 2:
		f = math.Float64frombits(r.Uint64())
		if math.IsNaN(f) || math.IsInf(f, 0) {
			f = 1.5
		}
	default:
		f = r.NormFloat64() * math.Pow(10, float64(r.Intn(40)-20))
	}
	if bits == 32 {
		f32 := float32(f)
		if math.IsInf(float64(f32), 0) {
			f32 = math.MaxFloat32
		}
		return float64(f32)
	}
	return f
}

func (g *Gen) String(valid bool) string {
	r := g.R
	if !valid && r.Intn(8) == 0 {
		return genBadStrings[r.Intn(len(genBadStrings))]
	}
	if r.Intn(4) == 0 {
		n := r.Intn(12)
		var sb strings.Builder
		for i := 0; i < n; i++ {
			sb.WriteString(genStrings[r.Intn(len(genStrings)-1)])
		}
		return sb.String()
	}
	return genStrings[r.Intn(len(genStrings))]
}

type GenOpt struct {
	Finite    bool // only finite floats
	ValidUTF8 bool // only valid UTF-8 strings
	ValidNum  bool // only well-formed json.Number / RawMessage
	NoNil     bool
}

var genNumbers = []string{"0", "-1", "1.5", "1e10", "123456789012345678901234567890", "-0", "0.1e-2", "1E+2"}
var genBadNumbers = []string{"", "abc", "1.", "01", "+1", "1e", "--1", "0x10", " 1", "1 ", "NaN", "1,2", "\"1\""}
var genRaws = []string{`null`, `1`, `"s"`, `[1, 2]`, `{"a" : 1}`, ` {"x":[ ]} `, `true`}
var genBadRaws = []string{``, `{`, `[1,]`, `nul`, `{"a":}`, `1 2`, "\"\x01\"", `]`}

// Value fills a new value of type t.
func (g *Gen) Value(t reflect.Type, depth int, o GenOpt) reflect.Value {
	v := reflect.New(t).Elem()
	g.fill(v, depth, o)
	return v
}

func (g *Gen) fill(v reflect.Value, depth int, o GenOpt) {
	r := g.R
	t := v.Type()
	switch t {
	case reflect.TypeOf(time.Time{}):
		ts := []time.Time{{}, time.Unix(0, 0).UTC(), time.Date(2024, 2, 29, 23, 59, 59, 999999999, time.UTC), time.Date(1, 1, 1, 0, 0, 0, 0, time.FixedZone("x", 3600*5+1800)), time.Date(9999, 12, 31, 0, 0, 0, 0, time.UTC)}
		v.Set(reflect.ValueOf(ts[r.Intn(len(ts))]))
		return
	case reflect.TypeOf(stdjson.Number("")):
		if !o.ValidNum && r.Intn(4) == 0 {
			v.SetString(genBadNumbers[r.Intn(len(genBadNumbers))])
		} else {
			v.SetString(genNumbers[r.Intn(len(genNumbers))])
		}
		return
	case reflect.TypeOf(GRawM{}):
		if !o.ValidNum && r.Intn(4) == 0 {
			v.Field(0).SetString(genBadRaws[r.Intn(len(genBadRaws))])
		} else {
			v.Field(0).SetString(genRaws[r.Intn(len(genRaws))])
		}
		return
	case reflect.TypeOf(GRawT{}):
		v.Field(0).SetString(g.String(o.ValidUTF8))
		return
	case reflect.TypeOf(stdjson.RawMessage(nil)):
		if r.Intn(6) == 0 && !o.NoNil {
			return
		}
		if !o.ValidNum && r.Intn(4) == 0 {
			v.SetBytes([]byte(genBadRaws[r.Intn(len(genBadRaws))]))
		} else {
			v.SetBytes([]byte(genRaws[r.Intn(len(genRaws))]))
		}
		return
	}
	switch t.Kind() {
	case reflect.Bool:
		v.SetBool(r.Intn(2) == 0)
	case reflect.Int, reflect.Int8, reflect.Int16, reflect.Int32, reflect.Int64:
		v.SetInt(g.Int(t.Bits()))
	case reflect.Uint, reflect.Uint8, reflect.Uint16, reflect.Uint32, reflect.Uint64, reflect.Uintptr:
		v.SetUint(g.Uint(t.Bits()))
	case reflect.Float32, reflect.Float64:
		v.SetFloat(g.Float(t.Bits(), o.Finite))
	case reflect.String:
		v.SetString(g.String(o.ValidUTF8))
	case reflect.Ptr:
		if (r.Intn(4) == 0 && !o.NoNil) || depth <= 0 {
			return
		}
		p := reflect.New(t.Elem())
		g.fill(p.Elem(), depth-1, o)
		v.Set(p)
	case reflect.Slice:
		if r.Intn(5) == 0 && !o.NoNil {
			return
		}
		n := r.Intn(4)
		if depth <= 0 {
			n = 0
		}
		if t.Elem().Kind() == reflect.Uint8 {
			n = []int{0, 1, 2, 3, 4, 5, 17}[r.Intn(7)]
		}
		s := reflect.MakeSlice(t, n, n+r.Intn(3))
		for i := 0; i < n; i++ {
			g.fill(s.Index(i), depth-1, o)
		}
		v.Set(s)
	case reflect.Array:
		for i := 0; i < t.Len(); i++ {
			g.fill(v.Index(i), depth-1, o)
		}
	case reflect.Map:
		if r.Intn(5) == 0 && !o.NoNil {
			return
		}
		n := r.Intn(4)
		if depth <= 0 {
			n = 0
		}
		m := reflect.MakeMapWithSize(t, n)
		for i := 0; i < n; i++ {
			k := reflect.New(t.Key()).Elem()
			ko := o
			ko.ValidUTF8 = o.ValidUTF8
			g.fill(k, 1, ko)
			e := reflect.New(t.Elem()).Elem()
			g.fill(e, depth-1, o)
			m.SetMapIndex(k, e)
		}
		v.Set(m)
	case reflect.Interface:
		if r.Intn(5) == 0 && !o.NoNil {
			return
		}
		var it reflect.Type
		if depth <= 0 {
			it = genScalars[r.Intn(len(genScalars))]
		} else {
			it = g.Type(depth - 1)
			for it.Kind() == reflect.Interface {
				it = genScalars[r.Intn(len(genScalars))]
			}
		}
		e := reflect.New(it).Elem()
		g.fill(e, depth-1, o)
		if r.Intn(4) == 0 && e.CanAddr() {
			v.Set(e.Addr())
		} else {
			v.Set(e)
		}
	case reflect.Struct:
		for i := 0; i < t.NumField(); i++ {
			f := v.Field(i)
			if !f.CanSet() {
				continue
			}
			if r.Intn(4) == 0 {
				continue // zero value: exercises omitempty
			}
			g.fill(f, depth-1, o)
		}
	}
}

// TypeString is a stable, readable rendering of a generated type for reports.
func genTypeString(t reflect.Type) string {
	s := t.String()
	if len(s) > 300 {
		s = s[:300] + "…"
	}
	return s
}

// ---- field matrix ----------------------------------------------------------------------------
// The interpreters have one opcode per (field kind, position in the struct, omitempty / string,
// pointer-ness). FieldMatrix enumerates that product systematically: every field kind in every
// position (only field, first, middle, last), with every tag combination, holding each of its
// characteristic values (zero, nil, empty but non-nil, ordinary, extreme).

type matrixKind struct {
	t    reflect.Type
	vals []interface{}
}

func matrixKinds() []matrixKind {
	i7, s7, f7, b7 := 7, "s", 1.5, true
	var nilIface interface{}
	num := stdjson.Number("12")
	emptyNum := stdjson.Number("")
	return []matrixKind{
		{reflect.TypeOf(false), []interface{}{false, true}},
		{reflect.TypeOf(int(0)), []interface{}{0, -5, math.MaxInt64}},
		{reflect.TypeOf(int8(0)), []interface{}{int8(0), int8(-128)}},
		{reflect.TypeOf(int16(0)), []interface{}{int16(0), int16(300)}},
		{reflect.TypeOf(int32(0)), []interface{}{int32(0), int32(-70000)}},
		{reflect.TypeOf(int64(0)), []interface{}{int64(0), int64(math.MinInt64)}},
		{reflect.TypeOf(uint(0)), []interface{}{uint(0), uint(math.MaxUint64)}},
		{reflect.TypeOf(uint8(0)), []interface{}{uint8(0), uint8(255)}},
		{reflect.TypeOf(uint16(0)), []interface{}{uint16(0), uint16(65535)}},
		{reflect.TypeOf(uint32(0)), []interface{}{uint32(0), uint32(1 << 31)}},
		{reflect.TypeOf(uint64(0)), []interface{}{uint64(0), uint64(1 << 63)}},
		{reflect.TypeOf(float32(0)), []interface{}{float32(0), float32(-0.25), float32(1e-7)}},
		{reflect.TypeOf(float64(0)), []interface{}{float64(0), math.Copysign(0, -1), 1e21, 1e-7}},
		{reflect.TypeOf(""), []interface{}{"", "x", "<é\n\"", "12", "true"}},
		{reflect.TypeOf([]byte(nil)), []interface{}{[]byte(nil), []byte{}, []byte("ab")}},
		{reflect.TypeOf([]int(nil)), []interface{}{[]int(nil), []int{}, []int{1, 2}}},
		{reflect.TypeOf([]string(nil)), []interface{}{[]string(nil), []string{}, []string{"a"}}},
		{reflect.TypeOf([2]int{}), []interface{}{[2]int{}, [2]int{1, 2}}},
		{reflect.TypeOf([0]int{}), []interface{}{[0]int{}}},
		{reflect.TypeOf(map[string]int(nil)), []interface{}{map[string]int(nil), map[string]int{}, map[string]int{"k": 1, "a": 2}}},
		{reflect.TypeOf(map[int]string(nil)), []interface{}{map[int]string(nil), map[int]string{}, map[int]string{-1: "m"}}},
		{reflect.TypeOf(map[int8]int(nil)), []interface{}{map[int8]int{-128: 1, 127: 2, 0: 3}}},
		{reflect.TypeOf(map[int16]int(nil)), []interface{}{map[int16]int{-32768: 1, -2: 2, 32767: 3}}},
		{reflect.TypeOf(map[int32]int(nil)), []interface{}{map[int32]int{math.MinInt32: 1, -7: 2, math.MaxInt32: 3}}},
		{reflect.TypeOf(map[int64]int(nil)), []interface{}{map[int64]int{math.MinInt64: 1, -7: 2, math.MaxInt64: 3}}},
		{reflect.TypeOf(map[uint8]int(nil)), []interface{}{map[uint8]int{0: 1, 255: 2}}},
		{reflect.TypeOf(map[uint16]int(nil)), []interface{}{map[uint16]int{0: 1, 65535: 2}}},
		{reflect.TypeOf(map[uint32]int(nil)), []interface{}{map[uint32]int{0: 1, math.MaxUint32: 2}}},
		{reflect.TypeOf(map[uint64]int(nil)), []interface{}{map[uint64]int{0: 1, math.MaxUint64: 2}}},
		{reflect.TypeOf(map[uint]int(nil)), []interface{}{map[uint]int{0: 1, math.MaxUint64: 2}}},
		{reflect.TypeOf(map[uintptr]int(nil)), []interface{}{map[uintptr]int{0: 1, math.MaxUint64: 2}}},
		{reflect.TypeOf(map[GNamedInt]int(nil)), []interface{}{map[GNamedInt]int{-5: 1, 5: 2}}},
		{reflect.TypeOf((*int)(nil)), []interface{}{(*int)(nil), &i7}},
		{reflect.TypeOf((*string)(nil)), []interface{}{(*string)(nil), &s7}},
		{reflect.TypeOf((*float64)(nil)), []interface{}{(*float64)(nil), &f7}},
		{reflect.TypeOf((*bool)(nil)), []interface{}{(*bool)(nil), &b7}},
		{reflect.TypeOf((*GEmb1)(nil)), []interface{}{(*GEmb1)(nil), &GEmb1{P: 1}}},
		{reflect.TypeOf((*[]int)(nil)), []interface{}{(*[]int)(nil), &[]int{}, &[]int{3}}},
		{reflect.TypeOf((*map[string]int)(nil)), []interface{}{(*map[string]int)(nil), &map[string]int{"z": 1}}},
		{genIface, []interface{}{nilIface, 5, "s", []interface{}{}, map[string]interface{}{}, GEmb1{P: 2}, &GEmb1{}, (*int)(nil)}},
		{reflect.TypeOf(GEmb1{}), []interface{}{GEmb1{}, GEmb1{P: 3, Q: "q"}}},
		{reflect.TypeOf(struct{}{}), []interface{}{struct{}{}}},
		{reflect.TypeOf(stdjson.Number("")), []interface{}{emptyNum, num}},
		{reflect.TypeOf(stdjson.RawMessage(nil)), []interface{}{stdjson.RawMessage(nil), stdjson.RawMessage(`{"r": [1]}`)}},
		{reflect.TypeOf(time.Time{}), []interface{}{time.Time{}, time.Unix(1, 5).UTC()}},
		{reflect.TypeOf(GMV{}), []interface{}{GMV{}, GMV{X: 4}}},
		{reflect.TypeOf((*GMV)(nil)), []interface{}{(*GMV)(nil), &GMV{X: 4}}},
		{reflect.TypeOf(GTV{}), []interface{}{GTV{}, GTV{S: "t"}}},
		{reflect.TypeOf((*GTV)(nil)), []interface{}{(*GTV)(nil), &GTV{S: "t"}}},
		{reflect.TypeOf(GNamedString("")), []interface{}{GNamedString(""), GNamedString("n")}},
		{reflect.TypeOf(GNamedSlice(nil)), []interface{}{GNamedSlice(nil), GNamedSlice{}, GNamedSlice{1}}},
	}
}

var matrixTags = []string{"", `json:"f,omitempty"`, `json:"f,string"`, `json:"f,omitempty,string"`, `json:"f"`, `json:"f<&>"`}

// FieldMatrix calls f with every struct value of the matrix (several thousand, deterministic).
func FieldMatrix(f func(t reflect.Type, v reflect.Value)) {
	intT := reflect.TypeOf(0)
	strT := reflect.TypeOf("")
	for _, k := range matrixKinds() {
		for _, tag := range matrixTags {
			for pos := 0; pos < 4; pos++ {
				var fields []reflect.StructField
				target := 0
				switch pos {
				case 0: // only
					fields = []reflect.StructField{{Name: "F", Type: k.t, Tag: reflect.StructTag(tag)}}
				case 1: // first
					fields = []reflect.StructField{{Name: "F", Type: k.t, Tag: reflect.StructTag(tag)}, {Name: "Z", Type: intT}}
				case 2: // middle
					fields = []reflect.StructField{{Name: "A", Type: strT}, {Name: "F", Type: k.t, Tag: reflect.StructTag(tag)}, {Name: "Z", Type: intT}}
					target = 1
				default: // last
					fields = []reflect.StructField{{Name: "A", Type: strT}, {Name: "F", Type: k.t, Tag: reflect.StructTag(tag)}}
					target = 1
				}
				t := reflect.StructOf(fields)
				for _, val := range k.vals {
					v := reflect.New(t).Elem()
					if val != nil {
						v.Field(target).Set(reflect.ValueOf(val))
					}
					f(t, v)
				}
			}
		}
	}
}
