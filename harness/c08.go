package main

import (
	"bytes"
	"context"
	stdjson "encoding/json"
	"fmt"
	"math/rand"
	"reflect"
	"runtime"
	"strings"

	json "github.com/goccy/go-json"
)

func init() { props["C08"] = runC08 }

// callbacks that allocate, collect garbage and grow the stack while the interpreter is in the
// middle of a traversal

var c08Sink [][]uintptr
var c08Calls int

func c08Churn(n int) {
	if n < 0 {
		n = -n
	}
	// deep recursion: the goroutine stack is moved
	var grow func(d int) int
	grow = func(d int) int {
		var pad [64]int
		pad[d%64] = d
		if d == 0 {
			return pad[0]
		}
		return grow(d-1) + pad[(d+1)%64]
	}
	_ = grow(300 + (n%7)*300)
	c08Calls++
	if n%16 == 0 && (c08Calls < 400 || c08Calls%64 == 0) {
		// (every call of a short traversal, one in 64 of a long one: a collection takes milliseconds)
		runtime.GC()
	}
	// overwrite whatever the collection freed
	c08Sink = c08Sink[:0]
	for i := 0; i < 32; i++ {
		s := make([]uintptr, 1+(i*7+n)%40)
		for j := range s {
			s[j] = ^uintptr(0) - 0xff
		}
		c08Sink = append(c08Sink, s)
	}
}

type C08GC struct{ N int }

func (g C08GC) MarshalJSON() ([]byte, error) {
	c08Churn(g.N)
	return []byte(fmt.Sprintf(`{"gc":%d}`, g.N)), nil
}

type C08Text struct{ N int }

func (g C08Text) MarshalText() ([]byte, error) {
	c08Churn(g.N)
	return []byte(fmt.Sprintf("t<%d>", g.N)), nil
}

// hand-written recursive shapes beside the generated family
type C08MutA struct {
	X int
	B *C08MutB
	L []C08MutA
	E interface{}
}
type C08MutB struct {
	A *C08MutA
	M map[string]C08MutB
	Y string
	G C08GC
}
type C08Tri1 struct {
	N *C08Tri2
	V int8
}
type C08Tri2 struct {
	V []int
	N []C08Tri3
}
type C08Tri3 struct {
	N map[string]*C08Tri1
	V interface{}
	T C08Text
}
type C08Tree struct {
	L, R *C08Tree
	V    interface{}
	Kids []C08Tree
	M    map[string]interface{}
}
type C08Outer struct {
	Pad  [3]int
	X    [2]C08PI8
	S    []C08Tree
	M    map[string]C08MutA
	E    interface{}
	T    *C08Tri1
	Tail [2]string
}
type C08Wide struct {
	A, B, C, D int
	M          map[string]interface{}
	Self       *C08Wide
}

// recursive types that are not structs
type C08RS []C08RS
type C08RM map[string]C08RM
type C08RP *C08RP
type C08RSP []*C08RSP
type C08RMS map[string][]C08RMS
type C08RSM []map[string]C08RSM
type C08RA [2][]C08RA
type C08RPM map[string]*C08RPM
type C08RSPM []*map[string]C08RSPM
type C08RMPP map[string]**C08RMPP
type C08RIM map[int][]*C08RIM
type C08RT struct {
	F C08RS
	G C08RM
	H map[string]C08RS
	P *C08RM
	Q []C08RM
	R *C08RS
	U [2]C08RS
	E interface{}
}

// pointer types that contain only themselves are not supported (finding C08-recursive-nonstruct-type)
var c08NonStruct = []struct {
	name string
	v    interface{}
}{
	{"type P *P (nil)", C08RP(nil)},
	{"struct{ F P } with type P *P", struct{ F C08RP }{nil}},
}

// ---- lifetime: the value is referenced by nothing but the argument of the call; a callback collects
// garbage and re-uses freed blocks of the value's size class

type C08LHook struct{}

type C08LRec struct {
	M    map[string]*C08LHook // first member: a non-empty map (or, below, an interface / a slice)
	A, B string
	C    *C08LIn
	Pad  [5]uintptr
}
type C08LIn struct{ X, Y string }
type C08LRecI struct {
	I    interface{}
	A, B string
	C    *C08LIn
	Pad  [5]uintptr
}
type C08LRecS struct {
	S    []*C08LHook
	A, B string
	C    *C08LIn
	Pad  [5]uintptr
}

var c08LSink []interface{}
var c08LTheHook C08LHook

func (*C08LHook) MarshalJSON() ([]byte, error) {
	runtime.GC()
	runtime.GC()
	for i := 0; i < 20000; i++ {
		c08LSink = append(c08LSink, &C08LRec{A: "CLOBBERED", B: "CLOBBERED", C: &C08LIn{"CLOBBERED", "CLOBBERED"}},
			&C08LRecI{A: "CLOBBERED", B: "CLOBBERED"}, &C08LRecS{A: "CLOBBERED", B: "CLOBBERED"}, &C08LIn{"CLOBBERED", "CLOBBERED"})
	}
	return []byte(`"hook"`), nil
}

//go:noinline
func c08LFresh(kind int) interface{} {
	in := &C08LIn{X: "original-x", Y: "original-y"}
	switch kind {
	case 0:
		return &C08LRec{M: map[string]*C08LHook{"k": &c08LTheHook}, A: "original-a", B: "original-b", C: in}
	case 1:
		return &C08LRecI{I: &c08LTheHook, A: "original-a", B: "original-b", C: in}
	case 2:
		return &C08LRecS{S: []*C08LHook{&c08LTheHook}, A: "original-a", B: "original-b", C: in}
	case 3:
		return []interface{}{&c08LTheHook, &C08LRec{A: "original-a", B: "original-b", C: in}}
	default:
		return map[string]interface{}{"a": &c08LTheHook, "z": &C08LRecI{A: "original-a", B: "original-b", C: in}}
	}
}

var c08LWant = []string{
	`{"M":{"k":"hook"},"A":"original-a","B":"original-b","C":{"X":"original-x","Y":"original-y"},"Pad":[0,0,0,0,0]}`,
	`{"I":"hook","A":"original-a","B":"original-b","C":{"X":"original-x","Y":"original-y"},"Pad":[0,0,0,0,0]}`,
	`{"S":["hook"],"A":"original-a","B":"original-b","C":{"X":"original-x","Y":"original-y"},"Pad":[0,0,0,0,0]}`,
	`["hook",{"M":null,"A":"original-a","B":"original-b","C":{"X":"original-x","Y":"original-y"},"Pad":[0,0,0,0,0]}]`,
	`{"a":"hook","z":{"I":null,"A":"original-a","B":"original-b","C":{"X":"original-x","Y":"original-y"},"Pad":[0,0,0,0,0]}}`,
}

// c08Lifetime: every entry point keeps the value alive while it traverses it
func c08Lifetime(c *Ctx, kind, ep int) {
	names := []string{"Marshal", "MarshalWithOption(UnorderedMap)", "MarshalContext", "Encoder", "MarshalIndent", "MarshalNoEscape", "Encoder+indent", "Colorize"}
	for round := 0; round < 6; round++ {
		c08LSink = nil
		var g []byte
		var err error
		var pan string
		switch ep {
		case 0:
			g, err, pan = safeMarshal(func() ([]byte, error) { return json.Marshal(c08LFresh(kind)) })
		case 1:
			g, err, pan = safeMarshal(func() ([]byte, error) { return json.MarshalWithOption(c08LFresh(kind), json.UnorderedMap()) })
		case 2:
			g, err, pan = safeMarshal(func() ([]byte, error) { return json.MarshalContext(context.Background(), c08LFresh(kind)) })
		case 3:
			g, err, pan = safeMarshal(func() ([]byte, error) {
				var b bytes.Buffer
				e := json.NewEncoder(&b).Encode(c08LFresh(kind))
				return bytes.TrimSuffix(b.Bytes(), []byte("\n")), e
			})
		case 4:
			g, err, pan = safeMarshal(func() ([]byte, error) { return json.MarshalIndent(c08LFresh(kind), "", " ") })
		case 5:
			g, err, pan = safeMarshal(func() ([]byte, error) { return json.MarshalNoEscape(c08LFresh(kind)) })
		case 6:
			g, err, pan = safeMarshal(func() ([]byte, error) {
				var b bytes.Buffer
				enc := json.NewEncoder(&b)
				enc.SetIndent("", " ")
				e := enc.Encode(c08LFresh(kind))
				return bytes.TrimSuffix(b.Bytes(), []byte("\n")), e
			})
		default:
			g, err, pan = safeMarshal(func() ([]byte, error) { return json.MarshalWithOption(c08LFresh(kind), json.Colorize(c13Scheme)) })
			g = c13Strip.ReplaceAll(g, nil)
		}
		var cmp bytes.Buffer
		got := string(g)
		if stdjson.Compact(&cmp, g) == nil {
			got = cmp.String()
		}
		ok := pan == "" && err == nil && got == c08LWant[kind]
		if ep == 1 && kind == 4 && pan == "" && err == nil {
			// member order is free
			other := `{"z":` + c08LWant[kind][len(`{"a":"hook","z":`):len(c08LWant[kind])-1] + `,"a":"hook"}`
			ok = got == c08LWant[kind] || got == other
		}
		c.Oracle("value-stays-alive/"+names[ep], fmt.Sprintf("a fresh value of kind %d referenced only by the call, callback collects garbage (round %d)", kind, round),
			fmt.Sprintf("%s err=%s panic=%s", trunc([]byte(got)), errT(err), pan), c08LWant[kind], ok, "")
		if !ok {
			return
		}
	}
}

// c08WideType: struct{ F000 .. F(n-1) int; tail... }
func c08WideType(n int, tail ...reflect.StructField) reflect.Type {
	fields := make([]reflect.StructField, 0, n+len(tail))
	for i := 0; i < n; i++ {
		fields = append(fields, reflect.StructField{Name: fmt.Sprintf("F%03d", i), Type: reflect.TypeOf(0)})
	}
	return reflect.StructOf(append(fields, tail...))
}

type C08SInner struct {
	I interface{}
	X int
	Y string
}

// c08SlotArray: the pooled slot array after a call that grew it by appending (nested program) and a
// following program that is wider than what the array's length says: interface and recursive members
// late in a wide struct, checked against encoding/json with the slot assertions on
func c08SlotArray(c *Ctx, k int) {
	ifaceT := reflect.TypeOf((*interface{})(nil)).Elem()
	w1 := []int{60, 100, 30, 120, 61, 90}[k%6]
	w2 := []int{150, 200, 130, 250, 180, 140}[k%6]
	warmT := c08WideType(w1, reflect.StructField{Name: "I", Type: ifaceT})
	warm := reflect.New(warmT).Elem()
	warm.FieldByName("I").Set(reflect.New(warmT).Elem())
	targetT := c08WideType(w2,
		reflect.StructField{Name: "S", Type: reflect.TypeOf(C08SInner{})},
		reflect.StructField{Name: "L", Type: reflect.TypeOf([]interface{}(nil))},
		reflect.StructField{Name: "R", Type: reflect.TypeOf((*C08MutA)(nil))},
		reflect.StructField{Name: "Z", Type: reflect.TypeOf(0)})
	target := reflect.New(targetT).Elem()
	target.FieldByName("S").Set(reflect.ValueOf(C08SInner{I: 1, X: 2, Y: "y"}))
	target.FieldByName("L").Set(reflect.ValueOf([]interface{}{1, "two", 3.5, nil, C08SInner{I: "in"}}))
	target.FieldByName("Z").SetInt(9)
	want, _ := stdjson.Marshal(target.Interface())
	wantI, _ := stdjson.MarshalIndent(target.Interface(), "", " ")
	for round := 0; round < 4; round++ {
		runtime.GC()
		runtime.GC()
		for ei, f := range []func(v interface{}) ([]byte, error){
			func(v interface{}) ([]byte, error) { return json.Marshal(v) },
			func(v interface{}) ([]byte, error) { return json.MarshalIndent(v, "", " ") },
			func(v interface{}) ([]byte, error) {
				b, err := json.MarshalWithOption(v, json.Colorize(c13Scheme))
				return c13Strip.ReplaceAll(b, nil), err
			},
		} {
			_, _, _ = safeMarshal(func() ([]byte, error) { return f(warm.Interface()) })
			json.VerifSlotsReset(true)
			got, err, pan := safeMarshal(func() ([]byte, error) { return f(target.Interface()) })
			errs, _, _, _, _ := json.VerifSlotsReport()
			json.VerifSlotsReset(false)
			w := want
			if ei == 1 {
				w = wantI
			}
			ok := pan == "" && err == nil && bytes.Equal(got, w) && len(errs) == 0
			c.Oracle(fmt.Sprintf("slot-array-after-growth/vm%d", ei), fmt.Sprintf("case %d round %d: %d ints + interface holding the same type, then %d ints + struct with interface + []interface{} + recursive pointer", k, round, w1, w2),
				fmt.Sprintf("%s err=%s panic=%s slots=%s", trunc(got), errT(err), pan, strings.Join(errs, "; ")), trunc(w), ok, "")
		}
	}
}

// c08ListTypes: builders of deep and cyclic values of the recursive slice / map / array types
var c08ListTypes = []struct {
	name string
	deep func(d int) interface{}
	cyc  func() interface{}
}{
	{"type S []S", func(d int) interface{} {
		var v C08RS
		for i := 0; i < d; i++ {
			v = C08RS{v, nil}
		}
		return v
	}, func() interface{} { c := C08RS{nil}; c[0] = c; return c }},
	{"type M map[string]M", func(d int) interface{} {
		var v C08RM
		for i := 0; i < d; i++ {
			v = C08RM{"k": v, "e": C08RM{}}
		}
		return v
	}, func() interface{} { c := C08RM{}; c["a"] = c; return c }},
	{"type SP []*SP", func(d int) interface{} {
		v := C08RSP{nil}
		for i := 0; i < d; i++ {
			in := v
			v = C08RSP{&in, nil}
		}
		return v
	}, func() interface{} { c := C08RSP{nil}; c[0] = &c; return c }},
	{"type MS map[string][]MS", func(d int) interface{} {
		var v C08RMS
		for i := 0; i < d; i++ {
			v = C08RMS{"k": {v, nil}}
		}
		return v
	}, func() interface{} { c := C08RMS{}; c["a"] = []C08RMS{c}; return c }},
	{"type SM []map[string]SM", func(d int) interface{} {
		var v C08RSM
		for i := 0; i < d; i++ {
			v = C08RSM{{"k": v}, nil}
		}
		return v
	}, func() interface{} { c := C08RSM{nil}; c[0] = map[string]C08RSM{"a": c}; return c }},
	{"type A [2][]A", func(d int) interface{} {
		var v C08RA
		for i := 0; i < d; i++ {
			v = C08RA{[]C08RA{v}, nil}
		}
		return &v
	}, func() interface{} { c := &C08RA{}; c[0] = []C08RA{{}}; c[0][0][1] = c[0]; return c }},
	{"type PM map[string]*PM", func(d int) interface{} {
		v := C08RPM{"n": nil}
		for i := 0; i < d; i++ {
			in := v
			v = C08RPM{"k": &in, "e": &C08RPM{}, "n": nil}
		}
		return v
	}, func() interface{} { c := C08RPM{}; c["a"] = &c; return c }},
	{"type SPM []*map[string]SPM", func(d int) interface{} {
		v := C08RSPM{nil}
		for i := 0; i < d; i++ {
			m := map[string]C08RSPM{"k": v, "e": {}}
			v = C08RSPM{&m, nil}
		}
		return v
	}, func() interface{} { c := C08RSPM{nil}; m := map[string]C08RSPM{"a": c}; c[0] = &m; return c }},
	{"type MPP map[string]**MPP", func(d int) interface{} {
		v := C08RMPP{"n": nil}
		for i := 0; i < d; i++ {
			in := v
			pin := &in
			v = C08RMPP{"k": &pin, "n": nil}
		}
		return v
	}, func() interface{} { c := C08RMPP{}; pc := &c; c["a"] = &pc; return c }},
	{"type IM map[int][]*IM", func(d int) interface{} {
		v := C08RIM{0: nil}
		for i := 0; i < d; i++ {
			in := v
			v = C08RIM{1: {&in, nil}, 2: {}}
		}
		return v
	}, func() interface{} { c := C08RIM{}; c[1] = []*C08RIM{&c}; return c }},
	{"struct with fields of recursive slice / map types", func(d int) interface{} {
		var sv C08RS
		var mv C08RM
		for i := 0; i < d; i++ {
			sv = C08RS{sv}
			mv = C08RM{"k": mv}
		}
		return &C08RT{F: sv, G: mv, H: map[string]C08RS{"h": sv}, P: &mv, Q: []C08RM{mv, nil}, R: &sv, U: [2]C08RS{sv, nil}, E: []interface{}{sv, mv}}
	}, func() interface{} { c := C08RS{nil}; c[0] = c; return &C08RT{H: map[string]C08RS{"h": c}} }},
}

var c08Hand = []reflect.Type{
	reflect.TypeOf(C08MutA{}), reflect.TypeOf(C08MutB{}), reflect.TypeOf(C08Tri1{}), reflect.TypeOf(C08Tri2{}),
	reflect.TypeOf(C08Tri3{}), reflect.TypeOf(C08Tree{}), reflect.TypeOf(C08Outer{}), reflect.TypeOf(C08Wide{}),
	reflect.TypeOf(C08RS{}), reflect.TypeOf(C08RM{}), reflect.TypeOf(C08RSP{}), reflect.TypeOf(C08RMS{}), reflect.TypeOf(C08RSM{}),
	reflect.TypeOf(C08RA{}), reflect.TypeOf(C08RT{}),
	reflect.TypeOf(C08RPM{}), reflect.TypeOf(C08RSPM{}), reflect.TypeOf(C08RMPP{}), reflect.TypeOf(C08RIM{}),
}

func c08Types() []reflect.Type { return append(append([]reflect.Type{}, c08GenTypes...), c08Hand...) }

// c08Fill fills v with a random acyclic value; depth bounds the nesting of containers and pointers
func c08Fill(rng *rand.Rand, v reflect.Value, depth int, types []reflect.Type) {
	t := v.Type()
	switch t.Kind() {
	case reflect.Bool:
		v.SetBool(rng.Intn(2) == 0)
	case reflect.Int, reflect.Int8, reflect.Int16, reflect.Int32, reflect.Int64:
		v.SetInt(int64(rng.Intn(200) - 100))
	case reflect.Uint, reflect.Uint8, reflect.Uint16, reflect.Uint32, reflect.Uint64:
		v.SetUint(uint64(rng.Intn(200)))
	case reflect.Float32, reflect.Float64:
		v.SetFloat(float64(rng.Intn(1000)) / 8)
	case reflect.String:
		v.SetString([]string{"", "a", "héllo", "<x&y>", "q\"\\\n"}[rng.Intn(5)])
	case reflect.Ptr:
		if depth <= 0 || rng.Intn(4) == 0 {
			return
		}
		p := reflect.New(t.Elem())
		c08Fill(rng, p.Elem(), depth-1, types)
		v.Set(p)
	case reflect.Slice:
		if rng.Intn(5) == 0 {
			return
		}
		n := 0
		if depth > 0 {
			n = rng.Intn(3)
		}
		s := reflect.MakeSlice(t, n, n)
		for i := 0; i < n; i++ {
			c08Fill(rng, s.Index(i), depth-1, types)
		}
		v.Set(s)
	case reflect.Array:
		for i := 0; i < v.Len(); i++ {
			c08Fill(rng, v.Index(i), depth-1, types)
		}
	case reflect.Map:
		if rng.Intn(5) == 0 {
			return
		}
		m := reflect.MakeMap(t)
		n := 0
		if depth > 0 {
			n = rng.Intn(3)
		}
		for i := 0; i < n; i++ {
			e := reflect.New(t.Elem()).Elem()
			c08Fill(rng, e, depth-1, types)
			key := reflect.ValueOf([]string{"k", "a", "zz"}[i])
			if t.Key().Kind() != reflect.String {
				key = reflect.ValueOf(i + 1) // integer keys
			}
			m.SetMapIndex(key.Convert(t.Key()), e)
		}
		v.Set(m)
	case reflect.Interface:
		if t.NumMethod() != 0 {
			return
		}
		switch k := rng.Intn(9); {
		case k == 0 || depth <= 0 && k > 3:
		case k == 1:
			v.Set(reflect.ValueOf(rng.Intn(100)))
		case k == 2:
			v.Set(reflect.ValueOf("s"))
		case k == 3:
			v.Set(reflect.ValueOf(C08GC{rng.Intn(50)}))
		case k == 4:
			var s []interface{}
			sv := reflect.ValueOf(&s).Elem()
			c08Fill(rng, sv, depth, types)
			v.Set(sv)
		case k == 5:
			var m map[string]interface{}
			mv := reflect.ValueOf(&m).Elem()
			c08Fill(rng, mv, depth, types)
			v.Set(mv)
		default:
			// a value of one of the recursive types, by value or behind a pointer
			rt := types[rng.Intn(len(types))]
			p := reflect.New(rt)
			c08Fill(rng, p.Elem(), depth-1, types)
			if k%2 == 0 {
				v.Set(p)
			} else {
				v.Set(p.Elem())
			}
		}
	case reflect.Struct:
		for i := 0; i < t.NumField(); i++ {
			if t.Field(i).PkgPath == "" {
				c08Fill(rng, v.Field(i), depth, types)
			}
		}
	}
}

// c08Wrap stores inner (a T) in a value of field type ft that mentions T
func c08Wrap(ft reflect.Type, inner reflect.Value, alt int) reflect.Value {
	return c08WrapShare(ft, inner, alt, false)
}

// share: where the member has room for two references, both refer to the same node (the value is a
// DAG: the node is encoded twice, from two places)
func c08WrapShare(ft reflect.Type, inner reflect.Value, alt int, share bool) reflect.Value {
	T := inner.Type()
	ptr := func() reflect.Value {
		p := reflect.New(T)
		p.Elem().Set(inner)
		return p
	}
	out := reflect.New(ft).Elem()
	switch ft.Kind() {
	case reflect.Ptr:
		out.Set(ptr())
	case reflect.Slice:
		s := reflect.MakeSlice(ft, 1, 1)
		if ft.Elem().Kind() == reflect.Ptr {
			s.Index(0).Set(ptr())
			if share {
				s = reflect.Append(s, s.Index(0))
			}
		} else {
			s.Index(0).Set(inner)
		}
		out.Set(s)
	case reflect.Map:
		m := reflect.MakeMap(ft)
		if ft.Elem().Kind() == reflect.Ptr {
			p := ptr()
			m.SetMapIndex(reflect.ValueOf("k"), p)
			if share {
				m.SetMapIndex(reflect.ValueOf("again"), p)
			}
		} else {
			m.SetMapIndex(reflect.ValueOf("k"), inner)
		}
		out.Set(m)
	case reflect.Interface:
		if alt%2 == 0 {
			out.Set(ptr())
		} else {
			out.Set(inner)
		}
	case reflect.Array:
		p := ptr()
		out.Index(ft.Len() - 1).Set(p)
		if share {
			out.Index(0).Set(p)
		}
	case reflect.Struct:
		out.Field(0).Set(ptr())
	}
	return out
}

// c08Chain builds a value of family type t nested d levels through its R field
func c08Chain(t reflect.Type, d int) reflect.Value {
	inner := reflect.New(t).Elem()
	inner.Field(0).Set(c08Small(t.Field(0).Type, 0))
	for i := 1; i <= d; i++ {
		outer := reflect.New(t).Elem()
		outer.Field(0).Set(c08Small(t.Field(0).Type, i))
		outer.Field(2).Set(c08Small(t.Field(2).Type, i+1))
		// the two innermost levels are shared (reached twice), the rest is a chain
		outer.Field(1).Set(c08WrapShare(t.Field(1).Type, inner, i, i <= 2))
		inner = outer
	}
	return inner
}

// c08Small: a small non-zero value of a field kind
func c08Small(t reflect.Type, i int) reflect.Value {
	v := reflect.New(t).Elem()
	switch t.Kind() {
	case reflect.Int, reflect.Int8, reflect.Int16, reflect.Int32, reflect.Int64:
		v.SetInt(int64(i%100 + 1))
	case reflect.Uint16:
		v.SetUint(uint64(i%100 + 1))
	case reflect.String:
		v.SetString(fmt.Sprint("s", i%10))
	case reflect.Float64:
		v.SetFloat(float64(i%50) + 0.5)
	case reflect.Bool:
		v.SetBool(i%2 == 0)
	case reflect.Slice:
		s := reflect.MakeSlice(t, 1, 1)
		s.Index(0).Set(c08Small(t.Elem(), i))
		v.Set(s)
	case reflect.Array:
		v.Index(0).Set(c08Small(t.Elem(), i))
	case reflect.Map:
		m := reflect.MakeMap(t)
		if t.Elem().Kind() == reflect.Interface {
			m.SetMapIndex(reflect.ValueOf("n"), reflect.ValueOf(i%7))
		} else {
			m.SetMapIndex(reflect.ValueOf("n"), c08Small(t.Elem(), i))
		}
		v.Set(m)
	case reflect.Interface:
		if i%3 == 0 {
			v.Set(reflect.ValueOf([]interface{}{i % 5, "x"}))
		} else if i%3 == 1 {
			v.Set(reflect.ValueOf(map[string]interface{}{"i": i % 5}))
		}
	case reflect.Ptr:
		p := reflect.New(t.Elem())
		p.Elem().Set(c08Small(t.Elem(), i))
		v.Set(p)
	case reflect.Struct:
		for k := 0; k < t.NumField(); k++ {
			if t.Field(k).PkgPath == "" && t.Field(k).Type.Kind() != reflect.Ptr {
				v.Field(k).Set(c08Small(t.Field(k).Type, i))
			}
		}
	}
	return v
}

// c08Cycle builds a cyclic value of family type t: `pre` levels of chain, then a cycle of `cyc` nodes
func c08Cycle(t reflect.Type, pre, cyc int) reflect.Value {
	ft := t.Field(1).Type
	// nodes that can be addressed: pointers to T
	nodes := make([]reflect.Value, cyc)
	for i := range nodes {
		nodes[i] = reflect.New(t)
		nodes[i].Elem().Field(0).Set(c08Small(t.Field(0).Type, i))
	}
	link := func(from reflect.Value, to reflect.Value) { // from, to: *T
		f := from.Elem().Field(1)
		switch ft.Kind() {
		case reflect.Ptr:
			f.Set(to)
		case reflect.Slice:
			s := reflect.MakeSlice(ft, 1, 1)
			if ft.Elem().Kind() == reflect.Ptr {
				s.Index(0).Set(to)
				f.Set(s)
			} else {
				// by value: the cycle runs through the backing array, closed below
				f.Set(s)
			}
		case reflect.Map:
			m := reflect.MakeMap(ft)
			if ft.Elem().Kind() == reflect.Ptr {
				m.SetMapIndex(reflect.ValueOf("k"), to)
			}
			f.Set(m)
		case reflect.Interface:
			f.Set(to)
		case reflect.Array:
			f.Index(ft.Len() - 1).Set(to)
		case reflect.Struct:
			f.Field(0).Set(to)
		}
	}
	byValue := (ft.Kind() == reflect.Slice || ft.Kind() == reflect.Map) && ft.Elem().Kind() != reflect.Ptr
	var entry reflect.Value
	if byValue {
		// T{R: s} with s[0] = T{R: s}: the container refers to itself through a copy of its owner
		n := reflect.New(t).Elem()
		n.Field(0).Set(c08Small(t.Field(0).Type, 1))
		if ft.Kind() == reflect.Slice {
			s := reflect.MakeSlice(ft, 1, 1)
			n.Field(1).Set(s)
			s.Index(0).Set(n)
		} else {
			m := reflect.MakeMap(ft)
			n.Field(1).Set(m)
			m.SetMapIndex(reflect.ValueOf("k"), n)
		}
		entry = n
	} else {
		for i := range nodes {
			link(nodes[i], nodes[(i+1)%cyc])
		}
		entry = nodes[0].Elem()
	}
	// the chain leading to the cycle
	inner := entry
	for i := 0; i < pre; i++ {
		outer := reflect.New(t).Elem()
		outer.Field(1).Set(c08Wrap(ft, inner, 0))
		if !byValue && i == 0 {
			// keep the identity of the cycle entry: refer to node 0 itself, not to a copy
			link(outer.Addr(), nodes[0])
		}
		inner = outer
	}
	return inner
}

// c08Judge runs every entry point on iv with the slot assertions on
func c08Judge(c *Ctx, label string, iv interface{}, t reflect.Type, full bool) {
	c08Calls = 0
	in := fmt.Sprintf("%s = %s", genTypeString(t), c01Show(iv))
	cls := c01ClassOf(iv, nil, nil, nil, nil)
	if strings.HasPrefix(cls, "C08-") {
		c.Rep.Known[cls]++
		return
	}
	json.VerifSlotsReset(true)
	c01Compare(c, label, iv, t)
	if full {
		c13Variants(c, iv, reflect.TypeOf(iv))
	} else {
		for _, pi := range [][2]string{{"", " "}} {
			ci, cierr, cip := safeMarshal(func() ([]byte, error) {
				return json.MarshalIndentWithOption(iv, pi[0], pi[1], json.Colorize(c13Scheme))
			})
			gi, gierr, _ := safeMarshal(func() ([]byte, error) { return json.MarshalIndent(iv, pi[0], pi[1]) })
			ok := cip == "" && (cierr == nil) == (gierr == nil) && (cierr != nil || bytes.Equal(c13Strip.ReplaceAll(ci, nil), gi))
			colorCls := cls
			if colorCls == "" && c13HasQuotedString(reflect.ValueOf(iv), 0) {
				colorCls = "C13-colorize-string-tag"
			}
			c.Oracle("colorize-indent/"+label, in, fmt.Sprintf("%s err=%s panic=%s", trunc(ci), errT(cierr), cip), trunc(gi), ok, colorCls)
			cc, ccerr, ccp := safeMarshal(func() ([]byte, error) { return json.MarshalWithOption(iv, json.Colorize(c13Scheme)) })
			g, gerr, _ := safeMarshal(func() ([]byte, error) { return json.Marshal(iv) })
			ok = ccp == "" && (ccerr == nil) == (gerr == nil) && (ccerr != nil || bytes.Equal(c13Strip.ReplaceAll(cc, nil), g))
			c.Oracle("colorize/"+label, in, fmt.Sprintf("%s err=%s panic=%s", trunc(cc), errT(ccerr), ccp), trunc(g), ok, colorCls)
		}
	}
	errs, acc, maxSlot, _, frames := json.VerifSlotsReport()
	json.VerifSlotsReset(false)
	c.Rep.Hist["slot-accesses"] += acc
	c.Rep.Hist["frame-switches"] += frames
	if maxSlot >= 128 {
		c.Rep.Hist["slot-array-grown"]++
	}
	c.Oracle("slot-assertions/"+label, in, strings.Join(errs, "; "), "every load/store inside the slot array and in a frame of its own", len(errs) == 0, cls)
}

// c08JudgeDeep: the entry points on a deeply nested value, described by `in` (printing such a value
// is not affordable). Maps are sorted after their members are encoded, which copies the text of every
// level once more: with indentation that is cubic in the depth (60 s for 2000 levels, where
// encoding/json needs one), so indented output of map towers is requested up to `indentMax` levels.
func c08JudgeDeep(c *Ctx, label, in string, iv interface{}, depth int, mapTower bool) {
	c08Calls = 0
	json.VerifSlotsReset(true)
	eq := func(name string, f func() ([]byte, error), sf func() ([]byte, error), tr func([]byte) []byte) {
		g, gerr, gp := safeMarshal(f)
		s, serr := sf()
		if tr != nil && gerr == nil {
			g = tr(g)
		}
		if serr != nil && strings.Contains(serr.Error(), "exceeded max depth") {
			// encoding/json indents through its scanner, which stops at 10000 levels of nesting; the
			// property asks go-json to return, not to share that limit
			c.Rep.Hist["reference-exceeded-its-depth-limit"]++
			c.Oracle(name+"/"+label, in, fmt.Sprintf("err=%s panic=%s", errT(gerr), gp), "returns", gp == "", "")
			return
		}
		ok := gp == "" && (gerr == nil) == (serr == nil) && (gerr != nil || c01Norm(g) == c01Norm(s))
		c.Oracle(name+"/"+label, in, fmt.Sprintf("%s err=%s panic=%s", trunc(g), errT(gerr), gp), fmt.Sprintf("%s err=%v", trunc(s), serr), ok, "")
	}
	std := func() ([]byte, error) { return stdjson.Marshal(iv) }
	eq("marshal", func() ([]byte, error) { return json.Marshal(iv) }, std, nil)
	eq("colorize", func() ([]byte, error) { return json.MarshalWithOption(iv, json.Colorize(c13Scheme)) }, std,
		func(b []byte) []byte { return c13Strip.ReplaceAll(b, nil) })
	eq("encoder", func() ([]byte, error) {
		var b bytes.Buffer
		err := json.NewEncoder(&b).Encode(iv)
		return bytes.TrimSuffix(b.Bytes(), []byte("\n")), err
	}, std, nil)
	{
		// member order is free: same length as the sorted text, and a valid document
		u, uerr, up := safeMarshal(func() ([]byte, error) { return json.MarshalWithOption(iv, json.UnorderedMap()) })
		s, serr := std()
		// (encoding/json's Valid stops at 10000 levels of nesting)
		ok := up == "" && (uerr == nil) == (serr == nil) && (uerr != nil || len(u) == len(s) && (depth > 2400 || stdjson.Valid(u)))
		c.Oracle("unorderedmap/"+label, in, fmt.Sprintf("%s err=%s panic=%s", trunc(u), errT(uerr), up), fmt.Sprintf("%s err=%v", trunc(s), serr), ok, "")
	}
	indentMax := 1 << 30
	if mapTower {
		indentMax = 300
		if c.Thorough() {
			indentMax = 1000
		}
	}
	if depth > 2500 && indentMax > 2500 {
		// the indented text grows with the square of the depth (1.4 GB at 20000 levels, for encoding/json
		// as well): beyond the property's range of depths only the entry points without indentation run
		indentMax = 2500
	}
	if depth <= indentMax {
		stdi := func() ([]byte, error) { return stdjson.MarshalIndent(iv, "", " ") }
		eq("marshalindent", func() ([]byte, error) { return json.MarshalIndent(iv, "", " ") }, stdi, nil)
		eq("colorize-indent", func() ([]byte, error) {
			return json.MarshalIndentWithOption(iv, "", " ", json.Colorize(c13Scheme))
		}, stdi, func(b []byte) []byte { return c13Strip.ReplaceAll(b, nil) })
	} else {
		c.Rep.Hist["indent-skipped-deep"]++
	}
	errs, acc, maxSlot, _, frames := json.VerifSlotsReport()
	json.VerifSlotsReset(false)
	c.Rep.Hist["slot-accesses"] += acc
	c.Rep.Hist["frame-switches"] += frames
	if maxSlot >= 128 {
		c.Rep.Hist["slot-array-grown"]++
	}
	c.Oracle("slot-assertions/"+label, in, strings.Join(errs, "; "), "every load/store inside the slot array and in a frame of its own", len(errs) == 0, "")
}

// c08Frames sends the programs go-json compiled for t to the model
func c08Frames(c *Ctx, t reflect.Type) {
	lines, err := json.VerifDumpPrograms(t)
	if err != nil || len(lines) == 0 {
		return
	}
	var words []string
	codeLen := ""
	recT := map[int]int{}
	nrec := 0
	seenTop, seenIface := false, false
	for _, l := range lines {
		parts := strings.SplitN(l, " :", 2)
		head := strings.Fields(parts[0])
		ops := strings.Fields(parts[1])
		for _, o := range ops {
			f := strings.Split(o, ",")
			if f[0] == "r" && len(f) == 8 {
				var next, tgt int
				fmt.Sscan(f[6], &next)
				fmt.Sscan(f[7], &tgt)
				recT[tgt] = next - 4
			}
		}
		switch head[0] {
		case "top":
			if seenTop {
				continue
			}
			seenTop = true
			codeLen = head[1]
		case "iface":
			if seenIface {
				continue
			}
			seenIface = true
		case "rec":
			nrec++
		}
		words = append(words, head[0]+"/"+strings.Join(ops, ";"))
	}
	var ts []string
	for i := 0; i < nrec; i++ {
		ts = append(ts, fmt.Sprint(recT[i]))
	}
	bucket := "frames:plain"
	if nrec > 0 {
		bucket = "frames:recursive"
	}
	c.Op("frames "+strings.Join(words, " "), fmt.Sprintf("len=%s rec=%s ok", codeLen, strings.Join(ts, ",")), true, bucket)
}

var c08Depths = []int{0, 1, 2, 3, 5, 17, 128, 999, 1000, 1001, 1002, 1003, 1500, 2000}

func runC08(c *Ctx) {
	c.Rep.Rule = "a generated family of declared recursive struct types (18 field kinds before and after 8 kinds of recursive member: *T, []T, []*T, map[string]*T, map[string]T, interface{}, [2]*T, struct{In *T}), mutually recursive pairs and triples, trees, a struct of 140+ fields whose program outgrows the initial slot array, recursive types nested in arrays / slices / maps of an outer struct, plus the generator grammar of C01; values: random acyclic (depth <= 4, interfaces holding further recursive types by value and by pointer), chains nested 0..2000 levels (thorough: ..20000) through every kind of recursive member, []interface{} / map[string]interface{} towers, cycles of length 1..3 through every kind of member reached after 0..3 levels; marshalers that force garbage collections, clobber freed memory and move the stack; every entry point (Marshal, MarshalIndent x2, Encoder, Colorize, coloured+indented, UnorderedMap, NoEscape, Context, DebugWith, behind pointer, inside interface) in crash-isolated worker processes; oracle: no panic / fatal error / time-out, encoding/json's output and error parity, and the slot assertions of the verif build (every load/store of the interpreters inside the slot array and never reading a slot last written from another frame); ops: slot layouts of the compiled programs vs the Lean model of TotalLength / linkRecursiveCode / interface frames with the well-formedness predicate of the safety theorem; cyclic lists vs the model of SeenPtr; non-trivial = every case"
	types := c08Types()
	fam := c08GenTypes[:len(c08GenTypes)-1] // the A/R/B family (without C08Big)

	nrand := 2 * len(types)
	if c.Thorough() {
		nrand = 40 * len(types)
	}
	c.RunCases("rectypes", nrand, func(c *Ctx, k int, rng *rand.Rand) {
		t := types[k%len(types)]
		v := reflect.New(t)
		c08Fill(rng, v.Elem(), 1+rng.Intn(4), types)
		c08Judge(c, "rectypes", v.Interface(), t, k%4 == 0)
		if k%3 == 0 {
			c08Judge(c, "rectypes-value", v.Elem().Interface(), t, false)
		}
	}, func(k int, rng *rand.Rand) string { return "random value of " + types[k%len(types)].String() }, nil)

	depths := c08Depths
	if c.Thorough() {
		depths = append(append([]int{}, c08Depths...), 4, 64, 512, 998, 1004, 1999, 2001, 5000, 20000)
	}
	ndepth := len(fam) * len(depths)
	if c.Thorough() {
		c.CaseBudget = 40 // chains of 5000 and 20000 levels with callbacks that collect garbage take seconds
		c.Chunk = 100
	}
	c.RunCases("depth", ndepth, func(c *Ctx, k int, rng *rand.Rand) {
		t := fam[k%len(fam)]
		d := depths[(k/len(fam))%len(depths)]
		if !c.Thorough() && d > 128 && (int64(k)+int64(k/len(fam))+c.Seed)%3 != 0 {
			return // the quick tier takes a third of the family at the large depths (which third: by seed)
		}
		v := c08Chain(t, d)
		p := reflect.New(t)
		p.Elem().Set(v)
		if d <= 5 {
			c08Judge(c, fmt.Sprintf("depth-%d", d), p.Interface(), t, false)
		} else {
			c08JudgeDeep(c, fmt.Sprintf("depth-%d", d), fmt.Sprintf("%s nested %d levels through R", t, d), p.Interface(), d, t.Field(1).Type.Kind() == reflect.Map)
		}
	}, func(k int, rng *rand.Rand) string {
		return fmt.Sprintf("%s nested %d levels", fam[k%len(fam)], depths[(k/len(fam))%len(depths)])
	}, nil)

	// cycles
	type cyc struct{ pre, n int }
	cycs := []cyc{{0, 1}, {0, 2}, {1, 1}, {3, 3}}
	c.RunCases("cycles", len(fam)*len(cycs), func(c *Ctx, k int, rng *rand.Rand) {
		t := fam[k%len(fam)]
		cy := cycs[(k/len(fam))%len(cycs)]
		v := c08Cycle(t, cy.pre, cy.n)
		p := reflect.New(t)
		p.Elem().Set(v)
		iv := p.Interface()
		in := fmt.Sprintf("%s with a cycle of %d after %d levels", t, cy.n, cy.pre)
		json.VerifSlotsReset(true)
		for name, f := range map[string]func() ([]byte, error){
			"Marshal":       func() ([]byte, error) { return json.Marshal(iv) },
			"MarshalIndent": func() ([]byte, error) { return json.MarshalIndent(iv, "", " ") },
			"Colorize":      func() ([]byte, error) { return json.MarshalWithOption(iv, json.Colorize(c13Scheme)) },
			"ColorizeIndent": func() ([]byte, error) {
				return json.MarshalIndentWithOption(iv, "", " ", json.Colorize(c13Scheme))
			},
			"Encoder": func() ([]byte, error) { var b bytes.Buffer; return nil, json.NewEncoder(&b).Encode(iv) },
		} {
			_, gerr, gp := safeMarshal(f)
			_, serr := stdjson.Marshal(iv)
			ok := gp == "" && gerr != nil && serr != nil
			c.Oracle("cycle-is-error/"+name, in, fmt.Sprintf("err=%s panic=%s", errT(gerr), gp), fmt.Sprintf("err=%v", serr != nil), ok, "")
		}
		errs, _, _, _, _ := json.VerifSlotsReport()
		json.VerifSlotsReset(false)
		c.Oracle("slot-assertions/cycle", in, strings.Join(errs, "; "), "clean", len(errs) == 0, "")
		// and the encoder is usable afterwards
		fresh := c08Chain(t, 2)
		fp := reflect.New(t)
		fp.Elem().Set(fresh)
		c08Judge(c, "after-cycle", fp.Interface(), t, false)
	}, func(k int, rng *rand.Rand) string {
		cy := cycs[(k/len(fam))%len(cycs)]
		return fmt.Sprintf("%s with a cycle of %d after %d levels", fam[k%len(fam)], cy.n, cy.pre)
	}, nil)

	// towers of interface values holding recursive types
	ntower := 60
	if c.Thorough() {
		ntower = 600
	}
	c.RunCases("towers", ntower, func(c *Ctx, k int, rng *rand.Rand) {
		d := []int{1, 5, 100, 999, 1001, 2000}[k%6]
		rt := types[rng.Intn(len(types))]
		leafp := reflect.New(rt)
		c08Fill(rng, leafp.Elem(), 2, types)
		var cur interface{} = leafp.Interface()
		if k%2 == 0 {
			cur = leafp.Elem().Interface()
		}
		if strings.HasPrefix(c01ClassOf(cur, nil, nil, nil, nil), "C08-") {
			cur = 1
		}
		for i := 0; i < d; i++ {
			switch (i + k) % 3 {
			case 0:
				cur = []interface{}{i % 3, cur}
			case 1:
				cur = map[string]interface{}{"a": i % 3, "n": cur}
			default:
				cur = &C08Tree{V: cur}
			}
		}
		if d <= 5 {
			c08Judge(c, fmt.Sprintf("tower-%d", d), cur, reflect.TypeOf(cur), false)
		} else {
			c08JudgeDeep(c, fmt.Sprintf("tower-%d", d), fmt.Sprintf("tower of %d slices / maps / *C08Tree over a %s (case %d)", d, rt, k), cur, d, true)
		}
	}, func(k int, rng *rand.Rand) string { return fmt.Sprint("interface tower case ", k) }, nil)

	// the generator grammar of C01 under the slot assertions
	ngen := 300
	if c.Thorough() {
		ngen = 6000
	}
	c.RunCases("grammar", ngen, func(c *Ctx, k int, rng *rand.Rand) {
		g := &Gen{R: rng}
		t := g.Type(1 + rng.Intn(3))
		v := g.Value(t, 3, GenOpt{Finite: true, ValidUTF8: true, ValidNum: true})
		c08Judge(c, "grammar", v.Interface(), t, false)
	}, func(k int, rng *rand.Rand) string { return fmt.Sprint("grammar case ", k) }, nil)

	// recursive slice / map / array types: deep values and cycles
	ldepths := []int{0, 1, 2, 7, 100, 999, 1001, 2000}
	c.RunCases("listtypes", len(c08ListTypes)*(len(ldepths)+1), func(c *Ctx, k int, rng *rand.Rand) {
		lt := c08ListTypes[k%len(c08ListTypes)]
		di := k / len(c08ListTypes)
		if di < len(ldepths) {
			d := ldepths[di]
			v := lt.deep(d)
			if d <= 7 {
				c08Judge(c, fmt.Sprintf("listtype-depth-%d", d), v, reflect.TypeOf(v), true)
			} else {
				c08JudgeDeep(c, fmt.Sprintf("listtype-depth-%d", d), fmt.Sprintf("%s nested %d levels", lt.name, d), v, d, true)
			}
			return
		}
		v := lt.cyc()
		for name, f := range map[string]func() ([]byte, error){
			"Marshal":       func() ([]byte, error) { return json.Marshal(v) },
			"MarshalIndent": func() ([]byte, error) { return json.MarshalIndent(v, "", " ") },
			"Colorize":      func() ([]byte, error) { return json.MarshalWithOption(v, json.Colorize(c13Scheme)) },
		} {
			_, gerr, gp := safeMarshal(f)
			_, serr := stdjson.Marshal(v)
			c.Oracle("cycle-is-error/"+name, lt.name+" containing itself", fmt.Sprintf("err=%s panic=%s", errT(gerr), gp), fmt.Sprintf("err=%v", serr != nil), gp == "" && gerr != nil && serr != nil, "")
		}
	}, func(k int, rng *rand.Rand) string {
		return "recursive list type case " + c08ListTypes[k%len(c08ListTypes)].name
	}, nil)

	c.Chunk = 4
	c.RunCases("lifetime", 5*8, func(c *Ctx, k int, rng *rand.Rand) { c08Lifetime(c, k%5, k/5) },
		func(k int, rng *rand.Rand) string {
			return fmt.Sprintf("lifetime: value kind %d through entry point %d, referenced only by the call", k%5, k/5)
		}, nil)

	c.Chunk = 2
	c.RunCases("slotarray", 6, func(c *Ctx, k int, rng *rand.Rand) { c08SlotArray(c, k) },
		func(k int, rng *rand.Rand) string {
			return fmt.Sprintf("slot array history %d: a call that makes the pooled slot array grow, then a wider program", k)
		}, nil)

	// pointer types that contain only themselves: the compiler follows them without end
	c.RunCases("nonstruct", len(c08NonStruct), func(c *Ctx, k int, rng *rand.Rand) {
		iv := c08NonStruct[k].v
		g, gerr, gp := safeMarshal(func() ([]byte, error) { return json.Marshal(iv) })
		s, serr := stdjson.Marshal(iv)
		ok := gp == "" && (gerr == nil) == (serr == nil) && (gerr != nil || bytes.Equal(g, s))
		c.Oracle("nonstruct-recursive-type", c08NonStruct[k].name, fmt.Sprintf("%s err=%s panic=%s", trunc(g), errT(gerr), gp), fmt.Sprintf("%s err=%v", trunc(s), serr), ok, "C08-recursive-nonstruct-type")
	}, func(k int, rng *rand.Rand) string { return c08NonStruct[k].name }, func(k int, rng *rand.Rand) string { return "C08-recursive-nonstruct-type" })

	if c.IsWorker() {
		return
	}
	// static: the slot layout of every compiled program against the model
	for _, t := range types {
		c08Frames(c, t)
		c08Frames(c, reflect.PtrTo(t))
		c08Frames(c, reflect.SliceOf(t))
		c08Frames(c, reflect.MapOf(reflect.TypeOf(""), t))
	}
	nframes := 400
	if c.Thorough() {
		nframes = 8000
	}
	for k := 0; k < nframes; k++ {
		g := &Gen{R: caseRng(c.Seed, "frames", k)}
		c08Frames(c, g.Type(1+k%4))
	}
	// cyclic and acyclic lists against the model of the cycle detector
	type node struct {
		V    int
		Next *node
	}
	for _, pc := range [][2]int{{1, 0}, {2, 0}, {1, 1}, {1, 2}, {5, 3}, {999, 0}, {1000, 0}, {1001, 0}, {1002, 0}, {1500, 0}, {2500, 0}, {998, 1}, {1000, 1}, {1001, 2}, {2000, 5}, {0, 1}, {0, 4}} {
		pre, cy := pc[0], pc[1]
		nodes := make([]*node, pre+cy)
		for i := range nodes {
			nodes[i] = &node{V: i}
		}
		for i := range nodes {
			if i+1 < len(nodes) {
				nodes[i].Next = nodes[i+1]
			} else if cy > 0 {
				nodes[i].Next = nodes[pre]
			}
		}
		_, err, pan := safeMarshal(func() ([]byte, error) { return json.Marshal(nodes[0]) })
		out := "ok"
		if pan != "" {
			out = "panic"
		} else if err != nil {
			out = "cycle"
		}
		c.Op(fmt.Sprintf("cycle %d %d", pre, cy), out, true, "cycle-detector")
	}
}
