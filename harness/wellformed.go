package main

import (
	"fmt"
	"reflect"
	"unsafe"
)

// wellFormed walks a Go value the way reflect and the garbage collector would and reports the first
// string or slice header that no Go program could have produced (nil base with a non-zero length,
// length above capacity). Empty result = well-formed. It never dereferences such a header.
func wellFormed(v reflect.Value, path string, depth int) string {
	if !v.IsValid() || depth > 30 {
		return ""
	}
	switch v.Kind() {
	case reflect.String:
		if v.CanAddr() {
			h := (*[2]uintptr)(unsafe.Pointer(v.UnsafeAddr()))
			if h[0] == 0 && h[1] != 0 {
				return fmt.Sprintf("%s: string header with nil data and length %d", path, h[1])
			}
			if h[1] > 1<<40 {
				return fmt.Sprintf("%s: string header with absurd length %d", path, h[1])
			}
		}
	case reflect.Slice:
		if v.CanAddr() {
			h := (*[3]uintptr)(unsafe.Pointer(v.UnsafeAddr()))
			if h[0] == 0 && (h[1] != 0 || h[2] != 0) {
				return fmt.Sprintf("%s: slice header with nil data, len %d cap %d", path, h[1], h[2])
			}
			if h[1] > h[2] || h[2] > 1<<40 {
				return fmt.Sprintf("%s: slice header with len %d cap %d", path, h[1], h[2])
			}
		}
		for i := 0; i < v.Len(); i++ {
			if s := wellFormed(v.Index(i), fmt.Sprintf("%s[%d]", path, i), depth+1); s != "" {
				return s
			}
		}
	case reflect.Array:
		for i := 0; i < v.Len(); i++ {
			if s := wellFormed(v.Index(i), fmt.Sprintf("%s[%d]", path, i), depth+1); s != "" {
				return s
			}
		}
	case reflect.Ptr, reflect.Interface:
		if !v.IsNil() {
			e := v.Elem()
			if v.Kind() == reflect.Interface && e.IsValid() && !e.CanAddr() {
				// copy into addressable storage to inspect headers held directly by the interface
				c := reflect.New(e.Type()).Elem()
				c.Set(e)
				e = c
			}
			return wellFormed(e, path+"*", depth+1)
		}
	case reflect.Map:
		iter := v.MapRange()
		for iter.Next() {
			e := reflect.New(v.Type().Elem()).Elem()
			e.Set(iter.Value())
			if s := wellFormed(e, path+"[key]", depth+1); s != "" {
				return s
			}
			kk := reflect.New(v.Type().Key()).Elem()
			kk.Set(iter.Key())
			if s := wellFormed(kk, path+"(key)", depth+1); s != "" {
				return s
			}
		}
	case reflect.Struct:
		for i := 0; i < v.NumField(); i++ {
			if s := wellFormed(v.Field(i), path+"."+v.Type().Field(i).Name, depth+1); s != "" {
				return s
			}
		}
	}
	return ""
}
