module verif/harness

go 1.21

require github.com/goccy/go-json v0.0.0

replace github.com/goccy/go-json => /repo
