// Code generated for the C14 harness (many densely laid-out named types). DO NOT EDIT.
package main

type C14T0000 struct { F0000 int `json:"F0000"` }
type C14T0001 struct { F0001 int `json:"F0001"` }
type C14T0002 struct { F0002 int `json:"F0002"` }
type C14T0003 struct { F0003 int `json:"F0003"` }
type C14T0004 struct { F0004 int `json:"F0004"` }
type C14T0005 struct { F0005 int `json:"F0005"` }
type C14T0006 struct { F0006 int `json:"F0006"` }
type C14T0007 struct { F0007 int `json:"F0007"` }
type C14T0008 struct { F0008 int `json:"F0008"` }
type C14T0009 struct { F0009 int `json:"F0009"` }
type C14T0010 struct { F0010 int `json:"F0010"` }
type C14T0011 struct { F0011 int `json:"F0011"` }
type C14T0012 struct { F0012 int `json:"F0012"` }
type C14T0013 struct { F0013 int `json:"F0013"` }
type C14T0014 struct { F0014 int `json:"F0014"` }
type C14T0015 struct { F0015 int `json:"F0015"` }
type C14T0016 struct { F0016 int `json:"F0016"` }
type C14T0017 struct { F0017 int `json:"F0017"` }
type C14T0018 struct { F0018 int `json:"F0018"` }
type C14T0019 struct { F0019 int `json:"F0019"` }
type C14T0020 struct { F0020 int `json:"F0020"` }
type C14T0021 struct { F0021 int `json:"F0021"` }
type C14T0022 struct { F0022 int `json:"F0022"` }
type C14T0023 struct { F0023 int `json:"F0023"` }
type C14T0024 struct { F0024 int `json:"F0024"` }
type C14T0025 struct { F0025 int `json:"F0025"` }
type C14T0026 struct { F0026 int `json:"F0026"` }
type C14T0027 struct { F0027 int `json:"F0027"` }
type C14T0028 struct { F0028 int `json:"F0028"` }
type C14T0029 struct { F0029 int `json:"F0029"` }
type C14T0030 struct { F0030 int `json:"F0030"` }
type C14T0031 struct { F0031 int `json:"F0031"` }
type C14T0032 struct { F0032 int `json:"F0032"` }
type C14T0033 struct { F0033 int `json:"F0033"` }
type C14T0034 struct { F0034 int `json:"F0034"` }
type C14T0035 struct { F0035 int `json:"F0035"` }
type C14T0036 struct { F0036 int `json:"F0036"` }
type C14T0037 struct { F0037 int `json:"F0037"` }
type C14T0038 struct { F0038 int `json:"F0038"` }
type C14T0039 struct { F0039 int `json:"F0039"` }
type C14T0040 struct { F0040 int `json:"F0040"` }
type C14T0041 struct { F0041 int `json:"F0041"` }
type C14T0042 struct { F0042 int `json:"F0042"` }
type C14T0043 struct { F0043 int `json:"F0043"` }
type C14T0044 struct { F0044 int `json:"F0044"` }
type C14T0045 struct { F0045 int `json:"F0045"` }
type C14T0046 struct { F0046 int `json:"F0046"` }
type C14T0047 struct { F0047 int `json:"F0047"` }
type C14T0048 struct { F0048 int `json:"F0048"` }
type C14T0049 struct { F0049 int `json:"F0049"` }
type C14T0050 struct { F0050 int `json:"F0050"` }
type C14T0051 struct { F0051 int `json:"F0051"` }
type C14T0052 struct { F0052 int `json:"F0052"` }
type C14T0053 struct { F0053 int `json:"F0053"` }
type C14T0054 struct { F0054 int `json:"F0054"` }
type C14T0055 struct { F0055 int `json:"F0055"` }
type C14T0056 struct { F0056 int `json:"F0056"` }
type C14T0057 struct { F0057 int `json:"F0057"` }
type C14T0058 struct { F0058 int `json:"F0058"` }
type C14T0059 struct { F0059 int `json:"F0059"` }
type C14T0060 struct { F0060 int `json:"F0060"` }
type C14T0061 struct { F0061 int `json:"F0061"` }
type C14T0062 struct { F0062 int `json:"F0062"` }
type C14T0063 struct { F0063 int `json:"F0063"` }
type C14T0064 struct { F0064 int `json:"F0064"` }
type C14T0065 struct { F0065 int `json:"F0065"` }
type C14T0066 struct { F0066 int `json:"F0066"` }
type C14T0067 struct { F0067 int `json:"F0067"` }
type C14T0068 struct { F0068 int `json:"F0068"` }
type C14T0069 struct { F0069 int `json:"F0069"` }
type C14T0070 struct { F0070 int `json:"F0070"` }
type C14T0071 struct { F0071 int `json:"F0071"` }
type C14T0072 struct { F0072 int `json:"F0072"` }
type C14T0073 struct { F0073 int `json:"F0073"` }
type C14T0074 struct { F0074 int `json:"F0074"` }
type C14T0075 struct { F0075 int `json:"F0075"` }
type C14T0076 struct { F0076 int `json:"F0076"` }
type C14T0077 struct { F0077 int `json:"F0077"` }
type C14T0078 struct { F0078 int `json:"F0078"` }
type C14T0079 struct { F0079 int `json:"F0079"` }
type C14T0080 struct { F0080 int `json:"F0080"` }
type C14T0081 struct { F0081 int `json:"F0081"` }
type C14T0082 struct { F0082 int `json:"F0082"` }
type C14T0083 struct { F0083 int `json:"F0083"` }
type C14T0084 struct { F0084 int `json:"F0084"` }
type C14T0085 struct { F0085 int `json:"F0085"` }
type C14T0086 struct { F0086 int `json:"F0086"` }
type C14T0087 struct { F0087 int `json:"F0087"` }
type C14T0088 struct { F0088 int `json:"F0088"` }
type C14T0089 struct { F0089 int `json:"F0089"` }
type C14T0090 struct { F0090 int `json:"F0090"` }
type C14T0091 struct { F0091 int `json:"F0091"` }
type C14T0092 struct { F0092 int `json:"F0092"` }
type C14T0093 struct { F0093 int `json:"F0093"` }
type C14T0094 struct { F0094 int `json:"F0094"` }
type C14T0095 struct { F0095 int `json:"F0095"` }
type C14T0096 struct { F0096 int `json:"F0096"` }
type C14T0097 struct { F0097 int `json:"F0097"` }
type C14T0098 struct { F0098 int `json:"F0098"` }
type C14T0099 struct { F0099 int `json:"F0099"` }
type C14T0100 struct { F0100 int `json:"F0100"` }
type C14T0101 struct { F0101 int `json:"F0101"` }
type C14T0102 struct { F0102 int `json:"F0102"` }
type C14T0103 struct { F0103 int `json:"F0103"` }
type C14T0104 struct { F0104 int `json:"F0104"` }
type C14T0105 struct { F0105 int `json:"F0105"` }
type C14T0106 struct { F0106 int `json:"F0106"` }
type C14T0107 struct { F0107 int `json:"F0107"` }
type C14T0108 struct { F0108 int `json:"F0108"` }
type C14T0109 struct { F0109 int `json:"F0109"` }
type C14T0110 struct { F0110 int `json:"F0110"` }
type C14T0111 struct { F0111 int `json:"F0111"` }
type C14T0112 struct { F0112 int `json:"F0112"` }
type C14T0113 struct { F0113 int `json:"F0113"` }
type C14T0114 struct { F0114 int `json:"F0114"` }
type C14T0115 struct { F0115 int `json:"F0115"` }
type C14T0116 struct { F0116 int `json:"F0116"` }
type C14T0117 struct { F0117 int `json:"F0117"` }
type C14T0118 struct { F0118 int `json:"F0118"` }
type C14T0119 struct { F0119 int `json:"F0119"` }
type C14T0120 struct { F0120 int `json:"F0120"` }
type C14T0121 struct { F0121 int `json:"F0121"` }
type C14T0122 struct { F0122 int `json:"F0122"` }
type C14T0123 struct { F0123 int `json:"F0123"` }
type C14T0124 struct { F0124 int `json:"F0124"` }
type C14T0125 struct { F0125 int `json:"F0125"` }
type C14T0126 struct { F0126 int `json:"F0126"` }
type C14T0127 struct { F0127 int `json:"F0127"` }
type C14T0128 struct { F0128 int `json:"F0128"` }
type C14T0129 struct { F0129 int `json:"F0129"` }
type C14T0130 struct { F0130 int `json:"F0130"` }
type C14T0131 struct { F0131 int `json:"F0131"` }
type C14T0132 struct { F0132 int `json:"F0132"` }
type C14T0133 struct { F0133 int `json:"F0133"` }
type C14T0134 struct { F0134 int `json:"F0134"` }
type C14T0135 struct { F0135 int `json:"F0135"` }
type C14T0136 struct { F0136 int `json:"F0136"` }
type C14T0137 struct { F0137 int `json:"F0137"` }
type C14T0138 struct { F0138 int `json:"F0138"` }
type C14T0139 struct { F0139 int `json:"F0139"` }
type C14T0140 struct { F0140 int `json:"F0140"` }
type C14T0141 struct { F0141 int `json:"F0141"` }
type C14T0142 struct { F0142 int `json:"F0142"` }
type C14T0143 struct { F0143 int `json:"F0143"` }
type C14T0144 struct { F0144 int `json:"F0144"` }
type C14T0145 struct { F0145 int `json:"F0145"` }
type C14T0146 struct { F0146 int `json:"F0146"` }
type C14T0147 struct { F0147 int `json:"F0147"` }
type C14T0148 struct { F0148 int `json:"F0148"` }
type C14T0149 struct { F0149 int `json:"F0149"` }
type C14T0150 struct { F0150 int `json:"F0150"` }
type C14T0151 struct { F0151 int `json:"F0151"` }
type C14T0152 struct { F0152 int `json:"F0152"` }
type C14T0153 struct { F0153 int `json:"F0153"` }
type C14T0154 struct { F0154 int `json:"F0154"` }
type C14T0155 struct { F0155 int `json:"F0155"` }
type C14T0156 struct { F0156 int `json:"F0156"` }
type C14T0157 struct { F0157 int `json:"F0157"` }
type C14T0158 struct { F0158 int `json:"F0158"` }
type C14T0159 struct { F0159 int `json:"F0159"` }
type C14T0160 struct { F0160 int `json:"F0160"` }
type C14T0161 struct { F0161 int `json:"F0161"` }
type C14T0162 struct { F0162 int `json:"F0162"` }
type C14T0163 struct { F0163 int `json:"F0163"` }
type C14T0164 struct { F0164 int `json:"F0164"` }
type C14T0165 struct { F0165 int `json:"F0165"` }
type C14T0166 struct { F0166 int `json:"F0166"` }
type C14T0167 struct { F0167 int `json:"F0167"` }
type C14T0168 struct { F0168 int `json:"F0168"` }
type C14T0169 struct { F0169 int `json:"F0169"` }
type C14T0170 struct { F0170 int `json:"F0170"` }
type C14T0171 struct { F0171 int `json:"F0171"` }
type C14T0172 struct { F0172 int `json:"F0172"` }
type C14T0173 struct { F0173 int `json:"F0173"` }
type C14T0174 struct { F0174 int `json:"F0174"` }
type C14T0175 struct { F0175 int `json:"F0175"` }
type C14T0176 struct { F0176 int `json:"F0176"` }
type C14T0177 struct { F0177 int `json:"F0177"` }
type C14T0178 struct { F0178 int `json:"F0178"` }
type C14T0179 struct { F0179 int `json:"F0179"` }
type C14T0180 struct { F0180 int `json:"F0180"` }
type C14T0181 struct { F0181 int `json:"F0181"` }
type C14T0182 struct { F0182 int `json:"F0182"` }
type C14T0183 struct { F0183 int `json:"F0183"` }
type C14T0184 struct { F0184 int `json:"F0184"` }
type C14T0185 struct { F0185 int `json:"F0185"` }
type C14T0186 struct { F0186 int `json:"F0186"` }
type C14T0187 struct { F0187 int `json:"F0187"` }
type C14T0188 struct { F0188 int `json:"F0188"` }
type C14T0189 struct { F0189 int `json:"F0189"` }
type C14T0190 struct { F0190 int `json:"F0190"` }
type C14T0191 struct { F0191 int `json:"F0191"` }
type C14T0192 struct { F0192 int `json:"F0192"` }
type C14T0193 struct { F0193 int `json:"F0193"` }
type C14T0194 struct { F0194 int `json:"F0194"` }
type C14T0195 struct { F0195 int `json:"F0195"` }
type C14T0196 struct { F0196 int `json:"F0196"` }
type C14T0197 struct { F0197 int `json:"F0197"` }
type C14T0198 struct { F0198 int `json:"F0198"` }
type C14T0199 struct { F0199 int `json:"F0199"` }
type C14T0200 struct { F0200 int `json:"F0200"` }
type C14T0201 struct { F0201 int `json:"F0201"` }
type C14T0202 struct { F0202 int `json:"F0202"` }
type C14T0203 struct { F0203 int `json:"F0203"` }
type C14T0204 struct { F0204 int `json:"F0204"` }
type C14T0205 struct { F0205 int `json:"F0205"` }
type C14T0206 struct { F0206 int `json:"F0206"` }
type C14T0207 struct { F0207 int `json:"F0207"` }
type C14T0208 struct { F0208 int `json:"F0208"` }
type C14T0209 struct { F0209 int `json:"F0209"` }
type C14T0210 struct { F0210 int `json:"F0210"` }
type C14T0211 struct { F0211 int `json:"F0211"` }
type C14T0212 struct { F0212 int `json:"F0212"` }
type C14T0213 struct { F0213 int `json:"F0213"` }
type C14T0214 struct { F0214 int `json:"F0214"` }
type C14T0215 struct { F0215 int `json:"F0215"` }
type C14T0216 struct { F0216 int `json:"F0216"` }
type C14T0217 struct { F0217 int `json:"F0217"` }
type C14T0218 struct { F0218 int `json:"F0218"` }
type C14T0219 struct { F0219 int `json:"F0219"` }
type C14T0220 struct { F0220 int `json:"F0220"` }
type C14T0221 struct { F0221 int `json:"F0221"` }
type C14T0222 struct { F0222 int `json:"F0222"` }
type C14T0223 struct { F0223 int `json:"F0223"` }
type C14T0224 struct { F0224 int `json:"F0224"` }
type C14T0225 struct { F0225 int `json:"F0225"` }
type C14T0226 struct { F0226 int `json:"F0226"` }
type C14T0227 struct { F0227 int `json:"F0227"` }
type C14T0228 struct { F0228 int `json:"F0228"` }
type C14T0229 struct { F0229 int `json:"F0229"` }
type C14T0230 struct { F0230 int `json:"F0230"` }
type C14T0231 struct { F0231 int `json:"F0231"` }
type C14T0232 struct { F0232 int `json:"F0232"` }
type C14T0233 struct { F0233 int `json:"F0233"` }
type C14T0234 struct { F0234 int `json:"F0234"` }
type C14T0235 struct { F0235 int `json:"F0235"` }
type C14T0236 struct { F0236 int `json:"F0236"` }
type C14T0237 struct { F0237 int `json:"F0237"` }
type C14T0238 struct { F0238 int `json:"F0238"` }
type C14T0239 struct { F0239 int `json:"F0239"` }
type C14T0240 struct { F0240 int `json:"F0240"` }
type C14T0241 struct { F0241 int `json:"F0241"` }
type C14T0242 struct { F0242 int `json:"F0242"` }
type C14T0243 struct { F0243 int `json:"F0243"` }
type C14T0244 struct { F0244 int `json:"F0244"` }
type C14T0245 struct { F0245 int `json:"F0245"` }
type C14T0246 struct { F0246 int `json:"F0246"` }
type C14T0247 struct { F0247 int `json:"F0247"` }
type C14T0248 struct { F0248 int `json:"F0248"` }
type C14T0249 struct { F0249 int `json:"F0249"` }
type C14T0250 struct { F0250 int `json:"F0250"` }
type C14T0251 struct { F0251 int `json:"F0251"` }
type C14T0252 struct { F0252 int `json:"F0252"` }
type C14T0253 struct { F0253 int `json:"F0253"` }
type C14T0254 struct { F0254 int `json:"F0254"` }
type C14T0255 struct { F0255 int `json:"F0255"` }
type C14T0256 struct { F0256 int `json:"F0256"` }
type C14T0257 struct { F0257 int `json:"F0257"` }
type C14T0258 struct { F0258 int `json:"F0258"` }
type C14T0259 struct { F0259 int `json:"F0259"` }
type C14T0260 struct { F0260 int `json:"F0260"` }
type C14T0261 struct { F0261 int `json:"F0261"` }
type C14T0262 struct { F0262 int `json:"F0262"` }
type C14T0263 struct { F0263 int `json:"F0263"` }
type C14T0264 struct { F0264 int `json:"F0264"` }
type C14T0265 struct { F0265 int `json:"F0265"` }
type C14T0266 struct { F0266 int `json:"F0266"` }
type C14T0267 struct { F0267 int `json:"F0267"` }
type C14T0268 struct { F0268 int `json:"F0268"` }
type C14T0269 struct { F0269 int `json:"F0269"` }
type C14T0270 struct { F0270 int `json:"F0270"` }
type C14T0271 struct { F0271 int `json:"F0271"` }
type C14T0272 struct { F0272 int `json:"F0272"` }
type C14T0273 struct { F0273 int `json:"F0273"` }
type C14T0274 struct { F0274 int `json:"F0274"` }
type C14T0275 struct { F0275 int `json:"F0275"` }
type C14T0276 struct { F0276 int `json:"F0276"` }
type C14T0277 struct { F0277 int `json:"F0277"` }
type C14T0278 struct { F0278 int `json:"F0278"` }
type C14T0279 struct { F0279 int `json:"F0279"` }
type C14T0280 struct { F0280 int `json:"F0280"` }
type C14T0281 struct { F0281 int `json:"F0281"` }
type C14T0282 struct { F0282 int `json:"F0282"` }
type C14T0283 struct { F0283 int `json:"F0283"` }
type C14T0284 struct { F0284 int `json:"F0284"` }
type C14T0285 struct { F0285 int `json:"F0285"` }
type C14T0286 struct { F0286 int `json:"F0286"` }
type C14T0287 struct { F0287 int `json:"F0287"` }
type C14T0288 struct { F0288 int `json:"F0288"` }
type C14T0289 struct { F0289 int `json:"F0289"` }
type C14T0290 struct { F0290 int `json:"F0290"` }
type C14T0291 struct { F0291 int `json:"F0291"` }
type C14T0292 struct { F0292 int `json:"F0292"` }
type C14T0293 struct { F0293 int `json:"F0293"` }
type C14T0294 struct { F0294 int `json:"F0294"` }
type C14T0295 struct { F0295 int `json:"F0295"` }
type C14T0296 struct { F0296 int `json:"F0296"` }
type C14T0297 struct { F0297 int `json:"F0297"` }
type C14T0298 struct { F0298 int `json:"F0298"` }
type C14T0299 struct { F0299 int `json:"F0299"` }
type C14T0300 struct { F0300 int `json:"F0300"` }
type C14T0301 struct { F0301 int `json:"F0301"` }
type C14T0302 struct { F0302 int `json:"F0302"` }
type C14T0303 struct { F0303 int `json:"F0303"` }
type C14T0304 struct { F0304 int `json:"F0304"` }
type C14T0305 struct { F0305 int `json:"F0305"` }
type C14T0306 struct { F0306 int `json:"F0306"` }
type C14T0307 struct { F0307 int `json:"F0307"` }
type C14T0308 struct { F0308 int `json:"F0308"` }
type C14T0309 struct { F0309 int `json:"F0309"` }
type C14T0310 struct { F0310 int `json:"F0310"` }
type C14T0311 struct { F0311 int `json:"F0311"` }
type C14T0312 struct { F0312 int `json:"F0312"` }
type C14T0313 struct { F0313 int `json:"F0313"` }
type C14T0314 struct { F0314 int `json:"F0314"` }
type C14T0315 struct { F0315 int `json:"F0315"` }
type C14T0316 struct { F0316 int `json:"F0316"` }
type C14T0317 struct { F0317 int `json:"F0317"` }
type C14T0318 struct { F0318 int `json:"F0318"` }
type C14T0319 struct { F0319 int `json:"F0319"` }
type C14T0320 struct { F0320 int `json:"F0320"` }
type C14T0321 struct { F0321 int `json:"F0321"` }
type C14T0322 struct { F0322 int `json:"F0322"` }
type C14T0323 struct { F0323 int `json:"F0323"` }
type C14T0324 struct { F0324 int `json:"F0324"` }
type C14T0325 struct { F0325 int `json:"F0325"` }
type C14T0326 struct { F0326 int `json:"F0326"` }
type C14T0327 struct { F0327 int `json:"F0327"` }
type C14T0328 struct { F0328 int `json:"F0328"` }
type C14T0329 struct { F0329 int `json:"F0329"` }
type C14T0330 struct { F0330 int `json:"F0330"` }
type C14T0331 struct { F0331 int `json:"F0331"` }
type C14T0332 struct { F0332 int `json:"F0332"` }
type C14T0333 struct { F0333 int `json:"F0333"` }
type C14T0334 struct { F0334 int `json:"F0334"` }
type C14T0335 struct { F0335 int `json:"F0335"` }
type C14T0336 struct { F0336 int `json:"F0336"` }
type C14T0337 struct { F0337 int `json:"F0337"` }
type C14T0338 struct { F0338 int `json:"F0338"` }
type C14T0339 struct { F0339 int `json:"F0339"` }
type C14T0340 struct { F0340 int `json:"F0340"` }
type C14T0341 struct { F0341 int `json:"F0341"` }
type C14T0342 struct { F0342 int `json:"F0342"` }
type C14T0343 struct { F0343 int `json:"F0343"` }
type C14T0344 struct { F0344 int `json:"F0344"` }
type C14T0345 struct { F0345 int `json:"F0345"` }
type C14T0346 struct { F0346 int `json:"F0346"` }
type C14T0347 struct { F0347 int `json:"F0347"` }
type C14T0348 struct { F0348 int `json:"F0348"` }
type C14T0349 struct { F0349 int `json:"F0349"` }
type C14T0350 struct { F0350 int `json:"F0350"` }
type C14T0351 struct { F0351 int `json:"F0351"` }
type C14T0352 struct { F0352 int `json:"F0352"` }
type C14T0353 struct { F0353 int `json:"F0353"` }
type C14T0354 struct { F0354 int `json:"F0354"` }
type C14T0355 struct { F0355 int `json:"F0355"` }
type C14T0356 struct { F0356 int `json:"F0356"` }
type C14T0357 struct { F0357 int `json:"F0357"` }
type C14T0358 struct { F0358 int `json:"F0358"` }
type C14T0359 struct { F0359 int `json:"F0359"` }
type C14T0360 struct { F0360 int `json:"F0360"` }
type C14T0361 struct { F0361 int `json:"F0361"` }
type C14T0362 struct { F0362 int `json:"F0362"` }
type C14T0363 struct { F0363 int `json:"F0363"` }
type C14T0364 struct { F0364 int `json:"F0364"` }
type C14T0365 struct { F0365 int `json:"F0365"` }
type C14T0366 struct { F0366 int `json:"F0366"` }
type C14T0367 struct { F0367 int `json:"F0367"` }
type C14T0368 struct { F0368 int `json:"F0368"` }
type C14T0369 struct { F0369 int `json:"F0369"` }
type C14T0370 struct { F0370 int `json:"F0370"` }
type C14T0371 struct { F0371 int `json:"F0371"` }
type C14T0372 struct { F0372 int `json:"F0372"` }
type C14T0373 struct { F0373 int `json:"F0373"` }
type C14T0374 struct { F0374 int `json:"F0374"` }
type C14T0375 struct { F0375 int `json:"F0375"` }
type C14T0376 struct { F0376 int `json:"F0376"` }
type C14T0377 struct { F0377 int `json:"F0377"` }
type C14T0378 struct { F0378 int `json:"F0378"` }
type C14T0379 struct { F0379 int `json:"F0379"` }
type C14T0380 struct { F0380 int `json:"F0380"` }
type C14T0381 struct { F0381 int `json:"F0381"` }
type C14T0382 struct { F0382 int `json:"F0382"` }
type C14T0383 struct { F0383 int `json:"F0383"` }
type C14T0384 struct { F0384 int `json:"F0384"` }
type C14T0385 struct { F0385 int `json:"F0385"` }
type C14T0386 struct { F0386 int `json:"F0386"` }
type C14T0387 struct { F0387 int `json:"F0387"` }
type C14T0388 struct { F0388 int `json:"F0388"` }
type C14T0389 struct { F0389 int `json:"F0389"` }
type C14T0390 struct { F0390 int `json:"F0390"` }
type C14T0391 struct { F0391 int `json:"F0391"` }
type C14T0392 struct { F0392 int `json:"F0392"` }
type C14T0393 struct { F0393 int `json:"F0393"` }
type C14T0394 struct { F0394 int `json:"F0394"` }
type C14T0395 struct { F0395 int `json:"F0395"` }
type C14T0396 struct { F0396 int `json:"F0396"` }
type C14T0397 struct { F0397 int `json:"F0397"` }
type C14T0398 struct { F0398 int `json:"F0398"` }
type C14T0399 struct { F0399 int `json:"F0399"` }
type C14T0400 struct { F0400 int `json:"F0400"` }
type C14T0401 struct { F0401 int `json:"F0401"` }
type C14T0402 struct { F0402 int `json:"F0402"` }
type C14T0403 struct { F0403 int `json:"F0403"` }
type C14T0404 struct { F0404 int `json:"F0404"` }
type C14T0405 struct { F0405 int `json:"F0405"` }
type C14T0406 struct { F0406 int `json:"F0406"` }
type C14T0407 struct { F0407 int `json:"F0407"` }
type C14T0408 struct { F0408 int `json:"F0408"` }
type C14T0409 struct { F0409 int `json:"F0409"` }
type C14T0410 struct { F0410 int `json:"F0410"` }
type C14T0411 struct { F0411 int `json:"F0411"` }
type C14T0412 struct { F0412 int `json:"F0412"` }
type C14T0413 struct { F0413 int `json:"F0413"` }
type C14T0414 struct { F0414 int `json:"F0414"` }
type C14T0415 struct { F0415 int `json:"F0415"` }
type C14T0416 struct { F0416 int `json:"F0416"` }
type C14T0417 struct { F0417 int `json:"F0417"` }
type C14T0418 struct { F0418 int `json:"F0418"` }
type C14T0419 struct { F0419 int `json:"F0419"` }
type C14T0420 struct { F0420 int `json:"F0420"` }
type C14T0421 struct { F0421 int `json:"F0421"` }
type C14T0422 struct { F0422 int `json:"F0422"` }
type C14T0423 struct { F0423 int `json:"F0423"` }
type C14T0424 struct { F0424 int `json:"F0424"` }
type C14T0425 struct { F0425 int `json:"F0425"` }
type C14T0426 struct { F0426 int `json:"F0426"` }
type C14T0427 struct { F0427 int `json:"F0427"` }
type C14T0428 struct { F0428 int `json:"F0428"` }
type C14T0429 struct { F0429 int `json:"F0429"` }
type C14T0430 struct { F0430 int `json:"F0430"` }
type C14T0431 struct { F0431 int `json:"F0431"` }
type C14T0432 struct { F0432 int `json:"F0432"` }
type C14T0433 struct { F0433 int `json:"F0433"` }
type C14T0434 struct { F0434 int `json:"F0434"` }
type C14T0435 struct { F0435 int `json:"F0435"` }
type C14T0436 struct { F0436 int `json:"F0436"` }
type C14T0437 struct { F0437 int `json:"F0437"` }
type C14T0438 struct { F0438 int `json:"F0438"` }
type C14T0439 struct { F0439 int `json:"F0439"` }
type C14T0440 struct { F0440 int `json:"F0440"` }
type C14T0441 struct { F0441 int `json:"F0441"` }
type C14T0442 struct { F0442 int `json:"F0442"` }
type C14T0443 struct { F0443 int `json:"F0443"` }
type C14T0444 struct { F0444 int `json:"F0444"` }
type C14T0445 struct { F0445 int `json:"F0445"` }
type C14T0446 struct { F0446 int `json:"F0446"` }
type C14T0447 struct { F0447 int `json:"F0447"` }
type C14T0448 struct { F0448 int `json:"F0448"` }
type C14T0449 struct { F0449 int `json:"F0449"` }
type C14T0450 struct { F0450 int `json:"F0450"` }
type C14T0451 struct { F0451 int `json:"F0451"` }
type C14T0452 struct { F0452 int `json:"F0452"` }
type C14T0453 struct { F0453 int `json:"F0453"` }
type C14T0454 struct { F0454 int `json:"F0454"` }
type C14T0455 struct { F0455 int `json:"F0455"` }
type C14T0456 struct { F0456 int `json:"F0456"` }
type C14T0457 struct { F0457 int `json:"F0457"` }
type C14T0458 struct { F0458 int `json:"F0458"` }
type C14T0459 struct { F0459 int `json:"F0459"` }
type C14T0460 struct { F0460 int `json:"F0460"` }
type C14T0461 struct { F0461 int `json:"F0461"` }
type C14T0462 struct { F0462 int `json:"F0462"` }
type C14T0463 struct { F0463 int `json:"F0463"` }
type C14T0464 struct { F0464 int `json:"F0464"` }
type C14T0465 struct { F0465 int `json:"F0465"` }
type C14T0466 struct { F0466 int `json:"F0466"` }
type C14T0467 struct { F0467 int `json:"F0467"` }
type C14T0468 struct { F0468 int `json:"F0468"` }
type C14T0469 struct { F0469 int `json:"F0469"` }
type C14T0470 struct { F0470 int `json:"F0470"` }
type C14T0471 struct { F0471 int `json:"F0471"` }
type C14T0472 struct { F0472 int `json:"F0472"` }
type C14T0473 struct { F0473 int `json:"F0473"` }
type C14T0474 struct { F0474 int `json:"F0474"` }
type C14T0475 struct { F0475 int `json:"F0475"` }
type C14T0476 struct { F0476 int `json:"F0476"` }
type C14T0477 struct { F0477 int `json:"F0477"` }
type C14T0478 struct { F0478 int `json:"F0478"` }
type C14T0479 struct { F0479 int `json:"F0479"` }
type C14T0480 struct { F0480 int `json:"F0480"` }
type C14T0481 struct { F0481 int `json:"F0481"` }
type C14T0482 struct { F0482 int `json:"F0482"` }
type C14T0483 struct { F0483 int `json:"F0483"` }
type C14T0484 struct { F0484 int `json:"F0484"` }
type C14T0485 struct { F0485 int `json:"F0485"` }
type C14T0486 struct { F0486 int `json:"F0486"` }
type C14T0487 struct { F0487 int `json:"F0487"` }
type C14T0488 struct { F0488 int `json:"F0488"` }
type C14T0489 struct { F0489 int `json:"F0489"` }
type C14T0490 struct { F0490 int `json:"F0490"` }
type C14T0491 struct { F0491 int `json:"F0491"` }
type C14T0492 struct { F0492 int `json:"F0492"` }
type C14T0493 struct { F0493 int `json:"F0493"` }
type C14T0494 struct { F0494 int `json:"F0494"` }
type C14T0495 struct { F0495 int `json:"F0495"` }
type C14T0496 struct { F0496 int `json:"F0496"` }
type C14T0497 struct { F0497 int `json:"F0497"` }
type C14T0498 struct { F0498 int `json:"F0498"` }
type C14T0499 struct { F0499 int `json:"F0499"` }
type C14T0500 struct { F0500 int `json:"F0500"` }
type C14T0501 struct { F0501 int `json:"F0501"` }
type C14T0502 struct { F0502 int `json:"F0502"` }
type C14T0503 struct { F0503 int `json:"F0503"` }
type C14T0504 struct { F0504 int `json:"F0504"` }
type C14T0505 struct { F0505 int `json:"F0505"` }
type C14T0506 struct { F0506 int `json:"F0506"` }
type C14T0507 struct { F0507 int `json:"F0507"` }
type C14T0508 struct { F0508 int `json:"F0508"` }
type C14T0509 struct { F0509 int `json:"F0509"` }
type C14T0510 struct { F0510 int `json:"F0510"` }
type C14T0511 struct { F0511 int `json:"F0511"` }
type C14T0512 struct { F0512 int `json:"F0512"` }
type C14T0513 struct { F0513 int `json:"F0513"` }
type C14T0514 struct { F0514 int `json:"F0514"` }
type C14T0515 struct { F0515 int `json:"F0515"` }
type C14T0516 struct { F0516 int `json:"F0516"` }
type C14T0517 struct { F0517 int `json:"F0517"` }
type C14T0518 struct { F0518 int `json:"F0518"` }
type C14T0519 struct { F0519 int `json:"F0519"` }
type C14T0520 struct { F0520 int `json:"F0520"` }
type C14T0521 struct { F0521 int `json:"F0521"` }
type C14T0522 struct { F0522 int `json:"F0522"` }
type C14T0523 struct { F0523 int `json:"F0523"` }
type C14T0524 struct { F0524 int `json:"F0524"` }
type C14T0525 struct { F0525 int `json:"F0525"` }
type C14T0526 struct { F0526 int `json:"F0526"` }
type C14T0527 struct { F0527 int `json:"F0527"` }
type C14T0528 struct { F0528 int `json:"F0528"` }
type C14T0529 struct { F0529 int `json:"F0529"` }
type C14T0530 struct { F0530 int `json:"F0530"` }
type C14T0531 struct { F0531 int `json:"F0531"` }
type C14T0532 struct { F0532 int `json:"F0532"` }
type C14T0533 struct { F0533 int `json:"F0533"` }
type C14T0534 struct { F0534 int `json:"F0534"` }
type C14T0535 struct { F0535 int `json:"F0535"` }
type C14T0536 struct { F0536 int `json:"F0536"` }
type C14T0537 struct { F0537 int `json:"F0537"` }
type C14T0538 struct { F0538 int `json:"F0538"` }
type C14T0539 struct { F0539 int `json:"F0539"` }
type C14T0540 struct { F0540 int `json:"F0540"` }
type C14T0541 struct { F0541 int `json:"F0541"` }
type C14T0542 struct { F0542 int `json:"F0542"` }
type C14T0543 struct { F0543 int `json:"F0543"` }
type C14T0544 struct { F0544 int `json:"F0544"` }
type C14T0545 struct { F0545 int `json:"F0545"` }
type C14T0546 struct { F0546 int `json:"F0546"` }
type C14T0547 struct { F0547 int `json:"F0547"` }
type C14T0548 struct { F0548 int `json:"F0548"` }
type C14T0549 struct { F0549 int `json:"F0549"` }
type C14T0550 struct { F0550 int `json:"F0550"` }
type C14T0551 struct { F0551 int `json:"F0551"` }
type C14T0552 struct { F0552 int `json:"F0552"` }
type C14T0553 struct { F0553 int `json:"F0553"` }
type C14T0554 struct { F0554 int `json:"F0554"` }
type C14T0555 struct { F0555 int `json:"F0555"` }
type C14T0556 struct { F0556 int `json:"F0556"` }
type C14T0557 struct { F0557 int `json:"F0557"` }
type C14T0558 struct { F0558 int `json:"F0558"` }
type C14T0559 struct { F0559 int `json:"F0559"` }
type C14T0560 struct { F0560 int `json:"F0560"` }
type C14T0561 struct { F0561 int `json:"F0561"` }
type C14T0562 struct { F0562 int `json:"F0562"` }
type C14T0563 struct { F0563 int `json:"F0563"` }
type C14T0564 struct { F0564 int `json:"F0564"` }
type C14T0565 struct { F0565 int `json:"F0565"` }
type C14T0566 struct { F0566 int `json:"F0566"` }
type C14T0567 struct { F0567 int `json:"F0567"` }
type C14T0568 struct { F0568 int `json:"F0568"` }
type C14T0569 struct { F0569 int `json:"F0569"` }
type C14T0570 struct { F0570 int `json:"F0570"` }
type C14T0571 struct { F0571 int `json:"F0571"` }
type C14T0572 struct { F0572 int `json:"F0572"` }
type C14T0573 struct { F0573 int `json:"F0573"` }
type C14T0574 struct { F0574 int `json:"F0574"` }
type C14T0575 struct { F0575 int `json:"F0575"` }
type C14T0576 struct { F0576 int `json:"F0576"` }
type C14T0577 struct { F0577 int `json:"F0577"` }
type C14T0578 struct { F0578 int `json:"F0578"` }
type C14T0579 struct { F0579 int `json:"F0579"` }
type C14T0580 struct { F0580 int `json:"F0580"` }
type C14T0581 struct { F0581 int `json:"F0581"` }
type C14T0582 struct { F0582 int `json:"F0582"` }
type C14T0583 struct { F0583 int `json:"F0583"` }
type C14T0584 struct { F0584 int `json:"F0584"` }
type C14T0585 struct { F0585 int `json:"F0585"` }
type C14T0586 struct { F0586 int `json:"F0586"` }
type C14T0587 struct { F0587 int `json:"F0587"` }
type C14T0588 struct { F0588 int `json:"F0588"` }
type C14T0589 struct { F0589 int `json:"F0589"` }
type C14T0590 struct { F0590 int `json:"F0590"` }
type C14T0591 struct { F0591 int `json:"F0591"` }
type C14T0592 struct { F0592 int `json:"F0592"` }
type C14T0593 struct { F0593 int `json:"F0593"` }
type C14T0594 struct { F0594 int `json:"F0594"` }
type C14T0595 struct { F0595 int `json:"F0595"` }
type C14T0596 struct { F0596 int `json:"F0596"` }
type C14T0597 struct { F0597 int `json:"F0597"` }
type C14T0598 struct { F0598 int `json:"F0598"` }
type C14T0599 struct { F0599 int `json:"F0599"` }
type C14T0600 struct { F0600 int `json:"F0600"` }
type C14T0601 struct { F0601 int `json:"F0601"` }
type C14T0602 struct { F0602 int `json:"F0602"` }
type C14T0603 struct { F0603 int `json:"F0603"` }
type C14T0604 struct { F0604 int `json:"F0604"` }
type C14T0605 struct { F0605 int `json:"F0605"` }
type C14T0606 struct { F0606 int `json:"F0606"` }
type C14T0607 struct { F0607 int `json:"F0607"` }
type C14T0608 struct { F0608 int `json:"F0608"` }
type C14T0609 struct { F0609 int `json:"F0609"` }
type C14T0610 struct { F0610 int `json:"F0610"` }
type C14T0611 struct { F0611 int `json:"F0611"` }
type C14T0612 struct { F0612 int `json:"F0612"` }
type C14T0613 struct { F0613 int `json:"F0613"` }
type C14T0614 struct { F0614 int `json:"F0614"` }
type C14T0615 struct { F0615 int `json:"F0615"` }
type C14T0616 struct { F0616 int `json:"F0616"` }
type C14T0617 struct { F0617 int `json:"F0617"` }
type C14T0618 struct { F0618 int `json:"F0618"` }
type C14T0619 struct { F0619 int `json:"F0619"` }
type C14T0620 struct { F0620 int `json:"F0620"` }
type C14T0621 struct { F0621 int `json:"F0621"` }
type C14T0622 struct { F0622 int `json:"F0622"` }
type C14T0623 struct { F0623 int `json:"F0623"` }
type C14T0624 struct { F0624 int `json:"F0624"` }
type C14T0625 struct { F0625 int `json:"F0625"` }
type C14T0626 struct { F0626 int `json:"F0626"` }
type C14T0627 struct { F0627 int `json:"F0627"` }
type C14T0628 struct { F0628 int `json:"F0628"` }
type C14T0629 struct { F0629 int `json:"F0629"` }
type C14T0630 struct { F0630 int `json:"F0630"` }
type C14T0631 struct { F0631 int `json:"F0631"` }
type C14T0632 struct { F0632 int `json:"F0632"` }
type C14T0633 struct { F0633 int `json:"F0633"` }
type C14T0634 struct { F0634 int `json:"F0634"` }
type C14T0635 struct { F0635 int `json:"F0635"` }
type C14T0636 struct { F0636 int `json:"F0636"` }
type C14T0637 struct { F0637 int `json:"F0637"` }
type C14T0638 struct { F0638 int `json:"F0638"` }
type C14T0639 struct { F0639 int `json:"F0639"` }
type C14T0640 struct { F0640 int `json:"F0640"` }
type C14T0641 struct { F0641 int `json:"F0641"` }
type C14T0642 struct { F0642 int `json:"F0642"` }
type C14T0643 struct { F0643 int `json:"F0643"` }
type C14T0644 struct { F0644 int `json:"F0644"` }
type C14T0645 struct { F0645 int `json:"F0645"` }
type C14T0646 struct { F0646 int `json:"F0646"` }
type C14T0647 struct { F0647 int `json:"F0647"` }
type C14T0648 struct { F0648 int `json:"F0648"` }
type C14T0649 struct { F0649 int `json:"F0649"` }
type C14T0650 struct { F0650 int `json:"F0650"` }
type C14T0651 struct { F0651 int `json:"F0651"` }
type C14T0652 struct { F0652 int `json:"F0652"` }
type C14T0653 struct { F0653 int `json:"F0653"` }
type C14T0654 struct { F0654 int `json:"F0654"` }
type C14T0655 struct { F0655 int `json:"F0655"` }
type C14T0656 struct { F0656 int `json:"F0656"` }
type C14T0657 struct { F0657 int `json:"F0657"` }
type C14T0658 struct { F0658 int `json:"F0658"` }
type C14T0659 struct { F0659 int `json:"F0659"` }
type C14T0660 struct { F0660 int `json:"F0660"` }
type C14T0661 struct { F0661 int `json:"F0661"` }
type C14T0662 struct { F0662 int `json:"F0662"` }
type C14T0663 struct { F0663 int `json:"F0663"` }
type C14T0664 struct { F0664 int `json:"F0664"` }
type C14T0665 struct { F0665 int `json:"F0665"` }
type C14T0666 struct { F0666 int `json:"F0666"` }
type C14T0667 struct { F0667 int `json:"F0667"` }
type C14T0668 struct { F0668 int `json:"F0668"` }
type C14T0669 struct { F0669 int `json:"F0669"` }
type C14T0670 struct { F0670 int `json:"F0670"` }
type C14T0671 struct { F0671 int `json:"F0671"` }
type C14T0672 struct { F0672 int `json:"F0672"` }
type C14T0673 struct { F0673 int `json:"F0673"` }
type C14T0674 struct { F0674 int `json:"F0674"` }
type C14T0675 struct { F0675 int `json:"F0675"` }
type C14T0676 struct { F0676 int `json:"F0676"` }
type C14T0677 struct { F0677 int `json:"F0677"` }
type C14T0678 struct { F0678 int `json:"F0678"` }
type C14T0679 struct { F0679 int `json:"F0679"` }
type C14T0680 struct { F0680 int `json:"F0680"` }
type C14T0681 struct { F0681 int `json:"F0681"` }
type C14T0682 struct { F0682 int `json:"F0682"` }
type C14T0683 struct { F0683 int `json:"F0683"` }
type C14T0684 struct { F0684 int `json:"F0684"` }
type C14T0685 struct { F0685 int `json:"F0685"` }
type C14T0686 struct { F0686 int `json:"F0686"` }
type C14T0687 struct { F0687 int `json:"F0687"` }
type C14T0688 struct { F0688 int `json:"F0688"` }
type C14T0689 struct { F0689 int `json:"F0689"` }
type C14T0690 struct { F0690 int `json:"F0690"` }
type C14T0691 struct { F0691 int `json:"F0691"` }
type C14T0692 struct { F0692 int `json:"F0692"` }
type C14T0693 struct { F0693 int `json:"F0693"` }
type C14T0694 struct { F0694 int `json:"F0694"` }
type C14T0695 struct { F0695 int `json:"F0695"` }
type C14T0696 struct { F0696 int `json:"F0696"` }
type C14T0697 struct { F0697 int `json:"F0697"` }
type C14T0698 struct { F0698 int `json:"F0698"` }
type C14T0699 struct { F0699 int `json:"F0699"` }
type C14T0700 struct { F0700 int `json:"F0700"` }
type C14T0701 struct { F0701 int `json:"F0701"` }
type C14T0702 struct { F0702 int `json:"F0702"` }
type C14T0703 struct { F0703 int `json:"F0703"` }
type C14T0704 struct { F0704 int `json:"F0704"` }
type C14T0705 struct { F0705 int `json:"F0705"` }
type C14T0706 struct { F0706 int `json:"F0706"` }
type C14T0707 struct { F0707 int `json:"F0707"` }
type C14T0708 struct { F0708 int `json:"F0708"` }
type C14T0709 struct { F0709 int `json:"F0709"` }
type C14T0710 struct { F0710 int `json:"F0710"` }
type C14T0711 struct { F0711 int `json:"F0711"` }
type C14T0712 struct { F0712 int `json:"F0712"` }
type C14T0713 struct { F0713 int `json:"F0713"` }
type C14T0714 struct { F0714 int `json:"F0714"` }
type C14T0715 struct { F0715 int `json:"F0715"` }
type C14T0716 struct { F0716 int `json:"F0716"` }
type C14T0717 struct { F0717 int `json:"F0717"` }
type C14T0718 struct { F0718 int `json:"F0718"` }
type C14T0719 struct { F0719 int `json:"F0719"` }
type C14T0720 struct { F0720 int `json:"F0720"` }
type C14T0721 struct { F0721 int `json:"F0721"` }
type C14T0722 struct { F0722 int `json:"F0722"` }
type C14T0723 struct { F0723 int `json:"F0723"` }
type C14T0724 struct { F0724 int `json:"F0724"` }
type C14T0725 struct { F0725 int `json:"F0725"` }
type C14T0726 struct { F0726 int `json:"F0726"` }
type C14T0727 struct { F0727 int `json:"F0727"` }
type C14T0728 struct { F0728 int `json:"F0728"` }
type C14T0729 struct { F0729 int `json:"F0729"` }
type C14T0730 struct { F0730 int `json:"F0730"` }
type C14T0731 struct { F0731 int `json:"F0731"` }
type C14T0732 struct { F0732 int `json:"F0732"` }
type C14T0733 struct { F0733 int `json:"F0733"` }
type C14T0734 struct { F0734 int `json:"F0734"` }
type C14T0735 struct { F0735 int `json:"F0735"` }
type C14T0736 struct { F0736 int `json:"F0736"` }
type C14T0737 struct { F0737 int `json:"F0737"` }
type C14T0738 struct { F0738 int `json:"F0738"` }
type C14T0739 struct { F0739 int `json:"F0739"` }
type C14T0740 struct { F0740 int `json:"F0740"` }
type C14T0741 struct { F0741 int `json:"F0741"` }
type C14T0742 struct { F0742 int `json:"F0742"` }
type C14T0743 struct { F0743 int `json:"F0743"` }
type C14T0744 struct { F0744 int `json:"F0744"` }
type C14T0745 struct { F0745 int `json:"F0745"` }
type C14T0746 struct { F0746 int `json:"F0746"` }
type C14T0747 struct { F0747 int `json:"F0747"` }
type C14T0748 struct { F0748 int `json:"F0748"` }
type C14T0749 struct { F0749 int `json:"F0749"` }
type C14T0750 struct { F0750 int `json:"F0750"` }
type C14T0751 struct { F0751 int `json:"F0751"` }
type C14T0752 struct { F0752 int `json:"F0752"` }
type C14T0753 struct { F0753 int `json:"F0753"` }
type C14T0754 struct { F0754 int `json:"F0754"` }
type C14T0755 struct { F0755 int `json:"F0755"` }
type C14T0756 struct { F0756 int `json:"F0756"` }
type C14T0757 struct { F0757 int `json:"F0757"` }
type C14T0758 struct { F0758 int `json:"F0758"` }
type C14T0759 struct { F0759 int `json:"F0759"` }
type C14T0760 struct { F0760 int `json:"F0760"` }
type C14T0761 struct { F0761 int `json:"F0761"` }
type C14T0762 struct { F0762 int `json:"F0762"` }
type C14T0763 struct { F0763 int `json:"F0763"` }
type C14T0764 struct { F0764 int `json:"F0764"` }
type C14T0765 struct { F0765 int `json:"F0765"` }
type C14T0766 struct { F0766 int `json:"F0766"` }
type C14T0767 struct { F0767 int `json:"F0767"` }
type C14T0768 struct { F0768 int `json:"F0768"` }
type C14T0769 struct { F0769 int `json:"F0769"` }
type C14T0770 struct { F0770 int `json:"F0770"` }
type C14T0771 struct { F0771 int `json:"F0771"` }
type C14T0772 struct { F0772 int `json:"F0772"` }
type C14T0773 struct { F0773 int `json:"F0773"` }
type C14T0774 struct { F0774 int `json:"F0774"` }
type C14T0775 struct { F0775 int `json:"F0775"` }
type C14T0776 struct { F0776 int `json:"F0776"` }
type C14T0777 struct { F0777 int `json:"F0777"` }
type C14T0778 struct { F0778 int `json:"F0778"` }
type C14T0779 struct { F0779 int `json:"F0779"` }
type C14T0780 struct { F0780 int `json:"F0780"` }
type C14T0781 struct { F0781 int `json:"F0781"` }
type C14T0782 struct { F0782 int `json:"F0782"` }
type C14T0783 struct { F0783 int `json:"F0783"` }
type C14T0784 struct { F0784 int `json:"F0784"` }
type C14T0785 struct { F0785 int `json:"F0785"` }
type C14T0786 struct { F0786 int `json:"F0786"` }
type C14T0787 struct { F0787 int `json:"F0787"` }
type C14T0788 struct { F0788 int `json:"F0788"` }
type C14T0789 struct { F0789 int `json:"F0789"` }
type C14T0790 struct { F0790 int `json:"F0790"` }
type C14T0791 struct { F0791 int `json:"F0791"` }
type C14T0792 struct { F0792 int `json:"F0792"` }
type C14T0793 struct { F0793 int `json:"F0793"` }
type C14T0794 struct { F0794 int `json:"F0794"` }
type C14T0795 struct { F0795 int `json:"F0795"` }
type C14T0796 struct { F0796 int `json:"F0796"` }
type C14T0797 struct { F0797 int `json:"F0797"` }
type C14T0798 struct { F0798 int `json:"F0798"` }
type C14T0799 struct { F0799 int `json:"F0799"` }
type C14T0800 struct { F0800 int `json:"F0800"` }
type C14T0801 struct { F0801 int `json:"F0801"` }
type C14T0802 struct { F0802 int `json:"F0802"` }
type C14T0803 struct { F0803 int `json:"F0803"` }
type C14T0804 struct { F0804 int `json:"F0804"` }
type C14T0805 struct { F0805 int `json:"F0805"` }
type C14T0806 struct { F0806 int `json:"F0806"` }
type C14T0807 struct { F0807 int `json:"F0807"` }
type C14T0808 struct { F0808 int `json:"F0808"` }
type C14T0809 struct { F0809 int `json:"F0809"` }
type C14T0810 struct { F0810 int `json:"F0810"` }
type C14T0811 struct { F0811 int `json:"F0811"` }
type C14T0812 struct { F0812 int `json:"F0812"` }
type C14T0813 struct { F0813 int `json:"F0813"` }
type C14T0814 struct { F0814 int `json:"F0814"` }
type C14T0815 struct { F0815 int `json:"F0815"` }
type C14T0816 struct { F0816 int `json:"F0816"` }
type C14T0817 struct { F0817 int `json:"F0817"` }
type C14T0818 struct { F0818 int `json:"F0818"` }
type C14T0819 struct { F0819 int `json:"F0819"` }
type C14T0820 struct { F0820 int `json:"F0820"` }
type C14T0821 struct { F0821 int `json:"F0821"` }
type C14T0822 struct { F0822 int `json:"F0822"` }
type C14T0823 struct { F0823 int `json:"F0823"` }
type C14T0824 struct { F0824 int `json:"F0824"` }
type C14T0825 struct { F0825 int `json:"F0825"` }
type C14T0826 struct { F0826 int `json:"F0826"` }
type C14T0827 struct { F0827 int `json:"F0827"` }
type C14T0828 struct { F0828 int `json:"F0828"` }
type C14T0829 struct { F0829 int `json:"F0829"` }
type C14T0830 struct { F0830 int `json:"F0830"` }
type C14T0831 struct { F0831 int `json:"F0831"` }
type C14T0832 struct { F0832 int `json:"F0832"` }
type C14T0833 struct { F0833 int `json:"F0833"` }
type C14T0834 struct { F0834 int `json:"F0834"` }
type C14T0835 struct { F0835 int `json:"F0835"` }
type C14T0836 struct { F0836 int `json:"F0836"` }
type C14T0837 struct { F0837 int `json:"F0837"` }
type C14T0838 struct { F0838 int `json:"F0838"` }
type C14T0839 struct { F0839 int `json:"F0839"` }
type C14T0840 struct { F0840 int `json:"F0840"` }
type C14T0841 struct { F0841 int `json:"F0841"` }
type C14T0842 struct { F0842 int `json:"F0842"` }
type C14T0843 struct { F0843 int `json:"F0843"` }
type C14T0844 struct { F0844 int `json:"F0844"` }
type C14T0845 struct { F0845 int `json:"F0845"` }
type C14T0846 struct { F0846 int `json:"F0846"` }
type C14T0847 struct { F0847 int `json:"F0847"` }
type C14T0848 struct { F0848 int `json:"F0848"` }
type C14T0849 struct { F0849 int `json:"F0849"` }
type C14T0850 struct { F0850 int `json:"F0850"` }
type C14T0851 struct { F0851 int `json:"F0851"` }
type C14T0852 struct { F0852 int `json:"F0852"` }
type C14T0853 struct { F0853 int `json:"F0853"` }
type C14T0854 struct { F0854 int `json:"F0854"` }
type C14T0855 struct { F0855 int `json:"F0855"` }
type C14T0856 struct { F0856 int `json:"F0856"` }
type C14T0857 struct { F0857 int `json:"F0857"` }
type C14T0858 struct { F0858 int `json:"F0858"` }
type C14T0859 struct { F0859 int `json:"F0859"` }
type C14T0860 struct { F0860 int `json:"F0860"` }
type C14T0861 struct { F0861 int `json:"F0861"` }
type C14T0862 struct { F0862 int `json:"F0862"` }
type C14T0863 struct { F0863 int `json:"F0863"` }
type C14T0864 struct { F0864 int `json:"F0864"` }
type C14T0865 struct { F0865 int `json:"F0865"` }
type C14T0866 struct { F0866 int `json:"F0866"` }
type C14T0867 struct { F0867 int `json:"F0867"` }
type C14T0868 struct { F0868 int `json:"F0868"` }
type C14T0869 struct { F0869 int `json:"F0869"` }
type C14T0870 struct { F0870 int `json:"F0870"` }
type C14T0871 struct { F0871 int `json:"F0871"` }
type C14T0872 struct { F0872 int `json:"F0872"` }
type C14T0873 struct { F0873 int `json:"F0873"` }
type C14T0874 struct { F0874 int `json:"F0874"` }
type C14T0875 struct { F0875 int `json:"F0875"` }
type C14T0876 struct { F0876 int `json:"F0876"` }
type C14T0877 struct { F0877 int `json:"F0877"` }
type C14T0878 struct { F0878 int `json:"F0878"` }
type C14T0879 struct { F0879 int `json:"F0879"` }
type C14T0880 struct { F0880 int `json:"F0880"` }
type C14T0881 struct { F0881 int `json:"F0881"` }
type C14T0882 struct { F0882 int `json:"F0882"` }
type C14T0883 struct { F0883 int `json:"F0883"` }
type C14T0884 struct { F0884 int `json:"F0884"` }
type C14T0885 struct { F0885 int `json:"F0885"` }
type C14T0886 struct { F0886 int `json:"F0886"` }
type C14T0887 struct { F0887 int `json:"F0887"` }
type C14T0888 struct { F0888 int `json:"F0888"` }
type C14T0889 struct { F0889 int `json:"F0889"` }
type C14T0890 struct { F0890 int `json:"F0890"` }
type C14T0891 struct { F0891 int `json:"F0891"` }
type C14T0892 struct { F0892 int `json:"F0892"` }
type C14T0893 struct { F0893 int `json:"F0893"` }
type C14T0894 struct { F0894 int `json:"F0894"` }
type C14T0895 struct { F0895 int `json:"F0895"` }
type C14T0896 struct { F0896 int `json:"F0896"` }
type C14T0897 struct { F0897 int `json:"F0897"` }
type C14T0898 struct { F0898 int `json:"F0898"` }
type C14T0899 struct { F0899 int `json:"F0899"` }

var c14Vals = []interface{}{
	C14T0000{0},
	C14T0001{1},
	C14T0002{2},
	C14T0003{3},
	C14T0004{4},
	C14T0005{5},
	C14T0006{6},
	C14T0007{7},
	C14T0008{8},
	C14T0009{9},
	C14T0010{10},
	C14T0011{11},
	C14T0012{12},
	C14T0013{13},
	C14T0014{14},
	C14T0015{15},
	C14T0016{16},
	C14T0017{17},
	C14T0018{18},
	C14T0019{19},
	C14T0020{20},
	C14T0021{21},
	C14T0022{22},
	C14T0023{23},
	C14T0024{24},
	C14T0025{25},
	C14T0026{26},
	C14T0027{27},
	C14T0028{28},
	C14T0029{29},
	C14T0030{30},
	C14T0031{31},
	C14T0032{32},
	C14T0033{33},
	C14T0034{34},
	C14T0035{35},
	C14T0036{36},
	C14T0037{37},
	C14T0038{38},
	C14T0039{39},
	C14T0040{40},
	C14T0041{41},
	C14T0042{42},
	C14T0043{43},
	C14T0044{44},
	C14T0045{45},
	C14T0046{46},
	C14T0047{47},
	C14T0048{48},
	C14T0049{49},
	C14T0050{50},
	C14T0051{51},
	C14T0052{52},
	C14T0053{53},
	C14T0054{54},
	C14T0055{55},
	C14T0056{56},
	C14T0057{57},
	C14T0058{58},
	C14T0059{59},
	C14T0060{60},
	C14T0061{61},
	C14T0062{62},
	C14T0063{63},
	C14T0064{64},
	C14T0065{65},
	C14T0066{66},
	C14T0067{67},
	C14T0068{68},
	C14T0069{69},
	C14T0070{70},
	C14T0071{71},
	C14T0072{72},
	C14T0073{73},
	C14T0074{74},
	C14T0075{75},
	C14T0076{76},
	C14T0077{77},
	C14T0078{78},
	C14T0079{79},
	C14T0080{80},
	C14T0081{81},
	C14T0082{82},
	C14T0083{83},
	C14T0084{84},
	C14T0085{85},
	C14T0086{86},
	C14T0087{87},
	C14T0088{88},
	C14T0089{89},
	C14T0090{90},
	C14T0091{91},
	C14T0092{92},
	C14T0093{93},
	C14T0094{94},
	C14T0095{95},
	C14T0096{96},
	C14T0097{97},
	C14T0098{98},
	C14T0099{99},
	C14T0100{100},
	C14T0101{101},
	C14T0102{102},
	C14T0103{103},
	C14T0104{104},
	C14T0105{105},
	C14T0106{106},
	C14T0107{107},
	C14T0108{108},
	C14T0109{109},
	C14T0110{110},
	C14T0111{111},
	C14T0112{112},
	C14T0113{113},
	C14T0114{114},
	C14T0115{115},
	C14T0116{116},
	C14T0117{117},
	C14T0118{118},
	C14T0119{119},
	C14T0120{120},
	C14T0121{121},
	C14T0122{122},
	C14T0123{123},
	C14T0124{124},
	C14T0125{125},
	C14T0126{126},
	C14T0127{127},
	C14T0128{128},
	C14T0129{129},
	C14T0130{130},
	C14T0131{131},
	C14T0132{132},
	C14T0133{133},
	C14T0134{134},
	C14T0135{135},
	C14T0136{136},
	C14T0137{137},
	C14T0138{138},
	C14T0139{139},
	C14T0140{140},
	C14T0141{141},
	C14T0142{142},
	C14T0143{143},
	C14T0144{144},
	C14T0145{145},
	C14T0146{146},
	C14T0147{147},
	C14T0148{148},
	C14T0149{149},
	C14T0150{150},
	C14T0151{151},
	C14T0152{152},
	C14T0153{153},
	C14T0154{154},
	C14T0155{155},
	C14T0156{156},
	C14T0157{157},
	C14T0158{158},
	C14T0159{159},
	C14T0160{160},
	C14T0161{161},
	C14T0162{162},
	C14T0163{163},
	C14T0164{164},
	C14T0165{165},
	C14T0166{166},
	C14T0167{167},
	C14T0168{168},
	C14T0169{169},
	C14T0170{170},
	C14T0171{171},
	C14T0172{172},
	C14T0173{173},
	C14T0174{174},
	C14T0175{175},
	C14T0176{176},
	C14T0177{177},
	C14T0178{178},
	C14T0179{179},
	C14T0180{180},
	C14T0181{181},
	C14T0182{182},
	C14T0183{183},
	C14T0184{184},
	C14T0185{185},
	C14T0186{186},
	C14T0187{187},
	C14T0188{188},
	C14T0189{189},
	C14T0190{190},
	C14T0191{191},
	C14T0192{192},
	C14T0193{193},
	C14T0194{194},
	C14T0195{195},
	C14T0196{196},
	C14T0197{197},
	C14T0198{198},
	C14T0199{199},
	C14T0200{200},
	C14T0201{201},
	C14T0202{202},
	C14T0203{203},
	C14T0204{204},
	C14T0205{205},
	C14T0206{206},
	C14T0207{207},
	C14T0208{208},
	C14T0209{209},
	C14T0210{210},
	C14T0211{211},
	C14T0212{212},
	C14T0213{213},
	C14T0214{214},
	C14T0215{215},
	C14T0216{216},
	C14T0217{217},
	C14T0218{218},
	C14T0219{219},
	C14T0220{220},
	C14T0221{221},
	C14T0222{222},
	C14T0223{223},
	C14T0224{224},
	C14T0225{225},
	C14T0226{226},
	C14T0227{227},
	C14T0228{228},
	C14T0229{229},
	C14T0230{230},
	C14T0231{231},
	C14T0232{232},
	C14T0233{233},
	C14T0234{234},
	C14T0235{235},
	C14T0236{236},
	C14T0237{237},
	C14T0238{238},
	C14T0239{239},
	C14T0240{240},
	C14T0241{241},
	C14T0242{242},
	C14T0243{243},
	C14T0244{244},
	C14T0245{245},
	C14T0246{246},
	C14T0247{247},
	C14T0248{248},
	C14T0249{249},
	C14T0250{250},
	C14T0251{251},
	C14T0252{252},
	C14T0253{253},
	C14T0254{254},
	C14T0255{255},
	C14T0256{256},
	C14T0257{257},
	C14T0258{258},
	C14T0259{259},
	C14T0260{260},
	C14T0261{261},
	C14T0262{262},
	C14T0263{263},
	C14T0264{264},
	C14T0265{265},
	C14T0266{266},
	C14T0267{267},
	C14T0268{268},
	C14T0269{269},
	C14T0270{270},
	C14T0271{271},
	C14T0272{272},
	C14T0273{273},
	C14T0274{274},
	C14T0275{275},
	C14T0276{276},
	C14T0277{277},
	C14T0278{278},
	C14T0279{279},
	C14T0280{280},
	C14T0281{281},
	C14T0282{282},
	C14T0283{283},
	C14T0284{284},
	C14T0285{285},
	C14T0286{286},
	C14T0287{287},
	C14T0288{288},
	C14T0289{289},
	C14T0290{290},
	C14T0291{291},
	C14T0292{292},
	C14T0293{293},
	C14T0294{294},
	C14T0295{295},
	C14T0296{296},
	C14T0297{297},
	C14T0298{298},
	C14T0299{299},
	C14T0300{300},
	C14T0301{301},
	C14T0302{302},
	C14T0303{303},
	C14T0304{304},
	C14T0305{305},
	C14T0306{306},
	C14T0307{307},
	C14T0308{308},
	C14T0309{309},
	C14T0310{310},
	C14T0311{311},
	C14T0312{312},
	C14T0313{313},
	C14T0314{314},
	C14T0315{315},
	C14T0316{316},
	C14T0317{317},
	C14T0318{318},
	C14T0319{319},
	C14T0320{320},
	C14T0321{321},
	C14T0322{322},
	C14T0323{323},
	C14T0324{324},
	C14T0325{325},
	C14T0326{326},
	C14T0327{327},
	C14T0328{328},
	C14T0329{329},
	C14T0330{330},
	C14T0331{331},
	C14T0332{332},
	C14T0333{333},
	C14T0334{334},
	C14T0335{335},
	C14T0336{336},
	C14T0337{337},
	C14T0338{338},
	C14T0339{339},
	C14T0340{340},
	C14T0341{341},
	C14T0342{342},
	C14T0343{343},
	C14T0344{344},
	C14T0345{345},
	C14T0346{346},
	C14T0347{347},
	C14T0348{348},
	C14T0349{349},
	C14T0350{350},
	C14T0351{351},
	C14T0352{352},
	C14T0353{353},
	C14T0354{354},
	C14T0355{355},
	C14T0356{356},
	C14T0357{357},
	C14T0358{358},
	C14T0359{359},
	C14T0360{360},
	C14T0361{361},
	C14T0362{362},
	C14T0363{363},
	C14T0364{364},
	C14T0365{365},
	C14T0366{366},
	C14T0367{367},
	C14T0368{368},
	C14T0369{369},
	C14T0370{370},
	C14T0371{371},
	C14T0372{372},
	C14T0373{373},
	C14T0374{374},
	C14T0375{375},
	C14T0376{376},
	C14T0377{377},
	C14T0378{378},
	C14T0379{379},
	C14T0380{380},
	C14T0381{381},
	C14T0382{382},
	C14T0383{383},
	C14T0384{384},
	C14T0385{385},
	C14T0386{386},
	C14T0387{387},
	C14T0388{388},
	C14T0389{389},
	C14T0390{390},
	C14T0391{391},
	C14T0392{392},
	C14T0393{393},
	C14T0394{394},
	C14T0395{395},
	C14T0396{396},
	C14T0397{397},
	C14T0398{398},
	C14T0399{399},
	C14T0400{400},
	C14T0401{401},
	C14T0402{402},
	C14T0403{403},
	C14T0404{404},
	C14T0405{405},
	C14T0406{406},
	C14T0407{407},
	C14T0408{408},
	C14T0409{409},
	C14T0410{410},
	C14T0411{411},
	C14T0412{412},
	C14T0413{413},
	C14T0414{414},
	C14T0415{415},
	C14T0416{416},
	C14T0417{417},
	C14T0418{418},
	C14T0419{419},
	C14T0420{420},
	C14T0421{421},
	C14T0422{422},
	C14T0423{423},
	C14T0424{424},
	C14T0425{425},
	C14T0426{426},
	C14T0427{427},
	C14T0428{428},
	C14T0429{429},
	C14T0430{430},
	C14T0431{431},
	C14T0432{432},
	C14T0433{433},
	C14T0434{434},
	C14T0435{435},
	C14T0436{436},
	C14T0437{437},
	C14T0438{438},
	C14T0439{439},
	C14T0440{440},
	C14T0441{441},
	C14T0442{442},
	C14T0443{443},
	C14T0444{444},
	C14T0445{445},
	C14T0446{446},
	C14T0447{447},
	C14T0448{448},
	C14T0449{449},
	C14T0450{450},
	C14T0451{451},
	C14T0452{452},
	C14T0453{453},
	C14T0454{454},
	C14T0455{455},
	C14T0456{456},
	C14T0457{457},
	C14T0458{458},
	C14T0459{459},
	C14T0460{460},
	C14T0461{461},
	C14T0462{462},
	C14T0463{463},
	C14T0464{464},
	C14T0465{465},
	C14T0466{466},
	C14T0467{467},
	C14T0468{468},
	C14T0469{469},
	C14T0470{470},
	C14T0471{471},
	C14T0472{472},
	C14T0473{473},
	C14T0474{474},
	C14T0475{475},
	C14T0476{476},
	C14T0477{477},
	C14T0478{478},
	C14T0479{479},
	C14T0480{480},
	C14T0481{481},
	C14T0482{482},
	C14T0483{483},
	C14T0484{484},
	C14T0485{485},
	C14T0486{486},
	C14T0487{487},
	C14T0488{488},
	C14T0489{489},
	C14T0490{490},
	C14T0491{491},
	C14T0492{492},
	C14T0493{493},
	C14T0494{494},
	C14T0495{495},
	C14T0496{496},
	C14T0497{497},
	C14T0498{498},
	C14T0499{499},
	C14T0500{500},
	C14T0501{501},
	C14T0502{502},
	C14T0503{503},
	C14T0504{504},
	C14T0505{505},
	C14T0506{506},
	C14T0507{507},
	C14T0508{508},
	C14T0509{509},
	C14T0510{510},
	C14T0511{511},
	C14T0512{512},
	C14T0513{513},
	C14T0514{514},
	C14T0515{515},
	C14T0516{516},
	C14T0517{517},
	C14T0518{518},
	C14T0519{519},
	C14T0520{520},
	C14T0521{521},
	C14T0522{522},
	C14T0523{523},
	C14T0524{524},
	C14T0525{525},
	C14T0526{526},
	C14T0527{527},
	C14T0528{528},
	C14T0529{529},
	C14T0530{530},
	C14T0531{531},
	C14T0532{532},
	C14T0533{533},
	C14T0534{534},
	C14T0535{535},
	C14T0536{536},
	C14T0537{537},
	C14T0538{538},
	C14T0539{539},
	C14T0540{540},
	C14T0541{541},
	C14T0542{542},
	C14T0543{543},
	C14T0544{544},
	C14T0545{545},
	C14T0546{546},
	C14T0547{547},
	C14T0548{548},
	C14T0549{549},
	C14T0550{550},
	C14T0551{551},
	C14T0552{552},
	C14T0553{553},
	C14T0554{554},
	C14T0555{555},
	C14T0556{556},
	C14T0557{557},
	C14T0558{558},
	C14T0559{559},
	C14T0560{560},
	C14T0561{561},
	C14T0562{562},
	C14T0563{563},
	C14T0564{564},
	C14T0565{565},
	C14T0566{566},
	C14T0567{567},
	C14T0568{568},
	C14T0569{569},
	C14T0570{570},
	C14T0571{571},
	C14T0572{572},
	C14T0573{573},
	C14T0574{574},
	C14T0575{575},
	C14T0576{576},
	C14T0577{577},
	C14T0578{578},
	C14T0579{579},
	C14T0580{580},
	C14T0581{581},
	C14T0582{582},
	C14T0583{583},
	C14T0584{584},
	C14T0585{585},
	C14T0586{586},
	C14T0587{587},
	C14T0588{588},
	C14T0589{589},
	C14T0590{590},
	C14T0591{591},
	C14T0592{592},
	C14T0593{593},
	C14T0594{594},
	C14T0595{595},
	C14T0596{596},
	C14T0597{597},
	C14T0598{598},
	C14T0599{599},
	C14T0600{600},
	C14T0601{601},
	C14T0602{602},
	C14T0603{603},
	C14T0604{604},
	C14T0605{605},
	C14T0606{606},
	C14T0607{607},
	C14T0608{608},
	C14T0609{609},
	C14T0610{610},
	C14T0611{611},
	C14T0612{612},
	C14T0613{613},
	C14T0614{614},
	C14T0615{615},
	C14T0616{616},
	C14T0617{617},
	C14T0618{618},
	C14T0619{619},
	C14T0620{620},
	C14T0621{621},
	C14T0622{622},
	C14T0623{623},
	C14T0624{624},
	C14T0625{625},
	C14T0626{626},
	C14T0627{627},
	C14T0628{628},
	C14T0629{629},
	C14T0630{630},
	C14T0631{631},
	C14T0632{632},
	C14T0633{633},
	C14T0634{634},
	C14T0635{635},
	C14T0636{636},
	C14T0637{637},
	C14T0638{638},
	C14T0639{639},
	C14T0640{640},
	C14T0641{641},
	C14T0642{642},
	C14T0643{643},
	C14T0644{644},
	C14T0645{645},
	C14T0646{646},
	C14T0647{647},
	C14T0648{648},
	C14T0649{649},
	C14T0650{650},
	C14T0651{651},
	C14T0652{652},
	C14T0653{653},
	C14T0654{654},
	C14T0655{655},
	C14T0656{656},
	C14T0657{657},
	C14T0658{658},
	C14T0659{659},
	C14T0660{660},
	C14T0661{661},
	C14T0662{662},
	C14T0663{663},
	C14T0664{664},
	C14T0665{665},
	C14T0666{666},
	C14T0667{667},
	C14T0668{668},
	C14T0669{669},
	C14T0670{670},
	C14T0671{671},
	C14T0672{672},
	C14T0673{673},
	C14T0674{674},
	C14T0675{675},
	C14T0676{676},
	C14T0677{677},
	C14T0678{678},
	C14T0679{679},
	C14T0680{680},
	C14T0681{681},
	C14T0682{682},
	C14T0683{683},
	C14T0684{684},
	C14T0685{685},
	C14T0686{686},
	C14T0687{687},
	C14T0688{688},
	C14T0689{689},
	C14T0690{690},
	C14T0691{691},
	C14T0692{692},
	C14T0693{693},
	C14T0694{694},
	C14T0695{695},
	C14T0696{696},
	C14T0697{697},
	C14T0698{698},
	C14T0699{699},
	C14T0700{700},
	C14T0701{701},
	C14T0702{702},
	C14T0703{703},
	C14T0704{704},
	C14T0705{705},
	C14T0706{706},
	C14T0707{707},
	C14T0708{708},
	C14T0709{709},
	C14T0710{710},
	C14T0711{711},
	C14T0712{712},
	C14T0713{713},
	C14T0714{714},
	C14T0715{715},
	C14T0716{716},
	C14T0717{717},
	C14T0718{718},
	C14T0719{719},
	C14T0720{720},
	C14T0721{721},
	C14T0722{722},
	C14T0723{723},
	C14T0724{724},
	C14T0725{725},
	C14T0726{726},
	C14T0727{727},
	C14T0728{728},
	C14T0729{729},
	C14T0730{730},
	C14T0731{731},
	C14T0732{732},
	C14T0733{733},
	C14T0734{734},
	C14T0735{735},
	C14T0736{736},
	C14T0737{737},
	C14T0738{738},
	C14T0739{739},
	C14T0740{740},
	C14T0741{741},
	C14T0742{742},
	C14T0743{743},
	C14T0744{744},
	C14T0745{745},
	C14T0746{746},
	C14T0747{747},
	C14T0748{748},
	C14T0749{749},
	C14T0750{750},
	C14T0751{751},
	C14T0752{752},
	C14T0753{753},
	C14T0754{754},
	C14T0755{755},
	C14T0756{756},
	C14T0757{757},
	C14T0758{758},
	C14T0759{759},
	C14T0760{760},
	C14T0761{761},
	C14T0762{762},
	C14T0763{763},
	C14T0764{764},
	C14T0765{765},
	C14T0766{766},
	C14T0767{767},
	C14T0768{768},
	C14T0769{769},
	C14T0770{770},
	C14T0771{771},
	C14T0772{772},
	C14T0773{773},
	C14T0774{774},
	C14T0775{775},
	C14T0776{776},
	C14T0777{777},
	C14T0778{778},
	C14T0779{779},
	C14T0780{780},
	C14T0781{781},
	C14T0782{782},
	C14T0783{783},
	C14T0784{784},
	C14T0785{785},
	C14T0786{786},
	C14T0787{787},
	C14T0788{788},
	C14T0789{789},
	C14T0790{790},
	C14T0791{791},
	C14T0792{792},
	C14T0793{793},
	C14T0794{794},
	C14T0795{795},
	C14T0796{796},
	C14T0797{797},
	C14T0798{798},
	C14T0799{799},
	C14T0800{800},
	C14T0801{801},
	C14T0802{802},
	C14T0803{803},
	C14T0804{804},
	C14T0805{805},
	C14T0806{806},
	C14T0807{807},
	C14T0808{808},
	C14T0809{809},
	C14T0810{810},
	C14T0811{811},
	C14T0812{812},
	C14T0813{813},
	C14T0814{814},
	C14T0815{815},
	C14T0816{816},
	C14T0817{817},
	C14T0818{818},
	C14T0819{819},
	C14T0820{820},
	C14T0821{821},
	C14T0822{822},
	C14T0823{823},
	C14T0824{824},
	C14T0825{825},
	C14T0826{826},
	C14T0827{827},
	C14T0828{828},
	C14T0829{829},
	C14T0830{830},
	C14T0831{831},
	C14T0832{832},
	C14T0833{833},
	C14T0834{834},
	C14T0835{835},
	C14T0836{836},
	C14T0837{837},
	C14T0838{838},
	C14T0839{839},
	C14T0840{840},
	C14T0841{841},
	C14T0842{842},
	C14T0843{843},
	C14T0844{844},
	C14T0845{845},
	C14T0846{846},
	C14T0847{847},
	C14T0848{848},
	C14T0849{849},
	C14T0850{850},
	C14T0851{851},
	C14T0852{852},
	C14T0853{853},
	C14T0854{854},
	C14T0855{855},
	C14T0856{856},
	C14T0857{857},
	C14T0858{858},
	C14T0859{859},
	C14T0860{860},
	C14T0861{861},
	C14T0862{862},
	C14T0863{863},
	C14T0864{864},
	C14T0865{865},
	C14T0866{866},
	C14T0867{867},
	C14T0868{868},
	C14T0869{869},
	C14T0870{870},
	C14T0871{871},
	C14T0872{872},
	C14T0873{873},
	C14T0874{874},
	C14T0875{875},
	C14T0876{876},
	C14T0877{877},
	C14T0878{878},
	C14T0879{879},
	C14T0880{880},
	C14T0881{881},
	C14T0882{882},
	C14T0883{883},
	C14T0884{884},
	C14T0885{885},
	C14T0886{886},
	C14T0887{887},
	C14T0888{888},
	C14T0889{889},
	C14T0890{890},
	C14T0891{891},
	C14T0892{892},
	C14T0893{893},
	C14T0894{894},
	C14T0895{895},
	C14T0896{896},
	C14T0897{897},
	C14T0898{898},
	C14T0899{899},
}

var c14News = []func() interface{}{
	func() interface{} { return new(C14T0000) },
	func() interface{} { return new(C14T0001) },
	func() interface{} { return new(C14T0002) },
	func() interface{} { return new(C14T0003) },
	func() interface{} { return new(C14T0004) },
	func() interface{} { return new(C14T0005) },
	func() interface{} { return new(C14T0006) },
	func() interface{} { return new(C14T0007) },
	func() interface{} { return new(C14T0008) },
	func() interface{} { return new(C14T0009) },
	func() interface{} { return new(C14T0010) },
	func() interface{} { return new(C14T0011) },
	func() interface{} { return new(C14T0012) },
	func() interface{} { return new(C14T0013) },
	func() interface{} { return new(C14T0014) },
	func() interface{} { return new(C14T0015) },
	func() interface{} { return new(C14T0016) },
	func() interface{} { return new(C14T0017) },
	func() interface{} { return new(C14T0018) },
	func() interface{} { return new(C14T0019) },
	func() interface{} { return new(C14T0020) },
	func() interface{} { return new(C14T0021) },
	func() interface{} { return new(C14T0022) },
	func() interface{} { return new(C14T0023) },
	func() interface{} { return new(C14T0024) },
	func() interface{} { return new(C14T0025) },
	func() interface{} { return new(C14T0026) },
	func() interface{} { return new(C14T0027) },
	func() interface{} { return new(C14T0028) },
	func() interface{} { return new(C14T0029) },
	func() interface{} { return new(C14T0030) },
	func() interface{} { return new(C14T0031) },
	func() interface{} { return new(C14T0032) },
	func() interface{} { return new(C14T0033) },
	func() interface{} { return new(C14T0034) },
	func() interface{} { return new(C14T0035) },
	func() interface{} { return new(C14T0036) },
	func() interface{} { return new(C14T0037) },
	func() interface{} { return new(C14T0038) },
	func() interface{} { return new(C14T0039) },
	func() interface{} { return new(C14T0040) },
	func() interface{} { return new(C14T0041) },
	func() interface{} { return new(C14T0042) },
	func() interface{} { return new(C14T0043) },
	func() interface{} { return new(C14T0044) },
	func() interface{} { return new(C14T0045) },
	func() interface{} { return new(C14T0046) },
	func() interface{} { return new(C14T0047) },
	func() interface{} { return new(C14T0048) },
	func() interface{} { return new(C14T0049) },
	func() interface{} { return new(C14T0050) },
	func() interface{} { return new(C14T0051) },
	func() interface{} { return new(C14T0052) },
	func() interface{} { return new(C14T0053) },
	func() interface{} { return new(C14T0054) },
	func() interface{} { return new(C14T0055) },
	func() interface{} { return new(C14T0056) },
	func() interface{} { return new(C14T0057) },
	func() interface{} { return new(C14T0058) },
	func() interface{} { return new(C14T0059) },
	func() interface{} { return new(C14T0060) },
	func() interface{} { return new(C14T0061) },
	func() interface{} { return new(C14T0062) },
	func() interface{} { return new(C14T0063) },
	func() interface{} { return new(C14T0064) },
	func() interface{} { return new(C14T0065) },
	func() interface{} { return new(C14T0066) },
	func() interface{} { return new(C14T0067) },
	func() interface{} { return new(C14T0068) },
	func() interface{} { return new(C14T0069) },
	func() interface{} { return new(C14T0070) },
	func() interface{} { return new(C14T0071) },
	func() interface{} { return new(C14T0072) },
	func() interface{} { return new(C14T0073) },
	func() interface{} { return new(C14T0074) },
	func() interface{} { return new(C14T0075) },
	func() interface{} { return new(C14T0076) },
	func() interface{} { return new(C14T0077) },
	func() interface{} { return new(C14T0078) },
	func() interface{} { return new(C14T0079) },
	func() interface{} { return new(C14T0080) },
	func() interface{} { return new(C14T0081) },
	func() interface{} { return new(C14T0082) },
	func() interface{} { return new(C14T0083) },
	func() interface{} { return new(C14T0084) },
	func() interface{} { return new(C14T0085) },
	func() interface{} { return new(C14T0086) },
	func() interface{} { return new(C14T0087) },
	func() interface{} { return new(C14T0088) },
	func() interface{} { return new(C14T0089) },
	func() interface{} { return new(C14T0090) },
	func() interface{} { return new(C14T0091) },
	func() interface{} { return new(C14T0092) },
	func() interface{} { return new(C14T0093) },
	func() interface{} { return new(C14T0094) },
	func() interface{} { return new(C14T0095) },
	func() interface{} { return new(C14T0096) },
	func() interface{} { return new(C14T0097) },
	func() interface{} { return new(C14T0098) },
	func() interface{} { return new(C14T0099) },
	func() interface{} { return new(C14T0100) },
	func() interface{} { return new(C14T0101) },
	func() interface{} { return new(C14T0102) },
	func() interface{} { return new(C14T0103) },
	func() interface{} { return new(C14T0104) },
	func() interface{} { return new(C14T0105) },
	func() interface{} { return new(C14T0106) },
	func() interface{} { return new(C14T0107) },
	func() interface{} { return new(C14T0108) },
	func() interface{} { return new(C14T0109) },
	func() interface{} { return new(C14T0110) },
	func() interface{} { return new(C14T0111) },
	func() interface{} { return new(C14T0112) },
	func() interface{} { return new(C14T0113) },
	func() interface{} { return new(C14T0114) },
	func() interface{} { return new(C14T0115) },
	func() interface{} { return new(C14T0116) },
	func() interface{} { return new(C14T0117) },
	func() interface{} { return new(C14T0118) },
	func() interface{} { return new(C14T0119) },
	func() interface{} { return new(C14T0120) },
	func() interface{} { return new(C14T0121) },
	func() interface{} { return new(C14T0122) },
	func() interface{} { return new(C14T0123) },
	func() interface{} { return new(C14T0124) },
	func() interface{} { return new(C14T0125) },
	func() interface{} { return new(C14T0126) },
	func() interface{} { return new(C14T0127) },
	func() interface{} { return new(C14T0128) },
	func() interface{} { return new(C14T0129) },
	func() interface{} { return new(C14T0130) },
	func() interface{} { return new(C14T0131) },
	func() interface{} { return new(C14T0132) },
	func() interface{} { return new(C14T0133) },
	func() interface{} { return new(C14T0134) },
	func() interface{} { return new(C14T0135) },
	func() interface{} { return new(C14T0136) },
	func() interface{} { return new(C14T0137) },
	func() interface{} { return new(C14T0138) },
	func() interface{} { return new(C14T0139) },
	func() interface{} { return new(C14T0140) },
	func() interface{} { return new(C14T0141) },
	func() interface{} { return new(C14T0142) },
	func() interface{} { return new(C14T0143) },
	func() interface{} { return new(C14T0144) },
	func() interface{} { return new(C14T0145) },
	func() interface{} { return new(C14T0146) },
	func() interface{} { return new(C14T0147) },
	func() interface{} { return new(C14T0148) },
	func() interface{} { return new(C14T0149) },
	func() interface{} { return new(C14T0150) },
	func() interface{} { return new(C14T0151) },
	func() interface{} { return new(C14T0152) },
	func() interface{} { return new(C14T0153) },
	func() interface{} { return new(C14T0154) },
	func() interface{} { return new(C14T0155) },
	func() interface{} { return new(C14T0156) },
	func() interface{} { return new(C14T0157) },
	func() interface{} { return new(C14T0158) },
	func() interface{} { return new(C14T0159) },
	func() interface{} { return new(C14T0160) },
	func() interface{} { return new(C14T0161) },
	func() interface{} { return new(C14T0162) },
	func() interface{} { return new(C14T0163) },
	func() interface{} { return new(C14T0164) },
	func() interface{} { return new(C14T0165) },
	func() interface{} { return new(C14T0166) },
	func() interface{} { return new(C14T0167) },
	func() interface{} { return new(C14T0168) },
	func() interface{} { return new(C14T0169) },
	func() interface{} { return new(C14T0170) },
	func() interface{} { return new(C14T0171) },
	func() interface{} { return new(C14T0172) },
	func() interface{} { return new(C14T0173) },
	func() interface{} { return new(C14T0174) },
	func() interface{} { return new(C14T0175) },
	func() interface{} { return new(C14T0176) },
	func() interface{} { return new(C14T0177) },
	func() interface{} { return new(C14T0178) },
	func() interface{} { return new(C14T0179) },
	func() interface{} { return new(C14T0180) },
	func() interface{} { return new(C14T0181) },
	func() interface{} { return new(C14T0182) },
	func() interface{} { return new(C14T0183) },
	func() interface{} { return new(C14T0184) },
	func() interface{} { return new(C14T0185) },
	func() interface{} { return new(C14T0186) },
	func() interface{} { return new(C14T0187) },
	func() interface{} { return new(C14T0188) },
	func() interface{} { return new(C14T0189) },
	func() interface{} { return new(C14T0190) },
	func() interface{} { return new(C14T0191) },
	func() interface{} { return new(C14T0192) },
	func() interface{} { return new(C14T0193) },
	func() interface{} { return new(C14T0194) },
	func() interface{} { return new(C14T0195) },
	func() interface{} { return new(C14T0196) },
	func() interface{} { return new(C14T0197) },
	func() interface{} { return new(C14T0198) },
	func() interface{} { return new(C14T0199) },
	func() interface{} { return new(C14T0200) },
	func() interface{} { return new(C14T0201) },
	func() interface{} { return new(C14T0202) },
	func() interface{} { return new(C14T0203) },
	func() interface{} { return new(C14T0204) },
	func() interface{} { return new(C14T0205) },
	func() interface{} { return new(C14T0206) },
	func() interface{} { return new(C14T0207) },
	func() interface{} { return new(C14T0208) },
	func() interface{} { return new(C14T0209) },
	func() interface{} { return new(C14T0210) },
	func() interface{} { return new(C14T0211) },
	func() interface{} { return new(C14T0212) },
	func() interface{} { return new(C14T0213) },
	func() interface{} { return new(C14T0214) },
	func() interface{} { return new(C14T0215) },
	func() interface{} { return new(C14T0216) },
	func() interface{} { return new(C14T0217) },
	func() interface{} { return new(C14T0218) },
	func() interface{} { return new(C14T0219) },
	func() interface{} { return new(C14T0220) },
	func() interface{} { return new(C14T0221) },
	func() interface{} { return new(C14T0222) },
	func() interface{} { return new(C14T0223) },
	func() interface{} { return new(C14T0224) },
	func() interface{} { return new(C14T0225) },
	func() interface{} { return new(C14T0226) },
	func() interface{} { return new(C14T0227) },
	func() interface{} { return new(C14T0228) },
	func() interface{} { return new(C14T0229) },
	func() interface{} { return new(C14T0230) },
	func() interface{} { return new(C14T0231) },
	func() interface{} { return new(C14T0232) },
	func() interface{} { return new(C14T0233) },
	func() interface{} { return new(C14T0234) },
	func() interface{} { return new(C14T0235) },
	func() interface{} { return new(C14T0236) },
	func() interface{} { return new(C14T0237) },
	func() interface{} { return new(C14T0238) },
	func() interface{} { return new(C14T0239) },
	func() interface{} { return new(C14T0240) },
	func() interface{} { return new(C14T0241) },
	func() interface{} { return new(C14T0242) },
	func() interface{} { return new(C14T0243) },
	func() interface{} { return new(C14T0244) },
	func() interface{} { return new(C14T0245) },
	func() interface{} { return new(C14T0246) },
	func() interface{} { return new(C14T0247) },
	func() interface{} { return new(C14T0248) },
	func() interface{} { return new(C14T0249) },
	func() interface{} { return new(C14T0250) },
	func() interface{} { return new(C14T0251) },
	func() interface{} { return new(C14T0252) },
	func() interface{} { return new(C14T0253) },
	func() interface{} { return new(C14T0254) },
	func() interface{} { return new(C14T0255) },
	func() interface{} { return new(C14T0256) },
	func() interface{} { return new(C14T0257) },
	func() interface{} { return new(C14T0258) },
	func() interface{} { return new(C14T0259) },
	func() interface{} { return new(C14T0260) },
	func() interface{} { return new(C14T0261) },
	func() interface{} { return new(C14T0262) },
	func() interface{} { return new(C14T0263) },
	func() interface{} { return new(C14T0264) },
	func() interface{} { return new(C14T0265) },
	func() interface{} { return new(C14T0266) },
	func() interface{} { return new(C14T0267) },
	func() interface{} { return new(C14T0268) },
	func() interface{} { return new(C14T0269) },
	func() interface{} { return new(C14T0270) },
	func() interface{} { return new(C14T0271) },
	func() interface{} { return new(C14T0272) },
	func() interface{} { return new(C14T0273) },
	func() interface{} { return new(C14T0274) },
	func() interface{} { return new(C14T0275) },
	func() interface{} { return new(C14T0276) },
	func() interface{} { return new(C14T0277) },
	func() interface{} { return new(C14T0278) },
	func() interface{} { return new(C14T0279) },
	func() interface{} { return new(C14T0280) },
	func() interface{} { return new(C14T0281) },
	func() interface{} { return new(C14T0282) },
	func() interface{} { return new(C14T0283) },
	func() interface{} { return new(C14T0284) },
	func() interface{} { return new(C14T0285) },
	func() interface{} { return new(C14T0286) },
	func() interface{} { return new(C14T0287) },
	func() interface{} { return new(C14T0288) },
	func() interface{} { return new(C14T0289) },
	func() interface{} { return new(C14T0290) },
	func() interface{} { return new(C14T0291) },
	func() interface{} { return new(C14T0292) },
	func() interface{} { return new(C14T0293) },
	func() interface{} { return new(C14T0294) },
	func() interface{} { return new(C14T0295) },
	func() interface{} { return new(C14T0296) },
	func() interface{} { return new(C14T0297) },
	func() interface{} { return new(C14T0298) },
	func() interface{} { return new(C14T0299) },
	func() interface{} { return new(C14T0300) },
	func() interface{} { return new(C14T0301) },
	func() interface{} { return new(C14T0302) },
	func() interface{} { return new(C14T0303) },
	func() interface{} { return new(C14T0304) },
	func() interface{} { return new(C14T0305) },
	func() interface{} { return new(C14T0306) },
	func() interface{} { return new(C14T0307) },
	func() interface{} { return new(C14T0308) },
	func() interface{} { return new(C14T0309) },
	func() interface{} { return new(C14T0310) },
	func() interface{} { return new(C14T0311) },
	func() interface{} { return new(C14T0312) },
	func() interface{} { return new(C14T0313) },
	func() interface{} { return new(C14T0314) },
	func() interface{} { return new(C14T0315) },
	func() interface{} { return new(C14T0316) },
	func() interface{} { return new(C14T0317) },
	func() interface{} { return new(C14T0318) },
	func() interface{} { return new(C14T0319) },
	func() interface{} { return new(C14T0320) },
	func() interface{} { return new(C14T0321) },
	func() interface{} { return new(C14T0322) },
	func() interface{} { return new(C14T0323) },
	func() interface{} { return new(C14T0324) },
	func() interface{} { return new(C14T0325) },
	func() interface{} { return new(C14T0326) },
	func() interface{} { return new(C14T0327) },
	func() interface{} { return new(C14T0328) },
	func() interface{} { return new(C14T0329) },
	func() interface{} { return new(C14T0330) },
	func() interface{} { return new(C14T0331) },
	func() interface{} { return new(C14T0332) },
	func() interface{} { return new(C14T0333) },
	func() interface{} { return new(C14T0334) },
	func() interface{} { return new(C14T0335) },
	func() interface{} { return new(C14T0336) },
	func() interface{} { return new(C14T0337) },
	func() interface{} { return new(C14T0338) },
	func() interface{} { return new(C14T0339) },
	func() interface{} { return new(C14T0340) },
	func() interface{} { return new(C14T0341) },
	func() interface{} { return new(C14T0342) },
	func() interface{} { return new(C14T0343) },
	func() interface{} { return new(C14T0344) },
	func() interface{} { return new(C14T0345) },
	func() interface{} { return new(C14T0346) },
	func() interface{} { return new(C14T0347) },
	func() interface{} { return new(C14T0348) },
	func() interface{} { return new(C14T0349) },
	func() interface{} { return new(C14T0350) },
	func() interface{} { return new(C14T0351) },
	func() interface{} { return new(C14T0352) },
	func() interface{} { return new(C14T0353) },
	func() interface{} { return new(C14T0354) },
	func() interface{} { return new(C14T0355) },
	func() interface{} { return new(C14T0356) },
	func() interface{} { return new(C14T0357) },
	func() interface{} { return new(C14T0358) },
	func() interface{} { return new(C14T0359) },
	func() interface{} { return new(C14T0360) },
	func() interface{} { return new(C14T0361) },
	func() interface{} { return new(C14T0362) },
	func() interface{} { return new(C14T0363) },
	func() interface{} { return new(C14T0364) },
	func() interface{} { return new(C14T0365) },
	func() interface{} { return new(C14T0366) },
	func() interface{} { return new(C14T0367) },
	func() interface{} { return new(C14T0368) },
	func() interface{} { return new(C14T0369) },
	func() interface{} { return new(C14T0370) },
	func() interface{} { return new(C14T0371) },
	func() interface{} { return new(C14T0372) },
	func() interface{} { return new(C14T0373) },
	func() interface{} { return new(C14T0374) },
	func() interface{} { return new(C14T0375) },
	func() interface{} { return new(C14T0376) },
	func() interface{} { return new(C14T0377) },
	func() interface{} { return new(C14T0378) },
	func() interface{} { return new(C14T0379) },
	func() interface{} { return new(C14T0380) },
	func() interface{} { return new(C14T0381) },
	func() interface{} { return new(C14T0382) },
	func() interface{} { return new(C14T0383) },
	func() interface{} { return new(C14T0384) },
	func() interface{} { return new(C14T0385) },
	func() interface{} { return new(C14T0386) },
	func() interface{} { return new(C14T0387) },
	func() interface{} { return new(C14T0388) },
	func() interface{} { return new(C14T0389) },
	func() interface{} { return new(C14T0390) },
	func() interface{} { return new(C14T0391) },
	func() interface{} { return new(C14T0392) },
	func() interface{} { return new(C14T0393) },
	func() interface{} { return new(C14T0394) },
	func() interface{} { return new(C14T0395) },
	func() interface{} { return new(C14T0396) },
	func() interface{} { return new(C14T0397) },
	func() interface{} { return new(C14T0398) },
	func() interface{} { return new(C14T0399) },
	func() interface{} { return new(C14T0400) },
	func() interface{} { return new(C14T0401) },
	func() interface{} { return new(C14T0402) },
	func() interface{} { return new(C14T0403) },
	func() interface{} { return new(C14T0404) },
	func() interface{} { return new(C14T0405) },
	func() interface{} { return new(C14T0406) },
	func() interface{} { return new(C14T0407) },
	func() interface{} { return new(C14T0408) },
	func() interface{} { return new(C14T0409) },
	func() interface{} { return new(C14T0410) },
	func() interface{} { return new(C14T0411) },
	func() interface{} { return new(C14T0412) },
	func() interface{} { return new(C14T0413) },
	func() interface{} { return new(C14T0414) },
	func() interface{} { return new(C14T0415) },
	func() interface{} { return new(C14T0416) },
	func() interface{} { return new(C14T0417) },
	func() interface{} { return new(C14T0418) },
	func() interface{} { return new(C14T0419) },
	func() interface{} { return new(C14T0420) },
	func() interface{} { return new(C14T0421) },
	func() interface{} { return new(C14T0422) },
	func() interface{} { return new(C14T0423) },
	func() interface{} { return new(C14T0424) },
	func() interface{} { return new(C14T0425) },
	func() interface{} { return new(C14T0426) },
	func() interface{} { return new(C14T0427) },
	func() interface{} { return new(C14T0428) },
	func() interface{} { return new(C14T0429) },
	func() interface{} { return new(C14T0430) },
	func() interface{} { return new(C14T0431) },
	func() interface{} { return new(C14T0432) },
	func() interface{} { return new(C14T0433) },
	func() interface{} { return new(C14T0434) },
	func() interface{} { return new(C14T0435) },
	func() interface{} { return new(C14T0436) },
	func() interface{} { return new(C14T0437) },
	func() interface{} { return new(C14T0438) },
	func() interface{} { return new(C14T0439) },
	func() interface{} { return new(C14T0440) },
	func() interface{} { return new(C14T0441) },
	func() interface{} { return new(C14T0442) },
	func() interface{} { return new(C14T0443) },
	func() interface{} { return new(C14T0444) },
	func() interface{} { return new(C14T0445) },
	func() interface{} { return new(C14T0446) },
	func() interface{} { return new(C14T0447) },
	func() interface{} { return new(C14T0448) },
	func() interface{} { return new(C14T0449) },
	func() interface{} { return new(C14T0450) },
	func() interface{} { return new(C14T0451) },
	func() interface{} { return new(C14T0452) },
	func() interface{} { return new(C14T0453) },
	func() interface{} { return new(C14T0454) },
	func() interface{} { return new(C14T0455) },
	func() interface{} { return new(C14T0456) },
	func() interface{} { return new(C14T0457) },
	func() interface{} { return new(C14T0458) },
	func() interface{} { return new(C14T0459) },
	func() interface{} { return new(C14T0460) },
	func() interface{} { return new(C14T0461) },
	func() interface{} { return new(C14T0462) },
	func() interface{} { return new(C14T0463) },
	func() interface{} { return new(C14T0464) },
	func() interface{} { return new(C14T0465) },
	func() interface{} { return new(C14T0466) },
	func() interface{} { return new(C14T0467) },
	func() interface{} { return new(C14T0468) },
	func() interface{} { return new(C14T0469) },
	func() interface{} { return new(C14T0470) },
	func() interface{} { return new(C14T0471) },
	func() interface{} { return new(C14T0472) },
	func() interface{} { return new(C14T0473) },
	func() interface{} { return new(C14T0474) },
	func() interface{} { return new(C14T0475) },
	func() interface{} { return new(C14T0476) },
	func() interface{} { return new(C14T0477) },
	func() interface{} { return new(C14T0478) },
	func() interface{} { return new(C14T0479) },
	func() interface{} { return new(C14T0480) },
	func() interface{} { return new(C14T0481) },
	func() interface{} { return new(C14T0482) },
	func() interface{} { return new(C14T0483) },
	func() interface{} { return new(C14T0484) },
	func() interface{} { return new(C14T0485) },
	func() interface{} { return new(C14T0486) },
	func() interface{} { return new(C14T0487) },
	func() interface{} { return new(C14T0488) },
	func() interface{} { return new(C14T0489) },
	func() interface{} { return new(C14T0490) },
	func() interface{} { return new(C14T0491) },
	func() interface{} { return new(C14T0492) },
	func() interface{} { return new(C14T0493) },
	func() interface{} { return new(C14T0494) },
	func() interface{} { return new(C14T0495) },
	func() interface{} { return new(C14T0496) },
	func() interface{} { return new(C14T0497) },
	func() interface{} { return new(C14T0498) },
	func() interface{} { return new(C14T0499) },
	func() interface{} { return new(C14T0500) },
	func() interface{} { return new(C14T0501) },
	func() interface{} { return new(C14T0502) },
	func() interface{} { return new(C14T0503) },
	func() interface{} { return new(C14T0504) },
	func() interface{} { return new(C14T0505) },
	func() interface{} { return new(C14T0506) },
	func() interface{} { return new(C14T0507) },
	func() interface{} { return new(C14T0508) },
	func() interface{} { return new(C14T0509) },
	func() interface{} { return new(C14T0510) },
	func() interface{} { return new(C14T0511) },
	func() interface{} { return new(C14T0512) },
	func() interface{} { return new(C14T0513) },
	func() interface{} { return new(C14T0514) },
	func() interface{} { return new(C14T0515) },
	func() interface{} { return new(C14T0516) },
	func() interface{} { return new(C14T0517) },
	func() interface{} { return new(C14T0518) },
	func() interface{} { return new(C14T0519) },
	func() interface{} { return new(C14T0520) },
	func() interface{} { return new(C14T0521) },
	func() interface{} { return new(C14T0522) },
	func() interface{} { return new(C14T0523) },
	func() interface{} { return new(C14T0524) },
	func() interface{} { return new(C14T0525) },
	func() interface{} { return new(C14T0526) },
	func() interface{} { return new(C14T0527) },
	func() interface{} { return new(C14T0528) },
	func() interface{} { return new(C14T0529) },
	func() interface{} { return new(C14T0530) },
	func() interface{} { return new(C14T0531) },
	func() interface{} { return new(C14T0532) },
	func() interface{} { return new(C14T0533) },
	func() interface{} { return new(C14T0534) },
	func() interface{} { return new(C14T0535) },
	func() interface{} { return new(C14T0536) },
	func() interface{} { return new(C14T0537) },
	func() interface{} { return new(C14T0538) },
	func() interface{} { return new(C14T0539) },
	func() interface{} { return new(C14T0540) },
	func() interface{} { return new(C14T0541) },
	func() interface{} { return new(C14T0542) },
	func() interface{} { return new(C14T0543) },
	func() interface{} { return new(C14T0544) },
	func() interface{} { return new(C14T0545) },
	func() interface{} { return new(C14T0546) },
	func() interface{} { return new(C14T0547) },
	func() interface{} { return new(C14T0548) },
	func() interface{} { return new(C14T0549) },
	func() interface{} { return new(C14T0550) },
	func() interface{} { return new(C14T0551) },
	func() interface{} { return new(C14T0552) },
	func() interface{} { return new(C14T0553) },
	func() interface{} { return new(C14T0554) },
	func() interface{} { return new(C14T0555) },
	func() interface{} { return new(C14T0556) },
	func() interface{} { return new(C14T0557) },
	func() interface{} { return new(C14T0558) },
	func() interface{} { return new(C14T0559) },
	func() interface{} { return new(C14T0560) },
	func() interface{} { return new(C14T0561) },
	func() interface{} { return new(C14T0562) },
	func() interface{} { return new(C14T0563) },
	func() interface{} { return new(C14T0564) },
	func() interface{} { return new(C14T0565) },
	func() interface{} { return new(C14T0566) },
	func() interface{} { return new(C14T0567) },
	func() interface{} { return new(C14T0568) },
	func() interface{} { return new(C14T0569) },
	func() interface{} { return new(C14T0570) },
	func() interface{} { return new(C14T0571) },
	func() interface{} { return new(C14T0572) },
	func() interface{} { return new(C14T0573) },
	func() interface{} { return new(C14T0574) },
	func() interface{} { return new(C14T0575) },
	func() interface{} { return new(C14T0576) },
	func() interface{} { return new(C14T0577) },
	func() interface{} { return new(C14T0578) },
	func() interface{} { return new(C14T0579) },
	func() interface{} { return new(C14T0580) },
	func() interface{} { return new(C14T0581) },
	func() interface{} { return new(C14T0582) },
	func() interface{} { return new(C14T0583) },
	func() interface{} { return new(C14T0584) },
	func() interface{} { return new(C14T0585) },
	func() interface{} { return new(C14T0586) },
	func() interface{} { return new(C14T0587) },
	func() interface{} { return new(C14T0588) },
	func() interface{} { return new(C14T0589) },
	func() interface{} { return new(C14T0590) },
	func() interface{} { return new(C14T0591) },
	func() interface{} { return new(C14T0592) },
	func() interface{} { return new(C14T0593) },
	func() interface{} { return new(C14T0594) },
	func() interface{} { return new(C14T0595) },
	func() interface{} { return new(C14T0596) },
	func() interface{} { return new(C14T0597) },
	func() interface{} { return new(C14T0598) },
	func() interface{} { return new(C14T0599) },
	func() interface{} { return new(C14T0600) },
	func() interface{} { return new(C14T0601) },
	func() interface{} { return new(C14T0602) },
	func() interface{} { return new(C14T0603) },
	func() interface{} { return new(C14T0604) },
	func() interface{} { return new(C14T0605) },
	func() interface{} { return new(C14T0606) },
	func() interface{} { return new(C14T0607) },
	func() interface{} { return new(C14T0608) },
	func() interface{} { return new(C14T0609) },
	func() interface{} { return new(C14T0610) },
	func() interface{} { return new(C14T0611) },
	func() interface{} { return new(C14T0612) },
	func() interface{} { return new(C14T0613) },
	func() interface{} { return new(C14T0614) },
	func() interface{} { return new(C14T0615) },
	func() interface{} { return new(C14T0616) },
	func() interface{} { return new(C14T0617) },
	func() interface{} { return new(C14T0618) },
	func() interface{} { return new(C14T0619) },
	func() interface{} { return new(C14T0620) },
	func() interface{} { return new(C14T0621) },
	func() interface{} { return new(C14T0622) },
	func() interface{} { return new(C14T0623) },
	func() interface{} { return new(C14T0624) },
	func() interface{} { return new(C14T0625) },
	func() interface{} { return new(C14T0626) },
	func() interface{} { return new(C14T0627) },
	func() interface{} { return new(C14T0628) },
	func() interface{} { return new(C14T0629) },
	func() interface{} { return new(C14T0630) },
	func() interface{} { return new(C14T0631) },
	func() interface{} { return new(C14T0632) },
	func() interface{} { return new(C14T0633) },
	func() interface{} { return new(C14T0634) },
	func() interface{} { return new(C14T0635) },
	func() interface{} { return new(C14T0636) },
	func() interface{} { return new(C14T0637) },
	func() interface{} { return new(C14T0638) },
	func() interface{} { return new(C14T0639) },
	func() interface{} { return new(C14T0640) },
	func() interface{} { return new(C14T0641) },
	func() interface{} { return new(C14T0642) },
	func() interface{} { return new(C14T0643) },
	func() interface{} { return new(C14T0644) },
	func() interface{} { return new(C14T0645) },
	func() interface{} { return new(C14T0646) },
	func() interface{} { return new(C14T0647) },
	func() interface{} { return new(C14T0648) },
	func() interface{} { return new(C14T0649) },
	func() interface{} { return new(C14T0650) },
	func() interface{} { return new(C14T0651) },
	func() interface{} { return new(C14T0652) },
	func() interface{} { return new(C14T0653) },
	func() interface{} { return new(C14T0654) },
	func() interface{} { return new(C14T0655) },
	func() interface{} { return new(C14T0656) },
	func() interface{} { return new(C14T0657) },
	func() interface{} { return new(C14T0658) },
	func() interface{} { return new(C14T0659) },
	func() interface{} { return new(C14T0660) },
	func() interface{} { return new(C14T0661) },
	func() interface{} { return new(C14T0662) },
	func() interface{} { return new(C14T0663) },
	func() interface{} { return new(C14T0664) },
	func() interface{} { return new(C14T0665) },
	func() interface{} { return new(C14T0666) },
	func() interface{} { return new(C14T0667) },
	func() interface{} { return new(C14T0668) },
	func() interface{} { return new(C14T0669) },
	func() interface{} { return new(C14T0670) },
	func() interface{} { return new(C14T0671) },
	func() interface{} { return new(C14T0672) },
	func() interface{} { return new(C14T0673) },
	func() interface{} { return new(C14T0674) },
	func() interface{} { return new(C14T0675) },
	func() interface{} { return new(C14T0676) },
	func() interface{} { return new(C14T0677) },
	func() interface{} { return new(C14T0678) },
	func() interface{} { return new(C14T0679) },
	func() interface{} { return new(C14T0680) },
	func() interface{} { return new(C14T0681) },
	func() interface{} { return new(C14T0682) },
	func() interface{} { return new(C14T0683) },
	func() interface{} { return new(C14T0684) },
	func() interface{} { return new(C14T0685) },
	func() interface{} { return new(C14T0686) },
	func() interface{} { return new(C14T0687) },
	func() interface{} { return new(C14T0688) },
	func() interface{} { return new(C14T0689) },
	func() interface{} { return new(C14T0690) },
	func() interface{} { return new(C14T0691) },
	func() interface{} { return new(C14T0692) },
	func() interface{} { return new(C14T0693) },
	func() interface{} { return new(C14T0694) },
	func() interface{} { return new(C14T0695) },
	func() interface{} { return new(C14T0696) },
	func() interface{} { return new(C14T0697) },
	func() interface{} { return new(C14T0698) },
	func() interface{} { return new(C14T0699) },
	func() interface{} { return new(C14T0700) },
	func() interface{} { return new(C14T0701) },
	func() interface{} { return new(C14T0702) },
	func() interface{} { return new(C14T0703) },
	func() interface{} { return new(C14T0704) },
	func() interface{} { return new(C14T0705) },
	func() interface{} { return new(C14T0706) },
	func() interface{} { return new(C14T0707) },
	func() interface{} { return new(C14T0708) },
	func() interface{} { return new(C14T0709) },
	func() interface{} { return new(C14T0710) },
	func() interface{} { return new(C14T0711) },
	func() interface{} { return new(C14T0712) },
	func() interface{} { return new(C14T0713) },
	func() interface{} { return new(C14T0714) },
	func() interface{} { return new(C14T0715) },
	func() interface{} { return new(C14T0716) },
	func() interface{} { return new(C14T0717) },
	func() interface{} { return new(C14T0718) },
	func() interface{} { return new(C14T0719) },
	func() interface{} { return new(C14T0720) },
	func() interface{} { return new(C14T0721) },
	func() interface{} { return new(C14T0722) },
	func() interface{} { return new(C14T0723) },
	func() interface{} { return new(C14T0724) },
	func() interface{} { return new(C14T0725) },
	func() interface{} { return new(C14T0726) },
	func() interface{} { return new(C14T0727) },
	func() interface{} { return new(C14T0728) },
	func() interface{} { return new(C14T0729) },
	func() interface{} { return new(C14T0730) },
	func() interface{} { return new(C14T0731) },
	func() interface{} { return new(C14T0732) },
	func() interface{} { return new(C14T0733) },
	func() interface{} { return new(C14T0734) },
	func() interface{} { return new(C14T0735) },
	func() interface{} { return new(C14T0736) },
	func() interface{} { return new(C14T0737) },
	func() interface{} { return new(C14T0738) },
	func() interface{} { return new(C14T0739) },
	func() interface{} { return new(C14T0740) },
	func() interface{} { return new(C14T0741) },
	func() interface{} { return new(C14T0742) },
	func() interface{} { return new(C14T0743) },
	func() interface{} { return new(C14T0744) },
	func() interface{} { return new(C14T0745) },
	func() interface{} { return new(C14T0746) },
	func() interface{} { return new(C14T0747) },
	func() interface{} { return new(C14T0748) },
	func() interface{} { return new(C14T0749) },
	func() interface{} { return new(C14T0750) },
	func() interface{} { return new(C14T0751) },
	func() interface{} { return new(C14T0752) },
	func() interface{} { return new(C14T0753) },
	func() interface{} { return new(C14T0754) },
	func() interface{} { return new(C14T0755) },
	func() interface{} { return new(C14T0756) },
	func() interface{} { return new(C14T0757) },
	func() interface{} { return new(C14T0758) },
	func() interface{} { return new(C14T0759) },
	func() interface{} { return new(C14T0760) },
	func() interface{} { return new(C14T0761) },
	func() interface{} { return new(C14T0762) },
	func() interface{} { return new(C14T0763) },
	func() interface{} { return new(C14T0764) },
	func() interface{} { return new(C14T0765) },
	func() interface{} { return new(C14T0766) },
	func() interface{} { return new(C14T0767) },
	func() interface{} { return new(C14T0768) },
	func() interface{} { return new(C14T0769) },
	func() interface{} { return new(C14T0770) },
	func() interface{} { return new(C14T0771) },
	func() interface{} { return new(C14T0772) },
	func() interface{} { return new(C14T0773) },
	func() interface{} { return new(C14T0774) },
	func() interface{} { return new(C14T0775) },
	func() interface{} { return new(C14T0776) },
	func() interface{} { return new(C14T0777) },
	func() interface{} { return new(C14T0778) },
	func() interface{} { return new(C14T0779) },
	func() interface{} { return new(C14T0780) },
	func() interface{} { return new(C14T0781) },
	func() interface{} { return new(C14T0782) },
	func() interface{} { return new(C14T0783) },
	func() interface{} { return new(C14T0784) },
	func() interface{} { return new(C14T0785) },
	func() interface{} { return new(C14T0786) },
	func() interface{} { return new(C14T0787) },
	func() interface{} { return new(C14T0788) },
	func() interface{} { return new(C14T0789) },
	func() interface{} { return new(C14T0790) },
	func() interface{} { return new(C14T0791) },
	func() interface{} { return new(C14T0792) },
	func() interface{} { return new(C14T0793) },
	func() interface{} { return new(C14T0794) },
	func() interface{} { return new(C14T0795) },
	func() interface{} { return new(C14T0796) },
	func() interface{} { return new(C14T0797) },
	func() interface{} { return new(C14T0798) },
	func() interface{} { return new(C14T0799) },
	func() interface{} { return new(C14T0800) },
	func() interface{} { return new(C14T0801) },
	func() interface{} { return new(C14T0802) },
	func() interface{} { return new(C14T0803) },
	func() interface{} { return new(C14T0804) },
	func() interface{} { return new(C14T0805) },
	func() interface{} { return new(C14T0806) },
	func() interface{} { return new(C14T0807) },
	func() interface{} { return new(C14T0808) },
	func() interface{} { return new(C14T0809) },
	func() interface{} { return new(C14T0810) },
	func() interface{} { return new(C14T0811) },
	func() interface{} { return new(C14T0812) },
	func() interface{} { return new(C14T0813) },
	func() interface{} { return new(C14T0814) },
	func() interface{} { return new(C14T0815) },
	func() interface{} { return new(C14T0816) },
	func() interface{} { return new(C14T0817) },
	func() interface{} { return new(C14T0818) },
	func() interface{} { return new(C14T0819) },
	func() interface{} { return new(C14T0820) },
	func() interface{} { return new(C14T0821) },
	func() interface{} { return new(C14T0822) },
	func() interface{} { return new(C14T0823) },
	func() interface{} { return new(C14T0824) },
	func() interface{} { return new(C14T0825) },
	func() interface{} { return new(C14T0826) },
	func() interface{} { return new(C14T0827) },
	func() interface{} { return new(C14T0828) },
	func() interface{} { return new(C14T0829) },
	func() interface{} { return new(C14T0830) },
	func() interface{} { return new(C14T0831) },
	func() interface{} { return new(C14T0832) },
	func() interface{} { return new(C14T0833) },
	func() interface{} { return new(C14T0834) },
	func() interface{} { return new(C14T0835) },
	func() interface{} { return new(C14T0836) },
	func() interface{} { return new(C14T0837) },
	func() interface{} { return new(C14T0838) },
	func() interface{} { return new(C14T0839) },
	func() interface{} { return new(C14T0840) },
	func() interface{} { return new(C14T0841) },
	func() interface{} { return new(C14T0842) },
	func() interface{} { return new(C14T0843) },
	func() interface{} { return new(C14T0844) },
	func() interface{} { return new(C14T0845) },
	func() interface{} { return new(C14T0846) },
	func() interface{} { return new(C14T0847) },
	func() interface{} { return new(C14T0848) },
	func() interface{} { return new(C14T0849) },
	func() interface{} { return new(C14T0850) },
	func() interface{} { return new(C14T0851) },
	func() interface{} { return new(C14T0852) },
	func() interface{} { return new(C14T0853) },
	func() interface{} { return new(C14T0854) },
	func() interface{} { return new(C14T0855) },
	func() interface{} { return new(C14T0856) },
	func() interface{} { return new(C14T0857) },
	func() interface{} { return new(C14T0858) },
	func() interface{} { return new(C14T0859) },
	func() interface{} { return new(C14T0860) },
	func() interface{} { return new(C14T0861) },
	func() interface{} { return new(C14T0862) },
	func() interface{} { return new(C14T0863) },
	func() interface{} { return new(C14T0864) },
	func() interface{} { return new(C14T0865) },
	func() interface{} { return new(C14T0866) },
	func() interface{} { return new(C14T0867) },
	func() interface{} { return new(C14T0868) },
	func() interface{} { return new(C14T0869) },
	func() interface{} { return new(C14T0870) },
	func() interface{} { return new(C14T0871) },
	func() interface{} { return new(C14T0872) },
	func() interface{} { return new(C14T0873) },
	func() interface{} { return new(C14T0874) },
	func() interface{} { return new(C14T0875) },
	func() interface{} { return new(C14T0876) },
	func() interface{} { return new(C14T0877) },
	func() interface{} { return new(C14T0878) },
	func() interface{} { return new(C14T0879) },
	func() interface{} { return new(C14T0880) },
	func() interface{} { return new(C14T0881) },
	func() interface{} { return new(C14T0882) },
	func() interface{} { return new(C14T0883) },
	func() interface{} { return new(C14T0884) },
	func() interface{} { return new(C14T0885) },
	func() interface{} { return new(C14T0886) },
	func() interface{} { return new(C14T0887) },
	func() interface{} { return new(C14T0888) },
	func() interface{} { return new(C14T0889) },
	func() interface{} { return new(C14T0890) },
	func() interface{} { return new(C14T0891) },
	func() interface{} { return new(C14T0892) },
	func() interface{} { return new(C14T0893) },
	func() interface{} { return new(C14T0894) },
	func() interface{} { return new(C14T0895) },
	func() interface{} { return new(C14T0896) },
	func() interface{} { return new(C14T0897) },
	func() interface{} { return new(C14T0898) },
	func() interface{} { return new(C14T0899) },
}

var c14Slices = []interface{}{
	[]C14T0000{{0}}, map[string]*C14T0000{"k": {0}}, [2]C14T0000{{0}, {0}},
	[]C14T0003{{3}}, map[string]*C14T0003{"k": {3}}, [2]C14T0003{{3}, {3}},
	[]C14T0006{{6}}, map[string]*C14T0006{"k": {6}}, [2]C14T0006{{6}, {6}},
	[]C14T0009{{9}}, map[string]*C14T0009{"k": {9}}, [2]C14T0009{{9}, {9}},
	[]C14T0012{{12}}, map[string]*C14T0012{"k": {12}}, [2]C14T0012{{12}, {12}},
	[]C14T0015{{15}}, map[string]*C14T0015{"k": {15}}, [2]C14T0015{{15}, {15}},
	[]C14T0018{{18}}, map[string]*C14T0018{"k": {18}}, [2]C14T0018{{18}, {18}},
	[]C14T0021{{21}}, map[string]*C14T0021{"k": {21}}, [2]C14T0021{{21}, {21}},
	[]C14T0024{{24}}, map[string]*C14T0024{"k": {24}}, [2]C14T0024{{24}, {24}},
	[]C14T0027{{27}}, map[string]*C14T0027{"k": {27}}, [2]C14T0027{{27}, {27}},
	[]C14T0030{{30}}, map[string]*C14T0030{"k": {30}}, [2]C14T0030{{30}, {30}},
	[]C14T0033{{33}}, map[string]*C14T0033{"k": {33}}, [2]C14T0033{{33}, {33}},
	[]C14T0036{{36}}, map[string]*C14T0036{"k": {36}}, [2]C14T0036{{36}, {36}},
	[]C14T0039{{39}}, map[string]*C14T0039{"k": {39}}, [2]C14T0039{{39}, {39}},
	[]C14T0042{{42}}, map[string]*C14T0042{"k": {42}}, [2]C14T0042{{42}, {42}},
	[]C14T0045{{45}}, map[string]*C14T0045{"k": {45}}, [2]C14T0045{{45}, {45}},
	[]C14T0048{{48}}, map[string]*C14T0048{"k": {48}}, [2]C14T0048{{48}, {48}},
	[]C14T0051{{51}}, map[string]*C14T0051{"k": {51}}, [2]C14T0051{{51}, {51}},
	[]C14T0054{{54}}, map[string]*C14T0054{"k": {54}}, [2]C14T0054{{54}, {54}},
	[]C14T0057{{57}}, map[string]*C14T0057{"k": {57}}, [2]C14T0057{{57}, {57}},
	[]C14T0060{{60}}, map[string]*C14T0060{"k": {60}}, [2]C14T0060{{60}, {60}},
	[]C14T0063{{63}}, map[string]*C14T0063{"k": {63}}, [2]C14T0063{{63}, {63}},
	[]C14T0066{{66}}, map[string]*C14T0066{"k": {66}}, [2]C14T0066{{66}, {66}},
	[]C14T0069{{69}}, map[string]*C14T0069{"k": {69}}, [2]C14T0069{{69}, {69}},
	[]C14T0072{{72}}, map[string]*C14T0072{"k": {72}}, [2]C14T0072{{72}, {72}},
	[]C14T0075{{75}}, map[string]*C14T0075{"k": {75}}, [2]C14T0075{{75}, {75}},
	[]C14T0078{{78}}, map[string]*C14T0078{"k": {78}}, [2]C14T0078{{78}, {78}},
	[]C14T0081{{81}}, map[string]*C14T0081{"k": {81}}, [2]C14T0081{{81}, {81}},
	[]C14T0084{{84}}, map[string]*C14T0084{"k": {84}}, [2]C14T0084{{84}, {84}},
	[]C14T0087{{87}}, map[string]*C14T0087{"k": {87}}, [2]C14T0087{{87}, {87}},
	[]C14T0090{{90}}, map[string]*C14T0090{"k": {90}}, [2]C14T0090{{90}, {90}},
	[]C14T0093{{93}}, map[string]*C14T0093{"k": {93}}, [2]C14T0093{{93}, {93}},
	[]C14T0096{{96}}, map[string]*C14T0096{"k": {96}}, [2]C14T0096{{96}, {96}},
	[]C14T0099{{99}}, map[string]*C14T0099{"k": {99}}, [2]C14T0099{{99}, {99}},
	[]C14T0102{{102}}, map[string]*C14T0102{"k": {102}}, [2]C14T0102{{102}, {102}},
	[]C14T0105{{105}}, map[string]*C14T0105{"k": {105}}, [2]C14T0105{{105}, {105}},
	[]C14T0108{{108}}, map[string]*C14T0108{"k": {108}}, [2]C14T0108{{108}, {108}},
	[]C14T0111{{111}}, map[string]*C14T0111{"k": {111}}, [2]C14T0111{{111}, {111}},
	[]C14T0114{{114}}, map[string]*C14T0114{"k": {114}}, [2]C14T0114{{114}, {114}},
	[]C14T0117{{117}}, map[string]*C14T0117{"k": {117}}, [2]C14T0117{{117}, {117}},
	[]C14T0120{{120}}, map[string]*C14T0120{"k": {120}}, [2]C14T0120{{120}, {120}},
	[]C14T0123{{123}}, map[string]*C14T0123{"k": {123}}, [2]C14T0123{{123}, {123}},
	[]C14T0126{{126}}, map[string]*C14T0126{"k": {126}}, [2]C14T0126{{126}, {126}},
	[]C14T0129{{129}}, map[string]*C14T0129{"k": {129}}, [2]C14T0129{{129}, {129}},
	[]C14T0132{{132}}, map[string]*C14T0132{"k": {132}}, [2]C14T0132{{132}, {132}},
	[]C14T0135{{135}}, map[string]*C14T0135{"k": {135}}, [2]C14T0135{{135}, {135}},
	[]C14T0138{{138}}, map[string]*C14T0138{"k": {138}}, [2]C14T0138{{138}, {138}},
	[]C14T0141{{141}}, map[string]*C14T0141{"k": {141}}, [2]C14T0141{{141}, {141}},
	[]C14T0144{{144}}, map[string]*C14T0144{"k": {144}}, [2]C14T0144{{144}, {144}},
	[]C14T0147{{147}}, map[string]*C14T0147{"k": {147}}, [2]C14T0147{{147}, {147}},
	[]C14T0150{{150}}, map[string]*C14T0150{"k": {150}}, [2]C14T0150{{150}, {150}},
	[]C14T0153{{153}}, map[string]*C14T0153{"k": {153}}, [2]C14T0153{{153}, {153}},
	[]C14T0156{{156}}, map[string]*C14T0156{"k": {156}}, [2]C14T0156{{156}, {156}},
	[]C14T0159{{159}}, map[string]*C14T0159{"k": {159}}, [2]C14T0159{{159}, {159}},
	[]C14T0162{{162}}, map[string]*C14T0162{"k": {162}}, [2]C14T0162{{162}, {162}},
	[]C14T0165{{165}}, map[string]*C14T0165{"k": {165}}, [2]C14T0165{{165}, {165}},
	[]C14T0168{{168}}, map[string]*C14T0168{"k": {168}}, [2]C14T0168{{168}, {168}},
	[]C14T0171{{171}}, map[string]*C14T0171{"k": {171}}, [2]C14T0171{{171}, {171}},
	[]C14T0174{{174}}, map[string]*C14T0174{"k": {174}}, [2]C14T0174{{174}, {174}},
	[]C14T0177{{177}}, map[string]*C14T0177{"k": {177}}, [2]C14T0177{{177}, {177}},
	[]C14T0180{{180}}, map[string]*C14T0180{"k": {180}}, [2]C14T0180{{180}, {180}},
	[]C14T0183{{183}}, map[string]*C14T0183{"k": {183}}, [2]C14T0183{{183}, {183}},
	[]C14T0186{{186}}, map[string]*C14T0186{"k": {186}}, [2]C14T0186{{186}, {186}},
	[]C14T0189{{189}}, map[string]*C14T0189{"k": {189}}, [2]C14T0189{{189}, {189}},
	[]C14T0192{{192}}, map[string]*C14T0192{"k": {192}}, [2]C14T0192{{192}, {192}},
	[]C14T0195{{195}}, map[string]*C14T0195{"k": {195}}, [2]C14T0195{{195}, {195}},
	[]C14T0198{{198}}, map[string]*C14T0198{"k": {198}}, [2]C14T0198{{198}, {198}},
	[]C14T0201{{201}}, map[string]*C14T0201{"k": {201}}, [2]C14T0201{{201}, {201}},
	[]C14T0204{{204}}, map[string]*C14T0204{"k": {204}}, [2]C14T0204{{204}, {204}},
	[]C14T0207{{207}}, map[string]*C14T0207{"k": {207}}, [2]C14T0207{{207}, {207}},
	[]C14T0210{{210}}, map[string]*C14T0210{"k": {210}}, [2]C14T0210{{210}, {210}},
	[]C14T0213{{213}}, map[string]*C14T0213{"k": {213}}, [2]C14T0213{{213}, {213}},
	[]C14T0216{{216}}, map[string]*C14T0216{"k": {216}}, [2]C14T0216{{216}, {216}},
	[]C14T0219{{219}}, map[string]*C14T0219{"k": {219}}, [2]C14T0219{{219}, {219}},
	[]C14T0222{{222}}, map[string]*C14T0222{"k": {222}}, [2]C14T0222{{222}, {222}},
	[]C14T0225{{225}}, map[string]*C14T0225{"k": {225}}, [2]C14T0225{{225}, {225}},
	[]C14T0228{{228}}, map[string]*C14T0228{"k": {228}}, [2]C14T0228{{228}, {228}},
	[]C14T0231{{231}}, map[string]*C14T0231{"k": {231}}, [2]C14T0231{{231}, {231}},
	[]C14T0234{{234}}, map[string]*C14T0234{"k": {234}}, [2]C14T0234{{234}, {234}},
	[]C14T0237{{237}}, map[string]*C14T0237{"k": {237}}, [2]C14T0237{{237}, {237}},
	[]C14T0240{{240}}, map[string]*C14T0240{"k": {240}}, [2]C14T0240{{240}, {240}},
	[]C14T0243{{243}}, map[string]*C14T0243{"k": {243}}, [2]C14T0243{{243}, {243}},
	[]C14T0246{{246}}, map[string]*C14T0246{"k": {246}}, [2]C14T0246{{246}, {246}},
	[]C14T0249{{249}}, map[string]*C14T0249{"k": {249}}, [2]C14T0249{{249}, {249}},
	[]C14T0252{{252}}, map[string]*C14T0252{"k": {252}}, [2]C14T0252{{252}, {252}},
	[]C14T0255{{255}}, map[string]*C14T0255{"k": {255}}, [2]C14T0255{{255}, {255}},
	[]C14T0258{{258}}, map[string]*C14T0258{"k": {258}}, [2]C14T0258{{258}, {258}},
	[]C14T0261{{261}}, map[string]*C14T0261{"k": {261}}, [2]C14T0261{{261}, {261}},
	[]C14T0264{{264}}, map[string]*C14T0264{"k": {264}}, [2]C14T0264{{264}, {264}},
	[]C14T0267{{267}}, map[string]*C14T0267{"k": {267}}, [2]C14T0267{{267}, {267}},
	[]C14T0270{{270}}, map[string]*C14T0270{"k": {270}}, [2]C14T0270{{270}, {270}},
	[]C14T0273{{273}}, map[string]*C14T0273{"k": {273}}, [2]C14T0273{{273}, {273}},
	[]C14T0276{{276}}, map[string]*C14T0276{"k": {276}}, [2]C14T0276{{276}, {276}},
	[]C14T0279{{279}}, map[string]*C14T0279{"k": {279}}, [2]C14T0279{{279}, {279}},
	[]C14T0282{{282}}, map[string]*C14T0282{"k": {282}}, [2]C14T0282{{282}, {282}},
	[]C14T0285{{285}}, map[string]*C14T0285{"k": {285}}, [2]C14T0285{{285}, {285}},
	[]C14T0288{{288}}, map[string]*C14T0288{"k": {288}}, [2]C14T0288{{288}, {288}},
	[]C14T0291{{291}}, map[string]*C14T0291{"k": {291}}, [2]C14T0291{{291}, {291}},
	[]C14T0294{{294}}, map[string]*C14T0294{"k": {294}}, [2]C14T0294{{294}, {294}},
	[]C14T0297{{297}}, map[string]*C14T0297{"k": {297}}, [2]C14T0297{{297}, {297}},
	[]C14T0300{{300}}, map[string]*C14T0300{"k": {300}}, [2]C14T0300{{300}, {300}},
	[]C14T0303{{303}}, map[string]*C14T0303{"k": {303}}, [2]C14T0303{{303}, {303}},
	[]C14T0306{{306}}, map[string]*C14T0306{"k": {306}}, [2]C14T0306{{306}, {306}},
	[]C14T0309{{309}}, map[string]*C14T0309{"k": {309}}, [2]C14T0309{{309}, {309}},
	[]C14T0312{{312}}, map[string]*C14T0312{"k": {312}}, [2]C14T0312{{312}, {312}},
	[]C14T0315{{315}}, map[string]*C14T0315{"k": {315}}, [2]C14T0315{{315}, {315}},
	[]C14T0318{{318}}, map[string]*C14T0318{"k": {318}}, [2]C14T0318{{318}, {318}},
	[]C14T0321{{321}}, map[string]*C14T0321{"k": {321}}, [2]C14T0321{{321}, {321}},
	[]C14T0324{{324}}, map[string]*C14T0324{"k": {324}}, [2]C14T0324{{324}, {324}},
	[]C14T0327{{327}}, map[string]*C14T0327{"k": {327}}, [2]C14T0327{{327}, {327}},
	[]C14T0330{{330}}, map[string]*C14T0330{"k": {330}}, [2]C14T0330{{330}, {330}},
	[]C14T0333{{333}}, map[string]*C14T0333{"k": {333}}, [2]C14T0333{{333}, {333}},
	[]C14T0336{{336}}, map[string]*C14T0336{"k": {336}}, [2]C14T0336{{336}, {336}},
	[]C14T0339{{339}}, map[string]*C14T0339{"k": {339}}, [2]C14T0339{{339}, {339}},
	[]C14T0342{{342}}, map[string]*C14T0342{"k": {342}}, [2]C14T0342{{342}, {342}},
	[]C14T0345{{345}}, map[string]*C14T0345{"k": {345}}, [2]C14T0345{{345}, {345}},
	[]C14T0348{{348}}, map[string]*C14T0348{"k": {348}}, [2]C14T0348{{348}, {348}},
	[]C14T0351{{351}}, map[string]*C14T0351{"k": {351}}, [2]C14T0351{{351}, {351}},
	[]C14T0354{{354}}, map[string]*C14T0354{"k": {354}}, [2]C14T0354{{354}, {354}},
	[]C14T0357{{357}}, map[string]*C14T0357{"k": {357}}, [2]C14T0357{{357}, {357}},
	[]C14T0360{{360}}, map[string]*C14T0360{"k": {360}}, [2]C14T0360{{360}, {360}},
	[]C14T0363{{363}}, map[string]*C14T0363{"k": {363}}, [2]C14T0363{{363}, {363}},
	[]C14T0366{{366}}, map[string]*C14T0366{"k": {366}}, [2]C14T0366{{366}, {366}},
	[]C14T0369{{369}}, map[string]*C14T0369{"k": {369}}, [2]C14T0369{{369}, {369}},
	[]C14T0372{{372}}, map[string]*C14T0372{"k": {372}}, [2]C14T0372{{372}, {372}},
	[]C14T0375{{375}}, map[string]*C14T0375{"k": {375}}, [2]C14T0375{{375}, {375}},
	[]C14T0378{{378}}, map[string]*C14T0378{"k": {378}}, [2]C14T0378{{378}, {378}},
	[]C14T0381{{381}}, map[string]*C14T0381{"k": {381}}, [2]C14T0381{{381}, {381}},
	[]C14T0384{{384}}, map[string]*C14T0384{"k": {384}}, [2]C14T0384{{384}, {384}},
	[]C14T0387{{387}}, map[string]*C14T0387{"k": {387}}, [2]C14T0387{{387}, {387}},
	[]C14T0390{{390}}, map[string]*C14T0390{"k": {390}}, [2]C14T0390{{390}, {390}},
	[]C14T0393{{393}}, map[string]*C14T0393{"k": {393}}, [2]C14T0393{{393}, {393}},
	[]C14T0396{{396}}, map[string]*C14T0396{"k": {396}}, [2]C14T0396{{396}, {396}},
	[]C14T0399{{399}}, map[string]*C14T0399{"k": {399}}, [2]C14T0399{{399}, {399}},
	[]C14T0402{{402}}, map[string]*C14T0402{"k": {402}}, [2]C14T0402{{402}, {402}},
	[]C14T0405{{405}}, map[string]*C14T0405{"k": {405}}, [2]C14T0405{{405}, {405}},
	[]C14T0408{{408}}, map[string]*C14T0408{"k": {408}}, [2]C14T0408{{408}, {408}},
	[]C14T0411{{411}}, map[string]*C14T0411{"k": {411}}, [2]C14T0411{{411}, {411}},
	[]C14T0414{{414}}, map[string]*C14T0414{"k": {414}}, [2]C14T0414{{414}, {414}},
	[]C14T0417{{417}}, map[string]*C14T0417{"k": {417}}, [2]C14T0417{{417}, {417}},
	[]C14T0420{{420}}, map[string]*C14T0420{"k": {420}}, [2]C14T0420{{420}, {420}},
	[]C14T0423{{423}}, map[string]*C14T0423{"k": {423}}, [2]C14T0423{{423}, {423}},
	[]C14T0426{{426}}, map[string]*C14T0426{"k": {426}}, [2]C14T0426{{426}, {426}},
	[]C14T0429{{429}}, map[string]*C14T0429{"k": {429}}, [2]C14T0429{{429}, {429}},
	[]C14T0432{{432}}, map[string]*C14T0432{"k": {432}}, [2]C14T0432{{432}, {432}},
	[]C14T0435{{435}}, map[string]*C14T0435{"k": {435}}, [2]C14T0435{{435}, {435}},
	[]C14T0438{{438}}, map[string]*C14T0438{"k": {438}}, [2]C14T0438{{438}, {438}},
	[]C14T0441{{441}}, map[string]*C14T0441{"k": {441}}, [2]C14T0441{{441}, {441}},
	[]C14T0444{{444}}, map[string]*C14T0444{"k": {444}}, [2]C14T0444{{444}, {444}},
	[]C14T0447{{447}}, map[string]*C14T0447{"k": {447}}, [2]C14T0447{{447}, {447}},
	[]C14T0450{{450}}, map[string]*C14T0450{"k": {450}}, [2]C14T0450{{450}, {450}},
	[]C14T0453{{453}}, map[string]*C14T0453{"k": {453}}, [2]C14T0453{{453}, {453}},
	[]C14T0456{{456}}, map[string]*C14T0456{"k": {456}}, [2]C14T0456{{456}, {456}},
	[]C14T0459{{459}}, map[string]*C14T0459{"k": {459}}, [2]C14T0459{{459}, {459}},
	[]C14T0462{{462}}, map[string]*C14T0462{"k": {462}}, [2]C14T0462{{462}, {462}},
	[]C14T0465{{465}}, map[string]*C14T0465{"k": {465}}, [2]C14T0465{{465}, {465}},
	[]C14T0468{{468}}, map[string]*C14T0468{"k": {468}}, [2]C14T0468{{468}, {468}},
	[]C14T0471{{471}}, map[string]*C14T0471{"k": {471}}, [2]C14T0471{{471}, {471}},
	[]C14T0474{{474}}, map[string]*C14T0474{"k": {474}}, [2]C14T0474{{474}, {474}},
	[]C14T0477{{477}}, map[string]*C14T0477{"k": {477}}, [2]C14T0477{{477}, {477}},
	[]C14T0480{{480}}, map[string]*C14T0480{"k": {480}}, [2]C14T0480{{480}, {480}},
	[]C14T0483{{483}}, map[string]*C14T0483{"k": {483}}, [2]C14T0483{{483}, {483}},
	[]C14T0486{{486}}, map[string]*C14T0486{"k": {486}}, [2]C14T0486{{486}, {486}},
	[]C14T0489{{489}}, map[string]*C14T0489{"k": {489}}, [2]C14T0489{{489}, {489}},
	[]C14T0492{{492}}, map[string]*C14T0492{"k": {492}}, [2]C14T0492{{492}, {492}},
	[]C14T0495{{495}}, map[string]*C14T0495{"k": {495}}, [2]C14T0495{{495}, {495}},
	[]C14T0498{{498}}, map[string]*C14T0498{"k": {498}}, [2]C14T0498{{498}, {498}},
	[]C14T0501{{501}}, map[string]*C14T0501{"k": {501}}, [2]C14T0501{{501}, {501}},
	[]C14T0504{{504}}, map[string]*C14T0504{"k": {504}}, [2]C14T0504{{504}, {504}},
	[]C14T0507{{507}}, map[string]*C14T0507{"k": {507}}, [2]C14T0507{{507}, {507}},
	[]C14T0510{{510}}, map[string]*C14T0510{"k": {510}}, [2]C14T0510{{510}, {510}},
	[]C14T0513{{513}}, map[string]*C14T0513{"k": {513}}, [2]C14T0513{{513}, {513}},
	[]C14T0516{{516}}, map[string]*C14T0516{"k": {516}}, [2]C14T0516{{516}, {516}},
	[]C14T0519{{519}}, map[string]*C14T0519{"k": {519}}, [2]C14T0519{{519}, {519}},
	[]C14T0522{{522}}, map[string]*C14T0522{"k": {522}}, [2]C14T0522{{522}, {522}},
	[]C14T0525{{525}}, map[string]*C14T0525{"k": {525}}, [2]C14T0525{{525}, {525}},
	[]C14T0528{{528}}, map[string]*C14T0528{"k": {528}}, [2]C14T0528{{528}, {528}},
	[]C14T0531{{531}}, map[string]*C14T0531{"k": {531}}, [2]C14T0531{{531}, {531}},
	[]C14T0534{{534}}, map[string]*C14T0534{"k": {534}}, [2]C14T0534{{534}, {534}},
	[]C14T0537{{537}}, map[string]*C14T0537{"k": {537}}, [2]C14T0537{{537}, {537}},
	[]C14T0540{{540}}, map[string]*C14T0540{"k": {540}}, [2]C14T0540{{540}, {540}},
	[]C14T0543{{543}}, map[string]*C14T0543{"k": {543}}, [2]C14T0543{{543}, {543}},
	[]C14T0546{{546}}, map[string]*C14T0546{"k": {546}}, [2]C14T0546{{546}, {546}},
	[]C14T0549{{549}}, map[string]*C14T0549{"k": {549}}, [2]C14T0549{{549}, {549}},
	[]C14T0552{{552}}, map[string]*C14T0552{"k": {552}}, [2]C14T0552{{552}, {552}},
	[]C14T0555{{555}}, map[string]*C14T0555{"k": {555}}, [2]C14T0555{{555}, {555}},
	[]C14T0558{{558}}, map[string]*C14T0558{"k": {558}}, [2]C14T0558{{558}, {558}},
	[]C14T0561{{561}}, map[string]*C14T0561{"k": {561}}, [2]C14T0561{{561}, {561}},
	[]C14T0564{{564}}, map[string]*C14T0564{"k": {564}}, [2]C14T0564{{564}, {564}},
	[]C14T0567{{567}}, map[string]*C14T0567{"k": {567}}, [2]C14T0567{{567}, {567}},
	[]C14T0570{{570}}, map[string]*C14T0570{"k": {570}}, [2]C14T0570{{570}, {570}},
	[]C14T0573{{573}}, map[string]*C14T0573{"k": {573}}, [2]C14T0573{{573}, {573}},
	[]C14T0576{{576}}, map[string]*C14T0576{"k": {576}}, [2]C14T0576{{576}, {576}},
	[]C14T0579{{579}}, map[string]*C14T0579{"k": {579}}, [2]C14T0579{{579}, {579}},
	[]C14T0582{{582}}, map[string]*C14T0582{"k": {582}}, [2]C14T0582{{582}, {582}},
	[]C14T0585{{585}}, map[string]*C14T0585{"k": {585}}, [2]C14T0585{{585}, {585}},
	[]C14T0588{{588}}, map[string]*C14T0588{"k": {588}}, [2]C14T0588{{588}, {588}},
	[]C14T0591{{591}}, map[string]*C14T0591{"k": {591}}, [2]C14T0591{{591}, {591}},
	[]C14T0594{{594}}, map[string]*C14T0594{"k": {594}}, [2]C14T0594{{594}, {594}},
	[]C14T0597{{597}}, map[string]*C14T0597{"k": {597}}, [2]C14T0597{{597}, {597}},
	[]C14T0600{{600}}, map[string]*C14T0600{"k": {600}}, [2]C14T0600{{600}, {600}},
	[]C14T0603{{603}}, map[string]*C14T0603{"k": {603}}, [2]C14T0603{{603}, {603}},
	[]C14T0606{{606}}, map[string]*C14T0606{"k": {606}}, [2]C14T0606{{606}, {606}},
	[]C14T0609{{609}}, map[string]*C14T0609{"k": {609}}, [2]C14T0609{{609}, {609}},
	[]C14T0612{{612}}, map[string]*C14T0612{"k": {612}}, [2]C14T0612{{612}, {612}},
	[]C14T0615{{615}}, map[string]*C14T0615{"k": {615}}, [2]C14T0615{{615}, {615}},
	[]C14T0618{{618}}, map[string]*C14T0618{"k": {618}}, [2]C14T0618{{618}, {618}},
	[]C14T0621{{621}}, map[string]*C14T0621{"k": {621}}, [2]C14T0621{{621}, {621}},
	[]C14T0624{{624}}, map[string]*C14T0624{"k": {624}}, [2]C14T0624{{624}, {624}},
	[]C14T0627{{627}}, map[string]*C14T0627{"k": {627}}, [2]C14T0627{{627}, {627}},
	[]C14T0630{{630}}, map[string]*C14T0630{"k": {630}}, [2]C14T0630{{630}, {630}},
	[]C14T0633{{633}}, map[string]*C14T0633{"k": {633}}, [2]C14T0633{{633}, {633}},
	[]C14T0636{{636}}, map[string]*C14T0636{"k": {636}}, [2]C14T0636{{636}, {636}},
	[]C14T0639{{639}}, map[string]*C14T0639{"k": {639}}, [2]C14T0639{{639}, {639}},
	[]C14T0642{{642}}, map[string]*C14T0642{"k": {642}}, [2]C14T0642{{642}, {642}},
	[]C14T0645{{645}}, map[string]*C14T0645{"k": {645}}, [2]C14T0645{{645}, {645}},
	[]C14T0648{{648}}, map[string]*C14T0648{"k": {648}}, [2]C14T0648{{648}, {648}},
	[]C14T0651{{651}}, map[string]*C14T0651{"k": {651}}, [2]C14T0651{{651}, {651}},
	[]C14T0654{{654}}, map[string]*C14T0654{"k": {654}}, [2]C14T0654{{654}, {654}},
	[]C14T0657{{657}}, map[string]*C14T0657{"k": {657}}, [2]C14T0657{{657}, {657}},
	[]C14T0660{{660}}, map[string]*C14T0660{"k": {660}}, [2]C14T0660{{660}, {660}},
	[]C14T0663{{663}}, map[string]*C14T0663{"k": {663}}, [2]C14T0663{{663}, {663}},
	[]C14T0666{{666}}, map[string]*C14T0666{"k": {666}}, [2]C14T0666{{666}, {666}},
	[]C14T0669{{669}}, map[string]*C14T0669{"k": {669}}, [2]C14T0669{{669}, {669}},
	[]C14T0672{{672}}, map[string]*C14T0672{"k": {672}}, [2]C14T0672{{672}, {672}},
	[]C14T0675{{675}}, map[string]*C14T0675{"k": {675}}, [2]C14T0675{{675}, {675}},
	[]C14T0678{{678}}, map[string]*C14T0678{"k": {678}}, [2]C14T0678{{678}, {678}},
	[]C14T0681{{681}}, map[string]*C14T0681{"k": {681}}, [2]C14T0681{{681}, {681}},
	[]C14T0684{{684}}, map[string]*C14T0684{"k": {684}}, [2]C14T0684{{684}, {684}},
	[]C14T0687{{687}}, map[string]*C14T0687{"k": {687}}, [2]C14T0687{{687}, {687}},
	[]C14T0690{{690}}, map[string]*C14T0690{"k": {690}}, [2]C14T0690{{690}, {690}},
	[]C14T0693{{693}}, map[string]*C14T0693{"k": {693}}, [2]C14T0693{{693}, {693}},
	[]C14T0696{{696}}, map[string]*C14T0696{"k": {696}}, [2]C14T0696{{696}, {696}},
	[]C14T0699{{699}}, map[string]*C14T0699{"k": {699}}, [2]C14T0699{{699}, {699}},
	[]C14T0702{{702}}, map[string]*C14T0702{"k": {702}}, [2]C14T0702{{702}, {702}},
	[]C14T0705{{705}}, map[string]*C14T0705{"k": {705}}, [2]C14T0705{{705}, {705}},
	[]C14T0708{{708}}, map[string]*C14T0708{"k": {708}}, [2]C14T0708{{708}, {708}},
	[]C14T0711{{711}}, map[string]*C14T0711{"k": {711}}, [2]C14T0711{{711}, {711}},
	[]C14T0714{{714}}, map[string]*C14T0714{"k": {714}}, [2]C14T0714{{714}, {714}},
	[]C14T0717{{717}}, map[string]*C14T0717{"k": {717}}, [2]C14T0717{{717}, {717}},
	[]C14T0720{{720}}, map[string]*C14T0720{"k": {720}}, [2]C14T0720{{720}, {720}},
	[]C14T0723{{723}}, map[string]*C14T0723{"k": {723}}, [2]C14T0723{{723}, {723}},
	[]C14T0726{{726}}, map[string]*C14T0726{"k": {726}}, [2]C14T0726{{726}, {726}},
	[]C14T0729{{729}}, map[string]*C14T0729{"k": {729}}, [2]C14T0729{{729}, {729}},
	[]C14T0732{{732}}, map[string]*C14T0732{"k": {732}}, [2]C14T0732{{732}, {732}},
	[]C14T0735{{735}}, map[string]*C14T0735{"k": {735}}, [2]C14T0735{{735}, {735}},
	[]C14T0738{{738}}, map[string]*C14T0738{"k": {738}}, [2]C14T0738{{738}, {738}},
	[]C14T0741{{741}}, map[string]*C14T0741{"k": {741}}, [2]C14T0741{{741}, {741}},
	[]C14T0744{{744}}, map[string]*C14T0744{"k": {744}}, [2]C14T0744{{744}, {744}},
	[]C14T0747{{747}}, map[string]*C14T0747{"k": {747}}, [2]C14T0747{{747}, {747}},
	[]C14T0750{{750}}, map[string]*C14T0750{"k": {750}}, [2]C14T0750{{750}, {750}},
	[]C14T0753{{753}}, map[string]*C14T0753{"k": {753}}, [2]C14T0753{{753}, {753}},
	[]C14T0756{{756}}, map[string]*C14T0756{"k": {756}}, [2]C14T0756{{756}, {756}},
	[]C14T0759{{759}}, map[string]*C14T0759{"k": {759}}, [2]C14T0759{{759}, {759}},
	[]C14T0762{{762}}, map[string]*C14T0762{"k": {762}}, [2]C14T0762{{762}, {762}},
	[]C14T0765{{765}}, map[string]*C14T0765{"k": {765}}, [2]C14T0765{{765}, {765}},
	[]C14T0768{{768}}, map[string]*C14T0768{"k": {768}}, [2]C14T0768{{768}, {768}},
	[]C14T0771{{771}}, map[string]*C14T0771{"k": {771}}, [2]C14T0771{{771}, {771}},
	[]C14T0774{{774}}, map[string]*C14T0774{"k": {774}}, [2]C14T0774{{774}, {774}},
	[]C14T0777{{777}}, map[string]*C14T0777{"k": {777}}, [2]C14T0777{{777}, {777}},
	[]C14T0780{{780}}, map[string]*C14T0780{"k": {780}}, [2]C14T0780{{780}, {780}},
	[]C14T0783{{783}}, map[string]*C14T0783{"k": {783}}, [2]C14T0783{{783}, {783}},
	[]C14T0786{{786}}, map[string]*C14T0786{"k": {786}}, [2]C14T0786{{786}, {786}},
	[]C14T0789{{789}}, map[string]*C14T0789{"k": {789}}, [2]C14T0789{{789}, {789}},
	[]C14T0792{{792}}, map[string]*C14T0792{"k": {792}}, [2]C14T0792{{792}, {792}},
	[]C14T0795{{795}}, map[string]*C14T0795{"k": {795}}, [2]C14T0795{{795}, {795}},
	[]C14T0798{{798}}, map[string]*C14T0798{"k": {798}}, [2]C14T0798{{798}, {798}},
	[]C14T0801{{801}}, map[string]*C14T0801{"k": {801}}, [2]C14T0801{{801}, {801}},
	[]C14T0804{{804}}, map[string]*C14T0804{"k": {804}}, [2]C14T0804{{804}, {804}},
	[]C14T0807{{807}}, map[string]*C14T0807{"k": {807}}, [2]C14T0807{{807}, {807}},
	[]C14T0810{{810}}, map[string]*C14T0810{"k": {810}}, [2]C14T0810{{810}, {810}},
	[]C14T0813{{813}}, map[string]*C14T0813{"k": {813}}, [2]C14T0813{{813}, {813}},
	[]C14T0816{{816}}, map[string]*C14T0816{"k": {816}}, [2]C14T0816{{816}, {816}},
	[]C14T0819{{819}}, map[string]*C14T0819{"k": {819}}, [2]C14T0819{{819}, {819}},
	[]C14T0822{{822}}, map[string]*C14T0822{"k": {822}}, [2]C14T0822{{822}, {822}},
	[]C14T0825{{825}}, map[string]*C14T0825{"k": {825}}, [2]C14T0825{{825}, {825}},
	[]C14T0828{{828}}, map[string]*C14T0828{"k": {828}}, [2]C14T0828{{828}, {828}},
	[]C14T0831{{831}}, map[string]*C14T0831{"k": {831}}, [2]C14T0831{{831}, {831}},
	[]C14T0834{{834}}, map[string]*C14T0834{"k": {834}}, [2]C14T0834{{834}, {834}},
	[]C14T0837{{837}}, map[string]*C14T0837{"k": {837}}, [2]C14T0837{{837}, {837}},
	[]C14T0840{{840}}, map[string]*C14T0840{"k": {840}}, [2]C14T0840{{840}, {840}},
	[]C14T0843{{843}}, map[string]*C14T0843{"k": {843}}, [2]C14T0843{{843}, {843}},
	[]C14T0846{{846}}, map[string]*C14T0846{"k": {846}}, [2]C14T0846{{846}, {846}},
	[]C14T0849{{849}}, map[string]*C14T0849{"k": {849}}, [2]C14T0849{{849}, {849}},
	[]C14T0852{{852}}, map[string]*C14T0852{"k": {852}}, [2]C14T0852{{852}, {852}},
	[]C14T0855{{855}}, map[string]*C14T0855{"k": {855}}, [2]C14T0855{{855}, {855}},
	[]C14T0858{{858}}, map[string]*C14T0858{"k": {858}}, [2]C14T0858{{858}, {858}},
	[]C14T0861{{861}}, map[string]*C14T0861{"k": {861}}, [2]C14T0861{{861}, {861}},
	[]C14T0864{{864}}, map[string]*C14T0864{"k": {864}}, [2]C14T0864{{864}, {864}},
	[]C14T0867{{867}}, map[string]*C14T0867{"k": {867}}, [2]C14T0867{{867}, {867}},
	[]C14T0870{{870}}, map[string]*C14T0870{"k": {870}}, [2]C14T0870{{870}, {870}},
	[]C14T0873{{873}}, map[string]*C14T0873{"k": {873}}, [2]C14T0873{{873}, {873}},
	[]C14T0876{{876}}, map[string]*C14T0876{"k": {876}}, [2]C14T0876{{876}, {876}},
	[]C14T0879{{879}}, map[string]*C14T0879{"k": {879}}, [2]C14T0879{{879}, {879}},
	[]C14T0882{{882}}, map[string]*C14T0882{"k": {882}}, [2]C14T0882{{882}, {882}},
	[]C14T0885{{885}}, map[string]*C14T0885{"k": {885}}, [2]C14T0885{{885}, {885}},
	[]C14T0888{{888}}, map[string]*C14T0888{"k": {888}}, [2]C14T0888{{888}, {888}},
	[]C14T0891{{891}}, map[string]*C14T0891{"k": {891}}, [2]C14T0891{{891}, {891}},
	[]C14T0894{{894}}, map[string]*C14T0894{"k": {894}}, [2]C14T0894{{894}, {894}},
	[]C14T0897{{897}}, map[string]*C14T0897{"k": {897}}, [2]C14T0897{{897}, {897}},
}
