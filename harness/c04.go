package main

import (
	"bytes"
	stdjson "encoding/json"
	"fmt"
	"math/rand"
	"reflect"
	"strings"

	json "github.com/goccy/go-json"
)

func init() { props["C04"] = runC04 }

func c04RoundTrip(c *Ctx, t reflect.Type, v reflect.Value, via string) {
	iv := v.Interface()
	in := fmt.Sprintf("%s = %s", genTypeString(t), c01Show(iv))
	cls := c01ClassOf(iv, nil, nil, nil, nil)
	if strings.HasPrefix(cls, "C08-") {
		c.Rep.Known[cls]++
		return
	}
	// the reference: does encoding/json itself round-trip this value? (if not, the type is lossy)
	sb, serr := stdjson.Marshal(iv)
	if serr != nil {
		return
	}
	sback := reflect.New(t)
	if stdjson.Unmarshal(sb, sback.Interface()) != nil || !reflect.DeepEqual(sback.Elem().Interface(), iv) {
		c.Rep.Hist["skipped-lossy-type"]++
		return
	}
	back := reflect.New(t)
	var text []byte
	err, pan := safeDo(func() error {
		var e error
		switch via {
		case "marshal":
			text, e = json.Marshal(iv)
			if e != nil {
				return e
			}
			return json.Unmarshal(text, back.Interface())
		case "indent":
			text, e = json.MarshalIndent(iv, "", "\t")
			if e != nil {
				return e
			}
			return json.Unmarshal(text, back.Interface())
		default: // stream
			var buf bytes.Buffer
			if e = json.NewEncoder(&buf).Encode(iv); e != nil {
				return e
			}
			text = buf.Bytes()
			return json.NewDecoder(&chunkReader{data: append([]byte(nil), text...), size: 7}).Decode(back.Interface())
		}
	})
	ok := pan == "" && err == nil
	why := ""
	if ok {
		if bad := wellFormed(back.Elem(), "dst", 0); bad != "" {
			ok, why = false, bad
		} else if !reflect.DeepEqual(back.Elem().Interface(), iv) {
			ok, why = false, "decoded value differs: "+c01Show(back.Elem().Interface())
		}
	}
	c.Oracle("roundtrip/"+via, in, fmt.Sprintf("text=%s err=%s panic=%s %s", trunc(text), errT(err), pan, why), "the value", ok, cls)
}

func runC04(c *Ctx) {
	c.Rep.Rule = "round-trippable types from the generator (no marshalers, no interface{}, no '-' fields, no omitempty/string options) x values with finite floats, valid UTF-8 and well-formed numbers (extreme integers of every width, floats needing 17 digits, every escape class, empty versus nil containers); Unmarshal(Marshal(v)), Unmarshal(MarshalIndent(v)), Decoder(Encoder(v)) with 7-byte reads; accepted iff the result is deeply equal to v (cases encoding/json itself does not round-trip are skipped); ops: Unmarshal(Marshal(tree)) into interface{} with UseNumber vs the Lean composition of the encoder specification and the decoder model; non-trivial = every case"
	ntypes := 1200
	if c.Thorough() {
		ntypes = 25000
	}
	c.RunCases("types", ntypes, func(c *Ctx, k int, rng *rand.Rand) {
		g := &Gen{R: rng, NoLossy: true}
		t := g.Type(1 + rng.Intn(4))
		for vi := 0; vi < 3; vi++ {
			v := g.Value(t, 3, GenOpt{Finite: true, ValidUTF8: true, ValidNum: true})
			c04RoundTrip(c, t, v, []string{"marshal", "indent", "stream"}[vi])
			// the model composition on the value tree
			var toks []string
			if toGV(v, &toks, 0) && c01ClassOf(v.Interface(), nil, nil, nil, nil) == "" {
				var got interface{}
				err, pan := safeDo(func() error {
					b, e := json.Marshal(v.Interface())
					if e != nil {
						return e
					}
					d := json.NewDecoder(bytes.NewReader(b))
					d.UseNumber()
					return d.Decode(&got)
				})
				out := "err"
				if pan != "" {
					out = "panic"
				} else if err == nil {
					out = c02Tree(got)
				}
				c.Op("rt "+strings.Join(toks, " "), out, true, "roundtrip-tree")
			}
		}
	}, func(k int, rng *rand.Rand) string { return fmt.Sprint("case ", k) }, nil)
	if !c.IsWorker() {
		FieldMatrix(func(t reflect.Type, v reflect.Value) {
			c04RoundTrip(c, t, v, "marshal")
		})
		// every block of code points: the runes at both ends of every run of 64 (quick) or every rune
		// (thorough), as string values, struct fields and map keys, through the three paths
		type holder struct {
			S string
			M map[string]string
		}
		step := 64
		if c.Thorough() {
			step = 1
		}
		var sb strings.Builder
		n := 0
		flush := func() {
			if n == 0 {
				return
			}
			s := sb.String()
			h := holder{S: s, M: map[string]string{s: "v", "k": s}}
			for _, via := range []string{"marshal", "indent", "stream"} {
				c04RoundTrip(c, reflect.TypeOf(h), reflect.ValueOf(h), via)
			}
			sb.Reset()
			n = 0
		}
		for r := rune(0x20); r <= 0x10FFFF; r++ {
			if r >= 0xD800 && r <= 0xDFFF {
				continue
			}
			if step > 1 && r > 0x2FF && int(r)%step != 0 && int(r)%step != step-1 {
				continue
			}
			sb.WriteRune(r)
			n++
			if n == 24 {
				flush()
			}
		}
		flush()
	}
}
