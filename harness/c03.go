package main

import (
	"bytes"
	"context"
	stdjson "encoding/json"
	"fmt"
	"math/rand"
	"reflect"
	"strings"
	"unicode/utf8"

	json "github.com/goccy/go-json"
)

func init() { props["C03"] = runC03 }

// c03RawIllFormedUTF8: the value under test holds JSON text from a marshaler / RawMessage that is itself
// not valid UTF-8. Such text is passed through verbatim by encoding/json and, as C01 requires, by
// go-json; UTF-8 normalisation applies to Go strings, so the UTF-8 clause is not judged on it.
var c03RawIllFormedUTF8 bool

func c03Check(c *Ctx, iv interface{}, t reflect.Type) {
	in := fmt.Sprintf("%s = %s", genTypeString(t), c01Show(iv))
	cls := c01ClassOf(iv, nil, nil, nil, nil)
	if strings.HasPrefix(cls, "C08-") {
		c.Rep.Known[cls]++
		return
	}
	_, serr := stdjson.Marshal(iv)
	type ep struct {
		name string
		f    func() ([]byte, error)
	}
	eps := []ep{
		{"Marshal", func() ([]byte, error) { return json.Marshal(iv) }},
		{"MarshalIndent", func() ([]byte, error) { return json.MarshalIndent(iv, "", "\t") }},
		{"MarshalNoEscape", func() ([]byte, error) { return json.MarshalNoEscape(iv) }},
		{"MarshalContext", func() ([]byte, error) { return json.MarshalContext(context.Background(), iv) }},
		{"DisableHTMLEscape", func() ([]byte, error) { return json.MarshalWithOption(iv, json.DisableHTMLEscape()) }},
		{"UnorderedMap", func() ([]byte, error) { return json.MarshalWithOption(iv, json.UnorderedMap()) }},
		{"UnorderedMap+Indent", func() ([]byte, error) {
			return json.MarshalIndentWithOption(iv, " ", "  ", json.UnorderedMap(), json.DisableHTMLEscape())
		}},
		{"Encoder(html off)", func() ([]byte, error) {
			var b bytes.Buffer
			e := json.NewEncoder(&b)
			e.SetEscapeHTML(false)
			err := e.Encode(iv)
			return b.Bytes(), err
		}},
		{"Encoder(html off, indent)", func() ([]byte, error) {
			var b bytes.Buffer
			e := json.NewEncoder(&b)
			e.SetEscapeHTML(false)
			e.SetIndent("", "\t")
			err := e.Encode(iv)
			return b.Bytes(), err
		}},
		{"Encoder", func() ([]byte, error) {
			var b bytes.Buffer
			e := json.NewEncoder(&b)
			e.SetIndent("", " ")
			err := e.Encode(iv)
			return b.Bytes(), err
		}},
	}
	for _, e := range eps {
		g, gerr, gp := safeMarshal(e.f)
		ok := gp == ""
		why := ""
		if ok && gerr == nil {
			if !stdjson.Valid(g) {
				ok, why = false, "output is not one JSON text"
			} else if !utf8.Valid(g) && !c03RawIllFormedUTF8 {
				ok, why = false, "output is not valid UTF-8"
			} else if bytes.IndexByte(bytes.TrimRight(g, "\n"), 0) >= 0 {
				ok, why = false, "raw NUL in the output"
			}
		}
		if ok && gerr == nil && serr != nil {
			// encoding/json refuses the value (non-finite float, ill-formed Number, bad marshaler output …)
			if _, unsupported := serr.(*stdjson.UnsupportedValueError); unsupported {
				ok, why = false, "output for a value JSON cannot represent"
			}
			if _, bad := serr.(*stdjson.MarshalerError); bad {
				ok, why = false, "output although the marshaler's result is ill-formed"
			}
		}
		c.Oracle("wellformed/"+e.name, in, fmt.Sprintf("%s err=%s panic=%s", trunc(g), errT(gerr), gp), "valid text or error ("+why+") std err="+fmt.Sprint(serr), ok, cls)
	}
}

func runC03(c *Ctx) {
	c.Rep.Rule = "types and values from the grammar of harness/gen.go including what encoding/json rejects (non-finite float32/float64 in every position, ill-formed json.Number and RawMessage, marshalers returning arbitrary bytes, invalid UTF-8); entry points Marshal, MarshalIndent, MarshalNoEscape, MarshalContext, Encoder (indenting), options DisableHTMLEscape, UnorderedMap and both with indent; oracle: on success the bytes are one JSON text (encoding/json.Valid), valid UTF-8, no NUL; a value encoding/json rejects as unsupported or because of ill-formed marshaler output must be an error; non-trivial = every case"
	ntypes := 1500
	if c.Thorough() {
		ntypes = 30000
	}
	if !c.IsWorker() {
		FieldMatrix(func(t reflect.Type, v reflect.Value) { c03Check(c, v.Interface(), t) })
	}
	if !c.IsWorker() {
		// what a marshaler may hand back: every byte string up to length 3 over the C05 alphabet and every
		// string literal with a body up to length 5 over the escape alphabet, as a RawMessage, as the
		// result of MarshalJSON at the top level, and below a struct, a slice and a map
		type holder struct {
			A int
			M GRawM
			R stdjson.RawMessage `json:"r,omitempty"`
		}
		n := 0
		try := func(b []byte) {
			n++
			txt := string(b)
			c03RawIllFormedUTF8 = !utf8.Valid(b)
			defer func() { c03RawIllFormedUTF8 = false }()
			for _, iv := range []interface{}{
				GRawM{B: txt}, json.RawMessage(txt), holder{A: 1, M: GRawM{B: txt}, R: stdjson.RawMessage("0")},
				[]GRawM{{B: "1"}, {B: txt}}, map[string]GRawM{"k": {B: txt}},
			} {
				c03Check(c, iv, reflect.TypeOf(iv))
			}
		}
		var rec func(p []byte)
		rec = func(p []byte) {
			try(p)
			if len(p) == 3 {
				return
			}
			for _, a := range c05Alphabet {
				rec(append(p, a))
			}
		}
		rec([]byte{})
		strBodies(5, func(body []byte) { try(quoted(body)) })
		tokenSeqs(5, func(doc []byte) {
			// (those that open an object or an array, and the very short ones)
			if l := len(doc); l > 0 && (l <= 4 || doc[0] == '{' || doc[0] == '[') {
				try(append([]byte(nil), doc...))
			}
		})
		c.Rep.Exhaustive = append(c.Rep.Exhaustive, fmt.Sprintf("%d marshaler results (all byte strings of length <= 3 over the 26-symbol alphabet, all string literals with a body of length <= 5 over the escape alphabet) in 5 positions x 10 entry points", n))
	}
	c.RunCases("values", ntypes, func(c *Ctx, k int, rng *rand.Rand) {
		g := &Gen{R: rng}
		t := g.Type(1 + rng.Intn(4))
		for vi := 0; vi < 3; vi++ {
			v := g.Value(t, 3, GenOpt{})
			if v.CanInterface() {
				c03Check(c, v.Interface(), t)
			}
		}
	}, func(k int, rng *rand.Rand) string {
		g := &Gen{R: rng}
		t := g.Type(1 + rng.Intn(4))
		return fmt.Sprintf("case %d: a value of %s", k, genTypeString(t))
	}, nil)
}
