package main

import (
	"bytes"
	"context"
	stdjson "encoding/json"
	"fmt"
	"math/rand"
	"os"
	"reflect"
	"runtime"
	"strings"
	"sync"
	"sync/atomic"
	"time"

	json "github.com/goccy/go-json"
)

func init() { props["C10"] = runC10 }

// declared types that no other part of the harness touches: cold when the goroutines start
type C10A struct {
	X int               `json:"x"`
	S string            `json:"s"`
	L []C10B            `json:"l"`
	M map[string]*C10B  `json:"m"`
	I interface{}       `json:"i"`
	P *C10A             `json:"p,omitempty"`
	T map[C10Key]string `json:"t"`
}
type C10B struct {
	F float64 `json:"f"`
	B []byte  `json:"b"`
	N json.Number
	Q string `json:"q,string"`
}
type C10Key int
type C10C struct {
	A [3]int16
	E struct{ U uint8 }
	R stdjson.RawMessage
	G C10M
}
type C10M struct{ V int }

func (m C10M) MarshalJSON() ([]byte, error) { return []byte(fmt.Sprintf(`{"v":%d}`, m.V)), nil }
func (m *C10M) UnmarshalJSON(b []byte) error {
	var x struct{ V int }
	if err := stdjson.Unmarshal(b, &x); err != nil {
		return err
	}
	m.V = x.V
	return nil
}

type C10Q struct {
	A int `json:"a"`
	B struct {
		C int `json:"c"`
		D int `json:"d"`
	} `json:"b"`
	E []int `json:"e"`
}

// structs the bitmap key matcher is not built for (more than 16 fields, non-ASCII names): their keys go
// through the decoder's maps
type C10Wide struct {
	Alpha, Beta, Gamma, Delta, Epsilon, Zeta, Eta, Theta, Iota, Kappa, Lambda, Mu, Nu, Xi, Omicron, Pi, Rho, Sigma int
}
type C10Uni struct {
	Été   int `json:"été"`
	Größe int `json:"größe"`
	Plain int `json:"plain"`
}

type c10Op struct {
	name string
	run  func() string
}

// c10Ops: the operations of case k; every goroutine draws from the same list. Results are canonical
// strings. fresh: reflect.StructOf types made for this case (never seen by the caches before).
func c10Ops(rng *rand.Rand, k int) []c10Op {
	var ops []c10Op
	add := func(name string, run func() string) { ops = append(ops, c10Op{name, run}) }
	out := func(b []byte, err error, pan string) string {
		return fmt.Sprintf("%s err=%s panic=%s", trunc(b), c11Err(err), pan)
	}
	a := &C10A{X: k, S: "s<>é", L: []C10B{{F: 1.5, B: []byte("ab"), N: "12", Q: "q"}}, M: map[string]*C10B{"k": {F: 2}, "j": nil}, I: map[string]interface{}{"z": []interface{}{1, "x"}}, P: &C10A{X: 1}, T: map[C10Key]string{3: "c", 1: "a"}}
	cval := C10C{A: [3]int16{1, 2, 3}, R: stdjson.RawMessage(`{"r": [1]}`), G: C10M{7}}
	q := C10Q{A: 1, E: []int{1, 2}}
	q.B.C, q.B.D = 2, 3
	// fresh struct types: the slow-path cache (copy-on-write map) starts cold for them
	g := &Gen{R: rng}
	var fresh []reflect.Value
	for i := 0; i < 4; i++ {
		t := reflect.StructOf([]reflect.StructField{
			{Name: fmt.Sprintf("K%dF%d", k, i), Type: g.Type(2), Tag: reflect.StructTag(fmt.Sprintf(`json:"f%d"`, i))},
			{Name: "Tail", Type: reflect.TypeOf(0)},
		})
		v := g.Value(t, 3, GenOpt{Finite: true, ValidUTF8: true, ValidNum: true})
		if strings.HasPrefix(c01ClassOf(v.Interface(), nil, nil, nil, nil), "C08-") {
			continue
		}
		fresh = append(fresh, v)
	}
	vals := []interface{}{a, cval, &cval, q, []interface{}{a, cval}, map[string]interface{}{"a": a}}
	for _, f := range fresh {
		vals = append(vals, f.Interface())
	}
	for i, v := range vals {
		v := v
		add(fmt.Sprint("Marshal#", i), func() string { return out(safeMarshal(func() ([]byte, error) { return json.Marshal(v) })) })
		add(fmt.Sprint("MarshalIndent#", i), func() string {
			return out(safeMarshal(func() ([]byte, error) { return json.MarshalIndent(v, "", " ") }))
		})
		if i%2 == 0 {
			add(fmt.Sprint("Colorize#", i), func() string {
				return out(safeMarshal(func() ([]byte, error) { return json.MarshalWithOption(v, json.Colorize(c13Scheme)) }))
			})
			add(fmt.Sprint("Encoder#", i), func() string {
				var b bytes.Buffer
				e := json.NewEncoder(&b)
				_, err, pan := safeMarshal(func() ([]byte, error) { return nil, e.Encode(v) })
				return out(b.Bytes(), err, pan)
			})
		}
	}
	// large payloads, a different one per operation: whatever scratch space the library shares between
	// calls shows as another call's bytes
	for j := 0; j < 8; j++ {
		n := []int{700, 1024, 1500, 4096, 9000, 40000, 70000, 200000}[j]
		raw := bytes.Repeat([]byte{byte('A' + j)}, n)
		bv := struct {
			B  []byte
			L  [][]byte
			S  string
			M  map[string][]byte
			RM stdjson.RawMessage
		}{raw, [][]byte{raw[:n/2], raw[:n/3]}, strings.Repeat(string(rune('a'+j)), n), map[string][]byte{"k": raw[:n/4]}, stdjson.RawMessage(`"` + strings.Repeat(string(rune('m'+j)), n/2) + `"`)}
		sum := func(b []byte, err error, pan string) string {
			return fmt.Sprintf("len=%d sum=%d err=%s panic=%s", len(b), c11Sum(b), c11Err(err), pan)
		}
		add(fmt.Sprint("Marshal(big)#", j), func() string { return sum(safeMarshal(func() ([]byte, error) { return json.Marshal(bv) })) })
		add(fmt.Sprint("MarshalIndent(big)#", j), func() string {
			return sum(safeMarshal(func() ([]byte, error) { return json.MarshalIndent(&bv, "", "  ") }))
		})
		doc, _ := stdjson.Marshal(bv)
		add(fmt.Sprint("Unmarshal(big)#", j), func() string {
			v := reflect.New(reflect.TypeOf(bv))
			err, pan := safeDo(func() error { return json.Unmarshal(doc, v.Interface()) })
			b, _ := stdjson.Marshal(v.Interface())
			return fmt.Sprintf("len=%d sum=%d err=%s panic=%s", len(b), c11Sum(b), c11Err(err), pan)
		})
		add(fmt.Sprint("Decoder(big)#", j), func() string {
			v := reflect.New(reflect.TypeOf(bv))
			err, pan := safeDo(func() error { return json.NewDecoder(&chunkReader{data: doc, size: 4096}).Decode(v.Interface()) })
			b, _ := stdjson.Marshal(v.Interface())
			return fmt.Sprintf("len=%d sum=%d err=%s panic=%s", len(b), c11Sum(b), c11Err(err), pan)
		})
		add(fmt.Sprint("Compact/Indent(big)#", j), func() string {
			var x, y bytes.Buffer
			e1 := json.Compact(&x, doc)
			e2 := json.Indent(&y, doc, "", " ")
			return fmt.Sprintf("%d %d %s %d %d %s", x.Len(), c11Sum(x.Bytes()), c11Err(e1), y.Len(), c11Sum(y.Bytes()), c11Err(e2))
		})
	}
	// decoding into the same types
	docs := []struct {
		doc string
		mk  func() interface{}
	}{
		{`{"x":1,"s":"a\nb","l":[{"f":1.5,"b":"YWI=","N":12,"q":"\"q\""}],"m":{"k":{"f":2}},"i":[1,{"a":null}],"p":{"x":2},"t":{"3":"c"}}`, func() interface{} { return &C10A{} }},
		{`{"A":[1,2,3],"E":{"U":9},"R":{"r":[1 ]},"G":{"v":7}}`, func() interface{} { return &C10C{} }},
		{`{"a":1,"b":{"c":2,"d":3},"e":[1,2,3]}`, func() interface{} { return &C10Q{} }},
		{`{"x":"wrong"}`, func() interface{} { return &C10A{} }},
		{`{"x":1,`, func() interface{} { return &C10A{} }},
		{`[{"f":1},{"f":2,"q":"\"z\""}]`, func() interface{} { return &[]C10B{} }},
		{`{"any":[1,"two",{"three":3.5}]}`, func() interface{} { return new(interface{}) }},
	}
	for i, d := range docs {
		d := d
		add(fmt.Sprint("Unmarshal#", i), func() string {
			v := d.mk()
			err, pan := safeDo(func() error { return json.Unmarshal([]byte(d.doc), v) })
			return fmt.Sprintf("%s err=%s panic=%s", c11View(v), c11Err(err), pan)
		})
		add(fmt.Sprint("Decoder#", i), func() string {
			v := d.mk()
			err, pan := safeDo(func() error {
				return json.NewDecoder(&chunkReader{data: []byte(d.doc + " " + d.doc), size: 5}).Decode(v)
			})
			return fmt.Sprintf("%s err=%s panic=%s", c11View(v), c11Err(err), pan)
		})
		add(fmt.Sprint("Valid/Compact/Indent#", i), func() string {
			var x, y bytes.Buffer
			e1 := json.Compact(&x, []byte(d.doc))
			e2 := json.Indent(&y, []byte(d.doc), "", "\t")
			return fmt.Sprintf("%v|%s|%s|%s|%s", json.Valid([]byte(d.doc)), x.String(), c11Err(e1), y.String(), c11Err(e2))
		})
	}
	// keys in every spelling, into the wide and the non-ASCII struct
	wideNames := []string{"Alpha", "Beta", "Gamma", "Delta", "Epsilon", "Zeta", "Eta", "Theta", "Iota", "Kappa", "Lambda", "Mu", "Nu", "Xi", "Omicron", "Pi", "Rho", "Sigma"}
	for j := 0; j < 12; j++ {
		var parts []string
		for i, n := range wideNames {
			sp := []byte(n)
			for x := range sp {
				if (x*7+i*3+j*5+k)%3 == 0 {
					if sp[x] >= 'a' && sp[x] <= 'z' {
						sp[x] -= 32
					} else if sp[x] >= 'A' && sp[x] <= 'Z' {
						sp[x] += 32
					}
				}
			}
			parts = append(parts, fmt.Sprintf("%q:%d", sp, i+j))
		}
		wdoc := "{" + strings.Join(parts, ",") + "}"
		udoc := []string{`{"ÉTÉ":1,"GRÖSSE":2,"Plain":3}`, `{"Été":4,"größe":5,"PLAIN":6}`, `{"éTé":7,"GRöSSE":8,"pLAIN":9}`}[j%3]
		add(fmt.Sprint("Unmarshal(wide)#", j), func() string {
			var v C10Wide
			err, pan := safeDo(func() error { return json.Unmarshal([]byte(wdoc), &v) })
			return fmt.Sprintf("%+v err=%s panic=%s", v, c11Err(err), pan)
		})
		add(fmt.Sprint("Decoder(wide)#", j), func() string {
			var v C10Wide
			err, pan := safeDo(func() error { return json.NewDecoder(&chunkReader{data: []byte(wdoc), size: 9}).Decode(&v) })
			return fmt.Sprintf("%+v err=%s panic=%s", v, c11Err(err), pan)
		})
		add(fmt.Sprint("Unmarshal(non-ascii)#", j), func() string {
			var v C10Uni
			err, pan := safeDo(func() error { return json.Unmarshal([]byte(udoc), &v) })
			return fmt.Sprintf("%+v err=%s panic=%s", v, c11Err(err), pan)
		})
	}
	for _, f := range fresh {
		f := f
		b, err := stdjson.Marshal(f.Interface())
		if err != nil {
			continue
		}
		add("Unmarshal(fresh)", func() string {
			v := reflect.New(f.Type())
			err, pan := safeDo(func() error { return json.Unmarshal(b, v.Interface()) })
			return fmt.Sprintf("%s err=%s panic=%s", c11View(v.Interface()), c11Err(err), pan)
		})
	}
	// shared handles: one FieldQuery placed in contexts by every goroutine, one compiled Path
	fq, _ := json.BuildFieldQuery("a", json.BuildSubFieldQuery("b").Fields("c"))
	fq2, _ := json.BuildFieldQuery("x", "s", json.BuildSubFieldQuery("p").Fields("x"))
	add("MarshalContext+sharedQuery", func() string {
		return out(safeMarshal(func() ([]byte, error) {
			return json.MarshalContext(json.SetFieldQueryToContext(context.Background(), fq), q)
		}))
	})
	add("MarshalContext+sharedQuery2", func() string {
		return out(safeMarshal(func() ([]byte, error) {
			return json.MarshalContext(json.SetFieldQueryToContext(context.Background(), fq2), a)
		}))
	})
	add("sharedQuery.QueryString", func() string {
		s, err := fq.QueryString()
		return string(s) + c11Err(err)
	})
	p1, _ := json.CreatePath("$.l[0].q")
	p2, _ := json.CreatePath("$..f")
	for i, p := range []*json.Path{p1, p2} {
		p := p
		add(fmt.Sprint("sharedPath.Extract#", i), func() string {
			var o [][]byte
			err, pan := safeDo(func() error { var e error; o, e = p.Extract([]byte(docs[0].doc)); return e })
			return fmt.Sprintf("%q err=%s panic=%s", o, c11Err(err), pan)
		})
		add(fmt.Sprint("sharedPath.Unmarshal#", i), func() string {
			var v interface{}
			err, pan := safeDo(func() error { return p.Unmarshal([]byte(docs[5].doc), &v) })
			return fmt.Sprintf("%s err=%s panic=%s", c11View(v), c11Err(err), pan)
		})
	}
	return ops
}

type c10Result struct {
	op  int
	out string
}

func c10Case(c *Ctx, k int, rng *rand.Rand, label string) {
	ops := c10Ops(rng, k)
	G := []int{2, 3, 4, 8, 16, 64}[rng.Intn(6)]
	procs := []int{1, 2, 4, 16}[rng.Intn(4)]
	perG := 6 + rng.Intn(30)
	prev := runtime.GOMAXPROCS(procs)
	defer runtime.GOMAXPROCS(prev)
	// every goroutine's script is fixed before they start
	scripts := make([][]int, G)
	for g := range scripts {
		for i := 0; i < perG; i++ {
			scripts[g] = append(scripts[g], rng.Intn(len(ops)))
		}
	}
	results := make([][]c10Result, G)
	var wg sync.WaitGroup
	start := make(chan struct{})
	for g := 0; g < G; g++ {
		wg.Add(1)
		go func(g int) {
			defer wg.Done()
			<-start
			for _, oi := range scripts[g] {
				results[g] = append(results[g], c10Result{oi, ops[oi].run()})
			}
		}(g)
	}
	t0 := time.Now()
	close(start)
	done := make(chan struct{})
	go func() { wg.Wait(); close(done) }()
	select {
	case <-done:
	case <-time.After(60 * time.Second):
		c.Oracle("concurrent-calls-return/"+label, fmt.Sprintf("case %d: %d goroutines, GOMAXPROCS %d", k, G, procs), "no result after 60 s (dead lock?)", "every call returns", false, "")
		// a blocked goroutine cannot be cancelled: leave the process
		c.ops.Flush()
		c.impl.Flush()
		js, _ := stdjson.MarshalIndent(c.Rep, "", " ")
		os.WriteFile(c.outDir+"/report.json", js, 0o644)
		os.Exit(0)
	}
	c.Rep.Hist[fmt.Sprintf("goroutines:%d", G)]++
	c.Rep.Hist[fmt.Sprintf("gomaxprocs:%d", procs)]++
	_ = t0
	// what each call returns alone (after the fact: C11 is about results not depending on the past)
	alone := make([]string, len(ops))
	have := make([]bool, len(ops))
	for g := range results {
		for _, r := range results[g] {
			if !have[r.op] {
				alone[r.op] = ops[r.op].run()
				have[r.op] = true
			}
			c.Oracle("concurrent=alone/"+label, fmt.Sprintf("case %d: %d goroutines, GOMAXPROCS %d: %s", k, G, procs, ops[r.op].name), trunc([]byte(r.out)), trunc([]byte(alone[r.op])), r.out == alone[r.op], "")
		}
	}
}

func runC10(c *Ctx) {
	c.Rep.Rule = "G in {2,3,4,8,16,64} goroutines x GOMAXPROCS in {1,2,4,16}, each goroutine 6..35 operations drawn from about 70 (Marshal, MarshalIndent, Colorize, Encoder, Unmarshal, Decoder, Valid/Compact/Indent, MarshalContext with one FieldQuery shared by all goroutines, one compiled Path shared by all goroutines) over declared types no other code touches and reflect.StructOf types made for the case (cold fast-path slots in a fresh worker process, cold slow-path map entries in every case); every result against the same call made alone afterwards; a case that does not finish in 60 s is a dead lock. Two builds: the production build and a -race build of the same harness (GORACE halt_on_error: any report of the race detector inside the library ends the worker and is attributed to the case). non-trivial = every case"
	n := 160
	if c.Thorough() {
		n = 2000
	}
	// the production build: one case per worker process for the first cases (cold fast-path slots)
	c.Chunk = 1
	c.CaseBudget = 70
	c.RunCases("cold", 16, func(c *Ctx, k int, rng *rand.Rand) { c10Case(c, k, rng, "norace-cold") },
		func(k int, rng *rand.Rand) string { return fmt.Sprint("concurrent case (fresh process) ", k) }, nil)
	c.Chunk = 16
	c.CaseBudget = 70
	c.RunCases("warm", n, func(c *Ctx, k int, rng *rand.Rand) { c10Case(c, k, rng, "norace") },
		func(k int, rng *rand.Rand) string { return fmt.Sprint("concurrent case ", k) }, nil)
	// programs that are not in the cache: concurrent first uses of fresh run-time types (in the
	// copy-on-write map one goroutine's entry replaces another's), each value holding a marshaler that
	// collects garbage and re-uses freed memory while the outer program waits
	ngc := 3
	if c.Thorough() {
		ngc = 12
	}
	c.Chunk = 1
	c.CaseBudget = 120
	c.RunCases("gcprograms", ngc, func(c *Ctx, k int, rng *rand.Rand) { c10GCPrograms(c, k) },
		func(k int, rng *rand.Rand) string {
			return fmt.Sprint("16 goroutines, fresh run-time types with a collecting marshaler inside, case ", k)
		}, nil)
	// pooled working storage after failed calls: every goroutine first makes calls that fail half-way
	// (truncated streams, type errors inside slices and maps), then all decode distinct documents of the
	// same types concurrently: a pooled object handed out twice shows as one goroutine's elements in
	// another's result
	c.Chunk = 1
	c.CaseBudget = 120
	c.RunCases("afterfail", 3, func(c *Ctx, k int, rng *rand.Rand) { c10AfterFail(c, k) },
		func(k int, rng *rand.Rand) string {
			return fmt.Sprint("failed decodes, then concurrent decodes of the same slice / map types, case ", k)
		}, nil)
	// the race build
	raceExe := os.Getenv("VERIF_HARNESS_RACE_EXE")
	if raceExe == "" && !c.IsWorker() {
		c.Oracle("race-build-available", "VERIF_HARNESS_RACE_EXE", "not set", "bin/check builds the harness with -race", false, "")
		return
	}
	nr := 64
	if c.Thorough() {
		nr = 400
	}
	raceEnv := []string{"GORACE=halt_on_error=1 exitcode=66", "VERIF_NO_RLIMIT=1", "GOMEMLIMIT=8GiB"}
	c.Chunk, c.CaseBudget, c.WorkerExe, c.WorkerEnv = 1, 120, raceExe, raceEnv
	c.RunCases("racecold", 8, func(c *Ctx, k int, rng *rand.Rand) { c10Case(c, k, rng, "race-cold") },
		func(k int, rng *rand.Rand) string {
			return fmt.Sprint("race build, concurrent case (fresh process) ", k)
		}, nil)
	c.Chunk, c.CaseBudget, c.WorkerExe, c.WorkerEnv = 4, 120, raceExe, raceEnv
	c.RunCases("race", nr, func(c *Ctx, k int, rng *rand.Rand) { c10Case(c, k, rng, "race") },
		func(k int, rng *rand.Rand) string { return fmt.Sprint("race build, concurrent case ", k) }, nil)
}

// C10GCHook collects garbage and then allocates objects of the size classes opcodes live in
type C10GCHook struct{ N int }

var c10GCSink atomic.Value

func (h C10GCHook) MarshalJSON() ([]byte, error) {
	runtime.GC()
	objs := make([]*[22]uintptr, 0, 2000)
	for i := 0; i < 2000; i++ {
		o := new([22]uintptr)
		for j := range o {
			o[j] = 0x4141414141414141
		}
		objs = append(objs, o)
	}
	c10GCSink.Store(objs)
	return []byte(fmt.Sprintf(`{"h":%d}`, h.N)), nil
}

func c10GCPrograms(c *Ctx, k int) {
	var mu sync.Mutex
	var wg sync.WaitGroup
	for g := 0; g < 16; g++ {
		wg.Add(1)
		go func(g int) {
			defer wg.Done()
			for it := 0; it < 12; it++ {
				t := reflect.StructOf([]reflect.StructField{
					{Name: fmt.Sprintf("I%d_%d_%d", k, g, it), Type: reflect.TypeOf((*interface{})(nil)).Elem(), Tag: `json:"i"`},
					{Name: "A", Type: reflect.TypeOf(""), Tag: `json:"a"`},
					{Name: "B", Type: reflect.TypeOf([]int{}), Tag: `json:"b"`},
					{Name: "C", Type: reflect.TypeOf(map[string]int{}), Tag: `json:"c"`},
				})
				v := reflect.New(t).Elem()
				v.Field(0).Set(reflect.ValueOf(C10GCHook{N: it}))
				v.Field(1).SetString("after")
				v.Field(2).Set(reflect.ValueOf([]int{1, 2, 3}))
				v.Field(3).Set(reflect.ValueOf(map[string]int{"k": 1}))
				iv := []interface{}{v.Interface()}
				want, _ := stdjson.Marshal(iv)
				for ei, f := range []func() ([]byte, error){
					func() ([]byte, error) { return json.Marshal(iv) },
					func() ([]byte, error) {
						b, err := json.MarshalIndent(iv, "", " ")
						var cb bytes.Buffer
						if err == nil {
							err = stdjson.Compact(&cb, b)
						}
						return cb.Bytes(), err
					},
				} {
					got, err, pan := safeMarshal(f)
					ok := pan == "" && err == nil && bytes.Equal(got, want)
					mu.Lock()
					c.Oracle(fmt.Sprintf("program-stays-alive/%d", ei), fmt.Sprintf("case %d goroutine %d iteration %d", k, g, it),
						fmt.Sprintf("%s err=%s panic=%s", trunc(got), c11Err(err), pan), string(want), ok, "")
					mu.Unlock()
				}
			}
		}(g)
	}
	wg.Wait()
}

type C10Tree struct {
	V    int
	Kids []C10Tree
}

func c10AfterFail(c *Ctx, k int) {
	json.VerifPoolErrors()
	// 1. calls that fail after the working storage has been taken (and grown)
	for _, doc := range []string{"[1,2", "[1,2,3", "[1,2,3,4,5", "[1,2,x]", "[1,", `[[1],[2`, `{"V":1,"Kids":[{"V":2,"Kids":[]}`, `{"a":[1,2`, `["a","b"`, `[{"V":1},{"V":`} {
		for _, mk := range []func() interface{}{func() interface{} { return new([]int) }, func() interface{} { return new([][]int) }, func() interface{} { return new(C10Tree) },
			func() interface{} { return new(map[string][]int) }, func() interface{} { return new([]string) }, func() interface{} { return new([]C10Tree) }} {
			_ = json.NewDecoder(strings.NewReader(doc)).Decode(mk())
			_ = json.NewDecoder(&chunkReader{data: []byte(doc), size: 1}).Decode(mk())
			_ = json.Unmarshal([]byte(doc), mk())
		}
	}
	pe := json.VerifPoolErrors()
	c.Oracle("afterfail/pool-invariant", fmt.Sprintf("case %d: failing decodes of slice / map / tree types", k), strings.Join(pe, "; "), "no pooled object handed back twice or inconsistent", len(pe) == 0, "")
	// 2. concurrent decodes of distinct documents of the same types
	var mu sync.Mutex
	var wg sync.WaitGroup
	for g := 0; g < 8; g++ {
		wg.Add(1)
		go func(g int) {
			defer wg.Done()
			for round := 0; round < 40; round++ {
				n := 40 + (g*7+round)%17
				var sb strings.Builder
				sb.WriteByte('[')
				want := make([]int, n)
				for i := 0; i < n; i++ {
					if i > 0 {
						sb.WriteByte(',')
					}
					want[i] = g*1000 + round*50 + i
					fmt.Fprint(&sb, want[i])
				}
				sb.WriteByte(']')
				var got []int
				err := json.Unmarshal([]byte(sb.String()), &got)
				tdoc := fmt.Sprintf(`{"V":%d,"Kids":[{"V":%d,"Kids":[{"V":%d,"Kids":[]}]},{"V":%d,"Kids":[]}]}`, g, g*10+1, g*100+round, g*10+2)
				var tg, ts C10Tree
				e2 := json.NewDecoder(strings.NewReader(tdoc)).Decode(&tg)
				_ = stdjson.Unmarshal([]byte(tdoc), &ts)
				ok := err == nil && reflect.DeepEqual(got, want) && e2 == nil && reflect.DeepEqual(tg, ts)
				mu.Lock()
				c.Oracle("afterfail/concurrent-decodes", fmt.Sprintf("case %d goroutine %d round %d", k, g, round), fmt.Sprintf("err=%v %v tree=%+v", err, trunc([]byte(fmt.Sprint(got))), tg), "its own elements", ok, "")
				mu.Unlock()
			}
		}(g)
	}
	wg.Wait()
	pe = json.VerifPoolErrors()
	c.Oracle("afterfail/pool-invariant", fmt.Sprintf("case %d: after the concurrent decodes", k), strings.Join(pe, "; "), "no pooled object handed back twice or inconsistent", len(pe) == 0, "")
}
