package main

import (
	"bytes"
	stdjson "encoding/json"
	"fmt"
	"math"
	"math/big"
	"math/rand"
	"os"
	"reflect"
	"runtime/debug"
	"strings"

	json "github.com/goccy/go-json"
)

func init() { props["C02"] = runC02 }

// ---- unmarshaler implementers -----------------------------------------------------------------

type GUP struct {
	Raw string
	N   int
}

func (u *GUP) UnmarshalJSON(b []byte) error {
	u.Raw = string(b)
	u.N++
	if bytes.Contains(b, []byte("fail")) {
		return fmt.Errorf("GUP refuses")
	}
	return nil
}

type GTU struct{ S string }

func (u *GTU) UnmarshalText(b []byte) error {
	u.S = "text:" + string(b)
	if string(b) == "fail" {
		return fmt.Errorf("GTU refuses")
	}
	return nil
}

type GKeyU string

func (k *GKeyU) UnmarshalText(b []byte) error { *k = GKeyU("K:" + string(b)); return nil }

var c02Declared = []reflect.Type{
	reflect.TypeOf(GUP{}), reflect.TypeOf(GTU{}), reflect.TypeOf(map[GKeyU]int(nil)), reflect.TypeOf([]GUP(nil)),
	reflect.TypeOf(struct {
		A GUP  `json:"a"`
		B *GTU `json:"b"`
		C map[string]*GUP
	}{}),
}

// ---- type-directed document generator -------------------------------------------------------------

var c02Ints = []string{"0", "-0", "1", "-1", "127", "128", "-128", "-129", "255", "256", "32767", "32768", "-32768", "-32769", "65535", "65536",
	"2147483647", "2147483648", "-2147483648", "-2147483649", "4294967295", "4294967296", "9223372036854775807", "9223372036854775808",
	"-9223372036854775808", "-9223372036854775809", "18446744073709551615", "18446744073709551616", "12345678901234567890123"}
var c02Floats = []string{"1.5", "-0.0", "1e2", "1E+2", "1e-2", "3.4028234663852886e38", "3.5e38", "1.7976931348623157e308", "1e309", "-1e309", "5e-324", "1e-400", "0.1", "100.0", "1.0", "2.50", "1e0", "123456789.125"}
var c02Strings = []string{`""`, `"a"`, `"hello"`, `"é"`, `"é"`, `"😀"`, `"\ud800"`, `"a\"b\\c\/d"`, `"\b\f\n\r\t"`, `"12"`, `"-5"`, `"1.5"`, `"true"`, `"null"`, `"2024-02-29T23:59:59.999999999Z"`, `"YWI="`, `"!!"`, `"fail"`, `" "`, `"\u0000"`}

type docGen struct {
	r     *rand.Rand
	noise int // 0..100: how often to deviate from what the type expects
	nulls int // 0..100: how often a value is null (0 = the default of one in twelve)
}

func (d *docGen) ws() string {
	switch d.r.Intn(10) {
	case 0:
		return " "
	case 1:
		return "\n\t"
	}
	return ""
}

func (d *docGen) any(depth int) string {
	switch d.r.Intn(8) {
	case 0:
		return "null"
	case 1:
		return []string{"true", "false"}[d.r.Intn(2)]
	case 2:
		return c02Ints[d.r.Intn(len(c02Ints))]
	case 3:
		return c02Floats[d.r.Intn(len(c02Floats))]
	case 4:
		return c02Strings[d.r.Intn(len(c02Strings))]
	case 5:
		if depth <= 0 {
			return "[]"
		}
		n := d.r.Intn(3)
		var parts []string
		for i := 0; i < n; i++ {
			parts = append(parts, d.any(depth-1))
		}
		return "[" + d.ws() + strings.Join(parts, ","+d.ws()) + "]"
	default:
		if depth <= 0 {
			return "{}"
		}
		n := d.r.Intn(3)
		var parts []string
		for i := 0; i < n; i++ {
			parts = append(parts, c02Strings[d.r.Intn(6)]+d.ws()+":"+d.ws()+d.any(depth-1))
		}
		return "{" + strings.Join(parts, ",") + "}"
	}
}

func (d *docGen) forType(t reflect.Type, depth int) string {
	if d.r.Intn(100) < d.noise || depth < 0 {
		return d.any(2)
	}
	if d.nulls > 0 {
		if d.r.Intn(100) < d.nulls {
			return "null"
		}
	} else if d.r.Intn(12) == 0 {
		return "null"
	}
	switch t.Kind() {
	case reflect.Bool:
		return []string{"true", "false"}[d.r.Intn(2)]
	case reflect.Int, reflect.Int8, reflect.Int16, reflect.Int32, reflect.Int64, reflect.Uint, reflect.Uint8, reflect.Uint16, reflect.Uint32, reflect.Uint64, reflect.Uintptr:
		if d.r.Intn(6) == 0 {
			return c02Floats[d.r.Intn(len(c02Floats))]
		}
		return c02Ints[d.r.Intn(len(c02Ints))]
	case reflect.Float32, reflect.Float64:
		if d.r.Intn(2) == 0 {
			return c02Ints[d.r.Intn(len(c02Ints))]
		}
		return c02Floats[d.r.Intn(len(c02Floats))]
	case reflect.String:
		if t == encNumberT {
			return append(c02Ints, c02Floats...)[d.r.Intn(len(c02Ints)+len(c02Floats))]
		}
		return c02Strings[d.r.Intn(len(c02Strings))]
	case reflect.Interface:
		return d.any(depth)
	case reflect.Ptr:
		return d.forType(t.Elem(), depth)
	case reflect.Slice, reflect.Array:
		if t.Kind() == reflect.Slice && t.Elem().Kind() == reflect.Uint8 && d.r.Intn(3) > 0 {
			return c02Strings[d.r.Intn(len(c02Strings))]
		}
		n := d.r.Intn(4)
		if t.Kind() == reflect.Array && d.r.Intn(2) == 0 {
			n = t.Len() + d.r.Intn(3) - 1
			if n < 0 {
				n = 0
			}
		}
		var parts []string
		for i := 0; i < n; i++ {
			parts = append(parts, d.forType(t.Elem(), depth-1))
		}
		return "[" + d.ws() + strings.Join(parts, d.ws()+","+d.ws()) + d.ws() + "]"
	case reflect.Map:
		n := d.r.Intn(4)
		var parts []string
		for i := 0; i < n; i++ {
			var k string
			switch t.Key().Kind() {
			case reflect.String:
				k = c02Strings[d.r.Intn(len(c02Strings))]
			default:
				k = `"` + c02Ints[d.r.Intn(len(c02Ints))] + `"`
				if d.r.Intn(8) == 0 {
					k = `"x"`
				}
			}
			parts = append(parts, k+d.ws()+":"+d.ws()+d.forType(t.Elem(), depth-1))
		}
		if n > 1 && d.r.Intn(3) == 0 {
			parts = append(parts, parts[0]) // duplicate key
		}
		return "{" + d.ws() + strings.Join(parts, ",") + d.ws() + "}"
	case reflect.Struct:
		if t.Implements(encMarshalerT) || reflect.PtrTo(t).Implements(encMarshalerT) {
			// time.Time and friends: their own text most of the time
			if b, err := stdjson.Marshal(reflect.New(t).Elem().Interface()); err == nil && d.r.Intn(3) > 0 {
				return string(b)
			}
			return d.any(1)
		}
		var parts []string
		for i := 0; i < t.NumField(); i++ {
			f := t.Field(i)
			if d.r.Intn(4) == 0 {
				continue
			}
			name := strings.Split(f.Tag.Get("json"), ",")[0]
			if name == "" || name == "-" {
				name = f.Name
			}
			switch d.r.Intn(8) {
			case 0:
				name = strings.ToUpper(name)
			case 1:
				name = strings.ToLower(name)
			case 2:
				name = name + "x"
			}
			kb, _ := stdjson.Marshal(name)
			if d.r.Intn(4) == 0 {
				kb = []byte(c02RespellKey(d.r, name))
			}
			ft := f.Type
			val := d.forType(ft, depth-1)
			if strings.Contains(f.Tag.Get("json"), ",string") && d.r.Intn(3) > 0 {
				vb, _ := stdjson.Marshal(val)
				val = string(vb)
			}
			parts = append(parts, string(kb)+d.ws()+":"+d.ws()+val)
		}
		if d.r.Intn(4) == 0 {
			parts = append(parts, `"unknown":`+d.any(2))
		}
		if len(parts) > 1 && d.r.Intn(4) == 0 {
			parts = append(parts, parts[d.r.Intn(len(parts))])
		}
		d.r.Shuffle(len(parts), func(i, j int) { parts[i], parts[j] = parts[j], parts[i] })
		return "{" + d.ws() + strings.Join(parts, ","+d.ws()) + d.ws() + "}"
	}
	return d.any(1)
}

// ---- comparison ------------------------------------------------------------------------------------

func safeDo(f func() error) (err error, pan string) {
	old := debug.SetPanicOnFault(true)
	defer debug.SetPanicOnFault(old)
	defer func() {
		if r := recover(); r != nil {
			pan = fmt.Sprint(r)
			if len(pan) > 200 {
				pan = pan[:200]
			}
		}
	}()
	return f(), ""
}

// c02RespellKey writes an object key with some of its ASCII characters as \u escapes (upper- or
// lower-case hex digits) and some letters in the other case: the same key for encoding/json
func c02RespellKey(r *rand.Rand, name string) string {
	var sb strings.Builder
	sb.WriteByte('"')
	for _, ch := range name {
		if ch < 0x80 && r.Intn(3) == 0 {
			x := ch
			if r.Intn(3) == 0 && (x >= 'a' && x <= 'z' || x >= 'A' && x <= 'Z') {
				x ^= 0x20
			}
			if r.Intn(2) == 0 {
				fmt.Fprintf(&sb, "\\u%04x", x)
			} else {
				fmt.Fprintf(&sb, "\\u%04X", x)
			}
			continue
		}
		b, _ := stdjson.Marshal(string(ch))
		sb.Write(b[1 : len(b)-1])
	}
	sb.WriteByte('"')
	return sb.String()
}

func c02Show(v interface{}) string {
	b, err := stdjson.Marshal(v)
	s := string(b)
	if err != nil {
		s = fmt.Sprintf("%+v", v)
	}
	if len(s) > 300 {
		s = s[:300] + "…"
	}
	if os.Getenv("VERIF_GOSYNTAX") != "" {
		s += fmt.Sprintf(" %#v", reflect.ValueOf(v).Elem().Interface())
	}
	return s
}

func c02Class(t reflect.Type, doc string) string { return "" }

// c02Compare decodes doc into fresh (or pre-populated) values of type t with both libraries
func c02Compare(c *Ctx, label string, t reflect.Type, doc string, pre func() reflect.Value, mode string) {
	mk := func() reflect.Value {
		if pre != nil {
			return pre()
		}
		return reflect.New(t)
	}
	g, s := mk(), mk()
	var gerr, serr error
	var pan string
	switch mode {
	case "unmarshal":
		gerr, pan = safeDo(func() error { return json.Unmarshal([]byte(doc), g.Interface()) })
		serr = stdjson.Unmarshal([]byte(doc), s.Interface())
	case "usenumber":
		gerr, pan = safeDo(func() error {
			dec := json.NewDecoder(strings.NewReader(doc))
			dec.UseNumber()
			return dec.Decode(g.Interface())
		})
		sd := stdjson.NewDecoder(strings.NewReader(doc))
		sd.UseNumber()
		serr = sd.Decode(s.Interface())
	case "disallow":
		gerr, pan = safeDo(func() error {
			dec := json.NewDecoder(strings.NewReader(doc))
			dec.DisallowUnknownFields()
			return dec.Decode(g.Interface())
		})
		sd := stdjson.NewDecoder(strings.NewReader(doc))
		sd.DisallowUnknownFields()
		serr = sd.Decode(s.Interface())
	case "decoder":
		gerr, pan = safeDo(func() error { return json.NewDecoder(strings.NewReader(doc)).Decode(g.Interface()) })
		serr = stdjson.NewDecoder(strings.NewReader(doc)).Decode(s.Interface())
	}
	if pan == "" {
		if bad := wellFormed(g.Elem(), "dst", 0); bad != "" {
			// the destination is not a value Go code may touch: do not print or compare it
			c.Oracle(mode+"/malformed-destination", fmt.Sprintf("%s <- %s", genTypeString(t), doc), bad, "a well-formed Go value", false, c02ClassOf(t, doc, g, s, gerr, serr))
			return
		}
	}
	ok := pan == "" && (gerr == nil) == (serr == nil) && (gerr != nil || reflect.DeepEqual(g.Interface(), s.Interface()))
	if !ok && pre != nil && strings.HasPrefix(label, "pre-shrunk-") && c02HasStaleCapacity(pre().Elem(), 0) {
		c.Oracle(mode+"/"+label, fmt.Sprintf("%s <- %s", genTypeString(t), doc), "", "", false, "C02-slice-spare-capacity")
		return
	}
	if !ok && pre != nil && strings.Contains(doc, "null") && c02HoldsPtrPtr(pre(), 0) {
		c.Oracle(mode+"/"+label, fmt.Sprintf("%s <- %s", genTypeString(t), doc), "", "", false, "C02-null-interface-holding-ptrptr")
		return
	}
	c.Oracle(mode+"/"+label, fmt.Sprintf("%s <- %s", genTypeString(t), doc),
		fmt.Sprintf("%s err=%s panic=%s", c02Show(g.Interface()), errT(gerr), pan),
		fmt.Sprintf("%s err=%v", c02Show(s.Interface()), serr), ok, c02ClassOf(t, doc, g, s, gerr, serr))
}

// c02Shrink cuts slices short (length only): the cut-off elements stay in the backing array
func c02Shrink(v reflect.Value, rng *rand.Rand, depth int) {
	if depth > 8 {
		return
	}
	switch v.Kind() {
	case reflect.Slice:
		for i := 0; i < v.Len(); i++ {
			c02Shrink(v.Index(i), rng, depth+1)
		}
		if v.Len() >= 1 && v.CanSet() && rng.Intn(2) == 0 {
			v.Set(v.Slice(0, rng.Intn(v.Len())))
		}
	case reflect.Array:
		for i := 0; i < v.Len(); i++ {
			c02Shrink(v.Index(i), rng, depth+1)
		}
	case reflect.Struct:
		for i := 0; i < v.NumField(); i++ {
			if v.Field(i).CanSet() {
				c02Shrink(v.Field(i), rng, depth+1)
			}
		}
	case reflect.Ptr:
		if !v.IsNil() {
			c02Shrink(v.Elem(), rng, depth+1)
		}
	}
}

// c02HasStaleCapacity: some slice has a non-zero element between its length and its capacity
func c02HasStaleCapacity(v reflect.Value, depth int) bool {
	if depth > 8 {
		return false
	}
	switch v.Kind() {
	case reflect.Slice:
		if v.Cap() > v.Len() {
			full := v.Slice(0, v.Cap())
			for i := v.Len(); i < v.Cap(); i++ {
				if !full.Index(i).IsZero() {
					return true
				}
			}
		}
		for i := 0; i < v.Len(); i++ {
			if c02HasStaleCapacity(v.Index(i), depth+1) {
				return true
			}
		}
	case reflect.Array:
		for i := 0; i < v.Len(); i++ {
			if c02HasStaleCapacity(v.Index(i), depth+1) {
				return true
			}
		}
	case reflect.Struct:
		for i := 0; i < v.NumField(); i++ {
			if c02HasStaleCapacity(v.Field(i), depth+1) {
				return true
			}
		}
	case reflect.Ptr, reflect.Interface:
		if !v.IsNil() {
			return c02HasStaleCapacity(v.Elem(), depth+1)
		}
	case reflect.Map:
		it := v.MapRange()
		for it.Next() {
			if c02HasStaleCapacity(it.Value(), depth+1) {
				return true
			}
		}
	}
	return false
}

var c02TextUnmarshalerT = reflect.TypeOf((*interface{ UnmarshalText([]byte) error })(nil)).Elem()

// c02BadMapKey: t contains a map whose key type encoding/json cannot decode into (not a string or
// integer kind and not a TextUnmarshaler)
func c02BadMapKey(t reflect.Type, depth int) bool {
	if depth > 10 {
		return false
	}
	switch t.Kind() {
	case reflect.Map:
		k := t.Key()
		ok := false
		switch k.Kind() {
		case reflect.String, reflect.Int, reflect.Int8, reflect.Int16, reflect.Int32, reflect.Int64,
			reflect.Uint, reflect.Uint8, reflect.Uint16, reflect.Uint32, reflect.Uint64, reflect.Uintptr:
			ok = true
		}
		if reflect.PtrTo(k).Implements(c02TextUnmarshalerT) {
			ok = true
		}
		if !ok {
			return true
		}
		return c02BadMapKey(t.Elem(), depth+1)
	case reflect.Ptr, reflect.Slice, reflect.Array:
		return c02BadMapKey(t.Elem(), depth+1)
	case reflect.Struct:
		for i := 0; i < t.NumField(); i++ {
			if c02BadMapKey(t.Field(i).Type, depth+1) {
				return true
			}
		}
	}
	return false
}

// c02HoldsPtrPtr: an interface in v holds a pointer to a pointer
func c02HoldsPtrPtr(v reflect.Value, depth int) bool {
	if depth > 10 || !v.IsValid() {
		return false
	}
	switch v.Kind() {
	case reflect.Interface:
		if v.IsNil() {
			return false
		}
		e := v.Elem()
		if e.Kind() == reflect.Ptr && e.Type().Elem().Kind() == reflect.Ptr {
			return true
		}
		return c02HoldsPtrPtr(e, depth+1)
	case reflect.Ptr:
		if v.IsNil() {
			return false
		}
		return c02HoldsPtrPtr(v.Elem(), depth+1)
	case reflect.Slice, reflect.Array:
		for i := 0; i < v.Len(); i++ {
			if c02HoldsPtrPtr(v.Index(i), depth+1) {
				return true
			}
		}
	case reflect.Map:
		for _, k := range v.MapKeys() {
			if c02HoldsPtrPtr(v.MapIndex(k), depth+1) {
				return true
			}
		}
	case reflect.Struct:
		for i := 0; i < v.NumField(); i++ {
			if c02HoldsPtrPtr(v.Field(i), depth+1) {
				return true
			}
		}
	}
	return false
}

func c02ClassOf(t reflect.Type, doc string, g, s reflect.Value, gerr, serr error) string {
	if c02BadMapKey(t, 0) {
		return "C02-map-key-type-unsupported"
	}
	return ""
}

// c02Tree renders a value decoded into interface{} (with UseNumber) in the driver's notation
func c02Tree(v interface{}) string {
	switch t := v.(type) {
	case nil:
		return "z"
	case bool:
		if t {
			return "t"
		}
		return "f"
	case json.Number:
		return "n" + hx([]byte(string(t)))
	case string:
		return "s" + hx([]byte(t))
	case []interface{}:
		parts := []string{fmt.Sprintf("a%d", len(t))}
		for _, e := range t {
			parts = append(parts, c02Tree(e))
		}
		return strings.Join(parts, " ")
	case map[string]interface{}:
		var ks []string
		for k := range t {
			ks = append(ks, k)
		}
		sortStrings(ks)
		parts := []string{fmt.Sprintf("o%d", len(t))}
		for _, k := range ks {
			parts = append(parts, "k"+hx([]byte(k)), c02Tree(t[k]))
		}
		return strings.Join(parts, " ")
	}
	return fmt.Sprintf("?%T", v)
}

func c02TreeOps(c *Ctx, doc string) {
	var v interface{}
	err, pan := safeDo(func() error {
		d := json.NewDecoder(strings.NewReader(doc))
		d.UseNumber()
		return d.Decode(&v)
	})
	out := "err"
	if pan != "" {
		out = "panic"
	} else if err == nil {
		out = c02Tree(v)
	}
	c.Op("dec 0 "+hx([]byte(doc)), out, true, "tree")
}

// c02FloatLiterals: decimal literals at the places where binary rounding decides — just below, at and
// just above the midpoints between neighbouring float32 and float64 values (written with enough
// digits to fall on either side within the wider format), the largest finite values and the
// overflow thresholds, the smallest normal and subnormal values, long digit strings
func c02FloatLiterals() []string {
	var out []string
	add := func(f *big.Float) { out = append(out, f.Text('f', -1), f.Text('e', 60)) }
	mid32 := func(a float32) {
		b := math.Nextafter32(a, float32(math.Inf(1)))
		m := new(big.Float).SetPrec(400).Add(new(big.Float).SetFloat64(float64(a)), new(big.Float).SetFloat64(float64(b)))
		m.Quo(m, big.NewFloat(2))
		for _, e := range []float64{-1e-30, -1e-18, 0, 1e-18, 1e-30} {
			d := new(big.Float).SetPrec(400).Mul(m, new(big.Float).SetPrec(400).SetFloat64(e))
			add(new(big.Float).SetPrec(400).Add(m, d))
		}
	}
	mid64 := func(a float64) {
		b := math.Nextafter(a, math.Inf(1))
		m := new(big.Float).SetPrec(400).Add(new(big.Float).SetFloat64(a), new(big.Float).SetFloat64(b))
		m.Quo(m, big.NewFloat(2))
		for _, e := range []float64{-1e-30, 0, 1e-30} {
			d := new(big.Float).SetPrec(400).Mul(m, new(big.Float).SetPrec(400).SetFloat64(e))
			add(new(big.Float).SetPrec(400).Add(m, d))
		}
	}
	for _, a := range []float32{1, 1.0000001, 1.0000002, 0.1, 3.1415927, 16777216, 16777218, 1e-10, 1e20, math.MaxFloat32 / 2, math.SmallestNonzeroFloat32, 1.1754942e-38, 1.17549435e-38} {
		mid32(a)
		mid32(-a)
	}
	for _, a := range []float64{1, 0.1, 2.2250738585072011e-308, 9007199254740992, 1e22, 1e23, math.MaxFloat64 / 2, 5e-324} {
		mid64(a)
	}
	// MaxFloat32 + half an ulp is the first literal that overflows float32; likewise for float64
	max32 := new(big.Float).SetPrec(400).SetFloat64(math.MaxFloat32)
	half32 := new(big.Float).SetPrec(400).SetMantExp(big.NewFloat(1), 103)
	thr32 := new(big.Float).SetPrec(400).Add(max32, half32)
	for _, e := range []float64{-1e-30, 0, 1e-30} {
		d := new(big.Float).SetPrec(400).Mul(thr32, new(big.Float).SetPrec(400).SetFloat64(e))
		add(new(big.Float).SetPrec(400).Add(thr32, d))
		add(new(big.Float).SetPrec(400).Neg(new(big.Float).SetPrec(400).Add(thr32, d)))
	}
	out = append(out, "3.4028235e38", "3.4028236e38", "3.40282346638528859811704183484516925440e38", "340282356779733661637539395458142568447", "340282356779733661637539395458142568448",
		"1.7976931348623157e308", "1.7976931348623158e308", "1.797693134862315807e308", "1.797693134862315808e308", "1e39", "-1e39", "1e-46", "1e-400", "0.000000000000000000000000000000000000000000001401298464324817",
		"4.9e-324", "2.4703282292062327e-324", "2.4703282292062328e-324", "123456789012345678901234567890", "0.1000000000000000055511151231257827021181583404541015625", "16777217", "16777217.0000000001", "9007199254740993", "9007199254740993.0000001")
	return out
}

// embedded pointers (exported types: encoding/json refuses to allocate unexported ones)
type C02E struct {
	X int
	P *int
	S []string
	U C02Unm
}
type C02Unm struct{ N int }

func (u *C02Unm) UnmarshalJSON(b []byte) error { u.N = len(b); return nil }

type C02T struct {
	*C02E
	Y int
}
type C02Mid struct {
	*C02E
	Z *C02E
}
type C02T2 struct {
	*C02Mid
	Y int
}

func runC02(c *Ctx) {
	if !c.IsWorker() {
		// floats where rounding decides, into every float destination and position
		type f32s struct {
			A float32
			P *float32
			S []float32
			M map[string]float32
		}
		type f64s struct {
			A float64
			P *float64
			S []float64
			M map[string]float64
		}
		n := 0
		for _, lit := range c02FloatLiterals() {
			for _, neg := range []string{"", "-"} {
				l := neg + strings.TrimPrefix(lit, "-")
				n++
				doc := fmt.Sprintf(`{"A":%s,"P":%s,"S":[%s,%s],"M":{"k":%s}}`, l, l, l, l, l)
				for _, mode := range []string{"unmarshal", "decoder"} {
					c02Compare(c, "float32-rounding", reflect.TypeOf(float32(0)), l, nil, mode)
					c02Compare(c, "float64-rounding", reflect.TypeOf(float64(0)), l, nil, mode)
					c02Compare(c, "float32-rounding", reflect.TypeOf(f32s{}), doc, nil, mode)
					c02Compare(c, "float64-rounding", reflect.TypeOf(f64s{}), doc, nil, mode)
					c02Compare(c, "float-rounding-iface", reflect.TypeOf((*interface{})(nil)).Elem(), "["+l+"]", nil, mode)
				}
			}
		}
		// embedded pointers to structs: which promoted members (null ones included) make encoding/json
		// allocate the embedded struct
		for _, t := range []reflect.Type{reflect.TypeOf(C02T{}), reflect.TypeOf(C02T2{}), reflect.TypeOf([]C02T{})} {
			for _, d := range []string{`{"X":null}`, `{"X":null,"Y":1}`, `{"Y":1,"P": null}`, `{"S":null}`, `{"X":null,"X":3}`, `{"Y":2}`, `{}`, `{"X":1}`, `{"U":null}`, `{"U":5,"S":[]}`,
				`{"Z":null}`, `{"Z":{"X":null}}`, `{"X":"wrong"}`, `null`, `{"P":7,"S":null}`} {
				doc := d
				if t.Kind() == reflect.Slice {
					doc = "[" + d + "," + d + "]"
				}
				for _, mode := range []string{"unmarshal", "decoder", "disallow"} {
					c02Compare(c, "embedded-pointer", t, doc, nil, mode)
				}
			}
		}
		c.Rep.Exhaustive = append(c.Rep.Exhaustive, fmt.Sprintf("%d float literals at rounding / overflow / underflow boundaries of float32 and float64, in 5 destinations x 2 modes", n))
	}
	c.Rep.Rule = "destination types from the generator grammar plus Unmarshaler / TextUnmarshaler implementers; documents generated from the type (right kinds most of the time; integers and floats at and beyond every range boundary; strings with every escape class; case variants, unknown and duplicate keys; wrong kinds, nulls, surplus and missing array elements) with two noise levels; zero and pre-populated destinations; Unmarshal, Decoder, UseNumber, DisallowUnknownFields; oracle encoding/json: error parity and reflect.DeepEqual; non-trivial = every case"
	ntypes := 1200
	if c.Thorough() {
		ntypes = 25000
	}
	c.RunCases("types", ntypes, func(c *Ctx, k int, rng *rand.Rand) {
		g := &Gen{R: rng}
		var t reflect.Type
		if rng.Intn(10) == 0 {
			t = c02Declared[rng.Intn(len(c02Declared))]
		} else {
			t = g.Type(1 + rng.Intn(4))
		}
		label := t.Kind().String()
		for di := 0; di < 6; di++ {
			d := &docGen{r: rng, noise: []int{0, 0, 5, 5, 25, 60}[di]}
			doc := d.forType(t, 4)
			if !stdjson.Valid([]byte(doc)) {
				continue // C05's subject
			}
			mode := []string{"unmarshal", "unmarshal", "decoder", "usenumber", "disallow", "unmarshal"}[di]
			c02Compare(c, label, t, doc, nil, mode)
			if di < 2 {
				c02TreeOps(c, doc)
				c02TreeOps(c, d.any(4))
			}
			if di == 1 {
				// pre-populated destination: the same random value for both libraries
				seed := rng.Int63()
				pre := func() reflect.Value {
					pg := &Gen{R: rand.New(rand.NewSource(seed))}
					p := reflect.New(t)
					p.Elem().Set(pg.Value(t, 2, GenOpt{Finite: true, ValidUTF8: true, ValidNum: true}))
					return p
				}
				// every entry point, several documents (members missing: what is already there stays)
				for pi, pmode := range []string{"unmarshal", "decoder", "usenumber", "disallow"} {
					pdoc := doc
					if pi > 0 {
						pdoc = (&docGen{r: rng, noise: []int{0, 0, 5, 0}[pi]}).forType(t, 4)
						if !stdjson.Valid([]byte(pdoc)) {
							continue
						}
					}
					c02Compare(c, "pre-"+label, t, pdoc, pre, pmode)
				}
				// the same with slices cut short: the elements between length and capacity keep what they held
				shrunk := func() reflect.Value {
					p := pre()
					c02Shrink(p.Elem(), rand.New(rand.NewSource(seed+1)), 0)
					return p
				}
				for _, pmode := range []string{"unmarshal", "decoder"} {
					pdoc := (&docGen{r: rng, noise: 0}).forType(t, 4)
					if stdjson.Valid([]byte(pdoc)) {
						c02Compare(c, "pre-shrunk-"+label, t, pdoc, shrunk, pmode)
					}
				}
			}
		}
	}, func(k int, rng *rand.Rand) string {
		g := &Gen{R: rng}
		return fmt.Sprintf("case %d: destination %s", k, genTypeString(g.Type(1+rng.Intn(4))))
	}, nil)
}
