package main

import (
	"bytes"
	"context"
	stdjson "encoding/json"
	"fmt"
	"math/rand"
	"reflect"
	"strings"

	json "github.com/goccy/go-json"
)

func init() { props["C19"] = runC19 }

// a query as a tree of names
type qn struct {
	name string
	sub  []qn
}

func (q qn) toFQS() json.FieldQueryString {
	if len(q.sub) == 0 {
		return json.FieldQueryString(q.name)
	}
	var subs []json.FieldQueryString
	for _, s := range q.sub {
		subs = append(subs, s.toFQS())
	}
	return json.BuildSubFieldQuery(q.name).Fields(subs...)
}

func qTokens(qs []qn, out *[]string) {
	*out = append(*out, fmt.Sprintf("q%d", len(qs)))
	for _, q := range qs {
		*out = append(*out, "h"+hx([]byte(q.name)))
		qTokens(q.sub, out)
	}
}

func qString(qs []qn) string {
	var parts []string
	for _, q := range qs {
		if len(q.sub) > 0 {
			parts = append(parts, q.name+"{"+qString(q.sub)+"}")
		} else {
			parts = append(parts, q.name)
		}
	}
	return strings.Join(parts, ",")
}

// jsonNames: the member names of struct type t as the encoder sees them (no embedded fields: the
// generator's convertible shapes have none)
func c19FieldNames(t reflect.Type) []reflect.StructField {
	var out []reflect.StructField
	for i := 0; i < t.NumField(); i++ {
		f := t.Field(i)
		if f.PkgPath != "" || f.Tag.Get("json") == "-" {
			continue
		}
		out = append(out, f)
	}
	return out
}

func c19Name(f reflect.StructField) string {
	name := strings.Split(f.Tag.Get("json"), ",")[0]
	if !encValidTag(name) {
		name = f.Name
	}
	return name
}

// names that look like parts of a query, and a value that holds its own type behind an interface
type c19Dotted struct {
	AB    int                `json:"a.b"`
	A     struct{ B, C int } `json:"a"`
	Brack int                `json:"[a]"`
	X     interface{}
}

type c19RecHolder struct {
	C GRec
	P *GRec           `json:"p"`
	L []GRec          `json:"l"`
	M map[string]GRec `json:"m"`
	X int
}

// c19GenQuery draws a query over the field tree of t (through pointers, slices, arrays, maps)
func c19GenQuery(rng *rand.Rand, t reflect.Type, depth int) []qn {
	for t.Kind() == reflect.Ptr || t.Kind() == reflect.Slice || t.Kind() == reflect.Array || t.Kind() == reflect.Map {
		t = t.Elem()
	}
	var out []qn
	if t.Kind() == reflect.Struct {
		for _, f := range c19FieldNames(t) {
			if rng.Intn(3) == 0 {
				continue
			}
			q := qn{name: c19Name(f)}
			if depth > 0 && rng.Intn(2) == 0 {
				q.sub = c19GenQuery(rng, f.Type, depth-1)
			}
			out = append(out, q)
		}
	}
	switch rng.Intn(8) {
	case 0:
		out = append(out, qn{name: "nosuch"})
	case 1:
		out = append(out, qn{name: "nosuch", sub: []qn{{name: "x"}}})
	case 2:
		if len(out) > 0 { // a name listed twice: the last entry decides
			d := out[rng.Intn(len(out))]
			d.sub = nil
			out = append(out, d)
		}
	}
	rng.Shuffle(len(out), func(i, j int) { out[i], out[j] = out[j], out[i] })
	return out
}

// c19SlotErrs: what the slot assertions of the verif build reported during c19Marshal calls
var c19SlotErrs []string

func c19Marshal(q *json.FieldQuery, iv interface{}) (out []byte, err error, pan string) {
	json.VerifSlotsReset(true)
	defer func() {
		errs, _, _, _, _ := json.VerifSlotsReport()
		json.VerifSlotsReset(false)
		if len(errs) > 0 && len(c19SlotErrs) < 8 {
			c19SlotErrs = append(c19SlotErrs, errs[0])
		}
	}()
	return safeMarshal(func() ([]byte, error) {
		ctx := context.Background()
		if q != nil {
			ctx = json.SetFieldQueryToContext(ctx, q)
		}
		return json.MarshalContext(ctx, iv)
	})
}

// a context-aware marshaler that reports the query it is handed
type GCtxM struct{ A, B int }

func (m GCtxM) MarshalJSON(ctx context.Context) ([]byte, error) {
	q := json.FieldQueryFromContext(ctx)
	if q == nil {
		return []byte(`"noquery"`), nil
	}
	s, err := q.QueryString()
	if err != nil {
		return nil, err
	}
	return stdjson.Marshal(string(s))
}

// the same with a pointer receiver: only *GCtxP is a marshaler, values are reached by address
type GCtxP struct{ A, B int }

func (m *GCtxP) MarshalJSON(ctx context.Context) ([]byte, error) {
	q := json.FieldQueryFromContext(ctx)
	if q == nil {
		return []byte(`"noquery"`), nil
	}
	s, err := q.QueryString()
	if err != nil {
		return nil, err
	}
	return stdjson.Marshal(string(s))
}

type c19Holder2 struct {
	F  GCtxP
	L  []GCtxP
	Ar [1]GCtxP
	P  *GCtxP
}

type c19Holder struct {
	X int
	M GCtxM
	P *GCtxM
	L []GCtxM
	N struct{ M GCtxM }
}

func runC19(c *Ctx) {
	c.Rep.Rule = "struct types from the generator (shapes the tree conversion covers: no embedded fields, no pointer-receiver marshalers, no known-finding classes) x values x queries drawn over the field tree to depth 3 (random subsets per level, names with and without sub-queries, names that do not exist, names listed twice); ops: MarshalContext with the query vs the Lean projection + encoder specification, QueryString vs the model's rendering; oracle: histories (no query, q1, q2, no query, q1 — every result equals the first one for that query), Build(QueryString(q)) behaves as q, context-aware marshalers receive the sub-query of their field, indenting Encoder with context; non-trivial = every case"
	ntypes := 600
	if c.Thorough() {
		ntypes = 12000
	}
	if !c.IsWorker() {
		// directed: queries whose flattened spellings coincide must not share cached programs
		dv := c19Dotted{AB: 3, Brack: 5}
		dv.A.B, dv.A.C = 1, 2
		dv.X = c19Dotted{AB: 6, X: 7}
		type dq struct {
			name string
			q    []json.FieldQueryString
			want string
		}
		for _, seq := range [][]dq{
			{{"a:[B]", []json.FieldQueryString{json.BuildSubFieldQuery("a").Fields("B")}, `{"a":{"B":1}}`}, {"a.b", []json.FieldQueryString{"a.b"}, `{"a.b":3}`}, {"a:[B] again", []json.FieldQueryString{json.BuildSubFieldQuery("a").Fields("B")}, `{"a":{"B":1}}`}},
			{{"a.b first", []json.FieldQueryString{"a.b"}, `{"a.b":3}`}, {"a:[B,C]", []json.FieldQueryString{json.BuildSubFieldQuery("a").Fields("B", "C")}, `{"a":{"B":1,"C":2}}`}},
			{{"X:[a.b]", []json.FieldQueryString{json.BuildSubFieldQuery("X").Fields("a.b")}, `{"X":{"a.b":6}}`}, {"X:[X]", []json.FieldQueryString{json.BuildSubFieldQuery("X").Fields("X")}, `{"X":{"X":7}}`}, {"X", []json.FieldQueryString{"X"}, ""}},
		} {
			for _, d := range seq {
				fq, err := json.BuildFieldQuery(d.q...)
				if err != nil {
					c.Oracle("directed/build", d.name, err.Error(), "builds", false, "")
					continue
				}
				out, oerr, pan := c19Marshal(fq, dv)
				want := d.want
				if want == "" {
					var wb []byte
					wb, _, _ = c19Marshal(nil, struct{ X interface{} }{dv.X})
					want = string(wb)
				}
				c.Oracle("directed/colliding-spellings", d.name, fmt.Sprintf("%s err=%v panic=%s", out, oerr, pan), want, pan == "" && oerr == nil && string(out) == want, "")
			}
		}
	}
	c.RunCases("queries", ntypes, func(c *Ctx, k int, rng *rand.Rand) {
		g := &Gen{R: rng}
		t := g.Struct(3)
		if k%5 == 0 {
			// recursive struct types: a query on the recursive member, with and without a sub-query
			t = []reflect.Type{reflect.TypeOf(GRec{}), reflect.TypeOf(c19RecHolder{}), reflect.TypeOf(&GRec{}), reflect.TypeOf([]GRec{})}[(k/5)%4]
		}
		if rng.Intn(3) == 0 {
			t = reflect.SliceOf(t)
		} else if rng.Intn(4) == 0 {
			t = reflect.MapOf(reflect.TypeOf(""), t)
		}
		v := g.Value(t, 4, GenOpt{Finite: true, ValidNum: true})
		iv := v.Interface()
		if c01ClassOf(iv, nil, nil, nil, nil) != "" || c19HasPtrShapedStruct(t, 0) {
			// (a pointer-shaped struct left without members by the query prints null: the known
			// finding C01-ptr-shaped-struct-without-members)
			c.Rep.Hist["skipped-known-class"]++
			return
		}
		var tree []string
		if !toGV(v, &tree, 0) {
			c.Rep.Hist["skipped-shape"]++
			return
		}
		in := fmt.Sprintf("%s = %s", genTypeString(t), c01Show(iv))
		plain0, _, _ := c19Marshal(nil, iv)
		first := map[string]string{}
		var qsList [][]qn
		for i := 0; i < 3; i++ {
			qsList = append(qsList, c19GenQuery(rng, t, 3))
		}
		seq := []int{-1, 0, 1, -1, 0, 2, 1, -1}
		for _, qi := range seq {
			if qi < 0 {
				p, _, _ := c19Marshal(nil, iv)
				c.Oracle("history/plain", in, trunc(p), trunc(plain0), bytes.Equal(p, plain0), "")
				continue
			}
			qs := qsList[qi]
			var fqs []json.FieldQueryString
			for _, q := range qs {
				fqs = append(fqs, q.toFQS())
			}
			fq, err := json.BuildFieldQuery(fqs...)
			if err != nil {
				c.Oracle("build", qString(qs), "err "+err.Error(), "builds", false, "")
				continue
			}
			c19SlotErrs = nil
			out, oerr, pan := c19Marshal(fq, iv)
			c.Oracle("slot-assertions", in+" query "+qString(qs), strings.Join(c19SlotErrs, "; "), "every load/store inside the slot array and in a frame of its own", len(c19SlotErrs) == 0, "")
			res := "err"
			if pan != "" {
				res = "panic"
			} else if oerr == nil {
				res = hx(out)
			}
			key := qString(qs)
			if prev, seen := first[key]; seen {
				c.Oracle("history/query", in+" query "+key, res, prev, res == prev, "")
				continue
			}
			first[key] = res
			var toks []string
			qTokens(qs, &toks)
			c.Op("encq 1 - "+strings.Join(toks, " ")+" "+strings.Join(tree, " "), res, true, "marshalcontext")
			// QueryString round trip
			s, serr := fq.QueryString()
			if serr != nil {
				c.Oracle("querystring", key, "err", "a string", false, "")
				continue
			}
			c.Op("qstring "+strings.Join(toks, " "), c19QueryNotation(string(s))+" builds", true, "querystring")
			fq2, berr := s.Build()
			if berr != nil {
				c.Oracle("querystring/build", key+" -> "+string(s), "err "+berr.Error(), "builds", false, "")
				continue
			}
			out2, oerr2, pan2 := c19Marshal(fq2, iv)
			ok := pan2 == "" && (oerr2 == nil) == (oerr == nil) && bytes.Equal(out2, out)
			c.Oracle("querystring/equivalent", in+" query "+key+" -> "+string(s), trunc(out2), trunc(out), ok, "")
			// indenting Encoder with the context
			var eb bytes.Buffer
			enc := json.NewEncoder(&eb)
			enc.SetIndent(">", " ")
			_, eerr, epan := safeMarshal(func() ([]byte, error) {
				return nil, enc.EncodeContext(json.SetFieldQueryToContext(context.Background(), fq), iv)
			})
			eres := "err"
			if epan != "" {
				eres = "panic"
			} else if eerr == nil {
				eres = hx(bytes.TrimSuffix(eb.Bytes(), []byte("\n")))
			}
			c.Op("encq 1 3e:20 "+strings.Join(toks, " ")+" "+strings.Join(tree, " "), eres, true, "encoder-indent-context")
		}
	}, func(k int, rng *rand.Rand) string { return fmt.Sprint("case ", k) }, nil)

	if c.IsWorker() {
		return
	}
	// embedded structs: promoted fields are members of the outer struct
	type cE1 struct {
		P int    `json:"p"`
		Q string `json:"q"`
	}
	type cE2 struct{ R int }
	type cT struct {
		cE1
		*cE2
		Z int
	}
	tv := cT{cE1{1, "q"}, &cE2{2}, 3}
	for _, e := range []struct {
		q    []qn
		v    interface{}
		want string
	}{
		{[]qn{{name: "p"}, {name: "Z"}}, tv, `{"p":1,"Z":3}`},
		{[]qn{{name: "R"}}, tv, `{"R":2}`},
		{[]qn{{name: "q"}, {name: "R"}, {name: "nosuch"}}, tv, `{"q":"q","R":2}`},
		{[]qn{{name: "cE1", sub: []qn{{name: "nosuch"}}}}, tv, `{}`},
		{[]qn{{name: "cE1"}}, tv, `{}`},
		{nil, tv, `{}`},
		{[]qn{{name: "R"}, {name: "Z"}}, cT{Z: 1}, `{"Z":1}`},
		{[]qn{{name: "p"}}, []cT{tv}, `[{"p":1}]`},
	} {
		var fqs []json.FieldQueryString
		for _, q := range e.q {
			fqs = append(fqs, q.toFQS())
		}
		_, _, pan := safeMarshal(func() ([]byte, error) {
			fq, err := json.BuildFieldQuery(fqs...)
			if err != nil {
				return nil, err
			}
			out, oerr, p2 := c19Marshal(fq, e.v)
			c.Oracle("embedded", qString(e.q), fmt.Sprintf("%s err=%v panic=%s", out, oerr, p2), e.want, p2 == "" && oerr == nil && string(out) == e.want, "")
			return nil, nil
		})
		if pan != "" {
			c.Oracle("embedded", qString(e.q), "panic "+pan, e.want, false, "")
		}
	}
	// context-aware marshalers receive the sub-query of their field
	h := c19Holder{X: 1, M: GCtxM{1, 2}, P: &GCtxM{3, 4}, L: []GCtxM{{5, 6}}}
	type exp struct {
		q    []qn
		want string
	}
	cases := []exp{
		{[]qn{{name: "X"}}, `{"X":1}`},
		{[]qn{{name: "M"}}, `{"M":"noquery"}`},
		{[]qn{{name: "M", sub: []qn{{name: "A"}}}}, `{"M":"{\"M\":[\"A\"]}"}`},
		{[]qn{{name: "P", sub: []qn{{name: "A"}, {name: "B"}}}}, `{"P":"{\"P\":[\"A\",\"B\"]}"}`},
		{[]qn{{name: "L", sub: []qn{{name: "B"}}}}, `{"L":["{\"L\":[\"B\"]}"]}`},
		{[]qn{{name: "N", sub: []qn{{name: "M", sub: []qn{{name: "A"}}}}}}, `{"N":{"M":"{\"M\":[\"A\"]}"}}`},
		{[]qn{{name: "X"}, {name: "M", sub: []qn{{name: "B"}}}}, `{"X":1,"M":"{\"M\":[\"B\"]}"}`},
	}
	h2 := &c19Holder2{F: GCtxP{1, 2}, L: []GCtxP{{5, 6}}, Ar: [1]GCtxP{{7, 8}}, P: &GCtxP{3, 4}}
	cases2 := []exp{
		{[]qn{{name: "F", sub: []qn{{name: "A"}}}}, `{"F":"{\"F\":[\"A\"]}"}`},
		{[]qn{{name: "L", sub: []qn{{name: "B"}}}}, `{"L":["{\"L\":[\"B\"]}"]}`},
		{[]qn{{name: "Ar", sub: []qn{{name: "A"}}}}, `{"Ar":["{\"Ar\":[\"A\"]}"]}`},
		{[]qn{{name: "P", sub: []qn{{name: "A"}}}}, `{"P":"{\"P\":[\"A\"]}"}`},
		{[]qn{{name: "L"}, {name: "F"}}, `{"F":"noquery","L":["noquery"]}`},
	}
	for _, e := range cases2 {
		var fqs []json.FieldQueryString
		for _, q := range e.q {
			fqs = append(fqs, q.toFQS())
		}
		fq, err := json.BuildFieldQuery(fqs...)
		if err != nil {
			c.Oracle("ctx-marshaler-ptr/build", qString(e.q), err.Error(), "builds", false, "")
			continue
		}
		out, oerr, pan := c19Marshal(fq, h2)
		c.Oracle("ctx-marshaler-ptr", qString(e.q), fmt.Sprintf("%s err=%v panic=%s", out, oerr, pan), e.want, pan == "" && oerr == nil && string(out) == e.want, "")
	}
	for _, e := range cases {
		var fqs []json.FieldQueryString
		for _, q := range e.q {
			fqs = append(fqs, q.toFQS())
		}
		fq, err := json.BuildFieldQuery(fqs...)
		if err != nil {
			c.Oracle("ctx-marshaler/build", qString(e.q), err.Error(), "builds", false, "")
			continue
		}
		for _, indent := range []bool{false, true} {
			var out []byte
			var oerr error
			if indent {
				var eb bytes.Buffer
				enc := json.NewEncoder(&eb)
				enc.SetIndent("", " ")
				oerr = enc.EncodeContext(json.SetFieldQueryToContext(context.Background(), fq), h)
				var cb bytes.Buffer
				if oerr == nil {
					oerr = stdjson.Compact(&cb, eb.Bytes())
				}
				out = cb.Bytes()
			} else {
				out, oerr, _ = c19Marshal(fq, h)
			}
			c.Oracle(fmt.Sprintf("ctx-marshaler/indent=%v", indent), qString(e.q), fmt.Sprintf("%s err=%v", out, oerr), e.want, oerr == nil && string(out) == e.want, "")
		}
	}
}

func c19HasPtrShapedStruct(t reflect.Type, depth int) bool {
	if depth > 8 {
		return false
	}
	switch t.Kind() {
	case reflect.Ptr, reflect.Slice, reflect.Array, reflect.Map:
		return c19HasPtrShapedStruct(t.Elem(), depth+1)
	case reflect.Struct:
		if ptrShaped(t) {
			return true
		}
		for i := 0; i < t.NumField(); i++ {
			if c19HasPtrShapedStruct(t.Field(i).Type, depth+1) {
				return true
			}
		}
	}
	return false
}

// c19QueryNotation renders a query's JSON text in the driver's notation (S<hex>, O<hex>(..), [..;])
func c19QueryNotation(text string) string {
	var v interface{}
	if err := stdjson.Unmarshal([]byte(text), &v); err != nil {
		return "unparsable"
	}
	var rec func(v interface{}) string
	rec = func(v interface{}) string {
		switch t := v.(type) {
		case string:
			return "S" + hx([]byte(t))
		case []interface{}:
			var sb strings.Builder
			sb.WriteString("[")
			for _, e := range t {
				sb.WriteString(rec(e) + ";")
			}
			sb.WriteString("]")
			return sb.String()
		case map[string]interface{}:
			if len(t) != 1 {
				return "badobject"
			}
			for k, e := range t {
				return "O" + hx([]byte(k)) + "(" + rec(e) + ")"
			}
		case nil:
			return "[]" // BuildFieldQuery() renders as null
		}
		return "bad"
	}
	return rec(v)
}
