package main

import (
	"bytes"
	stdjson "encoding/json"
	"fmt"
	"math/rand"
	"reflect"
	"runtime"
	"strings"
	"unsafe"

	json "github.com/goccy/go-json"
)

func init() { props["C07"] = runC07 }

const c07Pat = 0xA5

// c07Holder builds struct{ C0 [k]byte; F T; C1 [k]byte } with the canaries excluded from JSON
func c07Holder(t reflect.Type, k int) reflect.Type {
	ct := reflect.ArrayOf(k, reflect.TypeOf(byte(0)))
	return reflect.StructOf([]reflect.StructField{
		{Name: "C0", Type: ct, Tag: `json:"-"`},
		{Name: "F", Type: t},
		{Name: "C1", Type: ct, Tag: `json:"-"`},
	})
}

// c07Canaried interleaves canary fields between the fields of a generated struct type
func c07Canaried(rng *rand.Rand, g *Gen) reflect.Type {
	n := 1 + rng.Intn(4)
	var fields []reflect.StructField
	for i := 0; i < n; i++ {
		fields = append(fields, reflect.StructField{Name: fmt.Sprintf("K%d", i), Type: reflect.ArrayOf(1+rng.Intn(9), reflect.TypeOf(byte(0))), Tag: `json:"-"`})
		fields = append(fields, reflect.StructField{Name: fmt.Sprintf("F%d", i), Type: g.Type(rng.Intn(3)), Tag: reflect.StructTag(fmt.Sprintf(`json:"f%d"`, i))})
	}
	fields = append(fields, reflect.StructField{Name: "KZ", Type: reflect.ArrayOf(1+rng.Intn(9), reflect.TypeOf(byte(0))), Tag: `json:"-"`})
	return reflect.StructOf(fields)
}

func c07FillCanaries(v reflect.Value) {
	t := v.Type()
	for i := 0; i < t.NumField(); i++ {
		if t.Field(i).Tag.Get("json") == "-" && t.Field(i).Type.Kind() == reflect.Array && t.Field(i).Type.Elem().Kind() == reflect.Uint8 {
			f := v.Field(i)
			for j := 0; j < f.Len(); j++ {
				f.Index(j).SetUint(c07Pat)
			}
		}
	}
}

func c07CheckCanaries(v reflect.Value) string {
	t := v.Type()
	for i := 0; i < t.NumField(); i++ {
		if t.Field(i).Tag.Get("json") == "-" && t.Field(i).Type.Kind() == reflect.Array && t.Field(i).Type.Elem().Kind() == reflect.Uint8 {
			f := v.Field(i)
			for j := 0; j < f.Len(); j++ {
				if f.Index(j).Uint() != c07Pat {
					return fmt.Sprintf("canary %s[%d] = %#x", t.Field(i).Name, j, f.Index(j).Uint())
				}
			}
		}
	}
	return ""
}

// c07Decode decodes doc into dst (a pointer into a canaried holder) and judges the aftermath
func c07Decode(c *Ctx, label string, holder reflect.Value, dst interface{}, doc string, input []byte) {
	before := append([]byte(nil), input...)
	var err error
	var pan string
	if strings.HasPrefix(label, "decoder") {
		err, pan = safeDo(func() error { return json.NewDecoder(&chunkReader{data: input, size: 5}).Decode(dst) })
	} else if strings.HasPrefix(label, "noescape") {
		err, pan = safeDo(func() error { return json.UnmarshalNoEscape(input, dst) })
	} else {
		err, pan = safeDo(func() error { return json.Unmarshal(input, dst) })
	}
	verdict := ""
	if pe := json.VerifPoolErrors(); len(pe) > 0 {
		// the next decode of this slice type would store past its working array
		verdict = "working-array pool: " + strings.Join(pe, "; ")
	} else if pan != "" {
		verdict = "panic " + pan
	} else if bad := c07CheckCanaries(holder); bad != "" {
		verdict = bad
	} else if bad := wellFormed(holder, "holder", 0); bad != "" {
		verdict = bad
	} else if !bytes.Equal(before, input) && !strings.HasPrefix(label, "decoder") {
		verdict = "the caller's input bytes were modified"
	} else {
		// the garbage collector and ordinary code can traverse the destination (a collection empties
		// the decoders' pools, so the populate step of a history does without it)
		if !strings.HasSuffix(label, "-populate") {
			runtime.GC()
		}
		_, p2 := safeDo(func() error { _ = fmt.Sprintf("%+v", holder.Interface()); return nil })
		if p2 != "" {
			verdict = "traversal panics: " + p2
		}
	}
	c.Oracle("touches-only-destination/"+label, fmt.Sprintf("%s <- %s", genTypeString(holder.Type()), doc), verdict+fmt.Sprintf(" (err=%s)", errT(err)), "canaries intact, destination well-formed", verdict == "", "")
	// destinations of earlier calls are not this call's to write: what they held is what they hold
	for _, k := range c07Kept {
		now, p3 := "", ""
		_, p3 = safeDo(func() error { now = fmt.Sprintf("%+v", k.h.Interface()); return nil })
		ok := p3 == "" && now == k.snap
		c.Oracle("earlier-destination-unchanged/"+label, k.what+" then "+doc, trunc([]byte(now+p3)), trunc([]byte(k.snap)), ok, "")
	}
	if err == nil && pan == "" && len(c07Kept) < 6 {
		snap := ""
		if _, p4 := safeDo(func() error { snap = fmt.Sprintf("%+v", holder.Interface()); return nil }); p4 == "" {
			c07Kept = append(c07Kept, c07KeptDst{holder, snap, fmt.Sprintf("%s <- %s", genTypeString(holder.Type()), doc)})
		}
	}
}

type c07KeptDst struct {
	h    reflect.Value
	snap string
	what string
}

// c07Kept: destinations of earlier calls of the running case with what they held when the call returned
var c07Kept []c07KeptDst

func runC07(c *Ctx) {
	c.Rep.Rule = "destinations from the generator grammar placed between canary byte arrays (before, between every field, after; 1..9 bytes so that every alignment occurs), arrays and slices of every element size 1..64 bytes with JSON arrays shorter than, equal to and longer than the Go array; documents valid and invalid (type-directed with noise, truncated), Unmarshal and Decoder with 5-byte reads; after every call, successful or not: canaries intact, every string and slice header in the destination well-formed (walked without dereferencing), forced GC, traversal with fmt; ops: the bytes the array decoder stores to (decoded / cleared / untouched, including 16 guard bytes after the array) vs the Lean model of its address arithmetic; non-trivial = every case"
	ncases := 800
	if c.Thorough() {
		ncases = 15000
	}
	c.RunCases("canaries", ncases, func(c *Ctx, k int, rng *rand.Rand) {
		g := &Gen{R: rng}
		ht := c07Canaried(rng, g)
		c07Kept = nil
		for di := 0; di < 6; di++ {
			d := &docGen{r: rng, noise: []int{0, 5, 20, 40, 5, 20}[di]}
			doc := d.forType(ht, 3)
			if di >= 4 && len(doc) > 2 {
				doc = doc[:rng.Intn(len(doc))] // truncated
			}
			h := reflect.New(ht).Elem()
			if di%2 == 1 {
				pg := &Gen{R: rand.New(rand.NewSource(rng.Int63()))}
				h.Set(pg.Value(ht, 2, GenOpt{Finite: true, ValidUTF8: true, ValidNum: true}))
			}
			c07FillCanaries(h)
			label := "unmarshal"
			if di == 2 {
				label = "decoder"
			}
			if di == 3 || di == 1 {
				label = "noescape"
			}
			c07Decode(c, label, h, h.Addr().Interface(), doc, []byte(doc))
		}
		// pooled working storage: a populated decode followed by a null-heavy document of the same
		// shape into a fresh destination (what the first call left behind must not show in the second)
		for round := 0; round < 3; round++ {
			full := (&docGen{r: rng, noise: 0, nulls: 1}).forType(ht, 3)
			h1 := reflect.New(ht).Elem()
			c07FillCanaries(h1)
			label := []string{"unmarshal", "decoder", "noescape"}[round]
			c07Decode(c, label+"-populate", h1, h1.Addr().Interface(), full, []byte(full))
			sparse := (&docGen{r: rng, noise: 0, nulls: 45}).forType(ht, 3)
			hn := reflect.New(ht).Elem()
			c07FillCanaries(hn)
			c07Decode(c, label+"-after-populate", hn, hn.Addr().Interface(), sparse, []byte(sparse))
		}
		// a single field addressed inside a holder
		t := g.Type(1 + rng.Intn(3))
		ht2 := c07Holder(t, 1+rng.Intn(16))
		h2 := reflect.New(ht2).Elem()
		c07FillCanaries(h2)
		d := &docGen{r: rng, noise: 10}
		doc := d.forType(t, 3)
		c07Decode(c, "unmarshal-field", h2, h2.Field(1).Addr().Interface(), doc, []byte(doc))
	}, func(k int, rng *rand.Rand) string { return fmt.Sprint("case ", k) }, nil)

	if c.IsWorker() {
		return
	}
	// the slice decoder's pooled working arrays: arrays of 0..9 elements (the working array doubles at
	// 2, 4, 8) cut at every byte and with every byte replaced, through Unmarshal and through the Decoder
	// (whole, and one byte per read), each followed by a well-formed longer document for the same type;
	// after every call no pooled header may claim more than its array holds, and the second result is
	// encoding/json's
	{
		json.VerifPoolErrors()
		type pc struct {
			name string
			mk   func() interface{}
			elem string
		}
		pcs := []pc{
			{"[]int", func() interface{} { return new([]int) }, "5"},
			{"[]string", func() interface{} { return new([]string) }, `"s"`},
			{"[][1]int64", func() interface{} { return new([][1]int64) }, "[5]"},
			{"[]*int", func() interface{} { return new([]*int) }, "5"},
			{"[][]int", func() interface{} { return new([][]int) }, "[1,2,3]"},
			{"[]struct", func() interface{} { return new([]struct{ A, B int }) }, `{"A":1,"B":2}`},
			{"[]map", func() interface{} { return new([]map[string]int) }, `{"a":1}`},
			{"[]interface{}", func() interface{} { return new([]interface{}) }, "5"},
		}
		n := 0
		for _, p := range pcs {
			for ln := 0; ln <= 9; ln++ {
				doc := "[" + strings.TrimSuffix(strings.Repeat(p.elem+",", ln), ",") + "]"
				follow := "[" + strings.TrimSuffix(strings.Repeat(p.elem+",", ln+3), ",") + "]"
				// start from an empty pool (two collections: the pool keeps a victim cache), so that the working
				// array begins at its initial capacity and has to grow
				runtime.GC()
				runtime.GC()
				var inputs [][]byte
				for cut := 0; cut <= len(doc); cut++ {
					inputs = append(inputs, []byte(doc[:cut]))
				}
				for pos := 0; pos < len(doc); pos++ {
					for _, r := range []byte("x],") {
						m := []byte(doc)
						m[pos] = r
						inputs = append(inputs, m)
					}
				}
				for ii, in := range inputs {
					_ = ii
					for mode := 0; mode < 3; mode++ {
						n++
						// an empty pool before every probe: a header left by the previous probe's follow-up document
						// is already large and never grows, which hides a fault in the growing path
						runtime.GC()
						runtime.GC()
						dst := p.mk()
						var err error
						var pan string
						switch mode {
						case 0:
							err, pan = safeDo(func() error { return json.Unmarshal(in, dst) })
						case 1:
							err, pan = safeDo(func() error { return json.NewDecoder(bytes.NewReader(in)).Decode(dst) })
						default:
							err, pan = safeDo(func() error { return json.NewDecoder(&chunkReader{data: in, size: 1}).Decode(dst) })
						}
						pe := json.VerifPoolErrors()
						if len(pe) > 0 {
							// a later decode would store past the array: report now instead of running it
							c.Oracle(fmt.Sprintf("pool-invariant/%s/mode%d", p.name, mode), fmt.Sprintf("%q", in),
								fmt.Sprintf("pool=%v err=%s panic=%s", pe, errT(err), pan), "pooled headers consistent", false, "")
							runtime.GC()
							runtime.GC()
							continue
						}
						g2, s2 := p.mk(), p.mk()
						e2, pan2 := safeDo(func() error { return json.Unmarshal([]byte(follow), g2) })
						stdjson.Unmarshal([]byte(follow), s2)
						pe = append(pe, json.VerifPoolErrors()...)
						ok := len(pe) == 0 && pan == "" && pan2 == "" && e2 == nil && reflect.DeepEqual(g2, s2)
						c.Oracle(fmt.Sprintf("pool-invariant/%s/mode%d", p.name, mode), fmt.Sprintf("%q then %s", in, follow),
							fmt.Sprintf("pool=%v err=%s panic=%s%s second err=%v", pe, errT(err), pan, pan2, e2), "pooled headers consistent, second result as encoding/json", ok, "")
					}
				}
			}
		}
		c.Rep.Exhaustive = append(c.Rep.Exhaustive, fmt.Sprintf("%d truncations / single-byte replacements of arrays of 0..9 elements x 8 slice types x 3 modes, each followed by a longer well-formed array", n))
	}
	// every field kind x tag (plain, omitempty, string, both) x position, between canaries: null, the
	// quoted null, a fitting value and a wrong one, through Unmarshal and through the Decoder
	FieldMatrix(func(t reflect.Type, v reflect.Value) {
		ht := c07Holder(t, 8)
		name := "F"
		for i := 0; i < t.NumField(); i++ {
			if t.Field(i).Name == "F" {
				if n := strings.Split(t.Field(i).Tag.Get("json"), ",")[0]; n != "" {
					name = n
				}
			}
		}
		fit, err := stdjson.Marshal(v.Interface())
		docs := []string{`{"` + name + `":null}`, `{"` + name + `":"null"}`, `{"` + name + `":null,"Z":1,"A":"a"}`, `{"` + name + `":[1]}`, `{"` + name + `":"x"}`}
		if err == nil {
			docs = append(docs, string(fit))
		}
		for _, doc := range docs {
			for _, label := range []string{"unmarshal", "decoder"} {
				h := reflect.New(ht).Elem()
				h.Field(1).Set(v)
				c07FillCanaries(h)
				c07Decode(c, label+"-matrix-populate", h, h.Field(1).Addr().Interface(), doc, []byte(doc))
			}
		}
	})
	// arrays: every element size 1..64, JSON arrays shorter / equal / longer; compared with the model
	for size := 1; size <= 64; size++ {
		et := reflect.ArrayOf(size, reflect.TypeOf(byte(0)))
		for _, alen := range []int{1, 2, 3, 5} {
			at := reflect.ArrayOf(alen, et)
			for n := 0; n <= alen+1; n++ {
				ht := reflect.StructOf([]reflect.StructField{
					{Name: "F", Type: at}, {Name: "G", Type: reflect.ArrayOf(16, reflect.TypeOf(byte(0))), Tag: `json:"-"`},
				})
				h := reflect.New(ht).Elem()
				// everything 0x5A, guard bytes included
				raw := unsafe.Slice((*byte)(unsafe.Pointer(h.UnsafeAddr())), int(ht.Size()))
				for i := range raw {
					raw[i] = 0x5A
				}
				elem := "[" + strings.TrimSuffix(strings.Repeat("7,", size), ",") + "]"
				doc := "[" + strings.TrimSuffix(strings.Repeat(elem+",", n), ",") + "]"
				err, pan := safeDo(func() error { return json.Unmarshal([]byte(doc), h.Field(0).Addr().Interface()) })
				var sb strings.Builder
				for i := 0; i < alen*size+16; i++ {
					switch raw[i] {
					case 7:
						sb.WriteByte('d')
					case 0:
						sb.WriteByte('z')
					case 0x5A:
						sb.WriteByte('.')
					default:
						sb.WriteByte('?')
					}
				}
				out := sb.String()
				if pan != "" || err != nil {
					out = "err " + pan
				}
				c.Op(fmt.Sprintf("arrmem %d %d %d", alen, size, n), out, true, "array-stores")
			}
		}
	}
}
