package main

import (
	"bytes"
	stdjson "encoding/json"
	"fmt"
	"strings"

	json "github.com/goccy/go-json"
)

func init() { props["C18"] = runC18 }

func c18One(c *Ctx, b []byte, modelOps bool) {
	c18Run(c, b, modelOps, false)
}

// c18Lite: Compact and one Indent against encoding/json and (Compact) the model, for the large sweeps
func c18Lite(c *Ctx, b []byte) {
	in := fmt.Sprintf("%q", b)
	var g, s bytes.Buffer
	g.WriteString("XX")
	s.WriteString("XX")
	gerr := json.Compact(&g, b)
	serr := stdjson.Compact(&s, b)
	ok := (gerr == nil) == (serr == nil) && bytes.Equal(g.Bytes(), s.Bytes())
	c.Oracle("compact/pre=XX", in, fmt.Sprintf("%q err=%v", g.Bytes(), gerr), fmt.Sprintf("%q err=%v", s.Bytes(), serr), ok, "")
	res := "err"
	if gerr == nil {
		res = "ok " + hx(g.Bytes()[2:])
	}
	c.Op("compact "+hx(b), res, len(b) > 1, "compact-string")
	g.Reset()
	s.Reset()
	g.WriteString("XX")
	s.WriteString("XX")
	gerr = json.Indent(&g, b, ">", "\t")
	serr = stdjson.Indent(&s, b, ">", "\t")
	ok = (gerr == nil) == (serr == nil) && bytes.Equal(g.Bytes(), s.Bytes())
	c.Oracle("indent/\">\"/\"\\t\"/pre=XX", in, fmt.Sprintf("%q err=%v", g.Bytes(), gerr), fmt.Sprintf("%q err=%v", s.Bytes(), serr), ok, "")
}

func c18Run(c *Ctx, b []byte, modelOps bool, deep bool) {
	in := fmt.Sprintf("%q", b)
	if deep {
		in = fmt.Sprintf("%q... (%d bytes)", b[:12], len(b))
	}
	for _, pre := range []string{"", "XX"} {
		// Compact
		var g, s bytes.Buffer
		g.WriteString(pre)
		s.WriteString(pre)
		gerr := json.Compact(&g, b)
		serr := stdjson.Compact(&s, b)
		ok := (gerr == nil) == (serr == nil)
		if ok && gerr == nil {
			ok = bytes.Equal(g.Bytes(), s.Bytes())
		}
		if ok && gerr != nil {
			ok = g.String() == pre // destination untouched on error
		}
		c.Oracle("compact/pre="+pre, in, fmt.Sprintf("%q err=%v", g.Bytes(), gerr), fmt.Sprintf("%q err=%v", s.Bytes(), serr), ok, "")
		if modelOps && pre == "" {
			res := "err"
			if gerr == nil {
				res = "ok " + hx(g.Bytes())
			}
			c.Op("compact "+hx(b), res, len(b) > 1, "compact")
		}
		if gerr == nil && pre == "" {
			// idempotence
			var g2 bytes.Buffer
			e2 := json.Compact(&g2, g.Bytes())
			c.Oracle("compact/idempotent", in, fmt.Sprintf("%q err=%v", g2.Bytes(), e2), fmt.Sprintf("%q", g.Bytes()), e2 == nil && bytes.Equal(g2.Bytes(), g.Bytes()), "")
		}
	}
	pis := [][2]string{{"", ""}, {"", " "}, {"\t", "  "}, {"é", "→"}, {">", "\t"}}
	if deep {
		pis = pis[:1]
	}
	for _, pi := range pis {
		for _, pre := range []string{"", "XX"} {
			if deep && pre != "" {
				continue
			}
			var g, s bytes.Buffer
			g.WriteString(pre)
			s.WriteString(pre)
			gerr := json.Indent(&g, b, pi[0], pi[1])
			serr := stdjson.Indent(&s, b, pi[0], pi[1])
			ok := (gerr == nil) == (serr == nil)
			if ok && gerr == nil {
				ok = bytes.Equal(g.Bytes(), s.Bytes())
			}
			if ok && gerr != nil {
				ok = g.String() == pre
			}
			c.Oracle(fmt.Sprintf("indent/%q/%q/pre=%s", pi[0], pi[1], pre), in, fmt.Sprintf("%q err=%v", g.Bytes(), gerr), fmt.Sprintf("%q err=%v", s.Bytes(), serr), ok, "")
			if modelOps && pre == "" {
				res := "err"
				if gerr == nil {
					res = "ok " + hx(g.Bytes())
				}
				c.Op(fmt.Sprintf("indent %s %s %s", hx([]byte(pi[0])), hx([]byte(pi[1])), hx(b)), res, len(b) > 1, "indent")
			}
			if gerr == nil && pre == "" && strings.TrimLeft(pi[0]+pi[1], " \t") == "" {
				var g2 bytes.Buffer
				e2 := json.Indent(&g2, g.Bytes(), pi[0], pi[1])
				c.Oracle("indent/idempotent", in, fmt.Sprintf("%q err=%v", g2.Bytes(), e2), fmt.Sprintf("%q", g.Bytes()), e2 == nil && bytes.Equal(g2.Bytes(), g.Bytes()), "")
			}
		}
	}
	// HTMLEscape: equivalent text without raw < > & U+2028/9 (only for valid input; it has no error result)
	if !deep && stdjson.Valid(b) {
		var g bytes.Buffer
		json.HTMLEscape(&g, b)
		out := g.Bytes()
		bad := ""
		for _, x := range out {
			if x == '<' || x == '>' || x == '&' {
				bad = "raw " + string(x)
			}
		}
		if bytes.Contains(out, []byte("\xe2\x80\xa8")) || bytes.Contains(out, []byte("\xe2\x80\xa9")) {
			bad = "raw U+2028/9"
		}
		var a, e interface{}
		d1 := stdjson.NewDecoder(bytes.NewReader(out))
		d1.UseNumber()
		d2 := stdjson.NewDecoder(bytes.NewReader(b))
		d2.UseNumber()
		e1, e2 := d1.Decode(&a), d2.Decode(&e)
		ok := bad == "" && e1 == nil && e2 == nil && fmt.Sprintf("%#v", a) == fmt.Sprintf("%#v", e)
		c.Oracle("htmlescape", in, fmt.Sprintf("%q %s", out, bad), "equivalent text without raw <>& U+2028/9", ok, "")
	}
}

func runC18(c *Ctx) {
	c.Rep.Rule = "ops: compact(bytes), indent(prefix,indent,bytes) through json.Compact/json.Indent vs the Lean model; oracle: encoding/json's Compact/Indent byte for byte (empty and pre-filled destination), idempotence, untouched destination on error, HTMLEscape equivalence; " +
		"inputs: exhaustive strings over the C05 alphabet up to a length bound, grammar texts (all white-space placements, escapes, number forms), their single-byte mutations, nesting at the depth limit; non-trivial = length >= 2"
	maxLen := 3
	if c.Thorough() {
		maxLen = 4
	}
	var rec func(prefix []byte)
	n := 0
	rec = func(prefix []byte) {
		c18One(c, prefix, true)
		n++
		if len(prefix) == maxLen {
			return
		}
		for _, a := range c05Alphabet {
			rec(append(prefix, a))
		}
	}
	rec([]byte{})
	c.Rep.Exhaustive = append(c.Rep.Exhaustive, fmt.Sprintf("all %d byte strings of length <= %d over the 26-symbol alphabet", n, maxLen))
	// string literals: every body over the escape alphabet (a \u escape is longer than the sweep above)
	bl := 6
	if c.Thorough() {
		bl = 7
	}
	nb := strBodies(bl, func(body []byte) { c18Lite(c, quoted(body)) })
	c.Rep.Exhaustive = append(c.Rep.Exhaustive, fmt.Sprintf("all %d string literals whose body is a sequence of length <= %d over \\ u 0 a F g \" n", nb, bl))
	tl := 5
	if c.Thorough() {
		tl = 6
	}
	nt := tokenSeqs(tl, func(doc []byte) { c18Lite(c, append([]byte(nil), doc...)) })
	c.Rep.Exhaustive = append(c.Rep.Exhaustive, fmt.Sprintf("all %d sequences of up to %d tokens over { } [ ] , : 1 \"a\" null true SP", nt, tl))
	ndocs := 150
	if c.Thorough() {
		ndocs = 2500
	}
	for i := 0; i < ndocs; i++ {
		doc := []byte(genDoc(c, 3))
		c18One(c, doc, true)
		for pos := 0; pos <= len(doc); pos++ {
			if pos < len(doc) {
				del := append(append([]byte{}, doc[:pos]...), doc[pos+1:]...)
				c18One(c, del, true)
				sub := append([]byte{}, doc...)
				sub[pos] = c05Alphabet[c.Rng.Intn(len(c05Alphabet))]
				c18One(c, sub, true)
			}
			if i%5 == 0 {
				for _, sb := range []byte(",:]}[{\"0 \n") {
					ins := append(append(append([]byte{}, doc[:pos]...), sb), doc[pos:]...)
					c18One(c, ins, true)
				}
			}
		}
	}
	for _, s := range []string{`"<>&"`, "\"\xe2\x80\xa8\xe2\x80\xa9\"", `{"<":"&"}`, "[1 , 2]\n", " {} \n\t", "[]\n\n", `"<"`, `1e999`, `-0`, `[1e999,-1E-999]`} {
		c18One(c, []byte(s), true)
	}
	for _, d := range []int{9999, 10000, 10001} {
		c18Run(c, []byte(strings.Repeat("[", d)+strings.Repeat("]", d)), false, true)
		c18Run(c, []byte(strings.Repeat(`{"a":`, d)+"1"+strings.Repeat("}", d)), false, true)
	}
}
