package main

import (
	"encoding"
	"bytes"
	stdjson "encoding/json"
	"fmt"
	"io"
	"reflect"
	"strings"
	"unicode/utf8"

	json "github.com/goccy/go-json"
)

func init() { props["C17"] = runC17 }

func b01(b bool) string {
	if b {
		return "1"
	}
	return "0"
}

// byte classes the escaper distinguishes, as short byte sequences
var c17Classes = [][]byte{
	{0x01}, {0x08}, {0x09}, {0x0a}, {0x0c}, {0x0d}, {0x1f}, {0x20}, {'"'}, {'\\'}, {'/'}, {'<'}, {'>'}, {'&'}, {0x7f},
	{0x80}, {0xbf}, {0xc0}, {0xc1}, {0xc2}, {0xc2, 0x80}, {0xdf, 0xbf}, {0xe0}, {0xe0, 0x80, 0x80}, {0xe0, 0xa0, 0x80},
	{0xe2, 0x80}, {0xe2, 0x80, 0xa7}, {0xe2, 0x80, 0xa8}, {0xe2, 0x80, 0xa9}, {0xe2, 0x80, 0xaa}, {0xe2, 0x81, 0xa8},
	{0xed, 0x9f, 0xbf}, {0xed, 0xa0, 0x80}, {0xef, 0xbf, 0xbd}, {0xef, 0xbf, 0xbf},
	{0xf0, 0x8f, 0x80, 0x80}, {0xf0, 0x90, 0x80, 0x80}, {0xf0, 0x9f, 0x98, 0x80}, {0xf0, 0x9f, 0x98}, {0xf4, 0x8f, 0xbf, 0xbf}, {0xf4, 0x90, 0x80, 0x80},
	{0xf5}, {0xff}, {0x00},
}

func c17Strings(c *Ctx) [][]byte {
	var out [][]byte
	// exhaustive short strings
	out = append(out, []byte{})
	for a := 0; a < 256; a++ {
		out = append(out, []byte{byte(a)})
	}
	for a := 0; a < 256; a++ {
		for b := 0; b < 256; b++ {
			out = append(out, []byte{byte(a), byte(b)})
		}
	}
	c.Rep.Exhaustive = append(c.Rep.Exhaustive, "esc: all byte strings of length 0..2 x 4 flag combinations")
	n3 := 60000
	if c.Thorough() {
		n3 = 2000000
	}
	for i := 0; i < n3; i++ {
		out = append(out, []byte{byte(c.Rng.Intn(256)), byte(c.Rng.Intn(256)), byte(c.Rng.Intn(256))})
	}
	// every class at every offset of the 8-byte window, with every predecessor/successor filler
	lens := []int{7, 8, 9, 15, 16, 17, 24, 31}
	if c.Thorough() {
		lens = []int{4, 5, 6, 7, 8, 9, 10, 11, 12, 13, 14, 15, 16, 17, 18, 19, 20, 23, 24, 25, 31, 32, 33, 40}
	}
	for _, cls := range c17Classes {
		for _, n := range lens {
			for pos := 0; pos+len(cls) <= n; pos++ {
				s := bytes.Repeat([]byte{'a'}, n)
				copy(s[pos:], cls)
				out = append(out, s)
			}
			// class cut by the end of the string
			if len(cls) > 1 {
				for cut := 1; cut < len(cls); cut++ {
					s := bytes.Repeat([]byte{'a'}, n)
					s = append(s[:n-cut], cls[:cut]...)
					out = append(out, s)
				}
			}
		}
	}
	// two classes in one string
	for i, c1 := range c17Classes {
		for j, c2 := range c17Classes {
			if !c.Thorough() && (i*7+j)%5 != 0 {
				continue
			}
			for _, gap := range []int{0, 1, 6, 7, 8} {
				s := append([]byte("ab"), c1...)
				s = append(s, bytes.Repeat([]byte{'x'}, gap)...)
				s = append(s, c2...)
				s = append(s, "tail"...)
				out = append(out, s)
			}
		}
	}
	// random
	nr := 20000
	if c.Thorough() {
		nr = 300000
	}
	for i := 0; i < nr; i++ {
		n := c.Rng.Intn(41)
		s := make([]byte, 0, n+4)
		for len(s) < n {
			switch c.Rng.Intn(6) {
			case 0:
				s = append(s, byte(c.Rng.Intn(256)))
			case 1:
				s = append(s, c17Classes[c.Rng.Intn(len(c17Classes))]...)
			default:
				s = append(s, byte('a'+c.Rng.Intn(26)))
			}
		}
		out = append(out, s)
	}
	return out
}

// literal items for the decoder
var c17Items = []string{
	"a", "Z", " ", "/", "é", "€", "😀", " ", "\x7f",
	`\"`, `\\`, `\/`, `\b`, `\f`, `\n`, `\r`, `\t`,
	`A`, `é`, `€`, `\u0000`, `\u001f`, `￿`, `�`, ` `,
	`\ud83d`, `\uD83D`, `\ude00`, `\uDE00`, `\ud800`, `\udbff`, `\udc00`, `\udfff`, `퟿`, ``,
}

var c17BadItems = []string{
	`\x`, `\u12`, `\u12G4`, `\uZZZZ`, `\`, `\u`, `\u123`, "\x01", "\x1f", "\n", `\U0041`, `\a`, `\0`, `\'`,
}

func c17Literals(c *Ctx, withBad bool) []string {
	var out []string
	items := c17Items
	if withBad {
		items = append(append([]string{}, c17Items...), c17BadItems...)
	}
	out = append(out, "")
	for _, a := range items {
		out = append(out, a)
	}
	for i, a := range items {
		for j, b := range items {
			if !c.Thorough() && withBad && (i+j)%3 != 0 {
				continue
			}
			out = append(out, a+b)
		}
	}
	n3 := 3000
	if c.Thorough() {
		n3 = 60000
	}
	for i := 0; i < n3; i++ {
		k := 3 + c.Rng.Intn(6)
		var sb strings.Builder
		for j := 0; j < k; j++ {
			sb.WriteString(items[c.Rng.Intn(len(items))])
		}
		out = append(out, sb.String())
	}
	return out
}

type c17Text struct{ B []byte }

func (t *c17Text) UnmarshalText(b []byte) error {
	t.B = append([]byte{}, b...)
	return nil
}

type c17StdText struct{ B []byte }

func (t *c17StdText) UnmarshalText(b []byte) error {
	t.B = append([]byte{}, b...)
	return nil
}

func runC17(c *Ctx) {
	c.Rep.Rule = "ops: esc(html,norm,bytes) through VerifAppendString and unq(buffer) through VerifDecodeString vs the Lean model; " +
		"non-trivial = string containing at least one byte outside [0x20,0x7e] or one of \" \\ < > & (esc), literal containing an escape or malformed (unq). " +
		"oracle: Marshal/Unmarshal/Decoder on the public API judged by encoding/json and unicode/utf8."
	strs := c17Strings(c)
	nontrivEsc := func(s []byte) bool {
		for _, b := range s {
			if b < 0x20 || b > 0x7e || b == '"' || b == '\\' || b == '<' || b == '>' || b == '&' {
				return true
			}
		}
		return false
	}
	// --- A: escaper vs model, with varying alignment of the string data
	pad := make([]byte, 64)
	for i, s := range strs {
		off := i % 8
		buf := append(append(pad[:off:off], s...), 'Z')
		str := string(buf)[off : off+len(s)]
		nt := nontrivEsc(s)
		for f := 0; f < 4; f++ {
			html, norm := f&1 != 0, f&2 != 0
			c.Op(fmt.Sprintf("esc %s %s %s", b01(html), b01(norm), hx(s)), hx(json.VerifAppendString(html, norm, str)), nt, "esc")
		}
	}
	// --- B: buffer-mode string decoder vs model
	lits := c17Literals(c, true)
	terms := []string{"\"", "\",", "", "\" ", "\"x"}
	for _, l := range lits {
		for ti, t := range terms {
			if ti >= 2 && len(l)%3 != 0 {
				continue
			}
			buf := []byte("\"" + l + t + "\x00")
			c.Op("unq "+hx(buf), json.VerifDecodeString(buf), strings.ContainsAny(l, "\\") || t != "\"", "unq")
		}
		// truncations of the literal (sentinel right after)
		if len(l) > 0 && len(l) < 14 {
			for cut := 0; cut < len(l); cut++ {
				buf := []byte("\"" + l[:cut] + "\x00")
				c.Op("unq "+hx(buf), json.VerifDecodeString(buf), true, "unq-trunc")
			}
		}
	}
	for _, pre := range []string{" ", "\n\t ", "n", "nul", "null", "nulx", "[", "{", "1", "-", "x", "\x00", "t"} {
		buf := []byte(pre + "\"a\"\x00")
		c.Op("unq "+hx(buf), json.VerifDecodeString(buf), true, "unq-prefix")
	}
	// --- C: the property on the public API
	step := 1
	if !c.Thorough() {
		step = 5
	}
	for i := 0; i < len(strs); i += step {
		c17EncodeOracle(c, strs[i])
	}
	good := c17Literals(c, false)
	for _, l := range good {
		c17DecodeOracle(c, l)
	}
	// names spelled with escapes for ASCII characters (letters of either case, digits, punctuation):
	// as values they are plain strings, as struct keys they go through the matchers' own escape decoding
	for _, name := range []string{"A", "z", "Name", "URL", "aB", "x_y", "a<b", "K9", "Zz"} {
		n := 1 << uint(len(name))
		if n > 16 {
			n = 16
		}
		for mask := 1; mask <= n; mask++ {
			var sb strings.Builder
			for i := 0; i < len(name); i++ {
				switch {
				case mask>>uint(i%4)&1 == 0:
					sb.WriteByte(name[i])
				case (mask+i)%2 == 0:
					fmt.Fprintf(&sb, "\\u%04x", name[i])
				default:
					fmt.Fprintf(&sb, "\\u%04X", name[i])
				}
			}
			c17DecodeOracle(c, sb.String())
		}
	}
	// every position of short escape-bearing literals placed on the 512-byte refill boundary
	nb := 0
	for _, l := range good {
		if !strings.Contains(l, `\`) || len(l) > 26 {
			continue
		}
		if !c.Thorough() && nb >= 400 {
			break
		}
		nb++
		lit := `"` + l + `"`
		var want string
		if err := stdjson.Unmarshal([]byte(lit), &want); err != nil || !utf8.ValidString(l) {
			continue
		}
		for pos := 0; pos <= len(lit); pos++ {
			for _, edge := range []int{511, 512, 1023} {
				pad := edge - pos
				if pad < 0 {
					continue
				}
				doc := strings.Repeat(" ", pad) + lit
				var s string
				err := json.NewDecoder(strings.NewReader(doc)).Decode(&s)
				c.Oracle("dec/value/boundary", fmt.Sprintf("pad=%d %s", pad, lit), fmt.Sprintf("%q err=%v", s, err), fmt.Sprintf("%q", want), err == nil && s == want, "")
				var v interface{}
				err = json.NewDecoder(strings.NewReader(doc)).Decode(&v)
				vs, _ := v.(string)
				c.Oracle("dec/iface/boundary", fmt.Sprintf("pad=%d %s", pad, lit), fmt.Sprintf("%q err=%v", vs, err), fmt.Sprintf("%q", want), err == nil && vs == want, "")
			}
		}
	}
}

// chunkReader delivers data in pieces of at most size bytes.
type chunkReader struct {
	data []byte
	size int
}

func (r *chunkReader) Read(p []byte) (int, error) {
	if len(r.data) == 0 {
		return 0, io.EOF
	}
	n := r.size
	if n > len(r.data) {
		n = len(r.data)
	}
	if n > len(p) {
		n = len(p)
	}
	copy(p, r.data[:n])
	r.data = r.data[n:]
	return n, nil
}

func c17Coerce(s string) string { return string([]rune(s)) }

func c17EncodeOracle(c *Ctx, sb []byte) {
	s := string(sb)
	want := c17Coerce(s)
	for f := 0; f < 4; f++ {
		html, norm := f&1 != 0, f&2 != 0
		var opts []json.EncodeOptionFunc
		if !html {
			opts = append(opts, json.DisableHTMLEscape())
		}
		if !norm {
			opts = append(opts, json.DisableNormalizeUTF8())
		}
		name := fmt.Sprintf("enc/html=%s/norm=%s", b01(html), b01(norm))
		check := func(pos string, v interface{}, get func(dec interface{}) (string, bool), dst func() interface{}) {
			out, err := json.MarshalWithOption(v, opts...)
			in := fmt.Sprintf("%s %q", pos, s)
			if err != nil {
				c.Oracle(name, in, "err="+err.Error(), "success", false, "")
				return
			}
			class := ""
			// raw bytes that must not appear
			bad := ""
			for _, b := range out {
				if b < 0x20 {
					bad = fmt.Sprintf("raw control byte %#x", b)
				}
				if html && (b == '<' || b == '>' || b == '&') {
					bad = fmt.Sprintf("raw %q with HTML escaping on", b)
				}
			}
			if (html || norm) && (bytes.Contains(out, []byte("\xe2\x80\xa8")) || bytes.Contains(out, []byte("\xe2\x80\xa9"))) {
				bad = "raw U+2028/U+2029"
				if html && !norm {
					class = "C17-html-nonorm-separators"
				}
			}
			if norm && !utf8.Valid(out) {
				bad = "output is not valid UTF-8 although normalisation is on"
			}
			if bad != "" {
				c.Oracle(name, in, fmt.Sprintf("%q", out), bad, false, class)
				return
			}
			d := dst()
			if err := stdjson.Unmarshal(out, d); err != nil {
				c.Oracle(name, in, fmt.Sprintf("%q", out), "encoding/json cannot parse it: "+err.Error(), false, "")
				return
			}
			got, ok := get(d)
			c.Oracle(name, in, fmt.Sprintf("%q -> %q", out, got), fmt.Sprintf("%q", want), ok && got == want, "")
		}
		check("value", s, func(d interface{}) (string, bool) { return *(d.(*string)), true }, func() interface{} { return new(string) })
		check("key", map[string]int{s: 1}, func(d interface{}) (string, bool) {
			m := *(d.(*map[string]int))
			for k := range m {
				return k, len(m) == 1
			}
			return "", false
		}, func() interface{} { return &map[string]int{} })
		type qs struct {
			A string `json:",string"`
		}
		check("quoted", qs{s}, func(d interface{}) (string, bool) { return d.(*qs).A, true }, func() interface{} { return &qs{} })
	}
}

// c17TagSafe: the string can be the name in a `json:"..."` tag
func c17TagSafe(s string) bool {
	if len(s) == 0 || len(s) > 12 || s == "-" {
		return false
	}
	for i := 0; i < len(s); i++ {
		ch := s[i]
		if !(ch >= 'a' && ch <= 'z' || ch >= 'A' && ch <= 'Z' || ch >= '0' && ch <= '9' || strings.IndexByte("_-./<>&+!#$%()*:;=?@[]^{|}~ ", ch) >= 0) {
			return false
		}
	}
	return true
}

// c17KeyStruct: a struct with nf fields, one of them named `name` in JSON
func c17KeyStruct(name string, nf int) reflect.Type {
	fields := []reflect.StructField{{Name: "K", Type: reflect.TypeOf(0), Tag: reflect.StructTag(`json:"` + name + `"`)}}
	for i := 1; i < nf; i++ {
		fields = append(fields, reflect.StructField{Name: fmt.Sprintf("W%02d", i), Type: reflect.TypeOf(0)})
	}
	return reflect.StructOf(fields)
}

func c17DecodeOracle(c *Ctx, body string) {
	lit := `"` + body + `"`
	var want string
	if err := stdjson.Unmarshal([]byte(lit), &want); err != nil {
		return // not a valid literal for encoding/json (e.g. raw control byte): outside this property
	}
	if !utf8.ValidString(body) {
		return
	}
	type fld struct{ A string }
	type qs struct {
		A string `json:",string"`
	}
	quoted, _ := stdjson.Marshal(lit) // the literal itself as a JSON string: payload for ,string
	// modes: buffer; stream delivered whole, one byte at a time, and in pieces of a size derived
	// from the literal (2..9), so that every escape is cut by a refill somewhere in the run
	modes := []string{"buf", "stream", "stream1", "streamk"}
	for _, mode := range modes {
		stream := mode != "buf"
		dec := func(doc string, dst interface{}) error {
			switch mode {
			case "stream":
				return json.NewDecoder(strings.NewReader(doc)).Decode(dst)
			case "stream1":
				return json.NewDecoder(&chunkReader{data: []byte(doc), size: 1}).Decode(dst)
			case "streamk":
				return json.NewDecoder(&chunkReader{data: []byte(doc), size: 2 + len(doc)%8}).Decode(dst)
			}
			return json.Unmarshal([]byte(doc), dst)
		}
		_ = stream
		report := func(pos, doc, got string, err error, wantS string) {
			ok := err == nil && got == wantS
			c.Oracle("dec/"+pos+"/"+mode, doc, fmt.Sprintf("%q err=%v", got, err), fmt.Sprintf("%q", wantS), ok, "")
		}
		{
			var s string
			err := dec(lit, &s)
			report("value", lit, s, err, want)
		}
		{
			var v interface{}
			err := dec(lit, &v)
			s, _ := v.(string)
			report("iface", lit, s, err, want)
		}
		{
			m := map[string]int{}
			doc := `{` + lit + `:1}`
			err := dec(doc, &m)
			got := ""
			for k := range m {
				got = k
			}
			if len(m) != 1 && err == nil {
				err = fmt.Errorf("%d keys", len(m))
			}
			report("mapkey", doc, got, err, want)
		}
		{
			var v interface{}
			doc := `{` + lit + `:1}`
			err := dec(doc, &v)
			got := ""
			if m, ok := v.(map[string]interface{}); ok {
				for k := range m {
					got = k
				}
			}
			report("ifacekey", doc, got, err, want)
		}
		{
			var f fld
			doc := `{"A":` + lit + `}`
			err := dec(doc, &f)
			report("field", doc, f.A, err, want)
		}
		{
			var q, sq qs
			doc := `{"A":` + string(quoted) + `}`
			err := dec(doc, &q)
			serr := stdjson.Unmarshal([]byte(doc), &sq)
			if serr == nil {
				report("quoted", doc, q.A, err, sq.A)
			}
		}
		{
			var t c17Text
			var st c17StdText
			err := dec(lit, &t)
			serr := stdjson.Unmarshal([]byte(lit), &st)
			if serr == nil {
				ok := err == nil && bytes.Equal(t.B, st.B)
				c.Oracle("dec/text/"+mode, lit, fmt.Sprintf("%q err=%v", t.B, err), fmt.Sprintf("%q", st.B), ok, "")
				// the same TextUnmarshaler held in a non-empty interface destination
				held := &c17Text{}
				var u encoding.TextUnmarshaler = held
				err = dec(lit, &u)
				ok = err == nil && bytes.Equal(held.B, st.B)
				c.Oracle("dec/ifacetext/"+mode, lit, fmt.Sprintf("%q err=%v", held.B, err), fmt.Sprintf("%q", st.B), ok, "")
			}
		}
		if c17TagSafe(want) {
			// the literal as the key of a struct member: the key matchers for up to 8, up to 16 and more
			// than 16 field names decode escapes themselves
			for _, nf := range []int{1, 10, 18} {
				t := c17KeyStruct(want, nf)
				g, sv := reflect.New(t), reflect.New(t)
				doc := `{"W03":1,` + lit + `:7}`
				err := dec(doc, g.Interface())
				serr := stdjson.Unmarshal([]byte(doc), sv.Interface())
				ok := (err == nil) == (serr == nil) && reflect.DeepEqual(g.Elem().Interface(), sv.Elem().Interface())
				c.Oracle(fmt.Sprintf("dec/structkey%d/%s", nf, mode), doc, fmt.Sprintf("%+v err=%v", g.Elem().Interface(), err), fmt.Sprintf("%+v err=%v", sv.Elem().Interface(), serr), ok, "")
			}
		}
		{
			var arr []string
			doc := `[` + lit + `,` + lit + `]`
			err := dec(doc, &arr)
			ok := err == nil && reflect.DeepEqual(arr, []string{want, want})
			c.Oracle("dec/slice/"+mode, doc, fmt.Sprintf("%q err=%v", arr, err), fmt.Sprintf("%q", []string{want, want}), ok, "")
		}
	}
}
