package main

// Context-flow facts for C11: in which order the entry points of the package write and read the
// fields of the pooled runtime contexts, and which of those fields the interpreters / decoders read.
//
// For every function of encode.go, decode.go and internal/{encoder,decoder}/context.go the body is
// walked in source order and turned into a list of events
//
//	w f      ctx.f = …            (f a field of RuntimeContext, "Option.X" a field of its Option)
//	wAll     *ctx.Option = …      (every field of the Option struct)
//	r f      any other use of ctx.f (compound assignments are r then w)
//	cap f    ctx.f[:0], len(ctx.f), cap(ctx.f): the old contents are not observed
//	wi f     ctx.f[i] = …         (element store)
//	call g   a call of another listed function with the context
//	opts     optFunc(ctx.Option)
//	run p    the interpreter / decoder of package p runs on the context
//
// The reads of `run p` are collected from the source of package p: every field of the context that
// is used anywhere in it. Everything is emitted with small integer ids (fields, functions,
// packages) and name tables, as Lean data (Flows.lean).

import (
	"fmt"
	"go/ast"
	"go/parser"
	"go/token"
	"os"
	"path/filepath"
	"sort"
	"strings"
)

type flowEv struct {
	Kind string
	Arg  string
}

type flowCtx struct {
	side   string // "e" encoder context, "d" decoder context, "s" stream options
	fields map[string]bool
}

// struct fields of RuntimeContext / Option, read from the declarations
func structFields(path, typ string) []string {
	fset := token.NewFileSet()
	f, err := parser.ParseFile(fset, path, nil, 0)
	if err != nil {
		return nil
	}
	var out []string
	ast.Inspect(f, func(n ast.Node) bool {
		ts, ok := n.(*ast.TypeSpec)
		if !ok || ts.Name.Name != typ {
			return true
		}
		st, ok := ts.Type.(*ast.StructType)
		if !ok {
			return false
		}
		for _, fl := range st.Fields.List {
			for _, nm := range fl.Names {
				out = append(out, nm.Name)
			}
		}
		return false
	})
	return out
}

// trackedField: the field of a pooled context an expression denotes, "" if none.
// ctx.Option.Flag -> e:Option.Flag ; ctx.Buf -> e:Buf ; s.Option.Flags / d.s.Option.Flags -> s:Option.Flags
func trackedField(x ast.Expr, side string, vars map[string]bool, fields map[string]bool) string {
	sel, ok := x.(*ast.SelectorExpr)
	if !ok {
		return ""
	}
	// X.Option.F
	if in, ok := sel.X.(*ast.SelectorExpr); ok && in.Sel.Name == "Option" {
		if base := baseIdent(in.X); base != "" && vars[base] {
			s := side
			if base == "s" || base == "d.s" {
				s = "s"
			}
			return s + ":Option." + sel.Sel.Name
		}
	}
	if base := baseIdent(sel.X); base != "" && vars[base] && base != "s" && base != "d.s" {
		if sel.Sel.Name == "Option" {
			return side + ":Option"
		}
		if fields[sel.Sel.Name] {
			return side + ":" + sel.Sel.Name
		}
	}
	if base := baseIdent(sel.X); (base == "s" || base == "d.s") && sel.Sel.Name == "Option" {
		return "s:Option"
	}
	return ""
}

func baseIdent(x ast.Expr) string {
	switch v := x.(type) {
	case *ast.Ident:
		return v.Name
	case *ast.SelectorExpr:
		if id, ok := v.X.(*ast.Ident); ok && id.Name == "d" && v.Sel.Name == "s" {
			return "d.s"
		}
	}
	return ""
}

type flowWalker struct {
	depth  int // > 0 inside a conditional or a loop: a write there does not define the field
	side   string
	vars   map[string]bool
	fields map[string]bool
	evs    []flowEv
	calls  map[string]string // callee text -> function key
	runs   map[string]string // callee text -> package
}

func exprText(x ast.Expr) string {
	switch v := x.(type) {
	case *ast.Ident:
		return v.Name
	case *ast.SelectorExpr:
		return exprText(v.X) + "." + v.Sel.Name
	}
	return ""
}

func (w *flowWalker) read(x ast.Expr) {
	if x == nil {
		return
	}
	switch v := x.(type) {
	case *ast.SliceExpr:
		if f := trackedField(v.X, w.side, w.vars, w.fields); f != "" {
			if lit, ok := v.High.(*ast.BasicLit); ok && lit.Value == "0" && v.Low == nil {
				w.evs = append(w.evs, flowEv{"cap", f})
				return
			}
		}
	case *ast.CallExpr:
		w.call(v)
		return
	case *ast.FuncLit:
		return // closures (deferred handlers, option literals) are not part of the straight-line flow
	case *ast.StarExpr:
		if f := trackedField(v.X, w.side, w.vars, w.fields); f != "" && strings.HasSuffix(f, ":Option") {
			w.evs = append(w.evs, flowEv{"rAll", f})
			return
		}
	}
	if f := trackedField(x, w.side, w.vars, w.fields); f != "" {
		if strings.HasSuffix(f, ":Option") {
			return // the pointer to the Option struct itself (passed on): not a field read
		}
		w.evs = append(w.evs, flowEv{"r", f})
		return
	}
	// children, in source order
	ast.Inspect(x, func(n ast.Node) bool {
		if n == x {
			return true
		}
		if e, ok := n.(ast.Expr); ok {
			w.read(e)
			return false
		}
		return true
	})
}

func (w *flowWalker) call(c *ast.CallExpr) {
	name := exprText(c.Fun)
	if (name == "len" || name == "cap") && len(c.Args) == 1 {
		if f := trackedField(c.Args[0], w.side, w.vars, w.fields); f != "" {
			w.evs = append(w.evs, flowEv{"cap", f})
			return
		}
	}
	for _, a := range c.Args {
		w.read(a)
	}
	if sel, ok := c.Fun.(*ast.SelectorExpr); ok {
		// a method on the context (ctx.Init): the receiver is not a field read
		if id, ok := sel.X.(*ast.Ident); !ok || !w.vars[id.Name] {
			w.read(sel.X)
		}
	}
	if name == "optFunc" {
		side := w.side
		if len(c.Args) == 1 && (exprText(c.Args[0]) == "s.Option" || exprText(c.Args[0]) == "d.s.Option") {
			side = "s"
		}
		w.evs = append(w.evs, flowEv{"opts", side})
		return
	}
	if k, ok := w.calls[name]; ok {
		w.evs = append(w.evs, flowEv{"call", k})
		return
	}
	if p, ok := w.runs[name]; ok {
		w.evs = append(w.evs, flowEv{"run", p})
	}
}

func (w *flowWalker) stmt(s ast.Stmt) {
	switch v := s.(type) {
	case nil:
	case *ast.AssignStmt:
		for _, r := range v.Rhs {
			w.read(r)
		}
		for _, l := range v.Lhs {
			if st, ok := l.(*ast.StarExpr); ok {
				if f := trackedField(st.X, w.side, w.vars, w.fields); f != "" && strings.HasSuffix(f, ":Option") {
					if w.depth == 0 {
						w.evs = append(w.evs, flowEv{"wAll", f})
					}
					continue
				}
			}
			if ix, ok := l.(*ast.IndexExpr); ok {
				if f := trackedField(ix.X, w.side, w.vars, w.fields); f != "" {
					w.read(ix.Index)
					w.evs = append(w.evs, flowEv{"wi", f})
					continue
				}
			}
			if f := trackedField(l, w.side, w.vars, w.fields); f != "" && !strings.HasSuffix(f, ":Option") {
				if v.Tok != token.ASSIGN && v.Tok != token.DEFINE {
					w.evs = append(w.evs, flowEv{"r", f})
				}
				if w.depth == 0 {
					w.evs = append(w.evs, flowEv{"w", f})
				} else {
					w.evs = append(w.evs, flowEv{"wc", f})
				}
				continue
			}
			if v.Tok != token.DEFINE {
				w.read(l)
			}
		}
	case *ast.ExprStmt:
		w.read(v.X)
	case *ast.ReturnStmt:
		for _, r := range v.Results {
			w.read(r)
		}
	case *ast.IfStmt:
		w.stmt(v.Init)
		w.read(v.Cond)
		w.depth++
		w.block(v.Body)
		w.stmt(v.Else)
		w.depth--
	case *ast.BlockStmt:
		w.block(v)
	case *ast.ForStmt:
		w.stmt(v.Init)
		w.read(v.Cond)
		w.depth++
		w.block(v.Body)
		w.stmt(v.Post)
		w.depth--
	case *ast.RangeStmt:
		w.read(v.X)
		w.depth++
		w.block(v.Body)
		w.depth--
	case *ast.DeclStmt:
		if gd, ok := v.Decl.(*ast.GenDecl); ok {
			for _, sp := range gd.Specs {
				if vs, ok := sp.(*ast.ValueSpec); ok {
					for _, x := range vs.Values {
						w.read(x)
					}
				}
			}
		}
	case *ast.SwitchStmt:
		w.stmt(v.Init)
		w.read(v.Tag)
		w.depth++
		w.block(v.Body)
		w.depth--
	case *ast.CaseClause:
		for _, x := range v.List {
			w.read(x)
		}
		for _, b := range v.Body {
			w.stmt(b)
		}
	case *ast.IncDecStmt:
		w.read(v.X)
	case *ast.DeferStmt:
		// deferred closures run at the end; none of the listed functions defers a context access
	}
}

func (w *flowWalker) block(b *ast.BlockStmt) {
	if b == nil {
		return
	}
	for _, s := range b.List {
		w.stmt(s)
	}
}

// funcReads: for every function of the non-test, non-verif files of dir, the tracked fields it reads
// (cap-only uses and plain stores excluded) and the names it calls or mentions
type funcInfo struct {
	reads map[string]bool
	refs  map[string]bool
}

func funcReads(dir, side string, fields map[string]bool, fileFilter func(string) bool) map[string]*funcInfo {
	out := map[string]*funcInfo{}
	ents, _ := os.ReadDir(dir)
	fset := token.NewFileSet()
	for _, e := range ents {
		n := e.Name()
		if e.IsDir() || !strings.HasSuffix(n, ".go") || strings.HasSuffix(n, "_test.go") || strings.HasPrefix(n, "verif_") {
			continue
		}
		if fileFilter != nil && !fileFilter(n) {
			continue
		}
		f, err := parser.ParseFile(fset, filepath.Join(dir, n), nil, 0)
		if err != nil {
			continue
		}
		for _, d := range f.Decls {
			fd, ok := d.(*ast.FuncDecl)
			if !ok || fd.Body == nil {
				continue
			}
			w := &flowWalker{side: side, vars: map[string]bool{"ctx": true, "c": true, "s": true, "rctx": true, "d.s": true}, fields: fields, calls: map[string]string{}, runs: map[string]string{}}
			w.block(fd.Body)
			fi := out[fd.Name.Name]
			if fi == nil {
				fi = &funcInfo{reads: map[string]bool{}, refs: map[string]bool{}}
				out[fd.Name.Name] = fi
			}
			for _, ev := range w.evs {
				if ev.Kind == "r" {
					fi.reads[ev.Arg] = true
				}
			}
			ast.Inspect(fd.Body, func(nd ast.Node) bool {
				switch v := nd.(type) {
				case *ast.Ident:
					fi.refs[v.Name] = true
				case *ast.SelectorExpr:
					fi.refs[v.Sel.Name] = true
				case *ast.FuncLit:
					// closures (deferred handlers) read too
					w2 := &flowWalker{side: side, vars: w.vars, fields: fields, calls: map[string]string{}, runs: map[string]string{}}
					w2.block(v.Body)
					for _, ev := range w2.evs {
						if ev.Kind == "r" {
							fi.reads[ev.Arg] = true
						}
					}
				}
				return true
			})
		}
	}
	return out
}

// closureReads: the reads of the functions of `lib` reachable from the names in roots
func closureReads(lib map[string]*funcInfo, roots map[string]bool, skip map[string]bool) map[string]bool {
	seen := map[string]bool{}
	reads := map[string]bool{}
	var visit func(n string)
	visit = func(n string) {
		fi, ok := lib[n]
		if !ok || seen[n] || skip[n] {
			return
		}
		seen[n] = true
		for r := range fi.reads {
			reads[r] = true
		}
		for c := range fi.refs {
			visit(c)
		}
	}
	for r := range roots {
		visit(r)
	}
	return reads
}

func sortedKeys(m map[string]bool) []string {
	var out []string
	for k := range m {
		out = append(out, k)
	}
	sort.Strings(out)
	return out
}

func genFlows(repo string) string {
	encFields := map[string]bool{}
	for _, f := range structFields(filepath.Join(repo, "internal/encoder/context.go"), "RuntimeContext") {
		encFields[f] = true
	}
	decFields := map[string]bool{}
	for _, f := range structFields(filepath.Join(repo, "internal/decoder/context.go"), "RuntimeContext") {
		decFields[f] = true
	}
	encOpt := structFields(filepath.Join(repo, "internal/encoder/option.go"), "Option")
	decOpt := structFields(filepath.Join(repo, "internal/decoder/option.go"), "Option")

	// field table
	var fieldNames []string
	for f := range encFields {
		if f != "Option" {
			fieldNames = append(fieldNames, "e:"+f)
		}
	}
	for _, f := range encOpt {
		fieldNames = append(fieldNames, "e:Option."+f)
	}
	for f := range decFields {
		if f != "Option" {
			fieldNames = append(fieldNames, "d:"+f)
		}
	}
	for _, f := range decOpt {
		fieldNames = append(fieldNames, "d:Option."+f, "s:Option."+f)
	}
	sort.Strings(fieldNames)
	fieldID := map[string]int{}
	for i, f := range fieldNames {
		fieldID[f] = i
	}

	type src struct {
		file, prefix, side string
		fields           map[string]bool
	}
	srcs := []src{
		{"encode.go", "root", "e", encFields},
		{"decode.go", "root", "d", decFields},
		{"internal/encoder/context.go", "enc", "e", encFields},
		{"internal/decoder/context.go", "dec", "d", decFields},
	}
	calls := map[string]string{
		"encode": "root.encode", "encodeNoEscape": "root.encodeNoEscape", "encodeIndent": "root.encodeIndent",
		"encodeRunCode": "root.encodeRunCode", "encodeRunIndentCode": "root.encodeRunIndentCode",
		"e.encodeWithOption": "root.Encoder.encodeWithOption", "d.DecodeWithOption": "root.Decoder.DecodeWithOption", "e.EncodeWithOption": "root.Encoder.EncodeWithOption",
		"encoder.TakeRuntimeContext": "enc.TakeRuntimeContext", "encoder.ReleaseRuntimeContext": "enc.ReleaseRuntimeContext",
		"decoder.TakeRuntimeContext": "dec.TakeRuntimeContext", "decoder.ReleaseRuntimeContext": "dec.ReleaseRuntimeContext",
		"ctx.Init": "enc.RuntimeContext.Init", "ctx.Ptr": "enc.RuntimeContext.Ptr",
	}
	runs := map[string]string{
		"vm.Run": "vm", "vm.DebugRun": "vm", "vm_color.Run": "vm_color", "vm_color.DebugRun": "vm_color",
		"vm_indent.Run": "vm_indent", "vm_indent.DebugRun": "vm_indent", "vm_color_indent.Run": "vm_color_indent", "vm_color_indent.DebugRun": "vm_color_indent",
		"encoder.CompileToGetCodeSet": "enc", "dec.Decode": "dec", "dec.DecodeStream": "decstream", "pathDecoder.DecodePath": "dec",
	}
	flows := map[string][]flowEv{}
	fset := token.NewFileSet()
	for _, s := range srcs {
		f, err := parser.ParseFile(fset, filepath.Join(repo, s.file), nil, 0)
		if err != nil {
			continue
		}
		for _, d := range f.Decls {
			fd, ok := d.(*ast.FuncDecl)
			if !ok || fd.Body == nil {
				continue
			}
			key := s.prefix + "."
			if fd.Recv != nil && len(fd.Recv.List) == 1 {
				key += recvName(fd.Recv.List[0].Type) + "."
			}
			key += fd.Name.Name
			w := &flowWalker{side: s.side, vars: map[string]bool{"ctx": true, "rctx": true, "c": true, "s": true, "d.s": true, "dstCtx": true}, fields: s.fields, calls: calls, runs: runs}
			w.block(fd.Body)
			if len(w.evs) > 0 {
				flows[key] = w.evs
			}
		}
	}
	// every callee named above has an entry, even an empty one
	for _, k := range calls {
		if _, ok := flows[k]; !ok {
			flows[k] = nil
		}
	}
	// reads of the interpreters / decoders: what the package itself reads plus what the functions of
	// package encoder it reaches read
	skipEnc := map[string]bool{"Init": true, "TakeRuntimeContext": true, "ReleaseRuntimeContext": true, "Ptr": true}
	encLib := funcReads(filepath.Join(repo, "internal/encoder"), "e", encFields, nil)
	runReads := map[string][]string{}
	for _, p := range []string{"vm", "vm_color", "vm_indent", "vm_color_indent"} {
		own := funcReads(filepath.Join(repo, "internal/encoder", p), "e", encFields, nil)
		reads := map[string]bool{}
		roots := map[string]bool{}
		for _, fi := range own {
			for r := range fi.reads {
				reads[r] = true
			}
			for c := range fi.refs {
				roots[c] = true
			}
		}
		for r := range closureReads(encLib, roots, skipEnc) {
			reads[r] = true
		}
		runReads[p] = sortedKeys(reads)
	}
	runReads["enc"] = sortedKeys(closureReads(encLib, map[string]bool{"CompileToGetCodeSet": true}, skipEnc))
	decLib := funcReads(filepath.Join(repo, "internal/decoder"), "d", decFields, nil)
	var dctx, sctx []string
	for name, fi := range decLib {
		if name == "TakeRuntimeContext" || name == "ReleaseRuntimeContext" {
			continue
		}
		for r := range fi.reads {
			if strings.HasPrefix(r, "d:") {
				dctx = append(dctx, r)
			}
			if strings.HasPrefix(r, "s:") {
				sctx = append(sctx, r)
			}
		}
	}
	sort.Strings(dctx)
	sort.Strings(sctx)
	runReads["dec"] = dctx
	runReads["decstream"] = sctx

	var keys []string
	for k := range flows {
		keys = append(keys, k)
	}
	sort.Strings(keys)
	fnID := map[string]int{}
	for i, k := range keys {
		fnID[k] = i
	}
	var pkgsL []string
	for k := range runReads {
		pkgsL = append(pkgsL, k)
	}
	sort.Strings(pkgsL)
	pkgID := map[string]int{}
	for i, k := range pkgsL {
		pkgID[k] = i
	}

	var sb strings.Builder
	sb.WriteString("/- GENERATED by tools/extract (flow.go) from /repo's working tree. Do not edit. -/\nimport GoJson.Model.Flow\nnamespace GoJson.Gen\nopen GoJson.Model.Flow\n\n")
	sb.WriteString("def flowFieldNames : List String := [")
	for i, f := range fieldNames {
		if i > 0 {
			sb.WriteString(", ")
		}
		fmt.Fprintf(&sb, "%q", f)
	}
	sb.WriteString("]\n\n")
	// which fields belong to which Option struct
	for _, side := range []string{"e", "d", "s"} {
		var ids []string
		for i, f := range fieldNames {
			if strings.HasPrefix(f, side+":Option.") {
				ids = append(ids, fmt.Sprint(i))
			}
		}
		fmt.Fprintf(&sb, "def flowOptionFields_%s : List Nat := [%s]\n", side, strings.Join(ids, ", "))
	}
	sb.WriteString("\ndef flowFnNames : List String := [")
	for i, k := range keys {
		if i > 0 {
			sb.WriteString(", ")
		}
		fmt.Fprintf(&sb, "%q", k)
	}
	sb.WriteString("]\n\ndef flowPkgNames : List String := [")
	for i, k := range pkgsL {
		if i > 0 {
			sb.WriteString(", ")
		}
		fmt.Fprintf(&sb, "%q", k)
	}
	sb.WriteString("]\n\n")
	sideOpt := func(arg string) string { return "flowOptionFields_" + arg[:1] }
	for _, k := range keys {
		fmt.Fprintf(&sb, "/-- %s -/\ndef flow_%s : List Ev := [", k, leanName(k))
		for i, e := range flows[k] {
			if i > 0 {
				sb.WriteString(", ")
			}
			switch e.Kind {
			case "w", "r", "cap", "wi", "wc":
				id, ok := fieldID[e.Arg]
				if !ok {
					fmt.Fprintf(&sb, ".unknown")
					continue
				}
				fmt.Fprintf(&sb, ".%s %d", map[string]string{"w": "w", "r": "r", "cap": "cap", "wi": "wi", "wc": "wc"}[e.Kind], id)
			case "wAll":
				fmt.Fprintf(&sb, ".wAll %s", sideOpt(e.Arg))
			case "rAll":
				fmt.Fprintf(&sb, ".rAll %s", sideOpt(e.Arg))
			case "opts":
				fmt.Fprintf(&sb, ".opts %s", "flowOptionFields_"+e.Arg)
			case "call":
				if id, ok := fnID[e.Arg]; ok {
					fmt.Fprintf(&sb, ".call %d", id)
				} else {
					fmt.Fprintf(&sb, ".call 9999")
				}
			case "run":
				fmt.Fprintf(&sb, ".run %d", pkgID[e.Arg])
			}
		}
		sb.WriteString("]\n\n")
	}
	sb.WriteString("def flowTable : List (List Ev) := [")
	for i, k := range keys {
		if i > 0 {
			sb.WriteString(", ")
		}
		sb.WriteString("flow_" + leanName(k))
	}
	sb.WriteString("]\n\ndef flowRunReads : List (List Nat) := [")
	for i, p := range pkgsL {
		if i > 0 {
			sb.WriteString(", ")
		}
		seen := map[int]bool{}
		var ids []string
		for _, r := range runReads[p] {
			if id, ok := fieldID[r]; ok && !seen[id] {
				seen[id] = true
				ids = append(ids, fmt.Sprint(id))
			}
		}
		sb.WriteString("[" + strings.Join(ids, ", ") + "]")
	}
	sb.WriteString("]\n\n")
	for i, f := range fieldNames {
		fmt.Fprintf(&sb, "def flowField_%s : Nat := %d\n", leanName(strings.ReplaceAll(f, ":", "_")), i)
	}
	sb.WriteString("\n")
	// ids of the entry points, by name (so that hand-written theorems do not depend on the numbering)
	for _, k := range keys {
		fmt.Fprintf(&sb, "def flowId_%s : Nat := %d\n", leanName(k), fnID[k])
	}
	sb.WriteString("\nend GoJson.Gen\n")
	return sb.String()
}
