// extract: translate data and decision facts of goccy/go-json's Go source into Lean.
//
// Usage: extract <repo-root> <out-dir>
//
// It walks a fixed list of package directories of the repository's *working tree*,
// and emits
//
//   <out>/Tables.lean  every package-level array variable whose elements are constant
//                      (bool / integer / byte), as `def <pkg>_<name> : Array Nat` (bools as 0/1)
//   <out>/Consts.lean  every package-level integer constant, as `def <pkg>_<name> : Int`
//   <out>/Facts.lean   structural facts: case-label byte sets of switch statements inside named
//                      functions, comparison guards (normalised text), helper bodies, vm identity
//   <out>/facts.json   the same facts for the python orchestrator
//
// Only go/parser + go/ast + go/token are used: no type checking, no network, no build of /repo.
// Anything that cannot be evaluated is skipped and listed in facts.json under "skipped".
package main

import (
	"crypto/sha256"
	"encoding/hex"
	"encoding/json"
	"fmt"
	"go/ast"
	"go/parser"
	"go/printer"
	"go/token"
	"math/big"
	"os"
	"path/filepath"
	"sort"
	"strconv"
	"strings"
)

type pkgSpec struct {
	prefix string
	dir    string
}

var pkgs = []pkgSpec{
	{"enc", "internal/encoder"},
	{"dec", "internal/decoder"},
	{"rt", "internal/runtime"},
	{"root", "."},
	{"vm", "internal/encoder/vm"},
	{"vmi", "internal/encoder/vm_indent"},
	{"vmc", "internal/encoder/vm_color"},
	{"vmci", "internal/encoder/vm_color_indent"},
}

type env map[string]*big.Int

type table struct {
	Name  string
	Elems []*big.Int
	Bool  bool
}

type facts struct {
	Tables      []string                     `json:"tables"`
	Consts      map[string]string            `json:"consts"`
	Skipped     []string                     `json:"skipped"`
	CaseSets    map[string][]int             `json:"case_sets"`
	FuncHash    map[string]string            `json:"func_hash"`
	VMIdentical bool                         `json:"vm_identical"`
	Guards      map[string][]string          `json:"guards"`
	Helpers     map[string]map[string]string `json:"helpers"`
}

func main() {
	if len(os.Args) != 3 {
		fmt.Fprintln(os.Stderr, "usage: extract <repo> <outdir>")
		os.Exit(2)
	}
	repo, out := os.Args[1], os.Args[2]
	fset := token.NewFileSet()
	F := facts{Consts: map[string]string{}, CaseSets: map[string][]int{}, FuncHash: map[string]string{}, Guards: map[string][]string{}, Helpers: map[string]map[string]string{}}
	var tables []table
	constOrder := []string{}
	constVals := map[string]*big.Int{}

	for _, p := range pkgs {
		dir := filepath.Join(repo, p.dir)
		ents, err := os.ReadDir(dir)
		if err != nil {
			fmt.Fprintln(os.Stderr, "extract: cannot read", dir, err)
			os.Exit(2)
		}
		var files []*ast.File
		var names []string
		for _, e := range ents {
			n := e.Name()
			if e.IsDir() || !strings.HasSuffix(n, ".go") || strings.HasSuffix(n, "_test.go") || strings.HasPrefix(n, "verif_") {
				continue
			}
			f, err := parser.ParseFile(fset, filepath.Join(dir, n), nil, parser.ParseComments)
			if err != nil {
				fmt.Fprintln(os.Stderr, "extract: parse error", err)
				os.Exit(2)
			}
			files = append(files, f)
			names = append(names, n)
		}
		// pass 1: constants (iterate to a fixpoint because of forward references)
		e := env{}
		e["true"] = big.NewInt(1)
		e["false"] = big.NewInt(0)
		for round := 0; round < 4; round++ {
			for _, f := range files {
				for _, d := range f.Decls {
					gd, ok := d.(*ast.GenDecl)
					if !ok || gd.Tok != token.CONST {
						continue
					}
					var lastExprs []ast.Expr
					for iota, s := range gd.Specs {
						vs := s.(*ast.ValueSpec)
						exprs := vs.Values
						if len(exprs) == 0 {
							exprs = lastExprs
						} else {
							lastExprs = exprs
						}
						for i, nm := range vs.Names {
							if nm.Name == "_" || i >= len(exprs) {
								continue
							}
							e["iota"] = big.NewInt(int64(iota))
							v, ok := eval(exprs[i], e)
							delete(e, "iota")
							if ok {
								if _, seen := e[nm.Name]; !seen {
									e[nm.Name] = v
									key := p.prefix + "_" + nm.Name
									if _, dup := constVals[key]; !dup {
										constOrder = append(constOrder, key)
									}
									constVals[key] = v
								}
							}
						}
					}
				}
			}
		}
		// pass 2: tables
		for _, f := range files {
			for _, d := range f.Decls {
				gd, ok := d.(*ast.GenDecl)
				if !ok || gd.Tok != token.VAR {
					continue
				}
				for _, s := range gd.Specs {
					vs := s.(*ast.ValueSpec)
					for i, nm := range vs.Names {
						if i >= len(vs.Values) {
							continue
						}
						cl, ok := vs.Values[i].(*ast.CompositeLit)
						if !ok {
							continue
						}
						at, ok := cl.Type.(*ast.ArrayType)
						if !ok {
							continue
						}
						et, ok := at.Elt.(*ast.Ident)
						if !ok {
							continue
						}
						isBool := et.Name == "bool"
						switch et.Name {
						case "bool", "byte", "uint8", "int8", "int", "uint", "int16", "uint16", "int32", "uint32", "int64", "uint64":
						default:
							continue
						}
						n := -1
						if at.Len != nil {
							if _, ell := at.Len.(*ast.Ellipsis); !ell {
								lv, ok := eval(at.Len, e)
								if !ok {
									F.Skipped = append(F.Skipped, p.prefix+"_"+nm.Name+":len")
									continue
								}
								n = int(lv.Int64())
							}
						} else {
							// slice literal: take as-is
						}
						elems, ok := evalArray(cl, n, e)
						if !ok {
							F.Skipped = append(F.Skipped, p.prefix+"_"+nm.Name)
							continue
						}
						tables = append(tables, table{p.prefix + "_" + nm.Name, elems, isBool})
					}
				}
			}
		}
		// pass 2b: `init()` assignments `table[const] = const` complete tables declared empty
		for _, f := range files {
			for _, d := range f.Decls {
				fd, ok := d.(*ast.FuncDecl)
				if !ok || fd.Name.Name != "init" || fd.Recv != nil || fd.Body == nil {
					continue
				}
				for _, st := range fd.Body.List {
					as, ok := st.(*ast.AssignStmt)
					if !ok || len(as.Lhs) != 1 || len(as.Rhs) != 1 || as.Tok != token.ASSIGN {
						continue
					}
					ix, ok := as.Lhs[0].(*ast.IndexExpr)
					if !ok {
						continue
					}
					id, ok := ix.X.(*ast.Ident)
					if !ok {
						continue
					}
					iv, ok1 := eval(ix.Index, e)
					vv, ok2 := eval(as.Rhs[0], e)
					name := p.prefix + "_" + id.Name
					for ti := range tables {
						if tables[ti].Name != name {
							continue
						}
						if !ok1 || !ok2 || !iv.IsInt64() || iv.Int64() < 0 || int(iv.Int64()) >= len(tables[ti].Elems) {
							F.Skipped = append(F.Skipped, name+":init-assignment")
							continue
						}
						tables[ti].Elems[iv.Int64()] = vv
					}
				}
			}
		}
		// pass 3: per-function facts
		for fi, f := range files {
			_ = names[fi]
			for _, d := range f.Decls {
				fd, ok := d.(*ast.FuncDecl)
				if !ok || fd.Body == nil {
					continue
				}
				fname := fd.Name.Name
				if fd.Recv != nil && len(fd.Recv.List) == 1 {
					fname = recvName(fd.Recv.List[0].Type) + "." + fname
				}
				key := p.prefix + "." + fname
				// hash of the printed body (format-insensitive)
				var sb strings.Builder
				printer.Fprint(&sb, token.NewFileSet(), fd)
				h := sha256.Sum256([]byte(sb.String()))
				F.FuncHash[key] = hex.EncodeToString(h[:8])
				// case sets: union of all byte labels per switch, numbered in source order
				sw := 0
				ast.Inspect(fd.Body, func(n ast.Node) bool {
					ss, ok := n.(*ast.SwitchStmt)
					if !ok {
						return true
					}
					for ci, c := range ss.Body.List {
						cc := c.(*ast.CaseClause)
						var vals []int
						good := len(cc.List) > 0
						for _, x := range cc.List {
							v, ok := eval(x, e)
							if !ok || !v.IsInt64() || v.Int64() < 0 || v.Int64() > 255 {
								good = false
								break
							}
							vals = append(vals, int(v.Int64()))
						}
						if good {
							sort.Ints(vals)
							F.CaseSets[fmt.Sprintf("%s#%d.%d", key, sw, ci)] = vals
						}
					}
					sw++
					return true
				})
				// guards: every binary comparison whose one side is a constant expression
				var gs []string
				ast.Inspect(fd.Body, func(n ast.Node) bool {
					be, ok := n.(*ast.BinaryExpr)
					if !ok {
						return true
					}
					switch be.Op {
					case token.LSS, token.LEQ, token.GTR, token.GEQ, token.EQL, token.NEQ:
						lv, lok := eval(be.X, e)
						rv, rok := eval(be.Y, e)
						if lok != rok {
							var sb strings.Builder
							if lok {
								sb.WriteString(lv.String())
							} else {
								printer.Fprint(&sb, token.NewFileSet(), be.X)
							}
							sb.WriteString(" " + be.Op.String() + " ")
							if rok {
								sb.WriteString(rv.String())
							} else {
								printer.Fprint(&sb, token.NewFileSet(), be.Y)
							}
							gs = append(gs, sb.String())
						}
					}
					return true
				})
				if len(gs) > 0 {
					F.Guards[key] = gs
				}
			}
		}
	}
	// vm identity
	F.VMIdentical = vmIdentical(repo)

	sort.Slice(tables, func(i, j int) bool { return tables[i].Name < tables[j].Name })
	for _, t := range tables {
		F.Tables = append(F.Tables, t.Name)
	}
	for _, k := range constOrder {
		F.Consts[k] = constVals[k].String()
	}
	sort.Strings(F.Skipped)

	os.MkdirAll(out, 0o755)
	writeIfChanged(filepath.Join(out, "Tables.lean"), genTables(tables))
	writeIfChanged(filepath.Join(out, "Consts.lean"), genConsts(constOrder, constVals))
	writeIfChanged(filepath.Join(out, "Facts.lean"), genFacts(&F))
	writeIfChanged(filepath.Join(out, "Flows.lean"), genFlows(repo))
	writeIfChanged(filepath.Join(out, "Alias.lean"), genAlias(repo))
	writeIfChanged(filepath.Join(out, "Proto.lean"), genProto(repo))
	js, _ := json.MarshalIndent(&F, "", " ")
	writeIfChanged(filepath.Join(out, "facts.json"), string(js)+"\n")
}

func recvName(t ast.Expr) string {
	switch x := t.(type) {
	case *ast.StarExpr:
		return recvName(x.X)
	case *ast.Ident:
		return x.Name
	case *ast.IndexExpr:
		return recvName(x.X)
	}
	return "?"
}

func vmIdentical(repo string) bool {
	var ref string
	for i, d := range []string{"vm", "vm_indent", "vm_color", "vm_color_indent"} {
		b, err := os.ReadFile(filepath.Join(repo, "internal/encoder", d, "vm.go"))
		if err != nil {
			return false
		}
		lines := strings.Split(string(b), "\n")
		var keep []string
		for _, l := range lines {
			if strings.HasPrefix(l, "package ") {
				continue
			}
			keep = append(keep, l)
		}
		s := strings.Join(keep, "\n")
		if i == 0 {
			ref = s
		} else if s != ref {
			return false
		}
	}
	return true
}

func writeIfChanged(path, content string) {
	old, err := os.ReadFile(path)
	if err == nil && string(old) == content {
		return
	}
	if err := os.WriteFile(path, []byte(content), 0o644); err != nil {
		fmt.Fprintln(os.Stderr, "extract: write", err)
		os.Exit(2)
	}
}

func leanName(s string) string {
	return strings.NewReplacer(".", "_", "#", "_s", "*", "").Replace(s)
}

func genTables(ts []table) string {
	var sb strings.Builder
	sb.WriteString("/- GENERATED by tools/extract from /repo's working tree. Do not edit. -/\nnamespace GoJson.Gen\n\n")
	for _, t := range ts {
		fmt.Fprintf(&sb, "def %s : Array Nat := #[", t.Name)
		for i, v := range t.Elems {
			if i > 0 {
				sb.WriteString(", ")
			}
			if i%16 == 0 {
				sb.WriteString("\n  ")
			}
			if v.Sign() < 0 {
				// two's complement 64 for negative entries (none expected)
				m := new(big.Int).Lsh(big.NewInt(1), 64)
				v = new(big.Int).Add(m, v)
			}
			sb.WriteString(v.String())
		}
		sb.WriteString("]\n\n")
	}
	sb.WriteString("end GoJson.Gen\n")
	return sb.String()
}

func genConsts(order []string, vals map[string]*big.Int) string {
	var sb strings.Builder
	sb.WriteString("/- GENERATED by tools/extract from /repo's working tree. Do not edit. -/\nnamespace GoJson.Gen\n\n")
	for _, k := range order {
		v := vals[k]
		if v.Sign() < 0 {
			fmt.Fprintf(&sb, "def c_%s : Int := %s\n", leanName(k), v.String())
		} else {
			fmt.Fprintf(&sb, "def c_%s : Nat := %s\n", leanName(k), v.String())
		}
	}
	sb.WriteString("\nend GoJson.Gen\n")
	return sb.String()
}

// factFuncs: functions whose switch case-label sets and constant guards are emitted into Facts.lean
// (everything is in facts.json; Lean gets only what models refer to, to keep compile time low).
var factFuncs = []string{
	"dec.intDecoder.decodeByte", "dec.intDecoder.decodeStreamByte", "dec.intDecoder.Decode", "dec.intDecoder.DecodeStream", "dec.intDecoder.parseInt",
	"dec.uintDecoder.decodeByte", "dec.uintDecoder.decodeStreamByte", "dec.uintDecoder.Decode", "dec.uintDecoder.DecodeStream", "dec.uintDecoder.parseUint",
	"dec.stringDecoder.decodeByte", "dec.stringDecoder.decodeStreamByte", "dec.skipValue", "dec.skipObject", "dec.skipArray", "dec.skipWhiteSpace",
	"dec.interfaceDecoder.decodeEmptyInterface", "dec.floatDecoder.decodeByte", "dec.validateEndBuf", "root.validateEndBuf",
	"enc.compactValue", "enc.compactObject", "enc.compactArray", "enc.compactString", "enc.compactNumber",
	"enc.indentValue", "enc.indentObject", "enc.indentArray",
	"enc.AppendInt", "enc.AppendUint", "enc.AppendNumber",
	"dec.PathBuilder.build", "dec.PathBuilder.buildNext", "dec.PathBuilder.buildSelector", "dec.PathBuilder.buildQuoteSelector", "dec.PathBuilder.buildIndex",
}

func factWanted(key string) bool {
	k := key
	if i := strings.Index(k, "#"); i >= 0 {
		k = k[:i]
	}
	for _, f := range factFuncs {
		if f == k {
			return true
		}
	}
	return false
}

func genFacts(F *facts) string {
	var sb strings.Builder
	sb.WriteString("/- GENERATED by tools/extract from /repo's working tree. Do not edit. -/\nnamespace GoJson.Gen\n\n")
	fmt.Fprintf(&sb, "def vmIdentical : Bool := %v\n\n", F.VMIdentical)
	keys := make([]string, 0, len(F.CaseSets))
	for k := range F.CaseSets {
		if factWanted(k) {
			keys = append(keys, k)
		}
	}
	sort.Strings(keys)
	for _, k := range keys {
		vs := F.CaseSets[k]
		strs := make([]string, len(vs))
		for j, v := range vs {
			strs[j] = strconv.Itoa(v)
		}
		fmt.Fprintf(&sb, "/-- case labels of %s -/\ndef cs_%s : List Nat := [%s]\n", k, leanName(k), strings.Join(strs, ", "))
	}
	sb.WriteString("\n")
	gkeys := make([]string, 0, len(F.Guards))
	for k := range F.Guards {
		if factWanted(k) {
			gkeys = append(gkeys, k)
		}
	}
	sort.Strings(gkeys)
	for _, k := range gkeys {
		vs := F.Guards[k]
		strs := make([]string, len(vs))
		for j, v := range vs {
			strs[j] = strconv.Quote(v)
		}
		fmt.Fprintf(&sb, "/-- constant comparisons of %s, source order, constants folded -/\ndef guards_%s : List String := [%s]\n", k, leanName(k), strings.Join(strs, ", "))
	}
	sb.WriteString("\nend GoJson.Gen\n")
	return sb.String()
}

func evalArray(cl *ast.CompositeLit, n int, e env) ([]*big.Int, bool) {
	type kv struct {
		idx int
		v   *big.Int
	}
	var items []kv
	idx := 0
	max := -1
	for _, el := range cl.Elts {
		var ve ast.Expr = el
		if k, ok := el.(*ast.KeyValueExpr); ok {
			kvv, ok := eval(k.Key, e)
			if !ok {
				return nil, false
			}
			idx = int(kvv.Int64())
			ve = k.Value
		}
		v, ok := eval(ve, e)
		if !ok {
			return nil, false
		}
		items = append(items, kv{idx, v})
		if idx > max {
			max = idx
		}
		idx++
	}
	if n < 0 {
		n = max + 1
	}
	if max >= n {
		return nil, false
	}
	out := make([]*big.Int, n)
	for i := range out {
		out[i] = big.NewInt(0)
	}
	for _, it := range items {
		out[it.idx] = it.v
	}
	return out, true
}

func eval(x ast.Expr, e env) (*big.Int, bool) {
	switch v := x.(type) {
	case *ast.BasicLit:
		switch v.Kind {
		case token.INT:
			n, ok := new(big.Int).SetString(strings.ReplaceAll(v.Value, "_", ""), 0)
			return n, ok
		case token.CHAR:
			r, _, _, err := strconv.UnquoteChar(v.Value[1:len(v.Value)-1], '\'')
			if err != nil {
				return nil, false
			}
			return big.NewInt(int64(r)), true
		case token.FLOAT:
			f, ok := new(big.Float).SetPrec(256).SetString(v.Value)
			if !ok {
				return nil, false
			}
			if !f.IsInt() {
				return nil, false
			}
			n, _ := f.Int(nil)
			return n, true
		}
		return nil, false
	case *ast.Ident:
		n, ok := e[v.Name]
		return n, ok
	case *ast.ParenExpr:
		return eval(v.X, e)
	case *ast.UnaryExpr:
		a, ok := eval(v.X, e)
		if !ok {
			return nil, false
		}
		switch v.Op {
		case token.SUB:
			return new(big.Int).Neg(a), true
		case token.ADD:
			return a, true
		case token.XOR:
			// ^x on an untyped/unsigned constant: only the 64-bit unsigned reading is used in this code base
			m := new(big.Int).Sub(new(big.Int).Lsh(big.NewInt(1), 64), big.NewInt(1))
			return new(big.Int).Xor(a, m), true
		}
		return nil, false
	case *ast.CallExpr:
		// conversions like uint64(x), byte(x), int64(x), uintptr(x)
		if id, ok := v.Fun.(*ast.Ident); ok && len(v.Args) == 1 {
			switch id.Name {
			case "uint64", "int64", "int", "uint", "byte", "uint8", "uint16", "uint32", "int32", "uintptr", "OpType", "OpFlags", "CodeType":
				return eval(v.Args[0], e)
			}
		}
		return nil, false
	case *ast.BinaryExpr:
		a, ok := eval(v.X, e)
		if !ok {
			return nil, false
		}
		b, ok := eval(v.Y, e)
		if !ok {
			return nil, false
		}
		switch v.Op {
		case token.ADD:
			return new(big.Int).Add(a, b), true
		case token.SUB:
			return new(big.Int).Sub(a, b), true
		case token.MUL:
			return new(big.Int).Mul(a, b), true
		case token.QUO:
			if b.Sign() == 0 {
				return nil, false
			}
			return new(big.Int).Quo(a, b), true
		case token.REM:
			if b.Sign() == 0 {
				return nil, false
			}
			return new(big.Int).Rem(a, b), true
		case token.SHL:
			return new(big.Int).Lsh(a, uint(b.Uint64())), true
		case token.SHR:
			return new(big.Int).Rsh(a, uint(b.Uint64())), true
		case token.OR:
			return new(big.Int).Or(a, b), true
		case token.AND:
			return new(big.Int).And(a, b), true
		case token.XOR:
			return new(big.Int).Xor(a, b), true
		case token.AND_NOT:
			return new(big.Int).AndNot(a, b), true
		}
	}
	return nil, false
}
