/-
C15 — object keys select struct fields exactly as Go's JSON rules prescribe.

What is proved here, for every set of field names that `tryOptimize` accepts and every key text:
the bitmap matcher (rows built from the sorted lower-cased names, candidate sets AND-ed per decoded
character, lowest set bit + "early match" length test at the closing quote, separate skipper for a
key that already failed) never indexes outside its tables and selects a field exactly when the
*decoded* key equals that field's name up to ASCII case. Prefixes, extensions and escaped spellings
of other names select nothing; a malformed escape is an error.

What is not proved but checked by differential execution and against encoding/json (harness):
the dominant-field rule over embedded structs (finding D15), the member set of the encoder, the
map path for names the bitmap does not take, that the declared names reach the matcher lower-cased
and sorted, and that `keyChars` is the JSON string semantics.
-/
import GoJson.Lemmas.Key7

namespace GoJson.Props.C15
open GoJson.Model.Key

/-- the names as `tryOptimize` lays them out: lower-cased, sorted, without repetition -/
def layout (names : List (List UInt8)) : List (List UInt8) := sortNames (names.map (·.map lower))

theorem eligible_layout (names : List (List UInt8)) (h : eligible names = true) :
    Sorted (layout names) ∧ (layout names).length ≤ 16 ∧ ∀ k ∈ layout names, k ≠ [] := by
  unfold eligible at h
  simp only [Bool.and_eq_true, decide_eq_true_eq, List.all_eq_true] at h
  obtain ⟨⟨⟨⟨_, hnd⟩, hlen⟩, _⟩, hne⟩ := h
  refine ⟨sorted_sortNames _ hnd, ?_, ?_⟩
  · unfold layout; rw [length_sortNames]; simpa using hlen
  · intro k hk
    unfold layout at hk
    rw [mem_sortNames] at hk
    obtain ⟨k0, hk0, rfl⟩ := List.mem_map.mp hk
    have := hne k0 hk0
    intro hnil
    have hk0nil : k0 = [] := by simpa using hnil
    subst hk0nil
    simp at this

/-- **No table is indexed out of range**: neither a bitmap row beyond `maxKeyLen + 1` nor a field
beyond `sortedFieldSets`, for any key text whatsoever (`l` is the buffer after the opening quote,
ending with the NUL terminator). -/
theorem bitmap_index_safe (names : List (List UInt8)) (h : eligible names = true) (l : List UInt8)
    (ht : Term l) : rawMatch (layout names) l ≠ .panic := by
  obtain ⟨hs, hn, hne⟩ := eligible_layout names h
  rw [rawMatch_eq _ hs hn hne l ht]
  cases hk : keyChars l with
  | none => simp
  | some chars =>
    have := (matchSorted_spec _ hs hn hne chars).1
    simp only
    cases hm : matchSorted (layout names) chars with
    | panic => exact absurd hm this
    | field i => simp [ofKR]
    | notFound => simp [ofKR]

/-- **The field selected is the one whose name equals the decoded key up to ASCII case** — and no
other key selects it: not a prefix, not an extension, not a text that merely looks like the name
before its escapes are decoded. -/
theorem bitmap_selects_exact (names : List (List UInt8)) (h : eligible names = true) (l : List UInt8)
    (ht : Term l) (i : Nat) :
    rawMatch (layout names) l = .field i ↔
      ∃ chars, keyChars l = some chars ∧ (layout names)[i]? = some (chars.map lower) := by
  obtain ⟨hs, hn, hne⟩ := eligible_layout names h
  rw [rawMatch_eq _ hs hn hne l ht]
  cases hk : keyChars l with
  | none => simp
  | some chars =>
    have := (matchSorted_spec _ hs hn hne chars).2 i
    simp only
    constructor
    · intro hf
      refine ⟨chars, rfl, this.mp ?_⟩
      cases hm : matchSorted (layout names) chars with
      | panic => rw [hm] at hf; simp [ofKR] at hf
      | notFound => rw [hm] at hf; simp [ofKR] at hf
      | field j => rw [hm] at hf; simp only [ofKR, RR.field.injEq] at hf; rw [hf]
    · rintro ⟨chars', hc, hi⟩
      cases hc
      rw [this.mpr hi]; rfl

/-- a key text is rejected exactly when it is not a string: a bad escape or no closing quote -/
theorem bitmap_error_iff (names : List (List UInt8)) (h : eligible names = true) (l : List UInt8)
    (ht : Term l) : rawMatch (layout names) l = .err ↔ keyChars l = none := by
  obtain ⟨hs, hn, hne⟩ := eligible_layout names h
  rw [rawMatch_eq _ hs hn hne l ht]
  cases hk : keyChars l with
  | none => simp
  | some chars =>
    simp only
    cases hm : matchSorted (layout names) chars <;> simp [ofKR]

/-- in terms of the declared names: some field is selected iff the decoded key, lower-cased, is one
of the lower-cased names — and then it is that name -/
theorem bitmapSelect_exact (names : List (List UInt8)) (h : eligible names = true) (chars t : List UInt8) :
    bitmapSelect names chars = some t ↔ (t = chars.map lower ∧ t ∈ names.map (·.map lower)) := by
  obtain ⟨hs, hn, hne⟩ := eligible_layout names h
  have hspec := matchSorted_spec (layout names) hs hn hne chars
  unfold bitmapSelect
  show (match matchSorted (layout names) chars with
    | .field i => (layout names)[i]?
    | _ => none) = some t ↔ _
  constructor
  · intro hsel
    cases hm : matchSorted (layout names) chars with
    | panic => rw [hm] at hsel; cases hsel
    | notFound => rw [hm] at hsel; cases hsel
    | field i =>
      rw [hm] at hsel
      simp only at hsel
      have := (hspec.2 i).mp hm
      rw [this] at hsel
      cases hsel
      refine ⟨rfl, ?_⟩
      have hmem := List.mem_of_getElem? this
      unfold layout at hmem
      exact (mem_sortNames _ _).mp hmem
  · rintro ⟨rfl, hmem⟩
    have hmem' : chars.map lower ∈ layout names := (mem_sortNames _ _).mpr hmem
    obtain ⟨i, hi, hget⟩ := List.getElem_of_mem hmem'
    have hi' : (layout names)[i]? = some (chars.map lower) := by
      rw [List.getElem?_eq_getElem hi, hget]
    rw [(hspec.2 i).mpr hi']
    exact hi'

/-- a key that is a proper prefix or a proper extension of a name, and not itself a name, selects
nothing -/
theorem no_prefix_no_extension (names : List (List UInt8)) (h : eligible names = true) (chars : List UInt8)
    (hno : chars.map lower ∉ names.map (·.map lower)) : bitmapSelect names chars = none := by
  cases hb : bitmapSelect names chars with
  | none => rfl
  | some t =>
    have := (bitmapSelect_exact names h chars t).mp hb
    exact absurd (this.1 ▸ this.2) hno

/-- the hypotheses are satisfiable and the theorem speaks about real cases: names `Ab`, `a`, `abc`;
the key text `ab"` selects `ab` (index 1 of the sorted layout) although it is 7 bytes long, and
`abc"`, six more bytes, selects `abc`; `ab\x"` is an error -/
example : eligible [[65, 98], [97], [97, 98, 99]] = true := by decide

end GoJson.Props.C15
