/-
C16 — integer text conversion is exact; out-of-range input is an error.
Property theorems only; helper lemmas live in GoJson.Lemmas.*.
-/
import GoJson.Model.Int
import GoJson.Lemmas.Int
import GoJson.Lemmas.IntDec

namespace GoJson.Props.C16
open GoJson GoJson.Spec GoJson.Model.Int

/-- The widths go-json compiles integer opcodes for. -/
def Width (bits : Nat) : Prop := bits = 8 ∨ bits = 16 ∨ bits = 32 ∨ bits = 64

/-- value of the low `bits` bits of the loaded word, read as unsigned -/
def uval (bits : Nat) (w : BitVec 64) : Nat := w.toNat % 2 ^ bits

/-- … read as two's complement -/
def sval (bits : Nat) (w : BitVec 64) : Int :=
  if uval bits w < 2 ^ (bits - 1) then (uval bits w : Int) else (uval bits w : Int) - (2 ^ bits : Nat)

/-- **Printing, unsigned.** For every width and every 64-bit word (whatever is above the width),
`AppendUint` emits exactly the decimal numeral of the value. -/
theorem appendUint_exact (bits : Nat) (hb : Width bits) (w : BitVec 64) :
    appendUint bits w = decNat (uval bits w) := by
  unfold appendUint uval
  rw [and_mask_toNat bits hb w]
  generalize w.toNat % 2 ^ bits = n
  by_cases h10 : n < 10
  · simp [h10, decNat_lt10 h10, digitByte, Nat.add_comm]
  · by_cases h100 : n < 100
    · simp only [h10, h100, ↓reduceIte]
      rw [le2_lookup h100, decNat_two (Nat.not_lt.mp h10) h100]
    · simp only [h10, h100, ↓reduceIte]
      rw [digitsLoop_spec]; simp

end GoJson.Props.C16

namespace GoJson.Props.C16
open GoJson GoJson.Spec GoJson.Model.Int

/-- **Printing, signed.** For every width and every 64-bit word, `AppendInt` emits exactly the
decimal numeral of the two's-complement value of the low `bits` bits: a '-' and the magnitude for
negative values (including the minimum, whose magnitude does not fit the signed type). -/
theorem appendInt_exact (bits : Nat) (hb : Width bits) (w : BitVec 64) :
    appendInt bits w = decInt (sval bits w) := by
  unfold appendInt
  simp only
  rw [sign_test bits hb w]
  by_cases hneg : 2 ^ (bits - 1) ≤ w.toNat % 2 ^ bits
  · -- negative
    simp only [hneg, decide_true, Bool.not_true, Bool.false_eq_true, ↓reduceIte]
    rw [neg_mask_toNat bits hb w hneg, digitsLoop_spec]
    have hlt : w.toNat % 2 ^ bits < 2 ^ bits := Nat.mod_lt _ (Nat.two_pow_pos bits)
    unfold decInt sval uval
    have h1 : ¬ (w.toNat % 2 ^ bits < 2 ^ (bits - 1)) := Nat.not_lt.mpr hneg
    simp only [h1, ↓reduceIte]
    have h2 : ((w.toNat % 2 ^ bits : Nat) : Int) - ((2 ^ bits : Nat) : Int) < 0 := by omega
    simp only [h2, ↓reduceIte, List.append_nil]
    congr 2
    omega
  · -- non-negative: same three paths as the unsigned printer
    simp only [hneg, decide_false, Bool.not_false, ↓reduceIte]
    rw [and_mask_toNat bits hb w]
    unfold decInt sval uval
    have h1 : w.toNat % 2 ^ bits < 2 ^ (bits - 1) := Nat.not_le.mp hneg
    simp only [h1, ↓reduceIte]
    have h2 : ¬ (((w.toNat % 2 ^ bits : Nat) : Int) < 0) := by omega
    simp only [h2, ↓reduceIte, Int.toNat_natCast]
    generalize w.toNat % 2 ^ bits = n
    by_cases h10 : n < 10
    · simp [h10, decNat_lt10 h10, digitByte, Nat.add_comm]
    · by_cases h100 : n < 100
      · simp only [h10, h100, ↓reduceIte]
        rw [le2_lookup h100, decNat_two (Nat.not_lt.mp h10) h100]
      · simp only [h10, h100, ↓reduceIte]
        rw [digitsLoop_spec]; simp

/-- The scratch buffer of 22 bytes is never exceeded: a 64-bit magnitude has at most 20 digits. -/
theorem numeral_fits_buffer (n : Nat) (h : n < 2 ^ 64) : (decNat n).length + 1 ≤ 22 := by
  have := decNat_length_le n 19 (by omega)
  omega

/-- Non-vacuity / sanity: the extreme words print as expected. -/
example : appendInt 64 (BitVec.ofNat 64 (2 ^ 63)) = "-9223372036854775808".toUTF8.toList := by decide +kernel
example : appendInt 8 (BitVec.ofNat 64 0xff) = "-1".toUTF8.toList := by decide +kernel
example : appendUint 64 (BitVec.ofNat 64 (2 ^ 64 - 1)) = "18446744073709551615".toUTF8.toList := by decide +kernel

end GoJson.Props.C16

namespace GoJson.Props.C16
open GoJson GoJson.Spec GoJson.Model.Int

/-- the value fits a signed destination of the given width -/
def InSigned (bits : Nat) (v : Int) : Prop := -(2 ^ (bits - 1) : Int) ≤ v ∧ v < (2 ^ (bits - 1) : Int)

instance (bits : Nat) (v : Int) : Decidable (InSigned bits v) := by unfold InSigned; infer_instance

/-- **Parsing, signed, exactness.** White space, then any RFC 8259 integer literal, then a byte that
cannot continue a number: the decoder stores exactly the literal's value when it fits the width
(every width, any number of digits) and reports a type error — storing nothing — when it does not. -/
theorem decodeInt_exact (bits : Nat) (hb : Width bits) (ws lit : List UInt8) (next : UInt8)
    (rest : List UInt8) (hws : ∀ b ∈ ws, isWs b = true) (hl : isJsonInt lit = true)
    (hn : isNumberContinuation next = false) :
    decodeInt bits (ws ++ (lit ++ next :: rest)) =
      if InSigned bits (valInt lit) then .ok (valInt lit) (ws.length + lit.length) else .typeErr := by
  rw [decodeInt_ws bits ws _ 0 hws]
  simp only [Nat.zero_add]
  unfold isJsonInt at hl
  unfold InSigned
  split at hl
  · -- '-' nat
    rename_i l
    rw [decodeInt_neg bits hb l next rest _ hl hn]
    simp only [valInt]
    have h2 : -(valNat l : Int) < (2 ^ (bits - 1) : Int) := by
      rcases hb with rfl | rfl | rfl | rfl <;> simp <;> omega
    by_cases h1 : (valNat l : Int) ≤ (2 ^ (bits - 1) : Int)
    · have : -(2 ^ (bits - 1) : Int) ≤ -(valNat l : Int) := by omega
      simp [h1, this, h2]
    · have : ¬ (-(2 ^ (bits - 1) : Int) ≤ -(valNat l : Int)) := by omega
      simp [h1, this]
  · rename_i hne
    have hvi : valInt lit = (valNat lit : Int) := by
      unfold valInt
      split
      · rename_i r; exact absurd rfl (hne r)
      · rfl
    rw [hvi]
    have hlow : -(2 ^ (bits - 1) : Int) ≤ (valNat lit : Int) := by
      rcases hb with rfl | rfl | rfl | rfl <;> simp <;> omega
    rcases isJsonNat_cases lit hl with rfl | ⟨d, ds, rfl, hd, h0, hds⟩
    · have : ((0 : Int) < 2 ^ (bits - 1)) := by
        rcases hb with rfl | rfl | rfl | rfl <;> simp
      rw [List.cons_append, List.nil_append, decodeInt_zero bits next rest _ hn]
      simp [valNat, this]
      rcases hb with rfl | rfl | rfl | rfl <;> simp
    · rw [decodeInt_pos bits hb d ds next rest _ hd h0 hds hn]
      by_cases h1 : (valNat (d :: ds) : Int) < (2 ^ (bits - 1) : Int)
      · simp [h1, hlow]
      · simp [h1]

/-- **Parsing, signed, soundness.** Whatever the bytes, if the decoder stores a value at all then
the bytes it consumed are white space followed by an RFC 8259 integer literal (no bare minus, no
leading zero), the next byte does not continue the number (no fraction, exponent or further
digit), the stored value is exactly the literal's value and it fits the width. Hence never a
wrapped, truncated or default number. -/
theorem decodeInt_sound (bits : Nat) (hb : Width bits) (s : List UInt8) (v : Int) (c : Nat)
    (h : decodeInt bits s = .ok v c) :
    ∃ ws lit next rest, s = ws ++ (lit ++ next :: rest) ∧ (∀ b ∈ ws, isWs b = true) ∧
      isJsonInt lit = true ∧ isNumberContinuation next = false ∧
      v = valInt lit ∧ InSigned bits v ∧ c = ws.length + lit.length := by
  obtain ⟨ws, lit, next, rest, e, hws, hl, hn⟩ := decodeInt_ok_shape bits s 0 v c h
  refine ⟨ws, lit, next, rest, e, hws, hl, hn, ?_⟩
  have := decodeInt_exact bits hb ws lit next rest hws hl hn
  rw [← e, h] at this
  by_cases hr : InSigned bits (valInt lit)
  · simp only [hr, ↓reduceIte, Res.ok.injEq] at this
    exact ⟨this.1, this.1 ▸ hr, this.2⟩
  · simp [hr] at this

/-- non-vacuity: concrete instances of the hypotheses, evaluated by the kernel -/
example : decodeInt 8 " -128,".toUTF8.toList = .ok (-128) 5 := by decide +kernel
example : decodeInt 8 "128,".toUTF8.toList = .typeErr := by decide +kernel
example : decodeInt 64 "9223372036854775808\x00".toUTF8.toList = .typeErr := by decide +kernel
example : decodeInt 64 "-9223372036854775808\x00".toUTF8.toList = .ok (-9223372036854775808) 20 := by decide +kernel
example : decodeInt 64 "-\x00".toUTF8.toList = .syntaxErr := by decide +kernel
example : decodeInt 64 "-01\x00".toUTF8.toList = .syntaxErr := by decide +kernel
example : decodeInt 64 "1.0\x00".toUTF8.toList = .typeErr := by decide +kernel
example : decodeInt 64 "1e2\x00".toUTF8.toList = .typeErr := by decide +kernel
example : decodeInt 64 "01\x00".toUTF8.toList = .skip 1 := by decide +kernel

end GoJson.Props.C16

namespace GoJson.Props.C16
open GoJson GoJson.Spec GoJson.Model.Int

/-- **Parsing, unsigned, exactness.** -/
theorem decodeUint_exact (bits : Nat) (hb : Width bits) (ws lit : List UInt8) (next : UInt8)
    (rest : List UInt8) (hws : ∀ b ∈ ws, isWs b = true) (hl : isJsonNat lit = true)
    (hn : isNumberContinuation next = false) :
    decodeUint bits (ws ++ (lit ++ next :: rest)) =
      if valNat lit < 2 ^ bits then .ok (valNat lit) (ws.length + lit.length) else .typeErr := by
  rw [decodeUint_ws bits ws _ 0 hws]
  simp only [Nat.zero_add]
  rcases isJsonNat_cases lit hl with rfl | ⟨d, ds, rfl, hd, h0, hds⟩
  · rw [List.cons_append, List.nil_append, decodeUint_zero bits next rest _ hn]
    have : 0 < 2 ^ bits := Nat.two_pow_pos bits
    simp [valNat, this]
  · rw [decodeUint_pos bits hb d ds next rest _ hd h0 hds hn]
    have e : ((valNat (d :: ds) : Int) < (2 ^ bits : Int)) ↔ valNat (d :: ds) < 2 ^ bits := by
      constructor
      · intro h; exact_mod_cast h
      · intro h; exact_mod_cast h
    by_cases h1 : valNat (d :: ds) < 2 ^ bits
    · simp [h1, e.mpr h1]
    · have : ¬ ((valNat (d :: ds) : Int) < (2 ^ bits : Int)) := fun h => h1 (e.mp h)
      simp [h1, this]

/-- **Parsing, unsigned, soundness.** A stored value is the exact value of an RFC 8259 natural
literal (no sign, no leading zero) that fits the width, and the number token ends there. -/
theorem decodeUint_sound (bits : Nat) (hb : Width bits) (s : List UInt8) (v : Int) (c : Nat)
    (h : decodeUint bits s = .ok v c) :
    ∃ ws lit next rest, s = ws ++ (lit ++ next :: rest) ∧ (∀ b ∈ ws, isWs b = true) ∧
      isJsonNat lit = true ∧ isNumberContinuation next = false ∧
      v = (valNat lit : Int) ∧ valNat lit < 2 ^ bits ∧ c = ws.length + lit.length := by
  obtain ⟨ws, lit, next, rest, e, hws, hl, hn⟩ := decodeUint_ok_shape bits s 0 v c h
  refine ⟨ws, lit, next, rest, e, hws, hl, hn, ?_⟩
  have := decodeUint_exact bits hb ws lit next rest hws hl hn
  rw [← e, h] at this
  by_cases hr : valNat lit < 2 ^ bits
  · simp only [hr, ↓reduceIte, Res.ok.injEq] at this
    exact ⟨this.1, hr, this.2⟩
  · simp [hr] at this

/-- **Round trip.** What the printer emits for a word, the decoder of the same width reads back as
the same value (followed by any byte that does not continue a number, e.g. `,` `]` `}` or NUL). -/
theorem int_roundtrip (bits : Nat) (hb : Width bits) (w : BitVec 64) (next : UInt8) (rest : List UInt8)
    (hn : isNumberContinuation next = false) :
    decodeInt bits (appendInt bits w ++ next :: rest) = .ok (sval bits w) (appendInt bits w).length := by
  have hlit : isJsonInt (appendInt bits w) = true ∧ valInt (appendInt bits w) = sval bits w := by
    rw [appendInt_exact bits hb w]
    exact ⟨isJsonInt_decInt _, valInt_decInt _⟩
  have := decodeInt_exact bits hb [] (appendInt bits w) next rest (by simp) hlit.1 hn
  simp only [List.nil_append, List.length_nil, Nat.zero_add] at this
  rw [this, hlit.2]
  have hr : InSigned bits (sval bits w) := by
    unfold InSigned sval uval
    have hlt : w.toNat % 2 ^ bits < 2 ^ bits := Nat.mod_lt _ (Nat.two_pow_pos bits)
    rcases hb with rfl | rfl | rfl | rfl <;> simp only [Nat.reduceSub, Nat.reducePow] at * <;>
      split <;> omega
  simp [hr]

example : decodeUint 64 "18446744073709551615,".toUTF8.toList = .ok 18446744073709551615 20 := by decide +kernel
example : decodeUint 64 "18446744073709551616,".toUTF8.toList = .typeErr := by decide +kernel
example : decodeUint 64 "99999999999999999999,".toUTF8.toList = .typeErr := by decide +kernel
example : decodeUint 8 "256,".toUTF8.toList = .typeErr := by decide +kernel
example : decodeUint 8 "-1,".toUTF8.toList = .typeErr := by decide +kernel

end GoJson.Props.C16
