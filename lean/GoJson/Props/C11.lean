/-
C11 — results depend only on the arguments, never on earlier calls.

The state that survives between calls is the pooled runtime context of the encoder and of the
decoder (and the option block of a Decoder's stream). What an entry point writes to and reads from
that state, in order, is generated from the source on every run (GoJson.Gen.Flows, by
tools/extract/flow.go: the bodies of encode.go, decode.go and the context.go files, calls between
them inlined, the reads of the interpreters and decoders collected from their packages).

`noninterference`: a program that reads only fields it has written earlier in the same call reads
the same values whatever context it is handed — so its result, a function of the arguments and of
those reads, does not depend on the history that left the context behind.
`every_entry_point_defines_before_use`: the generated flow of every entry point of the package is
such a program (a decidable check, evaluated by the kernel on the generated data).
`entry_points_do_not_see_the_pool`: the two combined.
`old_marshal_sees_stale_context`: the flow of `marshal` before the repair of finding D69 (only
Option.Flag reset) is not, with two contexts on which it reads different values.

Exception, stated in `scratch`: `Ptrs`, the slot array, is reused as it is; its contents are covered
by the slot discipline of C08 (the verif build reports a load of a slot that was not stored in the
same call). Not covered by the flows: the contents of pooled buffers beyond their length, MapContext
objects and the decoders' slice pools — for these the harness poisons every pooled object when it
goes back to its pool (verif hook VerifPoisonPools) and compares with a cold process.
-/
import GoJson.Lemmas.Flow1
import GoJson.Gen.Flows

namespace GoJson.Props.C11
open GoJson.Model.Flow GoJson.Gen

/-- fields whose old contents an entry point may see by design -/
def scratch : List Nat := [flowField_e_Ptrs]

/-- the flattened program of entry point `g` -/
def program (g : Nat) : Option (List Instr) := flatten flowTable flowRunReads 6 [.call g]

def entryOK (g : Nat) : Bool :=
  match program g with
  | some p => check scratch p
  | none => false

/-- the entry points of the package that take a context from a pool -/
def entries : List Nat :=
  [flowId_root_marshal, flowId_root_marshalContext, flowId_root_marshalNoEscape, flowId_root_marshalIndent,
   flowId_root_Encoder_Encode, flowId_root_Encoder_EncodeWithOption, flowId_root_Encoder_EncodeContext,
   flowId_root_unmarshal, flowId_root_unmarshalContext, flowId_root_unmarshalNoEscape, flowId_root_extractFromPath,
   flowId_root_Decoder_Decode, flowId_root_Decoder_DecodeWithOption, flowId_root_Decoder_DecodeContext]

/-- **Non-interference**: what a call reads from its context does not depend on the context it
gets, if it reads only what it wrote (or scratch fields, on which the two contexts are taken equal) -/
theorem noninterference (wval : Nat → Nat → List Val → Val) (p : List Instr)
    (h : check scratch p = true) (c1 c2 : Ctx) (hs : ∀ f ∈ scratch, c1 f = c2 f) :
    exec wval c1 p 0 [] = exec wval c2 p 0 [] :=
  exec_agree wval p scratch c1 c2 0 [] hs h

/-- **Every entry point defines before it uses**, on the flows generated from the current source -/
theorem every_entry_point_defines_before_use : entries.all entryOK = true := by decide +kernel

/-- the two together -/
theorem entry_points_do_not_see_the_pool (g : Nat) (hg : g ∈ entries) :
    ∃ p, program g = some p ∧ ∀ wval c1 c2, (∀ f ∈ scratch, c1 f = c2 f) →
      exec wval c1 p 0 [] = exec wval c2 p 0 [] := by
  have h := List.all_eq_true.mp every_entry_point_defines_before_use g hg
  unfold entryOK at h
  cases hp : program g with
  | none => rw [hp] at h; cases h
  | some p =>
    rw [hp] at h
    exact ⟨p, rfl, fun wval c1 c2 hs => noninterference wval p h c1 c2 hs⟩

/-- the flows are not trivial: Marshal's program has reads, and they include the option fields -/
example : ∃ p, program flowId_root_marshal = some p ∧ p.length > 20 ∧
    Instr.read (flowField_e_Option_Context) ∈ p := by decide +kernel

/-- **Finding D69, on the flow of the old code**: `marshal` reset Option.Flag only, then ran the
option functions and the interpreter, which reads Option.Context -/
def oldMarshal : List Instr :=
  let flag := flowField_e_Option_Flag
  let ctx := flowField_e_Option_Context
  [.write flag, .read flag, .write flag, .read ctx]

theorem old_marshal_sees_stale_context :
    check scratch oldMarshal = false ∧
    ∃ c1 c2 : Ctx, exec (fun _ _ _ => 0) c1 oldMarshal 0 [] ≠ exec (fun _ _ _ => 0) c2 oldMarshal 0 [] := by
  refine ⟨by decide +kernel, fun _ => 1, fun _ => 2, ?_⟩
  decide +kernel

end GoJson.Props.C11
