/-
C17 — string escaping and unescaping are faithful for every byte sequence.
Property theorems only; helper lemmas live in GoJson.Lemmas.*.
-/
import GoJson.Lemmas.Escape
import GoJson.Lemmas.SwarFinal
import GoJson.Lemmas.StrDec2

namespace GoJson.Props.C17
open GoJson GoJson.Spec GoJson.Model.Str GoJson.Model.StrDec

/-- **The rune decoder is UTF-8.** For every non-empty byte string the table-driven state machine
classifies the head exactly as the standard's table of well-formed sequences does. -/
theorem decodeRune_is_utf8 (s0 : UInt8) (t : List UInt8) : decodeRune (s0 :: t) = runeSpec (s0 :: t) :=
  decodeRune_spec s0 t

/-- **SWAR scan = byte scan**, for every string, length and alignment. -/
theorem swar_exact (html norm : Bool) (s : List UInt8) : escape html norm s = escapeRef html norm s :=
  escape_eq_ref html norm s

/-- **Escaping is faithful (UTF-8 normalisation on).** For every byte string and either HTML setting,
the emitted literal is a quote, the rendering of RFC-8259-well-formed items, a quote; the items
denote the input with every ill-formed byte replaced by U+FFFD; none is a surrogate escape. -/
theorem escape_faithful_norm (html : Bool) (s : List UInt8) :
    ∃ items, escape html true s = 34 :: renderAll items ++ [34] ∧ (∀ i ∈ items, GoodItem html i) ∧
      sem items = coerceUtf8 s := by
  obtain ⟨items, hr, hg, hs⟩ := slow_sound_norm html s
  exact ⟨items, by rw [escape_eq_ref, escapeRef, hr], hg, hs⟩

/-- **Escaping is faithful (normalisation off).** The items denote the input bytes verbatim. -/
theorem escape_faithful_raw (html : Bool) (s : List UInt8) :
    ∃ items, escape html false s = 34 :: renderAll items ++ [34] ∧ (∀ i ∈ items, GoodItem html i) ∧
      sem items = s := by
  obtain ⟨items, hr, hg, hs⟩ := slow_sound_raw html s
  exact ⟨items, by rw [escape_eq_ref, escapeRef, hr], hg, hs⟩

/-- **No raw control character, and with HTML escaping no raw `<`, `>`, `&`**, in the body of any
literal built from good items — hence in every literal the escaper emits. -/
theorem good_body_bytes (html : Bool) (items : List Item) (hg : ∀ i ∈ items, GoodItem html i) :
    ∀ b ∈ renderAll items, 0x20 ≤ b.toNat ∧ (html = true → b ≠ 60 ∧ b ≠ 62 ∧ b ≠ 38) := by
  intro b hb
  simp only [renderAll, List.mem_flatMap] at hb
  obtain ⟨it, hit, hbr⟩ := hb
  obtain ⟨hwf, _, hraw⟩ := hg it hit
  cases it with
  | raw c =>
    simp only [Item.render, List.mem_singleton] at hbr
    subst hbr
    simp only [Item.wf, Bool.not_true, Bool.false_or, Bool.and_eq_true, bne_iff_ne, ne_eq,
      decide_eq_true_eq] at hwf
    exact ⟨hwf.2, hraw b rfl⟩
  | simple e =>
    simp only [Item.render, List.mem_cons, List.mem_nil_iff, or_false] at hbr
    simp only [Item.wf, isSimpleLetter, Bool.or_eq_true, beq_iff_eq] at hwf
    rcases hbr with rfl | rfl
    · exact ⟨by decide, fun _ => by decide⟩
    · rcases hwf with ((((((rfl | rfl) | rfl) | rfl) | rfl) | rfl) | rfl) | rfl <;>
        exact ⟨by decide, fun _ => by decide⟩
  | uni h1 h2 h3 h4 =>
    simp only [Item.render, List.mem_cons, List.mem_nil_iff, or_false] at hbr
    simp only [Item.wf, Bool.and_eq_true] at hwf
    have hx : ∀ h : UInt8, isHexDigit h = true → 0x20 ≤ h.toNat ∧ (html = true → h ≠ 60 ∧ h ≠ 62 ∧ h ≠ 38) := by
      intro h hh
      simp only [isHexDigit, Bool.or_eq_true, Bool.and_eq_true, decide_eq_true_eq] at hh
      refine ⟨by omega, fun _ => ⟨?_, ?_, ?_⟩⟩ <;>
        (intro hc; have := congrArg UInt8.toNat hc; simp at this; omega)
    rcases hbr with rfl | rfl | rfl | rfl | rfl | rfl
    · exact ⟨by decide, fun _ => by decide⟩
    · exact ⟨by decide, fun _ => by decide⟩
    · exact hx _ hwf.1.1.1
    · exact hx _ hwf.1.1.2
    · exact hx _ hwf.1.2
    · exact hx _ hwf.2

/-- **Decoding a literal yields its meaning.** For every list of well-formed items (all simple
escapes, `\u` escapes of any class, surrogate pairs, lone surrogates, raw bytes) the buffer-mode
string decoder, after any white space, returns exactly `sem items` and consumes exactly the literal. -/
theorem decode_literal_exact (ws : List UInt8) (items : List Item) (rest : List UInt8)
    (hws : ∀ b ∈ ws, Model.StrDec.isWs b = true) (hw : ∀ i ∈ items, i.wf true = true) :
    decodeString (ws ++ 34 :: (renderAll items ++ 34 :: rest)) =
      .ok (sem items) (ws.length + (renderAll items).length + 2) := by
  rw [decodeString_ws ws _ 0 hws, decodeString_literal items rest _ hw]
  simp

theorem wf_strict_imp (i : Item) (h : i.wf true = true) : i.wf false = true := by
  cases i with
  | raw b => simp [Item.wf] at h ⊢; exact ⟨⟨h.1.1.1, h.1.1.2⟩, h.1.2⟩
  | simple e => simpa [Item.wf] using h
  | uni _ _ _ _ => simpa [Item.wf] using h

/-- **Round trip.** What the escaper emits (normalisation on, either HTML setting), go-json's own
decoder reads back as the UTF-8-coerced input — for every byte string. -/
theorem escape_decode_roundtrip (html : Bool) (s rest : List UInt8) :
    ∃ n, decodeString (escape html true s ++ rest) = .ok (coerceUtf8 s) n := by
  obtain ⟨items, he, hg, hs⟩ := escape_faithful_norm html s
  have := decode_literal_exact [] items rest (by simp) (fun i hi => (hg i hi).1)
  simp only [List.nil_append, List.length_nil, Nat.zero_add] at this
  refine ⟨(renderAll items).length + 2, ?_⟩
  rw [he, ← hs, ← this]
  simp

/-- Known finding D35, machine-checked: with HTML escaping on and normalisation off the line
separator passes through raw. -/
theorem html_without_norm_keeps_separator :
    escape true false [0xE2, 0x80, 0xA8] = [34, 0xE2, 0x80, 0xA8, 34] := by decide +kernel

/-- non-vacuity / sanity -/
example : escape true true "a< \"".toUTF8.toList = "\"a\\u003c\\u2028\\\"\"".toUTF8.toList := by decide +kernel
example : decodeString "\"\\ud83d\\ude00\\ud800x\"".toUTF8.toList = .ok [0xF0, 0x9F, 0x98, 0x80, 0xEF, 0xBF, 0xBD, 120] 21 := by
  decide +kernel

end GoJson.Props.C17
