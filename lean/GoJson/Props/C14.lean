/-
C14 — a value is always processed by the program compiled for its own type.
-/
import GoJson.Model.Cache

namespace GoJson.Props.C14
open GoJson.Model.Cache

/-- The layout hypothesis about the Go linker / runtime (checked on the real binary by the
harness, not proved): type descriptors are 32-byte aligned and at least 48 bytes long, so two
different descriptors do not overlap. -/
def Layout (a b : Nat) : Prop := a % 32 = 0 ∧ b % 32 = 0 ∧ (a + 48 ≤ b ∨ b + 48 ≤ a)

/-- under the layout hypothesis two descriptors are at least 64 bytes apart -/
theorem layout_dist (a b : Nat) (h : Layout a b) : a + 64 ≤ b ∨ b + 64 ≤ a := by
  obtain ⟨ha, hb, hd⟩ := h
  omega

theorem shiftOf_cases (s : Scan) : shiftOf s = 0 ∨ shiftOf s = 5 ∨ shiftOf s = 6 := by
  unfold shiftOf
  split
  · right; right; rfl
  · split
    · right; left; rfl
    · left; rfl

/-- the analysis only ever chooses the shifts 0, 5 and 6 -/
theorem analyze_shift (l : List (Nat × Option Nat)) (ta : TypeAddr) (h : analyze l = some ta) :
    ta.shift = 0 ∨ ta.shift = 5 ∨ ta.shift = 6 := by
  unfold analyze at h
  simp only at h
  split at h
  · simp at h
  · split at h
    · simp at h
    · simp only [Option.some.injEq] at h
      subst h
      exact shiftOf_cases _

/-- … and never a table of more than 2^21 + 1 slots; `range = max - base` -/
theorem analyze_size (l : List (Nat × Option Nat)) (ta : TypeAddr) (h : analyze l = some ta) :
    cacheSize ta ≤ maxAcceptable + 1 ∧ ta.range = ta.max - ta.base ∧ ta.range ≠ 0 := by
  unfold analyze at h
  simp only at h
  split at h
  · simp at h
  · rename_i hr
    split at h
    · simp at h
    · rename_i hs
      simp only [Option.some.injEq] at h
      subst h
      simp only [cacheSize]
      refine ⟨by omega, trivial, by simpa using hr⟩

/-- **The fast path never indexes outside the table** (both bounds are checked; this is the
decoder defect D27, repaired). -/
theorem index_in_range (ta : TypeAddr) (hr : ta.range = ta.max - ta.base) (a i : Nat) (h : index ta a = some i) :
    i < cacheSize ta ∧ ta.base ≤ a ∧ a ≤ ta.max := by
  unfold index at h
  split at h
  · simp at h
  · rename_i hg
    simp only [Bool.or_eq_true, decide_eq_true_eq, not_or, Nat.not_lt] at hg
    simp only [Option.some.injEq] at h
    subst h
    refine ⟨?_, hg.2, hg.1⟩
    unfold cacheSize
    rw [hr]
    have : (a - ta.base) / 2 ^ ta.shift ≤ (ta.max - ta.base) / 2 ^ ta.shift :=
      Nat.div_le_div_right (by omega)
    omega

/-- **Injectivity of the index**: two different descriptors that are at least 2^shift apart
(Layout gives 64 ≥ 2^shift for every shift the analysis can choose) never share a slot,
whatever the alignment of the base address. -/
theorem index_injective (ta : TypeAddr) (hs : ta.shift = 0 ∨ ta.shift = 5 ∨ ta.shift = 6) (a b i j : Nat)
    (ha : index ta a = some i) (hb : index ta b = some j) (hd : a + 64 ≤ b ∨ b + 64 ≤ a) : i ≠ j := by
  unfold index at ha hb
  split at ha
  · simp at ha
  · rename_i hga
    split at hb
    · simp at hb
    · rename_i hgb
      simp only [Bool.or_eq_true, decide_eq_true_eq, not_or, Nat.not_lt] at hga hgb
      simp only [Option.some.injEq] at ha hb
      subst ha hb
      rcases hs with h | h | h <;> rw [h] <;> simp only [Nat.pow_zero, Nat.div_one, Nat.reducePow] <;> omega

/-! ### the cache refines the map `type ↦ program compiled for that type` -/

/-- every cached program sits in the slot / under the key of the type it was compiled for -/
def Inv (ta : TypeAddr) (st : State) : Prop :=
  (∀ p ∈ st.slots, index ta p.2 = some p.1) ∧ (∀ p ∈ st.map, p.1 = p.2)

theorem lookupKey_mem (l : List (Nat × Nat)) (k v : Nat) (h : lookupKey l k = some v) : (k, v) ∈ l := by
  unfold lookupKey at h
  cases hf : l.find? (fun p => p.1 == k) with
  | none => simp [hf] at h
  | some p =>
    simp only [hf, Option.some.injEq] at h
    have hm := List.mem_of_find?_eq_some hf
    have hk := List.find?_some hf
    simp only [beq_iff_eq] at hk
    rw [← h, ← hk]; exact hm

theorem inv_empty (ta : TypeAddr) : Inv ta State.empty := by
  constructor <;> intro p hp <;> cases hp

/-- **One step**: under the invariant, and with all types ever used pairwise ≥ 64 bytes apart, a
look-up for type `t` returns the program compiled for `t`, and keeps the invariant. -/
theorem get_correct (ta : TypeAddr) (hs : ta.shift = 0 ∨ ta.shift = 5 ∨ ta.shift = 6) (st : State) (t : Nat)
    (hinv : Inv ta st)
    (hfar : ∀ p ∈ st.slots, p.2 = t ∨ (p.2 + 64 ≤ t ∨ t + 64 ≤ p.2)) :
    (lookup ta st t).1 = t ∧ Inv ta (lookup ta st t).2 := by
  unfold lookup
  cases hi : index ta t with
  | some i =>
    simp only
    cases hl : lookupKey st.slots i with
    | some p =>
      simp only
      refine ⟨?_, hinv⟩
      have hm := lookupKey_mem _ _ _ hl
      have hidx := hinv.1 (i, p) hm
      rcases hfar (i, p) hm with h | h
      · exact h
      · exact absurd rfl (index_injective ta hs p t i i hidx hi h)
    | none =>
      refine ⟨rfl, ?_, hinv.2⟩
      intro p hp
      simp only [List.mem_cons] at hp
      rcases hp with rfl | hp
      · exact hi
      · exact hinv.1 p hp
  | none =>
    simp only
    cases hl : lookupKey st.map t with
    | some p =>
      simp only
      have hm := lookupKey_mem _ _ _ hl
      exact ⟨(hinv.2 (t, p) hm).symm, hinv⟩
    | none =>
      refine ⟨rfl, hinv.1, ?_⟩
      intro p hp
      simp only [List.mem_cons] at hp
      rcases hp with rfl | hp
      · rfl
      · exact hinv.2 p hp

/-- every program ever cached was compiled for one of the requested types -/
def SlotsFrom (st : State) (ts : List Nat) : Prop := ∀ p ∈ st.slots, p.2 ∈ ts

theorem get_slotsFrom (ta : TypeAddr) (st : State) (t : Nat) (ts : List Nat) (h : SlotsFrom st ts) :
    SlotsFrom (lookup ta st t).2 (t :: ts) := by
  unfold lookup
  cases index ta t with
  | some i =>
    simp only
    cases lookupKey st.slots i with
    | some p => intro q hq; exact List.mem_cons_of_mem _ (h q hq)
    | none =>
      intro q hq
      simp only [List.mem_cons] at hq
      rcases hq with rfl | hq
      · simp
      · exact List.mem_cons_of_mem _ (h q hq)
  | none =>
    simp only
    cases lookupKey st.map t with
    | some p => intro q hq; exact List.mem_cons_of_mem _ (h q hq)
    | none => intro q hq; exact List.mem_cons_of_mem _ (h q hq)

/-- **Any history**: starting from an empty cache, for every sequence of look-ups over types that
are pairwise equal or ≥ 64 bytes apart, each look-up returns the program of the requested type
(hot or cold, slice path or map path, whatever was processed before). -/
theorem history_correct (ta : TypeAddr) (hs : ta.shift = 0 ∨ ta.shift = 5 ∨ ta.shift = 6)
    (univ : List Nat) (hfar : ∀ a ∈ univ, ∀ b ∈ univ, a = b ∨ (a + 64 ≤ b ∨ b + 64 ≤ a))
    (ts : List Nat) (hts : ∀ t ∈ ts, t ∈ univ) (st : State) (hinv : Inv ta st)
    (hfrom : ∀ p ∈ st.slots, p.2 ∈ univ) :
    ∀ k, k < ts.length →
      ((ts.take (k + 1)).foldl (fun (acc : Nat × State) t => lookup ta acc.2 t) (0, st)).1 = ts[k]! := by
  induction ts generalizing st with
  | nil => intro k hk; simp at hk
  | cons t ts ih =>
    intro k hk
    have ht : t ∈ univ := hts t (by simp)
    have hfar' : ∀ p ∈ st.slots, p.2 = t ∨ (p.2 + 64 ≤ t ∨ t + 64 ≤ p.2) :=
      fun p hp => hfar p.2 (hfrom p hp) t ht
    obtain ⟨hres, hinv'⟩ := get_correct ta hs st t hinv hfar'
    have hfrom' : ∀ p ∈ (lookup ta st t).2.slots, p.2 ∈ univ := by
      have := get_slotsFrom ta st t univ (fun p hp => hfrom p hp)
      intro p hp
      have := this p hp
      simp only [List.mem_cons] at this
      rcases this with h | h
      · rw [h]; exact ht
      · exact h
    cases k with
    | zero =>
      simp only [Nat.zero_add, List.take_succ_cons, List.take_zero, List.foldl_cons, List.foldl_nil]
      simpa using hres
    | succ k =>
      simp only [List.take_succ_cons, List.foldl_cons]
      have := ih (fun x hx => hts x (by simp [hx])) (lookup ta st t).2 hinv' hfrom' k (by simp at hk; omega)
      -- the accumulator's first component does not influence later steps
      have hacc : ∀ (l : List Nat) (a b : Nat) (s : State),
          l ≠ [] → (l.foldl (fun (acc : Nat × State) t => lookup ta acc.2 t) (a, s)).1 =
            (l.foldl (fun (acc : Nat × State) t => lookup ta acc.2 t) (b, s)).1 := by
        intro l a b s hl
        cases l with
        | nil => exact absurd rfl hl
        | cons x xs => simp [List.foldl_cons]
      have hne : List.take (k + 1) ts ≠ [] := by
        have : ts ≠ [] := by intro h; subst h; simp at hk
        cases ts with
        | nil => exact absurd rfl this
        | cons x xs => simp
      rw [hacc _ _ 0 _ hne]
      simpa using this

/-- non-vacuity: a concrete layout, analysed and indexed by the kernel -/
example : analyze [(4096, none), (4160, some 4224), (4352, none)] =
    some { base := 4096, max := 4352, range := 256, shift := 6 } := by decide
example : index { base := 4096, max := 4352, range := 256, shift := 6 } 4224 = some 2 := by decide
example : index { base := 4096, max := 4352, range := 256, shift := 6 } 4000 = none := by decide

end GoJson.Props.C14
