/-
C12 — no aliasing between caller data and library buffers.

Three kinds of statement.

(1) Facts about the source, regenerated on every run by tools/extract/alias.go and compared here
with what the argument below relies on (a different list breaks the theorem, and with it the check):
  * the decode entry points use the caller's slice `data` only in `len(data)` and as the source of
    one `copy` into a slice they have just made (`input_only_copied`): nothing reads it later,
    nothing writes it, nothing that is returned or stored can refer to it;
  * the marshal functions return `copied`, a slice made in the function and filled by one `copy`
    from the pooled buffer (`marshal_returns_fresh_copy`);
  * every Unmarshaler / TextUnmarshaler call in stream mode is handed a slice made and copied in the
    same function; in buffer mode the private copy of the input (`callbacks_get_private_bytes`);
  * the statements that store into a Decoder's window are exactly those the model below has
    operations for (`stream_write_sites_are_modelled`).

(2) A theorem about the stream window (`Model.Alias`): decoded stream strings are views into the
window. For every sequence of operations of the stream machine — reads with or without a new
array, resets, string literals with any number of escapes and ill-formed bytes — no operation ever
stores into a literal handed out earlier (`earlier_stream_strings_are_never_written`).

(3) What the Go runtime makes of it is observed by execution (harness c12.go): inputs overwritten
after the call, pools recycled by calls of every size, returned slices overwritten to their full
capacity.
-/
import GoJson.Lemmas.Alias1
import GoJson.Gen.Alias

namespace GoJson.Props.C12
open GoJson.Model.Alias GoJson.Gen

/-- **The caller's input is only ever the source of a copy.** -/
theorem input_only_copied :
    aliasDataUses =
      [("unmarshal", ["len(data)", "copy(src, data)"]),
       ("unmarshalContext", ["len(data)", "copy(src, data)"]),
       ("extractFromPath", ["len(data)", "copy(root, data)", "len(data)", "copy(src, data)"]),
       ("unmarshalNoEscape", ["len(data)", "copy(src, data)"])] := by decide

/-- **Every Marshal function returns a slice it has just made.** -/
theorem marshal_returns_fresh_copy :
    aliasReturns.all (fun e =>
      e.2.1 == ["return nil, err", "return copied, nil"] &&
      e.2.2 == ["copied := make([]byte, len(buf))", "copy(copied, buf)"]) = true ∧
    aliasReturns.map (·.1) = ["marshalContext", "marshal", "marshalNoEscape", "marshalIndent"] := by decide

/-- **Callbacks never see the caller's bytes or the stream window**: how the argument of every
UnmarshalJSON / UnmarshalText call is made — a slice made in the function and filled by `copy`
(`dst := make…`), or, in buffer mode only, a part of the decoder's private copy of the input
(`src := buf[start:end]`) -/
theorem callbacks_get_private_bytes :
    aliasCallbackArgs.map (fun e => (e.1, e.2.2)) =
      [("decodeStreamTextUnmarshaler", "dst := make([]byte, len(src)) ; dst, ok := unquoteBytes(dst)"),
       ("decodeStreamUnmarshaler", "dst := make([]byte, len(src))"),
       ("decodeStreamUnmarshalerContext", "dst := make([]byte, len(src))"),
       ("decodeTextUnmarshaler", "s, ok := unquoteBytes(src)"),
       ("decodeUnmarshaler", "dst := make([]byte, len(src))"),
       ("decodeUnmarshalerContext", "dst := make([]byte, len(src))"),
       ("unmarshalJSONDecoder.Decode", "dst := make([]byte, len(src))"),
       ("unmarshalJSONDecoder.Decode", "dst := make([]byte, len(src))"),
       ("unmarshalJSONDecoder.DecodeStream", "dst := make([]byte, len(src))"),
       ("unmarshalJSONDecoder.DecodeStream", "dst := make([]byte, len(src))"),
       ("unmarshalTextDecoder.Decode", "src := buf[start:end] ; src = s"),
       ("unmarshalTextDecoder.DecodeStream", "dst := make([]byte, len(src)) ; dst = b")] := by decide

/-- the model operation that stands for a statement storing into the window -/
def opOfSite (e : String × String) : String :=
  if e.1 == "Stream.read" then "read"                     -- NUL + reader bytes behind the data
  else if e.1 == "Stream.readBuf" then "read(grow)"       -- make + copy: a new array
  else if e.1 == "Stream.reset" then "reset"              -- re-slice, no store
  else if e.1 == "decodeEscapeString" || e.1 == "decodeUnicode" then "escape"
  else if e.1 == "stringBytes" then "badRune"             -- append([]byte{}, …): a new array
  else "unmodelled"

/-- **The statements that store into a Decoder's window are the modelled ones.** -/
theorem stream_write_sites_are_modelled :
    (aliasStreamWrites.map opOfSite).all (· != "unmodelled") = true ∧
    (aliasStreamWrites.map (·.1)).eraseDups =
      ["Stream.read", "Stream.readBuf", "Stream.reset", "decodeEscapeString", "decodeUnicode", "stringBytes"] ∧
    aliasStreamWrites.length = 17 := by decide

/-- **Strings decoded earlier from a stream are never written again**: for every sequence of
operations of the stream machine, every store of every step misses every literal handed out before -/
theorem earlier_stream_strings_are_never_written (ops : List Op) : Stable init ops :=
  run_stable ops init inv_init

/-- one step, spelled out: the writes miss what was handed out, and the invariant carries on -/
theorem step_misses_handed_out (s : St) (op : Op) (h : Inv s) (s' : St) (ws : List Write)
    (hs : step s op = some (s', ws)) : ∀ w ∈ ws, ∀ r ∈ s.out, misses w r :=
  (step_safe s op h s' ws hs).1

/-- the operations are not vacuous: a run that reads, scans a literal with an escape, hands it
out, resets, reads into a grown array and scans another literal — every step applies -/
example :
    let ops := [Op.read 20 false, .beginString, .adv 3, .escape 1 4, .adv 2, .endString, .reset,
                .read 30 true, .adv 1, .beginString, .badRune, .adv 1, .endString]
    (ops.foldl (fun (acc : Option St) op => acc.bind (fun s => (step s op).map (·.1))) (some init)).map (·.out.length)
      = some 2 := by decide

/-- and the disjointness is not trivially true: a store at the cursor *before* a hand-out would hit
it — the model distinguishes the two orders -/
example : ¬ misses ⟨0, 3, 9⟩ ⟨0, 1, 6⟩ := by unfold misses; decide

end GoJson.Props.C12
