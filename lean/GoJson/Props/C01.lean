/-
C01 — Marshal agrees with encoding/json for every value of every supported type.

Agreement with another implementation cannot be a theorem about go-json alone. What is done:
encoding/json's rules are written down once, as the executable specification `GoJson.Model.Enc`
(value tree → bytes, with `omitempty`, the `string` option, nil / empty distinctions, pointers and
interfaces, sorted map keys, embedded raw JSON), and *both* implementations are tied to it by
differential execution on the type × value grammar of the harness: go-json (the property) and
encoding/json (the check that the rules were written down correctly). In addition go-json is
compared with encoding/json directly on everything the tree conversion does not cover (embedded
structs, marshalers with pointer receivers, …).

The theorems below are what the specification itself guarantees about "the same members in the same
order, the same string contents and the same number values": integer tokens denote exactly the
integer (C16), string tokens decode to exactly the string with invalid UTF-8 replaced (C17), an
`omitempty` member with an empty value is absent and every other member is present in order, and
pointers / interfaces are transparent.
-/
import GoJson.Props.C13
import GoJson.Props.C16
import GoJson.Props.C17

namespace GoJson.Props.C01
open GoJson GoJson.Spec GoJson.Model.Compact GoJson.Model.Enc

/-- the integer token denotes exactly the integer -/
theorem int_token_exact (html : Bool) (lay : Layout) (n : Nat) (i : Int) :
    ∃ t, enc html lay n (.int i) = some t ∧ isJsonInt t = true ∧ valInt t = i :=
  ⟨decInt i, by simp [enc], isJsonInt_decInt i, valInt_decInt i⟩

/-- the string token is a well-formed JSON string that decodes to the Go string, invalid UTF-8
replaced by U+FFFD -/
theorem string_token_exact (html : Bool) (lay : Layout) (n : Nat) (s : List UInt8) :
    ∃ items, enc html lay n (.str s) = some (34 :: renderAll items ++ [34]) ∧
      (∀ i ∈ items, i.wf true = true) ∧ sem items = coerceUtf8 s := by
  obtain ⟨items, hr, hg, hs⟩ := GoJson.Props.C17.escape_faithful_norm html s
  exact ⟨items, by simp [enc, hr], fun i hi => (hg i hi).1, hs⟩

/-- an `omitempty` member whose value is empty does not appear -/
theorem omitempty_member_absent (html : Bool) (lay : Layout) (n : Nat) (k : List UInt8) (q : Bool)
    (v : GV) (r : GMs) (h : isEmpty v = true) :
    encMs html lay n (.cons k true q v r) = encMs html lay n r := by
  simp [encMs, h]

/-- every other member appears, before the members that follow it -/
theorem member_present (html : Bool) (lay : Layout) (n : Nat) (k : List UInt8) (om : Bool)
    (v : GV) (r : GMs) (h : (om && isEmpty v) = false) (o : List UInt8) (os : List (List UInt8))
    (hv : enc html lay n v = some o) (hr : encMs html lay n r = some os) :
    encMs html lay n (.cons k om false v r) = some ((GoJson.Model.Str.escape html true k ++ colon lay ++ o) :: os) := by
  simp [encMs, h, hv, hr]

/-- what is empty: nil, false, 0, "", and containers without elements — a struct never, a non-nil
pointer never -/
theorem empty_values :
    isEmpty .null = true ∧ isEmpty (.bool false) = true ∧ isEmpty (.int 0) = true ∧
    isEmpty (.str []) = true ∧ isEmpty (.arr .nil) = true ∧ isEmpty (.obj true .nil) = true ∧
    isEmpty (.obj false .nil) = false ∧ (∀ v, isEmpty (.ptr v) = false) := by
  simp [isEmpty]

end GoJson.Props.C01
