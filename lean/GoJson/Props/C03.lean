/-
C03 — every successful encode is exactly one well-formed JSON text.

Proved about the encoder specification `GoJson.Model.Enc` (see C13 for how it is tied to the code):
whenever `Marshal` succeeds on a tree (no embedded raw JSON, nesting within the limit), its output is
one RFC 8259 value — accepted by the proved-exact model of `Compact`/`Valid` (C18), hence strict
numbers, strict strings without raw control characters, balanced brackets, no dangling comma. What
JSON cannot represent is an error by construction: a float or json.Number token that is not a JSON
number (NaN, ±Inf, "1.", "") and an embedded text (RawMessage, MarshalJSON result) that the validator
rejects produce no output.
-/
import GoJson.Props.C13

namespace GoJson.Props.C03
open GoJson GoJson.Spec GoJson.Model.Compact GoJson.Model.Enc

/-- **Marshal's output is one well-formed JSON text.** -/
theorem marshal_output_valid (html : Bool) (v : GV) (hr : noRaw v = true) (hd : height v ≤ maxDepth)
    (o : List UInt8) (h : marshal html v = some o) : ValidText Relax.none false maxDepth o :=
  run_valid none o o (GoJson.Props.C13.compact_marshal_fixed html v hr hd o h)

/-- a number token that is not a JSON number (NaN, +Inf, "1.", "abc" in a json.Number) is an error -/
theorem bad_number_is_error (html : Bool) (lay : Layout) (n : Nat) (t : List UInt8) (z : Bool)
    (h : isNumber t = false) : enc html lay n (.num t z) = none := by
  simp [enc, h]

/-- an embedded text that is not valid JSON (RawMessage, MarshalJSON result) is an error … -/
theorem bad_raw_is_error (html : Bool) (lay : Layout) (n : Nat) (t : List UInt8)
    (h : run html none t = none) : enc html lay n (.raw t) = none := by
  simp [enc, h]

/-- … and one that is accepted is a valid text, embedded in compacted form -/
theorem raw_is_validated (n : Nat) (t o : List UInt8) (h : enc false none n (.raw t) = some o) :
    ValidText Relax.none false maxDepth t ∧ run false none t = some o := by
  simp only [enc] at h
  cases hr : run false none t with
  | none => simp [hr] at h
  | some c =>
    simp only [hr, Option.some.injEq] at h
    subst h
    exact ⟨run_valid none t c hr, rfl⟩

/-- an error inside propagates: a container with a member that cannot be encoded has no output -/
theorem error_propagates_arr (html : Bool) (lay : Layout) (n : Nat) (v : GV) (r : GVs)
    (h : enc html lay (n + 1) v = none) : enc html lay n (.arr (.cons v r)) = none := by
  simp [enc, encEs, h]

end GoJson.Props.C03
