/-
C04 — Marshal followed by Unmarshal reproduces the value.

The encoder specification (`Model.Enc`, tied to go-json and to encoding/json by differential
execution: C01, C13) and the model of decoding into interface{} with the values built (`Model.Dec`,
the recogniser proved exact in C05 extended with the tree it produces, tied to the code by
differential execution in C02's check) are joined by one theorem: decoding the encoding of any value
tree gives back exactly that tree —

* the same nesting, the same elements in the same order, the same members in the same order with
  `omitempty`-empty members absent,
* every integer as the number token that denotes it (C16), every float / json.Number token unchanged,
* every string and every member name as its bytes with ill-formed UTF-8 replaced by U+FFFD (C17) —

for every tree without embedded raw JSON and without the `string` option, nested within the two
depth limits, whatever follows the text. In particular `Unmarshal(Marshal(v))` into an interface{}
succeeds for every such value: the encoder never produces what the decoder rejects.

Round trips into typed destinations (every integer width, floats that need 17 digits, nil versus
empty containers, Encoder/Decoder streams, MarshalIndent) are checked on the implementation by the
harness with reflect.DeepEqual.
-/
import GoJson.Lemmas.Dec5

namespace GoJson.Props.C04
open GoJson GoJson.Spec GoJson.Model.Enc GoJson.Model.Dec

/-- **decode ∘ encode = id on value trees**, at any position of a larger text -/
theorem decode_encode_value (html : Bool) (v : GV) (n d f : Nat) (o rest : List UInt8)
    (hp : plain v = true) (hn : n + height v ≤ Model.Compact.maxDepth)
    (hd : d + height v ≤ Model.BufDec.maxDepth) (he : enc html none n v = some o)
    (hf : need v ≤ f) (hs : Stop rest) :
    value false f d (o ++ rest) = .ok (toJT v) rest :=
  value_enc html v n d f o rest hp hn hd he hf hs

/-- **Unmarshal(Marshal(v)) succeeds and yields the value** (with the fuel the model really uses) -/
theorem unmarshal_marshal (html : Bool) (v : GV) (o : List UInt8) (hp : plain v = true)
    (hh : height v ≤ 10000) (he : marshal html v = some o) :
    unmarshal false o = some (toJT v) := by
  have hn : 0 + height v ≤ Model.Compact.maxDepth := by rw [Model.Compact.maxDepth_val]; omega
  have hd : 0 + height v ≤ Model.BufDec.maxDepth := by rw [Model.BufDec.maxDepth_val]; omega
  have hneed := need_le_len html v 0 o hp he
  have := value_enc html v 0 0 (2 * o.length + 4) o [0] hp hn hd he (by omega) ⟨0, [], rfl, Or.inr (Or.inr (Or.inr rfl))⟩
  unfold unmarshal
  rw [this]
  simp [Model.BufDec.skipWs, Model.BufDec.wsTbl_spec, isWsByte]

/-- the round trip is the same with and without HTML escaping: the decoded tree does not depend on
the spelling of `<`, `>`, `&` -/
theorem roundtrip_independent_of_html (v : GV) (o1 o2 : List UInt8) (hp : plain v = true)
    (hh : height v ≤ 10000) (h1 : marshal true v = some o1) (h2 : marshal false v = some o2) :
    unmarshal false o1 = unmarshal false o2 := by
  rw [unmarshal_marshal true v o1 hp hh h1, unmarshal_marshal false v o2 hp hh h2]

end GoJson.Props.C04
