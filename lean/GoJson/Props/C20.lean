/-
C20 — JSON Path extraction is a pure, correct function of path and document.

Proved here: (1) the recursive path builder never indexes an empty slice on any text, and its
"remain invalid path" check is dead code, so acceptance is decided by the recursive functions alone;
(2) the walk that `Extract` performs over a document (current node = head of the selector list,
`Field` / `Index` per node kind, the nil child, the recursive-descent flag and the re-scan of a
matched member's value) returns exactly what the compositional reference semantics selects, in
document order, for every selector list and every document.

Both models are functions of their arguments alone. That the implementation is too (no state kept in
the shared `Path` between calls: defect D25, repaired by walking a copy) is checked by histories and
concurrent calls in the harness; the builder and the walk are tied to the code by differential
execution on every path text up to a length bound and on generated documents.
-/
import GoJson.Lemmas.Path1
import GoJson.Lemmas.Path2

namespace GoJson.Props.C20
open GoJson.Model.Path

/-- **Malformed path text never panics**: for every rune sequence the builder returns a path or an
error. (Lean also checked that the builder terminates: it is a total function.) -/
theorem createPath_never_panics (text : List Nat) : build text ≠ .panic := build_no_panic text

/-- acceptance is decided by the recursive builder alone: the trailing "remain invalid path" test
can never fire -/
theorem createPath_accepts_iff (c : Nat) (r : List Nat) (hr : r ≠ []) (sels : List Sel) :
    build (c :: r) = .ok sels ↔ c = cDollar ∧ ∃ o, go .next r = .ok o sels := build_ok_iff c r hr sels

/-- **Extract returns exactly what the reference evaluation selects, in document order.** -/
theorem extract_eq_reference (sels : List Sel) (doc : JV) : extract sels doc = eval sels doc := by
  cases sels with
  | nil => rfl
  | cons s rest => exact walk_eval doc s rest

/-- the reference semantics is compositional: a path is the composition of its parts -/
theorem eval_append (a b : List Sel) (v : JV) : eval (a ++ b) v = (eval a v).flatMap (eval b) := by
  induction a generalizing v with
  | nil => simp [eval]
  | cons s rest ih =>
    simp only [List.cons_append, eval, List.flatMap_assoc]
    congr 1
    funext x
    exact ih x

/-- hence so is `Extract`: extracting with `a ++ b` is extracting with `b` from everything `a` selects -/
theorem extract_append (a b : List Sel) (doc : JV) :
    extract (a ++ b) doc = (extract a doc).flatMap (extract b) := by
  rw [extract_eq_reference, eval_append, extract_eq_reference]
  congr 1
  funext x
  exact (extract_eq_reference b x).symm

/-- a selector applied to a scalar selects nothing (defect repaired: `$.a.b` on `{"a":"s"}` used to
return `s`) -/
theorem scalar_selects_nothing (s : Sel) (rest : List Sel) (raw : List UInt8) :
    extract (s :: rest) (.scalar raw) = [] := by
  simp [extract, walk]

end GoJson.Props.C20
