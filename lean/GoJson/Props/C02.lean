/-
C02 — Unmarshal agrees with encoding/json on every valid document and target.

As for C01, agreement with another implementation is established by differential execution
(harness c02.go: destination types from the generator grammar plus Unmarshaler / TextUnmarshaler
implementers; documents generated from the type, with numbers at and beyond every range boundary,
every escape class, case variants, unknown and duplicate keys, wrong kinds, nulls; zero and
pre-populated destinations; Unmarshal, Decoder, UseNumber, DisallowUnknownFields; error parity and
reflect.DeepEqual). The Lean part covers the destination every other one builds on, interface{}:

* `Model.Dec` is the decoder into interface{} with the values built; it is tied to the code by
  differential execution (the decoded tree, with UseNumber so that number tokens are compared
  exactly);
* building the values changes nothing about acceptance: a value is produced exactly for the texts of
  the grammar of C05 (`unmarshal_iff_grammar`), so error parity on interface{} destinations reduces
  to C05;
* what is produced for the encoding of a value tree is that tree (C04).
-/
import GoJson.Lemmas.Dec6
import GoJson.Props.C05

namespace GoJson.Props.C02
open GoJson GoJson.Spec GoJson.Model.Dec

/-- **Unmarshal into interface{} yields a value exactly for the texts of the grammar** (white space,
one value nested at most 10000 deep with every number in float64 range, white space) -/
theorem unmarshal_iff_grammar (range : Bool) (b : List UInt8) :
    (unmarshal range b).isSome = true ↔ ValidText Model.BufDec.rxCurrent range Model.BufDec.maxDepth b := by
  rw [unmarshal_isSome]
  exact GoJson.Props.C05.accepts_iff range b

/-- the tree builder and the recogniser stop at the same place in every sub-value -/
theorem tree_building_is_transparent (range : Bool) (fuel d : Nat) (s : List UInt8) :
    eraseV (value range fuel d s) = Model.BufDec.value range fuel d s :=
  (erase_all range fuel).1 d s

/-- an empty object and an empty array decode to empty containers, not to null (nil versus empty) -/
example : (match unmarshal true "{}".toUTF8.toList with | some (.obj .nil) => true | _ => false) = true := by
  decide +kernel
example : (match unmarshal true "[ ]".toUTF8.toList with | some (.arr .nil) => true | _ => false) = true := by
  decide +kernel
example : (match unmarshal true "null".toUTF8.toList with | some .null => true | _ => false) = true := by
  decide +kernel

end GoJson.Props.C02
