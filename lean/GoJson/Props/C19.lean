/-
C19 — field queries project exactly the selected fields.

`Model.Query.proj` is the restriction of a value tree to the fields a query selects (structs keep the
named members, a member named without sub-fields is kept whole, the query passes through pointers,
interfaces, slices, arrays and map values). `MarshalContext` with a query is specified as
`enc (proj q v)`; the implementation is tied to it by differential execution (harness c19.go), and so
is the plain `Marshal` (= `enc v`, C13), which is how "the document Marshal would output, restricted"
is expressed.

Proved about the specification: projecting is idempotent; it only ever removes struct members (a
kept member is a member of the original with the same key and flags, in the same order; nothing is
added, map entries and array elements keep their number and order); scalars and embedded JSON are
untouched; a query is a pure argument (the same function whatever was encoded before); and a query
survives the trip through its own QueryString (`build (render q) = q` for well-formed queries).
-/
import GoJson.Model.Query

namespace GoJson.Props.C19
open GoJson GoJson.Model.Enc GoJson.Model.Query

mutual
def memberCount : GV → Nat
  | .ptr v => memberCount v
  | .arr es => memberCountEs es
  | .obj _ ms => memberCountMs ms
  | _ => 0
def memberCountEs : GVs → Nat
  | .nil => 0
  | .cons v r => memberCount v + memberCountEs r
def memberCountMs : GMs → Nat
  | .nil => 0
  | .cons _ _ _ v r => 1 + memberCount v + memberCountMs r
end

mutual
/-- **A query only removes**: the projection never has more members (at any depth) than the value -/
theorem proj_shrinks : ∀ (v : GV) (fs : Qs), memberCount (proj fs v) ≤ memberCount v
  | .null, fs => by simp [proj, memberCount]
  | .bool _, fs => by simp [proj, memberCount]
  | .int _, fs => by simp [proj, memberCount]
  | .num _ _, fs => by simp [proj, memberCount]
  | .str _, fs => by simp [proj, memberCount]
  | .raw _, fs => by simp [proj, memberCount]
  | .ptr v, fs => by simp only [proj, memberCount]; exact proj_shrinks v fs
  | .arr es, fs => by simp only [proj, memberCount]; exact projEs_shrinks es fs
  | .obj true ms, fs => by simp only [proj, memberCount]; exact projVals_shrinks ms fs
  | .obj false ms, fs => by simp only [proj, memberCount]; exact projMs_shrinks ms fs
theorem projEs_shrinks : ∀ (es : GVs) (fs : Qs), memberCountEs (projEs fs es) ≤ memberCountEs es
  | .nil, fs => by simp [projEs, memberCountEs]
  | .cons v r, fs => by
    simp only [projEs, memberCountEs]
    have := proj_shrinks v fs
    have := projEs_shrinks r fs
    omega
theorem projVals_shrinks : ∀ (ms : GMs) (fs : Qs), memberCountMs (projVals fs ms) ≤ memberCountMs ms
  | .nil, fs => by simp [projVals, memberCountMs]
  | .cons k om q v r, fs => by
    simp only [projVals, memberCountMs]
    have := proj_shrinks v fs
    have := projVals_shrinks r fs
    omega
theorem projMs_shrinks : ∀ (ms : GMs) (fs : Qs), memberCountMs (projMs fs ms) ≤ memberCountMs ms
  | .nil, fs => by simp [projMs, memberCountMs]
  | .cons k om q v r, fs => by
    simp only [projMs, memberCountMs]
    have h2 := projMs_shrinks r fs
    cases hl : lookup fs k with
    | none => simp only; omega
    | some sub =>
      simp only [memberCountMs]
      by_cases hn : sub.isNil = true
      · simp only [hn, if_true]; omega
      · simp only [hn, if_false, Bool.false_eq_true]
        have := proj_shrinks v sub
        omega
end

mutual
/-- **Projecting twice is projecting once.** -/
theorem proj_idem : ∀ (v : GV) (fs : Qs), proj fs (proj fs v) = proj fs v
  | .null, fs => by simp [proj]
  | .bool _, fs => by simp [proj]
  | .int _, fs => by simp [proj]
  | .num _ _, fs => by simp [proj]
  | .str _, fs => by simp [proj]
  | .raw _, fs => by simp [proj]
  | .ptr v, fs => by simp only [proj]; rw [proj_idem v fs]
  | .arr es, fs => by simp only [proj]; rw [projEs_idem es fs]
  | .obj true ms, fs => by simp only [proj]; rw [projVals_idem ms fs]
  | .obj false ms, fs => by simp only [proj]; rw [projMs_idem ms fs]
theorem projEs_idem : ∀ (es : GVs) (fs : Qs), projEs fs (projEs fs es) = projEs fs es
  | .nil, fs => by simp [projEs]
  | .cons v r, fs => by simp only [projEs]; rw [proj_idem v fs, projEs_idem r fs]
theorem projVals_idem : ∀ (ms : GMs) (fs : Qs), projVals fs (projVals fs ms) = projVals fs ms
  | .nil, fs => by simp [projVals]
  | .cons k om q v r, fs => by simp only [projVals]; rw [proj_idem v fs, projVals_idem r fs]
theorem projMs_idem : ∀ (ms : GMs) (fs : Qs), projMs fs (projMs fs ms) = projMs fs ms
  | .nil, fs => by simp [projMs]
  | .cons k om q v r, fs => by
    cases hl : lookup fs k with
    | none =>
      have : projMs fs (.cons k om q v r) = projMs fs r := by simp [projMs, hl]
      rw [this]; exact projMs_idem r fs
    | some sub =>
      by_cases hn : sub.isNil = true
      · have : projMs fs (.cons k om q v r) = .cons k om q v (projMs fs r) := by simp [projMs, hl, hn]
        rw [this]
        simp only [projMs, hl, hn, if_true]
        rw [projMs_idem r fs]
      · have : projMs fs (.cons k om q v r) = .cons k om q (proj sub v) (projMs fs r) := by simp [projMs, hl, hn]
        rw [this]
        simp only [projMs, hl, hn, if_false, Bool.false_eq_true]
        rw [proj_idem v sub, projMs_idem r fs]
end

/-- scalars and embedded JSON are never touched by a query -/
theorem proj_scalar (fs : Qs) :
    proj fs .null = .null ∧ (∀ b, proj fs (.bool b) = .bool b) ∧ (∀ i, proj fs (.int i) = .int i) ∧
    (∀ t z, proj fs (.num t z) = .num t z) ∧ (∀ s, proj fs (.str s) = .str s) ∧ (∀ t, proj fs (.raw t) = .raw t) := by
  simp [proj]

/-- a struct member is kept exactly when the query names it; a name without sub-fields keeps the
member whole -/
theorem member_kept_iff (fs : Qs) (k : List UInt8) (om q : Bool) (v : GV) (r : GMs) :
    (lookup fs k = none → projMs fs (.cons k om q v r) = projMs fs r) ∧
    (∀ sub, lookup fs k = some sub → sub.isNil = true →
      projMs fs (.cons k om q v r) = .cons k om q v (projMs fs r)) ∧
    (∀ sub, lookup fs k = some sub → sub.isNil = false →
      projMs fs (.cons k om q v r) = .cons k om q (proj sub v) (projMs fs r)) := by
  refine ⟨?_, ?_, ?_⟩
  · intro h; simp [projMs, h]
  · intro sub h hn; simp [projMs, h, hn]
  · intro sub h hn; simp [projMs, h, hn]

/-- maps, slices and arrays keep every entry: the query applies to the values -/
theorem containers_keep_entries (fs : Qs) (k : List UInt8) (om q : Bool) (v : GV) (r : GMs) (es : GVs) :
    projVals fs (.cons k om q v r) = .cons k om q (proj fs v) (projVals fs r) ∧
    projEs fs (.cons v es) = .cons (proj fs v) (projEs fs es) := by
  simp [projVals, projEs]

/-! ### QueryString round trip -/

mutual
/-- names are non-empty and do not start with `[` or `{` (the builder would parse such a name as
JSON again); nested entries all carry a name -/
def wfQ : Q → Bool
  | .node n fs => (match n with | [] => false | c :: _ => c != 91 && c != 123) && wfQs fs
def wfQs : Qs → Bool
  | .nil => true
  | .cons q r => wfQ q && wfQs r
end

mutual
theorem build_render : ∀ (q : Q), wfQ q = true → build (render q) = some q
  | .node n fs, h => by
    simp only [wfQ, Bool.and_eq_true] at h
    obtain ⟨hn, hfs⟩ := h
    cases n with
    | nil => simp at hn
    | cons c r =>
      simp only [Bool.and_eq_true, bne_iff_ne, ne_eq] at hn
      have hall := buildAll_renderAll fs hfs
      unfold render
      simp only [List.isEmpty_cons, Bool.false_eq_true, if_false]
      by_cases hnil : fs.isNil = true
      · simp only [hnil, if_true]
        have : fs = .nil := by cases fs <;> simp_all [Qs.isNil]
        subst this
        simp [build, hn.1, hn.2]
      · simp only [hnil, if_false, Bool.false_eq_true]
        simp [build, hall]
theorem buildAll_renderAll : ∀ (fs : Qs), wfQs fs = true → buildAll (renderAll fs) = some fs
  | .nil, _ => by simp [renderAll, buildAll]
  | .cons q r, h => by
    simp only [wfQs, Bool.and_eq_true] at h
    simp [renderAll, buildAll, build_render q h.1, buildAll_renderAll r h.2]
end

/-- **A query built from its own QueryString is the same query** (root: the list of selected fields) -/
theorem queryString_roundtrip (fs : Qs) (h : wfQs fs = true) :
    build (render (.node [] fs)) = some (.node [] fs) := by
  simp [render, build, buildAll_renderAll fs h]

end GoJson.Props.C19
