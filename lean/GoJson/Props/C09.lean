/-
C09 — stream decoding equals buffer decoding for every chunking of the input.
The theorems here are about the raw stream machine (refill, doubling, reset, cursor advance):
the part of the property that does not depend on a particular scanner.
-/
import GoJson.Lemmas.Stream

namespace GoJson.Props.C09
open GoJson.Model.Stream

/-- **A refill never loses or duplicates a byte and never panics.** -/
theorem refill_preserves_input (s : S) (h : Inv s) :
    ∃ ok s', read s = some (ok, s') ∧ Inv s' ∧ unread s' = unread s ∧ consumed s' = consumed s ∧
      s'.cursor = s.cursor :=
  read_ok s h

/-- **Chunk independence of the machine.** For every input (a NUL byte in it is input like any other:
the refill neither truncates the window at it nor overwrites what follows — finding "stream NUL",
repaired), every cutting of it into
reader pieces (any sizes, empty pieces, with or without a final reader failure) and every sequence
of refills, resets (`reset`, `Reset`) and cursor advances, starting from a fresh stream: no
operation panics, and the unread bytes are always exactly the input from position
`offset + cursor` — which is therefore the exact `InputOffset`. Two different cuttings of the same
input thus present the same bytes to the scanners. -/
theorem machine_tracks_input (pieces : List (List UInt8)) (fail : Bool)
    (ops : List Op) :
    ∃ s', ops.foldlM step (new pieces fail) = some s' ∧ Inv s' ∧
      unread s' = pieces.flatten.drop (consumed s') ∧ consumed s' ≤ pieces.flatten.length := by
  obtain ⟨s', h1, h2⟩ := trace_tracks pieces.flatten ops (new pieces fail) (tracks_new pieces fail)
  exact ⟨s', h1, h2.1, h2.2.1, h2.2.2⟩

/-- **The sentinel is always there**: in every state satisfying the invariant, the byte at
`length` is NUL, so a scanner that stops at NUL never reads past the buffered data. -/
theorem sentinel_present (s : S) (h : Inv s) : s.buf[s.length]? = some 0 :=
  h.tail_zero s.length (Nat.le_refl _) h.len_lt

/-- non-vacuity: a stream that has to double its buffer, evaluated by the kernel -/
example : ((read (new [List.replicate 600 97] false)).map (fun p => (p.1, p.2.length, p.2.filled))) =
    some (true, 511, true) := by decide +kernel

end GoJson.Props.C09
