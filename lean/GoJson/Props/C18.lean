/-
C18 — Compact, Indent (and Valid, HTMLEscape) match encoding/json.
Property theorems only; helper lemmas live in GoJson.Lemmas.Compact*.
-/
import GoJson.Lemmas.Compact5

namespace GoJson.Props.C18
open GoJson GoJson.Spec GoJson.Model.Compact

/-- **What Compact / Indent compute, exactly.** For every byte string `b` and layout (`none` =
Compact, `some (prefix, indent)` = Indent): the call succeeds with `out` iff `b` is white space,
one value `v`, white space, and `out` is the canonical layout `o` of `v` given by the grammar
`CVal` (tokens verbatim; no white space for Compact; newline + prefix + one indent per level before
every element and ": " after keys for Indent; empty containers stay `[]` / `{}`), followed for
Indent by the trailing white space of `b`. Both directions, every length and nesting depth. -/
theorem run_iff (lay : Layout) (b out : List UInt8) :
    run false lay b = some out ↔
      ∃ w1 v w2 o, b = w1 ++ v ++ w2 ∧ AllWs w1 ∧ AllWs w2 ∧ CVal lay 0 v o ∧
        out = o ++ (if lay.isSome then trailingWs b else []) := by
  constructor
  · exact run_sound lay b out
  · rintro ⟨w1, v, w2, o, rfl, hw1, hw2, hval, rfl⟩
    exact run_complete lay w1 v w2 o hw1 hw2 hval

/-- **Invalid texts are rejected**: success implies that the input is an RFC 8259 text — strict
numbers, strict strings (no raw control bytes, well-formed escapes), nesting ≤ 10000, nothing but
white space around the value (no bytes after an embedded NUL). -/
theorem success_implies_rfc8259 (lay : Layout) (b out : List UInt8) (h : run false lay b = some out) :
    ValidText Relax.none false maxDepth b :=
  run_valid lay b out h

theorem depth_limit : maxDepth = 10000 := maxDepth_val

/-- non-vacuity / sanity, computed by the kernel -/
example : run false none " [1 , {\"a\" : \"x y\"} ,[ ] ] ".toUTF8.toList = some "[1,{\"a\":\"x y\"},[]]".toUTF8.toList := by
  decide +kernel
example : run false (some ([62], [32, 32])) "[1,{}]\n".toUTF8.toList = some "[\n>  1,\n>  {}\n>]\n".toUTF8.toList := by
  decide +kernel
example : run false none "[01]".toUTF8.toList = none := by decide +kernel
example : run false none "\"\\x\"".toUTF8.toList = none := by decide +kernel
example : run false none "1\x00x".toUTF8.toList = none := by decide +kernel

end GoJson.Props.C18
