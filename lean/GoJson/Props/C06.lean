/-
C06 — decoding and utilities always return: no panic, crash or hang on any input.

What a theorem can carry here is the part that is logic: the scanners are written against a NUL
sentinel instead of bounds checks, recurse on nesting and loop on input. Proved on the models that
are tied to the code (C05, C02, C18, C20):

* **the sentinel works** — on the buffer `b ++ [0]`, for *every* byte string `b` (including ones
  with NULs inside, truncated escapes, a backslash as the last byte …), the decoder never reads past
  the terminator: the explicit out-of-bounds result of the model is unreachable, and every
  sub-scanner hands a still-terminated rest to the next one;
* **the same for Compact and Indent** (their own scanners in internal/encoder, model of C18): the
  value, element and member loops never read past the terminator and leave a terminated rest;
* **recursion is bounded** — a container opened at the depth limit is an error, whatever follows;
* **the models are total functions** (Lean accepts their termination: structural recursion on the
  fuel or on the input, or a decreasing length measure), and the fuel the decoder model is given is
  never exhausted on an accepted text (C05 `accepts_iff`);
* **CreatePath never panics** on any rune sequence (C20).

What only execution can show — Go runtime fatal errors, stack exhaustion at depth 10^7, reader
behaviour — is exercised by the harness in worker subprocesses with time and address-space limits:
every prefix and every single-byte mutation of generated documents, every entry point, destination
types from the generator, readers that deliver arbitrary pieces or fail.
-/
import GoJson.Lemmas.Safe2
import GoJson.Lemmas.CompactSafe
import GoJson.Props.C20

namespace GoJson.Props.C06
open GoJson GoJson.Model.BufDec

/-- **No read past the terminator**, for every byte string, at every nesting depth, with any fuel. -/
theorem decoder_never_reads_past_terminator (range : Bool) (fuel d : Nat) (b : List UInt8) :
    value range fuel d (b ++ [0]) ≠ .oob :=
  ((value_term range fuel).1 d (b ++ [0]) (by simp [Term])).1

/-- … and the same holds from every position the decoder can reach: what a successful sub-scan
leaves is again a terminated buffer -/
theorem rest_is_terminated (range : Bool) (fuel d : Nat) (s rest : List UInt8) (hs : Term s)
    (h : value range fuel d s = .ok rest) : Term rest :=
  ((value_term range fuel).1 d s hs).2 rest h

/-- the tree-building decoder (C02) inherits it -/
theorem tree_decoder_never_reads_past_terminator (range : Bool) (fuel d : Nat) (b : List UInt8) :
    (match Model.Dec.value range fuel d (b ++ [0]) with | .oob => false | _ => true) = true := by
  have h := Model.Dec.erase_all range fuel
  have h2 := decoder_never_reads_past_terminator range fuel d b
  rw [← h.1 d (b ++ [0])] at h2
  cases hv : Model.Dec.value range fuel d (b ++ [0]) with
  | ok _ _ => rfl
  | err => rfl
  | oob => rw [hv] at h2; exact absurd rfl h2

/-- **Nesting is bounded**: opening an array or an object at the depth limit is an error, so the
recursion depth of the decoder never exceeds `maxDepth` (= 10000) -/
theorem container_at_limit_is_error (range : Bool) (fuel d : Nat) (r : List UInt8) (c : UInt8)
    (hc : c = 91 ∨ c = 123) (hd : d + 1 > maxDepth) : value range (fuel + 1) d (c :: r) = .err := by
  unfold value
  have hws : skipWs (c :: r) = c :: r := by
    unfold skipWs
    have : wsTbl c = false := by
      rw [wsTbl_spec]
      rcases hc with rfl | rfl <;> decide
    simp [this]
  rw [hws]
  rcases hc with rfl | rfl
  · simp [hd]
  · simp [hd]

/-- malformed path text is rejected, never a panic (C20) -/
theorem createPath_never_panics (text : List Nat) : Model.Path.build text ≠ .panic :=
  GoJson.Props.C20.createPath_never_panics text

/-- **Compact and Indent never read past the terminator**, for every byte string, with or without
HTML escaping, for every layout, nesting depth and fuel -/
theorem compact_never_reads_past_terminator (escape : Bool) (lay : Model.Compact.Layout) (fuel d : Nat)
    (b : List UInt8) : Model.Compact.cvalue escape lay fuel d (b ++ [0]) ≠ .oob := by
  have ht : Model.Compact.Term (b ++ [0]) := by simp [Model.Compact.Term]
  have h := (Model.Compact.all_good escape lay fuel d (b ++ [0]) ht).1
  intro hc
  rw [hc] at h
  exact h

/-- … and what a successful Compact / Indent scan leaves behind is still terminated (so the check
for trailing bytes that follows it is safe too) -/
theorem compact_rest_is_terminated (escape : Bool) (lay : Model.Compact.Layout) (fuel d : Nat)
    (b out rest : List UInt8) (h : Model.Compact.cvalue escape lay fuel d (b ++ [0]) = .ok out rest) :
    rest.getLast? = some 0 := by
  have ht : Model.Compact.Term (b ++ [0]) := by simp [Model.Compact.Term]
  have hg := (Model.Compact.all_good escape lay fuel d (b ++ [0]) ht).1
  rw [h] at hg
  exact hg

end GoJson.Props.C06
