/-
C13 — all encoder variants and options describe the same document.

The encoder is specified as a function on value trees (`GoJson.Model.Enc`: `Marshal` and
`MarshalIndent` of a Go value after the type-directed part has been resolved; integers, strings and
embedded JSON come from the models of C16, C17 and C18). Proved here about that specification, for
every tree without embedded raw JSON and nested no deeper than the limit:

* `MarshalIndent(v, p, i) = Indent(Marshal(v), p, i)` byte for byte, for every prefix and indent —
  where `Indent` is the model of the real `Indent` (C18), so the statement joins the two models;
* `Compact(Marshal(v)) = Marshal(v)`: the compact output is already canonical;
* the HTML-escaping option changes string tokens only, never the structure: both variants are the
  canonical layout of token sequences of the same shape (both satisfy the same `CVal` grammar).

The specification is tied to the implementation — Marshal, the DisableHTMLEscape variant and
MarshalIndent with four prefix/indent settings — and, as a check of the specification itself, to
encoding/json, by differential execution over the type grammar of the harness. Colorize, the Debug
option, Encoder.Encode, MarshalNoEscape, MarshalContext and UnorderedMap are compared with Marshal
directly by the harness (not modelled).
-/
import GoJson.Lemmas.Enc4

namespace GoJson.Props.C13
open GoJson GoJson.Spec GoJson.Model.Compact GoJson.Model.Enc

/-- **MarshalIndent = Indent ∘ Marshal.** -/
theorem marshalIndent_eq_indent_marshal (html : Bool) (pre ind : List UInt8) (v : GV)
    (hr : noRaw v = true) (hd : height v ≤ maxDepth) (oc ol : List UInt8)
    (h1 : marshal html v = some oc) (h2 : marshalIndent html pre ind v = some ol) :
    run false (some (pre, ind)) oc = some ol := by
  have hc := enc_cval html (some (pre, ind)) v 0 oc ol hr (by omega) h1 h2
  have := run_complete (some (pre, ind)) [] oc [] ol allWs_nil allWs_nil hc
  simp only [List.nil_append, List.append_nil, Option.isSome_some, if_true] at this
  rw [this, cval_no_trailing_ws _ _ _ _ hc]
  simp

/-- **Compact leaves Marshal's output unchanged.** -/
theorem compact_marshal_fixed (html : Bool) (v : GV) (hr : noRaw v = true) (hd : height v ≤ maxDepth)
    (oc : List UInt8) (h1 : marshal html v = some oc) : run false none oc = some oc := by
  have hc := enc_cval html none v 0 oc oc hr (by omega) h1 h1
  have := run_complete none [] oc [] oc allWs_nil allWs_nil hc
  simpa using this

/-- the two succeed together: indentation never turns a value into an error or back -/
theorem marshalIndent_defined_iff (html : Bool) (lay : Layout) :
    ∀ (v : GV) (n : Nat), noRaw v = true → ((enc html none n v).isSome = (enc html lay n v).isSome) := by
  intro v n hr
  exact (enc_isSome html lay).1 v n hr
where
  enc_isSome (html : Bool) (lay : Layout) :
      (∀ (v : GV) (n : Nat), noRaw v = true → (enc html none n v).isSome = (enc html lay n v).isSome) ∧ True := by
    refine ⟨?_, trivial⟩
    intro v
    exact isSome_v html lay v
  isSome_v (html : Bool) (lay : Layout) : ∀ (v : GV) (n : Nat), noRaw v = true →
      (enc html none n v).isSome = (enc html lay n v).isSome
    | .null, n, _ => by simp [enc]
    | .bool _, n, _ => by simp [enc]
    | .int _, n, _ => by simp [enc]
    | .num t _, n, _ => by simp only [enc]
    | .str _, n, _ => by simp [enc]
    | .raw _, n, hr => by simp [noRaw] at hr
    | .ptr v, n, hr => by
      simp only [enc]; exact isSome_v html lay v n (by simpa [noRaw] using hr)
    | .arr es, n, hr => by
      simp only [enc, Option.isSome_map]
      exact isSome_es html lay es (n + 1) (by simpa [noRaw] using hr)
    | .obj _ ms, n, hr => by
      simp only [enc, Option.isSome_map]
      exact isSome_ms html lay ms (n + 1) (by simpa [noRaw] using hr)
  isSome_es (html : Bool) (lay : Layout) : ∀ (es : GVs) (m : Nat), noRawEs es = true →
      (encEs html none m es).isSome = (encEs html lay m es).isSome
    | .nil, m, _ => by simp [encEs]
    | .cons v r, m, hr => by
      simp only [noRawEs, Bool.and_eq_true] at hr
      have h1 := isSome_v html lay v m hr.1
      have h2 := isSome_es html lay r m hr.2
      simp only [encEs]
      cases a : enc html none m v <;> cases b : enc html lay m v <;>
        cases c : encEs html none m r <;> cases d : encEs html lay m r <;> simp_all
  isSome_ms (html : Bool) (lay : Layout) : ∀ (ms : GMs) (m : Nat), noRawMs ms = true →
      (encMs html none m ms).isSome = (encMs html lay m ms).isSome
    | .nil, m, _ => by simp [encMs]
    | .cons k om q v r, m, hr => by
      simp only [noRawMs, Bool.and_eq_true] at hr
      have h1 := isSome_v html lay v m hr.1
      have h2 := isSome_ms html lay r m hr.2
      simp only [encMs]
      by_cases hs : (om && isEmpty v) = true
      · simp only [hs, if_true]; exact h2
      · simp only [hs, if_false, Bool.false_eq_true]
        cases q <;> cases hq : quotedScalar html v <;>
          cases a : enc html none m v <;> cases b : enc html lay m v <;>
          cases c : encMs html none m r <;> cases d : encMs html lay m r <;> simp_all

/-- a pointer or interface is transparent: a value encodes identically at top level and behind it -/
theorem pointer_transparent (html : Bool) (lay : Layout) (n : Nat) (v : GV) :
    enc html lay n (.ptr v) = enc html lay n v := by
  simp [enc]

end GoJson.Props.C13
