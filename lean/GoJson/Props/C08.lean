/-
C08 — encoding any acyclic value is safe; cyclic values give an error.

What is proved here is the logic of the two mechanisms the property rests on.

Frames. The interpreters keep pointers in a scratch array of machine words and address it with
unchecked arithmetic: an opcode names a slot by an offset from the base of the current frame; an
interface value or a recursive struct starts a new frame behind the current one, with lengths the
compiler computed (TotalLength, CurLen / NextLen, the Length of interface ops). `Model.Frames` has
those length computations, a decidable well-formedness predicate `WF` on compiled programs, and a
machine for the frame protocol. `every_slot_access_is_safe`: for every execution the interpreter
can make of well-formed programs — any nesting of recursive calls and interface values, any depth —
every slot access is inside the slot array, inside the current frame, and the current frame lies
behind every other live frame. The length formulas of the compiler are proved to give well-formed
frames (`totalLength_covers_every_slot`, `recursive_frame_fits`, `interface_frame_fits`,
`interface_inside_recursive_ok`), and the formulas before the repairs of findings D19 and D65 are
proved not to (`old_recursive_frame_is_short`, `old_interface_inside_recursive_overlaps`).
The check evaluates `WF` and the formulas on the programs go-json compiles for every generated type
(driver op `frames`), and the slot assertions of the verif build check every real access.

Cycles. `visit` is the traversal with SeenPtr / recursiveLevel. `acyclic_value_is_encoded`: no
false cycle report whatever the depth; `traversal_depth_bounded`: whatever the graph, the recursion
ends within StartDetectingCyclesAfter + N + 2 levels; `cyclic_value_is_error`: a value from which
arbitrarily long walks start gets the error.

Not modelled: that the interpreter touches only the slots its opcodes name (checked at run time by
the slot assertions), reads of the value's own memory through pointer chains (the pointer-shape
findings C08-* are about those), the Go runtime (stack growth, garbage collection during callbacks;
exercised by execution).
-/
import GoJson.Model.Keep
import GoJson.Gen.Proto
import GoJson.Lemmas.Frames3

namespace GoJson.Props.C08
open GoJson.Model.Frames

instance (recs : Nat → Prog) (P : Prog) : Decidable (WF recs P) := by unfold WF; infer_instance

/-- **Every slot access of every execution is safe.** -/
theorem every_slot_access_is_safe (recs : Nat → Prog) (hrec : ∀ i, WF recs (recs i)) (P : Prog)
    (hP : WF recs P) (evs : List Ev) (h : Runs recs P evs) (L : Nat) (hL : P.len ≤ L) :
    Safe ⟨L, [⟨0, P.len⟩]⟩ evs ∧ ∃ L', run ⟨L, [⟨0, P.len⟩]⟩ evs = some ⟨L', [⟨0, P.len⟩]⟩ := by
  have hst : Stacked L [⟨0, P.len⟩] := ⟨by simpa using hL, by simp, trivial⟩
  obtain ⟨L', _, hrun, hsafe⟩ := runs_safe recs hrec h hP L 0 [] hst
  exact ⟨hsafe, L', hrun⟩

/-- a safe access, spelled out: in bounds, in the current frame, behind every other live frame -/
theorem safe_access_means (s : St) (slot : Nat) (f : Frame) (rest : List Frame)
    (hs : s.stack = f :: rest) (h : accSafe s slot) :
    f.base + slot < s.L ∧ slot < f.len ∧ ∀ g ∈ rest, g.base + g.len ≤ f.base := by
  unfold accSafe at h
  rw [hs] at h
  exact h

/-- Opcode.TotalLength is above every slot a program names -/
theorem totalLength_covers_every_slot (ops : List Op) :
    ∀ o ∈ ops, ∀ s ∈ o.slots, s < totalLength ops :=
  (fits_iff _ _).mp (totalLength_fits ops)

/-- the frame of a recursive program, end code included, fits NextLen -/
theorem recursive_frame_fits (body : List Op) :
    fits (body ++ [recEnd (totalLength body)]) (nextLen (totalLength body)) = true :=
  rec_frame_fits body

/-- the frame of an interface program, end code included, fits CodeLength + 3 -/
theorem interface_frame_fits (body : List Op) (e : Op) :
    fits (body ++ [ifaceEnd e]) (ifaceNext (totalLength (body ++ [e]))) = true :=
  iface_frame_fits body e

/-- an interface op inside a recursive program starts its frame exactly behind the recursive frame -/
theorem interface_inside_recursive_ok (t : Nat) : nextLen t ≤ ifaceCur (recIfaceLength t) := by
  unfold nextLen ifaceCur recIfaceLength; omega

/-- **Finding D65**: with the lengths before the repair the saved-indent slot of every recursive
program is outside its frame, whatever the program -/
theorem old_recursive_frame_is_short (body : List Op) :
    fits (body ++ [recEnd (totalLength body)]) (nextLenOld (totalLength body)) = false :=
  old_rec_frame_short body

/-- **Finding D19**: an interface op inside a recursive program used to have Length 0, which puts the
new frame inside the recursive frame for every program -/
theorem old_interface_inside_recursive_overlaps (t : Nat) : ¬ (nextLen t ≤ ifaceCur 0) := by
  unfold nextLen ifaceCur; omega

/-- **An acyclic value is encoded**, at any depth: the traversal never reports a cycle -/
theorem acyclic_value_is_encoded (g : Nat → List Nat) (thr : Nat) (rank : Nat → Nat)
    (hr : ∀ p c, c ∈ g p → rank c < rank p) (p : Nat) :
    visit g thr (rank p + 1) 0 [] p = some true :=
  visit_acyclic g thr rank hr _ 0 [] p (by omega) (by simp)

/-- **The recursion is bounded whatever the value** -/
theorem traversal_depth_bounded (g : Nat → List Nat) (thr N : Nat)
    (hg : ∀ p, p < N → ∀ c ∈ g p, c < N) (p : Nat) (hp : p < N) :
    visit g thr (thr + N + 2) 0 [] p ≠ none := by
  apply visit_depth_bounded g thr N hg _ 0 [] p hp
  rw [fresh_nil]
  omega

/-- **A cyclic value yields the error** -/
theorem cyclic_value_is_error (g : Nat → List Nat) (thr N : Nat)
    (hg : ∀ p, p < N → ∀ c ∈ g p, c < N) (p : Nat) (hp : p < N)
    (hcyc : ∀ n, ∃ path, Walk g p path ∧ n ≤ path.length) :
    visit g thr (thr + N + 2) 0 [] p = some false := by
  have h1 := traversal_depth_bounded g thr N hg p hp
  cases hv : visit g thr (thr + N + 2) 0 [] p with
  | none => exact absurd hv h1
  | some b =>
    cases b with
    | false => rfl
    | true =>
      obtain ⟨path, hw, hlen⟩ := hcyc (thr + N + 2)
      have := visit_true_bounds_walks g thr _ _ _ _ hv path hw
      omega

/-! ### the hypotheses are satisfiable: `type U struct { A int; Self *U }` as go-json compiles it -/

def uBody : List Op :=
  [⟨.plain, 0, 0, 0, 0⟩, ⟨.plain, 0, 0, 0, 0⟩, ⟨.recur 8 8 0, 16, 0, 0, 0⟩, ⟨.plain, 24, 0, 0, 0⟩]
def uRec : Prog := ⟨uBody ++ [recEnd (totalLength uBody)], nextLen (totalLength uBody)⟩
def uTop : Prog := ⟨uBody ++ [⟨.endTop, 24, 0, 0, 0⟩], totalLength (uBody ++ [⟨.endTop, 24, 0, 0, 0⟩])⟩

example : WF (fun _ => uRec) uRec ∧ WF (fun _ => uRec) uTop := by decide

/-- three levels of U: the run the old code got wrong -/
example : Runs (fun _ => uRec) uTop
    [.acc 0, .acc 2, .push 8 8 8, .acc 0, .acc 2, .push 8 8 8, .acc 0, .acc 7, .pop, .acc 3, .acc 7, .pop, .acc 3] := by
  have hr : (⟨.recur 8 8 0, 16, 0, 0, 0⟩ : Op) ∈ uRec.ops := by simp [uRec, uBody]
  refine .acc (o := ⟨.plain, 0, 0, 0, 0⟩) (by simp [uTop, uBody]) (by simp [Op.slots]) ?_
  refine .acc (o := ⟨.recur 8 8 0, 16, 0, 0, 0⟩) (by simp [uTop, uBody]) (by simp [Op.slots]) ?_
  refine .callRec (o := ⟨.recur 8 8 0, 16, 0, 0, 0⟩) (tgt := 0) (inner := [.acc 0, .acc 2, .push 8 8 8, .acc 0, .acc 7, .pop, .acc 3, .acc 7])
    (es := [.acc 3]) (by simp [uTop, uBody]) rfl ?_ ?_
  · refine .acc (o := ⟨.plain, 0, 0, 0, 0⟩) (by simp [uRec, uBody]) (by simp [Op.slots]) ?_
    refine .acc (o := ⟨.recur 8 8 0, 16, 0, 0, 0⟩) hr (by simp [Op.slots]) ?_
    refine .callRec (o := ⟨.recur 8 8 0, 16, 0, 0, 0⟩) (tgt := 0) (inner := [.acc 0, .acc 7]) (es := [.acc 3, .acc 7]) hr rfl ?_ ?_
    · refine .acc (o := ⟨.plain, 0, 0, 0, 0⟩) (by simp [uRec, uBody]) (by simp [Op.slots]) ?_
      refine .acc (o := recEnd (totalLength uBody)) (by simp [uRec]) (by rw [recEnd_slots]; decide) .nil
    · refine .acc (o := ⟨.plain, 24, 0, 0, 0⟩) (by simp [uRec, uBody]) (by simp [Op.slots]) ?_
      refine .acc (o := recEnd (totalLength uBody)) (by simp [uRec]) (by rw [recEnd_slots]; decide) .nil
  · refine .acc (o := ⟨.plain, 24, 0, 0, 0⟩) (by simp [uTop, uBody]) (by simp [Op.slots]) .nil

/-- a two-node cycle is reported, a chain of two is encoded (StartDetectingCyclesAfter = 3 here) -/
example : visit (fun p => if p = 0 then [1] else [0]) 3 (3 + 2 + 2) 0 [] 0 = some false := by decide
example : visit (fun p => if p = 0 then [1] else []) 3 (3 + 2 + 2) 0 [] 0 = some true := by decide

/-! ### what the garbage collector can reach during a run -/

open GoJson.Model.Keep in
/-- **The value and the program stay reachable for the whole run**, in each of the three entry
functions as they are in the source now (regenerated `Gen.keep_*`): after `Init` has emptied
`KeepRefs` and before the interpreter starts, the program is appended; the value is appended too, or
used again behind the run. -/
theorem entry_points_keep_value_and_program :
    safe (Gen.keep_encode.map parse) = true ∧
    safe (Gen.keep_encodeIndent.map parse) = true ∧
    safe (Gen.keep_encodeNoEscape.map parse) = true := by decide

/-- **A program entered for an interface value is kept as well**, in all four interpreters: the append
follows the compile step (the only other appends are the interface word and the map context). -/
theorem interface_programs_are_kept :
    Gen.keep_vm = ["Keep up", "Compile", "Keep unsafe.Pointer(ifaceCodeSet)", "Keep unsafe.Pointer(mapCtx)"] ∧
    Gen.keep_vm_indent = Gen.keep_vm ∧ Gen.keep_vm_color = Gen.keep_vm ∧ Gen.keep_vm_color_indent = Gen.keep_vm := by
  decide

open GoJson.Model.Keep in
/-- the orders that were wrong: the value appended before `Init` (a seeded change), and the program
not appended at all (the code before the repair: a collection during a nested program freed it) -/
theorem value_kept_before_init_is_lost :
    safe [.compile, .keep [.value], .init, .run] = false ∧
    safe [.compile, .init, .keep [.value], .run] = false := by decide

end GoJson.Props.C08
