/-
C05 — decoding accepts exactly the RFC 8259 language.
Property theorems only; helper lemmas live in GoJson.Lemmas.Buf*.
-/
import GoJson.Lemmas.BufSound3
import GoJson.Lemmas.BufCompl2

namespace GoJson.Props.C05
open GoJson GoJson.Spec GoJson.Model.BufDec

/-- **Characterisation of what `Unmarshal(b, &interface{})` accepts.** For every byte string `b`:
the buffer-mode decoder (value scanner, number tokeniser with its terminator check, string scanner,
literal checks, member/element loops, depth counter, trailing-data check against the NUL
terminator) succeeds exactly when `b` is white space, one value of the grammar, white space —
nested at most 10000 deep, every number within float64 range — where the grammar is RFC 8259
relaxed by the open findings only (`rxCurrent`: raw control bytes inside strings, D02).
So the list of relaxations is complete: nothing else is accepted, nothing of the language is rejected. -/
theorem accepts_iff (range : Bool) (b : List UInt8) :
    accepts range b = true ↔ ValidText rxCurrent range maxDepth b :=
  ⟨accepts_sound range b, accepts_complete range b⟩

/-- the depth limit is the constant extracted from the source -/
theorem depth_limit : maxDepth = 10000 := maxDepth_val

/-- **Nothing after the value**: a byte string the decoder accepts is consumed entirely. In
particular bytes after an embedded NUL are not ignored (finding D03, repaired). -/
theorem accepts_whole_input (range : Bool) (b : List UInt8) (h : accepts range b = true) :
    ∃ w1 v w2, b = w1 ++ v ++ w2 ∧ AllWs w1 ∧ AllWs w2 :=
  let ⟨w1, v, w2, e, h1, h2, _⟩ := accepts_sound range b h
  ⟨w1, v, w2, e, h1, h2⟩

/-- Known finding D02, machine-checked on the model: a raw control byte inside a string is accepted. -/
theorem ctl_in_string_accepted : accepts true [34, 97, 1, 98, 34] = true := by decide +kernel

/-- non-vacuity: concrete verdicts computed by the kernel -/
example : accepts true "[1, {\"a\": null}, \"x\"] ".toUTF8.toList = true := by decide +kernel
example : accepts true "01".toUTF8.toList = false := by decide +kernel
example : accepts true "[1,]".toUTF8.toList = false := by decide +kernel
example : accepts true "1\x00x".toUTF8.toList = false := by decide +kernel
example : accepts true "{null:1}".toUTF8.toList = false := by decide +kernel
example : accepts true "1e999".toUTF8.toList = false := by decide +kernel
example : accepts false "1e999".toUTF8.toList = true := by decide +kernel

end GoJson.Props.C05
