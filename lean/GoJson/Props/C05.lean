/-
C05 — decoding accepts exactly the RFC 8259 language.
Property theorems only; helper lemmas live in GoJson.Lemmas.Buf*.
-/
import GoJson.Lemmas.BufSound3
import GoJson.Lemmas.BufCompl2
import GoJson.Lemmas.Skip1

namespace GoJson.Props.C05
open GoJson GoJson.Spec GoJson.Model.BufDec

/-- **Characterisation of what `Unmarshal(b, &interface{})` accepts.** For every byte string `b`:
the buffer-mode decoder (value scanner, number tokeniser with its terminator check, string scanner,
literal checks, member/element loops, depth counter, trailing-data check against the NUL
terminator) succeeds exactly when `b` is white space, one value of the grammar, white space —
nested at most 10000 deep, every number within float64 range — where the grammar is RFC 8259
with no relaxation (`rxCurrent = Relax.none`; the one relaxation the tree used to need, raw control
bytes inside strings, D02, was repaired): nothing else is accepted, nothing of the language is rejected. -/
theorem accepts_iff (range : Bool) (b : List UInt8) :
    accepts range b = true ↔ ValidText rxCurrent range maxDepth b :=
  ⟨accepts_sound range b, accepts_complete range b⟩

/-- the depth limit is the constant extracted from the source -/
theorem depth_limit : maxDepth = 10000 := maxDepth_val

/-- **Nothing after the value**: a byte string the decoder accepts is consumed entirely. In
particular bytes after an embedded NUL are not ignored (finding D03, repaired). -/
theorem accepts_whole_input (range : Bool) (b : List UInt8) (h : accepts range b = true) :
    ∃ w1 v w2, b = w1 ++ v ++ w2 ∧ AllWs w1 ∧ AllWs w2 :=
  let ⟨w1, v, w2, e, h1, h2, _⟩ := accepts_sound range b h
  ⟨w1, v, w2, e, h1, h2⟩

/-- the grammar of `accepts_iff` is RFC 8259 itself -/
theorem grammar_is_rfc8259 : rxCurrent = Relax.none := rfl

theorem scanBody_ctl (pre rest : List UInt8) (c : UInt8) (hc : c.toNat < 32)
    (hpre : ∀ b ∈ pre, b ≠ 34 ∧ b ≠ 92 ∧ 32 ≤ b.toNat) :
    Model.StrDec.scanBody (pre ++ c :: rest) = .error .syntaxErr := by
  induction pre with
  | nil =>
    have h1 : (c == 92) = false := by
      apply beq_false_of_ne; rintro rfl; exact absurd hc (by decide)
    have h2 : (c == 34) = false := by
      apply beq_false_of_ne; rintro rfl; exact absurd hc (by decide)
    simp only [List.nil_append]
    unfold Model.StrDec.scanBody
    simp [h1, h2, hc]
  | cons b pre ih =>
    obtain ⟨hb1, hb2, hb3⟩ := hpre b (by simp)
    have hb4 : ¬ b.toNat < 32 := by omega
    simp only [List.cons_append]
    unfold Model.StrDec.scanBody
    simp [hb1, hb2, hb4, ih (fun x hx => hpre x (by simp [hx]))]

/-- Finding D02 (repaired): a raw control byte inside a string is rejected, for every such byte and
wherever it stands in the string (`pre`: the bytes of the string before it, none of them a quote,
a backslash or a control byte). -/
theorem ctl_in_string_rejected (range : Bool) (pre post : List UInt8) (c : UInt8) (hc : c.toNat < 32)
    (hpre : ∀ b ∈ pre, b ≠ 34 ∧ b ≠ 92 ∧ 32 ≤ b.toNat) :
    accepts range (34 :: pre ++ c :: post) = false := by
  unfold accepts
  have hfuel : 2 * (34 :: pre ++ c :: post).length + 4 = (2 * (34 :: pre ++ c :: post).length + 3) + 1 := by omega
  rw [hfuel]
  simp only [List.cons_append, List.append_assoc]
  unfold value
  have hws : skipWs (34 :: (pre ++ (c :: (post ++ [0])))) = 34 :: (pre ++ (c :: (post ++ [0]))) := by
    unfold skipWs
    have : wsTbl 34 = false := by decide +kernel
    simp [this]
  rw [hws]
  have hs := scanBody_ctl pre (post ++ [0]) c hc hpre
  simp [stringTail, hs]

example : accepts true [34, 97, 1, 98, 34] = false := by decide +kernel

/-- **What the destination ignores is validated too.** A destination that passes over the whole
document (skipValue / skipObject / skipArray / skipString, then the trailing-data check) accepts a
byte string exactly when it is a text of the same grammar — no float64 range condition, which
belongs to a float destination and not to the text. Finding D07 (passed-over parts were only
bracket-counted) is repaired; `Lemmas/Skip1.sim` is the statement for every nested position: the
element and member loops of the skip functions accept exactly what the decoders' loops accept. -/
theorem skipped_accepts_iff (b : List UInt8) :
    Model.Skip.skipAccepts b = true ↔ ValidText rxCurrent false maxDepth b := by
  rw [Model.Skip.skipAccepts_eq]
  exact accepts_iff false b

/-- in every nested position: an array / object body is passed over exactly when the decoder for
`interface{}` decodes it, with the same extent -/
theorem skipped_loops_agree (fuel d : Nat) (s rest : List UInt8) :
    (elements false fuel d s = .ok rest ↔ Model.Skip.skipElems fuel d s = .ok rest) ∧
    (members false fuel d s = .ok rest ↔ Model.Skip.skipMembers fuel d s = .ok rest) :=
  ⟨(Model.Skip.sim fuel).2.2.1 d s rest, (Model.Skip.sim fuel).2.2.2 d s rest⟩

example : Model.Skip.skipAccepts "{\"x\":[1,,]}".toUTF8.toList = false := by decide +kernel
example : Model.Skip.skipAccepts "{\"x\":[tru]}".toUTF8.toList = false := by decide +kernel
example : Model.Skip.skipAccepts "{\"x\":[1e999, \"\\u00e9\"]}".toUTF8.toList = true := by decide +kernel

/-- non-vacuity: concrete verdicts computed by the kernel -/
example : accepts true "[1, {\"a\": null}, \"x\"] ".toUTF8.toList = true := by decide +kernel
example : accepts true "01".toUTF8.toList = false := by decide +kernel
example : accepts true "[1,]".toUTF8.toList = false := by decide +kernel
example : accepts true "1\x00x".toUTF8.toList = false := by decide +kernel
example : accepts true "{null:1}".toUTF8.toList = false := by decide +kernel
example : accepts true "1e999".toUTF8.toList = false := by decide +kernel
example : accepts false "1e999".toUTF8.toList = true := by decide +kernel

end GoJson.Props.C05
