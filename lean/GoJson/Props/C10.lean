/-
C10 — all package functions are safe under concurrent use.

What can be proved is about interleavings of atomic steps (sequential consistency); what Go's memory
model allows an unsynchronised load to observe cannot be expressed here and is left to the race
detector (see the harness, which runs a -race build of itself).

  * `slot_cache_any_schedule`, `cow_map_any_schedule`: for every schedule of any number of
    goroutines asking for any types, every goroutine that finishes gets `compile t` for its type,
    and the cache never holds anything else — although updates of the copy-on-write map can be lost
    (`cow_update_can_be_lost`, a concrete schedule), a lost entry is only compiled again.
  * `slot_thread_finishes`: three steps of its own finish a goroutine whatever the others do (the
    production build has no lock to wait for).
  * `race_build_never_stuck`: with the lock discipline of the repaired race build — no goroutine asks
    for the lock while it holds it — there is no state in which somebody is unfinished and nobody
    can move, and the discipline is kept by every step; `old_nested_read_lock_deadlocks`: with the
    read lock taken twice (the code before the repair of finding D34) two goroutines reach such a
    state in two steps.
  * `protocols_are_the_modelled_ones`: the statements of the cache functions, regenerated from the
    source on every run (tools/extract/proto.go), are the ones these models were written from.
-/
import GoJson.Lemmas.Conc2
import GoJson.Gen.Proto

namespace GoJson.Props.C10
open GoJson.Model.Conc GoJson.Gen

/-- **Slot cache, any schedule**: starting from an empty cache, whatever the schedule, every goroutine
that has finished holds the program of its type and every filled slot holds the program of its type -/
theorem slot_cache_any_schedule (compile : Nat → Nat) (types : List Nat) (sched : List Nat) :
    let s := Slot.run compile ⟨fun _ => none, types.map (fun t => ⟨t, .start⟩)⟩ sched
    (∀ t ∈ s.threads, ∀ p, t.pc = .done p → p = compile t.typ) ∧ (∀ i p, s.slots i = some p → p = compile i) := by
  intro s
  have hinit : Slot.Inv compile ⟨fun _ => none, types.map (fun t => ⟨t, .start⟩)⟩ := by
    refine ⟨(by intro i p h; cases h), ?_⟩
    intro t ht
    simp only [List.mem_map] at ht
    obtain ⟨_, _, rfl⟩ := ht
    simp [Slot.okPC]
  have h := Slot.run_inv compile sched _ hinit
  refine ⟨?_, h.1⟩
  intro t ht p hp
  have := h.2 t ht
  simpa [Slot.okPC, hp] using this

/-- a goroutine of the production build is finished after three steps of its own -/
theorem slot_thread_finishes (compile : Nat → Nat) (s1 s2 s3 : Nat → Option Nat) (t : Slot.Thread) :
    ∃ p, (Slot.stepThread compile s3 (Slot.stepThread compile s2 (Slot.stepThread compile s1 t).2).2).2.pc = .done p :=
  Slot.three_steps_finish compile s1 s2 s3 t

/-- **Copy-on-write map, any schedule** -/
theorem cow_map_any_schedule (compile : Nat → Nat) (types : List Nat) (sched : List Nat) :
    let s := Cow.run compile ⟨[], types.map (fun t => ⟨t, .start⟩)⟩ sched
    (∀ t ∈ s.threads, ∀ p, t.pc = .done p → p = compile t.typ) ∧ (∀ e ∈ s.cur, e.2 = compile e.1) := by
  intro s
  have hinit : Cow.Inv compile ⟨[], types.map (fun t => ⟨t, .start⟩)⟩ := by
    refine ⟨(by intro e h; cases h), ?_⟩
    intro t ht
    simp only [List.mem_map] at ht
    obtain ⟨_, _, rfl⟩ := ht
    simp [Cow.okPC]
  have h := Cow.run_inv compile sched _ hinit
  refine ⟨?_, h.1⟩
  intro t ht p hp
  have := h.2 t ht
  simpa [Cow.okPC, hp] using this

/-- an update of the map can be lost: two goroutines load the empty map, both store their copy, the
entry of the first is gone — the map is still right about what it holds -/
theorem cow_update_can_be_lost :
    (Cow.run (fun t => t + 100) ⟨[], [⟨1, .start⟩, ⟨2, .start⟩]⟩ [0, 1, 0, 1, 0, 1]).cur = [(2, 102)] := by decide

/-- **Race build: never stuck** under the repaired discipline, in every state the discipline allows -/
theorem race_build_never_stuck (ts : List Lock.TS) (h : ∀ t ∈ ts, Lock.flat t = true) :
    Lock.stuck ts = false ∧ ∀ i, ∀ t ∈ Lock.step ts i, Lock.flat t = true :=
  ⟨Lock.flat_never_stuck ts h, fun i => Lock.step_flat ts i h⟩

/-- **Finding D34**: the read lock taken again while held. Goroutine 0 takes the read lock, goroutine 1
calls Lock and waits for it to leave, goroutine 0 asks for the read lock again and is kept out by the
waiting writer: nobody moves -/
theorem old_nested_read_lock_deadlocks :
    Lock.stuck (Lock.step (Lock.step [.idle [.nestedRead], .idle [.write]] 0) 1) = true := by decide

/-! ### the code the models were written from -/

def expected_enc_norace_CompileToGetCodeSet : List String := [
  "initEncoder()",
  "if typeptr > typeAddr.MaxTypeAddr || typeptr < typeAddr.BaseTypeAddr {",
  "codeSet, err := compileToGetCodeSetSlowPath(typeptr)",
  "if err != nil {",
  "return nil, err",
  "}",
  "return getFilteredCodeSetIfNeeded(ctx, codeSet)",
  "}",
  "index := (typeptr - typeAddr.BaseTypeAddr) >> typeAddr.AddrShift",
  "if codeSet := cachedOpcodeSets[index]; codeSet != nil {",
  "filtered, err := getFilteredCodeSetIfNeeded(ctx, codeSet)",
  "if err != nil {",
  "return nil, err",
  "}",
  "return filtered, nil",
  "}",
  "codeSet, err := newCompiler().compile(typeptr)",
  "if err != nil {",
  "return nil, err",
  "}",
  "filtered, err := getFilteredCodeSetIfNeeded(ctx, codeSet)",
  "if err != nil {",
  "return nil, err",
  "}",
  "cachedOpcodeSets[index] = codeSet",
  "return filtered, nil"]

def expected_enc_race_CompileToGetCodeSet : List String := [
  "initEncoder()",
  "if typeptr > typeAddr.MaxTypeAddr || typeptr < typeAddr.BaseTypeAddr {",
  "codeSet, err := compileToGetCodeSetSlowPath(typeptr)",
  "if err != nil {",
  "return nil, err",
  "}",
  "return getFilteredCodeSetIfNeeded(ctx, codeSet)",
  "}",
  "index := (typeptr - typeAddr.BaseTypeAddr) >> typeAddr.AddrShift",
  "setsMu.RLock()",
  "codeSet := cachedOpcodeSets[index]",
  "setsMu.RUnlock()",
  "if codeSet != nil {",
  "return getFilteredCodeSetIfNeeded(ctx, codeSet)",
  "}",
  "codeSet, err := newCompiler().compile(typeptr)",
  "if err != nil {",
  "return nil, err",
  "}",
  "filtered, err := getFilteredCodeSetIfNeeded(ctx, codeSet)",
  "if err != nil {",
  "return nil, err",
  "}",
  "setsMu.Lock()",
  "cachedOpcodeSets[index] = codeSet",
  "setsMu.Unlock()",
  "return filtered, nil"]

def expected_enc_compileToGetCodeSetSlowPath : List String := [
  "opcodeMap := loadOpcodeMap()",
  "if codeSet, exists := opcodeMap[typeptr]; exists {",
  "return codeSet, nil",
  "}",
  "codeSet, err := newCompiler().compile(typeptr)",
  "if err != nil {",
  "return nil, err",
  "}",
  "storeOpcodeSet(typeptr, codeSet, opcodeMap)",
  "return codeSet, nil"]

def expected_enc_storeOpcodeSet : List String := [
  "newOpcodeMap := make(map[uintptr]*OpcodeSet, len(m)+1)",
  "newOpcodeMap[typ] = set",
  "for k, v := range m {",
  "newOpcodeMap[k] = v",
  "}",
  "atomic.StorePointer(&cachedOpcodeMap, *(*unsafe.Pointer)(unsafe.Pointer(&newOpcodeMap)))"]

def expected_enc_loadOpcodeMap : List String := [
  "p := atomic.LoadPointer(&cachedOpcodeMap)",
  "return *(*map[uintptr]*OpcodeSet)(unsafe.Pointer(&p))"]

def expected_enc_filteredCodeSet : List String := [
  "cacheCodeSet := codeSet.getQueryCache(query.Hash())",
  "if cacheCodeSet != nil {",
  "return cacheCodeSet, nil",
  "}",
  "queryCodeSet, err := newCompiler().codeToOpcodeSet(codeSet.Type, codeSet.Code.Filter(query))",
  "if err != nil {",
  "return nil, err",
  "}",
  "codeSet.setQueryCache(query.Hash(), queryCodeSet)",
  "return queryCodeSet, nil"]

def expected_enc_getQueryCache : List String := [
  "s.cacheMu.RLock()",
  "codeSet := s.QueryCache[hash]",
  "s.cacheMu.RUnlock()",
  "return codeSet"]

def expected_enc_setQueryCache : List String := [
  "s.cacheMu.Lock()",
  "s.QueryCache[hash] = codeSet",
  "s.cacheMu.Unlock()"]

def expected_enc_FieldQuery_Hash : List String := [
  "if h, ok := q.hash.Load().(string); ok {",
  "return h",
  "}",
  "b, _ := Marshal(q)",
  "h := string(b)",
  "q.hash.Store(h)",
  "return h"]

def expected_dec_norace_CompileToGetDecoder : List String := [
  "initDecoder()",
  "typeptr := uintptr(unsafe.Pointer(typ))",
  "if typeptr > typeAddr.MaxTypeAddr || typeptr < typeAddr.BaseTypeAddr {",
  "return compileToGetDecoderSlowPath(typeptr, typ)",
  "}",
  "index := (typeptr - typeAddr.BaseTypeAddr) >> typeAddr.AddrShift",
  "if dec := cachedDecoder[index]; dec != nil {",
  "return dec, nil",
  "}",
  "dec, err := compileHead(typ, map[uintptr]Decoder{})",
  "if err != nil {",
  "return nil, err",
  "}",
  "cachedDecoder[index] = dec",
  "return dec, nil"]

def expected_dec_race_CompileToGetDecoder : List String := [
  "initDecoder()",
  "typeptr := uintptr(unsafe.Pointer(typ))",
  "if typeptr > typeAddr.MaxTypeAddr || typeptr < typeAddr.BaseTypeAddr {",
  "return compileToGetDecoderSlowPath(typeptr, typ)",
  "}",
  "index := (typeptr - typeAddr.BaseTypeAddr) >> typeAddr.AddrShift",
  "decMu.RLock()",
  "if dec := cachedDecoder[index]; dec != nil {",
  "decMu.RUnlock()",
  "return dec, nil",
  "}",
  "decMu.RUnlock()",
  "dec, err := compileHead(typ, map[uintptr]Decoder{})",
  "if err != nil {",
  "return nil, err",
  "}",
  "decMu.Lock()",
  "cachedDecoder[index] = dec",
  "decMu.Unlock()",
  "return dec, nil"]

def expected_dec_compileToGetDecoderSlowPath : List String := [
  "decoderMap := loadDecoderMap()",
  "if dec, exists := decoderMap[typeptr]; exists {",
  "return dec, nil",
  "}",
  "dec, err := compileHead(typ, map[uintptr]Decoder{})",
  "if err != nil {",
  "return nil, err",
  "}",
  "storeDecoder(typeptr, dec, decoderMap)",
  "return dec, nil"]

def expected_dec_storeDecoder : List String := [
  "initDecoder()",
  "newDecoderMap := make(map[uintptr]Decoder, len(m)+1)",
  "newDecoderMap[typ] = dec",
  "for k, v := range m {",
  "newDecoderMap[k] = v",
  "}",
  "atomic.StorePointer(&cachedDecoderMap, *(*unsafe.Pointer)(unsafe.Pointer(&newDecoderMap)))"]

def expected_dec_loadDecoderMap : List String := [
  "initDecoder()",
  "p := atomic.LoadPointer(&cachedDecoderMap)",
  "return *(*map[uintptr]Decoder)(unsafe.Pointer(&p))"]

/-- **The cache functions are the modelled ones** (statement lists regenerated from the source) -/
theorem protocols_are_the_modelled_ones :
    proto_enc_norace_CompileToGetCodeSet = expected_enc_norace_CompileToGetCodeSet ∧
    proto_enc_race_CompileToGetCodeSet = expected_enc_race_CompileToGetCodeSet ∧
    proto_enc_compileToGetCodeSetSlowPath = expected_enc_compileToGetCodeSetSlowPath ∧
    proto_enc_storeOpcodeSet = expected_enc_storeOpcodeSet ∧
    proto_enc_loadOpcodeMap = expected_enc_loadOpcodeMap ∧
    proto_enc_filteredCodeSet = expected_enc_filteredCodeSet ∧
    proto_enc_getQueryCache = expected_enc_getQueryCache ∧
    proto_enc_setQueryCache = expected_enc_setQueryCache ∧
    proto_enc_FieldQuery_Hash = expected_enc_FieldQuery_Hash ∧
    proto_dec_norace_CompileToGetDecoder = expected_dec_norace_CompileToGetDecoder ∧
    proto_dec_race_CompileToGetDecoder = expected_dec_race_CompileToGetDecoder ∧
    proto_dec_compileToGetDecoderSlowPath = expected_dec_compileToGetDecoderSlowPath ∧
    proto_dec_storeDecoder = expected_dec_storeDecoder ∧
    proto_dec_loadDecoderMap = expected_dec_loadDecoderMap := by
  refine ⟨by decide, by decide, by decide, by decide, by decide, by decide, by decide, by decide, by decide, by decide, by decide, by decide, by decide, by decide⟩

end GoJson.Props.C10
