/-
C07 — decoding touches only the destination: no stray reads or writes.

The part of this property that is arithmetic is the array decoder: which bytes are written when a
JSON array with n elements is decoded into a Go array of `alen` elements of `size` bytes. Proved on
the model of that arithmetic (`Model.Mem`): every store lies inside the array, for every length,
element size and n; the stores of the tail fill cover exactly the elements the document did not
supply, each completely; and the code before the repair of finding D20 (one machine word per
remaining element) does write outside the array — a concrete counter-example is part of the file.
Reads stay inside the private copy of the input by the sentinel theorem of C06.

Everything else the property says is about the Go runtime's view of memory (sibling fields,
neighbouring allocations, string and slice headers the garbage collector can traverse). That is
checked by execution: destinations laid out between canaries (harness c07.go), a walk of every
string / slice header after every call, and forced garbage collections.
-/
import GoJson.Model.Mem
import GoJson.Model.Pool
import GoJson.Props.C06

namespace GoJson.Props.C07
open GoJson.Model.Mem

/-- **Every store of the array decoder lies inside the array.** -/
theorem array_stores_in_bounds (alen size n : Nat) :
    ∀ w ∈ decodeArray alen size n, inBounds alen size w := by
  intro w hw
  unfold decodeArray at hw
  simp only [List.mem_append, List.mem_map, List.mem_range] at hw
  unfold inBounds
  rcases hw with ⟨i, hi, rfl⟩ | hz
  · have : i < alen := by omega
    simp only
    calc i * size + size = (i + 1) * size := by rw [Nat.add_mul i 1 size, Nat.one_mul]
      _ ≤ alen * size := Nat.mul_le_mul_right size (by omega)
  · unfold zeroFrom at hz
    simp only [List.mem_map, List.mem_range] at hz
    obtain ⟨k, hk, rfl⟩ := hz
    simp only
    have hlt : min n alen + k < alen := by omega
    calc (min n alen + k) * size + size = (min n alen + k + 1) * size := by
          rw [Nat.add_mul (min n alen + k) 1 size, Nat.one_mul]
      _ ≤ alen * size := Nat.mul_le_mul_right size (by omega)

/-- the tail fill clears each remaining element completely: element `j` (idx ≤ j < alen) receives one
store at its own offset, of its own size -/
theorem zeroFrom_covers (alen size idx j : Nat) (h1 : idx ≤ j) (h2 : j < alen) :
    (j * size, size) ∈ zeroFrom alen size idx := by
  unfold zeroFrom
  simp only [List.mem_map, List.mem_range]
  exact ⟨j - idx, by omega, by rw [show idx + (j - idx) = j by omega]⟩

/-- … and touches nothing below `idx`: the elements the document did supply keep what was decoded -/
theorem zeroFrom_leaves_decoded (alen size idx : Nat) :
    ∀ w ∈ zeroFrom alen size idx, idx * size ≤ w.1 := by
  intro w hw
  unfold zeroFrom at hw
  simp only [List.mem_map, List.mem_range] at hw
  obtain ⟨k, _, rfl⟩ := hw
  exact Nat.mul_le_mul_right size (by omega)

/-- **Finding D20, as a theorem about the old code**: with one-byte elements the word-sized tail
fill of a `[3]uint8` after one decoded element writes up to byte 10 of a 3-byte array -/
theorem old_fill_overruns : ∃ w ∈ fillWord 3 1 1, ¬ inBounds 3 1 w := by
  refine ⟨(1, 8), by decide, ?_⟩
  unfold inBounds
  decide

/-- reads: the scanners never leave the private, NUL-terminated copy of the input (C06) -/
theorem reads_stay_in_buffer (range : Bool) (fuel d : Nat) (b : List UInt8) :
    Model.BufDec.value range fuel d (b ++ [0]) ≠ .oob :=
  GoJson.Props.C06.decoder_never_reads_past_terminator range fuel d b

/-! ### the slice decoder's pooled working arrays -/

open GoJson.Model.Pool in
/-- one doubling is enough when indexes are visited in order: the index that does not fit is the
capacity itself -/
theorem run_inv : ∀ (n : Nat) (l : Loc) (idx : Nat), LInv l → idx ≤ l.cap →
    LInv (run l idx n).1 ∧ ∀ w ∈ (run l idx n).2, w.2 < w.1 := by
  intro n
  induction n with
  | zero => intro l idx h _; exact ⟨h, by intro w hw; cases hw⟩
  | succ n ih =>
    intro l idx h hle
    unfold run
    simp only
    have hfit : LInv (fit l idx) ∧ idx < (fit l idx).cap := by
      unfold fit
      by_cases hc : l.cap ≤ idx
      · have : idx = l.cap := by omega
        simp only [hc, if_true]
        unfold LInv at *
        simp only
        exact ⟨⟨Nat.le_refl _, by omega⟩, by omega⟩
      · simp only [hc, if_false]
        exact ⟨h, by omega⟩
    obtain ⟨h1, h2⟩ := ih (fit l idx) (idx + 1) hfit.1 (by omega)
    refine ⟨h1, ?_⟩
    intro w hw
    simp only [List.mem_cons] at hw
    rcases hw with rfl | hw
    · simp only
      have := hfit.1.1
      omega
    · exact h2 w hw

open GoJson.Model.Pool in
/-- **Every store of the element loop lies inside the working array, and the header that goes back to
the pool never claims more than its array holds** — for every pooled header that satisfies the
invariant, every number of elements, on the success path and on the releasing error paths alike. By
induction over the pool's history every header ever taken from the pool satisfies the invariant
(`Pool.New` makes ⟨2, 2⟩). -/
theorem pooled_header_never_overclaims (h : Hdr) (n : Nat) (hi : HInv h) :
    HInv (release (run (start h) 0 n).1) ∧ ∀ w ∈ (run (start h) 0 n).2, w.2 < w.1 := by
  have := run_inv n (start h) 0 (by unfold LInv start; exact hi) (Nat.zero_le _)
  exact ⟨by unfold HInv release; exact this.1, this.2⟩

open GoJson.Model.Pool in
theorem pool_new_inv : HInv ⟨2, 2⟩ := by unfold HInv; decide

open GoJson.Model.Pool in
/-- the seeded variant (capacity written back without the array): after one doubling the pooled
header claims 4 elements for an array of 2, and the next decode stores element 2 outside it -/
theorem stale_array_overclaims :
    ¬ HInv (releaseStale ⟨2, 2⟩ (run (start ⟨2, 2⟩) 0 3).1) ∧
    (2, 2) ∈ (run (start (releaseStale ⟨2, 2⟩ (run (start ⟨2, 2⟩) 0 3).1)) 0 3).2 := by
  unfold HInv
  decide

end GoJson.Props.C07
