/-
Spec: the meaning of a JSON string literal (RFC 8259 §7 with encoding/json's treatment of
surrogates), independent of any scanner: a literal body is the rendering of a list of items,
and `sem` says which bytes the items denote.  `coerceUtf8` is Go's reading of an arbitrary byte
string as text (each byte that does not start a well-formed sequence becomes U+FFFD).
-/
import GoJson.Spec.Utf8

namespace GoJson.Spec

inductive Item where
  /-- an unescaped byte -/
  | raw (b : UInt8)
  /-- `\"  \\  \/  \b  \f  \n  \r  \t` — `e` is the letter after the backslash -/
  | simple (e : UInt8)
  /-- `\uXXXX` with its four hex digits as written -/
  | uni (h1 h2 h3 h4 : UInt8)
deriving Repr, DecidableEq, Inhabited

def Item.render : Item → List UInt8
  | .raw b => [b]
  | .simple e => [92, e]
  | .uni h1 h2 h3 h4 => [92, 117, h1, h2, h3, h4]

def renderAll (is : List Item) : List UInt8 := is.flatMap Item.render

def isHexDigit (c : UInt8) : Bool :=
  (48 ≤ c.toNat && c.toNat ≤ 57) || (97 ≤ c.toNat && c.toNat ≤ 102) || (65 ≤ c.toNat && c.toNat ≤ 70)

def hexValue (c : UInt8) : Nat :=
  if 48 ≤ c.toNat && c.toNat ≤ 57 then c.toNat - 48
  else if 97 ≤ c.toNat && c.toNat ≤ 102 then c.toNat - 87
  else if 65 ≤ c.toNat && c.toNat ≤ 70 then c.toNat - 55
  else 0

def isSimpleLetter (e : UInt8) : Bool :=
  e == 34 || e == 92 || e == 47 || e == 98 || e == 102 || e == 110 || e == 114 || e == 116

/-- the byte a simple escape denotes -/
def simpleValue (e : UInt8) : UInt8 :=
  if e == 98 then 8 else if e == 102 then 12 else if e == 110 then 10
  else if e == 114 then 13 else if e == 116 then 9 else e

def code (h1 h2 h3 h4 : UInt8) : Nat :=
  4096 * hexValue h1 + 256 * hexValue h2 + 16 * hexValue h3 + hexValue h4

def isHighSur (c : Nat) : Bool := 0xD800 ≤ c && c < 0xDC00
def isLowSur (c : Nat) : Bool := 0xDC00 ≤ c && c < 0xE000

/-- Well-formed item. `strict` = RFC 8259 (no raw control characters); go-json's scanners also
accept raw control bytes except NUL (finding D02), which is `strict = false`. -/
def Item.wf (strict : Bool) : Item → Bool
  | .raw b => b != 34 && b != 92 && b != 0 && (!strict || 0x20 ≤ b.toNat)
  | .simple e => isSimpleLetter e
  | .uni h1 h2 h3 h4 => isHexDigit h1 && isHexDigit h2 && isHexDigit h3 && isHexDigit h4

/-- the code of a low-surrogate escape at the head of the list, if there is one -/
def peekLow : List Item → Option Nat
  | .uni l1 l2 l3 l4 :: _ => if isLowSur (code l1 l2 l3 l4) then some (code l1 l2 l3 l4) else none
  | _ => none

/-- the decoded bytes: a high surrogate directly followed by a low surrogate escape denotes one
supplementary code point; any other surrogate escape denotes U+FFFD (as in encoding/json) -/
def sem (l : List Item) : List UInt8 :=
  match l with
  | [] => []
  | .raw b :: r => b :: sem r
  | .simple e :: r => simpleValue e :: sem r
  | .uni h1 h2 h3 h4 :: r =>
    if isHighSur (code h1 h2 h3 h4) then
      match peekLow r with
      | some lo => utf8Encode (0x10000 + (code h1 h2 h3 h4 - 0xD800) * 1024 + (lo - 0xDC00)) ++ sem (r.drop 1)
      | none => runeError ++ sem r
    else utf8Encode (code h1 h2 h3 h4) ++ sem r
termination_by l.length
decreasing_by
  all_goals simp only [List.length_cons, List.length_drop]
  all_goals omega

/-- Go's reading of bytes as text -/
def coerceUtf8 (s : List UInt8) : List UInt8 :=
  match s with
  | [] => []
  | b :: t =>
    if utf8SeqLen (b :: t) = 0 then runeError ++ coerceUtf8 t
    else b :: t.take (utf8SeqLen (b :: t) - 1) ++ coerceUtf8 (t.drop (utf8SeqLen (b :: t) - 1))
termination_by s.length
decreasing_by
  all_goals simp only [List.length_cons, List.length_drop]
  all_goals omega

end GoJson.Spec
