/-
Spec: decimal notation of naturals and integers as ASCII bytes, and JSON integer literals.
Core-only (no Mathlib) so that the driver links.
-/
namespace GoJson.Spec

/-- ASCII digit for `d < 10`. -/
def digitByte (d : Nat) : UInt8 := (48 + d).toUInt8

/-- The decimal numeral of `n`, most significant digit first, no leading zeros ("0" for 0). -/
def decNat (n : Nat) : List UInt8 :=
  if h : n < 10 then [digitByte n] else decNat (n / 10) ++ [digitByte (n % 10)]
termination_by n
decreasing_by omega

/-- The decimal numeral of an integer: '-' followed by the numeral of the magnitude. -/
def decInt (i : Int) : List UInt8 :=
  if i < 0 then 45 :: decNat i.natAbs else decNat i.toNat

def isDigit (b : UInt8) : Bool := 48 ≤ b.toNat && b.toNat ≤ 57

/-- Value of a digit string (Horner). -/
def valNat (l : List UInt8) : Nat := l.foldl (fun a b => 10 * a + (b.toNat - 48)) 0

/-- `[1-9][0-9]*` or `0`. -/
def isJsonNat (l : List UInt8) : Bool :=
  match l with
  | [] => false
  | [b] => isDigit b
  | b :: rest => isDigit b && b != 48 && rest.all isDigit

/-- RFC 8259 `int` with optional minus: `-? (0 | [1-9][0-9]*)`. -/
def isJsonInt (l : List UInt8) : Bool :=
  match l with
  | 45 :: rest => isJsonNat rest
  | _ => isJsonNat l

def valInt (l : List UInt8) : Int :=
  match l with
  | 45 :: rest => - (valNat rest : Int)
  | _ => (valNat l : Int)

end GoJson.Spec
