/-
Spec: RFC 8259 JSON texts as an inductive grammar over bytes (no scanner involved), the number
literal grammar of section 6, and the float64 range condition of strconv.ParseFloat.

`Relax` lists the ways the implementation is known to deviate (open findings); the RFC language
is `Relax.none`.
-/
import GoJson.Spec.JsonString

namespace GoJson.Spec

structure Relax where
  /-- raw control bytes 0x01..0x1f inside strings are accepted (finding D02) -/
  ctlInString : Bool
deriving Repr, DecidableEq

def Relax.none : Relax := { ctlInString := false }

def isWsByte (b : UInt8) : Bool := b == 32 || b == 9 || b == 10 || b == 13

def AllWs (w : List UInt8) : Prop := ∀ b ∈ w, isWsByte b = true

def isDig (b : UInt8) : Bool := 48 ≤ b.toNat && b.toNat ≤ 57

/-! ### numbers: `-? (0 | [1-9][0-9]*) (\.[0-9]+)? ([eE][+-]?[0-9]+)?` -/

/-- drop a maximal run of digits, reporting whether at least one was dropped -/
def dropDigits : List UInt8 → Bool × List UInt8
  | [] => (false, [])
  | b :: r => if isDig b then (true, (dropDigits r).2) else (false, b :: r)

def numInt : List UInt8 → Option (List UInt8)
  | 48 :: r => some r
  | b :: r => if isDig b then some (dropDigits r).2 else none
  | [] => none

def numFrac : List UInt8 → Option (List UInt8)
  | 46 :: r => if (dropDigits r).1 then some (dropDigits r).2 else none
  | s => some s

def expDigits (r : List UInt8) : Option (List UInt8) :=
  if (dropDigits r).1 then some (dropDigits r).2 else none

def numExp (s : List UInt8) : Option (List UInt8) :=
  match s with
  | b :: r =>
    if b == 101 || b == 69 then
      match r with
      | 43 :: t => expDigits t
      | 45 :: t => expDigits t
      | _ => expDigits r
    else some s
  | [] => some []

/-- int frac? exp? and nothing else -/
def numBody (t1 : List UInt8) : Bool :=
  match numInt t1 with
  | none => false
  | some r1 =>
    match numFrac r1 with
    | none => false
    | some r2 =>
      match numExp r2 with
      | some [] => true
      | _ => false

/-- `t` is exactly one JSON number literal -/
def isNumber (t : List UInt8) : Bool :=
  match t with
  | 45 :: r => numBody r
  | _ => numBody t

/-! ### float64 range (strconv.ParseFloat reports ErrRange when the value rounds to ±Inf) -/

def digitsVal (l : List UInt8) : Nat := l.foldl (fun a b => 10 * a + (b.toNat - 48)) 0

def takeDigits : List UInt8 → List UInt8
  | [] => []
  | b :: r => if isDig b then b :: takeDigits r else []

/-- (2^54 − 1)·2^970: the smallest magnitude that rounds to infinity -/
def f64Overflow : Nat := (2 ^ 54 - 1) * 2 ^ 970

/-- the literal (assumed well formed) denotes a magnitude below the float64 overflow threshold -/
def inF64Range (t : List UInt8) : Bool :=
  let t1 := match t with
    | 45 :: r => r
    | _ => t
  let ip := takeDigits t1
  let r1 := t1.drop ip.length
  let fp := match r1 with
    | 46 :: r => takeDigits r
    | _ => []
  let r2 := match r1 with
    | 46 :: r => r.drop fp.length
    | _ => r1
  let (eneg, ed) := match r2 with
    | _ :: 45 :: r => (true, takeDigits r)
    | _ :: 43 :: r => (false, takeDigits r)
    | _ :: r => (false, takeDigits r)
    | [] => (false, [])
  let D := digitsVal (ip ++ fp)
  let E := digitsVal ed
  if D == 0 then true
  else if eneg then
    -- value = D · 10^(−E − |fp|) ≤ D
    let sh := E + fp.length
    if sh > 400 then true else decide (D < f64Overflow * 10 ^ sh)
  else if E ≥ fp.length then
    let sh := E - fp.length
    if sh > 400 then false else decide (D * 10 ^ sh < f64Overflow)
  else
    let sh := fp.length - E
    if sh > 400 then true else decide (D < f64Overflow * 10 ^ sh)

/-! ### the grammar -/

mutual
/-- `Value rx range d v`: the byte string `v` is exactly one JSON value nested at most `d` deep
(containers count), under relaxation `rx`; with `range` every number is within float64 range.
`Elements`/`Members` are the comma-separated bodies (without the brackets), with white space. -/
inductive Value (rx : Relax) (range : Bool) : Nat → List UInt8 → Prop where
  | null (d : Nat) : Value rx range d [110, 117, 108, 108]
  | true_ (d : Nat) : Value rx range d [116, 114, 117, 101]
  | false_ (d : Nat) : Value rx range d [102, 97, 108, 115, 101]
  | num (d : Nat) (t : List UInt8) : isNumber t = true → (range = true → inF64Range t = true) → Value rx range d t
  | str (d : Nat) (items : List Item) : (∀ i ∈ items, i.wf (!rx.ctlInString) = true) →
      Value rx range d (34 :: renderAll items ++ [34])
  | arrEmpty (d : Nat) (w : List UInt8) : AllWs w → Value rx range (d + 1) (91 :: w ++ [93])
  | arr (d : Nat) (body : List UInt8) : Elements rx range d body → Value rx range (d + 1) (91 :: body ++ [93])
  | objEmpty (d : Nat) (w : List UInt8) : AllWs w → Value rx range (d + 1) (123 :: w ++ [125])
  | obj (d : Nat) (body : List UInt8) : Members rx range d body → Value rx range (d + 1) (123 :: body ++ [125])

/-- `ws value ws ( , ws value ws )*` -/
inductive Elements (rx : Relax) (range : Bool) : Nat → List UInt8 → Prop where
  | one (d : Nat) (w1 v w2 : List UInt8) : AllWs w1 → Value rx range d v → AllWs w2 →
      Elements rx range d (w1 ++ v ++ w2)
  | more (d : Nat) (w1 v w2 rest : List UInt8) : AllWs w1 → Value rx range d v → AllWs w2 →
      Elements rx range d rest → Elements rx range d (w1 ++ v ++ w2 ++ 44 :: rest)

/-- `ws string ws : ws value ws ( , … )*` -/
inductive Members (rx : Relax) (range : Bool) : Nat → List UInt8 → Prop where
  | one (d : Nat) (w1 : List UInt8) (key : List Item) (w2 w3 v w4 : List UInt8) : AllWs w1 →
      (∀ i ∈ key, i.wf (!rx.ctlInString) = true) → AllWs w2 → AllWs w3 → Value rx range d v → AllWs w4 →
      Members rx range d (w1 ++ (34 :: renderAll key ++ [34]) ++ w2 ++ 58 :: (w3 ++ v ++ w4))
  | more (d : Nat) (w1 : List UInt8) (key : List Item) (w2 w3 v w4 rest : List UInt8) : AllWs w1 →
      (∀ i ∈ key, i.wf (!rx.ctlInString) = true) → AllWs w2 → AllWs w3 → Value rx range d v → AllWs w4 →
      Members rx range d rest →
      Members rx range d (w1 ++ (34 :: renderAll key ++ [34]) ++ w2 ++ 58 :: (w3 ++ v ++ w4) ++ 44 :: rest)

end

/-- a JSON text: one value with optional surrounding white space -/
def ValidText (rx : Relax) (range : Bool) (maxDepth : Nat) (b : List UInt8) : Prop :=
  ∃ w1 v w2, b = w1 ++ v ++ w2 ∧ AllWs w1 ∧ AllWs w2 ∧ Value rx range maxDepth v

end GoJson.Spec
