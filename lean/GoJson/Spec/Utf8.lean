/-
Spec: UTF-8 encoding of a code point as Go's utf8.EncodeRune does it (surrogates and values above
U+10FFFF become U+FFFD), and UTF-8 validity / coercion of byte strings as Go's range loop over a
string does it (each byte that does not start a well-formed sequence becomes U+FFFD).
Definitions follow the Unicode standard's Table 3-7 (well-formed UTF-8 byte sequences).
-/
namespace GoJson.Spec

def runeError : List UInt8 := [0xEF, 0xBF, 0xBD]

/-- `utf8.EncodeRune` -/
def utf8Encode (c : Nat) : List UInt8 :=
  if c < 0x80 then [c.toUInt8]
  else if c < 0x800 then [(0xC0 + c / 64).toUInt8, (0x80 + c % 64).toUInt8]
  else if 0xD800 ≤ c && c < 0xE000 then runeError
  else if c < 0x10000 then [(0xE0 + c / 4096).toUInt8, (0x80 + c / 64 % 64).toUInt8, (0x80 + c % 64).toUInt8]
  else if c < 0x110000 then
    [(0xF0 + c / 262144).toUInt8, (0x80 + c / 4096 % 64).toUInt8, (0x80 + c / 64 % 64).toUInt8, (0x80 + c % 64).toUInt8]
  else runeError

def isCont (b : UInt8) : Bool := 0x80 ≤ b.toNat && b.toNat ≤ 0xBF

/-- Length of the well-formed UTF-8 sequence at the head of `s`, per Table 3-7; `0` when the head
byte does not start one. -/
def utf8SeqLen (s : List UInt8) : Nat :=
  match s with
  | [] => 0
  | b0 :: t =>
    if b0.toNat < 0x80 then 1
    else if 0xC2 ≤ b0.toNat && b0.toNat ≤ 0xDF then
      match t with
      | b1 :: _ => if isCont b1 then 2 else 0
      | _ => 0
    else if b0.toNat == 0xE0 then
      match t with
      | b1 :: b2 :: _ => if 0xA0 ≤ b1.toNat && b1.toNat ≤ 0xBF && isCont b2 then 3 else 0
      | _ => 0
    else if (0xE1 ≤ b0.toNat && b0.toNat ≤ 0xEC) || b0.toNat == 0xEE || b0.toNat == 0xEF then
      match t with
      | b1 :: b2 :: _ => if isCont b1 && isCont b2 then 3 else 0
      | _ => 0
    else if b0.toNat == 0xED then
      match t with
      | b1 :: b2 :: _ => if 0x80 ≤ b1.toNat && b1.toNat ≤ 0x9F && isCont b2 then 3 else 0
      | _ => 0
    else if b0.toNat == 0xF0 then
      match t with
      | b1 :: b2 :: b3 :: _ => if 0x90 ≤ b1.toNat && b1.toNat ≤ 0xBF && isCont b2 && isCont b3 then 4 else 0
      | _ => 0
    else if 0xF1 ≤ b0.toNat && b0.toNat ≤ 0xF3 then
      match t with
      | b1 :: b2 :: b3 :: _ => if isCont b1 && isCont b2 && isCont b3 then 4 else 0
      | _ => 0
    else if b0.toNat == 0xF4 then
      match t with
      | b1 :: b2 :: b3 :: _ => if 0x80 ≤ b1.toNat && b1.toNat ≤ 0x8F && isCont b2 && isCont b3 then 4 else 0
      | _ => 0
    else 0

end GoJson.Spec
