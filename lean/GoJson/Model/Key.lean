/-
Model of go-json's struct-key matcher (internal/decoder/struct.go): `tryOptimize` builds, from the
lower-cased field names in sorted order, one bit set per (position, byte); `decodeKeyByBitmapUint8/16`
AND the sets of the (lower-cased) key characters and decide at the closing quote by the lowest set
bit and the "early match" length test. Names not eligible for the bitmap go through `decodeKey`
(exact lookup, then case-folded lookup in declaration order).

Bit sets are natural numbers (`&&&`, `|||`, `<<<`, `testBit`), `tz` is `bits.TrailingZeros8/16`.
A row index beyond the allocated `maxKeyLen + 1` rows, or a field index beyond `sortedFieldSets`,
is the explicit result `panic`; the theorems show it is never produced.
-/
namespace GoJson.Model.Key

/-- `largeToSmallTable` -/
def lower (b : UInt8) : UInt8 := if 65 ≤ b.toNat && b.toNat ≤ 90 then b + 32 else b

/-- byte-wise lexicographic `≤` (Go string comparison, `sort.Strings`) -/
def lexLe : List UInt8 → List UInt8 → Bool
  | [], _ => true
  | _ :: _, [] => false
  | a :: as, b :: bs => a.toNat < b.toNat || (a == b && lexLe as bs)

def insertSorted (k : List UInt8) : List (List UInt8) → List (List UInt8)
  | [] => [k]
  | x :: xs => if lexLe k x then k :: x :: xs else x :: insertSorted k xs

/-- `sort.Strings(sortedKeys)` -/
def sortNames : List (List UInt8) → List (List UInt8)
  | [] => []
  | k :: ks => insertSorted k (sortNames ks)

def maxLen : List (List UInt8) → Nat
  | [] => 0
  | k :: ks => max k.length (maxLen ks)

/-- `keyBitmap[j][c]` for the keys from index `i` on: bit `i + m` is set iff the m-th key has byte `c`
at position `j` -/
def rowFrom : List (List UInt8) → Nat → Nat → UInt8 → Nat
  | [], _, _, _ => 0
  | k :: ks, i, j, c => (if k[j]? = some c then 1 <<< i else 0) ||| rowFrom ks (i + 1) j c

def row (names : List (List UInt8)) (j : Nat) (c : UInt8) : Nat := rowFrom names 0 j c

/-- lowest set bit of `n` among the first `w` bits counted from `i`; `i + w` if there is none -/
def tzFrom : Nat → Nat → Nat → Nat
  | 0, i, _ => i
  | w + 1, i, n => if n.testBit i then i else tzFrom w (i + 1) n

/-- `bits.TrailingZeros8/16` -/
def tz (w n : Nat) : Nat := tzFrom w 0 n

inductive KR where
  | field (i : Nat)
  | notFound
  | panic
deriving Repr, DecidableEq, Inhabited

/-- the closing quote: lowest candidate, then the early-match test `keyLen < field.keyLen` -/
def finish (names : List (List UInt8)) (w cur idx : Nat) : KR :=
  match names[tz w cur]? with
  | none => .panic
  | some k => if idx < k.length then .notFound else .field (tz w cur)

/-- the character loop on already decoded characters -/
def scan (names : List (List UInt8)) (w : Nat) : (cur idx : Nat) → List UInt8 → KR
  | cur, idx, [] => finish names w cur idx
  | cur, idx, c :: cs =>
    if idx > maxLen names then .panic   -- `bitmap[keyIdx]` with `len(bitmap) = maxKeyLen + 1`
    else if cur &&& row names idx (lower c) = 0 then .notFound
    else scan names w (cur &&& row names idx (lower c)) (idx + 1) cs

def width (n : Nat) : Nat := if n ≤ 8 then 8 else 16

/-- `decodeKeyByBitmapUint8/16` on the decoded characters of a non-empty key; `names` are the sorted
lower-cased names -/
def matchSorted (names : List (List UInt8)) (chars : List UInt8) : KR :=
  match chars with
  | [] => .notFound      -- `""` returns no field before the loop
  | _ => scan names (width names.length) (2 ^ width names.length - 1) 0 chars

def isAscii (k : List UInt8) : Bool := k.all (fun b => b.toNat < 128)

/-- `tryOptimize`: ASCII names, at most 16 distinct lower-cased names and none longer than 64 bytes -/
def eligible (names : List (List UInt8)) : Bool :=
  names.all isAscii && (names.map (·.map lower)).Nodup && names.length ≤ 16 &&
    names.all (fun k => k.length ≤ 64) && names.all (fun k => k ≠ [])

/-- the bitmap matcher as built for the declared `names`: the selected name, if any -/
def bitmapSelect (names : List (List UInt8)) (chars : List UInt8) : Option (List UInt8) :=
  let sorted := sortNames (names.map (·.map lower))
  match matchSorted sorted chars with
  | .field i => sorted[i]?
  | _ => none

/-! ### raw key text: escapes -/

def isHex (c : UInt8) : Bool :=
  (48 ≤ c.toNat && c.toNat ≤ 57) || (97 ≤ c.toNat && c.toNat ≤ 102) || (65 ≤ c.toNat && c.toNat ≤ 70)

def hexVal (c : UInt8) : Nat :=
  if 48 ≤ c.toNat && c.toNat ≤ 57 then c.toNat - 48
  else if 97 ≤ c.toNat && c.toNat ≤ 102 then c.toNat - 87
  else c.toNat - 55

def hex4 (a b c d : UInt8) : Nat := ((hexVal a * 16 + hexVal b) * 16 + hexVal c) * 16 + hexVal d

def utf8 (r : Nat) : List UInt8 :=
  if r < 0x80 then [r.toUInt8]
  else if r < 0x800 then [(0xC0 + r / 64).toUInt8, (0x80 + r % 64).toUInt8]
  else if r < 0x10000 then [(0xE0 + r / 4096).toUInt8, (0x80 + r / 64 % 64).toUInt8, (0x80 + r % 64).toUInt8]
  else [(0xF0 + r / 262144).toUInt8, (0x80 + r / 4096 % 64).toUInt8, (0x80 + r / 64 % 64).toUInt8, (0x80 + r % 64).toUInt8]

def fffd : List UInt8 := [0xEF, 0xBF, 0xBD]

/-- `decodeKeyCharByEscapedChar` on the text after the backslash (the text ends with the NUL
terminator, so a missing byte shows as a failed test): the decoded characters and the number of
bytes of the escape after the backslash -/
def esc : List UInt8 → Option (List UInt8 × Nat)
  | [] => none
  | e :: r =>
    if e == 34 then some ([34], 1)
    else if e == 92 then some ([92], 1)
    else if e == 47 then some ([47], 1)
    else if e == 98 then some ([8], 1)
    else if e == 102 then some ([12], 1)
    else if e == 110 then some ([10], 1)
    else if e == 114 then some ([13], 1)
    else if e == 116 then some ([9], 1)
    else if e == 117 then
      if r.length < 5 then none                       -- `cursor+defaultOffset >= len(buf)`
      else if isHex (r.getD 0 0) && isHex (r.getD 1 0) && isHex (r.getD 2 0) && isHex (r.getD 3 0) then
        if 0xD800 ≤ hex4 (r.getD 0 0) (r.getD 1 0) (r.getD 2 0) (r.getD 3 0) &&
            hex4 (r.getD 0 0) (r.getD 1 0) (r.getD 2 0) (r.getD 3 0) < 0xE000 then
          if r.length < 11 || r.getD 4 0 != 92 || r.getD 5 0 != 117 then some (fffd, 5)
          else if isHex (r.getD 6 0) && isHex (r.getD 7 0) && isHex (r.getD 8 0) && isHex (r.getD 9 0) then
            if hex4 (r.getD 0 0) (r.getD 1 0) (r.getD 2 0) (r.getD 3 0) < 0xDC00 &&
                0xDC00 ≤ hex4 (r.getD 6 0) (r.getD 7 0) (r.getD 8 0) (r.getD 9 0) &&
                hex4 (r.getD 6 0) (r.getD 7 0) (r.getD 8 0) (r.getD 9 0) < 0xE000 then
              some (utf8 (0x10000 + (hex4 (r.getD 0 0) (r.getD 1 0) (r.getD 2 0) (r.getD 3 0) - 0xD800) * 1024 +
                (hex4 (r.getD 6 0) (r.getD 7 0) (r.getD 8 0) (r.getD 9 0) - 0xDC00)), 11)
            else some (fffd, 5)
          else none
        else some (utf8 (hex4 (r.getD 0 0) (r.getD 1 0) (r.getD 2 0) (r.getD 3 0)), 5)
      else none
    else none

inductive RR where
  | field (i : Nat)
  | notFound
  | err
  | panic
deriving Repr, DecidableEq, Inhabited

def ofKR : KR → RR
  | .field i => .field i
  | .notFound => .notFound
  | .panic => .panic

def isSimpleEsc (e : UInt8) : Bool :=
  e == 34 || e == 92 || e == 47 || e == 98 || e == 102 || e == 110 || e == 114 || e == 116

/-- `decodeKeyNotFound`: skip the rest of a key that cannot match, checking its escapes. `l` starts
after the byte the caller stopped on. -/
def skipRest (l : List UInt8) : Bool :=
  match l with
  | [] => false
  | c :: r =>
    if c == 34 then true
    else if c.toNat < 32 then false
    else if c == 92 then
      match r with
      | [] => false
      | e :: r2 =>
        if isSimpleEsc e then skipRest r2
        else if e == 117 then
          if isHex (r2.getD 0 0) && isHex (r2.getD 1 0) && isHex (r2.getD 2 0) && isHex (r2.getD 3 0) then
            skipRest (r2.drop 4)
          else false
        else false
    else skipRest r
termination_by l.length
decreasing_by
  all_goals simp only [List.length_cons, List.length_drop]
  all_goals omega

/-- all characters of the key text up to the closing quote, `none` when the text is not a key
(bad escape or no closing quote) -/
def keyChars (l : List UInt8) : Option (List UInt8) :=
  match l with
  | [] => none
  | c :: r =>
    if c == 34 then some []
    else if c.toNat < 32 then none
    else if c == 92 then
      match esc r with
      | some (chars, n) => (keyChars (r.drop n)).map (chars ++ ·)
      | none => none
    else (keyChars r).map (c :: ·)
termination_by l.length
decreasing_by
  all_goals simp only [List.length_cons, List.length_drop]
  all_goals omega

/-- the inner `for _, c := range chars` loop of an escape: the state after the characters, `none`
when the candidate set became empty, `panic` for a row index out of range -/
inductive Feed where
  | cont (cur idx : Nat)
  | zero
  | panic
deriving Repr, DecidableEq, Inhabited

def feed (names : List (List UInt8)) : (cur idx : Nat) → List UInt8 → Feed
  | cur, idx, [] => .cont cur idx
  | cur, idx, c :: cs =>
    if idx > maxLen names then .panic
    else if cur &&& row names idx (lower c) = 0 then .zero
    else feed names (cur &&& row names idx (lower c)) (idx + 1) cs

/-- the character loop of `decodeKeyByBitmapUint8/16` on the raw text after the opening quote -/
def rawScan (names : List (List UInt8)) (w : Nat) (cur idx : Nat) (l : List UInt8) : RR :=
  match l with
  | [] => .err
  | c :: r =>
    if c == 34 then ofKR (finish names w cur idx)
    else if c.toNat < 32 then .err
    else if c == 92 then
      match esc r with
      | none => .err
      | some (chars, n) =>
        match feed names cur idx chars with
        | .panic => .panic
        | .zero => if skipRest (r.drop 1) then .notFound else .err
        | .cont cur' idx' => rawScan names w cur' idx' (r.drop n)
    else
      match feed names cur idx [c] with
      | .panic => .panic
      | .zero => if skipRest r then .notFound else .err
      | .cont cur' idx' => rawScan names w cur' idx' r
termination_by l.length
decreasing_by
  all_goals simp only [List.length_cons, List.length_drop]
  all_goals omega

/-- `decodeKeyByBitmapUint8/16` on the text after the opening quote -/
def rawMatch (names : List (List UInt8)) (l : List UInt8) : RR :=
  match l with
  | 34 :: _ => .notFound
  | _ => rawScan names (width names.length) (2 ^ width names.length - 1) 0 l

/-! ### names that do not use the bitmap: `decodeKey` -/

def foldAscii (k : List UInt8) : List UInt8 := k.map lower

/-- exact name first, then the first name in declaration order with the same (ASCII) folding -/
def mapSelect (names : List (List UInt8)) (key : List UInt8) : Option Nat :=
  match names.findIdx? (· == key) with
  | some i => some i
  | none => names.findIdx? (fun k => foldAscii k == foldAscii key)

end GoJson.Model.Key
