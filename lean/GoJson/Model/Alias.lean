/-
Model of where a Decoder's stream window is written (internal/decoder/stream.go read / readBuf /
reset, string.go decodeEscapeString / decodeUnicode / stringBytes): the window `s.buf` as a slice of
a backing array, with absolute positions, and the string literals handed out to the caller as
regions of that array. Decoded stream strings are views into the window (string.go DecodeStream
stores the slice header as the string), so the question "are values decoded earlier altered by
later Decode calls" is the question whether a later write of the stream machine can land in a
region handed out before.
-/
namespace GoJson.Model.Alias

structure Region where
  arr : Nat    -- which backing array
  a : Nat      -- absolute [a, b)
  b : Nat
  deriving Repr, DecidableEq

structure Write where
  arr : Nat
  lo : Nat     -- absolute [lo, hi)
  hi : Nat
  deriving Repr, DecidableEq

structure St where
  arr : Nat          -- backing array of s.buf
  origin : Nat       -- absolute index of s.buf[0]
  cursor : Nat       -- s.cursor
  length : Nat       -- s.length
  lit : Option Nat   -- absolute start of the string literal being scanned
  out : List Region  -- literals handed out so far
  deriving Repr

def init : St := { arr := 0, origin := 0, cursor := 0, length := 0, lit := none, out := [] }

inductive Op where
  | adv (k : Nat)                        -- the scanner moves on
  | read (n : Nat) (grow : Bool)         -- Stream.read: (new array of twice the size,) n bytes + NUL behind the data
  | reset                                -- Stream.reset: s.buf = s.buf[s.cursor:]
  | beginString                          -- opening quote at the cursor
  | escape (removed newCursor : Nat)     -- decodeEscapeString / decodeUnicode at a backslash at the cursor
  | badRune                              -- stringBytes: ill-formed UTF-8, the window is rebuilt in a new array
  | endString                            -- closing quote at the cursor: buf[lit, cursor) goes to the caller
  deriving Repr

/-- one operation: the new state and the byte ranges it stores to; `none` when the operation does
not apply in this state -/
def step (s : St) : Op → Option (St × List Write)
  | .adv k => if s.cursor + k ≤ s.length then some ({ s with cursor := s.cursor + k }, []) else none
  | .read n grow =>
    if grow then
      -- make + copy: everything is in a new array, the window starts at its beginning
      let s1 : St := { s with arr := s.arr + 1, origin := 0, lit := s.lit.map (· - s.origin) }
      some ({ s1 with length := s.length + n },
            [⟨s.arr + 1, 0, s.length⟩, ⟨s.arr + 1, s.length, s.length + n + 1⟩])
    else
      some ({ s with length := s.length + n }, [⟨s.arr, s.origin + s.length, s.origin + s.length + n + 1⟩])
  | .reset =>
    match s.lit with
    | some _ => none
    | none => some ({ s with origin := s.origin + s.cursor, length := s.length - s.cursor, cursor := 0 }, [])
  | .beginString =>
    match s.lit with
    | some _ => none
    | none =>
      if s.cursor < s.length then some ({ s with lit := some (s.origin + s.cursor + 1), cursor := s.cursor + 1 }, [])
      else none
  | .escape removed newCursor =>
    match s.lit with
    | none => none
    | some st =>
      if st ≤ s.origin + s.cursor ∧ s.cursor < s.length ∧ removed ≤ s.length - s.cursor - 1 ∧
         s.cursor ≤ newCursor ∧ newCursor ≤ s.length - removed then
        -- the decoded character is stored at the cursor (or behind it) and the tail moves left
        some ({ s with length := s.length - removed, cursor := newCursor },
              [⟨s.arr, s.origin + s.cursor, s.origin + s.length⟩])
      else none
  | .badRune =>
    match s.lit with
    | none => none
    | some st =>
      if st ≤ s.origin + s.cursor ∧ s.cursor < s.length then
        some ({ s with arr := s.arr + 1, origin := 0, lit := some (st - s.origin), length := s.length + 2,
                       cursor := s.cursor + 3 },
              [⟨s.arr + 1, 0, s.length + 2⟩])
      else none
  | .endString =>
    match s.lit with
    | none => none
    | some st =>
      if st ≤ s.origin + s.cursor ∧ s.cursor < s.length then
        some ({ s with out := ⟨s.arr, st, s.origin + s.cursor⟩ :: s.out, lit := none, cursor := s.cursor + 1 }, [])
      else none

/-- a write misses a region -/
def misses (w : Write) (r : Region) : Prop := r.arr ≠ w.arr ∨ r.b ≤ w.lo ∨ w.hi ≤ r.a

/-- every write of every step of the run misses every literal handed out before that step -/
def Stable : St → List Op → Prop
  | _, [] => True
  | s, op :: ops =>
    match step s op with
    | none => True
    | some (s', ws) => (∀ w ∈ ws, ∀ r ∈ s.out, misses w r) ∧ Stable s' ops

end GoJson.Model.Alias
