/-
Model of the functions that pass over a value the destination has no use for
(internal/decoder/context.go skipValue / skipObject / skipMember / skipObjectRest / skipArray /
skipString, and their stream twins in stream.go), as a recogniser on the suffix view of the
NUL-terminated buffer. They are used for unknown struct members, surplus array elements, repeated
members under first-win, and to find the extent of the text handed to UnmarshalJSON / UnmarshalText.

Since the repair of D07 they are validating scanners with the shape of the decoders modelled in
`Model.BufDec`; the differences are in the number branch (no float64 range check, and no look at the
byte after the token: the caller's loop looks at it).
-/
import GoJson.Model.BufDec

namespace GoJson.Model.Skip
open GoJson GoJson.Model.BufDec

/-- the number branch of `skipValue`: `for floatTable[buf[cursor]] { cursor++ }`, then `isValidNumber` -/
def skipNumber (b : UInt8) (r : List UInt8) : R :=
  let tok := b :: (munch r).1
  match (munch r).2 with
  | [] => .oob
  | c :: t => if Spec.isNumber tok then .ok (c :: t) else .err

mutual
/-- `skipValue` -/
def skipV : (fuel : Nat) → (depth : Nat) → List UInt8 → R
  | 0, _, _ => .err
  | fuel + 1, depth, s =>
    match skipWs s with
    | [] => .oob
    | b :: r =>
      if b == 123 then
        -- skipObject: depth check, ws, '}' or skipMember + skipObjectRest
        if depth + 1 > maxDepth then .err
        else
          match skipWs r with
          | [] => .oob
          | c :: r2 => if c == 125 then .ok r2 else skipMembers fuel (depth + 1) (c :: r2)
      else if b == 91 then
        if depth + 1 > maxDepth then .err
        else
          match skipWs r with
          | [] => .oob
          | c :: r2 => if c == 93 then .ok r2 else skipElems fuel (depth + 1) (c :: r2)
      else if b == 45 || (48 ≤ b.toNat && b.toNat ≤ 57) then skipNumber b r
      else if b == 34 then stringTail r
      else if b == 116 then lit [116, 114, 117, 101] (b :: r)
      else if b == 102 then lit [102, 97, 108, 115, 101] (b :: r)
      else if b == 110 then lit [110, 117, 108, 108] (b :: r)
      else .err

/-- the element loop of `skipArray` -/
def skipElems : (fuel : Nat) → (depth : Nat) → List UInt8 → R
  | 0, _, _ => .err
  | fuel + 1, depth, s =>
    match skipV fuel depth s with
    | .ok rest =>
      match skipWs rest with
      | [] => .oob
      | c :: r => if c == 93 then .ok r else if c == 44 then skipElems fuel depth r else .err
    | e => e

/-- `skipMember` followed by `skipObjectRest` -/
def skipMembers : (fuel : Nat) → (depth : Nat) → List UInt8 → R
  | 0, _, _ => .err
  | fuel + 1, depth, s =>
    match skipWs s with
    | [] => .oob
    | q :: r =>
      if q != 34 then .err
      else
        match stringTail r with
        | .ok afterKey =>
          match skipWs afterKey with
          | [] => .oob
          | c :: r2 =>
            if c != 58 then .err
            else
              match skipV fuel depth r2 with
              | .ok rest =>
                match skipWs rest with
                | [] => .oob
                | e :: r3 => if e == 125 then .ok r3 else if e == 44 then skipMembers fuel depth r3 else .err
              | e => e
        | e => e
end

/-- a destination that passes over the whole document (an Unmarshaler at the root): `skipValue` at
cursor 0 of `b ++ [0]`, then `validateEndBuf` -/
def skipAccepts (b : List UInt8) : Bool :=
  match skipV (2 * b.length + 4) 0 (b ++ [0]) with
  | .ok rest => skipWs rest == [0]
  | _ => false

end GoJson.Model.Skip
