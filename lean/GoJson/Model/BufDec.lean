/-
Model of go-json's buffer-mode decoding into interface{} as a recogniser
(internal/decoder/interface.go decodeEmptyInterface, map.go, slice.go, string.go, float.go,
context.go validate*, decode.go validateEndBuf) on the suffix view of the NUL-terminated buffer.
Values are not built here (C02); this model decides which byte strings are accepted.
-/
import GoJson.Gen.Tables
import GoJson.Gen.Consts
import GoJson.Spec.Json
import GoJson.Model.StrDec

namespace GoJson.Model.BufDec
open GoJson

inductive R where
  | ok (rest : List UInt8)
  | err
  | oob
deriving Repr, DecidableEq, Inhabited

def wsTbl (b : UInt8) : Bool := Gen.dec_isWhiteSpace.getD b.toNat 0 == 1
def floatTbl (b : UInt8) : Bool := Gen.dec_floatTable.getD b.toNat 0 == 1
def validEnd (b : UInt8) : Bool := Gen.dec_validEndNumberChar.getD b.toNat 0 == 1
def maxDepth : Nat := Gen.c_dec_maxDecodeNestingDepth

/-- `skipWhiteSpace` -/
def skipWs : List UInt8 → List UInt8
  | [] => []
  | b :: r => if wsTbl b then skipWs r else b :: r

/-- `for floatTable[buf[cursor]] { cursor++ }` -/
def munch : List UInt8 → List UInt8 × List UInt8
  | [] => ([], [])
  | b :: r => if floatTbl b then ((b :: (munch r).1), (munch r).2) else ([], b :: r)

/-- `floatDecoder.Decode` for a value that starts with '-' or a digit (first byte `b`) -/
def number (range : Bool) (b : UInt8) (r : List UInt8) : R :=
  let tok := b :: (munch r).1
  let rest := (munch r).2
  match rest with
  | [] => .oob
  | c :: _ =>
    if !validEnd c then .err
    else if !Spec.isNumber tok then .err
    else if range && !Spec.inF64Range tok then .err
    else .ok rest

/-- a string value or key starting at the opening quote (already consumed): `scanBody` -/
def stringTail (r : List UInt8) : R :=
  match StrDec.scanBody r with
  | .ok (_, n, _) => .ok (r.drop n)
  | .error .oob => .oob
  | .error _ => .err

def lit (expect : List UInt8) (s : List UInt8) : R :=
  -- validateTrue/False/Null: `cursor+len-1 >= len(buf)` then byte compares
  if s.length < expect.length then .err
  else if s.take expect.length == expect then .ok (s.drop expect.length) else .err

mutual
/-- `decodeEmptyInterface` -/
def value (range : Bool) : (fuel : Nat) → (depth : Nat) → List UInt8 → R
  | 0, _, _ => .err
  | fuel + 1, depth, s =>
    match skipWs s with
    | [] => .oob
    | b :: r =>
      if b == 123 then
        -- mapDecoder.Decode: depth++, limit, '{', ws, '}' or member loop
        if depth + 1 > maxDepth then .err
        else
          match skipWs r with
          | [] => .oob
          | c :: r2 => if c == 125 then .ok r2 else members range fuel (depth + 1) (c :: r2)
      else if b == 91 then
        if depth + 1 > maxDepth then .err
        else
          match skipWs r with
          | [] => .oob
          | c :: r2 => if c == 93 then .ok r2 else elements range fuel (depth + 1) (c :: r2)
      else if b == 45 || (48 ≤ b.toNat && b.toNat ≤ 57) then number range b r
      else if b == 34 then stringTail r
      else if b == 116 then lit [116, 114, 117, 101] (b :: r)
      else if b == 102 then lit [102, 97, 108, 115, 101] (b :: r)
      else if b == 110 then lit [110, 117, 108, 108] (b :: r)
      else .err

/-- the element loop of `sliceDecoder.Decode` (cursor at the first byte of an element) -/
def elements (range : Bool) : (fuel : Nat) → (depth : Nat) → List UInt8 → R
  | 0, _, _ => .err
  | fuel + 1, depth, s =>
    match value range fuel depth s with
    | .ok rest =>
      match skipWs rest with
      | [] => .oob
      | c :: r => if c == 93 then .ok r else if c == 44 then elements range fuel depth r else .err
    | e => e

/-- the member loop of `mapDecoder.Decode` -/
def members (range : Bool) : (fuel : Nat) → (depth : Nat) → List UInt8 → R
  | 0, _, _ => .err
  | fuel + 1, depth, s =>
    match skipWs s with
    | [] => .oob
    | q :: r =>
      if q != 34 then .err
      else
        match stringTail r with
        | .ok afterKey =>
          match skipWs afterKey with
          | [] => .oob
          | c :: r2 =>
            if c != 58 then .err
            else
              match value range fuel depth r2 with
              | .ok rest =>
                match skipWs rest with
                | [] => .oob
                | e :: r3 => if e == 125 then .ok r3 else if e == 44 then members range fuel depth r3 else .err
              | e => e
        | e => e
end

/-- `Unmarshal(b, &interface{})`: decode at cursor 0 of `b ++ [0]`, then `validateEndBuf` -/
def accepts (range : Bool) (b : List UInt8) : Bool :=
  match value range (2 * b.length + 4) 0 (b ++ [0]) with
  | .ok rest => skipWs rest == [0]
  | _ => false

end GoJson.Model.BufDec
