/-
Field queries (query.go, internal/encoder/query.go, code.go `Filter`): a query is a tree of field
names; `MarshalContext` with a query prints the value restricted to the selected struct fields.
`proj` is that restriction on the value trees of the encoder specification (`Model.Enc`): a struct
keeps the members the query names (the last entry wins when a name is listed twice), a member listed
without sub-fields is kept whole, and the query passes unchanged through pointers, interfaces,
slices, arrays and the values of maps.

`render` / `build` model `FieldQuery.MarshalJSON` / `FieldQueryString.Build` on the JSON value that
travels between them.
-/
import GoJson.Model.Enc

namespace GoJson.Model.Query
open GoJson GoJson.Model.Enc

mutual
inductive Q where
  | node (name : List UInt8) (fields : Qs)
inductive Qs where
  | nil
  | cons (q : Q) (r : Qs)
end

def Qs.isNil : Qs → Bool
  | .nil => true
  | _ => false

/-- `fieldMap[field.Name] = field` over `query.Fields`: the sub-fields of the last entry named `k` -/
def lookup : Qs → List UInt8 → Option Qs
  | .nil, _ => none
  | .cons (.node n sub) r, k =>
    match lookup r k with
    | some s => some s
    | none => if n = k then some sub else none

mutual
def proj (fs : Qs) : GV → GV
  | .ptr v => .ptr (proj fs v)
  | .arr es => .arr (projEs fs es)
  | .obj true ms => .obj true (projVals fs ms)
  | .obj false ms => .obj false (projMs fs ms)
  | .null => .null
  | .bool b => .bool b
  | .int i => .int i
  | .num t z => .num t z
  | .str s => .str s
  | .raw t => .raw t
def projEs (fs : Qs) : GVs → GVs
  | .nil => .nil
  | .cons v r => .cons (proj fs v) (projEs fs r)
/-- map values -/
def projVals (fs : Qs) : GMs → GMs
  | .nil => .nil
  | .cons k om q v r => .cons k om q (proj fs v) (projVals fs r)
/-- struct members -/
def projMs (fs : Qs) : GMs → GMs
  | .nil => .nil
  | .cons k om q v r =>
    match lookup fs k with
    | none => projMs fs r
    | some sub => .cons k om q (if sub.isNil then v else proj sub v) (projMs fs r)
end

/-- `MarshalContext` with a query -/
def marshalQuery (html : Bool) (lay : Compact.Layout) (fs : Qs) (v : GV) : Option (List UInt8) :=
  enc html lay 0 (proj fs v)

/-! ### the query as JSON: MarshalJSON and Build -/

mutual
inductive JQ where
  | str (s : List UInt8)
  | obj (name : List UInt8) (v : JQ)     -- an object with exactly one member
  | arr (l : JQs)
inductive JQs where
  | nil
  | cons (v : JQ) (r : JQs)
end

mutual
/-- `FieldQuery.MarshalJSON` -/
def render : Q → JQ
  | .node n fs =>
    if n.isEmpty then .arr (renderAll fs)
    else if fs.isNil then .str n
    else .obj n (.arr (renderAll fs))
def renderAll : Qs → JQs
  | .nil => .nil
  | .cons q r => .cons (render q) (renderAll r)
end

mutual
/-- `FieldQueryString.build`; a string that starts with `[` or `{` is parsed again as JSON by the
code, which the model does not follow: `none` -/
def build : JQ → Option Q
  | .str s =>
    match s with
    | [] => none                 -- `b[0]` of an empty string panics in the code
    | c :: _ => if c == 91 || c == 123 then none else some (.node s .nil)
  | .obj n v =>
    match build v with
    | some (.node _ fs) => some (.node n fs)
    | none => none
  | .arr l => (buildAll l).map (fun fs => .node [] fs)
def buildAll : JQs → Option Qs
  | .nil => some .nil
  | .cons v r =>
    match build v, buildAll r with
    | some q, some qs => some (.cons q qs)
    | _, _ => none
end

end GoJson.Model.Query
