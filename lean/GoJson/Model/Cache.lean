/-
Model of the type-address-indexed program caches (internal/runtime/type.go AnalyzeTypeAddr,
encoder/compiler_{norace,race}.go, decoder/compile_{norace,race}.go after the lower-bound fix).
Addresses are natural numbers below 2^64; every subtraction in the code is guarded so that it
does not wrap (shown by the theorems), which is why `Nat` is faithful here.
-/
namespace GoJson.Model.Cache

structure TypeAddr where
  base : Nat
  max : Nat
  range : Nat
  shift : Nat
deriving Repr, DecidableEq, Inhabited

def maxAcceptable : Nat := 1024 * 1024 * 2

structure Scan where
  min : Nat
  max : Nat
  a64 : Bool
  a32 : Bool
deriving Repr, DecidableEq

/-- one iteration of the typelinks loop: the descriptor address, and the element type's address
when the type is a pointer -/
def scanStep (s : Scan) (e : Nat × Option Nat) : Scan :=
  let min1 := if s.min > e.1 then e.1 else s.min
  let max1 := if s.max < e.1 then e.1 else s.max
  let addr := match e.2 with
    | some el => el
    | none => e.1
  let min2 := match e.2 with
    | some el => if min1 > el then el else min1
    | none => min1
  let max2 := match e.2 with
    | some el => if max1 < el then el else max1
    | none => max1
  { min := min2, max := max2,
    a64 := s.a64 && ((addr - min2) % 64 == 0),
    a32 := s.a32 && ((addr - min2) % 32 == 0) }

def scanAll (l : List (Nat × Option Nat)) : Scan :=
  l.foldl scanStep { min := 2 ^ 64 - 1, max := 0, a64 := true, a32 := true }

def shiftOf (s : Scan) : Nat := if s.a64 then 6 else if s.a32 then 5 else 0

/-- `AnalyzeTypeAddr` (for a single typelinks section) -/
def analyze (l : List (Nat × Option Nat)) : Option TypeAddr :=
  let s := scanAll l
  let range := s.max - s.min
  if range == 0 then none
  else
    if range / 2 ^ shiftOf s > maxAcceptable then none
    else some { base := s.min, max := s.max, range := range, shift := shiftOf s }

def cacheSize (ta : TypeAddr) : Nat := ta.range / 2 ^ ta.shift + 1

/-- the fast-path test and index of CompileToGetCodeSet / CompileToGetDecoder: `none` = map path -/
def index (ta : TypeAddr) (a : Nat) : Option Nat :=
  if a > ta.max || a < ta.base then none else some ((a - ta.base) / 2 ^ ta.shift)

/-! ### the cache as a state machine -/

/-- programs are identified by the type they were compiled for -/
structure State where
  slots : List (Nat × Nat)   -- (index, type address of the cached program)
  map : List (Nat × Nat)     -- (type address, type address of the cached program)
deriving Repr

def State.empty : State := { slots := [], map := [] }

def lookupKey (l : List (Nat × Nat)) (k : Nat) : Option Nat :=
  match l.find? (fun p => p.1 == k) with
  | some p => some p.2
  | none => none

/-- one `CompileToGet…(t)` call: which program it returns (named by the type it was compiled for)
and the new cache -/
def lookup (ta : TypeAddr) (st : State) (t : Nat) : Nat × State :=
  match index ta t with
  | some i =>
    match lookupKey st.slots i with
    | some p => (p, st)
    | none => (t, { st with slots := (i, t) :: st.slots })
  | none =>
    match lookupKey st.map t with
    | some p => (p, st)
    | none => (t, { st with map := (t, t) :: st.map })

end GoJson.Model.Cache
