/-
Model of the slice decoder's pooled working arrays (internal/decoder/slice.go: sliceDecoder.newSlice,
the element loop of Decode / DecodeStream with its doubling step, releaseSlice on the success path and
on the two error paths that hand the header back).

A pooled header records an array (`arr`: how many elements it was made with) and the capacity it claims
(`cap`). One decode takes a header, keeps `data` / `capacity` in locals, doubles when the next index
does not fit, and stores one element per index; leaving through a releasing path it writes the locals
back into the header.
-/
namespace GoJson.Model.Pool

structure Hdr where
  arr : Nat      -- elements of the array `data` points to
  cap : Nat      -- header.cap
  deriving Repr, DecidableEq

/-- locals of the element loop -/
structure Loc where
  arr : Nat
  cap : Nat
  deriving Repr, DecidableEq

/-- what the pool promises: a header never claims more than its array has, and arrays are not empty -/
def HInv (h : Hdr) : Prop := h.cap ≤ h.arr ∧ 0 < h.cap

def start (h : Hdr) : Loc := ⟨h.arr, h.cap⟩

/-- `if capacity <= idx { capacity *= 2; data = newArray(capacity); copy }` -/
def fit (l : Loc) (idx : Nat) : Loc := if l.cap ≤ idx then ⟨l.cap * 2, l.cap * 2⟩ else l

/-- the loop over indexes 0 .. n-1 (one element stored per index): the locals afterwards and the
stores made, as (array size at the time, index) -/
def run : Loc → Nat → Nat → Loc × List (Nat × Nat)
  | l, _, 0 => (l, [])
  | l, idx, n + 1 =>
    let l' := fit l idx
    let r := run l' (idx + 1) n
    (r.1, (l'.arr, idx) :: r.2)

/-- the releasing exits: `slice.cap = capacity; slice.data = data; releaseSlice(slice)` -/
def release (l : Loc) : Hdr := ⟨l.arr, l.cap⟩

/-- the seeded variant: the capacity is written back, the array is not -/
def releaseStale (h : Hdr) (l : Loc) : Hdr := ⟨h.arr, l.cap⟩

def LInv (l : Loc) : Prop := l.cap ≤ l.arr ∧ 0 < l.cap

end GoJson.Model.Pool
