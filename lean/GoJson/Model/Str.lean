/-
Model of go-json's string escaping (internal/encoder/string.go, decode_rune.go).

`escape html norm s` mirrors the four functions appendString / appendHTMLString /
appendNormalizedString / appendNormalizedHTMLString:
  * empty string → `""`
  * len ≥ 8: SWAR pre-scan over ⌊len/8⌋ little-endian 64-bit words with the mask expression
    of the source; the first flagged word sets `j := TrailingZeros64(mask & msb) / 8`
    (an offset *inside that word*, exactly as the source does — not the absolute index);
    otherwise the tail bytes are scanned with the table; no hit → the string is copied verbatim
  * then the slow loop from `j` with copy start `i = 0`.
The loop is modelled on lists: `slow tbl html norm pending rest` where `pending` is `s[i:j]`
(bytes scanned but not yet copied, all of them copied verbatim later) and `rest = s[j:]`.
-/
import GoJson.Gen.Tables
import GoJson.Gen.Consts

namespace GoJson.Model.Str
open GoJson

/-! ### tables (generated) -/

def tblPlain (b : UInt8) : Bool := Gen.enc_needEscape.getD b.toNat 0 == 1
def tblHTML (b : UInt8) : Bool := Gen.enc_needEscapeHTML.getD b.toNat 0 == 1
def tblNorm (b : UInt8) : Bool := Gen.enc_needEscapeNormalizeUTF8.getD b.toNat 0 == 1
def tblHTMLNorm (b : UInt8) : Bool := Gen.enc_needEscapeHTMLNormalizeUTF8.getD b.toNat 0 == 1

def tbl (html norm : Bool) : UInt8 → Bool :=
  if html then (if norm then tblHTMLNorm else tblHTML) else (if norm then tblNorm else tblPlain)

def firstTbl (b : UInt8) : Nat := Gen.enc_first.getD b.toNat 0

def hexDigit (n : Nat) : UInt8 := if n < 10 then (48 + n).toUInt8 else (87 + n).toUInt8

/-! ### decodeRuneInString -/

inductive RuneState where
  | valid | error | lineSep | paraSep
deriving Repr, DecidableEq, Inhabited

/-- `decodeRuneInString s` for non-empty `s`: state and size. -/
def decodeRune (s : List UInt8) : RuneState × Nat :=
  match s with
  | [] => (.error, 1)   -- never called on an empty string
  | s0 :: t =>
    let x := firstTbl s0
    if x ≥ 0xF0 then
      -- ASCII (0xF0) is valid; invalid (0xF1) is an error: the mask trick yields RuneError only for xx
      if x % 2 == 1 then (.error, 1) else (.valid, 1)
    else
      let sz := x % 8
      if s.length < sz then (.error, 1)
      else
        match t with
        | [] => (.error, 1)   -- unreachable: sz ≥ 2 and s.length ≥ sz
        | s1 :: t2 =>
          let acc := x / 16
          let bad1 :=
            if acc == 0 then s1.toNat < 128 || 191 < s1.toNat
            else if acc == 1 then s1.toNat < 0xA0 || 191 < s1.toNat
            else if acc == 2 then s1.toNat < 128 || 0x9F < s1.toNat
            else if acc == 3 then s1.toNat < 0x90 || 191 < s1.toNat
            else if acc == 4 then s1.toNat < 128 || 0x8F < s1.toNat
            else false
          if bad1 then (.error, 1)
          else if sz ≤ 2 then (.valid, 2)
          else
            match t2 with
            | [] => (.error, 1)
            | s2 :: t3 =>
              if s2.toNat < 128 || 191 < s2.toNat then (.error, 1)
              else if sz ≤ 3 then
                if s0 == 226 && s1 == 128 then
                  if s2 == 168 then (.lineSep, 3)
                  else if s2 == 169 then (.paraSep, 3)
                  else (.valid, 3)
                else (.valid, 3)
              else
                match t3 with
                | [] => (.error, 1)
                | s3 :: _ =>
                  if s3.toNat < 128 || 191 < s3.toNat then (.error, 1) else (.valid, 4)

/-! ### the slow loop -/

def u00 (c : UInt8) : List UInt8 := [92, 117, 48, 48, hexDigit (c.toNat / 16), hexDigit (c.toNat % 16)]

/-- the `switch c` of the slow loop: the escape text for a byte that the loop escapes by itself,
`none` when the switch has no case for it (falls to the rune decoder or to `j++`). -/
def escByte (html : Bool) (c : UInt8) : Option (List UInt8) :=
  if c == 92 || c == 34 then some [92, c]
  else if c == 10 then some [92, 110]
  else if c == 13 then some [92, 114]
  else if c == 9 then some [92, 116]
  else if html && (c == 60 || c == 62 || c == 38) then some (u00 c)
  else if c.toNat < 0x20 then some (u00 c)
  else none

/-- The slow loop `for j < valLen { … }` started at position 0 with copy start `i = 0`, on lists:
the bytes between `i` and `j` are copied verbatim later (`append(buf, s[i:j]...)`), so the output
is the concatenation, position by position, of either the byte itself or its escape text.
For a valid multi-byte rune of `size` bytes (`j += size`) the `size-1` continuation bytes are
copied with it (`decodeRune_size_pos` shows `size ≥ 1`, so this is `j += size`). -/
def slow (html norm : Bool) (rest : List UInt8) : List UInt8 :=
  match rest with
  | [] => []
  | c :: rest' =>
    if !(tbl html norm c) then c :: slow html norm rest'
    else if (escByte html c).isSome then (escByte html c).getD [] ++ slow html norm rest'
    else if !norm then c :: slow html norm rest'
    else if (decodeRune (c :: rest')).1 == .error then
      [92, 117, 102, 102, 102, 100] ++ slow html norm rest'
    else if (decodeRune (c :: rest')).1 == .lineSep then
      [92, 117, 50, 48, 50, 56] ++ slow html norm (rest'.drop 2)
    else if (decodeRune (c :: rest')).1 == .paraSep then
      [92, 117, 50, 48, 50, 57] ++ slow html norm (rest'.drop 2)
    else
      c :: rest'.take ((decodeRune (c :: rest')).2 - 1) ++
        slow html norm (rest'.drop ((decodeRune (c :: rest')).2 - 1))
termination_by rest.length
decreasing_by
  all_goals simp only [List.length_cons, List.length_drop]
  all_goals omega

/-! ### SWAR pre-scan -/

def lsb : BitVec 64 := 0x0101010101010101#64
def msb : BitVec 64 := 0x8080808080808080#64

/-- the mask expression of appendString / appendNormalizedString -/
def maskPlain (n : BitVec 64) : BitVec 64 :=
  n ||| (n - (lsb * 0x20#64)) ||| ((n ^^^ (lsb * 0x22#64)) - lsb) ||| ((n ^^^ (lsb * 0x5c#64)) - lsb)

/-- the mask expression of appendHTMLString / appendNormalizedHTMLString -/
def maskHTML (n : BitVec 64) : BitVec 64 :=
  n ||| (n - (lsb * 0x20#64)) ||| ((n ^^^ (lsb * 0x22#64)) - lsb) ||| ((n ^^^ (lsb * 0x5c#64)) - lsb) |||
    ((n ^^^ (lsb * 0x3c#64)) - lsb) ||| ((n ^^^ (lsb * 0x3e#64)) - lsb) ||| ((n ^^^ (lsb * 0x26#64)) - lsb)

def mask (html : Bool) (n : BitVec 64) : BitVec 64 := if html then maskHTML n else maskPlain n

/-- little-endian load of 8 bytes -/
def word (bs : List UInt8) : BitVec 64 :=
  BitVec.ofNat 64 ((bs.take 8).foldr (fun b acc => b.toNat + 256 * acc) 0)

/-- `bits.TrailingZeros64`: index of the lowest set bit, 64 for zero -/
def tzAux (x : BitVec 64) : Nat → Nat → Nat
  | _, 0 => 64
  | i, fuel + 1 => if x.getLsbD i then i else tzAux x (i + 1) fuel

def tz64 (x : BitVec 64) : Nat := tzAux x 0 64

/-- scan of the ⌊len/8⌋ full words: `some j` = first flagged word found, `j` = tz/8 *within that
word* (as in the source); `none` = no word flagged. -/
def swarWords (html : Bool) (s : List UInt8) : Option Nat :=
  if s.length < 8 then none
  else
    let m := mask html (word s) &&& msb
    if m != 0#64 then some (tz64 m / 8)
    else swarWords html (s.drop 8)
termination_by s.length
decreasing_by simp only [List.length_drop]; omega

/-- tail scan `for i := len(chunks)*8; i < valLen; i++ { if tbl[s[i]] … }`: absolute index of the
first hit -/
def tailScan (t : UInt8 → Bool) (s : List UInt8) (from_ : Nat) : Option Nat :=
  ((List.range (s.length - from_)).map (· + from_)).find? (fun i => t (s.getD i 0))

/-- the value of `j` when the slow loop is entered, or `none` for the verbatim fast return -/
def startIndex (html norm : Bool) (s : List UInt8) : Option Nat :=
  if s.length ≥ 8 then
    match swarWords html s with
    | some j => some j
    | none =>
      match tailScan (tbl html norm) s (s.length / 8 * 8) with
      | some j => some j
      | none => none
  else some 0

/-- the whole function: opening quote, body, closing quote -/
def escape (html norm : Bool) (s : List UInt8) : List UInt8 :=
  if s.isEmpty then [34, 34]
  else
    match startIndex html norm s with
    | none => 34 :: s ++ [34]
    | some j => 34 :: s.take j ++ slow html norm (s.drop j) ++ [34]

/-- reference: the byte-at-a-time escaper started at 0 (no SWAR) -/
def escapeRef (html norm : Bool) (s : List UInt8) : List UInt8 :=
  34 :: slow html norm s ++ [34]

end GoJson.Model.Str
