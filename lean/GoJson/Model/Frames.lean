/-
Model of the encoder's scratch-slot frames (internal/encoder: Opcode.TotalLength, linkRecursiveCode,
copyToInterfaceOpcode, setTotalLengthToInterfaceOp; vm*/vm.go OpInterface / OpRecursive and their end
codes) and of its cycle detection (SeenPtr / recursiveLevel / StartDetectingCyclesAfter).

Slots are machine words of `RuntimeContext.Ptrs`; an opcode names slots by byte offset (Idx, ElemIdx,
Length), relative to the base of the current frame. Values here are slot numbers unless a name says
"bytes".
-/
namespace GoJson.Model.Frames

/-- how an opcode takes part in the frame protocol -/
inductive Kind where
  | plain                       -- Idx, ElemIdx, Length are slots of the current frame
  | arr                         -- array head: Length is an element count, not a slot
  | iface                       -- OpInterface(Ptr): Length is the declared length of the current frame
  | recur (cur next tgt : Nat)  -- OpRecursive(Ptr): Jmp.CurLen, Jmp.NextLen, program id
  | endTop | endRec | endIface
  deriving Repr, DecidableEq

structure Op where
  kind : Kind
  idx : Nat       -- bytes
  elemIdx : Nat   -- bytes
  length : Nat    -- bytes (or a count, see Kind)
  size : Nat
  deriving Repr, DecidableEq

/-- Opcode.MaxIdx -/
def Op.maxIdx (o : Op) : Nat := max (max o.idx o.elemIdx) (max o.length o.size)

/-- Opcode.TotalLength over the ops of a program, end code included -/
def totalLength (ops : List Op) : Nat := ops.foldl (fun m o => max m (o.maxIdx / 8)) 0 + 1

/-- the slots an opcode may load or store in its frame -/
def Op.slots (o : Op) : List Nat :=
  match o.kind with
  | .arr => [o.idx / 8, o.elemIdx / 8]
  | .iface => [o.idx / 8]
  | .recur _ _ _ => [o.idx / 8]
  | _ => [o.idx / 8, o.elemIdx / 8, o.length / 8]

/-- linkRecursiveCode: the end code of a recursive program whose body has total length `t` -/
def recEnd (t : Nat) : Op :=
  { kind := .endRec, idx := (t + 1) * 8, elemIdx := (t + 1) * 8 + 8, length := (t + 1) * 8 + 16, size := 0 }

/-- linkRecursiveCode: NextLen and CurLen -/
def nextLen (t : Nat) : Nat := t + 4
def curLen (restTotal : Nat) : Nat := restTotal + 4

/-- the lengths before the repair (one slot short: the saved indent is outside the frame) -/
def nextLenOld (t : Nat) : Nat := t + 3

/-- linkRecursiveCode: Length of an interface op inside a recursive program -/
def recIfaceLength (t : Nat) : Nat := t + 1

/-- copyToInterfaceOpcode: the end code of the interface twin, from the end code of the program -/
def ifaceEnd (e : Op) : Op :=
  { kind := .endIface, idx := e.idx + 8, elemIdx := e.idx + 16, length := e.idx + 24, size := e.size }

/-- frame lengths the interpreter uses when it starts the frame of an interface value -/
def ifaceCur (declared : Nat) : Nat := declared + 3
def ifaceNext (codeLength : Nat) : Nat := codeLength + 3

/-- every slot the program can touch lies below `len` -/
def fits (ops : List Op) (len : Nat) : Bool :=
  ops.all (fun o => o.slots.all (· < len))

/-- the frames started from this program begin behind it: `len` is the extent of the program's own
frame, `ext tgt` the extent of recursive program `tgt` -/
def pushesOk (ops : List Op) (len : Nat) (ext : Nat → Nat) : Bool :=
  ops.all (fun o =>
    match o.kind with
    | .iface => len ≤ ifaceCur o.length
    | .recur cur next tgt => len ≤ cur && ext tgt ≤ next
    | _ => true)

/-! ### the frame machine -/

structure Frame where
  base : Nat
  len : Nat
  deriving Repr, DecidableEq

structure St where
  L : Nat                 -- len(ctx.Ptrs)
  stack : List Frame      -- head = current frame
  deriving Repr

inductive Ev where
  | acc (slot : Nat)              -- load/store of a slot of the current frame
  | push (cur next len : Nat)     -- OpInterface / OpRecursive: new frame of extent `len`
  | pop                           -- OpInterfaceEnd / OpRecursiveEnd
  deriving Repr

/-- one event; `none` when the event is not one the protocol allows (stack empty) -/
def step (s : St) : Ev → Option St
  | .acc _ => match s.stack with
    | [] => none
    | _ :: _ => some s
  | .push cur next len => match s.stack with
    | [] => none
    | f :: rest => some { L := max s.L (f.base + cur + next), stack := ⟨f.base + cur, len⟩ :: f :: rest }
  | .pop => match s.stack with
    | _ :: g :: rest => some { s with stack := g :: rest }
    | _ => none

def run (s : St) : List Ev → Option St
  | [] => some s
  | e :: es => match step s e with
    | none => none
    | some s' => run s' es

/-- frames are stacked without overlap and inside the slot array -/
def Stacked (L : Nat) : List Frame → Prop
  | [] => True
  | f :: rest => f.base + f.len ≤ L ∧ (∀ g ∈ rest, g.base + g.len ≤ f.base) ∧ Stacked L rest

/-- a slot access is safe: inside the slot array, inside the current frame, and the current frame
begins behind every other live frame -/
def accSafe (s : St) (slot : Nat) : Prop :=
  match s.stack with
  | [] => False
  | f :: rest => f.base + slot < s.L ∧ slot < f.len ∧ ∀ g ∈ rest, g.base + g.len ≤ f.base

/-- every access of the run is safe and the protocol never gets stuck -/
def Safe : St → List Ev → Prop
  | _, [] => True
  | s, e :: es =>
    (match e with | .acc slot => accSafe s slot | _ => True) ∧
    (match step s e with | none => False | some s' => Safe s' es)

/-- a compiled program with the extent of its frame -/
structure Prog where
  ops : List Op
  len : Nat

/-- what the compiler has to establish for a program (decidable, evaluated on the dumped programs) -/
def WF (recs : Nat → Prog) (P : Prog) : Prop :=
  fits P.ops P.len = true ∧ pushesOk P.ops P.len (fun i => (recs i).len) = true

/-- the event sequences the interpreter can produce while it executes program `P` in a frame:
slot accesses of P's opcodes; for a recursive op a frame of the target program with the op's
CurLen / NextLen; for an interface op a frame of any well-formed program `Q` (the program of the
dynamic type) with the op's declared length -/
inductive Runs (recs : Nat → Prog) : Prog → List Ev → Prop
  | nil {P} : Runs recs P []
  | acc {P o slot es} : o ∈ P.ops → slot ∈ o.slots → Runs recs P es → Runs recs P (.acc slot :: es)
  | callRec {P o cur next tgt inner es} : o ∈ P.ops → o.kind = .recur cur next tgt →
      Runs recs (recs tgt) inner → Runs recs P es →
      Runs recs P (.push cur next (recs tgt).len :: (inner ++ .pop :: es))
  | callIface {P o Q inner es} : o ∈ P.ops → o.kind = .iface → WF recs Q →
      Runs recs Q inner → Runs recs P es →
      Runs recs P (.push (ifaceCur o.length) Q.len Q.len :: (inner ++ .pop :: es))

/-! ### cycle detection -/

/-- the traversal of a pointer graph as the interpreter does it: `level` is recursiveLevel, `seen`
SeenPtr (the current path), `thr` StartDetectingCyclesAfter. Fuel bounds the recursion depth.
`none`: depth budget exhausted; `some false`: "encountered a cycle"; `some true`: encoded. -/
def goStep (f : Nat → Option Bool) (acc : Option Bool) (c : Nat) : Option Bool :=
  match acc with
  | some true => f c
  | r => r

/-- children in order; the first failure ends the traversal -/
def goAll (f : Nat → Option Bool) (cs : List Nat) : Option Bool := cs.foldl (goStep f) (some true)

def visit (g : Nat → List Nat) (thr : Nat) : Nat → Nat → List Nat → Nat → Option Bool
  | 0, _, _, _ => none
  | fuel + 1, level, seen, p =>
    if level > thr ∧ p ∈ seen then some false
    else goAll (fun c => visit g thr fuel (level + 1) (p :: seen) c) (g p)

/-- a walk in the pointer graph: the nodes visited after `p`, each a child of the one before -/
inductive Walk (g : Nat → List Nat) : Nat → List Nat → Prop
  | nil {p} : Walk g p []
  | cons {p c rest} : c ∈ g p → Walk g c rest → Walk g p (c :: rest)

/-- nodes below N that are not on the current path -/
def fresh (N : Nat) (seen : List Nat) : Nat := ((List.range N).filter (fun x => decide (x ∉ seen))).length

end GoJson.Model.Frames
