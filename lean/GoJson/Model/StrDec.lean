/-
Model of go-json's buffer-mode string decoder (internal/decoder/string.go:
`stringDecoder.decodeByte` and `unescapeString`) on the suffix view of the buffer
(bytes from the cursor on, ending with the NUL sentinel).
-/
import GoJson.Gen.Tables
import GoJson.Spec.Utf8

namespace GoJson.Model.StrDec
open GoJson

inductive Res where
  | ok (bytes : List UInt8) (consumed : Nat)
  | null (consumed : Nat)
  | typeErr
  | syntaxErr
  | oob
deriving Repr, DecidableEq, Inhabited

def isWs (b : UInt8) : Bool := b == 32 || b == 10 || b == 9 || b == 13

def isHex (c : UInt8) : Bool :=
  (48 ≤ c.toNat && c.toNat ≤ 57) || (97 ≤ c.toNat && c.toNat ≤ 102) || (65 ≤ c.toNat && c.toNat ≤ 70)

def isSimpleEsc (c : UInt8) : Bool :=
  c == 34 || c == 92 || c == 47 || c == 98 || c == 102 || c == 110 || c == 114 || c == 116

/-- The scan loop after the opening quote. Returns the raw literal (between the quotes), the number
of bytes consumed including the closing quote, and whether an escape was seen.
`avail` is the number of bytes of the buffer from the current position (for `cursor+5 >= buflen`). -/
def scanBody (l : List UInt8) : Except Res (List UInt8 × Nat × Bool) :=
  match l with
  | [] => .error .oob
  | c :: rest =>
    if c == 92 then
      match rest with
      | [] => .error .oob
      | e :: rest2 =>
        if isSimpleEsc e then
          match scanBody rest2 with
          | .ok (body, n, _) => .ok (c :: e :: body, n + 2, true)
          | .error r => .error r
        else if e == 117 then
          -- `cursor+5 >= buflen`: after the 'u' at least five more bytes must exist in the buffer
          if rest2.length < 5 then .error .syntaxErr
          else if isHex (rest2.getD 0 0) && isHex (rest2.getD 1 0) && isHex (rest2.getD 2 0) && isHex (rest2.getD 3 0) then
            match scanBody (rest2.drop 4) with
            | .ok (body, n, _) => .ok (c :: e :: rest2.take 4 ++ body, n + 6, true)
            | .error r => .error r
          else .error .syntaxErr
        else .error .syntaxErr
    else if c == 34 then .ok ([], 1, false)
    else if c.toNat < 0x20 then .error .syntaxErr
    else
      match scanBody rest with
      | .ok (body, n, esc) => .ok (c :: body, n + 1, esc)
      | .error r => .error r
termination_by l.length
decreasing_by
  all_goals simp only [List.length_cons, List.length_drop]
  all_goals omega

def hexToInt (c : UInt8) : Nat := Gen.dec_hexToInt.getD c.toNat 0
def unescapeMap (c : UInt8) : UInt8 := (Gen.dec_unescapeMap.getD c.toNat 0).toUInt8

def code4 (h1 h2 h3 h4 : UInt8) : Nat :=
  (hexToInt h1 <<< 12) ||| (hexToInt h2 <<< 8) ||| (hexToInt h3 <<< 4) ||| hexToInt h4

/-- `unescapeString` as a function from the raw literal to the decoded bytes. The in-place
write cursor never passes the read cursor (every escape is at least as long as its expansion);
that is `unescape_length_le`. `src+11 < end` is "at least 12 bytes remain from the backslash". -/
def unescape (l : List UInt8) : List UInt8 :=
  match l with
  | [] => []
  | c :: rest =>
    if c != 92 then c :: unescape rest
    else
      match rest with
      | [] => []            -- not reachable for scanned literals
      | e :: rest2 =>
        if e != 117 then unescapeMap e :: unescape rest2
        else
          -- char(src,2..5); a scanned literal always has the four digits
          let code := code4 (rest2.getD 0 0) (rest2.getD 1 0) (rest2.getD 2 0) (rest2.getD 3 0)
          let rest3 := rest2.drop 4
          let lo := code4 (rest3.getD 2 0) (rest3.getD 3 0) (rest3.getD 4 0) (rest3.getD 5 0)
          if 0xd800 ≤ code && code < 0xdc00 && l.length ≥ 12 &&
              rest3.getD 0 0 == 92 && rest3.getD 1 0 == 117 && 0xdc00 ≤ lo && lo < 0xe000 then
            Spec.utf8Encode (((code - 0xd800) <<< 10 ||| (lo - 0xdc00)) + 0x10000) ++ unescape (rest3.drop 6)
          else Spec.utf8Encode code ++ unescape rest3
termination_by l.length
decreasing_by
  all_goals simp only [List.length_cons, List.length_drop]
  all_goals omega

/-- `stringDecoder.decodeByte` -/
def decodeString (s : List UInt8) (skipped : Nat := 0) : Res :=
  match s with
  | [] => .oob
  | b :: rest =>
    if isWs b then decodeString rest (skipped + 1)
    else if b == 91 || b == 123 then .typeErr
    else if b == 45 || (48 ≤ b.toNat && b.toNat ≤ 57) then .typeErr
    else if b == 34 then
      match scanBody rest with
      | .error r => r
      | .ok (body, n, esc) => .ok (if esc then unescape body else body) (skipped + 1 + n)
    else if b == 110 then
      match s with
      | 110 :: 117 :: 108 :: 108 :: _ => .null (skipped + 4)
      | _ => .syntaxErr
    else .syntaxErr

end GoJson.Model.StrDec
