/-
Model of go-json's JSON Path (internal/decoder/path.go builder; map.go / slice.go / interface.go
DecodePath walk) .

Builder: the recursive-descent `PathBuilder` on the rune slice after `$`, with its offset arithmetic.
Every place where the Go code indexes `buf[0]` of a slice that could be empty is the explicit
result `panic`; the theorems show it is never produced.

Walk: `Extract` on the document as a tree. The current node is the head of the selector list, its
child the tail; `Field` / `Index` of the four node kinds, the nil-child case ("this value is
selected") and the recursive-descent flag are as in the code.
-/
namespace GoJson.Model.Path

inductive Sel where
  | name (s : List Nat)
  | index (i : Int)
  | all
  | desc (s : List Nat)
deriving Repr, DecidableEq, Inhabited

inductive BR where
  | ok (offset : Nat) (sels : List Sel)
  | err
  | panic
deriving Repr, DecidableEq, Inhabited

def cDollar : Nat := 36
def cDot : Nat := 46
def cLb : Nat := 91
def cRb : Nat := 93
def cStar : Nat := 42
def cSq : Nat := 39
def cDq : Nat := 34

/-- `strconv.ParseInt(s, 10, 64)` on runes: optional sign, digits, in range -/
def digitsVal : List Nat → Option Nat
  | [] => some 0
  | c :: r => if 48 ≤ c ∧ c ≤ 57 then (digitsVal r).map (fun v => (c - 48) * 10 ^ r.length + v) else none

def parseInt (s : List Nat) : Option Int :=
  match s with
  | [] => none
  | c :: r =>
    if c = 43 then
      (if r = [] then none else (digitsVal r).bind (fun v => if v < 2 ^ 63 then some (Int.ofNat v) else none))
    else if c = 45 then
      (if r = [] then none else (digitsVal r).bind (fun v => if v ≤ 2 ^ 63 then some (-(Int.ofNat v)) else none))
    else (digitsVal s).bind (fun v => if v < 2 ^ 63 then some (Int.ofNat v) else none)

inductive Mode where
  | next                      -- buildNext
  | selector                  -- buildSelector
  | selLoop (pre : List Nat)  -- its `for cursor` loop; `pre` = buf[:cursor] reversed
  | quote (single : Bool)     -- buildQuoteSelector
  | quoteLoop (single : Bool) (pre : List Nat)
  | recur                     -- buildPathRecursive
  | recLoop (pre : List Nat)
  | idx                       -- buildIndex
  | idxLoop (pre : List Nat)
deriving Repr, DecidableEq, Inhabited

def Mode.rank : Mode → Nat
  | .next => 1 | .selector => 1 | .selLoop _ => 0 | .quote _ => 1 | .quoteLoop _ _ => 0
  | .recur => 1 | .recLoop _ => 0 | .idx => 1 | .idxLoop _ => 0

/-- add `d` to the offset and put `s` in front of the selectors of a sub-result -/
def BR.shift (r : BR) (d : Nat) (s : List Sel) : BR :=
  match r with
  | .ok o sels => .ok (o + d) (s ++ sels)
  | e => e

/-- all builder functions; `buf` is the slice the Go function receives (for the loops: the slice
from `cursor` on, with `pre.length = cursor`) -/
def go (m : Mode) (buf : List Nat) : BR :=
  match m, buf with
  -- buildNext
  | .next, [] => .panic
  | .next, c :: r =>
    if c = cDot then (if r = [] then .err else (go .selector r).shift 1 [])
    else if c = cLb then (if r = [] then .err else (go .idx r).shift 1 [])
    else .err
  -- buildSelector
  | .selector, [] => .panic
  | .selector, c :: r =>
    if c = cDot then (if r = [] then .err else (go .recur r).shift 1 [])
    else if c = cLb ∨ c = cRb ∨ c = cDollar ∨ c = cStar then .err
    else go (.selLoop []) (c :: r)
  | .selLoop pre, [] => .ok pre.length [.name pre.reverse]
  | .selLoop pre, c :: r =>
    if c = cDollar ∨ c = cStar ∨ c = cRb then .err
    else if c = cDot then
      (if r = [] then .err else (go .selector r).shift (pre.length + 1) [.name pre.reverse])
    else if c = cLb then
      (if r = [] then .err else (go .idx r).shift (pre.length + 1) [.name pre.reverse])
    else if c = cDq then
      (if r = [] then .err else (go (.quote false) r).shift (pre.length + 1) [])
    else go (.selLoop (c :: pre)) r
  -- buildQuoteSelector
  | .quote _, [] => .panic
  | .quote single, c :: r =>
    if c = cLb ∨ c = cRb ∨ c = cDollar ∨ c = cDot ∨ c = cStar ∨ c = cSq ∨ c = cDq then .err
    else go (.quoteLoop single []) (c :: r)
  | .quoteLoop _ _, [] => .err
  | .quoteLoop single pre, c :: r =>
    if c = cSq then
      if !single then .err
      else
        match r with
        | [] => .err
        | d :: r2 =>
          if d ≠ cRb then .err
          else
            -- buildNextCharIfExists(buf, cursor+2)
            if r2 = [] then .ok (pre.length + 2) [.name pre.reverse]
            else (go .next r2).shift (pre.length + 2 + 1) [.name pre.reverse]
    else if c = cDq then
      if single then .err
      else
        if r = [] then .ok (pre.length + 1) [.name pre.reverse]
        else (go .next r).shift (pre.length + 1 + 1) [.name pre.reverse]
    else go (.quoteLoop single (c :: pre)) r
  -- buildPathRecursive
  | .recur, [] => .panic
  | .recur, c :: r =>
    if c = cDot ∨ c = cLb ∨ c = cRb ∨ c = cDollar ∨ c = cStar then .err
    else go (.recLoop []) (c :: r)
  | .recLoop pre, [] => .ok pre.length [.desc pre.reverse]
  | .recLoop pre, c :: r =>
    if c = cDollar ∨ c = cStar ∨ c = cRb then .err
    else if c = cDot then
      (if r = [] then .err else (go .selector r).shift (pre.length + 1) [.desc pre.reverse])
    else if c = cLb then
      (if r = [] then .err else (go .idx r).shift (pre.length + 1) [.desc pre.reverse])
    else go (.recLoop (c :: pre)) r
  -- buildIndex
  | .idx, [] => .panic
  | .idx, c :: r =>
    if c = cDot ∨ c = cLb ∨ c = cRb ∨ c = cDollar then .err
    else if c = cSq then (if r = [] then .err else (go (.quote true) r).shift 1 [])
    else if c = cStar then
      match r with
      | [] => .err
      | d :: r2 =>
        if d ≠ cRb then .err
        else if r2 = [] then .ok 2 [.all]
        else (go .next r2).shift 2 [.all]
    else go (.idxLoop []) (c :: r)
  | .idxLoop _, [] => .err
  | .idxLoop pre, c :: r =>
    if c = cRb then
      match parseInt pre.reverse with
      | none => .err
      | some i =>
        if r = [] then .ok (pre.length + 1) [.index i]
        else (go .next r).shift (pre.length + 1 + 1) [.index i]
    else go (.idxLoop (c :: pre)) r
termination_by (buf.length, m.rank)
decreasing_by
  all_goals simp_wf
  all_goals simp only [Mode.rank, Prod.lex_def]
  all_goals first | omega | exact Or.inr ⟨trivial, Nat.zero_lt_one⟩

inductive Built where
  | ok (sels : List Sel)
  | err
  | panic
deriving Repr, DecidableEq, Inhabited

/-- `PathBuilder.build` -/
def build (buf : List Nat) : Built :=
  match buf with
  | [] => .err
  | c :: r =>
    if c ≠ cDollar then .err
    else if r = [] then .ok []
    else
      match go .next r with
      | .ok offset sels => if r.length > offset then .err else .ok sels
      | .err => .err
      | .panic => .panic

/-! ### documents as trees -/

mutual
inductive JV where
  | scalar (raw : List UInt8)
  | arr (es : JVs)
  | obj (ms : JMs)
inductive JVs where
  | nil
  | cons (v : JV) (r : JVs)
inductive JMs where
  | nil
  | cons (k : List Nat) (v : JV) (r : JMs)
end

/-- `PathNode.Field` of the current node: `none` = not found, `some child` (child `[]` = the nil
child: the value itself is selected) -/
def field (sels : List Sel) (key : List Nat) : Option (List Sel) :=
  match sels with
  | .name s :: rest => if s = key then some rest else none
  | .desc s :: rest => if s = key then some rest else none   -- unchained: child nil; chained: the next node
  | _ => none                                               -- index / index-all: a name selects nothing

/-- `PathNode.Index` -/
def index (sels : List Sel) (i : Nat) : Option (List Sel) :=
  match sels with
  | .index k :: rest => if k = Int.ofNat i then some rest else none
  | .all :: rest => some rest
  | .desc s :: rest => some (.desc s :: rest)   -- the recursive node stays the current node
  | _ => none

def isRec (sels : List Sel) : Bool :=
  match sels with
  | .desc _ :: _ => true
  | _ => false

mutual
/-- `interfaceDecoder.DecodePath` with a non-nil current node -/
def walk (sels : List Sel) : JV → List JV
  | .scalar _ => []
  | .arr es => walkElems sels 0 es
  | .obj ms => walkMembers sels ms

/-- the member loop of `mapDecoder.DecodePath` -/
def walkMembers (sels : List Sel) : JMs → List JV
  | .nil => []
  | .cons k v r =>
    (match field sels k with
      | some [] => [v]
      | some child => walk child v
      | none => []) ++
    (if isRec sels then walk sels v else []) ++
    walkMembers sels r

/-- the element loop of `sliceDecoder.DecodePath` -/
def walkElems (sels : List Sel) (i : Nat) : JVs → List JV
  | .nil => []
  | .cons v r =>
    (match index sels i with
      | some [] => [v]
      | some child => walk child v
      | none => []) ++
    walkElems sels (i + 1) r
end

/-- `extractFromPath`: the root-only path returns the document -/
def extract (sels : List Sel) (doc : JV) : List JV :=
  match sels with
  | [] => [doc]
  | _ => walk sels doc

/-! ### reference semantics: each selector maps a value to the list of values it selects, in
document order; a path is the composition of its selectors -/

def membersNamed (n : List Nat) : JMs → List JV
  | .nil => []
  | .cons k v r => (if n = k then [v] else []) ++ membersNamed n r

def elems : JVs → List JV
  | .nil => []
  | .cons v r => v :: elems r

mutual
/-- the values of all members named `n` of the value and of everything inside it -/
def descV (n : List Nat) : JV → List JV
  | .scalar _ => []
  | .arr es => descEs n es
  | .obj ms => descMs n ms
def descEs (n : List Nat) : JVs → List JV
  | .nil => []
  | .cons v r => descV n v ++ descEs n r
def descMs (n : List Nat) : JMs → List JV
  | .nil => []
  | .cons k v r => (if n = k then [v] else []) ++ descV n v ++ descMs n r
end

def step (s : Sel) (v : JV) : List JV :=
  match s, v with
  | .name n, .obj ms => membersNamed n ms
  | .index i, .arr es => if 0 ≤ i then ((elems es)[i.toNat]?).toList else []
  | .all, .arr es => elems es
  | .desc n, v => descV n v
  | _, _ => []

def eval : List Sel → JV → List JV
  | [], v => [v]
  | s :: rest, v => (step s v).flatMap (eval rest)

end GoJson.Model.Path
