/-
Model of go-json's integer text conversion.

Encoder side mirrors internal/encoder/int.go `AppendInt` / `AppendUint`
(mask by NumBitSize, sign test on bit `bits-1`, `-n & mask`, two-digit table loop,
leading-zero trim, '-' sign).  Little-endian host assumed (amd64/arm64): `intLookup[endianness]`
is `intLELookup` and a `uint16` stored into the byte buffer appears low byte first.

Decoder side mirrors internal/decoder/int.go and uint.go (`decodeByte`, `parseInt`, `parseUint`,
`Decode` with the per-kind range checks) on the *suffix view* of the buffer: the list of bytes
from the cursor on, which ends with the NUL sentinel the decoder appends to every input.
Reading past the end of the list is the explicit outcome `.oob`.
-/
import GoJson.Gen.Tables
import GoJson.Gen.Consts
import GoJson.Spec.Decimal

namespace GoJson.Model.Int
open GoJson

/-! ### encoder -/

/-- `numMask`: `1<<numBitSize - 1` in uint64 arithmetic (wraps to all-ones for 64). -/
def numMask (bits : Nat) : BitVec 64 := ((1#64) <<< bits) - 1#64

/-- the two bytes a little-endian store of a `uint16` produces -/
def le2 (u : Nat) : List UInt8 := [(u % 256).toUInt8, (u / 256 % 256).toUInt8]

/-- `intLELookup[j]` (generated from the source). Out-of-range index is a Go panic; the model
returns 0 there and `lookup_in_range` shows the encoder never does that. -/
def lookup (j : Nat) : Nat := Gen.enc_intLELookup.getD j 0

/-- The `for n >= 100 { … }` loop, the final `u[i] = lookup[n]`, and the leading-zero trim.
`acc` is the part of the 22-byte scratch buffer already written (to the right). -/
def digitsLoop (n : Nat) (acc : List UInt8) : List UInt8 :=
  if h : 100 ≤ n then digitsLoop (n / 100) (le2 (lookup (n % 100)) ++ acc)
  else (if n < 10 then (le2 (lookup n)).drop 1 else le2 (lookup n)) ++ acc
termination_by n
decreasing_by omega

/-- `AppendUint` for a value whose loaded word is `w` (bits above `bits` may hold anything). -/
def appendUint (bits : Nat) (w : BitVec 64) : List UInt8 :=
  let n := (w &&& numMask bits).toNat
  if n < 10 then [(n + 48).toUInt8]
  else if n < 100 then le2 (lookup n)
  else digitsLoop n []

/-- `AppendInt`. -/
def appendInt (bits : Nat) (w : BitVec 64) : List UInt8 :=
  let mask := numMask bits
  let n := w &&& mask
  let negative := ((w >>> (bits - 1)) &&& 1#64) == 1#64
  if !negative then
    if n.toNat < 10 then [(n.toNat + 48).toUInt8]
    else if n.toNat < 100 then le2 (lookup n.toNat)
    else digitsLoop n.toNat []
  else
    let n' := (-n) &&& mask
    45 :: digitsLoop n'.toNat []

/-! ### decoder -/

inductive Res where
  /-- a value was stored; `rest` bytes consumed from the suffix -/
  | ok (v : Int) (consumed : Nat)
  /-- `null`: nothing stored -/
  | null (consumed : Nat)
  /-- leading zero followed by a digit: nothing stored, caller rejects the next byte -/
  | skip (consumed : Nat)
  | typeErr
  | syntaxErr
  /-- a read outside the buffer (no NUL sentinel met) -/
  | oob
deriving Repr, DecidableEq, Inhabited

def numTable (b : UInt8) : Bool := Gen.dec_numTable.getD b.toNat 0 == 1

def isWs (b : UInt8) : Bool := b == 32 || b == 10 || b == 9 || b == 13

def isNumberContinuation (b : UInt8) : Bool := numTable b || b == 46 || b == 101 || b == 69

/-- `for numTable[char(b, cursor)] { cursor++ }` on the suffix: the digits read and the remaining
suffix; `none` when the scan runs off the end of the buffer. -/
def scanDigits : List UInt8 → Option (List UInt8 × List UInt8)
  | [] => none
  | b :: rest =>
    if numTable b then
      match scanDigits rest with
      | some (ds, r) => some (b :: ds, r)
      | none => none
    else some ([], b :: rest)

def pow10 (k : Nat) : Nat := Gen.dec_pow10u64.getD k 0
def pow10i (k : Nat) : Nat := Gen.dec_pow10i64.getD k 0

/-- `sum += c * pow10[maxDigit-i-1]` in uint64 arithmetic (wrap-around is what the code does) -/
def accumulate (pow : Nat → Nat) (ds : List UInt8) : BitVec 64 :=
  match ds with
  | [] => 0#64
  | b :: rest =>
    (BitVec.ofNat 64 (b.toNat - 48)) * (BitVec.ofNat 64 (pow rest.length)) + accumulate pow rest

/-- body of `parseInt` after the sign has been split off: magnitude as uint64, explicit bounds.
`none` = error. -/
def parseMag (neg : Bool) (ds : List UInt8) : Option Int :=
  if ds.length > Gen.dec_pow10i64.size then none
  else
    let sum := (accumulate pow10i ds).toNat
    if neg then
      if sum > 2 ^ 63 then none else some (-(sum : Int))
    else
      if sum > 2 ^ 63 - 1 then none else some (sum : Int)

/-- `parseInt` (after the overflow fix). -/
def parseInt (num : List UInt8) : Option Int :=
  match num with
  | 45 :: r => parseMag true r
  | _ => parseMag false num

def maxUint64Literal : List UInt8 :=
  [49,56,52,52,54,55,52,52,48,55,51,55,48,57,53,53,49,54,49,53]

/-- lexicographic `>` on byte strings (Go's string comparison) -/
def bytesGt : List UInt8 → List UInt8 → Bool
  | [], _ => false
  | _ :: _, [] => true
  | a :: as, b :: bs => if a > b then true else if a < b then false else bytesGt as bs

def parseUint (ds : List UInt8) : Option Int :=
  if ds.length > Gen.dec_pow10u64.size then none
  else
    let sum := (accumulate pow10 ds).toNat
    if ds.length == Gen.dec_pow10u64.size && bytesGt ds maxUint64Literal then none
    else some (sum : Int)

/-- range check of `Decode` for the destination width (`64` has no check: parseInt already bounds) -/
def inRangeSigned (bits : Nat) (v : Int) : Bool :=
  if bits == 64 then true else decide (-(2 ^ (bits - 1) : Int) ≤ v) && decide (v < (2 ^ (bits - 1) : Int))

def inRangeUnsigned (bits : Nat) (v : Int) : Bool :=
  if bits == 64 then true else decide (v < (2 ^ bits : Int))

/-- `validateNull`: the four bytes n-u-l-l -/
def isNull : List UInt8 → Bool
  | 110 :: 117 :: 108 :: 108 :: _ => true
  | _ => false

/-- `validateIntegerLiteral`: a sign needs a digit; no leading zero after the sign; a following
fraction or exponent is a type error. `none` = the literal is acceptable. -/
def validateIntegerLiteral (num : List UInt8) (next : UInt8) : Option Res :=
  if num.head? == some 45 && num.length < 2 then some .syntaxErr
  else if num.head? == some 45 && num[1]? == some 48 && num.length > 2 then some .syntaxErr
  else if next == 46 || next == 101 || next == 69 then some .typeErr
  else none

/-- `intDecoder.Decode` (buffer mode) on the suffix from the cursor. `skipped` counts the
white space consumed so far. -/
def decodeInt (bits : Nat) (s : List UInt8) (skipped : Nat := 0) : Res :=
  match s with
  | [] => .oob
  | b :: rest =>
    if isWs b then decodeInt bits rest (skipped + 1)
    else if b == 48 then
      match rest with
      | [] => .oob
      | c :: _ =>
        if numTable c then .skip (skipped + 1)
        else if isNumberContinuation c then .typeErr
        else .ok 0 (skipped + 1)
    else if b == 45 || (49 ≤ b.toNat && b.toNat ≤ 57) then
      match scanDigits rest with
      | none => .oob
      | some (ds, r) =>
        match r with
        | [] => .oob
        | next :: _ =>
          let num := b :: ds
          match validateIntegerLiteral num next with
          | some e => e
          | none =>
            match parseInt num with
            | none => .typeErr
            | some v => if inRangeSigned bits v then .ok v (skipped + num.length) else .typeErr
    else if b == 110 then
      if isNull s then .null (skipped + 4) else .syntaxErr
    else .typeErr

/-- `uintDecoder.Decode` (buffer mode). Uses plain `buf[cursor]` indexing in Go, so a read
outside the buffer is a (recovered) panic there; the model reports `.oob` for both. -/
def decodeUint (bits : Nat) (s : List UInt8) (skipped : Nat := 0) : Res :=
  match s with
  | [] => .oob
  | b :: rest =>
    if isWs b then decodeUint bits rest (skipped + 1)
    else if b == 48 then
      match rest with
      | [] => .oob
      | c :: _ =>
        if numTable c then .skip (skipped + 1)
        else if isNumberContinuation c then .typeErr
        else .ok 0 (skipped + 1)
    else if 49 ≤ b.toNat && b.toNat ≤ 57 then
      match scanDigits rest with
      | none => .oob
      | some (ds, r) =>
        match r with
        | [] => .oob
        | next :: _ =>
          let num := b :: ds
          if next == 46 || next == 101 || next == 69 then .typeErr
          else
            match parseUint num with
            | none => .typeErr
            | some v => if inRangeUnsigned bits v then .ok v (skipped + num.length) else .typeErr
    else if b == 110 then
      if isNull s then .null (skipped + 4) else .syntaxErr
    else .typeErr

end GoJson.Model.Int
