/-
Model of decoding into interface{} with the values built (internal/decoder/interface.go
decodeEmptyInterface, map.go, slice.go, string.go, float.go): the recogniser of `Model.BufDec`
extended with the tree it produces. Numbers keep their token (float64 conversion is strconv's),
strings are unescaped by `Model.StrDec`, object members are kept in document order with duplicates
(the Go map the real decoder builds keeps the last of each key: `lastWins`).
-/
import GoJson.Model.BufDec
import GoJson.Model.StrDec

namespace GoJson.Model.Dec
open GoJson GoJson.Model.BufDec

mutual
inductive JT where
  | null
  | bool (b : Bool)
  | num (tok : List UInt8)
  | str (s : List UInt8)
  | arr (es : JTs)
  | obj (ms : JMs)
inductive JTs where
  | nil
  | cons (v : JT) (r : JTs)
inductive JMs where
  | nil
  | cons (k : List UInt8) (v : JT) (r : JMs)
end

inductive PR where
  | ok (v : JT) (rest : List UInt8)
  | err
  | oob

inductive PRs where
  | ok (v : JTs) (rest : List UInt8)
  | err
  | oob

inductive PRm where
  | ok (v : JMs) (rest : List UInt8)
  | err
  | oob

/-- a string literal after its opening quote: the decoded bytes and the rest after the closing quote -/
def stringValue (r : List UInt8) : Except Bool (List UInt8 × List UInt8) :=
  match StrDec.scanBody r with
  | .ok (body, n, esc) => .ok (if esc then StrDec.unescape body else body, r.drop n)
  | .error .oob => .error true
  | .error _ => .error false

def numberValue (range : Bool) (b : UInt8) (r : List UInt8) : PR :=
  match (munch r).2 with
  | [] => .oob
  | c :: rest =>
    if !validEnd c then .err
    else if !Spec.isNumber (b :: (munch r).1) then .err
    else if range && !Spec.inF64Range (b :: (munch r).1) then .err
    else .ok (.num (b :: (munch r).1)) (c :: rest)

def litValue (expect : List UInt8) (v : JT) (s : List UInt8) : PR :=
  if s.length < expect.length then .err
  else if s.take expect.length == expect then .ok v (s.drop expect.length) else .err

mutual
def value (range : Bool) : (fuel : Nat) → (depth : Nat) → List UInt8 → PR
  | 0, _, _ => .err
  | fuel + 1, depth, s =>
    match skipWs s with
    | [] => .oob
    | b :: r =>
      if b == 123 then
        if depth + 1 > maxDepth then .err
        else
          match skipWs r with
          | [] => .oob
          | c :: r2 =>
            if c == 125 then .ok (.obj .nil) r2
            else
              match members range fuel (depth + 1) (c :: r2) with
              | .ok ms rest => .ok (.obj ms) rest
              | .err => .err
              | .oob => .oob
      else if b == 91 then
        if depth + 1 > maxDepth then .err
        else
          match skipWs r with
          | [] => .oob
          | c :: r2 =>
            if c == 93 then .ok (.arr .nil) r2
            else
              match elements range fuel (depth + 1) (c :: r2) with
              | .ok es rest => .ok (.arr es) rest
              | .err => .err
              | .oob => .oob
      else if b == 45 || (48 ≤ b.toNat && b.toNat ≤ 57) then numberValue range b r
      else if b == 34 then
        match stringValue r with
        | .ok (s, rest) => .ok (.str s) rest
        | .error true => .oob
        | .error false => .err
      else if b == 116 then litValue [116, 114, 117, 101] (.bool true) (b :: r)
      else if b == 102 then litValue [102, 97, 108, 115, 101] (.bool false) (b :: r)
      else if b == 110 then litValue [110, 117, 108, 108] .null (b :: r)
      else .err

def elements (range : Bool) : (fuel : Nat) → (depth : Nat) → List UInt8 → PRs
  | 0, _, _ => .err
  | fuel + 1, depth, s =>
    match value range fuel depth s with
    | .ok v rest =>
      match skipWs rest with
      | [] => .oob
      | c :: r =>
        if c == 93 then .ok (.cons v .nil) r
        else if c == 44 then
          match elements range fuel depth r with
          | .ok es rest2 => .ok (.cons v es) rest2
          | e => e
        else .err
    | .err => .err
    | .oob => .oob

def members (range : Bool) : (fuel : Nat) → (depth : Nat) → List UInt8 → PRm
  | 0, _, _ => .err
  | fuel + 1, depth, s =>
    match skipWs s with
    | [] => .oob
    | q :: r =>
      if q != 34 then .err
      else
        match stringValue r with
        | .ok (k, afterKey) =>
          match skipWs afterKey with
          | [] => .oob
          | c :: r2 =>
            if c != 58 then .err
            else
              match value range fuel depth r2 with
              | .ok v rest =>
                match skipWs rest with
                | [] => .oob
                | e :: r3 =>
                  if e == 125 then .ok (.cons k v .nil) r3
                  else if e == 44 then
                    match members range fuel depth r3 with
                    | .ok ms rest2 => .ok (.cons k v ms) rest2
                    | x => x
                  else .err
              | .err => .err
              | .oob => .oob
        | .error true => .oob
        | .error false => .err
end

/-- `Unmarshal(b, &interface{})` -/
def unmarshal (range : Bool) (b : List UInt8) : Option JT :=
  match value range (2 * b.length + 4) 0 (b ++ [0]) with
  | .ok v rest => if skipWs rest == [0] then some v else none
  | _ => none

end GoJson.Model.Dec
