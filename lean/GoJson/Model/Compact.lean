/-
Model of go-json's Compact and Indent (internal/encoder/compact.go, indent.go) on the suffix view of
the NUL-terminated source: recursive descent that validates and emits at the same time.
`escape` is the HTML-escaping flag used when compacting MarshalJSON results (json.Compact passes false).
-/
import GoJson.Gen.Tables
import GoJson.Gen.Consts
import GoJson.Spec.Json

namespace GoJson.Model.Compact
open GoJson

inductive CR where
  | ok (out : List UInt8) (rest : List UInt8)
  | err
  | oob
deriving Repr, DecidableEq, Inhabited

def wsTbl (b : UInt8) : Bool := Gen.enc_isWhiteSpace.getD b.toNat 0 == 1
def floatTbl (b : UInt8) : Bool := Gen.enc_floatTable.getD b.toNat 0 == 1
def htmlTbl (b : UInt8) : Bool := Gen.enc_isHTMLEscapeChar.getD b.toNat 0 == 1
def maxDepth : Nat := Gen.c_enc_maxNestingDepth

def skipWs : List UInt8 → List UInt8
  | [] => []
  | b :: r => if wsTbl b then skipWs r else b :: r

def munch : List UInt8 → List UInt8 × List UInt8
  | [] => ([], [])
  | b :: r => if floatTbl b then ((b :: (munch r).1), (munch r).2) else ([], b :: r)

def isHex (c : UInt8) : Bool :=
  (48 ≤ c.toNat && c.toNat ≤ 57) || (97 ≤ c.toNat && c.toNat ≤ 102) || (65 ≤ c.toNat && c.toNat ≤ 70)

def isSimpleEsc (c : UInt8) : Bool :=
  c == 34 || c == 92 || c == 47 || c == 98 || c == 102 || c == 110 || c == 114 || c == 116

def hexDigit (n : Nat) : UInt8 := if n < 10 then (48 + n).toUInt8 else (87 + n).toUInt8

/-- the body loop of `compactString` after the opening quote: returns the emitted body (with the
closing quote) and the rest after the closing quote -/
def cbody (escape : Bool) (l : List UInt8) : Option (List UInt8 × List UInt8) :=
  match l with
  | [] => none
  | c :: r =>
    if c == 34 then some ([34], r)
    else if c == 92 then
      match r with
      | [] => none
      | e :: r2 =>
        if isSimpleEsc e then
          match cbody escape r2 with
          | some (o, rest) => some (92 :: e :: o, rest)
          | none => none
        else if e == 117 then
          if r2.length < 4 then none
          else if isHex (r2.getD 0 0) && isHex (r2.getD 1 0) && isHex (r2.getD 2 0) && isHex (r2.getD 3 0) then
            match cbody escape (r2.drop 4) with
            | some (o, rest) => some (92 :: 117 :: r2.take 4 ++ o, rest)
            | none => none
          else none
        else none
    else if c.toNat < 0x20 then none   -- includes the NUL terminator
    else if escape && htmlTbl c then
      match cbody escape r with
      | some (o, rest) => some ([92, 117, 48, 48, hexDigit (c.toNat / 16), hexDigit (c.toNat % 16)] ++ o, rest)
      | none => none
    else if escape && c == 0xE2 && r.length ≥ 2 && r.getD 0 0 == 0x80 && (r.getD 1 0 == 0xA8 || r.getD 1 0 == 0xA9) then
      -- `cursor+2 < len(src)`: two more bytes exist besides the terminator
      match cbody escape (r.drop 2) with
      | some (o, rest) => some ([92, 117, 50, 48, 50, hexDigit ((r.getD 1 0).toNat % 16)] ++ o, rest)
      | none => none
    else
      match cbody escape r with
      | some (o, rest) => some (c :: o, rest)
      | none => none
termination_by l.length
decreasing_by
  all_goals simp only [List.length_cons, List.length_drop]
  all_goals omega

/-- `compactString` at the opening quote -/
def cstring (escape : Bool) (s : List UInt8) : CR :=
  match s with
  | 34 :: r =>
    match cbody escape r with
    | some (o, rest) => .ok (34 :: o) rest
    | none => .err
  | _ => .err

/-- `compactNumber` for a value starting with byte `b` -/
def cnumber (b : UInt8) (r : List UInt8) : CR :=
  let tok := b :: (munch r).1
  if Spec.isNumber tok then .ok tok (munch r).2 else .err

def clit (expect : List UInt8) (s : List UInt8) : CR :=
  if s.length < expect.length then .err   -- `cursor+len-1 >= len(src)`
  else if s.take expect.length == expect then .ok expect (s.drop expect.length) else .err

/-- layout: `none` = Compact; `some (prefix, indent)` = Indent. `nl lay n` is what is emitted before
an element at indentation level `n` -/
abbrev Layout := Option (List UInt8 × List UInt8)

def nl (lay : Layout) (n : Nat) : List UInt8 :=
  match lay with
  | none => []
  | some (pre, ind) => 10 :: pre ++ (List.replicate n ind).flatten

def colon (lay : Layout) : List UInt8 := if lay.isSome then [58, 32] else [58]

mutual
/-- `compactValue` / `indentValue` -/
def cvalue (escape : Bool) (lay : Layout) : (fuel : Nat) → (depth : Nat) → List UInt8 → CR
  | 0, _, _ => .err
  | fuel + 1, depth, s =>
    match skipWs s with
    | [] => .oob
    | b :: r =>
      if b == 123 then
        if depth + 1 > maxDepth then .err
        else
          match skipWs r with
          | [] => .oob
          | c :: r2 =>
            if c == 125 then .ok [123, 125] r2
            else
              match cmembers escape lay fuel (depth + 1) (c :: r2) with
              | .ok o rest => .ok (123 :: o) rest
              | e => e
      else if b == 91 then
        if depth + 1 > maxDepth then .err
        else
          match skipWs r with
          | [] => .oob
          | c :: r2 =>
            if c == 93 then .ok [91, 93] r2
            else
              match celements escape lay fuel (depth + 1) (c :: r2) with
              | .ok o rest => .ok (91 :: o) rest
              | e => e
      else if b == 34 then cstring escape (b :: r)
      else if b == 45 || (48 ≤ b.toNat && b.toNat ≤ 57) then cnumber b r
      else if b == 116 then clit [116, 114, 117, 101] (b :: r)
      else if b == 102 then clit [102, 97, 108, 115, 101] (b :: r)
      else if b == 110 then clit [110, 117, 108, 108] (b :: r)
      else .err

/-- element loop; `depth` is the level of the elements. Emits everything after the '[' -/
def celements (escape : Bool) (lay : Layout) : (fuel : Nat) → (depth : Nat) → List UInt8 → CR
  | 0, _, _ => .err
  | fuel + 1, depth, s =>
    match cvalue escape lay fuel depth s with
    | .ok o rest =>
      match skipWs rest with
      | [] => .oob
      | c :: r =>
        if c == 93 then .ok (nl lay depth ++ o ++ nl lay (depth - 1) ++ [93]) r
        else if c == 44 then
          match celements escape lay fuel depth r with
          | .ok o2 rest2 => .ok (nl lay depth ++ o ++ [44] ++ o2) rest2
          | e => e
        else .err
    | e => e

/-- member loop -/
def cmembers (escape : Bool) (lay : Layout) : (fuel : Nat) → (depth : Nat) → List UInt8 → CR
  | 0, _, _ => .err
  | fuel + 1, depth, s =>
    match cstring escape (skipWs s) with
    | .ok k afterKey =>
      match skipWs afterKey with
      | [] => .oob
      | c :: r2 =>
        if c != 58 then .err
        else
          match cvalue escape lay fuel depth r2 with
          | .ok o rest =>
            match skipWs rest with
            | [] => .oob
            | e :: r3 =>
              if e == 125 then .ok (nl lay depth ++ k ++ colon lay ++ o ++ nl lay (depth - 1) ++ [125]) r3
              else if e == 44 then
                match cmembers escape lay fuel depth r3 with
                | .ok o2 rest2 => .ok (nl lay depth ++ k ++ colon lay ++ o ++ [44] ++ o2) rest2
                | e => e
              else .err
          | e => e
    | e => e
end

/-- trailing white space of the source, which Indent copies -/
def trailingWs (b : List UInt8) : List UInt8 := (b.reverse.takeWhile wsTbl).reverse

/-- `Compact` (lay = none) / `Indent`: the bytes appended to the destination, `none` = error -/
def run (escape : Bool) (lay : Layout) (b : List UInt8) : Option (List UInt8) :=
  if b.isEmpty then none
  else
    match cvalue escape lay (2 * b.length + 4) 0 (b ++ [0]) with
    | .ok out rest => if skipWs rest == [0] then some (out ++ (if lay.isSome then trailingWs b else [])) else none
    | _ => none

end GoJson.Model.Compact
