/-
Models of the per-type program caches under concurrent use (internal/encoder/compiler.go,
compiler_norace.go, compiler_race.go and their decoder twins), as interleavings of atomic steps.

  * `Slot`: the address-indexed slice of the fast path — load the slot, compile when it is empty,
    store the program (no synchronisation in the production build).
  * `Cow`: the copy-on-write map of the slow path — load the map pointer, look the type up, compile
    when it is missing, store a pointer to a copy of the *loaded* map plus the new entry.
  * `Lock`: the read/write lock of the race build, with Go's rule that a waiting writer keeps new
    readers out.

`compile` is a function: compiling a type gives the same program whoever does it (C14).
Go's memory model (what an unsynchronised load may observe) is outside these models.
-/
namespace GoJson.Model.Conc

/-! ### the slot cache -/
namespace Slot

inductive PC where
  | start
  | loaded (r : Option Nat)
  | compiled (p : Nat)
  | done (p : Nat)
  deriving Repr, DecidableEq

structure Thread where
  typ : Nat
  pc : PC
  deriving Repr, DecidableEq

structure St where
  slots : Nat → Option Nat
  threads : List Thread

def setSlot (slots : Nat → Option Nat) (i p : Nat) : Nat → Option Nat := fun j => if j = i then some p else slots j

/-- thread `t` takes one atomic step -/
def stepThread (compile : Nat → Nat) (slots : Nat → Option Nat) (t : Thread) : (Nat → Option Nat) × Thread :=
  match t.pc with
  | .start => (slots, { t with pc := .loaded (slots t.typ) })
  | .loaded (some p) => (slots, { t with pc := .done p })
  | .loaded none => (slots, { t with pc := .compiled (compile t.typ) })
  | .compiled p => (setSlot slots t.typ p, { t with pc := .done p })
  | .done p => (slots, { t with pc := .done p })

/-- the scheduler picks thread `i` -/
def step (compile : Nat → Nat) (s : St) (i : Nat) : St :=
  match s.threads[i]? with
  | none => s
  | some t =>
    let (slots', t') := stepThread compile s.slots t
    { slots := slots', threads := s.threads.set i t' }

def run (compile : Nat → Nat) (s : St) (sched : List Nat) : St := sched.foldl (step compile) s

end Slot

/-! ### the copy-on-write map -/
namespace Cow

abbrev Map := List (Nat × Nat)

def lookup (m : Map) (t : Nat) : Option Nat := (m.find? (·.1 == t)).map (·.2)

inductive PC where
  | start
  | loaded (m : Map)                 -- the map pointer has been loaded
  | compiled (m : Map) (p : Nat)     -- miss: compiled; `m` is still the map loaded earlier
  | done (p : Nat)
  deriving Repr, DecidableEq

structure Thread where
  typ : Nat
  pc : PC
  deriving Repr, DecidableEq

structure St where
  cur : Map                -- what the shared pointer refers to
  threads : List Thread

def stepThread (compile : Nat → Nat) (cur : Map) (t : Thread) : Map × Thread :=
  match t.pc with
  | .start => (cur, { t with pc := .loaded cur })
  | .loaded m =>
    match lookup m t.typ with
    | some p => (cur, { t with pc := .done p })
    | none => (cur, { t with pc := .compiled m (compile t.typ) })
  | .compiled m p => ((t.typ, p) :: m, { t with pc := .done p })   -- the copy is made from the *loaded* map
  | .done p => (cur, { t with pc := .done p })

def step (compile : Nat → Nat) (s : St) (i : Nat) : St :=
  match s.threads[i]? with
  | none => s
  | some t =>
    let (cur', t') := stepThread compile s.cur t
    { cur := cur', threads := s.threads.set i t' }

def run (compile : Nat → Nat) (s : St) (sched : List Nat) : St := sched.foldl (step compile) s

end Cow

/-! ### the read/write lock of the race build -/
namespace Lock

/-- what a goroutine still has to do: sections under the read lock and under the write lock -/
inductive Seg where
  | read
  | write
  | nestedRead     -- the old code: a read lock taken again while the first is held
  deriving Repr, DecidableEq

inductive TS where
  | idle (rest : List Seg)
  | reading (rest : List Seg)
  | reading1 (rest : List Seg)     -- old code: holds the read lock once, is about to take it again
  | reading2 (rest : List Seg)     -- old code: holds it twice
  | announced (rest : List Seg)    -- Lock() called: waiting for the readers to leave
  | writing (rest : List Seg)
  deriving Repr, DecidableEq

def readers (ts : List TS) : Nat :=
  (ts.map (fun t => match t with | .reading _ => 1 | .reading1 _ => 1 | .reading2 _ => 2 | _ => 0)).sum

def writerActive (ts : List TS) : Bool := ts.any (fun t => match t with | .writing _ => true | _ => false)

def writerWaiting (ts : List TS) : Bool := ts.any (fun t => match t with | .announced _ => true | _ => false)

/-- RLock returns at once iff no writer holds or waits for the lock -/
def canRLock (ts : List TS) : Bool := !writerActive ts && !writerWaiting ts

/-- what thread state `t` turns into when it is scheduled, `none` when it is blocked or finished -/
def next (ts : List TS) : TS → Option TS
  | .idle [] => none
  | .idle (.read :: r) => if canRLock ts then some (.reading r) else none
  | .idle (.nestedRead :: r) => if canRLock ts then some (.reading1 r) else none
  | .idle (.write :: r) => some (.announced r)
  | .reading r => some (.idle r)
  | .reading1 r => if canRLock ts then some (.reading2 r) else none
  | .reading2 r => some (.reading r)
  | .announced r => if readers ts == 0 && !writerActive ts then some (.writing r) else none
  | .writing r => some (.idle r)

def finished : TS → Bool
  | .idle [] => true
  | _ => false

def step (ts : List TS) (i : Nat) : List TS :=
  match ts[i]? with
  | none => ts
  | some t => match next ts t with
    | none => ts
    | some t' => ts.set i t'

/-- nobody can move although somebody is not finished -/
def stuck (ts : List TS) : Bool := ts.any (fun t => !finished t) && ts.all (fun t => (next ts t).isNone)

/-- the repaired code never asks for the lock while it holds it -/
def flat : TS → Bool
  | .idle r | .reading r | .announced r | .writing r => r.all (· != .nestedRead)
  | .reading1 _ | .reading2 _ => false

end Lock

end GoJson.Model.Conc
