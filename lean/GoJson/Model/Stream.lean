/-
Model of the raw stream machine of go-json's Decoder (internal/decoder/stream.go):
`read`, `readBuf`, `reset`, `Reset` and cursor advance, with the reader as the list of pieces it
will still deliver. The window is `buf[cursor:length)`; `buf[length]` holds the NUL sentinel.
-/
namespace GoJson.Model.Stream

structure S where
  buf : List UInt8
  bufSize : Nat
  length : Nat
  offset : Nat
  cursor : Nat
  filled : Bool
  allRead : Bool
  pieces : List (List UInt8)
  fail : Bool          -- after the pieces the reader fails with a non-EOF error
  err : Bool := false  -- readErr is set (here: a NUL byte of the input was met): every later read fails
deriving Repr, DecidableEq

def initBufSize : Nat := 512

def new (pieces : List (List UInt8)) (fail : Bool) : S :=
  { buf := List.replicate initBufSize 0, bufSize := initBufSize, length := 0, offset := 0, cursor := 0,
    filled := false, allRead := false, pieces := pieces, fail := fail }

/-- drop leading empty pieces (the test reader skips them) -/
def dropEmpty : List (List UInt8) → List (List UInt8)
  | [] => []
  | p :: r => if p.isEmpty then dropEmpty r else p :: r

inductive ReadErr where
  | none | eof | other
deriving Repr, DecidableEq

/-- `r.Read(p)` with `len(p) = room`: bytes delivered, remaining pieces, error -/
def readerRead (pieces : List (List UInt8)) (fail : Bool) (room : Nat) :
    List UInt8 × List (List UInt8) × ReadErr :=
  match dropEmpty pieces with
  | [] => ([], [], if fail then .other else .eof)
  | p :: r => (p.take room, (p.drop room) :: r, .none)

/-- overwrite `l` from index `i` with `src` (as `copy(l[i:], src)`) -/
def overwrite (l : List UInt8) (i : Nat) (src : List UInt8) : List UInt8 :=
  l.take i ++ (src.take (l.length - i)) ++ l.drop (i + (src.take (l.length - i)).length)

def setAt (l : List UInt8) (i : Nat) (v : UInt8) : List UInt8 := l.set i v

/-- `read()`: `none` = a run-time panic (index out of range) -/
def read (s : S) : Option (Bool × S) :=
  -- the NUL the scanner stopped at is inside the buffered data: a NUL byte of the input (the caller
  -- gets `false`, the Decoder reports the sticky error)
  if s.cursor < s.length && s.buf.getD s.cursor 1 == 0 then some (false, { s with err := true })
  else if s.allRead || s.err then some (false, s)
  else
    -- readBuf
    let (buf1, bufSize1) :=
      if s.filled then (s.buf ++ List.replicate (s.bufSize * 2 - s.buf.length) 0, s.bufSize * 2)
      else (s.buf, s.bufSize)
    let length1 := s.length
    let space := buf1.length - length1           -- len(buf[cursor+cnt:])
    if space == 0 then none                      -- last = -1: buf[last] panics
    else
      let last := space - 1
      let buf2 := setAt buf1 (length1 + last) 0
      let (data, pieces', err) := readerRead s.pieces s.fail last
      let buf3 := overwrite buf2 length1 data
      let s' : S := { s with buf := buf3, bufSize := bufSize1, length := length1 + data.length,
                              filled := data.length == last, pieces := pieces' }
      match err with
      | .eof => some (true, { s' with allRead := true })
      | .other => some (false, s')
      | .none => some (true, s')

def reset (s : S) : S :=
  { s with offset := s.offset + s.cursor, buf := s.buf.drop s.cursor, length := s.length - s.cursor, cursor := 0 }

def resetPublic (s : S) : S :=
  let s' := reset s
  { s' with bufSize := s'.buf.length }

def advance (s : S) (n : Nat) : S :=
  { s with cursor := s.cursor + (if s.cursor + n > s.length then s.length - s.cursor else n) }

/-- the bytes the decoder has not consumed yet: the window plus what the reader still holds -/
def unread (s : S) : List UInt8 := (s.buf.drop s.cursor).take (s.length - s.cursor) ++ s.pieces.flatten

/-- bytes consumed so far (`totalOffset`) -/
def consumed (s : S) : Nat := s.offset + s.cursor

end GoJson.Model.Stream
