/-
Model of how an entry point of the package uses a pooled runtime context (C11): the fields it
writes and reads, in order. The event lists themselves are generated from the source on every run
(GoJson.Gen.Flows, by tools/extract/flow.go).
-/
namespace GoJson.Model.Flow

/-- one event of the walk over a function body (fields, functions and packages by number) -/
inductive Ev where
  | w (f : Nat)            -- ctx.f = …
  | wi (f : Nat)           -- ctx.f[i] = …  (element store; slot contents are not modelled)
  | wc (f : Nat)           -- ctx.f = … inside a conditional or loop: does not define the field
  | wAll (fs : List Nat)   -- *ctx.Option = …
  | r (f : Nat)            -- any other use of ctx.f
  | rAll (fs : List Nat)   -- *ctx.Option read as a whole
  | cap (f : Nat)          -- ctx.f[:0], len(ctx.f), cap(ctx.f): old contents are not observed
  | opts (fs : List Nat)   -- optFunc(ctx.Option): reads and writes the option fields
  | call (g : Nat)         -- another listed function
  | run (p : Nat)          -- the interpreter / decoder of package p runs on the context
  | unknown                -- a field the extractor does not know
  deriving Repr, DecidableEq

inductive Instr where
  | write (f : Nat)
  | read (f : Nat)
  deriving Repr, DecidableEq

/-- one event; `body` resolves the body of a called function -/
def flattenEv (table : List (List Ev)) (runReads : List (List Nat))
    (body : List Ev → Option (List Instr)) : Ev → Option (List Instr)
  | .w f => some [.write f]
  | .wi _ => some []
  | .wc _ => some []
  | .wAll fs => some (fs.map .write)
  | .r f => some [.read f]
  | .rAll fs => some (fs.map .read)
  | .cap _ => some []
  | .opts fs => some (fs.map .read ++ fs.map .write)
  | .call g =>
    match table[g]? with
    | some b => body b
    | none => none
  | .run p =>
    match runReads[p]? with
    | some rs => some (rs.map .read)
    | none => none
  | .unknown => none

def flattenWith (one : Ev → Option (List Instr)) : List Ev → Option (List Instr)
  | [] => some []
  | e :: es =>
    match one e, flattenWith one es with
    | some a, some b => some (a ++ b)
    | _, _ => none

/-- inline calls (to depth `fuel`) and expand the composite events; `none` when something cannot be
resolved -/
def flatten (table : List (List Ev)) (runReads : List (List Nat)) : Nat → List Ev → Option (List Instr)
  | 0, es => flattenWith (flattenEv table runReads (fun _ => none)) es
  | fuel + 1, es => flattenWith (flattenEv table runReads (flatten table runReads fuel)) es

/-- every field is written in this call before it is read (`written`: the fields written so far) -/
def check : List Nat → List Instr → Bool
  | _, [] => true
  | written, .write f :: p => check (f :: written) p
  | written, .read f :: p => written.contains f && check written p

/-! ### what a call computes -/

abbrev Val := Nat
abbrev Ctx := Nat → Val

def update (c : Ctx) (f : Nat) (v : Val) : Ctx := fun g => if g = f then v else c g

/-- the values a call reads from its context, in order. What a write stores (`wval`) may depend on
the arguments of the call (fixed), on the position in the program and on everything read so far —
not on anything else. The result of the call is a function of its arguments and of these reads. -/
def exec (wval : Nat → Nat → List Val → Val) : Ctx → List Instr → Nat → List Val → List Val
  | _, [], _, rs => rs
  | c, .read f :: p, i, rs => exec wval c p (i + 1) (rs ++ [c f])
  | c, .write f :: p, i, rs => exec wval (update c f (wval i f rs)) p (i + 1) rs

end GoJson.Model.Flow
