/-
The encoder as a function on value trees: what `Marshal` / `MarshalIndent` must print for a Go value,
after the type-directed part (which fields exist, their names, which carry `omitempty` / `string`,
map keys resolved to strings and sorted) has been resolved. Tokens come from the models of the other
properties: integers from `Spec.decInt` (C16), strings from `Model.Str.escape` (C17), embedded JSON
(RawMessage, MarshalJSON results) through `Model.Compact.run` (C18). Float and json.Number tokens are
given by the caller (strconv is trusted) and only checked to be JSON numbers.

`lay = none` is Marshal, `lay = some (prefix, indent)` is MarshalIndent.

This is a specification with executable content. It is tied to the implementation by differential
execution (the harness turns Go values into these trees), and — as a check of the specification
itself — to encoding/json in the same way.
-/
import GoJson.Model.Str
import GoJson.Model.Compact
import GoJson.Spec.Decimal

namespace GoJson.Model.Enc
open GoJson GoJson.Model.Compact

mutual
inductive GV where
  | null                               -- nil pointer, interface, map or slice
  | bool (b : Bool)
  | int (i : Int)
  | num (tok : List UInt8) (zero : Bool)   -- float / json.Number text; `zero`: the Go value is 0 (omitempty)
  | str (s : List UInt8)
  | raw (text : List UInt8)            -- RawMessage / MarshalJSON result
  | ptr (v : GV)                       -- non-nil pointer or interface
  | arr (es : GVs)
  | obj (isMap : Bool) (ms : GMs)
inductive GVs where
  | nil
  | cons (v : GV) (r : GVs)
inductive GMs where
  | nil
  | cons (key : List UInt8) (om quoted : Bool) (v : GV) (r : GMs)
end

/-- encoding/json's `isEmptyValue` -/
def isEmpty : GV → Bool
  | .null => true
  | .bool b => !b
  | .int i => i == 0
  | .num _ z => z
  | .str s => s.isEmpty
  | .raw t => t.isEmpty
  | .ptr _ => false
  | .arr es => match es with | .nil => true | _ => false
  | .obj isMap ms => isMap && (match ms with | .nil => true | _ => false)

def nullB : List UInt8 := [110, 117, 108, 108]
def trueB : List UInt8 := [116, 114, 117, 101]
def falseB : List UInt8 := [102, 97, 108, 115, 101]

def boolB (b : Bool) : List UInt8 := if b then trueB else falseB

def quote (t : List UInt8) : List UInt8 := 34 :: t ++ [34]

/-- the `,string` option: scalars are printed inside a JSON string -/
def quotedScalar (html : Bool) : GV → Option (List UInt8)
  | .bool b => some (quote (boolB b))
  | .int i => some (quote (Spec.decInt i))
  | .num t _ => if Spec.isNumber t then some (quote t) else none
  | .str s => some (Str.escape html true (Str.escape html true s))
  | .ptr v => quotedScalar html v
  | _ => none     -- not a scalar: the option does not apply

/-- `[` items `]` / `{` items `}` at level `n`: every item on its own line when indenting -/
def joinItems (lay : Layout) (n : Nat) : List (List UInt8) → List UInt8
  | [] => []
  | [x] => nl lay (n + 1) ++ x
  | x :: y :: r => nl lay (n + 1) ++ x ++ [44] ++ joinItems lay n (y :: r)

def assemble (lay : Layout) (n : Nat) (op cl : UInt8) (items : List (List UInt8)) : List UInt8 :=
  match items with
  | [] => [op, cl]
  | _ => op :: joinItems lay n items ++ nl lay n ++ [cl]

mutual
def enc (html : Bool) (lay : Layout) : Nat → GV → Option (List UInt8)
  | _, .null => some nullB
  | _, .bool b => some (boolB b)
  | _, .int i => some (Spec.decInt i)
  | _, .num t _ => if Spec.isNumber t then some t else none
  | _, .str s => some (Str.escape html true s)
  | n, .raw t =>
    -- the embedded text is validated and compacted, then laid out at the level where it stands
    match Compact.run html none t with
    | none => none
    | some c =>
      match lay with
      | none => some c
      | some _ =>
        match Compact.cvalue html lay (2 * c.length + 4) n (c ++ [0]) with
        | .ok o _ => some o
        | _ => none
  | n, .ptr v => enc html lay n v
  | n, .arr es => (encEs html lay (n + 1) es).map (assemble lay n 91 93)
  | n, .obj _ ms => (encMs html lay (n + 1) ms).map (assemble lay n 123 125)

/-- the elements, each rendered at level `n` -/
def encEs (html : Bool) (lay : Layout) : Nat → GVs → Option (List (List UInt8))
  | _, .nil => some []
  | n, .cons v r =>
    match enc html lay n v, encEs html lay n r with
    | some o, some os => some (o :: os)
    | _, _ => none

/-- the members that are printed (`omitempty` ones with an empty value are skipped), each as
`"key":value` rendered at level `n` -/
def encMs (html : Bool) (lay : Layout) : Nat → GMs → Option (List (List UInt8))
  | _, .nil => some []
  | n, .cons k om q v r =>
    if om && isEmpty v then encMs html lay n r
    else
      match (if q then (match quotedScalar html v with | some o => some o | none => enc html lay n v)
             else enc html lay n v), encMs html lay n r with
      | some o, some os => some ((Str.escape html true k ++ colon lay ++ o) :: os)
      | _, _ => none
end

/-- `Marshal` -/
def marshal (html : Bool) (v : GV) : Option (List UInt8) := enc html none 0 v

/-- `MarshalIndent` -/
def marshalIndent (html : Bool) (pre ind : List UInt8) (v : GV) : Option (List UInt8) :=
  enc html (some (pre, ind)) 0 v

end GoJson.Model.Enc
