/-
The address arithmetic of the array decoder (internal/decoder/array.go): a Go array of `alen`
elements of `size` bytes at address `p`; elements `0 .. idx-1` are decoded in place (each element
decoder writes `size` bytes at `p + i*size`), surplus JSON elements are skipped, and when the JSON
array is shorter `zeroFrom` clears the remaining elements. A write is (offset from p, width).

`fillWord` is the code before the repair of finding D20 (one pointer-sized store per remaining
element, whatever the element size); it is kept for the counter-example.
-/
namespace GoJson.Model.Mem

/-- the stores of `zeroFrom(p, idx)`: one of `size` bytes per remaining element -/
def zeroFrom (alen size : Nat) (idx : Nat) : List (Nat × Nat) :=
  (List.range (alen - idx)).map (fun k => ((idx + k) * size, size))

/-- the stores of the old tail fill: a machine word per remaining element -/
def fillWord (alen size : Nat) (idx : Nat) : List (Nat × Nat) :=
  (List.range (alen - idx)).map (fun k => ((idx + k) * size, 8))

/-- the stores of decoding a JSON array with `n` elements into the Go array -/
def decodeArray (alen size n : Nat) : List (Nat × Nat) :=
  (List.range (min n alen)).map (fun i => (i * size, size)) ++ zeroFrom alen size (min n alen)

def inBounds (alen size : Nat) (w : Nat × Nat) : Prop := w.1 + w.2 ≤ alen * size

end GoJson.Model.Mem
