/-
What the garbage collector can see while an interpreter runs (encode.go encode / encodeIndent /
encodeNoEscape; vm*/vm.go OpInterface). The interpreters hold the value being encoded and the address
at which an outer program continues as integers in the slot array; only what is in
`RuntimeContext.KeepRefs` (emptied by `Init`), or kept alive by the caller behind the run, is
reachable for the collector.
-/
namespace GoJson.Model.Keep

inductive Obj where
  | value      -- the value handed to the entry point
  | program    -- the opcode set the run executes
  deriving Repr, DecidableEq

inductive Ev where
  | compile                 -- CompileToGetCodeSet*: the program exists from here on
  | init                    -- ctx.Init: KeepRefs = KeepRefs[:0]
  | keep (os : List Obj)    -- ctx.KeepRefs = append(ctx.KeepRefs, …)
  | run                     -- the interpreter
  | aliveAfter (o : Obj)    -- runtime.KeepAlive(o) / a use of o behind the run
  | other (s : String)
  deriving Repr, DecidableEq

/-- KeepRefs when the interpreter starts -/
def keptAtRun : List Ev → List Obj → List Obj
  | [], acc => acc
  | .init :: es, _ => keptAtRun es []
  | .keep os :: es, acc => keptAtRun es (acc ++ os)
  | .run :: _, acc => acc
  | _ :: es, acc => keptAtRun es acc

/-- what is used again behind the run -/
def aliveAfterRun : List Ev → List Obj
  | [] => []
  | .run :: es => es.filterMap (fun e => match e with
      | .aliveAfter o => some o
      | .keep os => if os.contains .value then some .value else none
      | _ => none)
  | _ :: es => aliveAfterRun es

/-- the collector can reach `o` for the whole run -/
def reachable (evs : List Ev) (o : Obj) : Bool :=
  (keptAtRun evs []).contains o || (aliveAfterRun evs).contains o

def safe (evs : List Ev) : Bool := reachable evs .value && reachable evs .program && evs.contains .run

/-- the statements the extractor reports (Gen.keep_*), as events -/
def parse (s : String) : Ev :=
  if s = "Compile" then .compile
  else if s = "Init" then .init
  else if s = "Run" then .run
  else if s = "Keep header.ptr, unsafe.Pointer(codeSet)" then .keep [.value, .program]
  else if s = "Keep unsafe.Pointer(codeSet)" then .keep [.program]
  else if s = "Keep header.ptr" then .keep [.value]
  else if s = "KeepAlive v" then .aliveAfter .value
  else .other s

end GoJson.Model.Keep
