def hello := "world"
