import GoJson.Drv.Util
import GoJson.Model.Path
namespace GoJson.Drv.C20
open GoJson.Drv GoJson.Model.Path

def parseRunes (s : String) : Option (List Nat) :=
  if s == "" then some [] else (s.splitOn ".").mapM (·.toNat?)

def showRunes (l : List Nat) : String := ".".intercalate (l.map toString)

def showSel : Sel → String
  | .name s => "n=" ++ showRunes s
  | .index i => "i=" ++ toString i
  | .all => "all"
  | .desc s => "d=" ++ showRunes s

def parseSel (s : String) : Option Sel :=
  if s == "all" then some .all
  else if s.startsWith "n=" then (parseRunes (s.drop 2).toString).map .name
  else if s.startsWith "d=" then (parseRunes (s.drop 2).toString).map .desc
  else if s.startsWith "i=" then (s.drop 2).toString.toInt?.map .index
  else none

def parseSels (s : String) : Option (List Sel) :=
  if s == "-" then some [] else (s.splitOn ";").mapM parseSel

mutual
/-- tokens: `s<hex>` scalar, `a<n>` then n values, `o<n>` then n × (`k<runes>`, value) -/
def parseV : Nat → List String → Option (JV × List String)
  | 0, _ => none
  | fuel + 1, tok :: rest =>
    if tok.startsWith "s" then (unhex (tok.drop 1).toString).map (fun b => (JV.scalar b, rest))
    else if tok.startsWith "a" then
      match (tok.drop 1).toString.toNat? with
      | some n => (parseVs fuel n rest).map (fun (es, r) => (JV.arr es, r))
      | none => none
    else if tok.startsWith "o" then
      match (tok.drop 1).toString.toNat? with
      | some n => (parseMs fuel n rest).map (fun (ms, r) => (JV.obj ms, r))
      | none => none
    else none
  | _, [] => none
def parseVs : Nat → Nat → List String → Option (JVs × List String)
  | 0, _, _ => none
  | _ + 1, 0, rest => some (JVs.nil, rest)
  | fuel + 1, n + 1, rest =>
    match parseV fuel rest with
    | some (v, r) => (parseVs fuel n r).map (fun (es, r2) => (JVs.cons v es, r2))
    | none => none
def parseMs : Nat → Nat → List String → Option (JMs × List String)
  | 0, _, _ => none
  | _ + 1, 0, rest => some (JMs.nil, rest)
  | fuel + 1, n + 1, tok :: rest =>
    if tok.startsWith "k" then
      match parseRunes (tok.drop 1).toString, parseV fuel rest with
      | some k, some (v, r) => (parseMs fuel n r).map (fun (ms, r2) => (JMs.cons k v ms, r2))
      | _, _ => none
    else none
  | _, _, [] => none
end

mutual
def showV : JV → List String
  | .scalar b => ["s" ++ hex b]
  | .arr es => let l := showVs es; ("a" ++ toString l.1) :: l.2
  | .obj ms => let l := showMs ms; ("o" ++ toString l.1) :: l.2
def showVs : JVs → Nat × List String
  | .nil => (0, [])
  | .cons v r => let l := showVs r; (l.1 + 1, showV v ++ l.2)
def showMs : JMs → Nat × List String
  | .nil => (0, [])
  | .cons k v r => let l := showMs r; (l.1 + 1, ("k" ++ showRunes k) :: showV v ++ l.2)
end

def handle : List String → Option String
  | ["pbuild", text] => do
    let runes ← if text == "-" then some [] else parseRunes text
    match build runes with
    | .ok sels => some ("ok " ++ ";".intercalate (sels.map showSel))
    | .err => some "err"
    | .panic => some "panic"
  | "pextract" :: sels :: toks => do
    let ss ← parseSels sels
    let (doc, rest) ← parseV (2 * toks.length + 4) toks
    if rest != [] then none
    else
      let res := extract ss doc
      some (if res.isEmpty then "-" else " | ".intercalate (res.map (fun v => " ".intercalate (showV v))))
  | "ptext" :: text :: toks => do
    -- the path as text: the model's builder, then the walk (what CreatePath(text).Extract(doc) must give)
    let runes ← if text == "-" then some [] else parseRunes text
    let (doc, rest) ← parseV (2 * toks.length + 4) toks
    if rest != [] then none
    else
      match build runes with
      | .ok ss =>
        let res := extract ss doc
        some (if res.isEmpty then "-" else " | ".intercalate (res.map (fun v => " ".intercalate (showV v))))
      | .err => some "err"
      | .panic => some "panic"
  | _ => none

end GoJson.Drv.C20
