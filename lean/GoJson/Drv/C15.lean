import GoJson.Drv.Util
import GoJson.Model.Key
import GoJson.Model.StrDec
namespace GoJson.Drv.C15
open GoJson.Drv GoJson.Model.Key

def parseNames (s : String) : Option (List (List UInt8)) :=
  if s == "." then some [] else (s.splitOn ",").mapM unhex

/-- `key <names> <text after the opening quote, without the terminator>`: which declared field the
struct decoder selects. Eligible name sets go through the bitmap matcher, the others through
`decodeKey` (the string decoder of C17, then exact / folded lookup). -/
def handle : List String → Option String
  | ["key", ns, raw] => do
    let names ← parseNames ns
    let l ← unhex raw
    if eligible names then
      let sorted := sortNames (names.map (·.map lower))
      match rawMatch sorted (l ++ [0]) with
      | .field i =>
        match sorted[i]? with
        | some k =>
          match names.findIdx? (fun n => n.map lower == k) with
          | some j => some s!"bitmap f{j}"
          | none => some "bitmap lost"
        | none => some "bitmap lost"
      | .notFound => some "bitmap none"
      | .err => some "bitmap err"
      | .panic => some "bitmap panic"
    else
      match GoJson.Model.StrDec.decodeString (34 :: l ++ [0]) with
      | .ok key _ =>
        match mapSelect names key with
        | some j => some s!"map f{j}"
        | none => some "map none"
      | _ => some "map err"
  | ["lower", n] => do
    let v ← n.toNat?
    some (toString (lower v.toUInt8).toNat)
  | ["keypath", ns] => do
    let names ← parseNames ns
    some (if eligible names then "bitmap" else "map")
  | _ => none

end GoJson.Drv.C15
