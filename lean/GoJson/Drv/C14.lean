import GoJson.Drv.Util
import GoJson.Model.Cache
namespace GoJson.Drv.C14
open GoJson.Drv GoJson.Model.Cache

def parsePair (s : String) : Option (Nat × Option Nat) :=
  match s.splitOn ":" with
  | [a, b] => do
    let x ← parseHexNat a
    let y ← parseHexNat b
    some (x, if y == 0 then none else some y)
  | _ => none

def hexNat (n : Nat) : String := String.ofList (Nat.toDigits 16 n)

def handle : List String → Option String
  | "analyze" :: rest => do
    let l ← rest.mapM parsePair
    match analyze l with
    | some ta => some s!"some {hexNat ta.base} {hexNat ta.max} {hexNat ta.range} {ta.shift}"
    | none => some "none"
  | ["cidx", base, max, rng, shift, a] => do
    let b ← parseHexNat base
    let m ← parseHexNat max
    let r ← parseHexNat rng
    let s ← shift.toNat?
    let x ← parseHexNat a
    let ta : TypeAddr := { base := b, max := m, range := r, shift := s }
    match index ta x with
    | some i => some (if i < cacheSize ta then s!"fast {i}" else s!"fast {i} OUT-OF-RANGE(size {cacheSize ta})")
    | none => some "slow"
  | _ => none

end GoJson.Drv.C14
