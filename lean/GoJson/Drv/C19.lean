import GoJson.Drv.Util
import GoJson.Drv.Enc
import GoJson.Model.Query
namespace GoJson.Drv.C19
open GoJson.Drv GoJson.Model.Enc GoJson.Model.Query

/-- query tokens: `q<n>` then n × (`h<name hex>`, sub-query) -/
def parseQs : Nat → List String → Option (Qs × List String)
  | 0, _ => none
  | _, [] => none
  | fuel + 1, tok :: rest =>
    if tok.startsWith "q" then
      match (tok.drop 1).toString.toNat? with
      | some n => parseEntries fuel n rest
      | none => none
    else none
where
  parseEntries : Nat → Nat → List String → Option (Qs × List String)
    | 0, _, _ => none
    | _ + 1, 0, rest => some (.nil, rest)
    | _, _, [] => none
    | fuel + 1, n + 1, tok :: rest =>
      if tok.startsWith "h" then
        match unhex (tok.drop 1).toString, parseQs fuel rest with
        | some name, some (sub, r) =>
          (parseEntries fuel n r).map (fun (qs, r2) => (Qs.cons (.node name sub) qs, r2))
        | _, _ => none
      else none

mutual
def showJQ : JQ → String
  | .str s => "S" ++ hex s
  | .obj n v => "O" ++ hex n ++ "(" ++ showJQ v ++ ")"
  | .arr l => "[" ++ showJQs l ++ "]"
def showJQs : JQs → String
  | .nil => ""
  | .cons v r => showJQ v ++ ";" ++ showJQs r
end

def handle : List String → Option String
  | "encq" :: html :: lay :: toks => do
    let l ← GoJson.Drv.Enc.parseLay lay
    let (qs, rest) ← parseQs (2 * toks.length + 4) toks
    let (v, rest2) ← GoJson.Drv.Enc.parseV (2 * rest.length + 4) rest
    if rest2 != [] then none
    else
      match marshalQuery (html == "1") l qs v with
      | some o => some (hex o)
      | none => some "err"
  | "qstring" :: toks => do
    -- the JSON value of the query's QueryString (rendered), and whether building it returns the query
    let (qs, rest) ← parseQs (2 * toks.length + 4) toks
    if rest != [] then none
    else
      let j := render (.node [] qs)
      some (showJQ j ++ (match build j with | some _ => " builds" | none => " nobuild"))
  | _ => none

end GoJson.Drv.C19
