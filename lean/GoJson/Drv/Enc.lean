import GoJson.Drv.Util
import GoJson.Model.Enc
namespace GoJson.Drv.Enc
open GoJson.Drv GoJson.Model.Enc

mutual
def parseV : Nat → List String → Option (GV × List String)
  | 0, _ => none
  | _, [] => none
  | fuel + 1, tok :: rest =>
    if tok == "z" then some (.null, rest)
    else if tok == "t" then some (.bool true, rest)
    else if tok == "f" then some (.bool false, rest)
    else if tok.startsWith "i" then (tok.drop 1).toString.toInt?.map (fun i => (GV.int i, rest))
    else if tok.startsWith "n" then (unhex (tok.drop 1).toString).map (fun b => (GV.num b false, rest))
    else if tok.startsWith "N" then (unhex (tok.drop 1).toString).map (fun b => (GV.num b true, rest))
    else if tok.startsWith "s" then (unhex (tok.drop 1).toString).map (fun b => (GV.str b, rest))
    else if tok.startsWith "r" then (unhex (tok.drop 1).toString).map (fun b => (GV.raw b, rest))
    else if tok == "p" then (parseV fuel rest).map (fun (v, r) => (GV.ptr v, r))
    else if tok.startsWith "a" then
      match (tok.drop 1).toString.toNat? with
      | some n => (parseVs fuel n rest).map (fun (es, r) => (GV.arr es, r))
      | none => none
    else if tok.startsWith "o" then
      match (tok.drop 1).toString.toNat? with
      | some n => (parseMs fuel n rest).map (fun (ms, r) => (GV.obj false ms, r))
      | none => none
    else if tok.startsWith "m" then
      match (tok.drop 1).toString.toNat? with
      | some n => (parseMs fuel n rest).map (fun (ms, r) => (GV.obj true ms, r))
      | none => none
    else none
def parseVs : Nat → Nat → List String → Option (GVs × List String)
  | 0, _, _ => none
  | _ + 1, 0, rest => some (.nil, rest)
  | fuel + 1, n + 1, rest =>
    match parseV fuel rest with
    | some (v, r) => (parseVs fuel n r).map (fun (es, r2) => (GVs.cons v es, r2))
    | none => none
def parseMs : Nat → Nat → List String → Option (GMs × List String)
  | 0, _, _ => none
  | _ + 1, 0, rest => some (.nil, rest)
  | _, _, [] => none
  | fuel + 1, n + 1, tok :: rest =>
    -- k<flags><hex>: flags 0..3, bit 0 omitempty, bit 1 string
    if tok.startsWith "k" then
      let fl := ((tok.drop 1).toString.take 1).toString.toNat?.getD 0
      match unhex (tok.drop 2).toString, parseV fuel rest with
      | some k, some (v, r) => (parseMs fuel n r).map (fun (ms, r2) => (GMs.cons k (fl % 2 == 1) (fl / 2 % 2 == 1) v ms, r2))
      | _, _ => none
    else none
end

def parseLay (s : String) : Option GoJson.Model.Compact.Layout :=
  if s == "-" then some none
  else
    match s.splitOn ":" with
    | [a, b] => do
      let pa ← unhex a
      let pb ← unhex b
      some (some (pa, pb))
    | _ => none

def handle : List String → Option String
  | "enc" :: html :: lay :: toks => do
    let l ← parseLay lay
    let (v, rest) ← parseV (2 * toks.length + 4) toks
    if rest != [] then none
    else
      match enc (html == "1") l 0 v with
      | some o => some (hex o)
      | none => some "err"
  | _ => none

end GoJson.Drv.Enc
