import GoJson.Drv.Util
import GoJson.Model.Stream
namespace GoJson.Drv.C09
open GoJson.Drv GoJson.Model.Stream

def showState (s : S) (ret : String) : String :=
  let w := (s.buf.drop s.cursor).take (s.length - s.cursor)
  let hx := if w.isEmpty then "" else hex w
  s!"{s.buf.length} {s.bufSize} {s.length} {s.offset} {s.cursor} {s.filled} {s.allRead} {ret} {hx}"

partial def runOps (s : S) (ops : List UInt8) (acc : List String) : List String :=
  match ops with
  | [] => acc.reverse
  | 114 :: rest =>   -- 'r'
    match read s with
    | none => ("panic" :: acc).reverse
    | some (b, s') => runOps s' rest (showState s' (toString b) :: acc)
  | 115 :: rest => let s' := reset s; runOps s' rest (showState s' "-" :: acc)
  | 83 :: rest => let s' := resetPublic s; runOps s' rest (showState s' "-" :: acc)
  | 97 :: n :: rest => let s' := advance s n.toNat; runOps s' rest (showState s' "-" :: acc)
  | _ :: rest => runOps s rest (showState s "-" :: acc)

def handle : List String → Option String
  | ["strace", fail, pieces, ops] => do
    let ps ← (pieces.splitOn ",").mapM unhex
    let o ← unhex ops
    some (";".intercalate (runOps (new ps (fail == "1")) o []))
  | _ => none

end GoJson.Drv.C09
