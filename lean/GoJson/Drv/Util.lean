/- Line-protocol helpers for the model driver (core-only). -/
namespace GoJson.Drv

def hexVal (c : Char) : Option Nat :=
  if '0' ≤ c ∧ c ≤ '9' then some (c.toNat - 48)
  else if 'a' ≤ c ∧ c ≤ 'f' then some (c.toNat - 87)
  else if 'A' ≤ c ∧ c ≤ 'F' then some (c.toNat - 55)
  else none

/-- "-" denotes the empty byte string -/
def unhex (s : String) : Option (List UInt8) :=
  if s == "-" then some [] else
  let rec go : List Char → List UInt8 → Option (List UInt8)
    | [], acc => some acc.reverse
    | [_], _ => none
    | a :: b :: rest, acc =>
      match hexVal a, hexVal b with
      | some x, some y => go rest ((x * 16 + y).toUInt8 :: acc)
      | _, _ => none
  go s.toList []

def hexDigit (n : Nat) : Char :=
  if n < 10 then Char.ofNat (48 + n) else Char.ofNat (87 + n)

def hex (l : List UInt8) : String :=
  if l.isEmpty then "-" else
  String.ofList (l.foldr (fun b acc => hexDigit (b.toNat / 16) :: hexDigit (b.toNat % 16) :: acc) [])

def parseHexNat (s : String) : Option Nat :=
  s.toList.foldl (fun acc c => match acc, hexVal c with
    | some a, some v => some (a * 16 + v)
    | _, _ => none) (some 0)

end GoJson.Drv
