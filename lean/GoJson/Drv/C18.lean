import GoJson.Drv.Util
import GoJson.Model.Compact
namespace GoJson.Drv.C18
open GoJson.Drv GoJson.Model.Compact

def showRes : Option (List UInt8) → String
  | some o => s!"ok {hex o}"
  | none => "err"

def handle : List String → Option String
  | ["compact", buf] => do
    let b ← unhex buf
    some (showRes (run false none b))
  | ["compactesc", buf] => do
    let b ← unhex buf
    some (showRes (run true none b))
  | ["indent", pre, ind, buf] => do
    let p ← unhex pre
    let i ← unhex ind
    let b ← unhex buf
    some (showRes (run false (some (p, i)) b))
  | _ => none

end GoJson.Drv.C18
