import GoJson.Drv.Util
import GoJson.Model.Frames
import GoJson.Gen.Consts
namespace GoJson.Drv.C08
open GoJson.Model.Frames

def parseOp (w : String) : Option Op :=
  match w.splitOn "," with
  | [k, a, b, c, d] => do
    let kind ← match k with
      | "p" => some Kind.plain | "a" => some Kind.arr | "i" => some Kind.iface
      | "e" => some Kind.endTop | "E" => some Kind.endRec | "I" => some Kind.endIface | _ => none
    some { kind := kind, idx := ← a.toNat?, elemIdx := ← b.toNat?, length := ← c.toNat?, size := ← d.toNat? }
  | ["r", a, b, c, d, cur, next, tgt] => do
    some { kind := .recur (← cur.toNat?) (← next.toNat?) (← tgt.toNat?), idx := ← a.toNat?, elemIdx := ← b.toNat?,
           length := ← c.toNat?, size := ← d.toNat? }
  | _ => none

def parseProg (w : String) : Option (String × List Op) :=
  match w.splitOn "/" with
  | [k, ops] => do
    let l ← (ops.splitOn ";").mapM parseOp
    some (k, l)
  | _ => none

def ifaceLengthsOk (ops : List Op) (want : Nat) : Bool :=
  ops.all (fun o => match o.kind with | .iface => o.length == want | _ => true)

def nextsOk (ops : List Op) (ts : List Nat) : Bool :=
  ops.all (fun o => match o.kind with
    | .recur _ next tgt => (match ts[tgt]? with | some t => next == nextLen t | none => false)
    | _ => true)

/-- `frames <prog>…`: recompute every length of the frame protocol from the raw slot offsets of the
dumped programs and evaluate the well-formedness predicate the safety theorem needs -/
def handle : List String → Option String
  | "frames" :: ws => do
    let progs ← ws.mapM parseProg
    let tops := progs.filter (·.1 == "top")
    let ifaces := progs.filter (·.1 == "iface")
    let recs := (progs.filter (·.1 == "rec")).map (·.2)
    let top ← tops.head?
    let iface ← ifaces.head?
    let e ← top.2.getLast?
    let codeLen := totalLength top.2
    let ts := recs.map (fun r => totalLength r.dropLast)
    let ext : Nat → Nat := fun i => match ts[i]? with | some t => nextLen t | none => 0
    let mut bad : List String := []
    if e.kind != .endTop then bad := bad ++ ["top-end"]
    if iface.2.dropLast != top.2.dropLast || iface.2.getLast? != some (ifaceEnd e) then bad := bad ++ ["iface-end"]
    if !(fits top.2 codeLen && pushesOk top.2 codeLen ext) then bad := bad ++ ["top-wf"]
    if !(fits iface.2 (ifaceNext codeLen) && pushesOk iface.2 (ifaceNext codeLen) ext) then bad := bad ++ ["iface-wf"]
    if !(ifaceLengthsOk top.2 codeLen && ifaceLengthsOk iface.2 codeLen) then bad := bad ++ ["iface-length"]
    if !(nextsOk top.2 ts) then bad := bad ++ ["next-len"]
    for (r, t) in recs.zip ts do
      if r.getLast? != some (recEnd t) then bad := bad ++ ["rec-end"]
      if !(fits r (nextLen t) && pushesOk r (nextLen t) ext) then bad := bad ++ ["rec-wf"]
      if !(ifaceLengthsOk r (recIfaceLength t)) then bad := bad ++ ["rec-iface-length"]
      if !(nextsOk r ts) then bad := bad ++ ["rec-next-len"]
    let verdict := if bad.isEmpty then "ok" else "bad:" ++ ",".intercalate bad
    some s!"len={codeLen} rec={",".intercalate (ts.map toString)} {verdict}"
  | ["cycle", pre, cyc] => do
    -- a chain of `pre` nodes followed by a cycle of `cyc` nodes (0 = the chain ends); the threshold is
    -- the constant of the source tree
    let thr := GoJson.Gen.c_enc_StartDetectingCyclesAfter
    let pre ← pre.toNat?
    let cyc ← cyc.toNat?
    let n := pre + cyc
    let g : Nat → List Nat := fun p =>
      if p + 1 < n then [p + 1]
      else if p + 1 = n ∧ cyc > 0 then [pre]
      else []
    if n = 0 then some "ok" else
    match visit g thr (thr + n + 2) 0 [] 0 with
    | some true => some "ok"
    | some false => some "cycle"
    | none => some "depth"
  | _ => none

end GoJson.Drv.C08
