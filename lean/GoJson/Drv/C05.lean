import GoJson.Drv.Util
import GoJson.Model.BufDec
import GoJson.Model.Skip
namespace GoJson.Drv.C05
open GoJson.Drv

def handle : List String → Option String
  | ["acc", range, buf] => do
    let b ← unhex buf
    some (if GoJson.Model.BufDec.accepts (range == "1") b then "ok" else "err")
  | ["skp", buf] => do
    let b ← unhex buf
    some (if GoJson.Model.Skip.skipAccepts b then "ok" else "err")
  | ["isnum", buf] => do
    let b ← unhex buf
    some (if GoJson.Spec.isNumber b then "ok" else "err")
  | ["f64range", buf] => do
    let b ← unhex buf
    some (if GoJson.Spec.inF64Range b then "ok" else "err")
  | _ => none

end GoJson.Drv.C05
