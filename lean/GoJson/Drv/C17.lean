import GoJson.Drv.Util
import GoJson.Model.Str
import GoJson.Model.StrDec
namespace GoJson.Drv.C17
open GoJson.Drv

def showRes : GoJson.Model.StrDec.Res → String
  | .ok b c => s!"ok {hex b} {c}"
  | .null c => s!"nostore {c}"
  | .typeErr => "err type"
  | .syntaxErr => "err syntax"
  | .oob => "oob"

def handle : List String → Option String
  | ["esc", html, norm, s] => do
    let b ← unhex s
    some (hex (GoJson.Model.Str.escape (html == "1") (norm == "1") b))
  | ["unq", buf] => do
    let b ← unhex buf
    some (showRes (GoJson.Model.StrDec.decodeString b))
  | _ => none

end GoJson.Drv.C17
