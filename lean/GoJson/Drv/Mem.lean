import GoJson.Drv.Util
import GoJson.Model.Mem
namespace GoJson.Drv.Mem
open GoJson.Model.Mem

/-- `arrmem <alen> <size> <n>`: which bytes of the array (and of 16 guard bytes after it) the decoder
stores to: "d" decoded element, "z" cleared, "." untouched -/
def handle : List String → Option String
  | ["arrmem", a, s, n] => do
    let alen ← a.toNat?
    let size ← s.toNat?
    let nn ← n.toNat?
    let ws := decodeArray alen size nn
    let total := alen * size + 16
    let decoded := (List.range (min nn alen)).map (fun i => (i * size, size))
    let cell (b : Nat) : Char :=
      if decoded.any (fun w => w.1 ≤ b && b < w.1 + w.2) then 'd'
      else if ws.any (fun w => w.1 ≤ b && b < w.1 + w.2) then 'z'
      else '.'
    some (String.ofList ((List.range total).map cell))
  | _ => none

end GoJson.Drv.Mem
