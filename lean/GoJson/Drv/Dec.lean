import GoJson.Drv.Util
import GoJson.Drv.Enc
import GoJson.Model.Dec
namespace GoJson.Drv.Dec
open GoJson.Drv GoJson.Model.Dec

def lexLe : List UInt8 → List UInt8 → Bool
  | [], _ => true
  | _ :: _, [] => false
  | a :: as, b :: bs => a.toNat < b.toNat || (a == b && lexLe as bs)

def insertKV (k : List UInt8) (v : String) : List (List UInt8 × String) → List (List UInt8 × String)
  | [] => [(k, v)]
  | (k2, v2) :: r =>
    if k == k2 then (k, v) :: r          -- a later duplicate replaces the earlier one
    else if lexLe k k2 then (k, v) :: (k2, v2) :: r
    else (k2, v2) :: insertKV k v r

mutual
def showT : JT → String
  | .null => "z"
  | .bool true => "t"
  | .bool false => "f"
  | .num t => "n" ++ hex t
  | .str s => "s" ++ hex s
  | .arr es => let l := showTs es; "a" ++ toString l.length ++ String.join (l.map (" " ++ ·))
  | .obj ms =>
    let l := showMs ms []
    "o" ++ toString l.length ++ String.join (l.map (fun (k, v) => " k" ++ hex k ++ " " ++ v))
def showTs : JTs → List String
  | .nil => []
  | .cons v r => showT v :: showTs r
/-- members in key order, the last duplicate winning (what the Go map holds) -/
def showMs : JMs → List (List UInt8 × String) → List (List UInt8 × String)
  | .nil, acc => acc
  | .cons k v r, acc => showMs r (insertKV k (showT v) acc)
end

def handle : List String → Option String
  | ["dec", range, doc] => do
    let b ← unhex doc
    match unmarshal (range == "1") b with
    | some t => some (showT t)
    | none => some "err"
  | "rt" :: toks => do
    -- Unmarshal(Marshal(v)) into interface{} (UseNumber), on the value tree
    let (v, rest) ← GoJson.Drv.Enc.parseV (2 * toks.length + 4) toks
    if rest != [] then none
    else
      match GoJson.Model.Enc.marshal true v with
      | none => some "encerr"
      | some o =>
        match unmarshal false o with
        | some t => some (showT t)
        | none => some "decerr"
  | _ => none

end GoJson.Drv.Dec
