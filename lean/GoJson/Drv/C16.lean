import GoJson.Drv.Util
import GoJson.Model.Int
namespace GoJson.Drv.C16
open GoJson.Model.Int GoJson.Drv

def showRes : Res → String
  | .ok v c => s!"ok {v} {c}"
  | .null c => s!"nostore {c}"
  | .skip c => s!"nostore {c}"
  | .typeErr => "err type"
  | .syntaxErr => "err syntax"
  | .oob => "oob"

def handle : List String → Option String
  | ["appendInt", bits, w] => do
    let b ← bits.toNat?
    let n ← parseHexNat w
    some (hex (appendInt b (BitVec.ofNat 64 n)))
  | ["appendUint", bits, w] => do
    let b ← bits.toNat?
    let n ← parseHexNat w
    some (hex (appendUint b (BitVec.ofNat 64 n)))
  | ["decInt", bits, buf] => do
    let b ← bits.toNat?
    let s ← unhex buf
    some (showRes (decodeInt b s))
  | ["decUint", bits, buf] => do
    let b ← bits.toNat?
    let s ← unhex buf
    some (showRes (decodeUint b s))
  | _ => none

end GoJson.Drv.C16
