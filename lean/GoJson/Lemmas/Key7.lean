import GoJson.Lemmas.Key6
namespace GoJson.Model.Key

theorem keyChars_ne_nil (c : UInt8) (r chars : List UInt8) (hc : (c == 34) = false)
    (h : keyChars (c :: r) = some chars) : chars ≠ [] := by
  unfold keyChars at h
  simp only [hc, if_false, Bool.false_eq_true] at h
  split at h
  · cases h
  · split at h
    · split at h
      · rename_i chs k he
        cases hk : keyChars (r.drop k) with
        | none => simp [hk] at h
        | some cs =>
          simp only [hk, Option.map_some, Option.some.injEq] at h
          have := esc_chars_ne r chs k he
          rw [← h]
          simp [this]
      · cases h
    · cases hk : keyChars r with
      | none => simp [hk] at h
      | some cs =>
        simp only [hk, Option.map_some, Option.some.injEq] at h
        rw [← h]; simp

/-- the whole key decoder, raw text to result, equals: decode the characters, then match them -/
theorem rawMatch_eq (names : List (List UInt8)) (hs : Sorted names) (hn : names.length ≤ 16)
    (hne : ∀ k ∈ names, k ≠ []) (l : List UInt8) (ht : Term l) :
    rawMatch names l =
      match keyChars l with
      | none => .err
      | some chars => ofKR (matchSorted names chars) := by
  have hnp : ∀ cs, cs ≠ [] → scan names (width names.length) (2 ^ width names.length - 1) 0 cs ≠ .panic := by
    intro cs hcs
    have := (matchSorted_spec names hs hn hne cs).1
    cases cs with
    | nil => exact absurd rfl hcs
    | cons c cs => simpa [matchSorted] using this
  cases l with
  | nil => have := Term_len _ ht; simp at this
  | cons c r =>
    by_cases h34 : c = 34
    · subst h34
      simp [rawMatch, keyChars, matchSorted, ofKR]
    · have hc : (c == 34) = false := by simpa using h34
      have hrm : rawMatch names (c :: r) =
          rawScan names (width names.length) (2 ^ width names.length - 1) 0 (c :: r) := by
        unfold rawMatch
        split
        · rename_i heq; cases heq; exact absurd rfl h34
        · rfl
      rw [hrm, rawScan_eq names _ (c :: r).length (c :: r) _ _ (Nat.le_refl _) ht hnp]
      unfold rawSpec
      cases hk : keyChars (c :: r) with
      | none => rfl
      | some chars =>
        have := keyChars_ne_nil c r chars hc hk
        cases chars with
        | nil => exact absurd rfl this
        | cons x xs => simp [matchSorted]

end GoJson.Model.Key
