import GoJson.Model.Str
import GoJson.Lemmas.SwarNat
namespace GoJson.Model.Str
open GoJson

/-- byte `i` of a natural number -/
def byteOf (n i : Nat) : Nat := n / 2 ^ (8 * i) % 2 ^ 8

/-- the flag bit of byte `j`: bit 7 of that byte -/
def flag (t : BitVec 64) (j : Nat) : Bool := t.getLsbD (8 * j + 7)

theorem flag_or (a b : BitVec 64) (j : Nat) : flag (a ||| b) j = (flag a j || flag b j) := by
  simp [flag]

theorem flag_false_nat (t : BitVec 64) (j : Nat) (h : flag t j = false) :
    t.toNat / 2 ^ (8 * j + 7) % 2 = 0 := by
  unfold flag at h
  rw [BitVec.getLsbD, Nat.testBit_eq_decide_div_mod_eq] at h
  have := Nat.mod_two_eq_zero_or_one (t.toNat / 2 ^ (8 * j + 7))
  simp at h
  omega

theorem byteOf_xor (a b i : Nat) : byteOf (a ^^^ b) i = byteOf a i ^^^ byteOf b i := by
  unfold byteOf
  rw [Nat.xor_div_two_pow, Nat.xor_mod_two_pow]

theorem byteOf_lt (n i : Nat) : byteOf n i < 256 := by
  unfold byteOf; exact Nat.mod_lt _ (by decide)

theorem xor_small (b c : Nat) (hb : b < 128) (hc : c < 128) : b ^^^ c < 128 :=
  Nat.xor_lt_two_pow (n := 7) hb hc

theorem xor_ne_zero (b c : Nat) (h : b ^^^ c ≠ 0) : b ≠ c := by
  intro e; subst e; simp at h

end GoJson.Model.Str


namespace GoJson.Model.Str
open GoJson Swar

theorem k20 : lsb * 0x20#64 = 0x2020202020202020#64 := by decide

theorem term20_0 (n : BitVec 64) (h128 : ∀ j, j ≤ 0 → byteOf n.toNat j < 128)
    (hf : ∀ j, j ≤ 0 → flag (n - lsb * 0x20#64) j = false) : 32 ≤ byteOf n.toNat 0 := by
  rw [k20] at hf
  have hn := n.isLt
  have f0 := flag_false_nat _ 0 (hf 0 (by omega))
  have g0 := h128 0 (by omega)
  simp only [Nat.reduceMul, Nat.reduceAdd, Nat.reducePow] at f0
  refine sub20_0 (byteOf n.toNat 0) (byteOf n.toNat 1) (byteOf n.toNat 2) (byteOf n.toNat 3) (byteOf n.toNat 4) (byteOf n.toNat 5) (byteOf n.toNat 6) (byteOf n.toNat 7) _ g0 ?_ f0
  rw [BitVec.toNat_sub]
  simp only [byteOf, BitVec.toNat_ofNat, Nat.reduceMul, Nat.reducePow, Nat.reduceMod, Nat.pow_zero, Nat.div_one]
  omega

theorem termx_0 (n C : BitVec 64) (c : Nat) (hc : c < 128) (hC : ∀ j, j ≤ 7 → byteOf C.toNat j = c)
    (h128 : ∀ j, j ≤ 0 → byteOf n.toNat j < 128)
    (hf : ∀ j, j ≤ 0 → flag ((n ^^^ C) - lsb) j = false) : byteOf n.toNat 0 ≠ c := by
  have hX := (n ^^^ C).isLt
  have f0 := flag_false_nat _ 0 (hf 0 (by omega))
  have x0 : byteOf (n ^^^ C).toNat 0 < 128 := by
    rw [BitVec.toNat_xor, byteOf_xor, hC 0 (by omega)]; exact xor_small _ _ (h128 0 (by omega)) hc
  simp only [Nat.reduceMul, Nat.reduceAdd, Nat.reducePow] at f0
  have key : byteOf (n ^^^ C).toNat 0 ≠ 0 := by
    refine subx_0 (byteOf (n ^^^ C).toNat 0) (byteOf (n ^^^ C).toNat 1) (byteOf (n ^^^ C).toNat 2) (byteOf (n ^^^ C).toNat 3) (byteOf (n ^^^ C).toNat 4) (byteOf (n ^^^ C).toNat 5) (byteOf (n ^^^ C).toNat 6) (byteOf (n ^^^ C).toNat 7) _ x0 ?_ f0
    rw [BitVec.toNat_sub]
    simp only [lsb, byteOf, BitVec.toNat_ofNat, Nat.reduceMul, Nat.reducePow, Nat.reduceMod, Nat.pow_zero, Nat.div_one]
    omega
  rw [BitVec.toNat_xor, byteOf_xor, hC 0 (by omega)] at key
  exact xor_ne_zero _ _ key

theorem term20_1 (n : BitVec 64) (h128 : ∀ j, j ≤ 1 → byteOf n.toNat j < 128)
    (hf : ∀ j, j ≤ 1 → flag (n - lsb * 0x20#64) j = false) : 32 ≤ byteOf n.toNat 1 := by
  rw [k20] at hf
  have hn := n.isLt
  have f0 := flag_false_nat _ 0 (hf 0 (by omega))
  have f1 := flag_false_nat _ 1 (hf 1 (by omega))
  have g0 := h128 0 (by omega)
  have g1 := h128 1 (by omega)
  simp only [Nat.reduceMul, Nat.reduceAdd, Nat.reducePow] at f0 f1
  refine sub20_1 (byteOf n.toNat 0) (byteOf n.toNat 1) (byteOf n.toNat 2) (byteOf n.toNat 3) (byteOf n.toNat 4) (byteOf n.toNat 5) (byteOf n.toNat 6) (byteOf n.toNat 7) _ g0 g1 ?_ f0 f1
  rw [BitVec.toNat_sub]
  simp only [byteOf, BitVec.toNat_ofNat, Nat.reduceMul, Nat.reducePow, Nat.reduceMod, Nat.pow_zero, Nat.div_one]
  omega

theorem termx_1 (n C : BitVec 64) (c : Nat) (hc : c < 128) (hC : ∀ j, j ≤ 7 → byteOf C.toNat j = c)
    (h128 : ∀ j, j ≤ 1 → byteOf n.toNat j < 128)
    (hf : ∀ j, j ≤ 1 → flag ((n ^^^ C) - lsb) j = false) : byteOf n.toNat 1 ≠ c := by
  have hX := (n ^^^ C).isLt
  have f0 := flag_false_nat _ 0 (hf 0 (by omega))
  have f1 := flag_false_nat _ 1 (hf 1 (by omega))
  have x0 : byteOf (n ^^^ C).toNat 0 < 128 := by
    rw [BitVec.toNat_xor, byteOf_xor, hC 0 (by omega)]; exact xor_small _ _ (h128 0 (by omega)) hc
  have x1 : byteOf (n ^^^ C).toNat 1 < 128 := by
    rw [BitVec.toNat_xor, byteOf_xor, hC 1 (by omega)]; exact xor_small _ _ (h128 1 (by omega)) hc
  simp only [Nat.reduceMul, Nat.reduceAdd, Nat.reducePow] at f0 f1
  have key : byteOf (n ^^^ C).toNat 1 ≠ 0 := by
    refine subx_1 (byteOf (n ^^^ C).toNat 0) (byteOf (n ^^^ C).toNat 1) (byteOf (n ^^^ C).toNat 2) (byteOf (n ^^^ C).toNat 3) (byteOf (n ^^^ C).toNat 4) (byteOf (n ^^^ C).toNat 5) (byteOf (n ^^^ C).toNat 6) (byteOf (n ^^^ C).toNat 7) _ x0 x1 ?_ f0 f1
    rw [BitVec.toNat_sub]
    simp only [lsb, byteOf, BitVec.toNat_ofNat, Nat.reduceMul, Nat.reducePow, Nat.reduceMod, Nat.pow_zero, Nat.div_one]
    omega
  rw [BitVec.toNat_xor, byteOf_xor, hC 1 (by omega)] at key
  exact xor_ne_zero _ _ key

theorem term20_2 (n : BitVec 64) (h128 : ∀ j, j ≤ 2 → byteOf n.toNat j < 128)
    (hf : ∀ j, j ≤ 2 → flag (n - lsb * 0x20#64) j = false) : 32 ≤ byteOf n.toNat 2 := by
  rw [k20] at hf
  have hn := n.isLt
  have f0 := flag_false_nat _ 0 (hf 0 (by omega))
  have f1 := flag_false_nat _ 1 (hf 1 (by omega))
  have f2 := flag_false_nat _ 2 (hf 2 (by omega))
  have g0 := h128 0 (by omega)
  have g1 := h128 1 (by omega)
  have g2 := h128 2 (by omega)
  simp only [Nat.reduceMul, Nat.reduceAdd, Nat.reducePow] at f0 f1 f2
  refine sub20_2 (byteOf n.toNat 0) (byteOf n.toNat 1) (byteOf n.toNat 2) (byteOf n.toNat 3) (byteOf n.toNat 4) (byteOf n.toNat 5) (byteOf n.toNat 6) (byteOf n.toNat 7) _ g0 g1 g2 ?_ f0 f1 f2
  rw [BitVec.toNat_sub]
  simp only [byteOf, BitVec.toNat_ofNat, Nat.reduceMul, Nat.reducePow, Nat.reduceMod, Nat.pow_zero, Nat.div_one]
  omega

theorem termx_2 (n C : BitVec 64) (c : Nat) (hc : c < 128) (hC : ∀ j, j ≤ 7 → byteOf C.toNat j = c)
    (h128 : ∀ j, j ≤ 2 → byteOf n.toNat j < 128)
    (hf : ∀ j, j ≤ 2 → flag ((n ^^^ C) - lsb) j = false) : byteOf n.toNat 2 ≠ c := by
  have hX := (n ^^^ C).isLt
  have f0 := flag_false_nat _ 0 (hf 0 (by omega))
  have f1 := flag_false_nat _ 1 (hf 1 (by omega))
  have f2 := flag_false_nat _ 2 (hf 2 (by omega))
  have x0 : byteOf (n ^^^ C).toNat 0 < 128 := by
    rw [BitVec.toNat_xor, byteOf_xor, hC 0 (by omega)]; exact xor_small _ _ (h128 0 (by omega)) hc
  have x1 : byteOf (n ^^^ C).toNat 1 < 128 := by
    rw [BitVec.toNat_xor, byteOf_xor, hC 1 (by omega)]; exact xor_small _ _ (h128 1 (by omega)) hc
  have x2 : byteOf (n ^^^ C).toNat 2 < 128 := by
    rw [BitVec.toNat_xor, byteOf_xor, hC 2 (by omega)]; exact xor_small _ _ (h128 2 (by omega)) hc
  simp only [Nat.reduceMul, Nat.reduceAdd, Nat.reducePow] at f0 f1 f2
  have key : byteOf (n ^^^ C).toNat 2 ≠ 0 := by
    refine subx_2 (byteOf (n ^^^ C).toNat 0) (byteOf (n ^^^ C).toNat 1) (byteOf (n ^^^ C).toNat 2) (byteOf (n ^^^ C).toNat 3) (byteOf (n ^^^ C).toNat 4) (byteOf (n ^^^ C).toNat 5) (byteOf (n ^^^ C).toNat 6) (byteOf (n ^^^ C).toNat 7) _ x0 x1 x2 ?_ f0 f1 f2
    rw [BitVec.toNat_sub]
    simp only [lsb, byteOf, BitVec.toNat_ofNat, Nat.reduceMul, Nat.reducePow, Nat.reduceMod, Nat.pow_zero, Nat.div_one]
    omega
  rw [BitVec.toNat_xor, byteOf_xor, hC 2 (by omega)] at key
  exact xor_ne_zero _ _ key

theorem term20_3 (n : BitVec 64) (h128 : ∀ j, j ≤ 3 → byteOf n.toNat j < 128)
    (hf : ∀ j, j ≤ 3 → flag (n - lsb * 0x20#64) j = false) : 32 ≤ byteOf n.toNat 3 := by
  rw [k20] at hf
  have hn := n.isLt
  have f0 := flag_false_nat _ 0 (hf 0 (by omega))
  have f1 := flag_false_nat _ 1 (hf 1 (by omega))
  have f2 := flag_false_nat _ 2 (hf 2 (by omega))
  have f3 := flag_false_nat _ 3 (hf 3 (by omega))
  have g0 := h128 0 (by omega)
  have g1 := h128 1 (by omega)
  have g2 := h128 2 (by omega)
  have g3 := h128 3 (by omega)
  simp only [Nat.reduceMul, Nat.reduceAdd, Nat.reducePow] at f0 f1 f2 f3
  refine sub20_3 (byteOf n.toNat 0) (byteOf n.toNat 1) (byteOf n.toNat 2) (byteOf n.toNat 3) (byteOf n.toNat 4) (byteOf n.toNat 5) (byteOf n.toNat 6) (byteOf n.toNat 7) _ g0 g1 g2 g3 ?_ f0 f1 f2 f3
  rw [BitVec.toNat_sub]
  simp only [byteOf, BitVec.toNat_ofNat, Nat.reduceMul, Nat.reducePow, Nat.reduceMod, Nat.pow_zero, Nat.div_one]
  omega

theorem termx_3 (n C : BitVec 64) (c : Nat) (hc : c < 128) (hC : ∀ j, j ≤ 7 → byteOf C.toNat j = c)
    (h128 : ∀ j, j ≤ 3 → byteOf n.toNat j < 128)
    (hf : ∀ j, j ≤ 3 → flag ((n ^^^ C) - lsb) j = false) : byteOf n.toNat 3 ≠ c := by
  have hX := (n ^^^ C).isLt
  have f0 := flag_false_nat _ 0 (hf 0 (by omega))
  have f1 := flag_false_nat _ 1 (hf 1 (by omega))
  have f2 := flag_false_nat _ 2 (hf 2 (by omega))
  have f3 := flag_false_nat _ 3 (hf 3 (by omega))
  have x0 : byteOf (n ^^^ C).toNat 0 < 128 := by
    rw [BitVec.toNat_xor, byteOf_xor, hC 0 (by omega)]; exact xor_small _ _ (h128 0 (by omega)) hc
  have x1 : byteOf (n ^^^ C).toNat 1 < 128 := by
    rw [BitVec.toNat_xor, byteOf_xor, hC 1 (by omega)]; exact xor_small _ _ (h128 1 (by omega)) hc
  have x2 : byteOf (n ^^^ C).toNat 2 < 128 := by
    rw [BitVec.toNat_xor, byteOf_xor, hC 2 (by omega)]; exact xor_small _ _ (h128 2 (by omega)) hc
  have x3 : byteOf (n ^^^ C).toNat 3 < 128 := by
    rw [BitVec.toNat_xor, byteOf_xor, hC 3 (by omega)]; exact xor_small _ _ (h128 3 (by omega)) hc
  simp only [Nat.reduceMul, Nat.reduceAdd, Nat.reducePow] at f0 f1 f2 f3
  have key : byteOf (n ^^^ C).toNat 3 ≠ 0 := by
    refine subx_3 (byteOf (n ^^^ C).toNat 0) (byteOf (n ^^^ C).toNat 1) (byteOf (n ^^^ C).toNat 2) (byteOf (n ^^^ C).toNat 3) (byteOf (n ^^^ C).toNat 4) (byteOf (n ^^^ C).toNat 5) (byteOf (n ^^^ C).toNat 6) (byteOf (n ^^^ C).toNat 7) _ x0 x1 x2 x3 ?_ f0 f1 f2 f3
    rw [BitVec.toNat_sub]
    simp only [lsb, byteOf, BitVec.toNat_ofNat, Nat.reduceMul, Nat.reducePow, Nat.reduceMod, Nat.pow_zero, Nat.div_one]
    omega
  rw [BitVec.toNat_xor, byteOf_xor, hC 3 (by omega)] at key
  exact xor_ne_zero _ _ key

theorem term20_4 (n : BitVec 64) (h128 : ∀ j, j ≤ 4 → byteOf n.toNat j < 128)
    (hf : ∀ j, j ≤ 4 → flag (n - lsb * 0x20#64) j = false) : 32 ≤ byteOf n.toNat 4 := by
  rw [k20] at hf
  have hn := n.isLt
  have f0 := flag_false_nat _ 0 (hf 0 (by omega))
  have f1 := flag_false_nat _ 1 (hf 1 (by omega))
  have f2 := flag_false_nat _ 2 (hf 2 (by omega))
  have f3 := flag_false_nat _ 3 (hf 3 (by omega))
  have f4 := flag_false_nat _ 4 (hf 4 (by omega))
  have g0 := h128 0 (by omega)
  have g1 := h128 1 (by omega)
  have g2 := h128 2 (by omega)
  have g3 := h128 3 (by omega)
  have g4 := h128 4 (by omega)
  simp only [Nat.reduceMul, Nat.reduceAdd, Nat.reducePow] at f0 f1 f2 f3 f4
  refine sub20_4 (byteOf n.toNat 0) (byteOf n.toNat 1) (byteOf n.toNat 2) (byteOf n.toNat 3) (byteOf n.toNat 4) (byteOf n.toNat 5) (byteOf n.toNat 6) (byteOf n.toNat 7) _ g0 g1 g2 g3 g4 ?_ f0 f1 f2 f3 f4
  rw [BitVec.toNat_sub]
  simp only [byteOf, BitVec.toNat_ofNat, Nat.reduceMul, Nat.reducePow, Nat.reduceMod, Nat.pow_zero, Nat.div_one]
  omega

theorem termx_4 (n C : BitVec 64) (c : Nat) (hc : c < 128) (hC : ∀ j, j ≤ 7 → byteOf C.toNat j = c)
    (h128 : ∀ j, j ≤ 4 → byteOf n.toNat j < 128)
    (hf : ∀ j, j ≤ 4 → flag ((n ^^^ C) - lsb) j = false) : byteOf n.toNat 4 ≠ c := by
  have hX := (n ^^^ C).isLt
  have f0 := flag_false_nat _ 0 (hf 0 (by omega))
  have f1 := flag_false_nat _ 1 (hf 1 (by omega))
  have f2 := flag_false_nat _ 2 (hf 2 (by omega))
  have f3 := flag_false_nat _ 3 (hf 3 (by omega))
  have f4 := flag_false_nat _ 4 (hf 4 (by omega))
  have x0 : byteOf (n ^^^ C).toNat 0 < 128 := by
    rw [BitVec.toNat_xor, byteOf_xor, hC 0 (by omega)]; exact xor_small _ _ (h128 0 (by omega)) hc
  have x1 : byteOf (n ^^^ C).toNat 1 < 128 := by
    rw [BitVec.toNat_xor, byteOf_xor, hC 1 (by omega)]; exact xor_small _ _ (h128 1 (by omega)) hc
  have x2 : byteOf (n ^^^ C).toNat 2 < 128 := by
    rw [BitVec.toNat_xor, byteOf_xor, hC 2 (by omega)]; exact xor_small _ _ (h128 2 (by omega)) hc
  have x3 : byteOf (n ^^^ C).toNat 3 < 128 := by
    rw [BitVec.toNat_xor, byteOf_xor, hC 3 (by omega)]; exact xor_small _ _ (h128 3 (by omega)) hc
  have x4 : byteOf (n ^^^ C).toNat 4 < 128 := by
    rw [BitVec.toNat_xor, byteOf_xor, hC 4 (by omega)]; exact xor_small _ _ (h128 4 (by omega)) hc
  simp only [Nat.reduceMul, Nat.reduceAdd, Nat.reducePow] at f0 f1 f2 f3 f4
  have key : byteOf (n ^^^ C).toNat 4 ≠ 0 := by
    refine subx_4 (byteOf (n ^^^ C).toNat 0) (byteOf (n ^^^ C).toNat 1) (byteOf (n ^^^ C).toNat 2) (byteOf (n ^^^ C).toNat 3) (byteOf (n ^^^ C).toNat 4) (byteOf (n ^^^ C).toNat 5) (byteOf (n ^^^ C).toNat 6) (byteOf (n ^^^ C).toNat 7) _ x0 x1 x2 x3 x4 ?_ f0 f1 f2 f3 f4
    rw [BitVec.toNat_sub]
    simp only [lsb, byteOf, BitVec.toNat_ofNat, Nat.reduceMul, Nat.reducePow, Nat.reduceMod, Nat.pow_zero, Nat.div_one]
    omega
  rw [BitVec.toNat_xor, byteOf_xor, hC 4 (by omega)] at key
  exact xor_ne_zero _ _ key

theorem term20_5 (n : BitVec 64) (h128 : ∀ j, j ≤ 5 → byteOf n.toNat j < 128)
    (hf : ∀ j, j ≤ 5 → flag (n - lsb * 0x20#64) j = false) : 32 ≤ byteOf n.toNat 5 := by
  rw [k20] at hf
  have hn := n.isLt
  have f0 := flag_false_nat _ 0 (hf 0 (by omega))
  have f1 := flag_false_nat _ 1 (hf 1 (by omega))
  have f2 := flag_false_nat _ 2 (hf 2 (by omega))
  have f3 := flag_false_nat _ 3 (hf 3 (by omega))
  have f4 := flag_false_nat _ 4 (hf 4 (by omega))
  have f5 := flag_false_nat _ 5 (hf 5 (by omega))
  have g0 := h128 0 (by omega)
  have g1 := h128 1 (by omega)
  have g2 := h128 2 (by omega)
  have g3 := h128 3 (by omega)
  have g4 := h128 4 (by omega)
  have g5 := h128 5 (by omega)
  simp only [Nat.reduceMul, Nat.reduceAdd, Nat.reducePow] at f0 f1 f2 f3 f4 f5
  refine sub20_5 (byteOf n.toNat 0) (byteOf n.toNat 1) (byteOf n.toNat 2) (byteOf n.toNat 3) (byteOf n.toNat 4) (byteOf n.toNat 5) (byteOf n.toNat 6) (byteOf n.toNat 7) _ g0 g1 g2 g3 g4 g5 ?_ f0 f1 f2 f3 f4 f5
  rw [BitVec.toNat_sub]
  simp only [byteOf, BitVec.toNat_ofNat, Nat.reduceMul, Nat.reducePow, Nat.reduceMod, Nat.pow_zero, Nat.div_one]
  omega

theorem termx_5 (n C : BitVec 64) (c : Nat) (hc : c < 128) (hC : ∀ j, j ≤ 7 → byteOf C.toNat j = c)
    (h128 : ∀ j, j ≤ 5 → byteOf n.toNat j < 128)
    (hf : ∀ j, j ≤ 5 → flag ((n ^^^ C) - lsb) j = false) : byteOf n.toNat 5 ≠ c := by
  have hX := (n ^^^ C).isLt
  have f0 := flag_false_nat _ 0 (hf 0 (by omega))
  have f1 := flag_false_nat _ 1 (hf 1 (by omega))
  have f2 := flag_false_nat _ 2 (hf 2 (by omega))
  have f3 := flag_false_nat _ 3 (hf 3 (by omega))
  have f4 := flag_false_nat _ 4 (hf 4 (by omega))
  have f5 := flag_false_nat _ 5 (hf 5 (by omega))
  have x0 : byteOf (n ^^^ C).toNat 0 < 128 := by
    rw [BitVec.toNat_xor, byteOf_xor, hC 0 (by omega)]; exact xor_small _ _ (h128 0 (by omega)) hc
  have x1 : byteOf (n ^^^ C).toNat 1 < 128 := by
    rw [BitVec.toNat_xor, byteOf_xor, hC 1 (by omega)]; exact xor_small _ _ (h128 1 (by omega)) hc
  have x2 : byteOf (n ^^^ C).toNat 2 < 128 := by
    rw [BitVec.toNat_xor, byteOf_xor, hC 2 (by omega)]; exact xor_small _ _ (h128 2 (by omega)) hc
  have x3 : byteOf (n ^^^ C).toNat 3 < 128 := by
    rw [BitVec.toNat_xor, byteOf_xor, hC 3 (by omega)]; exact xor_small _ _ (h128 3 (by omega)) hc
  have x4 : byteOf (n ^^^ C).toNat 4 < 128 := by
    rw [BitVec.toNat_xor, byteOf_xor, hC 4 (by omega)]; exact xor_small _ _ (h128 4 (by omega)) hc
  have x5 : byteOf (n ^^^ C).toNat 5 < 128 := by
    rw [BitVec.toNat_xor, byteOf_xor, hC 5 (by omega)]; exact xor_small _ _ (h128 5 (by omega)) hc
  simp only [Nat.reduceMul, Nat.reduceAdd, Nat.reducePow] at f0 f1 f2 f3 f4 f5
  have key : byteOf (n ^^^ C).toNat 5 ≠ 0 := by
    refine subx_5 (byteOf (n ^^^ C).toNat 0) (byteOf (n ^^^ C).toNat 1) (byteOf (n ^^^ C).toNat 2) (byteOf (n ^^^ C).toNat 3) (byteOf (n ^^^ C).toNat 4) (byteOf (n ^^^ C).toNat 5) (byteOf (n ^^^ C).toNat 6) (byteOf (n ^^^ C).toNat 7) _ x0 x1 x2 x3 x4 x5 ?_ f0 f1 f2 f3 f4 f5
    rw [BitVec.toNat_sub]
    simp only [lsb, byteOf, BitVec.toNat_ofNat, Nat.reduceMul, Nat.reducePow, Nat.reduceMod, Nat.pow_zero, Nat.div_one]
    omega
  rw [BitVec.toNat_xor, byteOf_xor, hC 5 (by omega)] at key
  exact xor_ne_zero _ _ key

theorem term20_6 (n : BitVec 64) (h128 : ∀ j, j ≤ 6 → byteOf n.toNat j < 128)
    (hf : ∀ j, j ≤ 6 → flag (n - lsb * 0x20#64) j = false) : 32 ≤ byteOf n.toNat 6 := by
  rw [k20] at hf
  have hn := n.isLt
  have f0 := flag_false_nat _ 0 (hf 0 (by omega))
  have f1 := flag_false_nat _ 1 (hf 1 (by omega))
  have f2 := flag_false_nat _ 2 (hf 2 (by omega))
  have f3 := flag_false_nat _ 3 (hf 3 (by omega))
  have f4 := flag_false_nat _ 4 (hf 4 (by omega))
  have f5 := flag_false_nat _ 5 (hf 5 (by omega))
  have f6 := flag_false_nat _ 6 (hf 6 (by omega))
  have g0 := h128 0 (by omega)
  have g1 := h128 1 (by omega)
  have g2 := h128 2 (by omega)
  have g3 := h128 3 (by omega)
  have g4 := h128 4 (by omega)
  have g5 := h128 5 (by omega)
  have g6 := h128 6 (by omega)
  simp only [Nat.reduceMul, Nat.reduceAdd, Nat.reducePow] at f0 f1 f2 f3 f4 f5 f6
  refine sub20_6 (byteOf n.toNat 0) (byteOf n.toNat 1) (byteOf n.toNat 2) (byteOf n.toNat 3) (byteOf n.toNat 4) (byteOf n.toNat 5) (byteOf n.toNat 6) (byteOf n.toNat 7) _ g0 g1 g2 g3 g4 g5 g6 ?_ f0 f1 f2 f3 f4 f5 f6
  rw [BitVec.toNat_sub]
  simp only [byteOf, BitVec.toNat_ofNat, Nat.reduceMul, Nat.reducePow, Nat.reduceMod, Nat.pow_zero, Nat.div_one]
  omega

theorem termx_6 (n C : BitVec 64) (c : Nat) (hc : c < 128) (hC : ∀ j, j ≤ 7 → byteOf C.toNat j = c)
    (h128 : ∀ j, j ≤ 6 → byteOf n.toNat j < 128)
    (hf : ∀ j, j ≤ 6 → flag ((n ^^^ C) - lsb) j = false) : byteOf n.toNat 6 ≠ c := by
  have hX := (n ^^^ C).isLt
  have f0 := flag_false_nat _ 0 (hf 0 (by omega))
  have f1 := flag_false_nat _ 1 (hf 1 (by omega))
  have f2 := flag_false_nat _ 2 (hf 2 (by omega))
  have f3 := flag_false_nat _ 3 (hf 3 (by omega))
  have f4 := flag_false_nat _ 4 (hf 4 (by omega))
  have f5 := flag_false_nat _ 5 (hf 5 (by omega))
  have f6 := flag_false_nat _ 6 (hf 6 (by omega))
  have x0 : byteOf (n ^^^ C).toNat 0 < 128 := by
    rw [BitVec.toNat_xor, byteOf_xor, hC 0 (by omega)]; exact xor_small _ _ (h128 0 (by omega)) hc
  have x1 : byteOf (n ^^^ C).toNat 1 < 128 := by
    rw [BitVec.toNat_xor, byteOf_xor, hC 1 (by omega)]; exact xor_small _ _ (h128 1 (by omega)) hc
  have x2 : byteOf (n ^^^ C).toNat 2 < 128 := by
    rw [BitVec.toNat_xor, byteOf_xor, hC 2 (by omega)]; exact xor_small _ _ (h128 2 (by omega)) hc
  have x3 : byteOf (n ^^^ C).toNat 3 < 128 := by
    rw [BitVec.toNat_xor, byteOf_xor, hC 3 (by omega)]; exact xor_small _ _ (h128 3 (by omega)) hc
  have x4 : byteOf (n ^^^ C).toNat 4 < 128 := by
    rw [BitVec.toNat_xor, byteOf_xor, hC 4 (by omega)]; exact xor_small _ _ (h128 4 (by omega)) hc
  have x5 : byteOf (n ^^^ C).toNat 5 < 128 := by
    rw [BitVec.toNat_xor, byteOf_xor, hC 5 (by omega)]; exact xor_small _ _ (h128 5 (by omega)) hc
  have x6 : byteOf (n ^^^ C).toNat 6 < 128 := by
    rw [BitVec.toNat_xor, byteOf_xor, hC 6 (by omega)]; exact xor_small _ _ (h128 6 (by omega)) hc
  simp only [Nat.reduceMul, Nat.reduceAdd, Nat.reducePow] at f0 f1 f2 f3 f4 f5 f6
  have key : byteOf (n ^^^ C).toNat 6 ≠ 0 := by
    refine subx_6 (byteOf (n ^^^ C).toNat 0) (byteOf (n ^^^ C).toNat 1) (byteOf (n ^^^ C).toNat 2) (byteOf (n ^^^ C).toNat 3) (byteOf (n ^^^ C).toNat 4) (byteOf (n ^^^ C).toNat 5) (byteOf (n ^^^ C).toNat 6) (byteOf (n ^^^ C).toNat 7) _ x0 x1 x2 x3 x4 x5 x6 ?_ f0 f1 f2 f3 f4 f5 f6
    rw [BitVec.toNat_sub]
    simp only [lsb, byteOf, BitVec.toNat_ofNat, Nat.reduceMul, Nat.reducePow, Nat.reduceMod, Nat.pow_zero, Nat.div_one]
    omega
  rw [BitVec.toNat_xor, byteOf_xor, hC 6 (by omega)] at key
  exact xor_ne_zero _ _ key

theorem term20_7 (n : BitVec 64) (h128 : ∀ j, j ≤ 7 → byteOf n.toNat j < 128)
    (hf : ∀ j, j ≤ 7 → flag (n - lsb * 0x20#64) j = false) : 32 ≤ byteOf n.toNat 7 := by
  rw [k20] at hf
  have hn := n.isLt
  have f0 := flag_false_nat _ 0 (hf 0 (by omega))
  have f1 := flag_false_nat _ 1 (hf 1 (by omega))
  have f2 := flag_false_nat _ 2 (hf 2 (by omega))
  have f3 := flag_false_nat _ 3 (hf 3 (by omega))
  have f4 := flag_false_nat _ 4 (hf 4 (by omega))
  have f5 := flag_false_nat _ 5 (hf 5 (by omega))
  have f6 := flag_false_nat _ 6 (hf 6 (by omega))
  have f7 := flag_false_nat _ 7 (hf 7 (by omega))
  have g0 := h128 0 (by omega)
  have g1 := h128 1 (by omega)
  have g2 := h128 2 (by omega)
  have g3 := h128 3 (by omega)
  have g4 := h128 4 (by omega)
  have g5 := h128 5 (by omega)
  have g6 := h128 6 (by omega)
  have g7 := h128 7 (by omega)
  simp only [Nat.reduceMul, Nat.reduceAdd, Nat.reducePow] at f0 f1 f2 f3 f4 f5 f6 f7
  refine sub20_7 (byteOf n.toNat 0) (byteOf n.toNat 1) (byteOf n.toNat 2) (byteOf n.toNat 3) (byteOf n.toNat 4) (byteOf n.toNat 5) (byteOf n.toNat 6) (byteOf n.toNat 7) _ g0 g1 g2 g3 g4 g5 g6 g7 ?_ f0 f1 f2 f3 f4 f5 f6 f7
  rw [BitVec.toNat_sub]
  simp only [byteOf, BitVec.toNat_ofNat, Nat.reduceMul, Nat.reducePow, Nat.reduceMod, Nat.pow_zero, Nat.div_one]
  omega

theorem termx_7 (n C : BitVec 64) (c : Nat) (hc : c < 128) (hC : ∀ j, j ≤ 7 → byteOf C.toNat j = c)
    (h128 : ∀ j, j ≤ 7 → byteOf n.toNat j < 128)
    (hf : ∀ j, j ≤ 7 → flag ((n ^^^ C) - lsb) j = false) : byteOf n.toNat 7 ≠ c := by
  have hX := (n ^^^ C).isLt
  have f0 := flag_false_nat _ 0 (hf 0 (by omega))
  have f1 := flag_false_nat _ 1 (hf 1 (by omega))
  have f2 := flag_false_nat _ 2 (hf 2 (by omega))
  have f3 := flag_false_nat _ 3 (hf 3 (by omega))
  have f4 := flag_false_nat _ 4 (hf 4 (by omega))
  have f5 := flag_false_nat _ 5 (hf 5 (by omega))
  have f6 := flag_false_nat _ 6 (hf 6 (by omega))
  have f7 := flag_false_nat _ 7 (hf 7 (by omega))
  have x0 : byteOf (n ^^^ C).toNat 0 < 128 := by
    rw [BitVec.toNat_xor, byteOf_xor, hC 0 (by omega)]; exact xor_small _ _ (h128 0 (by omega)) hc
  have x1 : byteOf (n ^^^ C).toNat 1 < 128 := by
    rw [BitVec.toNat_xor, byteOf_xor, hC 1 (by omega)]; exact xor_small _ _ (h128 1 (by omega)) hc
  have x2 : byteOf (n ^^^ C).toNat 2 < 128 := by
    rw [BitVec.toNat_xor, byteOf_xor, hC 2 (by omega)]; exact xor_small _ _ (h128 2 (by omega)) hc
  have x3 : byteOf (n ^^^ C).toNat 3 < 128 := by
    rw [BitVec.toNat_xor, byteOf_xor, hC 3 (by omega)]; exact xor_small _ _ (h128 3 (by omega)) hc
  have x4 : byteOf (n ^^^ C).toNat 4 < 128 := by
    rw [BitVec.toNat_xor, byteOf_xor, hC 4 (by omega)]; exact xor_small _ _ (h128 4 (by omega)) hc
  have x5 : byteOf (n ^^^ C).toNat 5 < 128 := by
    rw [BitVec.toNat_xor, byteOf_xor, hC 5 (by omega)]; exact xor_small _ _ (h128 5 (by omega)) hc
  have x6 : byteOf (n ^^^ C).toNat 6 < 128 := by
    rw [BitVec.toNat_xor, byteOf_xor, hC 6 (by omega)]; exact xor_small _ _ (h128 6 (by omega)) hc
  have x7 : byteOf (n ^^^ C).toNat 7 < 128 := by
    rw [BitVec.toNat_xor, byteOf_xor, hC 7 (by omega)]; exact xor_small _ _ (h128 7 (by omega)) hc
  simp only [Nat.reduceMul, Nat.reduceAdd, Nat.reducePow] at f0 f1 f2 f3 f4 f5 f6 f7
  have key : byteOf (n ^^^ C).toNat 7 ≠ 0 := by
    refine subx_7 (byteOf (n ^^^ C).toNat 0) (byteOf (n ^^^ C).toNat 1) (byteOf (n ^^^ C).toNat 2) (byteOf (n ^^^ C).toNat 3) (byteOf (n ^^^ C).toNat 4) (byteOf (n ^^^ C).toNat 5) (byteOf (n ^^^ C).toNat 6) (byteOf (n ^^^ C).toNat 7) _ x0 x1 x2 x3 x4 x5 x6 x7 ?_ f0 f1 f2 f3 f4 f5 f6 f7
    rw [BitVec.toNat_sub]
    simp only [lsb, byteOf, BitVec.toNat_ofNat, Nat.reduceMul, Nat.reducePow, Nat.reduceMod, Nat.pow_zero, Nat.div_one]
    omega
  rw [BitVec.toNat_xor, byteOf_xor, hC 7 (by omega)] at key
  exact xor_ne_zero _ _ key

end GoJson.Model.Str
