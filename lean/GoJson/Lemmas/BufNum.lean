import GoJson.Lemmas.BufSound1
namespace GoJson.Model.BufDec
open GoJson GoJson.Spec GoJson.Model.StrDec

/-- bytes of the number alphabet -/
def numAlpha (b : UInt8) : Bool := floatTbl b

theorem floatTbl_dig (b : UInt8) (h : isDig b = true) : floatTbl b = true := by
  have h2 := floatTbl_fin ⟨b.toNat, b.toNat_lt⟩
  simp only [floatTbl, isDig, Bool.and_eq_true, decide_eq_true_eq] at *
  rw [h2]; simp [h.1, h.2]

theorem floatTbl_lit (b : UInt8) (h : b = 46 ∨ b = 101 ∨ b = 69 ∨ b = 43 ∨ b = 45) : floatTbl b = true := by
  rcases h with rfl | rfl | rfl | rfl | rfl <;> decide +kernel

theorem dropDigits_split (s : List UInt8) :
    ∃ p, s = p ++ (dropDigits s).2 ∧ (∀ x ∈ p, floatTbl x = true) := by
  induction s with
  | nil => exact ⟨[], by simp [dropDigits], by simp⟩
  | cons b s ih =>
    obtain ⟨p, hp, ha⟩ := ih
    by_cases hb : isDig b = true
    · refine ⟨b :: p, by simp [dropDigits, hb]; exact hp, ?_⟩
      intro x hx; simp at hx
      rcases hx with rfl | hx
      · exact floatTbl_dig _ hb
      · exact ha x hx
    · exact ⟨[], by simp [dropDigits, hb], by simp⟩

theorem numInt_split (s r : List UInt8) (h : numInt s = some r) :
    ∃ b p, s = b :: p ++ r ∧ isDig b = true ∧ (∀ x ∈ p, floatTbl x = true) := by
  unfold numInt at h
  split at h
  · rename_i r'
    simp at h; subst h
    exact ⟨48, [], rfl, by decide, by simp⟩
  · rename_i b r' hne
    split at h
    · rename_i hd
      simp at h
      obtain ⟨p, hp, ha⟩ := dropDigits_split r'
      rw [h] at hp
      exact ⟨b, p, by rw [hp]; rfl, hd, ha⟩
    · simp at h
  · simp at h

theorem numFrac_split (s r : List UInt8) (h : numFrac s = some r) :
    ∃ p, s = p ++ r ∧ (∀ x ∈ p, floatTbl x = true) := by
  unfold numFrac at h
  split at h
  · rename_i r'
    split at h
    · simp at h
      obtain ⟨p, hp, ha⟩ := dropDigits_split r'
      rw [h] at hp
      refine ⟨46 :: p, by rw [hp]; rfl, ?_⟩
      intro x hx; simp at hx
      rcases hx with rfl | hx
      · decide +kernel
      · exact ha x hx
    · simp at h
  · simp at h; subst h; exact ⟨[], by simp, by simp⟩

theorem expDigits_split (s r : List UInt8) (h : expDigits s = some r) :
    ∃ p, s = p ++ r ∧ (∀ x ∈ p, floatTbl x = true) := by
  unfold expDigits at h
  split at h
  · simp at h
    obtain ⟨p, hp, ha⟩ := dropDigits_split s
    rw [h] at hp
    exact ⟨p, hp, ha⟩
  · simp at h

theorem numExp_split (s r : List UInt8) (h : numExp s = some r) :
    ∃ p, s = p ++ r ∧ (∀ x ∈ p, floatTbl x = true) := by
  unfold numExp at h
  split at h
  · rename_i b r'
    split at h
    · rename_i hb
      have hbf : floatTbl b = true := by
        simp at hb; rcases hb with rfl | rfl <;> decide +kernel
      split at h
      · rename_i t
        obtain ⟨p, hp, ha⟩ := expDigits_split t r h
        refine ⟨b :: 43 :: p, by rw [hp]; rfl, ?_⟩
        intro x hx; simp at hx
        rcases hx with rfl | rfl | hx
        · exact hbf
        · decide +kernel
        · exact ha x hx
      · rename_i t
        obtain ⟨p, hp, ha⟩ := expDigits_split t r h
        refine ⟨b :: 45 :: p, by rw [hp]; rfl, ?_⟩
        intro x hx; simp at hx
        rcases hx with rfl | rfl | hx
        · exact hbf
        · decide +kernel
        · exact ha x hx
      · obtain ⟨p, hp, ha⟩ := expDigits_split r' r h
        refine ⟨b :: p, by rw [hp]; rfl, ?_⟩
        intro x hx; simp at hx
        rcases hx with rfl | hx
        · exact hbf
        · exact ha x hx
    · simp at h; subst h; exact ⟨[], by simp, by simp⟩
  · simp at h; subst h; exact ⟨[], by simp, by simp⟩

theorem numBody_alpha (t1 : List UInt8) (h : numBody t1 = true) :
    ∃ b r, t1 = b :: r ∧ isDig b = true ∧ (∀ x ∈ r, floatTbl x = true) := by
  unfold numBody at h
  cases hi : numInt t1 with
  | none => simp [hi] at h
  | some r1 =>
    simp only [hi] at h
    cases hf : numFrac r1 with
    | none => simp [hf] at h
    | some r2 =>
      simp only [hf] at h
      cases he : numExp r2 with
      | none => simp [he] at h
      | some r3 =>
        simp only [he] at h
        have hr3 : r3 = [] := by
          cases r3 with
          | nil => rfl
          | cons _ _ => simp at h
        subst hr3
        obtain ⟨b0, p1, h1, hd0, ha1⟩ := numInt_split _ _ hi
        obtain ⟨p2, h2, ha2⟩ := numFrac_split _ _ hf
        obtain ⟨p3, h3, ha3⟩ := numExp_split _ _ he
        refine ⟨b0, p1 ++ p2 ++ p3, by rw [h1, h2, h3]; simp, hd0, ?_⟩
        intro x hx
        simp only [List.mem_append] at hx
        rcases hx with (hx | hx) | hx
        · exact ha1 x hx
        · exact ha2 x hx
        · exact ha3 x hx

/-- a number literal is a '-' or digit followed by bytes of the float alphabet only -/
theorem isNumber_alpha (t : List UInt8) (h : isNumber t = true) :
    ∃ b r, t = b :: r ∧ (b = 45 ∨ isDig b = true) ∧ (∀ x ∈ r, floatTbl x = true) := by
  unfold isNumber at h
  split at h
  · rename_i r
    obtain ⟨b, p, hp, hd, ha⟩ := numBody_alpha r h
    refine ⟨45, b :: p, by rw [hp], Or.inl rfl, ?_⟩
    intro x hx; simp only [List.mem_cons] at hx
    rcases hx with rfl | hx
    · exact floatTbl_dig _ hd
    · exact ha x hx
  · obtain ⟨b, p, hp, hd, ha⟩ := numBody_alpha t h
    exact ⟨b, p, hp, Or.inr hd, ha⟩

theorem munch_all (t : List UInt8) (c : UInt8) (rest : List UInt8) (ht : ∀ x ∈ t, floatTbl x = true)
    (hc : floatTbl c = false) : munch (t ++ c :: rest) = (t, c :: rest) := by
  induction t with
  | nil => simp [munch, hc]
  | cons b t ih =>
    have hb := ht b (by simp)
    have := ih (fun x hx => ht x (by simp [hx]))
    simp [munch, hb, this]

end GoJson.Model.BufDec
