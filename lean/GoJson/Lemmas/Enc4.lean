import GoJson.Lemmas.Enc3
import GoJson.Lemmas.Compact5
namespace GoJson.Model.Enc
open GoJson GoJson.Spec GoJson.Model.Compact

theorem wsTbl_iff (c : UInt8) : Compact.wsTbl c = (c.toNat == 32 || c.toNat == 9 || c.toNat == 10 || c.toNat == 13) := by
  have := Compact.wsTbl_fin ⟨c.toNat, c.toNat_lt⟩
  simpa [Compact.wsTbl] using this

theorem plain_not_ws_of_ne_space (c : UInt8) (h : plainByte c = true) (hs : c ≠ 32) : Compact.wsTbl c = false := by
  rw [wsTbl_iff]
  simp only [plainByte, Bool.and_eq_true, decide_eq_true_eq] at h
  have h32 : c.toNat ≠ 32 := fun e => hs (UInt8.toNat_inj.mp (by simpa using e))
  have : 0x20 ≤ c.toNat := h.1.1
  simp
  omega

theorem trailingWs_snoc (p : List UInt8) (c : UInt8) (h : Compact.wsTbl c = false) : trailingWs (p ++ [c]) = [] := by
  simp [trailingWs, List.takeWhile, h]

/-- the text of a value never ends in white space -/
theorem number_no_trailing_ws (t : List UInt8) (hn : isNumber t = true) : trailingWs t = [] := by
  obtain ⟨b0, r, heq, hb0, hr⟩ := BufDec.isNumber_alpha t hn
  have hne : t ≠ [] := by rw [heq]; simp
  obtain ⟨p, c, hpc⟩ := List.eq_nil_or_concat t |>.resolve_left hne
  rw [List.concat_eq_append] at hpc
  have hc : c ∈ t := by rw [hpc]; simp
  have hpl := number_plain t hn c hc
  have hns : c ≠ 32 := by
    intro hc32
    subst hc32
    rw [heq] at hc
    simp only [List.mem_cons] at hc
    rcases hc with h1 | h1
    · subst h1
      rcases hb0 with h2 | h2
      · cases h2
      · simp [isDig] at h2
    · have := hr _ h1
      have h2 := BufDec.floatTbl_fin ⟨32, by decide⟩
      simp only [BufDec.floatTbl] at this
      rw [show (32 : UInt8).toNat = 32 from rfl, h2] at this
      simp at this
  rw [hpc]
  exact trailingWs_snoc p c (plain_not_ws_of_ne_space c hpl hns)

/-- the text of a value never ends in white space -/
theorem cval_no_trailing_ws (lay : Layout) (n : Nat) (v o : List UInt8) (h : CVal lay n v o) : trailingWs v = [] := by
  match h with
  | .null _ => exact trailingWs_snoc [110, 117, 108] 108 (by rw [wsTbl_iff]; decide)
  | .true_ _ => exact trailingWs_snoc [116, 114, 117] 101 (by rw [wsTbl_iff]; decide)
  | .false_ _ => exact trailingWs_snoc [102, 97, 108, 115] 101 (by rw [wsTbl_iff]; decide)
  | .num _ t hn => exact number_no_trailing_ws t hn
  | .str _ items hwf =>
    have : (34 :: renderAll items ++ [34]) = (34 :: renderAll items) ++ [34] := by simp
    rw [this]
    exact trailingWs_snoc _ 34 (by rw [wsTbl_iff]; decide)
  | .arrEmpty _ w hd hw =>
    have : (91 :: w ++ [93]) = (91 :: w) ++ [93] := by simp
    rw [this]; exact trailingWs_snoc _ 93 (by rw [wsTbl_iff]; decide)
  | .arr _ body o' hd he =>
    have : (91 :: body ++ [93]) = (91 :: body) ++ [93] := by simp
    rw [this]; exact trailingWs_snoc _ 93 (by rw [wsTbl_iff]; decide)
  | .objEmpty _ w hd hw =>
    have : (123 :: w ++ [125]) = (123 :: w) ++ [125] := by simp
    rw [this]; exact trailingWs_snoc _ 125 (by rw [wsTbl_iff]; decide)
  | .obj _ body o' hd he =>
    have : (123 :: body ++ [125]) = (123 :: body) ++ [125] := by simp
    rw [this]; exact trailingWs_snoc _ 125 (by rw [wsTbl_iff]; decide)

end GoJson.Model.Enc
