import GoJson.Lemmas.BufTables
import GoJson.Lemmas.StrDec2
namespace GoJson.Model.BufDec
open GoJson GoJson.Spec GoJson.Model.StrDec

/-- the relaxations the unchanged tree needs: none since D02 (raw control bytes inside strings) was
repaired; the grammar is RFC 8259 -/
def rxCurrent : Relax := { ctlInString := false }

theorem skipWs_split (s : List UInt8) :
    ∃ w, s = w ++ skipWs s ∧ AllWs w ∧ (∀ b r, skipWs s = b :: r → isWsByte b = false) := by
  induction s with
  | nil => exact ⟨[], by simp [skipWs], by simp [AllWs], by simp [skipWs]⟩
  | cons b s ih =>
    obtain ⟨w, hs, hw, hh⟩ := ih
    by_cases hb : wsTbl b = true
    · refine ⟨b :: w, by simp [skipWs, hb]; exact hs, ?_, ?_⟩
      · intro x hx
        simp at hx
        rcases hx with rfl | hx
        · rw [← wsTbl_spec]; exact hb
        · exact hw x hx
      · simp only [skipWs, hb, ↓reduceIte]; exact hh
    · refine ⟨[], by simp [skipWs, hb], by simp [AllWs], ?_⟩
      intro c r hc
      simp only [skipWs, hb, Bool.false_eq_true, ↓reduceIte, List.cons.injEq] at hc
      rw [← hc.1, ← wsTbl_spec]; simpa using hb

theorem munch_split (r : List UInt8) : r = (munch r).1 ++ (munch r).2 := by
  induction r with
  | nil => simp [munch]
  | cons b r ih =>
    by_cases hb : floatTbl b = true
    · simp only [munch, hb, ↓reduceIte, List.cons_append]; rw [← ih]
    · simp [munch, hb]

theorem lit_sound (e s rest : List UInt8) (h : lit e s = .ok rest) : s = e ++ rest := by
  unfold lit at h
  split at h
  · simp at h
  · split at h
    · rename_i h1 h2
      simp only [R.ok.injEq] at h
      subst h
      have : List.take e.length s = e := by simpa using h2
      conv => lhs; rw [← List.take_append_drop e.length s]
      rw [this]
    · simp at h

end GoJson.Model.BufDec

namespace GoJson.Model.BufDec
open GoJson GoJson.Spec GoJson.Model.StrDec

/-- whatever the scan loop accepts is the rendering of well-formed items up to the closing quote -/
theorem scanBody_sound (l : List UInt8) (body : List UInt8) (n : Nat) (esc : Bool)
    (h : scanBody l = .ok (body, n, esc)) :
    ∃ items, body = renderAll items ∧ (∀ i ∈ items, WF i) ∧ l = body ++ 34 :: l.drop n ∧ n = body.length + 1 := by
  fun_induction scanBody l generalizing body n esc
  case case3 c hc e rest2 he body' n' esc' hx ih =>
    simp only [Except.ok.injEq, Prod.mk.injEq] at h
    obtain ⟨rfl, rfl, _⟩ := h
    obtain ⟨items, rfl, hw, hl, hn⟩ := ih _ _ _ hx
    have hc' : c = 92 := by simpa using hc
    subst hc'
    refine ⟨.simple e :: items, by rw [renderAll_cons]; rfl, ?_, ?_, by simp [hn]⟩
    · intro i hi
      simp at hi
      rcases hi with rfl | hi
      · simp [WF, Item.wf, ← isSimpleEsc_eq, he]
      · exact hw i hi
    · simpa using hl
  case case6 c hc e rest2 hns hu hlen hhex body' n' esc' hx ih =>
    simp only [Except.ok.injEq, Prod.mk.injEq] at h
    obtain ⟨rfl, rfl, _⟩ := h
    obtain ⟨items, rfl, hw, hl, hn⟩ := ih _ _ _ hx
    have hc' : c = 92 := by simpa using hc
    have hu' : e = 117 := by simpa using hu
    subst hc' hu'
    obtain ⟨h1, h2, h3, h4, rest3, rfl⟩ : ∃ h1 h2 h3 h4 rest3, rest2 = h1 :: h2 :: h3 :: h4 :: rest3 := by
      match rest2, hlen with
      | h1 :: h2 :: h3 :: h4 :: rest3, _ => exact ⟨_, _, _, _, _, rfl⟩
      | [], hl => simp at hl
      | [_], hl => simp at hl
      | [_, _], hl => simp at hl
      | [_, _, _], hl => simp at hl
    simp only [List.getD_cons_zero, List.getD_cons_succ, Bool.and_eq_true] at hhex
    simp only [List.drop_succ_cons, List.drop_zero] at hl hx
    refine ⟨.uni h1 h2 h3 h4 :: items, by rw [renderAll_cons]; rfl, ?_, ?_, by simp [hn]⟩
    · intro i hi
      simp at hi
      rcases hi with rfl | hi
      · simp only [WF, Item.wf, ← isHex_eq, hhex.1.1.1, hhex.1.1.2, hhex.1.2, hhex.2, Bool.and_self]
      · exact hw i hi
    · simpa using hl
  case case1 => simp at h
  case case2 => simp at h
  case case4 => simp at h
  case case5 => simp at h
  case case7 => simp at h
  case case8 => simp at h
  case case9 => simp at h
  case case10 c rest2 h1 h2 =>
    simp only [Except.ok.injEq, Prod.mk.injEq] at h
    obtain ⟨rfl, rfl, _⟩ := h
    have hc : c = 34 := by simpa using h2
    subst hc
    exact ⟨[], rfl, by simp, by simp, rfl⟩
  case case11 => simp at h
  case case12 c rest2 h1 h2 h3 body' n' esc' hx ih =>
    simp only [Except.ok.injEq, Prod.mk.injEq] at h
    obtain ⟨rfl, rfl, _⟩ := h
    obtain ⟨items, rfl, hw, hl, hn⟩ := ih _ _ _ hx
    refine ⟨.raw c :: items, by rw [renderAll_cons]; rfl, ?_, by simpa using hl, by simp [hn]⟩
    intro i hi
    simp at hi
    rcases hi with rfl | hi
    · have h3' : ¬ c.toNat < 32 := by simpa using h3
      have hc0 : c ≠ 0 := by intro hh; subst hh; simp at h3'
      have hq : c ≠ 34 := by simpa using h2
      have hb : c ≠ 92 := by simpa using h1
      simp only [WF, Item.wf, Bool.not_true, Bool.false_or, Bool.and_eq_true, bne_iff_ne, ne_eq, decide_eq_true_eq]
      exact ⟨⟨⟨hq, hb⟩, hc0⟩, by omega⟩
    · exact hw i hi
  case case13 => simp at h
end GoJson.Model.BufDec

namespace GoJson.Model.BufDec
open GoJson GoJson.Spec GoJson.Model.StrDec

theorem allWs_append {a b : List UInt8} (ha : AllWs a) (hb : AllWs b) : AllWs (a ++ b) := by
  intro x hx
  rcases List.mem_append.mp hx with h | h
  · exact ha x h
  · exact hb x h

theorem allWs_nil : AllWs [] := by intro x hx; cases hx

theorem elements_prepend_ws (rx : Relax) (range : Bool) (d : Nat) (w body : List UInt8) (hw : AllWs w)
    (h : Elements rx range d body) : Elements rx range d (w ++ body) := by
  cases h with
  | one _ w1 v w2 h1 hv h2 =>
    have := Elements.one (rx := rx) (range := range) d (w ++ w1) v w2 (allWs_append hw h1) hv h2
    simpa [List.append_assoc] using this
  | more _ w1 v w2 rest h1 hv h2 hr =>
    have := Elements.more (rx := rx) (range := range) d (w ++ w1) v w2 rest (allWs_append hw h1) hv h2 hr
    simpa [List.append_assoc] using this

theorem stringTail_sound (r rest : List UInt8) (h : stringTail r = .ok rest) :
    ∃ items, (∀ i ∈ items, i.wf true = true) ∧ r = renderAll items ++ 34 :: rest := by
  unfold stringTail at h
  cases hs : scanBody r with
  | error e => rw [hs] at h; cases e <;> simp at h
  | ok p =>
    obtain ⟨body, n, esc⟩ := p
    rw [hs] at h
    simp only [R.ok.injEq] at h
    obtain ⟨items, rfl, hw, hl, _⟩ := scanBody_sound r body n esc hs
    exact ⟨items, hw, by rw [← h]; exact hl⟩

theorem number_sound (range : Bool) (b : UInt8) (r rest : List UInt8) (h : number range b r = .ok rest) :
    ∃ tok, b :: r = tok ++ rest ∧ isNumber tok = true ∧ (range = true → inF64Range tok = true) := by
  unfold number at h
  simp only at h
  split at h
  · simp at h
  · rename_i c tl hr
    by_cases h1 : validEnd c = true
    · by_cases h2 : isNumber (b :: (munch r).1) = true
      · by_cases h3 : (range && !inF64Range (b :: (munch r).1)) = true
        · simp [h1, h2, h3] at h
        · simp only [h1, h2, h3, Bool.not_true, Bool.false_eq_true, ↓reduceIte, R.ok.injEq] at h
          refine ⟨b :: (munch r).1, ?_, h2, ?_⟩
          · rw [← h]; simp only [List.cons_append]; rw [← munch_split]
          · intro hr'; subst hr'; simpa using h3
      · simp [h1, h2] at h
    · simp [h1] at h

end GoJson.Model.BufDec
