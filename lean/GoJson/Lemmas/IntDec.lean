/- Helper lemmas for the integer *decoder* model. -/
import GoJson.Model.Int
import GoJson.Lemmas.Decimal

namespace GoJson.Model.Int
open GoJson GoJson.Spec

/-! ### generated tables -/

theorem numTable_spec_fin : ∀ i : Fin 256, (Gen.dec_numTable.getD i.val 0 == 1) = (decide (48 ≤ i.val) && decide (i.val ≤ 57)) := by
  decide +kernel

theorem numTable_eq_isDigit (b : UInt8) : numTable b = isDigit b := by
  have := numTable_spec_fin ⟨b.toNat, b.toNat_lt⟩
  simpa [numTable, isDigit] using this

theorem pow10i_spec_fin : ∀ k : Fin 19, pow10i k.val = 10 ^ k.val := by decide +kernel
theorem pow10_spec_fin : ∀ k : Fin 20, pow10 k.val = 10 ^ k.val := by decide +kernel
theorem pow10i_size : Gen.dec_pow10i64.size = 19 := by decide +kernel
theorem pow10_size : Gen.dec_pow10u64.size = 20 := by decide +kernel

theorem pow10i_spec {k : Nat} (h : k < 19) : pow10i k = 10 ^ k := pow10i_spec_fin ⟨k, h⟩
theorem pow10_spec {k : Nat} (h : k < 20) : pow10 k = 10 ^ k := pow10_spec_fin ⟨k, h⟩

/-! ### digit strings -/

theorem valNat_foldl (l : List UInt8) (a : Nat) :
    l.foldl (fun a b => 10 * a + (b.toNat - 48)) a = a * 10 ^ l.length + valNat l := by
  induction l generalizing a with
  | nil => simp [valNat]
  | cons b l ih =>
    simp only [List.foldl_cons, List.length_cons, valNat]
    rw [ih, ih (10 * 0 + (b.toNat - 48))]
    simp only [Nat.mul_zero, Nat.zero_add, Nat.pow_succ]
    generalize 10 ^ l.length = p
    generalize b.toNat - 48 = d
    rw [Nat.add_mul, show 10 * a * p = a * (p * 10) by ac_rfl, Nat.add_assoc]

theorem valNat_cons (b : UInt8) (ds : List UInt8) :
    valNat (b :: ds) = (b.toNat - 48) * 10 ^ ds.length + valNat ds := by
  have := valNat_foldl ds (10 * 0 + (b.toNat - 48))
  simpa [valNat] using this

theorem valNat_lt (ds : List UInt8) (h : ∀ b ∈ ds, isDigit b = true) : valNat ds < 10 ^ ds.length := by
  induction ds with
  | nil => simp [valNat]
  | cons b ds ih =>
    rw [valNat_cons]
    have hb := h b (by simp)
    have := ih (fun x hx => h x (by simp [hx]))
    simp [isDigit] at hb
    have hb' : b.toNat - 48 ≤ 9 := by omega
    have : (b.toNat - 48) * 10 ^ ds.length ≤ 9 * 10 ^ ds.length := Nat.mul_le_mul_right _ hb'
    simp [Nat.pow_succ]; omega

theorem accumulate_toNat (pow : Nat → Nat) (K : Nat) (hp : ∀ k, k < K → pow k = 10 ^ k)
    (ds : List UInt8) (hl : ds.length ≤ K) :
    (accumulate pow ds).toNat = valNat ds % 2 ^ 64 := by
  induction ds with
  | nil => simp [accumulate, valNat]
  | cons b ds ih =>
    have hl' : ds.length < K := by simp at hl; omega
    rw [accumulate, valNat_cons, BitVec.toNat_add, BitVec.toNat_mul, ih (by omega), hp _ hl']
    simp only [BitVec.toNat_ofNat]
    simp [Nat.add_mod, Nat.mul_mod]

/-! ### scanning -/

theorem scanDigits_append (ds : List UInt8) (next : UInt8) (rest : List UInt8)
    (hd : ∀ b ∈ ds, isDigit b = true) (hn : isDigit next = false) :
    scanDigits (ds ++ next :: rest) = some (ds, next :: rest) := by
  induction ds with
  | nil => simp [scanDigits, numTable_eq_isDigit, hn]
  | cons b ds ih =>
    have hb := hd b (by simp)
    simp [scanDigits, numTable_eq_isDigit, hb, ih (fun x hx => hd x (by simp [hx]))]

theorem scanDigits_sound (s ds r : List UInt8) (h : scanDigits s = some (ds, r)) :
    s = ds ++ r ∧ (∀ b ∈ ds, isDigit b = true) ∧ ∃ next rest, r = next :: rest ∧ isDigit next = false := by
  induction s generalizing ds r with
  | nil => simp [scanDigits] at h
  | cons b s ih =>
    simp only [scanDigits, numTable_eq_isDigit] at h
    by_cases hb : isDigit b = true
    · simp only [hb, ↓reduceIte] at h
      cases hs : scanDigits s with
      | none => simp [hs] at h
      | some p =>
        obtain ⟨ds', r'⟩ := p
        simp only [hs, Option.some.injEq, Prod.mk.injEq] at h
        obtain ⟨rfl, rfl⟩ := h
        obtain ⟨e, hd, hr⟩ := ih ds' r' hs
        refine ⟨by simp [e], ?_, hr⟩
        intro x hx
        simp at hx
        rcases hx with rfl | hx
        · exact hb
        · exact hd x hx
    · simp only [hb, Bool.false_eq_true, ↓reduceIte, Option.some.injEq, Prod.mk.injEq] at h
      obtain ⟨rfl, rfl⟩ := h
      exact ⟨by simp, by simp, b, s, rfl, by simpa using hb⟩

end GoJson.Model.Int

namespace GoJson.Model.Int
open GoJson GoJson.Spec

/-- shape of a JSON natural literal -/
theorem isJsonNat_cases (l : List UInt8) (h : isJsonNat l = true) :
    l = [48] ∨ ∃ d ds, l = d :: ds ∧ isDigit d = true ∧ d ≠ 48 ∧ ∀ b ∈ ds, isDigit b = true := by
  match l, h with
  | [b], h =>
    simp [isJsonNat] at h
    by_cases hb : b = 48
    · left; simp [hb]
    · right; exact ⟨b, [], rfl, h, hb, by simp⟩
  | b :: c :: rest, h =>
    simp [isJsonNat] at h
    right
    refine ⟨b, c :: rest, rfl, h.1.1, h.1.2, ?_⟩
    intro x hx
    simp at hx
    rcases hx with rfl | hx
    · exact h.2.1
    · exact h.2.2 x hx

theorem isDigit_ne_minus {b : UInt8} (h : isDigit b = true) : b ≠ 45 := by
  intro hc; subst hc; simp [isDigit] at h

theorem isDigit_toNat {b : UInt8} (h : isDigit b = true) : 48 ≤ b.toNat ∧ b.toNat ≤ 57 := by
  simpa [isDigit] using h

/-- a digit string with a non-zero leading digit and more than `k` digits is at least `10^k` -/
theorem valNat_ge_of_long (d : UInt8) (ds : List UInt8) (hd : isDigit d = true) (h0 : d ≠ 48) (k : Nat)
    (hl : k ≤ ds.length) : 10 ^ k ≤ valNat (d :: ds) := by
  rw [valNat_cons]
  have h1 := isDigit_toNat hd
  have : d.toNat ≠ 48 := fun hc => h0 (UInt8.toNat_inj.mp (by simpa using hc))
  have hpos : 1 ≤ d.toNat - 48 := by omega
  have hp : 10 ^ k ≤ 10 ^ ds.length := Nat.pow_le_pow_right (by omega) hl
  calc 10 ^ k ≤ 10 ^ ds.length := hp
    _ = 1 * 10 ^ ds.length := by simp
    _ ≤ (d.toNat - 48) * 10 ^ ds.length := Nat.mul_le_mul_right _ hpos
    _ ≤ _ := Nat.le_add_right _ _

/-- `parseInt` on a sign-less JSON natural: exact value or `none` beyond int64 -/
theorem parseInt_nat (l : List UInt8) (h : isJsonNat l = true) :
    parseInt l = if valNat l ≤ 2 ^ 63 - 1 then some (valNat l : Int) else none := by
  have hall : ∀ b ∈ l, isDigit b = true := by
    rcases isJsonNat_cases l h with rfl | ⟨d, ds, rfl, hd, _, hds⟩
    · simp [isDigit]
    · intro x hx; simp at hx; rcases hx with rfl | hx; exact hd; exact hds x hx
  have hp : parseInt l = parseMag false l := by
    unfold parseInt
    split
    · rename_i r
      exact absurd rfl (isDigit_ne_minus (hall 45 (by simp)))
    · rfl
  rw [hp]
  unfold parseMag
  simp only [pow10i_size]
  by_cases hlen : l.length > 19
  · simp only [hlen, ↓reduceIte]
    rcases isJsonNat_cases l h with rfl | ⟨d, ds, rfl, hd, h0, hds⟩
    · simp at hlen
    · have := valNat_ge_of_long d ds hd h0 19 (by simp at hlen; omega)
      have : ¬ valNat (d :: ds) ≤ 2 ^ 63 - 1 := by omega
      simp [this]
  · simp only [hlen, ↓reduceIte, Bool.false_eq_true]
    rw [accumulate_toNat pow10i 19 (fun k hk => pow10i_spec hk) l (by omega)]
    have hlt := valNat_lt l hall
    have : 10 ^ l.length ≤ 10 ^ 19 := Nat.pow_le_pow_right (by omega) (by omega)
    have hmod : valNat l % 2 ^ 64 = valNat l := Nat.mod_eq_of_lt (by omega)
    rw [hmod]
    by_cases hr : valNat l ≤ 2 ^ 63 - 1
    · have : ¬ valNat l > 2 ^ 63 - 1 := by omega
      simp [hr, this]
    · have : valNat l > 2 ^ 63 - 1 := by omega
      simp [hr, this]

/-- `parseInt` on '-' followed by a JSON natural -/
theorem parseInt_neg (l : List UInt8) (h : isJsonNat l = true) :
    parseInt (45 :: l) = if valNat l ≤ 2 ^ 63 then some (-(valNat l : Int)) else none := by
  have hall : ∀ b ∈ l, isDigit b = true := by
    rcases isJsonNat_cases l h with rfl | ⟨d, ds, rfl, hd, _, hds⟩
    · simp [isDigit]
    · intro x hx; simp at hx; rcases hx with rfl | hx; exact hd; exact hds x hx
  have hp : parseInt (45 :: l) = parseMag true l := by simp [parseInt]
  rw [hp]
  unfold parseMag
  simp only [pow10i_size]
  by_cases hlen : l.length > 19
  · simp only [hlen, ↓reduceIte]
    rcases isJsonNat_cases l h with rfl | ⟨d, ds, rfl, hd, h0, hds⟩
    · simp at hlen
    · have := valNat_ge_of_long d ds hd h0 19 (by simp at hlen; omega)
      have : ¬ valNat (d :: ds) ≤ 2 ^ 63 := by omega
      simp [this]
  · simp only [hlen, ↓reduceIte, Bool.false_eq_true]
    rw [accumulate_toNat pow10i 19 (fun k hk => pow10i_spec hk) l (by omega)]
    have hlt := valNat_lt l hall
    have : 10 ^ l.length ≤ 10 ^ 19 := Nat.pow_le_pow_right (by omega) (by omega)
    have hmod : valNat l % 2 ^ 64 = valNat l := Nat.mod_eq_of_lt (by omega)
    rw [hmod]
    by_cases hr : valNat l ≤ 2 ^ 63
    · have : ¬ valNat l > 2 ^ 63 := by omega
      simp [hr, this]
    · have : valNat l > 2 ^ 63 := by omega
      simp [hr, this]

end GoJson.Model.Int

namespace GoJson.Model.Int
open GoJson GoJson.Spec

theorem not_cont_not_digit {b : UInt8} (h : isNumberContinuation b = false) : isDigit b = false := by
  simp [isNumberContinuation, numTable_eq_isDigit] at h
  exact h.1.1.1

theorem not_cont_not_dotE {b : UInt8} (h : isNumberContinuation b = false) :
    (b == 46 || b == 101 || b == 69) = false := by
  simp [isNumberContinuation] at h
  simp [h.1.1.2, h.1.2, h.2]

theorem digit_not_ws {b : UInt8} (h : isDigit b = true) : isWs b = false := by
  have := isDigit_toNat h
  simp only [isWs, Bool.or_eq_false_iff, beq_eq_false_iff_ne, ne_eq]
  refine ⟨⟨⟨?_, ?_⟩, ?_⟩, ?_⟩ <;> (intro hc; subst hc; simp at this)

theorem inRangeSigned_iff (bits : Nat) (hb : bits = 8 ∨ bits = 16 ∨ bits = 32 ∨ bits = 64) (v : Int)
    (h64 : -(2 ^ 63 : Int) ≤ v ∧ v < (2 ^ 63 : Int)) :
    inRangeSigned bits v = (decide (-(2 ^ (bits - 1) : Int) ≤ v) && decide (v < (2 ^ (bits - 1) : Int))) := by
  rcases hb with rfl | rfl | rfl | rfl <;> simp [inRangeSigned]
  omega

end GoJson.Model.Int

namespace GoJson.Model.Int
open GoJson GoJson.Spec

/-- result of decoding the positive literal `d :: ds` (leading digit non-zero) -/
theorem decodeInt_pos (bits : Nat) (hb : bits = 8 ∨ bits = 16 ∨ bits = 32 ∨ bits = 64)
    (d : UInt8) (ds : List UInt8) (next : UInt8) (rest : List UInt8) (k : Nat)
    (hd : isDigit d = true) (h0 : d ≠ 48) (hds : ∀ b ∈ ds, isDigit b = true)
    (hn : isNumberContinuation next = false) :
    decodeInt bits (d :: ds ++ next :: rest) k =
      if (valNat (d :: ds) : Int) < (2 ^ (bits - 1) : Int) then .ok (valNat (d :: ds)) (k + (d :: ds).length) else .typeErr := by
  have hjn : isJsonNat (d :: ds) = true := by
    cases ds with
    | nil => simp [isJsonNat, hd]
    | cons c cs =>
      simp [isJsonNat, hd, h0]
      exact ⟨hds c (by simp), fun x hx => hds x (by simp [hx])⟩
  have hdn := isDigit_toNat hd
  have hne48 : (d == 48) = false := by simp [h0]
  have hrange : (d == 45 || (decide (49 ≤ d.toNat) && decide (d.toNat ≤ 57))) = true := by
    have : d.toNat ≠ 48 := fun hc => h0 (UInt8.toNat_inj.mp (by simpa using hc))
    have h1 : 49 ≤ d.toNat := by omega
    simp [h1, hdn.2]
  rw [List.cons_append]
  unfold decodeInt
  simp only [digit_not_ws hd, Bool.false_eq_true, ↓reduceIte, hne48, hrange]
  rw [scanDigits_append ds next rest hds (not_cont_not_digit hn)]
  simp only
  have hv : validateIntegerLiteral (d :: ds) next = none := by
    simp [validateIntegerLiteral, isDigit_ne_minus hd, not_cont_not_dotE hn]
  rw [hv, parseInt_nat _ hjn]
  simp only
  by_cases hr : valNat (d :: ds) ≤ 2 ^ 63 - 1
  · simp only [hr, ↓reduceIte]
    rw [inRangeSigned_iff bits hb _ (by omega)]
    have : (-(2 ^ (bits - 1) : Int) ≤ (valNat (d :: ds) : Int)) := by
      rcases hb with rfl | rfl | rfl | rfl <;> simp <;> omega
    simp [this]
  · simp only [hr, ↓reduceIte]
    have : ¬ ((valNat (d :: ds) : Int) < (2 ^ (bits - 1) : Int)) := by
      rcases hb with rfl | rfl | rfl | rfl <;> simp <;> omega
    simp [this]

/-- '-' followed by a JSON natural -/
theorem decodeInt_neg (bits : Nat) (hb : bits = 8 ∨ bits = 16 ∨ bits = 32 ∨ bits = 64)
    (l : List UInt8) (next : UInt8) (rest : List UInt8) (k : Nat)
    (hl : isJsonNat l = true) (hn : isNumberContinuation next = false) :
    decodeInt bits (45 :: l ++ next :: rest) k =
      if (valNat l : Int) ≤ (2 ^ (bits - 1) : Int) then .ok (-(valNat l : Int)) (k + (45 :: l).length) else .typeErr := by
  have hall : ∀ b ∈ l, isDigit b = true := by
    rcases isJsonNat_cases l hl with rfl | ⟨d, ds, rfl, hd, _, hds⟩
    · simp [isDigit]
    · intro x hx; simp at hx; rcases hx with rfl | hx; exact hd; exact hds x hx
  rw [List.cons_append]
  unfold decodeInt
  have hws : isWs 45 = false := by decide
  have h48 : ((45 : UInt8) == 48) = false := by decide
  simp only [hws, Bool.false_eq_true, ↓reduceIte, h48, beq_self_eq_true, Bool.true_or]
  rw [scanDigits_append l next rest hall (not_cont_not_digit hn)]
  simp only
  have hv : validateIntegerLiteral (45 :: l) next = none := by
    rcases isJsonNat_cases l hl with rfl | ⟨d, ds, rfl, hd, h0, hds⟩
    · simp [validateIntegerLiteral, not_cont_not_dotE hn]
    · simp [validateIntegerLiteral, not_cont_not_dotE hn, h0]
  rw [hv, parseInt_neg _ hl]
  simp only
  by_cases hr : valNat l ≤ 2 ^ 63
  · simp only [hr, ↓reduceIte]
    rw [inRangeSigned_iff bits hb _ (by omega)]
    have : (-(valNat l : Int) < (2 ^ (bits - 1) : Int)) := by
      rcases hb with rfl | rfl | rfl | rfl <;> simp <;> omega
    simp only [this, decide_true, Bool.and_true]
    by_cases hr2 : (valNat l : Int) ≤ (2 ^ (bits - 1) : Int)
    · have : -(2 ^ (bits - 1) : Int) ≤ -(valNat l : Int) := by omega
      simp [hr2, this]
    · have : ¬ (-(2 ^ (bits - 1) : Int) ≤ -(valNat l : Int)) := by omega
      simp [hr2, this]
  · simp only [hr, ↓reduceIte]
    have : ¬ ((valNat l : Int) ≤ (2 ^ (bits - 1) : Int)) := by
      rcases hb with rfl | rfl | rfl | rfl <;> simp <;> omega
    simp [this]

/-- the literal `0` -/
theorem decodeInt_zero (bits : Nat) (next : UInt8) (rest : List UInt8) (k : Nat)
    (hn : isNumberContinuation next = false) :
    decodeInt bits (48 :: next :: rest) k = .ok 0 (k + 1) := by
  unfold decodeInt
  have hws : isWs 48 = false := by decide
  have hnt : numTable next = false := by rw [numTable_eq_isDigit]; exact not_cont_not_digit hn
  simp [hws, hnt, hn]

/-- leading white space is skipped and counted -/
theorem decodeInt_ws (bits : Nat) (ws s : List UInt8) (k : Nat) (hws : ∀ b ∈ ws, isWs b = true) :
    decodeInt bits (ws ++ s) k = decodeInt bits s (k + ws.length) := by
  induction ws generalizing k with
  | nil => simp
  | cons b ws ih =>
    rw [List.cons_append]
    conv => lhs; unfold decodeInt
    simp only [hws b (by simp), ↓reduceIte]
    rw [ih (k + 1) (fun x hx => hws x (by simp [hx]))]
    congr 1
    simp only [List.length_cons]; omega

end GoJson.Model.Int

namespace GoJson.Model.Int
open GoJson GoJson.Spec

/-- shape extraction: whenever the signed decoder stores a value, the consumed bytes are white
space followed by a JSON integer literal, and the next byte does not continue a number -/
theorem decodeInt_ok_shape (bits : Nat) (s : List UInt8) (k : Nat) (v : Int) (c : Nat)
    (h : decodeInt bits s k = .ok v c) :
    ∃ ws lit next rest, s = ws ++ (lit ++ next :: rest) ∧ (∀ b ∈ ws, isWs b = true) ∧
      isJsonInt lit = true ∧ isNumberContinuation next = false := by
  induction s generalizing k with
  | nil => unfold decodeInt at h; simp at h
  | cons b s ih =>
    unfold decodeInt at h
    by_cases hws : isWs b = true
    · simp only [hws, ↓reduceIte] at h
      obtain ⟨ws, lit, next, rest, e, hw, hl, hn⟩ := ih (k + 1) h
      refine ⟨b :: ws, lit, next, rest, by simp [e], ?_, hl, hn⟩
      intro x hx; simp at hx; rcases hx with rfl | hx; exact hws; exact hw x hx
    · simp only [hws, Bool.false_eq_true, ↓reduceIte] at h
      by_cases h48 : (b == 48) = true
      · simp only [h48, ↓reduceIte] at h
        cases s with
        | nil => simp at h
        | cons c tl =>
          simp only at h
          by_cases hnt : numTable c = true
          · simp [hnt] at h
          · by_cases hc : isNumberContinuation c = true
            · simp [hnt, hc] at h
            · have hb : b = 48 := by simpa using h48
              subst hb
              exact ⟨[], [48], c, tl, by simp, by simp, by decide, by simpa using hc⟩
      · simp only [h48, Bool.false_eq_true, ↓reduceIte] at h
        by_cases hr : (b == 45 || (decide (49 ≤ b.toNat) && decide (b.toNat ≤ 57))) = true
        · simp only [hr, ↓reduceIte] at h
          cases hsd : scanDigits s with
          | none => simp [hsd] at h
          | some p =>
            obtain ⟨ds, r⟩ := p
            obtain ⟨e, hds, next, tl, hr2, hnd⟩ := scanDigits_sound s ds r hsd
            subst hr2
            simp only [hsd] at h
            cases hv : validateIntegerLiteral (b :: ds) next with
            | some e' =>
              simp only [hv] at h
              -- validateIntegerLiteral never yields `.ok`
              simp only [validateIntegerLiteral] at hv
              split at hv
              · simp at hv; subst hv; simp at h
              · split at hv
                · simp at hv; subst hv; simp at h
                · split at hv
                  · simp at hv; subst hv; simp at h
                  · simp at hv
            | none =>
              simp only [validateIntegerLiteral] at hv
              split at hv; · simp at hv
              rename_i hv1
              split at hv; · simp at hv
              rename_i hv2
              split at hv; · simp at hv
              rename_i hv3
              have hcont : isNumberContinuation next = false := by
                simp only [isNumberContinuation, numTable_eq_isDigit, hnd]
                simp at hv3
                simp [hv3.1.1, hv3.1.2, hv3.2]
              refine ⟨[], b :: ds, next, tl, by simp [e], by simp, ?_, hcont⟩
              by_cases hm : b = 45
              · subst hm
                simp only [List.head?_cons, beq_self_eq_true, List.length_cons, Bool.true_and,
                  decide_eq_true_eq, Nat.not_lt] at hv1
                simp only [isJsonInt]
                cases ds with
                | nil => simp at hv1
                | cons d1 ds1 =>
                  cases ds1 with
                  | nil => simp [isJsonNat, hds d1 (by simp)]
                  | cons d2 ds2 =>
                    have hd1 := hds d1 (by simp)
                    have hd2 := hds d2 (by simp)
                    have hrest : ∀ x ∈ ds2, isDigit x = true := fun x hx => hds x (by simp [hx])
                    have hne : d1 ≠ 48 := by
                      intro hc; subst hc
                      simp at hv2
                    simp [isJsonNat, hd1, hd2, hne]
                    exact hrest
              · have hb45 : (b == 45) = false := by simp [hm]
                simp only [hb45, Bool.false_or, Bool.and_eq_true, decide_eq_true_eq] at hr
                have hbd : isDigit b = true := by simp [isDigit]; omega
                have hb48 : b ≠ 48 := by simpa using h48
                have hjn : isJsonNat (b :: ds) = true := by
                  cases ds with
                  | nil => simp [isJsonNat, hbd]
                  | cons d1 ds1 =>
                    simp [isJsonNat, hbd, hb48]
                    exact ⟨hds d1 (by simp), fun x hx => hds x (by simp [hx])⟩
                unfold isJsonInt
                split
                · rename_i r' heq
                  simp at heq
                  exact absurd heq.1 hm
                · exact hjn
        · simp only [hr, Bool.false_eq_true, ↓reduceIte] at h
          split at h
          · split at h <;> simp at h
          · simp at h

end GoJson.Model.Int

namespace GoJson.Model.Int
open GoJson GoJson.Spec

theorem bytesGt_iff (a b : List UInt8) (hl : a.length = b.length)
    (ha : ∀ x ∈ a, isDigit x = true) (hb : ∀ x ∈ b, isDigit x = true) :
    bytesGt a b = decide (valNat a > valNat b) := by
  induction a generalizing b with
  | nil =>
    cases b with
    | nil => simp [bytesGt]
    | cons _ _ => simp at hl
  | cons a0 as ih =>
    cases b with
    | nil => simp at hl
    | cons b0 bs =>
      simp only [List.length_cons, Nat.add_right_cancel_iff] at hl
      have hla := valNat_lt as (fun x hx => ha x (by simp [hx]))
      have hlb := valNat_lt bs (fun x hx => hb x (by simp [hx]))
      have da := isDigit_toNat (ha a0 (by simp))
      have db := isDigit_toNat (hb b0 (by simp))
      rw [valNat_cons, valNat_cons, hl]
      rw [hl] at hla
      simp only [bytesGt]
      generalize 10 ^ bs.length = p at *
      by_cases h1 : a0 > b0
      · have h1' : a0.toNat > b0.toNat := UInt8.lt_iff_toNat_lt.mp h1
        simp only [h1, ↓reduceIte]
        have : (b0.toNat - 48 + 1) * p ≤ (a0.toNat - 48) * p := Nat.mul_le_mul_right _ (by omega)
        rw [Nat.add_mul] at this
        simp; omega
      · simp only [h1, ↓reduceIte]
        by_cases h2 : a0 < b0
        · have h2' : a0.toNat < b0.toNat := UInt8.lt_iff_toNat_lt.mp h2
          simp only [h2, ↓reduceIte]
          have : (a0.toNat - 48 + 1) * p ≤ (b0.toNat - 48) * p := Nat.mul_le_mul_right _ (by omega)
          rw [Nat.add_mul] at this
          simp; omega
        · simp only [h2, ↓reduceIte]
          have h1' : ¬ a0.toNat > b0.toNat := fun h => h1 (UInt8.lt_iff_toNat_lt.mpr h)
          have h2' : ¬ a0.toNat < b0.toNat := fun h => h2 (UInt8.lt_iff_toNat_lt.mpr h)
          have : a0.toNat = b0.toNat := by omega
          rw [this, ih bs hl (fun x hx => ha x (by simp [hx])) (fun x hx => hb x (by simp [hx]))]
          simp

theorem maxLit_val : valNat maxUint64Literal = 2 ^ 64 - 1 := by decide +kernel
theorem maxLit_len : maxUint64Literal.length = 20 := by decide
theorem maxLit_digits : ∀ x ∈ maxUint64Literal, isDigit x = true := by decide

/-- `parseUint` on a JSON natural: exact value or `none` beyond uint64 -/
theorem parseUint_nat (l : List UInt8) (h : isJsonNat l = true) :
    parseUint l = if valNat l < 2 ^ 64 then some (valNat l : Int) else none := by
  have hall : ∀ b ∈ l, isDigit b = true := by
    rcases isJsonNat_cases l h with rfl | ⟨d, ds, rfl, hd, _, hds⟩
    · simp [isDigit]
    · intro x hx; simp at hx; rcases hx with rfl | hx; exact hd; exact hds x hx
  unfold parseUint
  simp only [pow10_size]
  by_cases hlen : l.length > 20
  · simp only [hlen, ↓reduceIte]
    rcases isJsonNat_cases l h with rfl | ⟨d, ds, rfl, hd, h0, hds⟩
    · simp at hlen
    · have := valNat_ge_of_long d ds hd h0 20 (by simp at hlen; omega)
      have : ¬ valNat (d :: ds) < 2 ^ 64 := by omega
      simp [this]
  · simp only [hlen, ↓reduceIte]
    rw [accumulate_toNat pow10 20 (fun k hk => pow10_spec hk) l (by omega)]
    by_cases h20 : l.length = 20
    · have hgt := bytesGt_iff l maxUint64Literal (by rw [h20, maxLit_len]) hall maxLit_digits
      rw [maxLit_val] at hgt
      simp only [h20, beq_self_eq_true, Bool.true_and, hgt]
      by_cases hr : valNat l < 2 ^ 64
      · have : ¬ valNat l > 2 ^ 64 - 1 := by omega
        simp [hr, this, Nat.mod_eq_of_lt hr]
      · have : valNat l > 2 ^ 64 - 1 := by omega
        simp [hr, this]
    · have hne : (l.length == 20) = false := by simp [h20]
      simp only [hne, Bool.false_and, Bool.false_eq_true, ↓reduceIte]
      have hlt := valNat_lt l hall
      have : 10 ^ l.length ≤ 10 ^ 19 := Nat.pow_le_pow_right (by omega) (by omega)
      have hr : valNat l < 2 ^ 64 := by omega
      simp [hr, Nat.mod_eq_of_lt hr]

theorem inRangeUnsigned_iff (bits : Nat) (hb : bits = 8 ∨ bits = 16 ∨ bits = 32 ∨ bits = 64) (v : Int)
    (h64 : v < (2 ^ 64 : Int)) :
    inRangeUnsigned bits v = decide (v < (2 ^ bits : Int)) := by
  rcases hb with rfl | rfl | rfl | rfl <;> simp [inRangeUnsigned]
  omega

theorem decodeUint_pos (bits : Nat) (hb : bits = 8 ∨ bits = 16 ∨ bits = 32 ∨ bits = 64)
    (d : UInt8) (ds : List UInt8) (next : UInt8) (rest : List UInt8) (k : Nat)
    (hd : isDigit d = true) (h0 : d ≠ 48) (hds : ∀ b ∈ ds, isDigit b = true)
    (hn : isNumberContinuation next = false) :
    decodeUint bits (d :: ds ++ next :: rest) k =
      if (valNat (d :: ds) : Int) < (2 ^ bits : Int) then .ok (valNat (d :: ds)) (k + (d :: ds).length) else .typeErr := by
  have hjn : isJsonNat (d :: ds) = true := by
    cases ds with
    | nil => simp [isJsonNat, hd]
    | cons c cs =>
      simp [isJsonNat, hd, h0]
      exact ⟨hds c (by simp), fun x hx => hds x (by simp [hx])⟩
  have hdn := isDigit_toNat hd
  have hne48 : (d == 48) = false := by simp [h0]
  have hrange : (decide (49 ≤ d.toNat) && decide (d.toNat ≤ 57)) = true := by
    have : d.toNat ≠ 48 := fun hc => h0 (UInt8.toNat_inj.mp (by simpa using hc))
    have h1 : 49 ≤ d.toNat := by omega
    simp [h1, hdn.2]
  rw [List.cons_append]
  unfold decodeUint
  simp only [digit_not_ws hd, Bool.false_eq_true, ↓reduceIte, hne48, hrange]
  rw [scanDigits_append ds next rest hds (not_cont_not_digit hn)]
  simp only [not_cont_not_dotE hn, Bool.false_eq_true, ↓reduceIte]
  rw [parseUint_nat _ hjn]
  by_cases hr : valNat (d :: ds) < 2 ^ 64
  · simp only [hr, ↓reduceIte]
    rw [inRangeUnsigned_iff bits hb _ (by omega)]
    by_cases h1 : (valNat (d :: ds) : Int) < (2 ^ bits : Int) <;> simp [h1]
  · simp only [hr, ↓reduceIte]
    have : ¬ ((valNat (d :: ds) : Int) < (2 ^ bits : Int)) := by
      rcases hb with rfl | rfl | rfl | rfl <;> simp <;> omega
    simp [this]

theorem decodeUint_zero (bits : Nat) (next : UInt8) (rest : List UInt8) (k : Nat)
    (hn : isNumberContinuation next = false) :
    decodeUint bits (48 :: next :: rest) k = .ok 0 (k + 1) := by
  unfold decodeUint
  have hws : isWs 48 = false := by decide
  have hnt : numTable next = false := by rw [numTable_eq_isDigit]; exact not_cont_not_digit hn
  simp [hws, hnt, hn]

theorem decodeUint_ws (bits : Nat) (ws s : List UInt8) (k : Nat) (hws : ∀ b ∈ ws, isWs b = true) :
    decodeUint bits (ws ++ s) k = decodeUint bits s (k + ws.length) := by
  induction ws generalizing k with
  | nil => simp
  | cons b ws ih =>
    rw [List.cons_append]
    conv => lhs; unfold decodeUint
    simp only [hws b (by simp), ↓reduceIte]
    rw [ih (k + 1) (fun x hx => hws x (by simp [hx]))]
    congr 1
    simp only [List.length_cons]; omega

theorem decodeUint_ok_shape (bits : Nat) (s : List UInt8) (k : Nat) (v : Int) (c : Nat)
    (h : decodeUint bits s k = .ok v c) :
    ∃ ws lit next rest, s = ws ++ (lit ++ next :: rest) ∧ (∀ b ∈ ws, isWs b = true) ∧
      isJsonNat lit = true ∧ isNumberContinuation next = false := by
  induction s generalizing k with
  | nil => unfold decodeUint at h; simp at h
  | cons b s ih =>
    unfold decodeUint at h
    by_cases hws : isWs b = true
    · simp only [hws, ↓reduceIte] at h
      obtain ⟨ws, lit, next, rest, e, hw, hl, hn⟩ := ih (k + 1) h
      refine ⟨b :: ws, lit, next, rest, by simp [e], ?_, hl, hn⟩
      intro x hx; simp at hx; rcases hx with rfl | hx; exact hws; exact hw x hx
    · simp only [hws, Bool.false_eq_true, ↓reduceIte] at h
      by_cases h48 : (b == 48) = true
      · simp only [h48, ↓reduceIte] at h
        cases s with
        | nil => simp at h
        | cons c tl =>
          simp only at h
          by_cases hnt : numTable c = true
          · simp [hnt] at h
          · by_cases hc : isNumberContinuation c = true
            · simp [hnt, hc] at h
            · have hb : b = 48 := by simpa using h48
              subst hb
              exact ⟨[], [48], c, tl, by simp, by simp, by decide, by simpa using hc⟩
      · simp only [h48, Bool.false_eq_true, ↓reduceIte] at h
        by_cases hr : (decide (49 ≤ b.toNat) && decide (b.toNat ≤ 57)) = true
        · simp only [hr, ↓reduceIte] at h
          cases hsd : scanDigits s with
          | none => simp [hsd] at h
          | some p =>
            obtain ⟨ds, r⟩ := p
            obtain ⟨e, hds, next, tl, hr2, hnd⟩ := scanDigits_sound s ds r hsd
            subst hr2
            simp only [hsd] at h
            by_cases hdot : (next == 46 || next == 101 || next == 69) = true
            · simp [hdot] at h
            · have hcont : isNumberContinuation next = false := by
                simp only [isNumberContinuation, numTable_eq_isDigit, hnd]
                simp at hdot
                simp [hdot.1.1, hdot.1.2, hdot.2]
              simp only [Bool.and_eq_true, decide_eq_true_eq] at hr
              have hbd : isDigit b = true := by simp [isDigit]; omega
              have hb48 : b ≠ 48 := by simpa using h48
              have hjn : isJsonNat (b :: ds) = true := by
                cases ds with
                | nil => simp [isJsonNat, hbd]
                | cons d1 ds1 =>
                  simp [isJsonNat, hbd, hb48]
                  exact ⟨hds d1 (by simp), fun x hx => hds x (by simp [hx])⟩
              exact ⟨[], b :: ds, next, tl, by simp [e], by simp, hjn, hcont⟩
        · simp only [hr, Bool.false_eq_true, ↓reduceIte] at h
          split at h
          · split at h <;> simp at h
          · simp at h

end GoJson.Model.Int
