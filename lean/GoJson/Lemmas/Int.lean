/- Helper lemmas for the integer conversion model. -/
import GoJson.Model.Int
import GoJson.Lemmas.Decimal

namespace GoJson.Model.Int
open GoJson GoJson.Spec

/-- The generated `intLELookup` is the table of two-digit numerals, low byte = tens digit. -/
theorem lookup_spec : ∀ j : Fin 100, lookup j.val = (48 + j.val / 10) + 256 * (48 + j.val % 10) := by
  decide +kernel

theorem lookup_in_range : Gen.enc_intLELookup.size = 100 := by decide +kernel

theorem le2_lookup {j : Nat} (h : j < 100) : le2 (lookup j) = [digitByte (j / 10), digitByte (j % 10)] := by
  have := lookup_spec ⟨j, h⟩
  simp only at this
  rw [this]
  unfold le2 digitByte
  have a : (48 + j / 10 + 256 * (48 + j % 10)) % 256 = 48 + j / 10 := by omega
  have b : (48 + j / 10 + 256 * (48 + j % 10)) / 256 % 256 = 48 + j % 10 := by omega
  rw [a, b]

theorem digitsLoop_spec (n : Nat) (acc : List UInt8) : digitsLoop n acc = decNat n ++ acc := by
  induction n using Nat.strongRecOn generalizing acc with
  | _ n ih =>
    rw [digitsLoop]
    by_cases h : 100 ≤ n
    · simp only [h, ↓reduceDIte]
      rw [ih (n / 100) (by omega), le2_lookup (Nat.mod_lt _ (by omega)), decNat_ge100 h]
      have : n % 100 % 10 = n % 10 := by omega
      simp [this]
    · simp only [h, ↓reduceDIte]
      have hn : n < 100 := Nat.not_le.mp h
      rw [le2_lookup hn]
      by_cases h10 : n < 10
      · have z : n / 10 = 0 := by omega
        have m : n % 10 = n := by omega
        simp [h10, decNat_lt10 h10, m]
      · simp only [h10, ↓reduceIte]
        rw [decNat_two (Nat.not_lt.mp h10) hn]

theorem numMask_8 : numMask 8 = 255#64 := by decide
theorem numMask_16 : numMask 16 = 65535#64 := by decide
theorem numMask_32 : numMask 32 = 4294967295#64 := by decide
theorem numMask_64 : numMask 64 = 18446744073709551615#64 := by decide

theorem and_mask_toNat (bits : Nat) (hb : bits = 8 ∨ bits = 16 ∨ bits = 32 ∨ bits = 64) (w : BitVec 64) :
    (w &&& numMask bits).toNat = w.toNat % 2 ^ bits := by
  have hw := w.isLt
  rcases hb with rfl | rfl | rfl | rfl
  · rw [numMask_8, BitVec.toNat_and]
    exact Nat.and_two_pow_sub_one_eq_mod w.toNat 8
  · rw [numMask_16, BitVec.toNat_and]
    exact Nat.and_two_pow_sub_one_eq_mod w.toNat 16
  · rw [numMask_32, BitVec.toNat_and]
    exact Nat.and_two_pow_sub_one_eq_mod w.toNat 32
  · rw [numMask_64, BitVec.toNat_and]
    exact Nat.and_two_pow_sub_one_eq_mod w.toNat 64

end GoJson.Model.Int

namespace GoJson.Model.Int
open GoJson GoJson.Spec

/-- the sign test `(u64>>(bits-1))&1 == 1` reads bit `bits-1` -/
theorem sign_test (bits : Nat) (hb : bits = 8 ∨ bits = 16 ∨ bits = 32 ∨ bits = 64) (w : BitVec 64) :
    (((w >>> (bits - 1)) &&& 1#64) == 1#64) = decide (2 ^ (bits - 1) ≤ w.toNat % 2 ^ bits) := by
  have hw := w.isLt
  have key : ∀ k, (((w >>> k) &&& 1#64) == 1#64) = decide (w.toNat / 2 ^ k % 2 = 1) := by
    intro k
    rw [Bool.eq_iff_iff]
    simp only [beq_iff_eq, decide_eq_true_eq]
    rw [← BitVec.toNat_inj, BitVec.toNat_and, BitVec.toNat_ushiftRight, Nat.shiftRight_eq_div_pow]
    simp [Nat.and_one_is_mod]
  rw [key]
  rcases hb with rfl | rfl | rfl | rfl <;> simp only [Nat.reduceSub, Nat.reducePow] <;>
    (rw [Bool.eq_iff_iff]; simp only [decide_eq_true_eq]; omega)

/-- `-n & mask` is the magnitude of a negative value -/
theorem neg_mask_toNat (bits : Nat) (hb : bits = 8 ∨ bits = 16 ∨ bits = 32 ∨ bits = 64) (w : BitVec 64)
    (hneg : 2 ^ (bits - 1) ≤ w.toNat % 2 ^ bits) :
    ((-(w &&& numMask bits)) &&& numMask bits).toNat = 2 ^ bits - w.toNat % 2 ^ bits := by
  rw [and_mask_toNat bits hb, BitVec.toNat_neg, and_mask_toNat bits hb]
  have hw := w.isLt
  rcases hb with rfl | rfl | rfl | rfl <;> simp only [Nat.reduceSub, Nat.reducePow] at * <;> omega

end GoJson.Model.Int
