import GoJson.Model.Alias
namespace GoJson.Model.Alias

/-- below this absolute position of the current array nothing is written any more -/
def bound (s : St) : Nat :=
  match s.lit with
  | some st => st
  | none => s.origin + s.cursor

def Inv (s : St) : Prop :=
  s.cursor ≤ s.length ∧
  (∀ st, s.lit = some st → st ≤ s.origin + s.cursor) ∧
  (∀ r ∈ s.out, r.arr ≤ s.arr) ∧
  (∀ r ∈ s.out, r.arr = s.arr → r.b ≤ bound s)

theorem inv_init : Inv init := by
  refine ⟨Nat.le_refl _, ?_, ?_, ?_⟩ <;> intro _ h <;> simp [init] at h

theorem bound_le (s : St) (h : Inv s) : bound s ≤ s.origin + s.cursor := by
  unfold bound
  cases hl : s.lit with
  | none => simp
  | some st => simpa using h.2.1 st hl

/-- one step: its writes miss everything handed out, and the invariant is kept -/
theorem step_safe (s : St) (op : Op) (h : Inv s) (s' : St) (ws : List Write) (hs : step s op = some (s', ws)) :
    (∀ w ∈ ws, ∀ r ∈ s.out, misses w r) ∧ Inv s' := by
  obtain ⟨hcl, hlit, harr, hb⟩ := h
  have hbl := bound_le s ⟨hcl, hlit, harr, hb⟩
  cases op with
  | adv k =>
    simp only [step] at hs
    split at hs
    · rename_i hk
      simp only [Option.some.injEq, Prod.mk.injEq] at hs
      obtain ⟨rfl, rfl⟩ := hs
      refine ⟨(by intro w hw; cases hw), ?_, ?_, harr, ?_⟩
      · exact hk
      · intro st hst; have := hlit st hst; simp only; omega
      · intro r hr ha
        have := hb r hr ha
        unfold bound at *
        cases hl : s.lit with
        | none => simp only [hl] at this ⊢; omega
        | some st => simp only [hl] at this ⊢; exact this
    · cases hs
  | read n grow =>
    simp only [step] at hs
    split at hs
    · simp only [Option.some.injEq, Prod.mk.injEq] at hs
      obtain ⟨rfl, rfl⟩ := hs
      refine ⟨?_, ?_, ?_, ?_, ?_⟩
      · intro w hw r hr
        left
        have := harr r hr
        simp only [List.mem_cons, List.mem_nil_iff, or_false] at hw
        rcases hw with rfl | rfl <;> simp only <;> omega
      · simp only; omega
      · intro st hst
        simp only [Option.map_eq_some_iff] at hst
        obtain ⟨a, ha, rfl⟩ := hst
        have := hlit a ha
        simp only; omega
      · intro r hr; have := harr r hr; simp only; omega
      · intro r hr ha
        have := harr r hr
        simp only at ha
        omega
    · simp only [Option.some.injEq, Prod.mk.injEq] at hs
      obtain ⟨rfl, rfl⟩ := hs
      refine ⟨?_, ?_, ?_, harr, ?_⟩
      · intro w hw r hr
        simp only [List.mem_cons, List.mem_nil_iff, or_false] at hw
        subst hw
        by_cases ha : r.arr = s.arr
        · right; left
          have := hb r hr ha
          simp only; omega
        · left; exact ha
      · simp only; omega
      · intro st hst; exact hlit st hst
      · intro r hr ha
        have := hb r hr ha
        unfold bound at *
        exact this
  | reset =>
    simp only [step] at hs
    cases hl : s.lit with
    | some st => rw [hl] at hs; cases hs
    | none =>
      rw [hl] at hs
      simp only [Option.some.injEq, Prod.mk.injEq] at hs
      obtain ⟨rfl, rfl⟩ := hs
      refine ⟨(by intro w hw; cases hw), ?_, ?_, harr, ?_⟩
      · simp
      · intro st hst; simp only [hl] at hst; cases hst
      · intro r hr ha
        have := hb r hr ha
        unfold bound at *
        simp only [hl] at this ⊢
        omega
  | beginString =>
    simp only [step] at hs
    cases hl : s.lit with
    | some st => rw [hl] at hs; cases hs
    | none =>
      rw [hl] at hs
      by_cases hc : s.cursor < s.length
      · simp only [hc, if_true, Option.some.injEq, Prod.mk.injEq] at hs
        obtain ⟨rfl, rfl⟩ := hs
        refine ⟨(by intro w hw; cases hw), ?_, ?_, harr, ?_⟩
        · simp only; omega
        · intro st hst
          simp only [Option.some.injEq] at hst
          subst hst
          simp only; omega
        · intro r hr ha
          have := hb r hr ha
          unfold bound at *
          simp only [hl] at this
          simp only
          omega
      · simp only [hc, if_false] at hs
        cases hs
  | escape removed newCursor =>
    simp only [step] at hs
    cases hl : s.lit with
    | none => rw [hl] at hs; cases hs
    | some st =>
      rw [hl] at hs
      by_cases hc : st ≤ s.origin + s.cursor ∧ s.cursor < s.length ∧ removed ≤ s.length - s.cursor - 1 ∧
         s.cursor ≤ newCursor ∧ newCursor ≤ s.length - removed
      · simp only [hc, and_self, if_true, Option.some.injEq, Prod.mk.injEq] at hs
        obtain ⟨rfl, rfl⟩ := hs
        obtain ⟨h1, h2, h3, h4, h5⟩ := hc
        refine ⟨?_, ?_, ?_, harr, ?_⟩
        · intro w hw r hr
          simp only [List.mem_cons, List.mem_nil_iff, or_false] at hw
          subst hw
          by_cases ha : r.arr = s.arr
          · right; left
            have := hb r hr ha
            unfold bound at this
            simp only [hl] at this
            simp only; omega
          · left; exact ha
        · simp only; omega
        · intro st' hst
          simp only [hl, Option.some.injEq] at hst
          subst hst
          simp only; omega
        · intro r hr ha
          have := hb r hr ha
          unfold bound at *
          simp only [hl] at this ⊢
          exact this
      · simp only [hc, if_false] at hs
        cases hs
  | badRune =>
    simp only [step] at hs
    cases hl : s.lit with
    | none => rw [hl] at hs; cases hs
    | some st =>
      rw [hl] at hs
      by_cases hc : st ≤ s.origin + s.cursor ∧ s.cursor < s.length
      · simp only [hc, and_self, if_true, Option.some.injEq, Prod.mk.injEq] at hs
        obtain ⟨rfl, rfl⟩ := hs
        refine ⟨?_, ?_, ?_, ?_, ?_⟩
        · intro w hw r hr
          simp only [List.mem_cons, List.mem_nil_iff, or_false] at hw
          subst hw
          left
          have := harr r hr
          simp only; omega
        · simp only; omega
        · intro st' hst
          simp only [Option.some.injEq] at hst
          subst hst
          simp only; omega
        · intro r hr; have := harr r hr; simp only; omega
        · intro r hr ha
          have := harr r hr
          simp only at ha
          omega
      · simp only [hc, if_false] at hs
        cases hs
  | endString =>
    simp only [step] at hs
    cases hl : s.lit with
    | none => rw [hl] at hs; cases hs
    | some st =>
      rw [hl] at hs
      by_cases hc : st ≤ s.origin + s.cursor ∧ s.cursor < s.length
      · simp only [hc, and_self, if_true, Option.some.injEq, Prod.mk.injEq] at hs
        obtain ⟨rfl, rfl⟩ := hs
        refine ⟨(by intro w hw; cases hw), ?_, ?_, ?_, ?_⟩
        · simp only; omega
        · intro st' hst; simp only at hst; cases hst
        · intro r hr
          simp only [List.mem_cons] at hr
          rcases hr with rfl | hr
          · exact Nat.le_refl _
          · exact harr r hr
        · intro r hr ha
          unfold bound
          simp only
          simp only [List.mem_cons] at hr
          rcases hr with rfl | hr
          · simp only; omega
          · have := hb r hr ha
            unfold bound at this
            simp only [hl] at this
            omega
      · simp only [hc, if_false] at hs
        cases hs

theorem run_stable (ops : List Op) : ∀ s, Inv s → Stable s ops := by
  induction ops with
  | nil => intro _ _; trivial
  | cons op ops ih =>
    intro s h
    unfold Stable
    cases hs : step s op with
    | none => trivial
    | some p =>
      obtain ⟨s', ws⟩ := p
      have := step_safe s op h s' ws hs
      exact ⟨this.1, ih s' this.2⟩

end GoJson.Model.Alias
