import GoJson.Lemmas.Key1
namespace GoJson.Model.Key

/-- name `m` starts with `q` -/
def cand (names : List (List UInt8)) (q : List UInt8) (m : Nat) : Bool :=
  match names[m]? with
  | some k => decide (k.take q.length = q)
  | none => false

theorem take_snoc (k q : List UInt8) (c : UInt8) :
    (k.take (q ++ [c]).length = q ++ [c]) ↔ (k.take q.length = q ∧ k[q.length]? = some c) := by
  induction q generalizing k with
  | nil =>
    cases k with
    | nil => simp
    | cons y ys => simp
  | cons x xs ih =>
    cases k with
    | nil => simp
    | cons y ys =>
      simp only [List.cons_append, List.length_cons, List.take_succ_cons, List.cons.injEq,
        List.getElem?_cons_succ]
      rw [ih ys]
      constructor
      · rintro ⟨a, b, c⟩; exact ⟨⟨a, b⟩, c⟩
      · rintro ⟨⟨a, b⟩, c⟩; exact ⟨a, b, c⟩

theorem cand_snoc (names : List (List UInt8)) (q : List UInt8) (c : UInt8) (m : Nat) :
    cand names (q ++ [c]) m = (cand names q m && hasAt names m q.length c) := by
  unfold cand hasAt
  cases h : names[m]? with
  | none => simp
  | some k =>
    simp only
    rw [Bool.eq_iff_iff]
    simp only [decide_eq_true_eq, Bool.and_eq_true, beq_iff_eq]
    exact take_snoc k q c

theorem sorted_get (names : List (List UInt8)) (hs : Sorted names) (i j : Nat) (a b : List UInt8)
    (hij : i < j) (ha : names[i]? = some a) (hb : names[j]? = some b) : lexLe a b = true ∧ a ≠ b := by
  unfold Sorted at hs
  rw [List.pairwise_iff_getElem] at hs
  obtain ⟨hi, ha'⟩ := List.getElem?_eq_some_iff.mp ha
  obtain ⟨hj, hb'⟩ := List.getElem?_eq_some_iff.mp hb
  have := hs i j hi hj hij
  rw [ha', hb'] at this
  exact this

theorem sorted_unique (names : List (List UInt8)) (hs : Sorted names) (i j : Nat) (a : List UInt8)
    (ha : names[i]? = some a) (hb : names[j]? = some a) : i = j := by
  rcases Nat.lt_trichotomy i j with h | h | h
  · exact absurd rfl (sorted_get names hs i j a a h ha hb).2
  · exact h
  · exact absurd rfl (sorted_get names hs j i a a h hb ha).2

theorem scan_spec (names : List (List UInt8)) (w : Nat) (hs : Sorted names) (hw : names.length ≤ w)
    (cs : List UInt8) : ∀ (cur : Nat) (q : List UInt8),
    (∀ m, cur.testBit m = cand names q m) → cur ≠ 0 →
    scan names w cur q.length cs ≠ .panic ∧
    (∀ i : Nat, scan names w cur q.length cs = .field i ↔ names[i]? = some (q ++ cs.map lower)) ∧
    (scan names w cur q.length cs = .notFound ↔ ∀ i : Nat, names[i]? ≠ some (q ++ cs.map lower)) := by
  induction cs with
  | nil =>
    intro cur q hinv hne
    obtain ⟨m0, hm0⟩ := Nat.exists_testBit_of_ne_zero hne
    have hm0w : m0 < w := by
      rw [hinv] at hm0
      unfold cand at hm0
      cases h : names[m0]? with
      | none => simp [h] at hm0
      | some k =>
        have := (List.getElem?_eq_some_iff.mp h).1
        omega
    obtain ⟨ht, _, hmin⟩ := tz_spec w cur ⟨m0, hm0w, hm0⟩
    rw [hinv] at ht
    unfold cand at ht
    simp only [List.map_nil, List.append_nil]
    unfold scan finish
    cases hk : names[tz w cur]? with
    | none => simp [hk] at ht
    | some k =>
      simp only [hk, decide_eq_true_eq] at ht
      simp only
      by_cases hlen : q.length < k.length
      · simp only [hlen, if_true]
        have hnone : ∀ i : Nat, names[i]? ≠ some q := by
          intro i hi
          have hci : cur.testBit i = true := by
            rw [hinv]; unfold cand; simp [hi]
          rcases Nat.lt_trichotomy i (tz w cur) with h | h | h
          · have := hmin i h; rw [hci] at this; cases this
          · subst h; rw [hk] at hi; cases hi; omega
          · have h1 := sorted_get names hs _ _ _ _ h hk hi
            have h2 := lexLe_of_take q k ht
            exact h1.2 (lexLe_antisymm _ _ h1.1 h2)
        refine ⟨by simp, ?_, ?_⟩
        · intro i; constructor
          · intro h; cases h
          · intro h; exact absurd h (hnone i)
        · simp [hnone]
      · simp only [hlen, if_false]
        have hkq : k = q := by
          have : k.take q.length = k := List.take_of_length_le (by omega)
          rw [this] at ht; exact ht
        subst hkq
        refine ⟨by simp, ?_, ?_⟩
        · intro i; constructor
          · intro h; cases h; exact hk
          · intro h; rw [sorted_unique names hs _ _ _ hk h]
        · constructor
          · intro h; cases h
          · intro h; exact absurd hk (h _)
  | cons c cs ih =>
    intro cur q hinv hne
    obtain ⟨m0, hm0⟩ := Nat.exists_testBit_of_ne_zero hne
    have hidx : ¬ (q.length > maxLen names) := by
      rw [hinv] at hm0
      unfold cand at hm0
      cases h : names[m0]? with
      | none => simp [h] at hm0
      | some k =>
        simp only [h, decide_eq_true_eq] at hm0
        have h1 := le_maxLen names k (List.mem_of_getElem? h)
        have h2 : q.length ≤ k.length := by
          have := congrArg List.length hm0
          simp only [List.length_take] at this
          omega
        omega
    have hinv' : ∀ m, (cur &&& row names q.length (lower c)).testBit m = cand names (q ++ [lower c]) m := by
      intro m
      rw [Nat.testBit_and, hinv, testBit_row, cand_snoc]
    have happ : q ++ (c :: cs).map lower = (q ++ [lower c]) ++ cs.map lower := by simp
    rw [happ]
    unfold scan
    simp only [hidx, if_false]
    by_cases hz : cur &&& row names q.length (lower c) = 0
    · simp only [hz, if_true]
      have hnone : ∀ i : Nat, names[i]? ≠ some ((q ++ [lower c]) ++ cs.map lower) := by
        intro i hi
        have : cand names (q ++ [lower c]) i = true := by
          unfold cand; simp only [hi]
          exact decide_eq_true (List.take_left' rfl)
        rw [← hinv', hz] at this
        simp at this
      refine ⟨by simp, ?_, ?_⟩
      · intro i; constructor
        · intro h; cases h
        · intro h; exact absurd h (hnone i)
      · exact ⟨fun _ => hnone, fun _ => trivial⟩
    · simp only [hz, if_false]
      have := ih (cur &&& row names q.length (lower c)) (q ++ [lower c]) hinv' hz
      simpa using this

/-- the matcher on sorted names: no index leaves its table, and the selected name is exactly the
lower-cased key -/
theorem matchSorted_spec (names : List (List UInt8)) (hs : Sorted names) (hn : names.length ≤ 16)
    (hne : ∀ k ∈ names, k ≠ []) (chars : List UInt8) :
    matchSorted names chars ≠ .panic ∧
    (∀ i : Nat, matchSorted names chars = .field i ↔ names[i]? = some (chars.map lower)) := by
  cases chars with
  | nil =>
    refine ⟨by simp [matchSorted], ?_⟩
    intro i
    simp only [matchSorted, List.map_nil]
    constructor
    · intro h; cases h
    · intro h; exact absurd rfl (hne [] (List.mem_of_getElem? h))
  | cons c cs =>
    have hw : names.length ≤ width names.length := by unfold width; split <;> omega
    simp only [matchSorted]
    unfold scan
    have h0 : ¬ (0 > maxLen names) := by omega
    simp only [h0, if_false]
    have hinv' : ∀ m, ((2 ^ width names.length - 1) &&& row names 0 (lower c)).testBit m = cand names ([] ++ [lower c]) m := by
      intro m
      rw [Nat.testBit_and, Nat.testBit_two_pow_sub_one, testBit_row, cand_snoc]
      have : cand names [] m = decide (m < names.length) := by
        unfold cand
        cases h : names[m]? with
        | none =>
          have := List.getElem?_eq_none_iff.mp h
          simp; omega
        | some k =>
          have := (List.getElem?_eq_some_iff.mp h).1
          simp [this]
      rw [this]
      by_cases hm : m < names.length
      · have : m < width names.length := by omega
        simp [hm, this]
      · have : hasAt names m 0 (lower c) = false := by
          unfold hasAt
          have : names[m]? = none := List.getElem?_eq_none_iff.mpr (by omega)
          simp [this]
        simp [this]
    by_cases hz : (2 ^ width names.length - 1) &&& row names 0 (lower c) = 0
    · simp only [hz, if_true]
      refine ⟨by simp, ?_⟩
      intro i; constructor
      · intro h; cases h
      · intro hi
        have : cand names ([] ++ [lower c]) i = true := by
          unfold cand; simp [hi]
        rw [← hinv', hz] at this
        simp at this
    · simp only [hz, if_false]
      have := scan_spec names (width names.length) hs hw cs _ ([] ++ [lower c]) hinv' hz
      simp only [List.nil_append, List.length_cons, List.length_nil, Nat.zero_add] at this
      refine ⟨this.1, ?_⟩
      intro i
      have := this.2.1 i
      simpa using this

end GoJson.Model.Key
