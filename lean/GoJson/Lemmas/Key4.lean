import GoJson.Lemmas.Key3
namespace GoJson.Model.Key

theorem esc_u_some (r : List UInt8) (x : List UInt8 × Nat) (h : esc (117 :: r) = some x) :
    5 ≤ r.length ∧
    (isHex (r.getD 0 0) && isHex (r.getD 1 0) && isHex (r.getD 2 0) && isHex (r.getD 3 0)) = true := by
  unfold esc at h
  simp only [show ((117 : UInt8) == 34) = false by decide, show ((117 : UInt8) == 92) = false by decide,
    show ((117 : UInt8) == 47) = false by decide, show ((117 : UInt8) == 98) = false by decide,
    show ((117 : UInt8) == 102) = false by decide, show ((117 : UInt8) == 110) = false by decide,
    show ((117 : UInt8) == 114) = false by decide, show ((117 : UInt8) == 116) = false by decide,
    show ((117 : UInt8) == 117) = true by decide, if_true, if_false, Bool.false_eq_true] at h
  split at h
  · cases h
  · split at h
    · rename_i h5 hh
      exact ⟨by omega, hh⟩
    · cases h

theorem esc_u_nohex (r : List UInt8)
    (h : (isHex (r.getD 0 0) && isHex (r.getD 1 0) && isHex (r.getD 2 0) && isHex (r.getD 3 0)) = false) :
    esc (117 :: r) = none := by
  cases he : esc (117 :: r) with
  | none => rfl
  | some x => have := (esc_u_some r x he).2; rw [h] at this; cases this

theorem utf8_ne (v : Nat) : utf8 v ≠ [] := by
  unfold utf8
  split
  · exact List.cons_ne_nil _ _
  · split
    · exact List.cons_ne_nil _ _
    · split
      · exact List.cons_ne_nil _ _
      · exact List.cons_ne_nil _ _

theorem esc_u_chars_ne (r chars : List UInt8) (n : Nat) (h : esc (117 :: r) = some (chars, n)) : chars ≠ [] := by
  unfold esc at h
  simp only [show ((117 : UInt8) == 34) = false by decide, show ((117 : UInt8) == 92) = false by decide,
    show ((117 : UInt8) == 47) = false by decide, show ((117 : UInt8) == 98) = false by decide,
    show ((117 : UInt8) == 102) = false by decide, show ((117 : UInt8) == 110) = false by decide,
    show ((117 : UInt8) == 114) = false by decide, show ((117 : UInt8) == 116) = false by decide,
    show ((117 : UInt8) == 117) = true by decide, if_true, if_false, Bool.false_eq_true] at h
  split at h
  · cases h
  · split at h
    · split at h
      · split at h
        · simp only [Option.some.injEq, Prod.mk.injEq] at h; rw [← h.1]; simp [fffd]
        · split at h
          · split at h
            · simp only [Option.some.injEq, Prod.mk.injEq] at h; rw [← h.1]; exact utf8_ne _
            · simp only [Option.some.injEq, Prod.mk.injEq] at h; rw [← h.1]; simp [fffd]
          · cases h
      · simp only [Option.some.injEq, Prod.mk.injEq] at h; rw [← h.1]; exact utf8_ne _
    · cases h

theorem esc_chars_ne (r chars : List UInt8) (n : Nat) (h : esc r = some (chars, n)) : chars ≠ [] := by
  cases r with
  | nil => simp [esc] at h
  | cons e r' =>
    by_cases hs : isSimpleEsc e = true
    · obtain ⟨x, hx⟩ := esc_simple e r' hs
      rw [hx] at h; cases h; exact List.cons_ne_nil _ _
    · by_cases hu : (e == 117) = true
      · rw [beq_iff_eq] at hu; subst hu
        exact esc_u_chars_ne r' chars n h
      · have := esc_other e r' (by simpa using hs) (by simpa using hu)
        rw [this] at h; cases h

theorem u_ne_zero : ((117 : UInt8) == 0) = false := by decide
theorem bs_ne_zero : ((92 : UInt8) == 0) = false := by decide

/-- the unmatched-key skipper steps over a whole escape exactly as the matcher does -/
theorem skipRest_drop_esc (r : List UInt8) (chars : List UInt8) (n : Nat) (h : esc r = some (chars, n)) :
    skipRest (r.drop 1) = skipRest (r.drop n) ∧ 1 ≤ n ∧ n ≤ r.length ∧ chars ≠ [] := by
  cases r with
  | nil => simp [esc] at h
  | cons e r' =>
    by_cases hs : isSimpleEsc e = true
    · obtain ⟨x, hx⟩ := esc_simple e r' hs
      have hne := esc_chars_ne _ _ _ hx
      rw [hx] at h; cases h
      exact ⟨rfl, Nat.le_refl _, by simp, hne⟩
    · by_cases hu : (e == 117) = true
      · rw [beq_iff_eq] at hu; subst hu
        obtain ⟨h5, hh⟩ := esc_u_some r' _ h
        obtain ⟨a, b, c, d, rest, rfl, ha, hb, hc, hd⟩ := hex4_split r' hh
        have hlen : 1 ≤ rest.length := by simp only [List.length_cons] at h5; omega
        rcases esc_u_cases a b c d rest ha hb hc hd hlen with ⟨x, hx⟩ | ⟨x, a2, b2, c2, d2, r3, hx, rfl, ha2, hb2, hc2, hd2⟩ | ⟨hx, _⟩
        · rw [hx] at h; cases h
          refine ⟨?_, by omega, by simp only [List.length_cons]; omega, ?_⟩
          · simp only [List.drop_succ_cons, List.drop_zero]
            exact skipRest_hex4 a b c d rest ha hb hc hd
          · exact esc_chars_ne _ _ _ hx
        · rw [hx] at h; cases h
          refine ⟨?_, by omega, by simp only [List.length_cons]; omega, ?_⟩
          · simp only [List.drop_succ_cons, List.drop_zero]
            rw [skipRest_hex4 a b c d _ ha hb hc hd, skipRest_u]
            simp [ha2, hb2, hc2, hd2]
          · exact esc_chars_ne _ _ _ hx
        · rw [hx] at h; cases h
      · have := esc_other e r' (by simpa using hs) (by simpa using hu)
        rw [this] at h; cases h

end GoJson.Model.Key
