import GoJson.Lemmas.Enc1
namespace GoJson.Model.Enc
open GoJson GoJson.Spec GoJson.Model.Compact

mutual
def noRaw : GV → Bool
  | .raw _ => false
  | .ptr v => noRaw v
  | .arr es => noRawEs es
  | .obj _ ms => noRawMs ms
  | _ => true
def noRawEs : GVs → Bool
  | .nil => true
  | .cons v r => noRaw v && noRawEs r
def noRawMs : GMs → Bool
  | .nil => true
  | .cons _ _ _ v r => noRaw v && noRawMs r
end

mutual
/-- nesting depth of containers -/
def height : GV → Nat
  | .ptr v => height v
  | .arr es => 1 + heightEs es
  | .obj _ ms => 1 + heightMs ms
  | _ => 0
def heightEs : GVs → Nat
  | .nil => 0
  | .cons v r => max (height v) (heightEs r)
def heightMs : GMs → Nat
  | .nil => 0
  | .cons _ _ _ v r => max (height v) (heightMs r)
end

/-- two lists related element by element -/
inductive Pairs {α β : Type} (R : α → β → Prop) : List α → List β → Prop where
  | nil : Pairs R [] []
  | cons {a b l1 l2} : R a b → Pairs R l1 l2 → Pairs R (a :: l1) (b :: l2)

theorem allWs_nil : AllWs [] := by
  intro b hb; cases hb

theorem nl_none (n : Nat) : nl none n = [] := rfl
theorem colon_none : colon none = [58] := rfl

/-- joined element renderings form the element grammar, level `m ≥ 1` -/
theorem elems_join (lay : Layout) (m : Nat) (hm : 1 ≤ m) (ocs ols : List (List UInt8))
    (h : Pairs (CVal lay m) ocs ols) (hne : ocs ≠ []) :
    CElems lay m (joinItems none (m - 1) ocs) (joinItems lay (m - 1) ols ++ nl lay (m - 1) ++ [93]) := by
  have hm1 : m - 1 + 1 = m := by omega
  induction h with
  | nil => exact absurd rfl hne
  | @cons x y xs ys hxy hrest ih =>
    cases hrest with
    | nil =>
      have := CElems.one (lay := lay) m [] x [] y allWs_nil hxy allWs_nil
      simpa [joinItems, nl_none, hm1] using this
    | @cons x2 y2 xs2 ys2 hxy2 hrest2 =>
      have ih' := ih (by simp)
      have := CElems.more (lay := lay) m [] x [] (joinItems none (m - 1) (x2 :: xs2)) y
        (joinItems lay (m - 1) (y2 :: ys2) ++ nl lay (m - 1) ++ [93]) allWs_nil hxy allWs_nil ih'
      simpa [joinItems, nl_none, hm1] using this

/-- a rendered member: key, colon, value -/
def MemberRel (lay : Layout) (m : Nat) (xc xl : List UInt8) : Prop :=
  ∃ (key : List Item) (oc ol : List UInt8), (∀ i ∈ key, i.wf true = true) ∧
    xc = (34 :: renderAll key ++ [34]) ++ [58] ++ oc ∧
    xl = (34 :: renderAll key ++ [34]) ++ colon lay ++ ol ∧ CVal lay m oc ol

theorem mems_join (lay : Layout) (m : Nat) (hm : 1 ≤ m) (xcs xls : List (List UInt8))
    (h : Pairs (MemberRel lay m) xcs xls) (hne : xcs ≠ []) :
    CMems lay m (joinItems none (m - 1) xcs) (joinItems lay (m - 1) xls ++ nl lay (m - 1) ++ [125]) := by
  have hm1 : m - 1 + 1 = m := by omega
  induction h with
  | nil => exact absurd rfl hne
  | @cons x y xs ys hxy hrest ih =>
    obtain ⟨key, oc, ol, hwf, rfl, rfl, hv⟩ := hxy
    cases hrest with
    | nil =>
      have := CMems.one (lay := lay) m [] key [] [] oc [] ol allWs_nil hwf allWs_nil allWs_nil hv allWs_nil
      simpa [joinItems, nl_none, hm1] using this
    | @cons x2 y2 xs2 ys2 hxy2 hrest2 =>
      have ih' := ih (by simp)
      have := CMems.more (lay := lay) m [] key [] [] oc [] (joinItems none (m - 1) (x2 :: xs2)) ol
        (joinItems lay (m - 1) (y2 :: ys2) ++ nl lay (m - 1) ++ [125]) allWs_nil hwf allWs_nil allWs_nil hv allWs_nil ih'
      simpa [joinItems, nl_none, hm1] using this

end GoJson.Model.Enc
