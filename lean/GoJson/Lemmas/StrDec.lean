import GoJson.Model.StrDec
import GoJson.Lemmas.JsonString
namespace GoJson.Model.StrDec
open GoJson GoJson.Spec

theorem isSimpleEsc_eq (e : UInt8) : isSimpleEsc e = isSimpleLetter e := rfl
theorem isHex_eq (c : UInt8) : isHex c = isHexDigit c := rfl

theorem hexToInt_fin : ∀ i : Fin 256, Gen.dec_hexToInt.getD i.val 0 =
    (if 48 ≤ i.val ∧ i.val ≤ 57 then i.val - 48 else if 97 ≤ i.val ∧ i.val ≤ 102 then i.val - 87
     else if 65 ≤ i.val ∧ i.val ≤ 70 then i.val - 55 else 0) := by decide +kernel

theorem hexToInt_spec (c : UInt8) : hexToInt c = hexValue c := by
  have := hexToInt_fin ⟨c.toNat, c.toNat_lt⟩
  simp only [hexToInt, hexValue, Bool.and_eq_true, decide_eq_true_eq] at *
  exact this

theorem unescapeMap_fin : ∀ i : Fin 256,
    (i.val = 34 ∨ i.val = 92 ∨ i.val = 47 ∨ i.val = 98 ∨ i.val = 102 ∨ i.val = 110 ∨ i.val = 114 ∨ i.val = 116) →
    Gen.dec_unescapeMap.getD i.val 0 =
      (if i.val = 98 then 8 else if i.val = 102 then 12 else if i.val = 110 then 10
       else if i.val = 114 then 13 else if i.val = 116 then 9 else i.val) := by decide +kernel

theorem hexValue_lt (c : UInt8) : hexValue c < 16 := by
  unfold hexValue
  (repeat' split) <;> simp_all <;> omega

theorem code4_spec (h1 h2 h3 h4 : UInt8) : code4 h1 h2 h3 h4 = code h1 h2 h3 h4 := by
  unfold code4 code
  simp only [hexToInt_spec]
  have a := hexValue_lt h1
  have b := hexValue_lt h2
  have c := hexValue_lt h3
  have d := hexValue_lt h4
  generalize hexValue h1 = x1 at *
  generalize hexValue h2 = x2 at *
  generalize hexValue h3 = x3 at *
  generalize hexValue h4 = x4 at *
  -- bits are disjoint: or = add
  have s3 : x3 <<< 4 = 16 * x3 := by rw [Nat.shiftLeft_eq]; omega
  have s2 : x2 <<< 8 = 256 * x2 := by rw [Nat.shiftLeft_eq]; omega
  have s1 : x1 <<< 12 = 4096 * x1 := by rw [Nat.shiftLeft_eq]; omega
  have e3 : x3 <<< 4 ||| x4 = x3 <<< 4 + x4 := (Nat.shiftLeft_add_eq_or_of_lt (by omega) x3).symm
  have e2 : x2 <<< 8 ||| (x3 <<< 4 + x4) = x2 <<< 8 + (x3 <<< 4 + x4) :=
    (Nat.shiftLeft_add_eq_or_of_lt (by omega) x2).symm
  have e1 : x1 <<< 12 ||| (x2 <<< 8 + (x3 <<< 4 + x4)) = x1 <<< 12 + (x2 <<< 8 + (x3 <<< 4 + x4)) :=
    (Nat.shiftLeft_add_eq_or_of_lt (by omega) x1).symm
  rw [Nat.or_assoc, Nat.or_assoc, e3, e2, e1]
  omega

def hasEsc : List Item → Bool
  | [] => false
  | .raw _ :: r => hasEsc r
  | _ :: _ => true

/-- item well-formedness as the go-json scanner sees it: RFC 8259 (raw control bytes are rejected
since the repair of D02) -/
abbrev WF (i : Item) : Prop := i.wf true = true

theorem raw_wf {b : UInt8} (h : WF (.raw b)) : b ≠ 34 ∧ b ≠ 92 ∧ b ≠ 0 ∧ ¬ b.toNat < 32 := by
  simp [WF, Item.wf] at h
  exact ⟨h.1.1.1, h.1.1.2, h.1.2, by omega⟩

/-- the scan loop accepts a rendered item list up to the closing quote and reports its extent -/
theorem scanBody_render (items : List Item) (rest : List UInt8) (hw : ∀ i ∈ items, WF i) :
    scanBody (renderAll items ++ 34 :: rest) =
      .ok (renderAll items, (renderAll items).length + 1, hasEsc items) := by
  induction items with
  | nil =>
    simp only [renderAll, List.flatMap_nil, List.nil_append]
    unfold scanBody
    simp [hasEsc]
  | cons it items ih =>
    have ih' := ih (fun i hi => hw i (by simp [hi]))
    have hit := hw it (by simp)
    rw [renderAll_cons]
    cases it with
    | raw b =>
      obtain ⟨h1, h2, h3, h4⟩ := raw_wf hit
      simp only [Item.render, List.cons_append, List.nil_append]
      unfold scanBody
      simp [h1, h2, h3, h4, ih', hasEsc]
    | simple e =>
      have he : isSimpleEsc e = true := by
        rw [isSimpleEsc_eq]; simpa [WF, Item.wf] using hit
      simp only [Item.render, List.cons_append, List.nil_append]
      unfold scanBody
      simp [he, ih', hasEsc]
    | uni h1 h2 h3 h4 =>
      have hh : isHex h1 = true ∧ isHex h2 = true ∧ isHex h3 = true ∧ isHex h4 = true := by
        simp only [isHex_eq]
        simp [WF, Item.wf] at hit
        exact ⟨hit.1.1.1, hit.1.1.2, hit.1.2, hit.2⟩
      simp only [Item.render, List.cons_append, List.nil_append]
      unfold scanBody
      have hs : isSimpleEsc 117 = false := by decide
      simp [hs, hh.1, hh.2.1, hh.2.2.1, hh.2.2.2, ih', hasEsc]
      omega


theorem unescapeMap_spec (e : UInt8) (h : isSimpleLetter e = true) : unescapeMap e = simpleValue e := by
  have hl : e.toNat = 34 ∨ e.toNat = 92 ∨ e.toNat = 47 ∨ e.toNat = 98 ∨ e.toNat = 102 ∨ e.toNat = 110 ∨
      e.toNat = 114 ∨ e.toNat = 116 := by
    simp only [isSimpleLetter, Bool.or_eq_true, beq_iff_eq, u8eq_iff', UInt8.toNat_ofNat] at h
    omega
  have := unescapeMap_fin ⟨e.toNat, e.toNat_lt⟩ hl
  simp only at this
  unfold unescapeMap simpleValue
  rw [this]
  apply UInt8.toNat_inj.mp
  simp only [beq_iff_eq, u8eq_iff', UInt8.toNat_ofNat]
  have he := e.toNat_lt
  (repeat' split) <;> simp_all [Nat.toUInt8, UInt8.toNat_ofNat'] <;> omega

theorem utf8Encode_highSur (c : Nat) (h : isHighSur c = true) : utf8Encode c = runeError := by
  simp only [isHighSur, Bool.and_eq_true, decide_eq_true_eq] at h
  unfold utf8Encode
  have a : ¬ c < 0x80 := by omega
  have b : ¬ c < 0x800 := by omega
  have d : 0xD800 ≤ c ∧ c < 0xE000 := by omega
  simp [a, b, d]

theorem pair_value (c lo : Nat) (hc : isHighSur c = true) (hl : isLowSur lo = true) :
    ((c - 0xd800) <<< 10 ||| (lo - 0xdc00)) + 0x10000 = 0x10000 + (c - 0xD800) * 1024 + (lo - 0xDC00) := by
  simp only [isLowSur, Bool.and_eq_true, decide_eq_true_eq] at hl
  have : (c - 0xd800) <<< 10 ||| (lo - 0xdc00) = (c - 0xd800) <<< 10 + (lo - 0xdc00) :=
    (Nat.shiftLeft_add_eq_or_of_lt (by omega) _).symm
  rw [this, Nat.shiftLeft_eq]; omega

/-- **In-place unescape computes the meaning of the literal**, surrogate pairs and lone surrogates
included -/
theorem unescape_render (items : List Item) (hw : ∀ i ∈ items, WF i) :
    unescape (renderAll items) = sem items := by
  induction hn : items.length using Nat.strongRecOn generalizing items with
  | _ n ih =>
    cases items with
    | nil =>
      simp only [renderAll, List.flatMap_nil]
      unfold unescape
      exact sem_nil.symm
    | cons it r =>
      have hr : ∀ i ∈ r, WF i := fun i hi => hw i (by simp [hi])
      have ihr : unescape (renderAll r) = sem r := ih r.length (by simp at hn; omega) r hr rfl
      have hit := hw it (by simp)
      rw [renderAll_cons]
      cases it with
      | raw b =>
        obtain ⟨_, h2, _⟩ := raw_wf hit
        simp only [Item.render, List.cons_append, List.nil_append]
        unfold unescape
        rw [sem_cons_raw]
        simp [h2, ihr]
      | simple e =>
        have he : isSimpleLetter e = true := by simpa [WF, Item.wf] using hit
        have hne : e ≠ 117 := by intro hc; subst hc; simp [isSimpleLetter] at he
        simp only [Item.render, List.cons_append, List.nil_append]
        unfold unescape
        rw [sem_cons_simple]
        simp [hne, ihr, unescapeMap_spec e he]
      | uni h1 h2 h3 h4 =>
        simp only [Item.render, List.cons_append, List.nil_append]
        conv => lhs; unfold unescape
        simp only [bne_self_eq_false, Bool.false_eq_true, ↓reduceIte, List.getD_cons_zero,
          List.getD_cons_succ, code4_spec, List.drop_succ_cons, List.drop_zero, List.length_cons]
        by_cases hhi : isHighSur (code h1 h2 h3 h4) = true
        · have hrange : 0xd800 ≤ code h1 h2 h3 h4 ∧ code h1 h2 h3 h4 < 0xdc00 := by
            simpa [isHighSur] using hhi
          rw [sem]
          simp only [hhi, ↓reduceIte]
          cases r with
          | nil =>
            simp [renderAll, peekLow, utf8Encode_highSur _ hhi, sem_nil]
            unfold unescape; rfl
          | cons it2 r2 =>
            have hit2 := hw it2 (by simp)
            cases it2 with
            | raw b =>
              obtain ⟨_, hb, _⟩ := raw_wf hit2
              simp [renderAll_cons, Item.render, peekLow, hb, utf8Encode_highSur _ hhi]
              rw [← ihr, renderAll_cons]; rfl
            | simple e =>
              have he : isSimpleLetter e = true := by simpa [WF, Item.wf] using hit2
              have hne : e ≠ 117 := by intro hc; subst hc; simp [isSimpleLetter] at he
              simp [renderAll_cons, Item.render, peekLow, hne, utf8Encode_highSur _ hhi]
              rw [← ihr, renderAll_cons]; rfl
            | uni l1 l2 l3 l4 =>
              have ihr2 : unescape (renderAll r2) = sem r2 :=
                ih r2.length (by simp at hn; omega) r2 (fun i hi => hw i (by simp [hi])) rfl
              by_cases hlo : isLowSur (code l1 l2 l3 l4) = true
              · have hlr : 0xdc00 ≤ code l1 l2 l3 l4 ∧ code l1 l2 l3 l4 < 0xe000 := by
                  simpa [isLowSur] using hlo
                simp [renderAll_cons, Item.render, peekLow, hlo, hrange.1, hrange.2, hlr.1, hlr.2,
                  code4_spec, pair_value _ _ hhi hlo, ihr2]
              · have hlo' : isLowSur (code l1 l2 l3 l4) = false := by simpa using hlo
                have hlr : ¬ (0xdc00 ≤ code l1 l2 l3 l4 ∧ code l1 l2 l3 l4 < 0xe000) := by
                  simpa [isLowSur] using hlo'
                simp only [renderAll_cons, Item.render, List.cons_append, List.nil_append, peekLow, hlo',
                  Bool.false_eq_true, ↓reduceIte, utf8Encode_highSur _ hhi]
                rw [← ihr, renderAll_cons]
                simp only [Item.render, List.cons_append, List.nil_append, List.getD_cons_zero,
                  List.getD_cons_succ, code4_spec]
                have : ¬ (0xdc00 ≤ code l1 l2 l3 l4 ∧ code l1 l2 l3 l4 < 0xe000) := hlr
                simp [this]
                intros; omega
        · have hhi' : isHighSur (code h1 h2 h3 h4) = false := by simpa using hhi
          have : ¬ (0xd800 ≤ code h1 h2 h3 h4 ∧ code h1 h2 h3 h4 < 0xdc00) := by
            simpa [isHighSur] using hhi'
          rw [sem_cons_uni_notHigh _ _ _ _ _ hhi', ← ihr]
          have hc : (decide (0xd800 ≤ code h1 h2 h3 h4) && decide (code h1 h2 h3 h4 < 0xdc00)) = false := by
            simpa [isHighSur] using hhi'
          simp [hc]

end GoJson.Model.StrDec
