import GoJson.Lemmas.BufSound2
namespace GoJson.Model.BufDec
open GoJson GoJson.Spec GoJson.Model.StrDec

theorem accepts_sound (range : Bool) (b : List UInt8) (h : accepts range b = true) :
    ValidText rxCurrent range maxDepth b := by
  unfold accepts at h
  cases hv : value range (2 * b.length + 4) 0 (b ++ [0]) with
  | err => simp [hv] at h
  | oob => simp [hv] at h
  | ok rest =>
    rw [hv] at h
    simp only [beq_iff_eq] at h
    obtain ⟨w, v, hs, hw, hval⟩ := (sound_all range _).1 0 (b ++ [0]) rest hv (Nat.zero_le _)
    obtain ⟨w2, hr, hw2, _⟩ := skipWs_split rest
    rw [h] at hr
    refine ⟨w, v, w2, ?_, hw, hw2, by simpa using hval⟩
    rw [hr] at hs
    have : b ++ [0] = (w ++ v ++ w2) ++ [0] := by rw [hs]; simp
    exact List.append_cancel_right this
end GoJson.Model.BufDec
