/- Helper lemmas for the string escaper model: generated tables and the rune decoder. -/
import GoJson.Model.Str
import GoJson.Spec.Utf8

namespace GoJson.Model.Str
open GoJson GoJson.Spec

/-! ### what the generated tables say -/

/-- spec of the escape tables: control bytes, quote, backslash; with `html` also < > &; with `norm`
also every byte ≥ 0x80 -/
def needsEscSpec (html norm : Bool) (n : Nat) : Bool :=
  n < 0x20 || n == 0x22 || n == 0x5c || (html && (n == 0x3c || n == 0x3e || n == 0x26)) || (norm && 0x80 ≤ n)

theorem tblPlain_fin : ∀ i : Fin 256, (Gen.enc_needEscape.getD i.val 0 == 1) = needsEscSpec false false i.val := by
  decide +kernel
theorem tblHTML_fin : ∀ i : Fin 256, (Gen.enc_needEscapeHTML.getD i.val 0 == 1) = needsEscSpec true false i.val := by
  decide +kernel
theorem tblNorm_fin : ∀ i : Fin 256, (Gen.enc_needEscapeNormalizeUTF8.getD i.val 0 == 1) = needsEscSpec false true i.val := by
  decide +kernel
theorem tblHTMLNorm_fin : ∀ i : Fin 256, (Gen.enc_needEscapeHTMLNormalizeUTF8.getD i.val 0 == 1) = needsEscSpec true true i.val := by
  decide +kernel

theorem tbl_spec (html norm : Bool) (b : UInt8) : tbl html norm b = needsEscSpec html norm b.toNat := by
  have hb := b.toNat_lt
  cases html <;> cases norm <;> simp only [tbl, Bool.false_eq_true, ↓reduceIte]
  · exact tblPlain_fin ⟨b.toNat, hb⟩
  · exact tblNorm_fin ⟨b.toNat, hb⟩
  · exact tblHTML_fin ⟨b.toNat, hb⟩
  · exact tblHTMLNorm_fin ⟨b.toNat, hb⟩

/-- spec of `first`: ASCII → 0xF0; C2..DF → 0x02; E0 → 0x13; E1..EC, EE, EF → 0x03; ED → 0x23;
F0 → 0x34; F1..F3 → 0x04; F4 → 0x44; everything else → 0xF1 -/
def firstSpec (n : Nat) : Nat :=
  if n < 0x80 then 0xF0
  else if 0xC2 ≤ n && n ≤ 0xDF then 0x02
  else if n == 0xE0 then 0x13
  else if n == 0xED then 0x23
  else if 0xE1 ≤ n && n ≤ 0xEF then 0x03
  else if n == 0xF0 then 0x34
  else if 0xF1 ≤ n && n ≤ 0xF3 then 0x04
  else if n == 0xF4 then 0x44
  else 0xF1

theorem first_fin : ∀ i : Fin 256, Gen.enc_first.getD i.val 0 = firstSpec i.val := by decide +kernel

theorem firstTbl_spec (b : UInt8) : firstTbl b = firstSpec b.toNat := first_fin ⟨b.toNat, b.toNat_lt⟩

end GoJson.Model.Str
