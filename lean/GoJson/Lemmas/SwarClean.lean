import GoJson.Lemmas.Swar
import GoJson.Lemmas.Str
namespace GoJson.Model.Str
open GoJson

theorem term20 (n : BitVec 64) (k : Nat) (hk : k ≤ 7) (h128 : ∀ j, j ≤ k → byteOf n.toNat j < 128)
    (hf : ∀ j, j ≤ k → flag (n - lsb * 0x20#64) j = false) : 32 ≤ byteOf n.toNat k := by
  match k, hk with
  | 0, _ => exact term20_0 n h128 hf
  | 1, _ => exact term20_1 n h128 hf
  | 2, _ => exact term20_2 n h128 hf
  | 3, _ => exact term20_3 n h128 hf
  | 4, _ => exact term20_4 n h128 hf
  | 5, _ => exact term20_5 n h128 hf
  | 6, _ => exact term20_6 n h128 hf
  | 7, _ => exact term20_7 n h128 hf

theorem termx (n C : BitVec 64) (c : Nat) (hc : c < 128) (hC : ∀ j, j ≤ 7 → byteOf C.toNat j = c)
    (k : Nat) (hk : k ≤ 7) (h128 : ∀ j, j ≤ k → byteOf n.toNat j < 128)
    (hf : ∀ j, j ≤ k → flag ((n ^^^ C) - lsb) j = false) : byteOf n.toNat k ≠ c := by
  match k, hk with
  | 0, _ => exact termx_0 n C c hc hC h128 hf
  | 1, _ => exact termx_1 n C c hc hC h128 hf
  | 2, _ => exact termx_2 n C c hc hC h128 hf
  | 3, _ => exact termx_3 n C c hc hC h128 hf
  | 4, _ => exact termx_4 n C c hc hC h128 hf
  | 5, _ => exact termx_5 n C c hc hC h128 hf
  | 6, _ => exact termx_6 n C c hc hC h128 hf
  | 7, _ => exact termx_7 n C c hc hC h128 hf

theorem constBytes (c : Nat) (C : BitVec 64) (h : ∀ j : Fin 8, byteOf C.toNat j.val = c) :
    ∀ j, j ≤ 7 → byteOf C.toNat j = c := fun j hj => h ⟨j, by omega⟩

theorem bit7_small (a m : Nat) (h : a / 2 ^ (m + 7) % 2 = 0) : a / 2 ^ m % 2 ^ 8 < 128 := by
  rw [Nat.pow_add, ← Nat.div_div_eq_div_mul] at h
  generalize a / 2 ^ m = y at *
  omega

/-- what "needs no escaping" means for a byte value -/
def CleanNat (html : Bool) (b : Nat) : Prop :=
  32 ≤ b ∧ b < 128 ∧ b ≠ 0x22 ∧ b ≠ 0x5c ∧ (html = true → b ≠ 0x3c ∧ b ≠ 0x3e ∧ b ≠ 0x26)

/-- **SWAR has no false negatives below the first flag**: if bytes `0..k` of the mask carry no
flag, byte `k` of the word needs no escaping (borrows of the subtractions cannot hide it). -/
theorem clean_of_noflags (html : Bool) (n : BitVec 64) (k : Nat) (hk : k ≤ 7)
    (hf : ∀ j, j ≤ k → flag (mask html n) j = false) : CleanNat html (byteOf n.toNat k) := by
  have c22 := constBytes 0x22 (lsb * 0x22#64) (by decide)
  have c5c := constBytes 0x5c (lsb * 0x5c#64) (by decide)
  have c3c := constBytes 0x3c (lsb * 0x3c#64) (by decide)
  have c3e := constBytes 0x3e (lsb * 0x3e#64) (by decide)
  have c26 := constBytes 0x26 (lsb * 0x26#64) (by decide)
  cases html with
  | false =>
    simp only [mask, maskPlain, Bool.false_eq_true, ↓reduceIte, flag_or, Bool.or_eq_false_iff] at hf
    have h128 : ∀ j, j ≤ k → byteOf n.toNat j < 128 := fun j hj =>
      bit7_small _ _ (flag_false_nat n j (hf j hj).1.1.1)
    exact ⟨term20 n k hk h128 (fun j hj => (hf j hj).1.1.2), h128 k (Nat.le_refl k),
      termx n _ 0x22 (by decide) c22 k hk h128 (fun j hj => (hf j hj).1.2),
      termx n _ 0x5c (by decide) c5c k hk h128 (fun j hj => (hf j hj).2), by intro h; cases h⟩
  | true =>
    simp only [mask, maskHTML, ↓reduceIte, flag_or, Bool.or_eq_false_iff] at hf
    have h128 : ∀ j, j ≤ k → byteOf n.toNat j < 128 := fun j hj =>
      bit7_small _ _ (flag_false_nat n j (hf j hj).1.1.1.1.1.1)
    exact ⟨term20 n k hk h128 (fun j hj => (hf j hj).1.1.1.1.1.2), h128 k (Nat.le_refl k),
      termx n _ 0x22 (by decide) c22 k hk h128 (fun j hj => (hf j hj).1.1.1.1.2),
      termx n _ 0x5c (by decide) c5c k hk h128 (fun j hj => (hf j hj).1.1.1.2),
      fun _ => ⟨termx n _ 0x3c (by decide) c3c k hk h128 (fun j hj => (hf j hj).1.1.2),
        termx n _ 0x3e (by decide) c3e k hk h128 (fun j hj => (hf j hj).1.2),
        termx n _ 0x26 (by decide) c26 k hk h128 (fun j hj => (hf j hj).2)⟩⟩

end GoJson.Model.Str
