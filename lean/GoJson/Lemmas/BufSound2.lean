import GoJson.Lemmas.BufSound1
namespace GoJson.Model.BufDec
open GoJson GoJson.Spec GoJson.Model.StrDec

def SoundV (range : Bool) (fuel : Nat) : Prop :=
  ∀ depth s rest, value range fuel depth s = .ok rest → depth ≤ maxDepth →
    ∃ w v, s = w ++ v ++ rest ∧ AllWs w ∧ Value rxCurrent range (maxDepth - depth) v
def SoundE (range : Bool) (fuel : Nat) : Prop :=
  ∀ depth s rest, elements range fuel depth s = .ok rest → depth ≤ maxDepth →
    ∃ body, s = body ++ 93 :: rest ∧ Elements rxCurrent range (maxDepth - depth) body
def SoundM (range : Bool) (fuel : Nat) : Prop :=
  ∀ depth s rest, members range fuel depth s = .ok rest → depth ≤ maxDepth →
    ∃ body, s = body ++ 125 :: rest ∧ Members rxCurrent range (maxDepth - depth) body

theorem members_prepend_ws (rx : Relax) (range : Bool) (d : Nat) (w body : List UInt8) (hw : AllWs w)
    (h : Members rx range d body) : Members rx range d (w ++ body) := by
  cases h with
  | one _ w1 key w2 w3 v w4 h1 hk h2 h3 hv h4 =>
    have := Members.one (rx := rx) (range := range) d (w ++ w1) key w2 w3 v w4 (allWs_append hw h1) hk h2 h3 hv h4
    simpa [List.append_assoc] using this
  | more _ w1 key w2 w3 v w4 rest h1 hk h2 h3 hv h4 hr =>
    have := Members.more (rx := rx) (range := range) d (w ++ w1) key w2 w3 v w4 rest (allWs_append hw h1) hk h2 h3 hv h4 hr
    simpa [List.append_assoc] using this

theorem soundV_step (range : Bool) (f : Nat) (hE : SoundE range f) (hM : SoundM range f) : SoundV range (f + 1) := by
  intro depth s rest h hd
  unfold value at h
  obtain ⟨w, hs, hw, _⟩ := skipWs_split s
  cases hsk : skipWs s with
  | nil => simp [hsk] at h
  | cons b r =>
    rw [hsk] at h hs
    simp only at h
    have hdeq : depth + 1 ≤ maxDepth → maxDepth - depth = (maxDepth - (depth + 1)) + 1 := by omega
    by_cases hb1 : (b == 123) = true
    · -- object
      have hb : b = 123 := by simpa using hb1
      subst hb
      simp only [beq_self_eq_true, ↓reduceIte] at h
      by_cases hdep : depth + 1 > maxDepth
      · simp [hdep] at h
      · simp only [hdep, ↓reduceIte] at h
        obtain ⟨w2, hr, hw2, _⟩ := skipWs_split r
        cases hsk2 : skipWs r with
        | nil => simp [hsk2] at h
        | cons c r2 =>
          rw [hsk2] at h hr
          simp only at h
          by_cases hc : (c == 125) = true
          · have : c = 125 := by simpa using hc
            subst this
            simp only [beq_self_eq_true, ↓reduceIte, R.ok.injEq] at h
            subst h
            refine ⟨w, 123 :: w2 ++ [125], by rw [hs, hr]; simp, hw, ?_⟩
            rw [hdeq (by omega)]
            exact Value.objEmpty _ w2 hw2
          · simp only [hc, Bool.false_eq_true, ↓reduceIte] at h
            obtain ⟨body, hbody, hmem⟩ := hM (depth + 1) (c :: r2) rest h (by omega)
            refine ⟨w, 123 :: (w2 ++ body) ++ [125], by rw [hs, hr, hbody]; simp, hw, ?_⟩
            rw [hdeq (by omega)]
            exact Value.obj _ (w2 ++ body) (members_prepend_ws _ _ _ _ _ hw2 hmem)
    · simp only [hb1, Bool.false_eq_true, ↓reduceIte] at h
      by_cases hb2 : (b == 91) = true
      · have hb : b = 91 := by simpa using hb2
        subst hb
        simp only [beq_self_eq_true, ↓reduceIte] at h
        by_cases hdep : depth + 1 > maxDepth
        · simp [hdep] at h
        · simp only [hdep, ↓reduceIte] at h
          obtain ⟨w2, hr, hw2, _⟩ := skipWs_split r
          cases hsk2 : skipWs r with
          | nil => simp [hsk2] at h
          | cons c r2 =>
            rw [hsk2] at h hr
            simp only at h
            by_cases hc : (c == 93) = true
            · have : c = 93 := by simpa using hc
              subst this
              simp only [beq_self_eq_true, ↓reduceIte, R.ok.injEq] at h
              subst h
              refine ⟨w, 91 :: w2 ++ [93], by rw [hs, hr]; simp, hw, ?_⟩
              rw [hdeq (by omega)]
              exact Value.arrEmpty _ w2 hw2
            · simp only [hc, Bool.false_eq_true, ↓reduceIte] at h
              obtain ⟨body, hbody, hel⟩ := hE (depth + 1) (c :: r2) rest h (by omega)
              refine ⟨w, 91 :: (w2 ++ body) ++ [93], by rw [hs, hr, hbody]; simp, hw, ?_⟩
              rw [hdeq (by omega)]
              exact Value.arr _ (w2 ++ body) (elements_prepend_ws _ _ _ _ _ hw2 hel)
      · simp only [hb2, Bool.false_eq_true, ↓reduceIte] at h
        by_cases hb3 : (b == 45 || (decide (48 ≤ b.toNat) && decide (b.toNat ≤ 57))) = true
        · simp only [hb3, ↓reduceIte] at h
          obtain ⟨tok, ht, hn, hrng⟩ := number_sound range b r rest h
          exact ⟨w, tok, by rw [hs, ht]; simp, hw, Value.num _ tok hn hrng⟩
        · simp only [hb3, Bool.false_eq_true, ↓reduceIte] at h
          by_cases hb4 : (b == 34) = true
          · have hb : b = 34 := by simpa using hb4
            subst hb
            simp only [beq_self_eq_true, ↓reduceIte] at h
            obtain ⟨items, hwf, hr⟩ := stringTail_sound r rest h
            refine ⟨w, 34 :: renderAll items ++ [34], by rw [hs, hr]; simp, hw, ?_⟩
            exact Value.str _ items (by intro i hi; simpa [rxCurrent] using hwf i hi)
          · simp only [hb4, Bool.false_eq_true, ↓reduceIte] at h
            by_cases hb5 : (b == 116) = true
            · simp only [hb5, ↓reduceIte] at h
              have := lit_sound _ _ _ h
              exact ⟨w, [116, 114, 117, 101], by rw [hs, this]; simp, hw, Value.true_ _⟩
            · simp only [hb5, Bool.false_eq_true, ↓reduceIte] at h
              by_cases hb6 : (b == 102) = true
              · simp only [hb6, ↓reduceIte] at h
                have := lit_sound _ _ _ h
                exact ⟨w, [102, 97, 108, 115, 101], by rw [hs, this]; simp, hw, Value.false_ _⟩
              · simp only [hb6, Bool.false_eq_true, ↓reduceIte] at h
                by_cases hb7 : (b == 110) = true
                · simp only [hb7, ↓reduceIte] at h
                  have := lit_sound _ _ _ h
                  exact ⟨w, [110, 117, 108, 108], by rw [hs, this]; simp, hw, Value.null _⟩
                · simp [hb7] at h

theorem soundE_step (range : Bool) (f : Nat) (hV : SoundV range f) (hE : SoundE range f) : SoundE range (f + 1) := by
  intro depth s rest h hd
  unfold elements at h
  cases hv : value range f depth s with
  | err => simp [hv] at h
  | oob => simp [hv] at h
  | ok rest1 =>
    rw [hv] at h
    simp only at h
    obtain ⟨w, v, hs, hw, hval⟩ := hV depth s rest1 hv hd
    obtain ⟨w2, hr, hw2, _⟩ := skipWs_split rest1
    cases hsk : skipWs rest1 with
    | nil => simp [hsk] at h
    | cons c r =>
      rw [hsk] at h hr
      simp only at h
      by_cases hc : (c == 93) = true
      · have : c = 93 := by simpa using hc
        subst this
        simp only [beq_self_eq_true, ↓reduceIte, R.ok.injEq] at h
        subst h
        exact ⟨w ++ v ++ w2, by rw [hs, hr]; simp, Elements.one _ w v w2 hw hval hw2⟩
      · simp only [hc, Bool.false_eq_true, ↓reduceIte] at h
        by_cases hc2 : (c == 44) = true
        · have : c = 44 := by simpa using hc2
          subst this
          simp only [beq_self_eq_true, ↓reduceIte] at h
          obtain ⟨body, hbody, hel⟩ := hE depth r rest h hd
          exact ⟨w ++ v ++ w2 ++ 44 :: body, by rw [hs, hr, hbody]; simp, Elements.more _ w v w2 body hw hval hw2 hel⟩
        · simp [hc2] at h

theorem soundM_step (range : Bool) (f : Nat) (hV : SoundV range f) (hM : SoundM range f) : SoundM range (f + 1) := by
  intro depth s rest h hd
  unfold members at h
  obtain ⟨w1, hs, hw1, _⟩ := skipWs_split s
  cases hsk : skipWs s with
  | nil => simp [hsk] at h
  | cons q r =>
    rw [hsk] at h hs
    simp only at h
    by_cases hq : (q != 34) = true
    · simp [hq] at h
    · have hq' : q = 34 := by simpa using hq
      subst hq'
      simp only [bne_self_eq_false, Bool.false_eq_true, ↓reduceIte] at h
      cases hst : stringTail r with
      | err => simp [hst] at h
      | oob => simp [hst] at h
      | ok afterKey =>
        rw [hst] at h
        simp only at h
        obtain ⟨key, hkwf, hkr⟩ := stringTail_sound r afterKey hst
        obtain ⟨w2, hak, hw2, _⟩ := skipWs_split afterKey
        cases hsk2 : skipWs afterKey with
        | nil => simp [hsk2] at h
        | cons c r2 =>
          rw [hsk2] at h hak
          simp only at h
          by_cases hc : (c != 58) = true
          · simp [hc] at h
          · have hc' : c = 58 := by simpa using hc
            subst hc'
            simp only [bne_self_eq_false, Bool.false_eq_true, ↓reduceIte] at h
            cases hv : value range f depth r2 with
            | err => simp [hv] at h
            | oob => simp [hv] at h
            | ok rest1 =>
              rw [hv] at h
              simp only at h
              obtain ⟨w3, v, hr2, hw3, hval⟩ := hV depth r2 rest1 hv hd
              obtain ⟨w4, hr1, hw4, _⟩ := skipWs_split rest1
              cases hsk3 : skipWs rest1 with
              | nil => simp [hsk3] at h
              | cons e r3 =>
                rw [hsk3] at h hr1
                simp only at h
                have hkwf' : ∀ i ∈ key, i.wf (!rxCurrent.ctlInString) = true := by
                  intro i hi; simpa [rxCurrent] using hkwf i hi
                by_cases he : (e == 125) = true
                · have : e = 125 := by simpa using he
                  subst this
                  simp only [beq_self_eq_true, ↓reduceIte, R.ok.injEq] at h
                  subst h
                  refine ⟨w1 ++ (34 :: renderAll key ++ [34]) ++ w2 ++ 58 :: (w3 ++ v ++ w4), ?_,
                    Members.one _ w1 key w2 w3 v w4 hw1 hkwf' hw2 hw3 hval hw4⟩
                  rw [hs, hkr, hak, hr2, hr1]; simp
                · simp only [he, Bool.false_eq_true, ↓reduceIte] at h
                  by_cases he2 : (e == 44) = true
                  · have : e = 44 := by simpa using he2
                    subst this
                    simp only [beq_self_eq_true, ↓reduceIte] at h
                    obtain ⟨body, hbody, hmem⟩ := hM depth r3 rest h hd
                    refine ⟨w1 ++ (34 :: renderAll key ++ [34]) ++ w2 ++ 58 :: (w3 ++ v ++ w4) ++ 44 :: body, ?_,
                      Members.more _ w1 key w2 w3 v w4 body hw1 hkwf' hw2 hw3 hval hw4 hmem⟩
                    rw [hs, hkr, hak, hr2, hr1, hbody]; simp
                  · simp [he2] at h

theorem sound_all (range : Bool) (fuel : Nat) : SoundV range fuel ∧ SoundE range fuel ∧ SoundM range fuel := by
  induction fuel with
  | zero =>
    refine ⟨?_, ?_, ?_⟩
    · intro d s r h; unfold value at h; simp at h
    · intro d s r h; unfold elements at h; simp at h
    · intro d s r h; unfold members at h; simp at h
  | succ f ih =>
    obtain ⟨hV, hE, hM⟩ := ih
    exact ⟨soundV_step range f hE hM, soundE_step range f hV hE, soundM_step range f hV hM⟩

end GoJson.Model.BufDec
