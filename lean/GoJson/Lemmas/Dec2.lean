import GoJson.Lemmas.Dec1
namespace GoJson.Model.Dec
open GoJson GoJson.Spec GoJson.Model.BufDec GoJson.Model.StrDec GoJson.Model.Enc GoJson.Model.Compact

mutual
/-- value trees without embedded raw JSON and without the `string` option -/
def plain : GV → Bool
  | .raw _ => false
  | .ptr v => plain v
  | .arr es => plainEs es
  | .obj _ ms => plainMs ms
  | _ => true
def plainEs : GVs → Bool
  | .nil => true
  | .cons v r => plain v && plainEs r
def plainMs : GMs → Bool
  | .nil => true
  | .cons _ _ q v r => !q && plain v && plainMs r
end

mutual
/-- what decoding the encoding must give back -/
def toJT : GV → JT
  | .null => .null
  | .bool b => .bool b
  | .int i => .num (decInt i)
  | .num t _ => .num t
  | .str s => .str (coerceUtf8 s)
  | .raw _ => .null
  | .ptr v => toJT v
  | .arr es => .arr (toJTs es)
  | .obj _ ms => .obj (toJMs ms)
def toJTs : GVs → JTs
  | .nil => .nil
  | .cons v r => .cons (toJT v) (toJTs r)
def toJMs : GMs → JMs
  | .nil => .nil
  | .cons k om _ v r => if om && isEmpty v then toJMs r else .cons (coerceUtf8 k) (toJT v) (toJMs r)
end

mutual
/-- fuel the decoder model needs for the encoding of a tree -/
def need : GV → Nat
  | .ptr v => need v
  | .arr es => 1 + needEs es
  | .obj _ ms => 1 + needMs ms
  | _ => 1
def needEs : GVs → Nat
  | .nil => 0
  | .cons v r => 1 + max (need v) (needEs r)
def needMs : GMs → Nat
  | .nil => 0
  | .cons _ om _ v r => if om && isEmpty v then needMs r else 1 + max (need v) (needMs r)
end

theorem joinItems_none_one (n : Nat) (x : List UInt8) : joinItems none n [x] = x := by
  simp [joinItems, nl]

theorem joinItems_none_cons (n : Nat) (x y : List UInt8) (r : List (List UInt8)) :
    joinItems none n (x :: y :: r) = x ++ 44 :: joinItems none n (y :: r) := by
  simp [joinItems, nl]

theorem assemble_none_cons (n : Nat) (op cl : UInt8) (x : List UInt8) (xs : List (List UInt8)) :
    assemble none n op cl (x :: xs) = op :: (joinItems none n (x :: xs) ++ [cl]) := by
  simp [assemble, nl]

/-- the first byte of an encoded value: not white space, not a closing bracket -/
theorem enc_head (html : Bool) (v : GV) (n : Nat) (o : List UInt8) (hr : noRaw v = true)
    (hd : n + height v ≤ Compact.maxDepth) (h : enc html none n v = some o) :
    ∃ b t, o = b :: t ∧ isWsByte b = false ∧ b ≠ 93 ∧ b ≠ 125 :=
  cval_head none n o o (enc_cval html none v n o o hr hd h h)

theorem plain_noRaw : ∀ (v : GV), plain v = true → noRaw v = true
  | .null, _ => by simp [noRaw]
  | .bool _, _ => by simp [noRaw]
  | .int _, _ => by simp [noRaw]
  | .num _ _, _ => by simp [noRaw]
  | .str _, _ => by simp [noRaw]
  | .raw _, h => by simp [plain] at h
  | .ptr v, h => by simp only [plain] at h; simp only [noRaw]; exact plain_noRaw v h
  | .arr es, h => by simp only [plain] at h; simp only [noRaw]; exact plainEs_noRaw es h
  | .obj _ ms, h => by simp only [plain] at h; simp only [noRaw]; exact plainMs_noRaw ms h
where
  plainEs_noRaw : ∀ (es : GVs), plainEs es = true → noRawEs es = true
    | .nil, _ => by simp [noRawEs]
    | .cons v r, h => by
      simp only [plainEs, Bool.and_eq_true] at h
      simp only [noRawEs, Bool.and_eq_true]
      exact ⟨plain_noRaw v h.1, plainEs_noRaw r h.2⟩
  plainMs_noRaw : ∀ (ms : GMs), plainMs ms = true → noRawMs ms = true
    | .nil, _ => by simp [noRawMs]
    | .cons _ _ _ v r, h => by
      simp only [plainMs, Bool.and_eq_true] at h
      simp only [noRawMs, Bool.and_eq_true]
      exact ⟨plain_noRaw v h.1.2, plainMs_noRaw r h.2⟩

end GoJson.Model.Dec
