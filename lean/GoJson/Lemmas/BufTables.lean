/- What the generated decoder tables say (white space, float alphabet, number terminators). -/
import GoJson.Model.BufDec

namespace GoJson.Model.BufDec
open GoJson GoJson.Spec

theorem wsTbl_fin : ∀ i : Fin 256, (Gen.dec_isWhiteSpace.getD i.val 0 == 1) =
    (i.val == 32 || i.val == 9 || i.val == 10 || i.val == 13) := by decide +kernel

theorem floatTbl_fin : ∀ i : Fin 256, (Gen.dec_floatTable.getD i.val 0 == 1) =
    ((decide (48 ≤ i.val) && decide (i.val ≤ 57)) || i.val == 46 || i.val == 101 || i.val == 69 || i.val == 43 || i.val == 45) := by
  decide +kernel

theorem validEnd_fin : ∀ i : Fin 256, (Gen.dec_validEndNumberChar.getD i.val 0 == 1) =
    (i.val == 0 || i.val == 32 || i.val == 9 || i.val == 13 || i.val == 10 || i.val == 44 || i.val == 58 || i.val == 125 || i.val == 93) := by
  decide +kernel

theorem maxDepth_val : maxDepth = 10000 := by decide

theorem u8beq (a b : UInt8) : (a == b) = (a.toNat == b.toNat) := by
  rw [Bool.eq_iff_iff]
  simp only [beq_iff_eq]
  exact UInt8.toNat_inj.symm

theorem wsTbl_spec (b : UInt8) : wsTbl b = isWsByte b := by
  have := wsTbl_fin ⟨b.toNat, b.toNat_lt⟩
  simp only [wsTbl, isWsByte] at *
  rw [this]
  simp only [u8beq, UInt8.toNat_ofNat, Nat.reducePow, Nat.reduceMod]

/-- a number terminator is never part of the float alphabet -/
theorem validEnd_not_float (b : UInt8) (h : validEnd b = true) : floatTbl b = false := by
  have h1 := validEnd_fin ⟨b.toNat, b.toNat_lt⟩
  have h2 := floatTbl_fin ⟨b.toNat, b.toNat_lt⟩
  simp only [validEnd, floatTbl] at *
  rw [h1] at h
  rw [h2]
  simp only [Bool.or_eq_true, beq_iff_eq, Bool.or_eq_false_iff, Bool.and_eq_false_iff,
    decide_eq_false_iff_not, beq_eq_false_iff_ne] at *
  omega

end GoJson.Model.BufDec
