import GoJson.Lemmas.Dec4
namespace GoJson.Model.Dec
open GoJson GoJson.Spec GoJson.Model.BufDec GoJson.Model.StrDec GoJson.Model.Enc GoJson.Model.Compact

theorem joinItems_none_len : ∀ (os : List (List UInt8)) (k : Nat),
    (joinItems none k os).length = (os.map List.length).sum + (os.length - 1)
  | [], k => by simp [joinItems]
  | [x], k => by simp [joinItems_none_one]
  | x :: y :: r, k => by
    rw [joinItems_none_cons]
    have := joinItems_none_len (y :: r) k
    simp only [List.length_append, List.length_cons, List.map_cons, List.sum_cons] at this ⊢
    omega

mutual
/-- the fuel the model is given (twice the length plus four) always suffices: a value needs no more
fuel than its encoding has bytes -/
theorem need_le_len (html : Bool) : ∀ (v : GV) (n : Nat) (o : List UInt8), plain v = true →
    enc html none n v = some o → need v ≤ o.length
  | .null, n, o, _, h => by simp only [enc, Option.some.injEq] at h; subst h; simp [need, nullB]
  | .bool b, n, o, _, h => by
    simp only [enc, Option.some.injEq] at h; subst h
    cases b <;> simp [need, boolB, trueB, falseB]
  | .int i, n, o, _, h => by
    simp only [enc, Option.some.injEq] at h; subst h
    simp only [need]
    have := isNumber_decInt i
    obtain ⟨b, t, hb, _, _⟩ := isNumber_alpha _ this
    rw [hb]; simp
  | .num t z, n, o, _, h => by
    simp only [enc] at h
    split at h
    · rename_i hn
      simp only [Option.some.injEq] at h; subst h
      obtain ⟨b, t', hb, _, _⟩ := isNumber_alpha _ hn
      simp only [need]; rw [hb]; simp
    · cases h
  | .str s, n, o, _, h => by
    simp only [enc, Option.some.injEq] at h; subst h
    obtain ⟨items, hk, _, _⟩ := escape_sem html s
    rw [hk]; simp [need]
  | .raw t, n, o, hp, h => by simp [plain] at hp
  | .ptr v, n, o, hp, h => by
    simp only [enc] at h; simp only [need]; simp only [plain] at hp
    exact need_le_len html v n o hp h
  | .arr es, n, o, hp, h => by
    simp only [plain] at hp
    simp only [enc] at h
    cases hos : encEs html none (n + 1) es with
    | none => simp [hos] at h
    | some os =>
      simp only [hos, Option.map_some, Option.some.injEq] at h
      subst h
      have := needEs_le_len html es (n + 1) os hp hos n
      simp only [need]
      cases os with
      | nil =>
        simp only [assemble_nil, List.length_cons, List.length_nil]
        simp only [joinItems, List.length_nil] at this
        omega
      | cons x xs =>
        rw [assemble_none_cons]
        simp only [List.length_cons, List.length_append, List.length_nil]
        omega
  | .obj isMap ms, n, o, hp, h => by
    simp only [plain] at hp
    simp only [enc] at h
    cases hos : encMs html none (n + 1) ms with
    | none => simp [hos] at h
    | some os =>
      simp only [hos, Option.map_some, Option.some.injEq] at h
      subst h
      have := needMs_le_len html ms (n + 1) os hp hos n
      simp only [need]
      cases os with
      | nil =>
        simp only [assemble_nil, List.length_cons, List.length_nil]
        simp only [joinItems, List.length_nil] at this
        omega
      | cons x xs =>
        rw [assemble_none_cons]
        simp only [List.length_cons, List.length_append, List.length_nil]
        omega

theorem needEs_le_len (html : Bool) : ∀ (es : GVs) (m : Nat) (os : List (List UInt8)), plainEs es = true →
    encEs html none m es = some os → ∀ k, needEs es ≤ (joinItems none k os).length + 1
  | .nil, m, os, _, h, k => by simp [needEs]
  | .cons v r, m, os, hp, h, k => by
    simp only [plainEs, Bool.and_eq_true] at hp
    simp only [encEs] at h
    cases a : enc html none m v with
    | none => simp [a] at h
    | some o1 =>
      cases b : encEs html none m r with
      | none => simp [a, b] at h
      | some os1 =>
        simp only [a, b, Option.some.injEq] at h
        subst h
        have h1 := need_le_len html v m o1 hp.1 a
        have h2 := needEs_le_len html r m os1 hp.2 b k
        simp only [needEs]
        cases os1 with
        | nil =>
          rw [joinItems_none_one]
          have : needEs r = 0 := by
            cases r with
            | nil => rfl
            | cons v2 r2 =>
              simp only [encEs] at b
              cases a2 : enc html none m v2 <;> cases b2 : encEs html none m r2 <;> simp [a2, b2] at b
          omega
        | cons o2 os2 =>
          rw [joinItems_none_cons]
          simp only [List.length_append, List.length_cons]
          omega

theorem needMs_le_len (html : Bool) : ∀ (ms : GMs) (m : Nat) (os : List (List UInt8)), plainMs ms = true →
    encMs html none m ms = some os → ∀ k, needMs ms ≤ (joinItems none k os).length + 1
  | .nil, m, os, _, h, k => by simp [needMs]
  | .cons key om q v r, m, os, hp, h, k => by
    simp only [plainMs, Bool.and_eq_true, Bool.not_eq_true'] at hp
    obtain ⟨⟨hq, hpv⟩, hpr⟩ := hp
    subst hq
    simp only [encMs] at h
    simp only [needMs]
    by_cases hs : (om && isEmpty v) = true
    · simp only [hs, if_true] at h ⊢
      exact needMs_le_len html r m os hpr h k
    · simp only [hs, if_false, Bool.false_eq_true] at h ⊢
      cases a : enc html none m v with
      | none => simp [a] at h
      | some o1 =>
        cases b : encMs html none m r with
        | none => simp [a, b] at h
        | some os1 =>
          simp only [a, b, Option.some.injEq] at h
          subst h
          have h1 := need_le_len html v m o1 hpv a
          have h2 := needMs_le_len html r m os1 hpr b k
          obtain ⟨items, hk, _, _⟩ := escape_sem html key
          cases os1 with
          | nil =>
            rw [joinItems_none_one]
            simp only [joinItems, List.length_nil] at h2
            simp only [List.length_append, hk, colon_none, List.length_cons, List.length_nil]
            omega
          | cons o2 os2 =>
            rw [joinItems_none_cons]
            simp only [List.length_append, List.length_cons, hk, colon_none, List.length_nil] at h2 ⊢
            omega
end

end GoJson.Model.Dec
