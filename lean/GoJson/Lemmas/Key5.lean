import GoJson.Lemmas.Key4
namespace GoJson.Model.Key

theorem Term_drop (l : List UInt8) (n : Nat) (h : Term l) (hn : n < l.length) : Term (l.drop n) := by
  unfold Term at *
  rw [List.getLast?_drop]
  simp [h]; omega

theorem Term_len (l : List UInt8) (h : Term l) : 1 ≤ l.length := by
  unfold Term at h
  cases l with
  | nil => simp at h
  | cons _ _ => simp

/-- four hex digits cannot be the end of a NUL-terminated text -/
theorem Term_hex4 (a b c d : UInt8) (rest : List UInt8) (h : Term (a :: b :: c :: d :: rest))
    (hd : isHex d = true) : 1 ≤ rest.length := by
  cases rest with
  | nil =>
    unfold Term at h
    simp at h
    subst h
    revert hd; decide
  | cons _ _ => simp

theorem skipRest_eq (n : Nat) : ∀ l : List UInt8, l.length ≤ n → Term l →
    skipRest l = (keyChars l).isSome := by
  induction n with
  | zero =>
    intro l hl ht
    have := Term_len l ht
    omega
  | succ n ih =>
    intro l hl ht
    cases l with
    | nil => have := Term_len _ ht; simp at this
    | cons c r =>
      unfold skipRest keyChars
      by_cases h34 : (c == 34) = true
      · simp [h34]
      by_cases h0 : c.toNat < 32
      · simp [h34, h0]
      have hc0 : (c == 0) = false := by
        cases h : (c == 0) with
        | false => rfl
        | true => rw [beq_iff_eq] at h; subst h; simp at h0
      have htr := Term_tail c r ht hc0
      simp only [List.length_cons] at hl
      by_cases h92 : (c == 92) = true
      · simp only [h34, h0, h92, if_true, if_false, Bool.false_eq_true]
        cases r with
        | nil => simp [esc]
        | cons e r2 =>
          simp only
          by_cases hs : isSimpleEsc e = true
          · obtain ⟨x, hx⟩ := esc_simple e r2 hs
            simp only [hs, if_true, hx, List.drop_succ_cons, List.drop_zero, Option.isSome_map]
            have he0 : (e == 0) = false := by
              cases h : (e == 0) with
              | false => rfl
              | true => rw [beq_iff_eq] at h; subst h; revert hs; decide
            have := Term_tail e r2 htr.1 he0
            simp only [List.length_cons] at hl
            exact ih r2 (by omega) this.1
          · simp only [hs, if_false, Bool.false_eq_true]
            by_cases hu : (e == 117) = true
            · simp only [hu, if_true]
              rw [beq_iff_eq] at hu; subst hu
              by_cases hh : (isHex (r2.getD 0 0) && isHex (r2.getD 1 0) && isHex (r2.getD 2 0) && isHex (r2.getD 3 0)) = true
              · simp only [hh, if_true]
                obtain ⟨a, b, c', d, rest, rfl, ha, hb, hc, hd⟩ := hex4_split r2 hh
                have ht2 := (Term_tail 117 _ htr.1 u_ne_zero).1
                have hlen := Term_hex4 a b c' d rest ht2 hd
                have htrest : Term rest := by
                  have := Term_drop _ 4 ht2 (by simp only [List.length_cons]; omega)
                  simpa using this
                simp only [List.length_cons] at hl
                simp only [List.drop_succ_cons, List.drop_zero]
                rcases esc_u_cases a b c' d rest ha hb hc hd hlen with ⟨x, hx⟩ | ⟨x, a2, b2, c2, d2, r3, hx, rfl, ha2, hb2, hc2, hd2⟩ | ⟨hx, hsk⟩
                · simp only [hx, List.drop_succ_cons, List.drop_zero, Option.isSome_map]
                  exact ih rest (by omega) htrest
                · simp only [hx, List.drop_succ_cons, List.drop_zero, Option.isSome_map]
                  rw [skipRest_u]
                  simp only [List.getD_cons_zero, List.getD_cons_succ, ha2, hb2, hc2, hd2, Bool.and_self, if_true,
                    List.drop_succ_cons, List.drop_zero]
                  have hl3 : 1 ≤ r3.length := by
                    have h1 := Term_drop _ 2 htrest (by simp only [List.length_cons]; omega)
                    simp only [List.drop_succ_cons, List.drop_zero] at h1
                    exact Term_hex4 a2 b2 c2 d2 r3 h1 hd2
                  have htr3 : Term r3 := by
                    have := Term_drop _ 6 htrest (by simp only [List.length_cons]; omega)
                    simpa using this
                  simp only [List.length_cons] at hl
                  exact ih r3 (by omega) htr3
                · simp [hx, hsk]
              · have hh' : (isHex (r2.getD 0 0) && isHex (r2.getD 1 0) && isHex (r2.getD 2 0) && isHex (r2.getD 3 0)) = false := by
                  simpa using hh
                simp only [hh', if_false, Bool.false_eq_true, esc_u_nohex r2 hh']
                rfl
            · have := esc_other e r2 (by simpa using hs) (by simpa using hu)
              simp [hu, this]
      · simp only [h34, h0, h92, if_false, Bool.false_eq_true, Option.isSome_map]
        exact ih r (by omega) htr.1

theorem scan_append_feed (names : List (List UInt8)) (w : Nat) (chars cs : List UInt8) :
    ∀ cur idx, scan names w cur idx (chars ++ cs) =
      match feed names cur idx chars with
      | .panic => .panic
      | .zero => .notFound
      | .cont c' i' => scan names w c' i' cs := by
  induction chars with
  | nil => intro cur idx; simp [feed]
  | cons c chars ih =>
    intro cur idx
    simp only [List.cons_append]
    conv => lhs; unfold scan
    unfold feed
    by_cases h1 : idx > maxLen names
    · simp [h1]
    · simp only [h1, if_false]
      by_cases h2 : cur &&& row names idx (lower c) = 0
      · simp [h2]
      · simp only [h2, if_false]
        exact ih _ _

end GoJson.Model.Key
