/- Helper lemmas about decimal numerals (Spec.Decimal). -/
import GoJson.Spec.Decimal

namespace GoJson.Spec

theorem decNat_lt10 {n : Nat} (h : n < 10) : decNat n = [digitByte n] := by
  rw [decNat]; simp [h]

theorem decNat_ge10 {n : Nat} (h : 10 ≤ n) : decNat n = decNat (n / 10) ++ [digitByte (n % 10)] := by
  rw [decNat]; simp [Nat.not_lt.mpr h]

/-- two more digits at once: the step of the encoder's loop -/
theorem decNat_ge100 {n : Nat} (h : 100 ≤ n) :
    decNat n = decNat (n / 100) ++ [digitByte (n % 100 / 10), digitByte (n % 10)] := by
  have h10 : 10 ≤ n := by omega
  have h1 : 10 ≤ n / 10 := by omega
  rw [decNat_ge10 h10, decNat_ge10 h1]
  have e1 : n / 10 / 10 = n / 100 := by omega
  have e2 : n / 10 % 10 = n % 100 / 10 := by omega
  simp [e1, e2]

theorem decNat_two {n : Nat} (h1 : 10 ≤ n) (h2 : n < 100) :
    decNat n = [digitByte (n / 10), digitByte (n % 10)] := by
  have : n / 10 < 10 := by omega
  rw [decNat_ge10 h1, decNat_lt10 this]; rfl

theorem decNat_ne_nil (n : Nat) : decNat n ≠ [] := by
  rw [decNat]; split <;> simp

theorem digitByte_toNat {d : Nat} (h : d < 10) : (digitByte d).toNat = 48 + d := by
  unfold digitByte
  simp [Nat.toUInt8, UInt8.toNat_ofNat']
  omega

/-- every byte of a numeral is an ASCII digit -/
theorem decNat_all_digits (n : Nat) : ∀ b ∈ decNat n, isDigit b = true := by
  induction n using Nat.strongRecOn with
  | _ n ih =>
    intro b hb
    by_cases h : n < 10
    · rw [decNat_lt10 h] at hb
      simp at hb; subst hb
      simp [isDigit, digitByte_toNat h]; omega
    · have h' : 10 ≤ n := Nat.not_lt.mp h
      rw [decNat_ge10 h'] at hb
      simp at hb
      rcases hb with hb | hb
      · exact ih (n / 10) (by omega) b hb
      · subst hb
        have : n % 10 < 10 := Nat.mod_lt _ (by omega)
        simp [isDigit, digitByte_toNat this]; omega

theorem valNat_append_digit (l : List UInt8) (b : UInt8) :
    valNat (l ++ [b]) = 10 * valNat l + (b.toNat - 48) := by
  simp [valNat, List.foldl_append]

/-- reading back a numeral gives the number: the spec's two halves agree -/
theorem valNat_decNat (n : Nat) : valNat (decNat n) = n := by
  induction n using Nat.strongRecOn with
  | _ n ih =>
    by_cases h : n < 10
    · rw [decNat_lt10 h]
      simp [valNat, digitByte_toNat h]
    · have h' : 10 ≤ n := Nat.not_lt.mp h
      rw [decNat_ge10 h', valNat_append_digit, ih (n / 10) (by omega)]
      have : n % 10 < 10 := Nat.mod_lt _ (by omega)
      rw [digitByte_toNat this]; omega

/-- numerals have no leading zero (except "0" itself) -/
theorem decNat_head (n : Nat) (h : 0 < n) : ∃ b rest, decNat n = b :: rest ∧ b ≠ 48 ∧ isDigit b = true := by
  induction n using Nat.strongRecOn with
  | _ n ih =>
    by_cases h10 : n < 10
    · refine ⟨digitByte n, [], decNat_lt10 h10, ?_, ?_⟩
      · intro hc
        have := congrArg UInt8.toNat hc
        rw [digitByte_toNat h10] at this; simp at this; omega
      · simp [isDigit, digitByte_toNat h10]; omega
    · have h' : 10 ≤ n := Nat.not_lt.mp h10
      obtain ⟨b, rest, e, hb, hd⟩ := ih (n / 10) (by omega) (by omega)
      exact ⟨b, rest ++ [digitByte (n % 10)], by rw [decNat_ge10 h', e]; rfl, hb, hd⟩

theorem decNat_length_le (n : Nat) (k : Nat) (h : n < 10 ^ (k + 1)) : (decNat n).length ≤ k + 1 := by
  induction k generalizing n with
  | zero => rw [decNat_lt10 (by simpa using h)]; simp
  | succ k ih =>
    by_cases h10 : n < 10
    · rw [decNat_lt10 h10]; simp
    · rw [decNat_ge10 (Nat.not_lt.mp h10)]
      have : n / 10 < 10 ^ (k + 1) := by
        rw [Nat.div_lt_iff_lt_mul (by omega)]
        rw [Nat.pow_succ] at h; exact h
      have := ih (n / 10) this
      simp; omega

end GoJson.Spec

namespace GoJson.Spec

theorem isJsonNat_decNat (n : Nat) : isJsonNat (decNat n) = true := by
  by_cases h : n = 0
  · subst h; rw [decNat_lt10 (by omega)]; simp [isJsonNat, isDigit, digitByte]
  · obtain ⟨b, rest, e, hb, hd⟩ := decNat_head n (by omega)
    have hall := decNat_all_digits n
    rw [e] at hall ⊢
    cases rest with
    | nil => simp [isJsonNat, hd]
    | cons c cs =>
      simp [isJsonNat, hd, hb]
      exact ⟨hall c (by simp), fun x hx => hall x (by simp [hx])⟩

theorem decNat_head_ne_minus (n : Nat) : ∀ r, decNat n ≠ 45 :: r := by
  intro r hc
  have := decNat_all_digits n 45 (by rw [hc]; simp)
  simp [isDigit] at this

theorem isJsonInt_decInt (i : Int) : isJsonInt (decInt i) = true := by
  unfold decInt
  split
  · simp [isJsonInt, isJsonNat_decNat]
  · unfold isJsonInt
    split
    · rename_i r heq; exact absurd heq (decNat_head_ne_minus _ r)
    · exact isJsonNat_decNat _

theorem valInt_decInt (i : Int) : valInt (decInt i) = i := by
  unfold decInt
  split
  · simp [valInt, valNat_decNat]; omega
  · unfold valInt
    split
    · rename_i r heq; exact absurd heq (decNat_head_ne_minus _ r)
    · rw [valNat_decNat]; omega

end GoJson.Spec
