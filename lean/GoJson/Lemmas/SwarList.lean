import GoJson.Lemmas.SwarClean
namespace GoJson.Model.Str
open GoJson

/-! ### trailing zeros -/

theorem tzAux_below (x : BitVec 64) (i fuel : Nat) (j : Nat) (hij : i ≤ j) (hj : j < tzAux x i fuel)
    (hfuel : i + fuel = 64) : x.getLsbD j = false := by
  induction fuel generalizing i with
  | zero =>
    -- i = 64: bits at or above 64 are false
    have : 64 ≤ j := by omega
    exact BitVec.getLsbD_of_ge x j this
  | succ f ih =>
    unfold tzAux at hj
    by_cases hb : x.getLsbD i = true
    · simp [hb] at hj; omega
    · simp only [hb, Bool.false_eq_true, ↓reduceIte] at hj
      by_cases e : i = j
      · subst e; simpa using hb
      · exact ih (i + 1) (by omega) hj (by omega)

theorem tzAux_le (x : BitVec 64) (i fuel : Nat) (hfuel : i + fuel = 64) : tzAux x i fuel ≤ 64 := by
  induction fuel generalizing i with
  | zero => simp [tzAux]
  | succ f ih =>
    unfold tzAux
    split
    · omega
    · exact ih (i + 1) (by omega)

theorem tz64_below (x : BitVec 64) (j : Nat) (hj : j < tz64 x) : x.getLsbD j = false :=
  tzAux_below x 0 64 j (Nat.zero_le _) hj rfl

theorem tz64_lt (x : BitVec 64) (hx : x ≠ 0#64) : tz64 x < 64 := by
  have hle := tzAux_le x 0 64 rfl
  by_cases h : tz64 x = 64
  · exfalso
    apply hx
    apply BitVec.eq_of_getLsbD_eq
    intro i hi
    simp only [BitVec.getLsbD_zero]
    exact tz64_below x i (by omega)
  · unfold tz64 at *; omega

/-! ### words of a byte list -/

theorem word_bytes (b0 b1 b2 b3 b4 b5 b6 b7 : UInt8) (rest : List UInt8) (k : Nat) (hk : k ≤ 7) :
    byteOf (word (b0 :: b1 :: b2 :: b3 :: b4 :: b5 :: b6 :: b7 :: rest)).toNat k =
      ((b0 :: b1 :: b2 :: b3 :: b4 :: b5 :: b6 :: b7 :: rest).getD k 0).toNat := by
  have h0 := b0.toNat_lt; have h1 := b1.toNat_lt; have h2 := b2.toNat_lt; have h3 := b3.toNat_lt
  have h4 := b4.toNat_lt; have h5 := b5.toNat_lt; have h6 := b6.toNat_lt; have h7 := b7.toNat_lt
  simp only [word, List.take, List.foldr, BitVec.toNat_ofNat, byteOf]
  match k, hk with
  | 0, _ => simp <;> omega
  | 1, _ => simp <;> omega
  | 2, _ => simp <;> omega
  | 3, _ => simp <;> omega
  | 4, _ => simp <;> omega
  | 5, _ => simp <;> omega
  | 6, _ => simp <;> omega
  | 7, _ => simp <;> omega

theorem flag_msb (j : Nat) (hj : j ≤ 7) : flag msb j = true := by
  match j, hj with
  | 0, _ => decide
  | 1, _ => decide
  | 2, _ => decide
  | 3, _ => decide
  | 4, _ => decide
  | 5, _ => decide
  | 6, _ => decide
  | 7, _ => decide

theorem flag_and_msb (t : BitVec 64) (j : Nat) (hj : j ≤ 7) : flag (t &&& msb) j = flag t j := by
  have := flag_msb j hj
  unfold flag at *
  simp [this]

end GoJson.Model.Str
