import GoJson.Lemmas.Frames2
namespace GoJson.Model.Frames

/-! ### length formulas -/

theorem totalLength_fits (ops : List Op) : fits ops (totalLength ops) = true := by
  rw [fits_iff]
  intro o ho s hs
  have h1 := slot_le_maxIdx o s hs
  have h2 := foldl_max_mem ops 0 o ho
  unfold totalLength
  omega

theorem fits_append (a b : List Op) (len : Nat) :
    fits (a ++ b) len = (fits a len && fits b len) := by
  simp [fits, List.all_append]

theorem recEnd_slots (t : Nat) : (recEnd t).slots = [t + 1, t + 2, t + 3] := by
  simp only [recEnd, Op.slots]
  congr 1
  · omega
  · congr 1
    · omega
    · congr 1; omega

theorem rec_frame_fits (body : List Op) :
    fits (body ++ [recEnd (totalLength body)]) (nextLen (totalLength body)) = true := by
  rw [fits_append, Bool.and_eq_true]
  constructor
  · exact fits_mono body _ _ (by unfold nextLen; omega) (totalLength_fits body)
  · rw [fits_iff]
    intro o ho s hs
    simp only [List.mem_cons, List.mem_nil_iff, or_false] at ho
    subst ho
    rw [recEnd_slots] at hs
    simp only [List.mem_cons, List.mem_nil_iff, or_false] at hs
    unfold nextLen
    omega

theorem old_rec_frame_short (body : List Op) :
    fits (body ++ [recEnd (totalLength body)]) (nextLenOld (totalLength body)) = false := by
  rw [Bool.eq_false_iff]
  intro h
  rw [fits_iff] at h
  have := h (recEnd (totalLength body)) (by simp) (totalLength body + 3) (by rw [recEnd_slots]; simp)
  unfold nextLenOld at this
  omega

theorem ifaceEnd_slots (e : Op) : (ifaceEnd e).slots = [e.idx / 8 + 1, e.idx / 8 + 2, e.idx / 8 + 3] := by
  simp only [ifaceEnd, Op.slots]
  congr 1
  · omega
  · congr 1
    · omega
    · congr 1; omega

theorem iface_frame_fits (body : List Op) (e : Op) :
    fits (body ++ [ifaceEnd e]) (ifaceNext (totalLength (body ++ [e]))) = true := by
  have hall := totalLength_fits (body ++ [e])
  rw [fits_append, Bool.and_eq_true] at hall
  rw [fits_append, Bool.and_eq_true]
  constructor
  · exact fits_mono body _ _ (by unfold ifaceNext; omega) hall.1
  · rw [fits_iff]
    intro o ho s hs
    simp only [List.mem_cons, List.mem_nil_iff, or_false] at ho
    subst ho
    rw [ifaceEnd_slots] at hs
    have he : e.idx / 8 < totalLength (body ++ [e]) := by
      have h1 : e.idx ≤ e.maxIdx := by unfold Op.maxIdx; omega
      have d1 := Nat.div_le_div_right (c := 8) h1
      have h2 := foldl_max_mem (body ++ [e]) 0 e (by simp)
      unfold totalLength
      omega
    simp only [List.mem_cons, List.mem_nil_iff, or_false] at hs
    unfold ifaceNext
    omega

/-! ### cycle detection -/

theorem goAll_nil (f : Nat → Option Bool) : goAll f [] = some true := rfl

theorem foldl_stuck (f : Nat → Option Bool) (cs : List Nat) (r : Option Bool) (h : r ≠ some true) :
    cs.foldl (goStep f) r = r := by
  induction cs with
  | nil => rfl
  | cons c cs ih =>
    simp only [List.foldl_cons]
    have : goStep f r c = r := by
      unfold goStep
      split
      · exact absurd rfl h
      · rfl
    rw [this]
    exact ih

theorem goAll_cons (f : Nat → Option Bool) (c : Nat) (cs : List Nat) :
    goAll f (c :: cs) = match f c with | some true => goAll f cs | r => r := by
  unfold goAll
  simp only [List.foldl_cons]
  have h0 : goStep f (some true) c = f c := rfl
  rw [h0]
  split
  · rename_i h; rw [h]
  · rename_i r h
    exact foldl_stuck f cs (f c) (by intro hc; exact h hc)

theorem goAll_true (f : Nat → Option Bool) (cs : List Nat) (h : goAll f cs = some true) :
    ∀ c ∈ cs, f c = some true := by
  induction cs with
  | nil => intro c hc; cases hc
  | cons a cs ih =>
    rw [goAll_cons] at h
    intro c hc
    simp only [List.mem_cons] at hc
    cases hfa : f a with
    | none => rw [hfa] at h; cases h
    | some b =>
      cases b with
      | false => rw [hfa] at h; cases h
      | true =>
        rw [hfa] at h
        rcases hc with rfl | hc
        · exact hfa
        · exact ih h c hc

theorem goAll_all_true (f : Nat → Option Bool) (cs : List Nat) (h : ∀ c ∈ cs, f c = some true) :
    goAll f cs = some true := by
  induction cs with
  | nil => rfl
  | cons a cs ih =>
    rw [goAll_cons, h a (by simp)]
    exact ih (fun c hc => h c (by simp [hc]))

theorem goAll_ne_none (f : Nat → Option Bool) (cs : List Nat) (h : ∀ c ∈ cs, f c ≠ none) :
    goAll f cs ≠ none := by
  induction cs with
  | nil => intro hc; cases hc
  | cons a cs ih =>
    rw [goAll_cons]
    have ha := h a (by simp)
    cases hfa : f a with
    | none => exact absurd hfa ha
    | some b =>
      cases b with
      | false => intro hc; cases hc
      | true => exact ih (fun c hc => h c (by simp [hc]))

/-- an acyclic graph (one with a rank that decreases along every edge) is encoded -/
theorem visit_acyclic (g : Nat → List Nat) (thr : Nat) (rank : Nat → Nat)
    (hr : ∀ p c, c ∈ g p → rank c < rank p) :
    ∀ fuel level seen p, rank p < fuel → (∀ x ∈ seen, rank p < rank x) →
      visit g thr fuel level seen p = some true := by
  intro fuel
  induction fuel with
  | zero => intro _ _ _ h; omega
  | succ fuel ih =>
    intro level seen p hf hs
    unfold visit
    have hnot : ¬ (level > thr ∧ p ∈ seen) := by
      intro ⟨_, hm⟩
      have := hs p hm
      omega
    rw [if_neg hnot]
    apply goAll_all_true
    intro c hc
    have hrc := hr p c hc
    apply ih
    · omega
    · intro x hx
      simp only [List.mem_cons] at hx
      rcases hx with rfl | hx
      · exact hrc
      · have := hs x hx; omega

/-- when the traversal reports success every walk from the value is shorter than the depth budget -/
theorem visit_true_bounds_walks (g : Nat → List Nat) (thr : Nat) :
    ∀ fuel level seen p, visit g thr fuel level seen p = some true →
      ∀ path, Walk g p path → path.length < fuel := by
  intro fuel
  induction fuel with
  | zero => intro _ _ _ h; simp [visit] at h
  | succ fuel ih =>
    intro level seen p h path hw
    unfold visit at h
    split at h
    · cases h
    · cases hw with
      | nil => simp
      | @cons _ c rest hc hrest =>
        have := goAll_true _ _ h c hc
        have := ih _ _ c this rest hrest
        simp only [List.length_cons]
        omega

theorem filter_len_le (l : List Nat) (q r : Nat → Bool) (h : ∀ x, q x = true → r x = true) :
    (l.filter q).length ≤ (l.filter r).length := by
  induction l with
  | nil => simp
  | cons a l ih =>
    simp only [List.filter_cons]
    cases hq : q a with
    | false =>
      cases hr : r a with
      | false => simpa using ih
      | true => simp only [Bool.false_eq_true, if_false, if_true, List.length_cons]; omega
    | true =>
      rw [h a hq]
      simp only [if_true, List.length_cons]
      omega

theorem filter_len_lt (l : List Nat) (q r : Nat → Bool) (h : ∀ x, q x = true → r x = true)
    (p : Nat) (hp : p ∈ l) (hr : r p = true) (hq : q p = false) :
    (l.filter q).length < (l.filter r).length := by
  induction l with
  | nil => cases hp
  | cons a l ih =>
    simp only [List.filter_cons]
    simp only [List.mem_cons] at hp
    by_cases hap : p = a
    · subst hap
      rw [hq, hr]
      have := filter_len_le l q r h
      simp only [Bool.false_eq_true, if_false, if_true, List.length_cons]
      omega
    · have hl : p ∈ l := by
        rcases hp with h1 | h1
        · exact absurd h1 hap
        · exact h1
      have := ih hl
      cases hqa : q a with
      | false =>
        cases hra : r a with
        | false => simpa using this
        | true => simp only [Bool.false_eq_true, if_false, if_true, List.length_cons]; omega
      | true =>
        rw [h a hqa]
        simp only [if_true, List.length_cons]
        omega

theorem fresh_cons_le (N : Nat) (seen : List Nat) (p : Nat) : fresh N (p :: seen) ≤ fresh N seen := by
  unfold fresh
  apply filter_len_le
  intro x hx
  simp only [decide_eq_true_eq, List.mem_cons, not_or] at *
  exact hx.2

theorem fresh_cons_lt (N : Nat) (seen : List Nat) (p : Nat) (hp : p < N) (hs : p ∉ seen) :
    fresh N (p :: seen) < fresh N seen := by
  unfold fresh
  apply filter_len_lt _ _ _ _ p (List.mem_range.mpr hp)
  · simpa using hs
  · simp
  · intro x hx
    simp only [decide_eq_true_eq, List.mem_cons, not_or] at *
    exact hx.2

theorem fresh_nil (N : Nat) : fresh N [] = N := by
  unfold fresh
  have : (List.range N).filter (fun x => decide (x ∉ ([] : List Nat))) = List.range N := by
    apply List.filter_eq_self.mpr
    intro a _
    simp
  rw [this, List.length_range]

/-- the traversal of a graph with N nodes never needs more than thr + N + 2 levels: whatever the
graph, the recursion is bounded -/
theorem visit_depth_bounded (g : Nat → List Nat) (thr N : Nat) (hg : ∀ p, p < N → ∀ c ∈ g p, c < N) :
    ∀ fuel level seen p, p < N → (thr + 1 - level) + fresh N seen + 1 ≤ fuel →
      visit g thr fuel level seen p ≠ none := by
  intro fuel
  induction fuel with
  | zero => intro _ _ _ _ h; omega
  | succ fuel ih =>
    intro level seen p hp hf
    unfold visit
    split
    · intro hc; cases hc
    · rename_i hnot
      apply goAll_ne_none
      intro c hc
      apply ih _ _ c (hg p hp c hc)
      have hle := fresh_cons_le N seen p
      by_cases hl : level > thr
      · have hps : p ∉ seen := fun hm => hnot ⟨hl, hm⟩
        have := fresh_cons_lt N seen p hp hps
        omega
      · omega

end GoJson.Model.Frames
