import GoJson.Lemmas.Compact1
namespace GoJson.Model.Compact
open GoJson GoJson.Spec

theorem skipWs_split (s : List UInt8) :
    ∃ w, s = w ++ skipWs s ∧ AllWs w ∧ (∀ b r, skipWs s = b :: r → isWsByte b = false) := by
  rw [skipWs_eq]; exact BufDec.skipWs_split s

theorem cstring_sound (s o rest : List UInt8) (h : cstring false s = .ok o rest) :
    ∃ items, (∀ i ∈ items, i.wf true = true) ∧ s = 34 :: renderAll items ++ 34 :: rest ∧
      o = 34 :: renderAll items ++ [34] := by
  unfold cstring at h
  split at h
  · rename_i r
    cases hb : cbody false r with
    | none => simp [hb] at h
    | some p =>
      obtain ⟨o', rest'⟩ := p
      simp only [hb, CR.ok.injEq] at h
      obtain ⟨rfl, rfl⟩ := h
      obtain ⟨items, hw, hl, ho⟩ := cbody_sound r o' rest' hb
      exact ⟨items, hw, by rw [hl]; rfl, by rw [ho]; rfl⟩
  · simp at h

theorem cnumber_sound (b : UInt8) (r o rest : List UInt8) (h : cnumber b r = .ok o rest) :
    b :: r = o ++ rest ∧ isNumber o = true := by
  unfold cnumber at h
  simp only at h
  split at h
  · rename_i hn
    simp only [CR.ok.injEq] at h
    obtain ⟨rfl, rfl⟩ := h
    refine ⟨?_, hn⟩
    rw [munch_eq]; simp only [List.cons_append]; rw [← BufDec.munch_split]
  · simp at h

theorem clit_sound (e s o rest : List UInt8) (h : clit e s = .ok o rest) : s = e ++ rest ∧ o = e := by
  unfold clit at h
  split at h
  · simp at h
  · split at h
    · rename_i h1 h2
      simp only [CR.ok.injEq] at h
      obtain ⟨ho, hr⟩ := h
      have : List.take e.length s = e := by simpa using h2
      refine ⟨?_, ho.symm⟩
      rw [← hr]
      conv => lhs; rw [← List.take_append_drop e.length s]
      rw [this]
    · simp at h

def SoundV (lay : Layout) (fuel : Nat) : Prop :=
  ∀ depth s o rest, cvalue false lay fuel depth s = .ok o rest →
    ∃ w v, s = w ++ v ++ rest ∧ AllWs w ∧ CVal lay depth v o
def SoundE (lay : Layout) (fuel : Nat) : Prop :=
  ∀ depth s o rest, celements false lay fuel depth s = .ok o rest →
    ∃ body, s = body ++ 93 :: rest ∧ CElems lay depth body o
def SoundM (lay : Layout) (fuel : Nat) : Prop :=
  ∀ depth s o rest, cmembers false lay fuel depth s = .ok o rest →
    ∃ body, s = body ++ 125 :: rest ∧ CMems lay depth body o

theorem celems_prepend_ws (lay : Layout) (n : Nat) (w body o : List UInt8) (hw : AllWs w)
    (h : CElems lay n body o) : CElems lay n (w ++ body) o := by
  cases h with
  | one _ w1 v w2 o' h1 hv h2 =>
    have := CElems.one (lay := lay) n (w ++ w1) v w2 o' (BufDec.allWs_append hw h1) hv h2
    simpa [List.append_assoc] using this
  | more _ w1 v w2 rest o' o2 h1 hv h2 hr =>
    have := CElems.more (lay := lay) n (w ++ w1) v w2 rest o' o2 (BufDec.allWs_append hw h1) hv h2 hr
    simpa [List.append_assoc] using this

theorem cmems_prepend_ws (lay : Layout) (n : Nat) (w body o : List UInt8) (hw : AllWs w)
    (h : CMems lay n body o) : CMems lay n (w ++ body) o := by
  cases h with
  | one _ w1 key w2 w3 v w4 o' h1 hk h2 h3 hv h4 =>
    have := CMems.one (lay := lay) n (w ++ w1) key w2 w3 v w4 o' (BufDec.allWs_append hw h1) hk h2 h3 hv h4
    simpa [List.append_assoc] using this
  | more _ w1 key w2 w3 v w4 rest o' o2 h1 hk h2 h3 hv h4 hr =>
    have := CMems.more (lay := lay) n (w ++ w1) key w2 w3 v w4 rest o' o2 (BufDec.allWs_append hw h1) hk h2 h3 hv h4 hr
    simpa [List.append_assoc] using this

theorem soundV_step (lay : Layout) (f : Nat) (hE : SoundE lay f) (hM : SoundM lay f) : SoundV lay (f + 1) := by
  intro depth s o rest h
  unfold cvalue at h
  obtain ⟨w, hs, hw, _⟩ := skipWs_split s
  cases hsk : skipWs s with
  | nil => simp [hsk] at h
  | cons b r =>
    rw [hsk] at h hs
    simp only at h
    by_cases hb1 : (b == 123) = true
    · have hb : b = 123 := by simpa using hb1
      subst hb
      simp only [beq_self_eq_true, ↓reduceIte] at h
      by_cases hdep : depth + 1 > maxDepth
      · simp [hdep] at h
      · simp only [hdep, ↓reduceIte] at h
        obtain ⟨w2, hr, hw2, _⟩ := skipWs_split r
        cases hsk2 : skipWs r with
        | nil => simp [hsk2] at h
        | cons c r2 =>
          rw [hsk2] at h hr
          simp only at h
          by_cases hc : (c == 125) = true
          · have : c = 125 := by simpa using hc
            subst this
            simp only [beq_self_eq_true, ↓reduceIte, CR.ok.injEq] at h
            obtain ⟨rfl, rfl⟩ := h
            exact ⟨w, 123 :: w2 ++ [125], by rw [hs, hr]; simp, hw, CVal.objEmpty _ w2 (by omega) hw2⟩
          · simp only [hc, Bool.false_eq_true, ↓reduceIte] at h
            cases hm : cmembers false lay f (depth + 1) (c :: r2) with
            | err => simp [hm] at h
            | oob => simp [hm] at h
            | ok o' rest' =>
              simp only [hm, CR.ok.injEq] at h
              obtain ⟨rfl, rfl⟩ := h
              obtain ⟨body, hbody, hmem⟩ := hM (depth + 1) (c :: r2) o' rest' hm
              refine ⟨w, 123 :: (w2 ++ body) ++ [125], by rw [hs, hr, hbody]; simp, hw, ?_⟩
              exact CVal.obj _ (w2 ++ body) o' (by omega) (cmems_prepend_ws _ _ _ _ _ hw2 hmem)
    · simp only [hb1, Bool.false_eq_true, ↓reduceIte] at h
      by_cases hb2 : (b == 91) = true
      · have hb : b = 91 := by simpa using hb2
        subst hb
        simp only [beq_self_eq_true, ↓reduceIte] at h
        by_cases hdep : depth + 1 > maxDepth
        · simp [hdep] at h
        · simp only [hdep, ↓reduceIte] at h
          obtain ⟨w2, hr, hw2, _⟩ := skipWs_split r
          cases hsk2 : skipWs r with
          | nil => simp [hsk2] at h
          | cons c r2 =>
            rw [hsk2] at h hr
            simp only at h
            by_cases hc : (c == 93) = true
            · have : c = 93 := by simpa using hc
              subst this
              simp only [beq_self_eq_true, ↓reduceIte, CR.ok.injEq] at h
              obtain ⟨rfl, rfl⟩ := h
              exact ⟨w, 91 :: w2 ++ [93], by rw [hs, hr]; simp, hw, CVal.arrEmpty _ w2 (by omega) hw2⟩
            · simp only [hc, Bool.false_eq_true, ↓reduceIte] at h
              cases hm : celements false lay f (depth + 1) (c :: r2) with
              | err => simp [hm] at h
              | oob => simp [hm] at h
              | ok o' rest' =>
                simp only [hm, CR.ok.injEq] at h
                obtain ⟨rfl, rfl⟩ := h
                obtain ⟨body, hbody, hel⟩ := hE (depth + 1) (c :: r2) o' rest' hm
                refine ⟨w, 91 :: (w2 ++ body) ++ [93], by rw [hs, hr, hbody]; simp, hw, ?_⟩
                exact CVal.arr _ (w2 ++ body) o' (by omega) (celems_prepend_ws _ _ _ _ _ hw2 hel)
      · simp only [hb2, Bool.false_eq_true, ↓reduceIte] at h
        by_cases hb4 : (b == 34) = true
        · have hb : b = 34 := by simpa using hb4
          subst hb
          simp only [beq_self_eq_true, ↓reduceIte] at h
          obtain ⟨items, hwf, hr, ho⟩ := cstring_sound _ o rest h
          refine ⟨w, 34 :: renderAll items ++ [34], by rw [hs, hr]; simp, hw, ?_⟩
          rw [ho]; exact CVal.str _ items hwf
        · simp only [hb4, Bool.false_eq_true, ↓reduceIte] at h
          by_cases hb3 : (b == 45 || (decide (48 ≤ b.toNat) && decide (b.toNat ≤ 57))) = true
          · simp only [hb3, ↓reduceIte] at h
            obtain ⟨ht, hn⟩ := cnumber_sound b r o rest h
            exact ⟨w, o, by rw [hs, ht]; simp, hw, CVal.num _ o hn⟩
          · simp only [hb3, Bool.false_eq_true, ↓reduceIte] at h
            by_cases hb5 : (b == 116) = true
            · simp only [hb5, ↓reduceIte] at h
              obtain ⟨h1, rfl⟩ := clit_sound _ _ _ _ h
              exact ⟨w, [116, 114, 117, 101], by rw [hs, h1]; simp, hw, CVal.true_ _⟩
            · simp only [hb5, Bool.false_eq_true, ↓reduceIte] at h
              by_cases hb6 : (b == 102) = true
              · simp only [hb6, ↓reduceIte] at h
                obtain ⟨h1, rfl⟩ := clit_sound _ _ _ _ h
                exact ⟨w, [102, 97, 108, 115, 101], by rw [hs, h1]; simp, hw, CVal.false_ _⟩
              · simp only [hb6, Bool.false_eq_true, ↓reduceIte] at h
                by_cases hb7 : (b == 110) = true
                · simp only [hb7, ↓reduceIte] at h
                  obtain ⟨h1, rfl⟩ := clit_sound _ _ _ _ h
                  exact ⟨w, [110, 117, 108, 108], by rw [hs, h1]; simp, hw, CVal.null _⟩
                · simp [hb7] at h


theorem soundE_step (lay : Layout) (f : Nat) (hV : SoundV lay f) (hE : SoundE lay f) : SoundE lay (f + 1) := by
  intro depth s o rest h
  unfold celements at h
  cases hv : cvalue false lay f depth s with
  | err => simp [hv] at h
  | oob => simp [hv] at h
  | ok o1 rest1 =>
    rw [hv] at h
    simp only at h
    obtain ⟨w, v, hs, hw, hval⟩ := hV depth s o1 rest1 hv
    obtain ⟨w2, hr, hw2, _⟩ := skipWs_split rest1
    cases hsk : skipWs rest1 with
    | nil => simp [hsk] at h
    | cons c r =>
      rw [hsk] at h hr
      simp only at h
      by_cases hc : (c == 93) = true
      · have : c = 93 := by simpa using hc
        subst this
        simp only [beq_self_eq_true, ↓reduceIte, CR.ok.injEq] at h
        obtain ⟨rfl, rfl⟩ := h
        exact ⟨w ++ v ++ w2, by rw [hs, hr]; simp, CElems.one _ w v w2 o1 hw hval hw2⟩
      · simp only [hc, Bool.false_eq_true, ↓reduceIte] at h
        by_cases hc2 : (c == 44) = true
        · have : c = 44 := by simpa using hc2
          subst this
          simp only [beq_self_eq_true, ↓reduceIte] at h
          cases he : celements false lay f depth r with
          | err => simp [he] at h
          | oob => simp [he] at h
          | ok o2 rest2 =>
            simp only [he, CR.ok.injEq] at h
            obtain ⟨rfl, rfl⟩ := h
            obtain ⟨body, hbody, hel⟩ := hE depth r o2 rest2 he
            exact ⟨w ++ v ++ w2 ++ 44 :: body, by rw [hs, hr, hbody]; simp,
              CElems.more _ w v w2 body o1 o2 hw hval hw2 hel⟩
        · simp [hc2] at h

theorem soundM_step (lay : Layout) (f : Nat) (hV : SoundV lay f) (hM : SoundM lay f) : SoundM lay (f + 1) := by
  intro depth s o rest h
  unfold cmembers at h
  obtain ⟨w1, hs, hw1, _⟩ := skipWs_split s
  cases hst : cstring false (skipWs s) with
  | err => simp [hst] at h
  | oob => simp [hst] at h
  | ok k afterKey =>
    rw [hst] at h
    simp only at h
    obtain ⟨key, hkwf, hkr, hko⟩ := cstring_sound _ k afterKey hst
    obtain ⟨w2, hak, hw2, _⟩ := skipWs_split afterKey
    cases hsk2 : skipWs afterKey with
    | nil => simp [hsk2] at h
    | cons c r2 =>
      rw [hsk2] at h hak
      simp only at h
      by_cases hc : (c != 58) = true
      · simp [hc] at h
      · have hc' : c = 58 := by simpa using hc
        subst hc'
        simp only [bne_self_eq_false, Bool.false_eq_true, ↓reduceIte] at h
        cases hv : cvalue false lay f depth r2 with
        | err => simp [hv] at h
        | oob => simp [hv] at h
        | ok o1 rest1 =>
          rw [hv] at h
          simp only at h
          obtain ⟨w3, v, hr2, hw3, hval⟩ := hV depth r2 o1 rest1 hv
          obtain ⟨w4, hr1, hw4, _⟩ := skipWs_split rest1
          cases hsk3 : skipWs rest1 with
          | nil => simp [hsk3] at h
          | cons e r3 =>
            rw [hsk3] at h hr1
            simp only at h
            by_cases he : (e == 125) = true
            · have : e = 125 := by simpa using he
              subst this
              simp only [beq_self_eq_true, ↓reduceIte, CR.ok.injEq] at h
              obtain ⟨rfl, rfl⟩ := h
              refine ⟨w1 ++ (34 :: renderAll key ++ [34]) ++ w2 ++ 58 :: (w3 ++ v ++ w4), ?_, ?_⟩
              · rw [hs, hkr, hak, hr2, hr1]; simp
              · rw [hko]; exact CMems.one _ w1 key w2 w3 v w4 o1 hw1 hkwf hw2 hw3 hval hw4
            · simp only [he, Bool.false_eq_true, ↓reduceIte] at h
              by_cases he2 : (e == 44) = true
              · have : e = 44 := by simpa using he2
                subst this
                simp only [beq_self_eq_true, ↓reduceIte] at h
                cases hm : cmembers false lay f depth r3 with
                | err => simp [hm] at h
                | oob => simp [hm] at h
                | ok o2 rest2 =>
                  simp only [hm, CR.ok.injEq] at h
                  obtain ⟨rfl, rfl⟩ := h
                  obtain ⟨body, hbody, hmem⟩ := hM depth r3 o2 rest2 hm
                  refine ⟨w1 ++ (34 :: renderAll key ++ [34]) ++ w2 ++ 58 :: (w3 ++ v ++ w4) ++ 44 :: body, ?_, ?_⟩
                  · rw [hs, hkr, hak, hr2, hr1, hbody]; simp
                  · rw [hko]; exact CMems.more _ w1 key w2 w3 v w4 body o1 o2 hw1 hkwf hw2 hw3 hval hw4 hmem
              · simp [he2] at h

theorem sound_all (lay : Layout) (fuel : Nat) : SoundV lay fuel ∧ SoundE lay fuel ∧ SoundM lay fuel := by
  induction fuel with
  | zero =>
    refine ⟨?_, ?_, ?_⟩
    · intro d s o r h; unfold cvalue at h; simp at h
    · intro d s o r h; unfold celements at h; simp at h
    · intro d s o r h; unfold cmembers at h; simp at h
  | succ f ih =>
    obtain ⟨hV, hE, hM⟩ := ih
    exact ⟨soundV_step lay f hE hM, soundE_step lay f hV hE, soundM_step lay f hV hM⟩

end GoJson.Model.Compact
