import GoJson.Lemmas.Dec3
namespace GoJson.Model.Dec
open GoJson GoJson.Spec GoJson.Model.BufDec GoJson.Model.StrDec GoJson.Model.Enc GoJson.Model.Compact

theorem stop_93 (rest : List UInt8) : Stop (93 :: rest) := ⟨93, rest, rfl, Or.inr (Or.inl rfl)⟩
theorem stop_125 (rest : List UInt8) : Stop (125 :: rest) := ⟨125, rest, rfl, Or.inr (Or.inr (Or.inl rfl))⟩
theorem stop_44 (rest : List UInt8) : Stop (44 :: rest) := ⟨44, rest, rfl, Or.inl rfl⟩

theorem escape_sem (html : Bool) (s : List UInt8) :
    ∃ items : List Item, Str.escape html true s = 34 :: renderAll items ++ [34] ∧
      (∀ i ∈ items, i.wf true = true) ∧ sem items = coerceUtf8 s := by
  obtain ⟨items, hr, hg, hs⟩ := GoJson.Props.C17.escape_faithful_norm html s
  exact ⟨items, hr, fun i hi => (hg i hi).1, hs⟩

theorem toJMs_nil (html : Bool) : ∀ (ms : GMs) (m : Nat), encMs html none m ms = some [] → toJMs ms = .nil
  | .nil, _, _ => by simp [toJMs]
  | .cons k om q v r, m, h => by
    simp only [encMs] at h
    by_cases hs : (om && isEmpty v) = true
    · simp only [hs, if_true] at h
      simp only [toJMs, hs, if_true]
      exact toJMs_nil html r m h
    · simp only [hs, if_false, Bool.false_eq_true] at h
      split at h
      · simp at h
      · cases h

theorem encMs_head (html : Bool) : ∀ (ms : GMs) (m : Nat) (x : List UInt8) (xs : List (List UInt8)),
    encMs html none m ms = some (x :: xs) → ∃ t, x = 34 :: t
  | .nil, _, _, _, h => by simp [encMs] at h
  | .cons k om q v r, m, x, xs, h => by
    simp only [encMs] at h
    by_cases hs : (om && isEmpty v) = true
    · simp only [hs, if_true] at h
      exact encMs_head html r m x xs h
    · simp only [hs, if_false, Bool.false_eq_true] at h
      split at h
      · rename_i o os _ _
        simp only [Option.some.injEq, List.cons.injEq] at h
        obtain ⟨items, hk, _, _⟩ := escape_sem html k
        refine ⟨renderAll items ++ [34] ++ colon none ++ o, ?_⟩
        rw [← h.1, hk]
        simp
      · cases h

mutual
theorem value_enc (html : Bool) : ∀ (v : GV) (n d f : Nat) (o rest : List UInt8),
    plain v = true → n + height v ≤ Compact.maxDepth → d + height v ≤ BufDec.maxDepth →
    enc html none n v = some o → need v ≤ f → Stop rest →
    value false f d (o ++ rest) = .ok (toJT v) rest
  | .null, n, d, f, o, rest, _, _, _, he, hf, _ => by
    simp only [need] at hf
    obtain ⟨f', rfl⟩ : ∃ f', f = f' + 1 := ⟨f - 1, by omega⟩
    simp only [enc, Option.some.injEq] at he; subst he
    exact value_null rest f' d
  | .bool b, n, d, f, o, rest, _, _, _, he, hf, _ => by
    simp only [need] at hf
    obtain ⟨f', rfl⟩ : ∃ f', f = f' + 1 := ⟨f - 1, by omega⟩
    simp only [enc, Option.some.injEq] at he; subst he
    cases b
    · exact value_false rest f' d
    · exact value_true rest f' d
  | .int i, n, d, f, o, rest, _, _, _, he, hf, hs => by
    simp only [need] at hf
    obtain ⟨f', rfl⟩ : ∃ f', f = f' + 1 := ⟨f - 1, by omega⟩
    simp only [enc, Option.some.injEq] at he; subst he
    exact value_number _ rest (isNumber_decInt i) hs f' d
  | .num t z, n, d, f, o, rest, _, _, _, he, hf, hs => by
    simp only [need] at hf
    obtain ⟨f', rfl⟩ : ∃ f', f = f' + 1 := ⟨f - 1, by omega⟩
    simp only [enc] at he
    split at he
    · rename_i hn
      simp only [Option.some.injEq] at he; subst he
      exact value_number _ rest hn hs f' d
    · cases he
  | .str s, n, d, f, o, rest, _, _, _, he, hf, _ => by
    simp only [need] at hf
    obtain ⟨f', rfl⟩ : ∃ f', f = f' + 1 := ⟨f - 1, by omega⟩
    simp only [enc, Option.some.injEq] at he; subst he
    obtain ⟨items, hr, hw, hsem⟩ := escape_sem html s
    rw [hr, value_string items rest hw f' d, hsem]
    rfl
  | .raw t, n, d, f, o, rest, hp, _, _, _, _, _ => by simp [plain] at hp
  | .ptr v, n, d, f, o, rest, hp, hn, hd, he, hf, hs => by
    simp only [plain] at hp
    simp only [height] at hn hd
    simp only [enc] at he
    simp only [need] at hf
    simp only [toJT]
    exact value_enc html v n d f o rest hp hn hd he hf hs
  | .arr es, n, d, f, o, rest, hp, hn, hd, he, hf, hs => by
    simp only [plain] at hp
    simp only [height] at hn hd
    simp only [need] at hf
    obtain ⟨f', rfl⟩ : ∃ f', f = f' + 1 := ⟨f - 1, by omega⟩
    simp only [enc] at he
    cases hos : encEs html none (n + 1) es with
    | none => simp [hos] at he
    | some os =>
      simp only [hos, Option.map_some, Option.some.injEq] at he
      subst he
      simp only [toJT]
      cases os with
      | nil =>
        have hes : es = .nil := by
          cases es with
          | nil => rfl
          | cons v r =>
            simp only [encEs] at hos
            cases a : enc html none (n + 1) v <;> cases b : encEs html none (n + 1) r <;> simp [a, b] at hos
        subst hes
        simp only [assemble_nil, toJTs]
        exact value_arr_empty rest f' d (by omega)
      | cons x xs =>
        have hel := elements_enc html es (n + 1) (d + 1) f' (x :: xs) rest n hp (by omega) (by omega) hos
          (by simp) (by omega)
        rw [assemble_none_cons]
        -- the first byte after `[`
        have hx : ∃ b t, x = b :: t ∧ isWsByte b = false ∧ b ≠ 93 := by
          cases es with
          | nil => simp [encEs] at hos
          | cons v r =>
            simp only [plainEs, Bool.and_eq_true] at hp
            simp only [heightEs] at hn
            simp only [encEs] at hos
            cases a : enc html none (n + 1) v with
            | none => simp [a] at hos
            | some o1 =>
              cases b : encEs html none (n + 1) r with
              | none => simp [a, b] at hos
              | some os1 =>
                simp only [a, b, Option.some.injEq, List.cons.injEq] at hos
                obtain ⟨b0, t0, h0, hw0, h93, _⟩ := enc_head html v (n + 1) o1 (plain_noRaw v hp.1) (by omega) a
                exact ⟨b0, t0, by rw [← hos.1, h0], hw0, h93⟩
        obtain ⟨b0, t0, hx0, hw0, h93⟩ := hx
        have hj : ∃ r2, joinItems none n (x :: xs) ++ [93] ++ rest = b0 :: r2 ∧
            joinItems none n (x :: xs) ++ 93 :: rest = b0 :: r2 := by
          cases xs with
          | nil => exact ⟨t0 ++ 93 :: rest, by simp [joinItems_none_one, hx0], by simp [joinItems_none_one, hx0]⟩
          | cons y ys => exact ⟨t0 ++ 44 :: joinItems none n (y :: ys) ++ 93 :: rest,
              by simp [joinItems_none_cons, hx0], by simp [joinItems_none_cons, hx0]⟩
        obtain ⟨r2, hj1, hj2⟩ := hj
        have e : (91 :: (joinItems none n (x :: xs) ++ [93])) ++ rest = 91 :: b0 :: r2 := by
          simp only [List.cons_append, List.append_assoc] at hj1 ⊢
          rw [← hj1]
        rw [e]
        rw [hj2] at hel
        exact value_arr_cons b0 r2 f' d (by omega) hw0 h93 _ rest hel
  | .obj isMap ms, n, d, f, o, rest, hp, hn, hd, he, hf, hs => by
    simp only [plain] at hp
    simp only [height] at hn hd
    simp only [need] at hf
    obtain ⟨f', rfl⟩ : ∃ f', f = f' + 1 := ⟨f - 1, by omega⟩
    simp only [enc] at he
    cases hos : encMs html none (n + 1) ms with
    | none => simp [hos] at he
    | some os =>
      simp only [hos, Option.map_some, Option.some.injEq] at he
      subst he
      simp only [toJT]
      cases os with
      | nil =>
        have hnil := toJMs_nil html ms (n + 1) hos
        rw [hnil]
        simp only [assemble_nil]
        exact value_obj_empty rest f' d (by omega)
      | cons x xs =>
        have hel := members_enc html ms (n + 1) (d + 1) f' (x :: xs) rest n hp (by omega) (by omega) hos
          (by simp) (by omega)
        rw [assemble_none_cons]
        have hx : ∃ t, x = 34 :: t := encMs_head html ms (n + 1) x xs hos
        obtain ⟨t0, hx0⟩ := hx
        have hj : ∃ r2, joinItems none n (x :: xs) ++ [125] ++ rest = 34 :: r2 ∧
            joinItems none n (x :: xs) ++ 125 :: rest = 34 :: r2 := by
          cases xs with
          | nil => exact ⟨t0 ++ 125 :: rest, by simp [joinItems_none_one, hx0], by simp [joinItems_none_one, hx0]⟩
          | cons y ys => exact ⟨t0 ++ 44 :: joinItems none n (y :: ys) ++ 125 :: rest,
              by simp [joinItems_none_cons, hx0], by simp [joinItems_none_cons, hx0]⟩
        obtain ⟨r2, hj1, hj2⟩ := hj
        have e : (123 :: (joinItems none n (x :: xs) ++ [125])) ++ rest = 123 :: 34 :: r2 := by
          simp only [List.cons_append, List.append_assoc] at hj1 ⊢
          rw [← hj1]
        rw [e]
        rw [hj2] at hel
        exact value_obj_cons 34 r2 f' d (by omega) (by decide) (by decide) _ rest hel

theorem elements_enc (html : Bool) : ∀ (es : GVs) (m d f : Nat) (os : List (List UInt8)) (rest : List UInt8) (k : Nat),
    plainEs es = true → m + heightEs es ≤ Compact.maxDepth → d + heightEs es ≤ BufDec.maxDepth →
    encEs html none m es = some os → os ≠ [] → needEs es ≤ f →
    elements false f d (joinItems none k os ++ 93 :: rest) = .ok (toJTs es) rest
  | .nil, m, d, f, os, rest, k, _, _, _, he, hne, _ => by
    simp only [encEs, Option.some.injEq] at he
    exact absurd he.symm hne
  | .cons v r, m, d, f, os, rest, k, hp, hn, hd, he, _, hf => by
    simp only [plainEs, Bool.and_eq_true] at hp
    simp only [heightEs] at hn hd
    simp only [needEs] at hf
    obtain ⟨f', rfl⟩ : ∃ f', f = f' + 1 := ⟨f - 1, by omega⟩
    simp only [encEs] at he
    cases a : enc html none m v with
    | none => simp [a] at he
    | some o1 =>
      cases b : encEs html none m r with
      | none => simp [a, b] at he
      | some os1 =>
        simp only [a, b, Option.some.injEq] at he
        subst he
        simp only [toJTs]
        cases os1 with
        | nil =>
          have hr : r = .nil := by
            cases r with
            | nil => rfl
            | cons v2 r2 =>
              simp only [encEs] at b
              cases a2 : enc html none m v2 <;> cases b2 : encEs html none m r2 <;> simp [a2, b2] at b
          subst hr
          rw [joinItems_none_one]
          simp only [toJTs]
          exact elements_last o1 rest _ f' d
            (value_enc html v m d f' o1 (93 :: rest) hp.1 (by omega) (by omega) a (by omega) (stop_93 rest))
        | cons o2 os2 =>
          rw [joinItems_none_cons]
          have hv := value_enc html v m d f' o1 (44 :: (joinItems none k (o2 :: os2) ++ 93 :: rest)) hp.1
            (by omega) (by omega) a (by omega) (stop_44 _)
          have hrest := elements_enc html r m d f' (o2 :: os2) rest k hp.2 (by omega) (by omega) b (by simp) (by omega)
          have := elements_more o1 (joinItems none k (o2 :: os2) ++ 93 :: rest) rest _ _ f' d hv hrest
          simpa using this

theorem members_enc (html : Bool) : ∀ (ms : GMs) (m d f : Nat) (os : List (List UInt8)) (rest : List UInt8) (k : Nat),
    plainMs ms = true → m + heightMs ms ≤ Compact.maxDepth → d + heightMs ms ≤ BufDec.maxDepth →
    encMs html none m ms = some os → os ≠ [] → needMs ms ≤ f →
    members false f d (joinItems none k os ++ 125 :: rest) = .ok (toJMs ms) rest
  | .nil, m, d, f, os, rest, k, _, _, _, he, hne, _ => by
    simp only [encMs, Option.some.injEq] at he
    exact absurd he.symm hne
  | .cons key om q v r, m, d, f, os, rest, k, hp, hn, hd, he, hne, hf => by
    simp only [plainMs, Bool.and_eq_true, Bool.not_eq_true'] at hp
    obtain ⟨⟨hq, hpv⟩, hpr⟩ := hp
    subst hq
    simp only [heightMs] at hn hd
    simp only [needMs] at hf
    simp only [encMs] at he
    by_cases hskip : (om && isEmpty v) = true
    · simp only [hskip, if_true] at he hf
      simp only [toJMs, hskip, if_true]
      exact members_enc html r m d f os rest k hpr (by omega) (by omega) he hne hf
    · simp only [hskip, if_false, Bool.false_eq_true] at he hf
      obtain ⟨f', rfl⟩ : ∃ f', f = f' + 1 := ⟨f - 1, by omega⟩
      simp only [toJMs, hskip, if_false, Bool.false_eq_true]
      cases a : enc html none m v with
      | none => simp [a] at he
      | some o1 =>
        cases b : encMs html none m r with
        | none => simp [a, b] at he
        | some os1 =>
          simp only [a, b, Option.some.injEq] at he
          subst he
          obtain ⟨items, hk, hw, hsem⟩ := escape_sem html key
          rw [colon_none, hk, ← hsem]
          cases os1 with
          | nil =>
            have hnil := toJMs_nil html r m b
            rw [hnil, joinItems_none_one]
            have hv := value_enc html v m d f' o1 (125 :: rest) hpv (by omega) (by omega) a (by omega) (stop_125 rest)
            have := members_last items o1 rest _ f' d hw hv
            simpa using this
          | cons o2 os2 =>
            rw [joinItems_none_cons]
            have hv := value_enc html v m d f' o1 (44 :: (joinItems none k (o2 :: os2) ++ 125 :: rest)) hpv
              (by omega) (by omega) a (by omega) (stop_44 _)
            have hrest := members_enc html r m d f' (o2 :: os2) rest k hpr (by omega) (by omega) b (by simp) (by omega)
            have := members_more items o1 (joinItems none k (o2 :: os2) ++ 125 :: rest) rest _ _ f' d hw hv hrest
            simpa using this
end

end GoJson.Model.Dec
