import GoJson.Lemmas.Frames1
namespace GoJson.Model.Frames

theorem pushesOk_rec {ops : List Op} {len : Nat} {ext : Nat → Nat} (h : pushesOk ops len ext = true)
    {o : Op} (ho : o ∈ ops) {cur next tgt : Nat} (hk : o.kind = .recur cur next tgt) :
    len ≤ cur ∧ ext tgt ≤ next := by
  unfold pushesOk at h
  rw [List.all_eq_true] at h
  have := h o ho
  rw [hk] at this
  simpa using this

theorem pushesOk_iface {ops : List Op} {len : Nat} {ext : Nat → Nat} (h : pushesOk ops len ext = true)
    {o : Op} (ho : o ∈ ops) (hk : o.kind = .iface) : len ≤ ifaceCur o.length := by
  unfold pushesOk at h
  rw [List.all_eq_true] at h
  have := h o ho
  rw [hk] at this
  simpa using this

/-- the state after a call: a new frame behind the current one is stacked -/
theorem Stacked_push {L b len cur next n : Nat} {rest : List Frame}
    (hs : Stacked L (⟨b, len⟩ :: rest)) (h1 : len ≤ cur) (h2 : n ≤ next) :
    Stacked (max L (b + cur + next)) (⟨b + cur, n⟩ :: ⟨b, len⟩ :: rest) := by
  obtain ⟨hb, hr, hrest⟩ := hs
  refine ⟨?_, ?_, Stacked_mono (Nat.le_max_left _ _) _ ⟨hb, hr, hrest⟩⟩
  · show b + cur + n ≤ max L (b + cur + next)
    omega
  · intro g hg
    simp only [List.mem_cons] at hg
    rcases hg with rfl | hg
    · show b + len ≤ b + cur
      omega
    · have := hr g hg
      show g.base + g.len ≤ b + cur
      simp only at this
      omega

/-- **every execution of well-formed programs is safe**: all slot accesses are in bounds, in the
current frame, and the current frame lies behind every other live frame; the frame stack is back
where it was when the program ends -/
theorem runs_safe (recs : Nat → Prog) (hrec : ∀ i, WF recs (recs i)) {P : Prog} {evs : List Ev}
    (h : Runs recs P evs) : WF recs P → ∀ (L b : Nat) (rest : List Frame),
      Stacked L (⟨b, P.len⟩ :: rest) →
      ∃ L', L ≤ L' ∧ run ⟨L, ⟨b, P.len⟩ :: rest⟩ evs = some ⟨L', ⟨b, P.len⟩ :: rest⟩ ∧
        Safe ⟨L, ⟨b, P.len⟩ :: rest⟩ evs := by
  induction h with
  | nil => intro _ L b rest _; exact ⟨L, Nat.le_refl _, rfl, trivial⟩
  | @acc P o slot es ho hs _ ih =>
    intro hP L b rest hst
    obtain ⟨L', hL, hrun, hsafe⟩ := ih hP L b rest hst
    have hlt : slot < P.len := (fits_iff _ _).mp hP.1 o ho slot hs
    refine ⟨L', hL, ?_, ?_⟩
    · simpa [run, step] using hrun
    · simp only [Safe, step]
      refine ⟨?_, hsafe⟩
      simp only [accSafe]
      obtain ⟨hb, hr, _⟩ := hst
      simp only at hb
      exact ⟨by omega, hlt, hr⟩
  | @callRec P o cur next tgt inner es ho hk _ _ ihin ihes =>
    intro hP L b rest hst
    obtain ⟨hc, hn⟩ := pushesOk_rec hP.2 ho hk
    have hst1 := Stacked_push (next := next) hst hc hn
    obtain ⟨L1, hL1, hrun1, hsafe1⟩ := ihin (hrec tgt) _ _ _ hst1
    have hst2 : Stacked L1 (⟨b, P.len⟩ :: rest) :=
      Stacked_mono (Nat.le_trans (Nat.le_max_left _ _) hL1) _ hst
    obtain ⟨L2, hL2, hrun2, hsafe2⟩ := ihes hP L1 b rest hst2
    refine ⟨L2, by omega, ?_, ?_⟩
    · simp only [run, step]
      rw [run_append, hrun1]
      simpa [run, step] using hrun2
    · simp only [Safe, step, true_and]
      refine Safe_append _ _ _ _ hsafe1 hrun1 ?_
      simp only [Safe, step, true_and]
      exact hsafe2
  | @callIface P o Q inner es ho hk hQ _ _ ihin ihes =>
    intro hP L b rest hst
    have hc := pushesOk_iface hP.2 ho hk
    have hst1 := Stacked_push (next := Q.len) hst hc (Nat.le_refl _)
    obtain ⟨L1, hL1, hrun1, hsafe1⟩ := ihin hQ _ _ _ hst1
    have hst2 : Stacked L1 (⟨b, P.len⟩ :: rest) :=
      Stacked_mono (Nat.le_trans (Nat.le_max_left _ _) hL1) _ hst
    obtain ⟨L2, hL2, hrun2, hsafe2⟩ := ihes hP L1 b rest hst2
    refine ⟨L2, by omega, ?_, ?_⟩
    · simp only [run, step]
      rw [run_append, hrun1]
      simpa [run, step] using hrun2
    · simp only [Safe, step, true_and]
      refine Safe_append _ _ _ _ hsafe1 hrun1 ?_
      simp only [Safe, step, true_and]
      exact hsafe2

end GoJson.Model.Frames
